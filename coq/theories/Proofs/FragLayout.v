(** * Layout independence for FRAGMENTED files (property C12 beyond [rd_moofs ra = []])

    Part A (track level): two fragment lists that agree in everything but the recorded moof offsets
    ([Forall2 fr_same]) answer [sample_count], [sample_size], [sample_time], [sample_rendering_offset],
    [is_sync_sample] identically — no hypothesis on the fragments — and whenever [sample_offset] succeeds on
    both, the two offsets differ by exactly the displacement of the moof of the fragment that holds the sample
    (0 when the tfhd carries an explicit [base_data_offset]); [read_sample] returns the same sample when the
    bytes at the two offsets are the same.

    Part B (top level): a fragmented file as ANY list of top-level items
      [TFtyp w ft | TMoov w v | TMoof w mf | TMdat w media | TSkip child | TEmsg w e]
    in any order ([w]: 64-bit header form; [TSkip]: any box the loop skips).  [tl_open]: [open_fuel] on the
    rendering returns the reader with the ftyp, the moov, the moof and emsg values in list order, and track views
    holding [traf_fragrun traf pos], [pos] = the number of bytes rendered before the [TMoof] item
    ([tl_moofs_app], [tl_moof_position]).

    Part C: two item lists with the same logical content open to readers with the same ftyp, moov, moofs,
    track ids, per-sample sizes / times / durations / composition offsets / sync flags, and sample offsets
    shifted by exactly the displacement of the moof ([tl_layout], [tl_layout_consistent], [tl_layout_read]). *)
From MP4 Require Import Reader Fragment FragProofs MuxOpenKit LayoutOpenS FragFile.
From MP4 Require Import LayoutKit LayoutProofs LayoutMore LayoutOpen KitCont RtMoov RtMoof RtFtyp IsoFtyp IsoMoov IsoMoof IsoFile.
From MP4 Require Import LayoutTreeMono RtEmsg IsoEmsg.
From Coq Require Import Lia ZArith ZifyN ZifyNat ZifyBool.
Open Scope string_scope.
Open Scope list_scope.
Open Scope N_scope.

(** ** Part A: fragment lists up to the moof offsets *)

(** the fragment with another moof offset *)
Definition fr_at (o : N) (f : fragrun) : fragrun :=
  mkFragrun o (fr_base_data_offset f) (fr_default_duration f) (fr_tfdt f) (fr_has_trun f) (fr_flags f)
            (fr_sample_count f) (fr_data_offset f) (fr_durations f) (fr_sizes f) (fr_cts f).

(** the same track fragment, wherever its moof is *)
Definition fr_same (f g : fragrun) : Prop := fr_at 0 f = fr_at 0 g.

Lemma traf_fragrun_same tf p q : fr_same (traf_fragrun tf p) (traf_fragrun tf q).
Proof. reflexivity. Qed.

Ltac same_inv H :=
  match type of H with
  | fr_same ?f ?g =>
      destruct f as [sa_mo1 sa_bdo sa_dd sa_tfdt sa_ht sa_fl sa_sc sa_do sa_du sa_sz sa_ct],
               g as [sa_mo2 sa_bdo2 sa_dd2 sa_tfdt2 sa_ht2 sa_fl2 sa_sc2 sa_do2 sa_du2 sa_sz2 sa_ct2];
      unfold fr_same, fr_at in H;
      cbn [fr_base_data_offset fr_default_duration fr_tfdt fr_has_trun fr_flags fr_sample_count
           fr_data_offset fr_durations fr_sizes fr_cts] in H;
      injection H as -> -> -> -> -> -> -> -> -> ->
  end.

Lemma find_traf_from_same fa fb : Forall2 fr_same fa fb ->
  forall idx off g, find_traf_from fa idx off g = find_traf_from fb idx off g.
Proof.
  induction 1 as [|f g fa fb Hfg _ IH]; intros idx off gi; [reflexivity|].
  same_inv Hfg. cbn [find_traf_from fr_has_trun fr_sample_count].
  destruct sa_ht2; [|apply IH].
  destruct (gi - off <? sa_sc2); [reflexivity|].
  destruct (checked_add U32 off sa_sc2); [apply IH | reflexivity].
Qed.

Lemma frag_sample_count_same fa fb : Forall2 fr_same fa fb -> frag_sample_count fa = frag_sample_count fb.
Proof.
  unfold frag_sample_count. intros H. generalize 0.
  induction H as [|f g fa fb Hfg _ IH]; intros acc; [reflexivity|].
  same_inv Hfg. cbn [fold_left fr_has_trun fr_sample_count]. apply IH.
Qed.

Lemma Forall2_nthN {A B} (R : A -> B -> Prop) la lb : Forall2 R la lb ->
  forall i, match nthN la i, nthN lb i with
            | Some a, Some b => R a b
            | None, None => True
            | _, _ => False
            end.
Proof.
  induction 1 as [|a b la lb Hab _ IH]; intros i; cbn [nthN]; [exact I|].
  destruct (i =? 0); [exact Hab | apply IH].
Qed.

Lemma Forall2_lenN {A B} (R : A -> B -> Prop) la lb : Forall2 R la lb -> lenN la = lenN lb.
Proof. intros H. unfold lenN. now rewrite (Forall2_len _ _ _ H). Qed.

Lemma sum_run_sizes_delta l : forall cnt a b ra rb,
  sum_run_sizes l cnt a = Ok ra -> sum_run_sizes l cnt b = Ok rb ->
  (Z.of_N rb - Z.of_N ra = Z.of_N b - Z.of_N a)%Z.
Proof.
  induction l as [|x l IH]; intros cnt a b ra rb Ha Hb; cbn [sum_run_sizes] in Ha, Hb.
  - destruct (cnt =? 0); [|discriminate]. injection Ha as <-. injection Hb as <-. reflexivity.
  - destruct (cnt =? 0); [injection Ha as <-; injection Hb as <-; reflexivity|].
    unfold checked_add in Ha, Hb.
    destruct (a + x <? U64); [|discriminate]. destruct (b + x <? U64); [|discriminate].
    pose proof (IH _ _ _ _ _ Ha Hb) as E. clear -E. lia.
Qed.

Section SameTrack.
  Variables (id : N) (tb : tables) (d : N) (fa fb : list fragrun).
  Hypothesis Hsame : Forall2 fr_same fa fb.

  Let tA := mkTrack id tb fa d.
  Let tB := mkTrack id tb fb d.

  Lemma find_traf_same k : find_traf tA k = find_traf tB k.
  Proof.
    unfold find_traf, tA, tB. cbn [tr_frags]. destruct (checked_sub k 1); [|reflexivity].
    now apply find_traf_from_same.
  Qed.

  Lemma sample_count_same : sample_count tA = sample_count tB.
  Proof.
    unfold sample_count, tA, tB. cbn [tr_frags tr_tables].
    pose proof (frag_sample_count_same fa fb Hsame) as E.
    destruct Hsame; [reflexivity | exact E].
  Qed.

  Lemma sample_size_same k : sample_size tA k = sample_size tB k.
  Proof.
    unfold sample_size. rewrite find_traf_same. unfold tA, tB. cbn [tr_frags tr_tables].
    pose proof (Forall2_nthN _ _ _ Hsame) as Hn.
    destruct Hsame as [|f g fa' fb' _ _]; [reflexivity|].
    destruct (find_traf (mkTrack id tb (g :: fb') d) k) as [[ti si]|]; [|reflexivity].
    specialize (Hn ti).
    destruct (nthN (f :: fa') ti) as [x|], (nthN (g :: fb') ti) as [y|]; try contradiction; [|reflexivity].
    same_inv Hn. reflexivity.
  Qed.

  Lemma sample_time_same m k : sample_time m tA k = sample_time m tB k.
  Proof.
    unfold sample_time. rewrite find_traf_same. unfold tA, tB. cbn [tr_frags tr_tables tr_default_sample_duration].
    pose proof (Forall2_nthN _ _ _ Hsame) as Hn.
    destruct Hsame as [|f g fa' fb' _ _]; [reflexivity|].
    destruct (find_traf (mkTrack id tb (g :: fb') d) k) as [[ti si]|]; [|reflexivity].
    specialize (Hn ti).
    destruct (nthN (f :: fa') ti) as [x|], (nthN (g :: fb') ti) as [y|]; try contradiction; [|reflexivity].
    same_inv Hn. reflexivity.
  Qed.

  Lemma sample_rendering_offset_same k : sample_rendering_offset tA k = sample_rendering_offset tB k.
  Proof.
    unfold sample_rendering_offset. rewrite find_traf_same. unfold tA, tB. cbn [tr_frags tr_tables].
    pose proof (Forall2_nthN _ _ _ Hsame) as Hn.
    destruct Hsame as [|f g fa' fb' _ _]; [reflexivity|].
    destruct (find_traf (mkTrack id tb (g :: fb') d) k) as [[ti si]|]; [|reflexivity].
    specialize (Hn ti).
    destruct (nthN (f :: fa') ti) as [x|], (nthN (g :: fb') ti) as [y|]; try contradiction; [|reflexivity].
    same_inv Hn. reflexivity.
  Qed.

  Lemma is_sync_sample_same k : is_sync_sample tA k = is_sync_sample tB k.
  Proof.
    unfold is_sync_sample. rewrite sample_count_same. unfold tA, tB. cbn [tr_frags tr_tables].
    pose proof (Forall2_lenN _ _ _ Hsame) as Hl.
    destruct Hsame as [|f g fa' fb' _ _]; [reflexivity|]. rewrite Hl. reflexivity.
  Qed.

  (** the offsets: whenever both lookups succeed, they differ by the displacement of the moof of the
      fragment that holds the sample; by nothing when the tfhd has an explicit base data offset *)
  Lemma sample_offset_same m m' k oa ob : fa <> [] ->
    sample_offset m tA k = Ok oa -> sample_offset m' tB k = Ok ob ->
    exists i j f g, find_traf tA k = Some (i, j) /\ nthN fa i = Some f /\ nthN fb i = Some g /\ fr_same f g /\
      (Z.of_N ob - Z.of_N oa
       = match fr_base_data_offset f with
         | Some _ => 0
         | None => Z.of_N (fr_moof_offset g) - Z.of_N (fr_moof_offset f)
         end)%Z.
  Proof.
    intros Hne. unfold sample_offset. rewrite <- find_traf_same. unfold tA, tB. cbn [tr_frags tr_tables].
    pose proof (Forall2_nthN _ _ _ Hsame) as Hn.
    destruct Hsame as [|f0 g0 fa' fb' _ _]; [congruence|].
    destruct (find_traf (mkTrack id tb (f0 :: fa') d) k) as [[ti si]|]; [|discriminate].
    specialize (Hn ti).
    destruct (nthN (f0 :: fa') ti) as [x|] eqn:Ex, (nthN (g0 :: fb') ti) as [y|] eqn:Ey; try contradiction; [|discriminate].
    intros Ha Hb. exists ti, si, x, y. split; [reflexivity|]. split; [exact Ex|]. split; [exact Ey|].
    split; [exact Hn|]. clear Ex Ey.
    same_inv Hn.
    cbn [fr_base_data_offset fr_moof_offset fr_has_trun fr_data_offset fr_sizes] in *.
    match type of Ha with res_bind ?X _ = _ => destruct X as [offa| | |] eqn:Ea; try discriminate Ha end.
    match type of Hb with res_bind ?X _ = _ => destruct X as [offb| | |] eqn:Eb; try discriminate Hb end.
    cbn [res_bind] in Ha, Hb.
    match type of Ha with res_bind ?X _ = _ => destruct X; try discriminate Ha end.
    match type of Hb with res_bind ?X _ = _ => destruct X; try discriminate Hb end.
    cbn [res_bind] in Ha, Hb.
    pose proof (sum_run_sizes_delta _ _ _ _ _ _ Ha Hb) as E. rewrite E. clear Ha Hb E.
    match type of Ea with match ?X with _ => _ end = _ => destruct X as [dd|] end.
    - match type of Ea with (if ?c then _ else _) = _ => destruct c eqn:Ca; [discriminate|] end.
      match type of Eb with (if ?c then _ else _) = _ => destruct c eqn:Cb; [discriminate|] end.
      injection Ea as <-. injection Eb as <-.
      apply Bool.orb_false_iff in Ca as [Ca _]. apply Bool.orb_false_iff in Cb as [Cb _].
      apply Z.ltb_ge in Ca, Cb. rewrite !Z2N.id by assumption.
      match goal with |- context [match ?o with Some _ => _ | None => _ end] => destruct o end; lia.
    - injection Ea as <-. injection Eb as <-.
      match goal with |- context [match ?o with Some _ => _ | None => _ end] => destruct o end; lia.
  Qed.

  (** [read_sample]: the same sample when the bytes at the two offsets are the same *)
  Lemma read_sample_same m k s s' oa ob sz h :
    stream_wf s -> stream_wf s' ->
    sample_offset m tA k = Ok oa -> sample_offset m tB k = Ok ob ->
    sample_size tA k = Ok sz ->
    (sz = 0 \/ (exists r, splitN sz (dropN oa (s_data s)) = Some (h, r)) /\
               (exists r', splitN sz (dropN ob (s_data s')) = Some (h, r'))) ->
    fst (run (read_sample m tA k) s) = fst (run (read_sample m tB k) s').
  Proof.
    intros Hs Hs' Hoa Hob Hsz Hbytes.
    unfold read_sample.
    rewrite Hoa, Hob, <- sample_size_same, Hsz, <- sample_time_same, <- is_sync_sample_same,
            <- sample_rendering_offset_same.
    unfold seek_to, rd_exact, alloc. cbn [bind run].
    pose proof (seek_abs_wf s oa Hs) as [_ V]. pose proof (seek_abs_wf s' ob Hs') as [_ V'].
    assert (D : s_data (seek_abs s oa) = s_data s) by (unfold seek_abs; destruct (s_pos s <=? oa); reflexivity).
    assert (D' : s_data (seek_abs s' ob) = s_data s') by (unfold seek_abs; destruct (s_pos s' <=? ob); reflexivity).
    assert (P : s_pos (seek_abs s oa) = oa) by (unfold seek_abs; destruct (s_pos s <=? oa); reflexivity).
    assert (P' : s_pos (seek_abs s' ob) = ob) by (unfold seek_abs; destruct (s_pos s' <=? ob); reflexivity).
    rewrite V, V', D, D', P, P'.
    destruct (N.eqb_spec sz 0) as [Z|NZ].
    - destruct (sample_time m tA k) as [[st du]| | |]; cbn [lift bind run fst]; try reflexivity.
      destruct (is_sync_sample tA k); reflexivity.
    - destruct Hbytes as [Z|[[r E] [r' E']]]; [contradiction|]. rewrite E, E'.
      destruct (sample_time m tA k) as [[st du]| | |]; cbn [lift bind run fst]; try reflexivity.
      destruct (is_sync_sample tA k); reflexivity.
  Qed.
End SameTrack.

(** ** Part B: a fragmented file as a list of top-level items, in any order *)

Inductive titem :=
| TFtyp (w : bool) (ft : ftyp)
| TMoov (w : bool) (v : moov)
| TMoof (w : bool) (mf : moof)
| TMdat (w : bool) (media : bytes)
| TSkip (c : child)           (* any box the top-level loop skips: free, skip, mdat, unknown codes, ... *)
| TEmsg (w : bool) (e : emsg).

Definition EMSG : N := 0x656d7367.

Definition ti_child (it : titem) : child :=
  match it with
  | TFtyp w ft => mkChild w FTYP (iso_ftyp_payload ft)
  | TMoov w v => mkChild w MOOV (iso_moov_payload v)
  | TMoof w mf => mkChild w MOOF (iso_moof_payload mf)
  | TMdat w media => mkChild w MDAT media
  | TSkip c => c
  | TEmsg w e => mkChild w EMSG (iso_emsg_payload e)
  end.

Definition ti_item (it : titem) : open_item :=
  match it with
  | TFtyp _ ft => OI_ftyp ft
  | TMoov _ v => OI_moov v
  | TMoof _ mf => OI_moof mf
  | TMdat _ _ => OI_skip
  | TSkip _ => OI_skip
  | TEmsg _ e => OI_emsg e
  end.

Definition ti_len (it : titem) : N := c_len (ti_child it).
Definition tl_children (L : list titem) : list child := map ti_child L.
Definition tl_bytes (L : list titem) : bytes := render (tl_children L).

(** the logical content: the ftyp values, the moov values, the moof values, in list order *)
Definition tl_ftyps (L : list titem) : list ftyp :=
  flat_map (fun it => match it with TFtyp _ ft => [ft] | _ => [] end) L.
Definition tl_moovs (L : list titem) : list moov :=
  flat_map (fun it => match it with TMoov _ v => [v] | _ => [] end) L.
Definition tl_moof_vals (L : list titem) : list moof :=
  flat_map (fun it => match it with TMoof _ mf => [mf] | _ => [] end) L.
Definition tl_emsgs (L : list titem) : list emsg :=
  flat_map (fun it => match it with TEmsg _ e => [e] | _ => [] end) L.
Definition logical (L : list titem) : list ftyp * list moov * list moof * list emsg :=
  (tl_ftyps L, tl_moovs L, tl_moof_vals L, tl_emsgs L).

(** the moof values with the number of bytes rendered before their boxes, the list starting at position [p] *)
Fixpoint tl_moofs (p : N) (L : list titem) : list (moof * N) :=
  match L with
  | [] => []
  | it :: t => (match it with TMoof _ mf => [(mf, p)] | _ => [] end) ++ tl_moofs (p + ti_len it) t
  end.

Lemma tl_bytes_app L1 L2 : tl_bytes (L1 ++ L2) = tl_bytes L1 ++ tl_bytes L2.
Proof. unfold tl_bytes, tl_children. rewrite map_app. apply ff_render_app. Qed.

Lemma tl_bytes_cons it L : tl_bytes (it :: L) = c_bytes (ti_child it) ++ tl_bytes L.
Proof. reflexivity. Qed.

Lemma lenN_tl_bytes_cons it L : lenN (tl_bytes (it :: L)) = ti_len it + lenN (tl_bytes L).
Proof. rewrite tl_bytes_cons, lenN_app, lenN_c_bytes. reflexivity. Qed.

Lemma tl_moofs_fst : forall L p, map fst (tl_moofs p L) = tl_moof_vals L.
Proof.
  induction L as [|it L IH]; intros p; [reflexivity|].
  cbn [tl_moofs]. unfold tl_moof_vals in *. cbn [flat_map]. rewrite map_app, IH. destruct it; reflexivity.
Qed.

(** the position recorded for a moof is the number of bytes rendered before its item *)
Lemma tl_moofs_app : forall L1 L2 p,
  tl_moofs p (L1 ++ L2) = tl_moofs p L1 ++ tl_moofs (p + lenN (tl_bytes L1)) L2.
Proof.
  induction L1 as [|it L1 IH]; intros L2 p.
  - cbn [app tl_moofs]. change (lenN (tl_bytes [])) with 0. now rewrite N.add_0_r.
  - cbn [app tl_moofs]. rewrite IH, <- app_assoc, lenN_tl_bytes_cons, N.add_assoc. reflexivity.
Qed.

Lemma tl_moofs_at L1 w mf L2 :
  tl_moofs 0 (L1 ++ TMoof w mf :: L2)
  = tl_moofs 0 L1 ++ (mf, lenN (tl_bytes L1)) :: tl_moofs (lenN (tl_bytes (L1 ++ [TMoof w mf]))) L2.
Proof.
  rewrite tl_moofs_app. cbn [tl_moofs app]. rewrite N.add_0_l.
  replace (lenN (tl_bytes (L1 ++ [TMoof w mf]))) with (lenN (tl_bytes L1) + ti_len (TMoof w mf)); [reflexivity|].
  rewrite tl_bytes_app, lenN_app, lenN_tl_bytes_cons. change (lenN (tl_bytes [])) with 0. lia.
Qed.

(** every recorded moof is a [TMoof] item of the list, and its position is where its box starts *)
Lemma tl_moofs_nth : forall L p i mf q, nth_error (tl_moofs p L) i = Some (mf, q) ->
  exists L1 w L2, L = L1 ++ TMoof w mf :: L2 /\ q = p + lenN (tl_bytes L1) /\ length (tl_moof_vals L1) = i.
Proof.
  induction L as [|it L IH]; intros p i mf q H; [destruct i; discriminate H|].
  cbn [tl_moofs] in H.
  assert (Hother : (match it with TMoof _ _ => False | _ => True end) ->
                   nth_error (tl_moofs (p + ti_len it) L) i = Some (mf, q) ->
                   exists L1 w L2, it :: L = L1 ++ TMoof w mf :: L2 /\ q = p + lenN (tl_bytes L1) /\ length (tl_moof_vals L1) = i).
  { intros Hit H'. destruct (IH _ _ _ _ H') as (L1 & w & L2 & -> & -> & Hl).
    exists (it :: L1), w, L2. split; [reflexivity|]. split; [rewrite lenN_tl_bytes_cons; lia|].
    unfold tl_moof_vals in *. cbn [flat_map]. destruct it; try exact Hl. destruct Hit. }
  destruct it as [w ft|w v|w mf0|w media|c|w e]; cbn [app] in H; try (apply Hother; [exact I | exact H]).
  destruct i as [|i]; cbn [nth_error] in H.
  - injection H as -> ->. exists [], w, L. split; [reflexivity|]. change (lenN (tl_bytes [])) with 0. split; [lia|reflexivity].
  - destruct (IH _ _ _ _ H) as (L1 & w' & L2 & -> & -> & Hl).
    exists (TMoof w mf0 :: L1), w', L2. split; [reflexivity|]. split; [rewrite lenN_tl_bytes_cons; lia|].
    unfold tl_moof_vals in *. cbn [flat_map app length]. now rewrite Hl.
Qed.

Theorem tl_moof_position L i mf q : nth_error (tl_moofs 0 L) i = Some (mf, q) ->
  exists w pre post, tl_bytes L = pre ++ c_bytes (mkChild w MOOF (iso_moof_payload mf)) ++ post /\ lenN pre = q.
Proof.
  intros H. destruct (tl_moofs_nth _ _ _ _ _ H) as (L1 & w & L2 & -> & -> & _).
  exists w, (tl_bytes L1), (tl_bytes L2). rewrite tl_bytes_app, tl_bytes_cons. split; [reflexivity|lia].
Qed.

(** ** The accumulator of the top-level loop *)
Definition last_opt {A} (l : list A) (d : option A) : option A := fold_left (fun _ x => Some x) l d.

Lemma tl_put_all : forall L p ft mv moofs offs emsgs,
  open_put_all p (tl_children L) (map ti_item L) (ft, mv, moofs, offs, emsgs)
  = (last_opt (tl_ftyps L) ft, last_opt (tl_moovs L) mv,
     moofs ++ map fst (tl_moofs p L), offs ++ map snd (tl_moofs p L), emsgs ++ tl_emsgs L).
Proof.
  induction L as [|it L IH]; intros p ft mv moofs offs emsgs.
  - cbn [tl_children map open_put_all tl_ftyps tl_moovs tl_emsgs tl_moofs flat_map last_opt fold_left]. now rewrite !app_nil_r.
  - unfold tl_children in *. cbn [map open_put_all tl_moofs]. fold (ti_len it).
    unfold tl_ftyps, tl_moovs, tl_emsgs in *. cbn [flat_map].
    destruct it as [w x|w x|w x|w media|c|w x]; cbn [ti_item open_put app map fst snd last_opt fold_left];
      rewrite IH; unfold last_opt; rewrite <- ?app_assoc; reflexivity.
Qed.

(** ** The items decode *)
Definition titem_ok (it : titem) : Prop :=
  match it with
  | TFtyp _ ft => ftyp_wf ft = true /\ ftyp_size ft < U32
  | TMoov _ v => moov_rt_wf v = true /\ moov_size v < U32
  | TMoof _ mf => moof_rt_wf mf = true /\ moof_size mf < U32
  | TMdat w media => w = false -> 8 + lenN media < U32      (* the 32-bit header form can carry the payload *)
  | TSkip c => child_wf c /\ open_known (boxtype_of_u32 (c_code c)) = false
  | TEmsg _ e => emsg_wf e = true /\ emsg_size e < U32
  end.

Definition ti_fuel (it : titem) : nat :=
  match it with TMoov _ v => moov_fuel v | TMoof _ mf => moof_fuel mf | _ => 0%nat end.

Definition tl_fuel0 (L : list titem) : nat := list_max (map ti_fuel L).
(** fuel that is enough for [open_fuel] *)
Definition tl_fuel (L : list titem) : nat := (tl_fuel0 L + length L)%nat.

Lemma ti_child_wf it : titem_ok it -> ti_len it < 2 ^ 63 -> child_wf (ti_child it).
Proof.
  intros Hok Hl. destruct it as [w ft|w v|w mf|w media|c|w e]; cbn [titem_ok ti_child] in *.
  - destruct Hok as [Hw Hs]. destruct (ftyp_roundtrip ft Hw Hs) as (_ & _ & _ & Hplen & _).
    apply (child_wf_sized w FTYP _ (ftyp_size ft)); [vm_compute; reflexivity | exact Hplen | exact Hs].
  - destruct Hok as [Hw Hs]. destruct (moov_roundtrip Dbg v Hw Hs) as (_ & _ & _ & Hplen & _).
    apply (child_wf_sized w MOOV _ (moov_size v)); [vm_compute; reflexivity | exact Hplen | exact Hs].
  - destruct Hok as [Hw Hs]. destruct (moof_roundtrip Dbg mf Hw Hs) as (_ & _ & _ & Hplen & _).
    apply (child_wf_sized w MOOF _ (moof_size mf)); [vm_compute; reflexivity | exact Hplen | exact Hs].
  - unfold child_wf. cbn [c_w64 c_code c_payload]. split; [vm_compute; reflexivity|].
    unfold ti_len, c_len, c_hlen in Hl. cbn [ti_child c_w64 c_payload] in Hl.
    destruct w; [|now apply Hok]. unfold U64. change (2 ^ 63) with 9223372036854775808 in Hl.
    change (2 ^ 64) with 18446744073709551616. clear -Hl. lia.
  - exact (proj1 Hok).
  - destruct Hok as [Hw Hs]. destruct (emsg_roundtrip e Hw Hs) as (_ & _ & _ & Hplen & _).
    apply (child_wf_sized w EMSG _ (emsg_size e)); [vm_compute; reflexivity | exact Hplen | exact Hs].
Qed.

Lemma bt_emsg : boxtype_of_u32 0x656d7367 = EmsgBox. Proof. vm_compute. reflexivity. Qed.

Lemma open_child_emsg m w64 v : emsg_wf v = true -> emsg_size v < U32 ->
  decodes_to (open_body m) 0 (mkChild w64 0x656d7367 (iso_emsg_payload v)) (OI_emsg v).
Proof.
  intros Hw Hs. apply (decodes_to_leaf (open_body m) dec_emsg m OI_emsg EmsgBox); [exact bt_emsg | reflexivity |].
  exact (leaf_child_decodes0 _ _ _ _ _ _ emsg_roundtrip v Hw Hs).
Qed.

Lemma ti_decodes m it : titem_ok it -> decodes_to_s (open_body m) (ti_fuel it) (ti_child it) (ti_item it).
Proof.
  intros Hok. destruct it as [w ft|w v|w mf|w media|c|w e]; cbn [titem_ok ti_child ti_item ti_fuel] in *.
  - destruct Hok as [Hw Hs]. apply decodes_to_s_of. unfold FTYP. now apply open_child_ftyp.
  - destruct Hok as [Hw Hs]. unfold MOOV. now apply (open_child_moov_rt m w Dbg).
  - destruct Hok as [Hw Hs]. apply decodes_to_s_of. now apply open_child_moof_rt.
  - apply decodes_to_s_of. unfold MDAT. apply open_child_mdat.
  - apply decodes_to_s_of. apply open_child_skip. exact (proj2 Hok).
  - destruct Hok as [Hw Hs]. apply decodes_to_s_of. unfold EMSG. now apply open_child_emsg.
Qed.

Lemma ti_len_le_total it L : In it L -> ti_len it <= lenN (tl_bytes L).
Proof.
  induction L as [|x L IH]; intros H; [destruct H|]. rewrite lenN_tl_bytes_cons.
  destruct H as [->|H]; [lia|]. specialize (IH H). lia.
Qed.

Lemma tl_children_decode m L : Forall titem_ok L ->
  Forall2 (decodes_to_s (open_body m) (tl_fuel0 L)) (tl_children L) (map ti_item L).
Proof.
  unfold tl_children, tl_fuel0. intros H. induction H as [|it L' Hit _ IH]; cbn [map]; [constructor|].
  change (list_max (ti_fuel it :: map ti_fuel L')) with (Nat.max (ti_fuel it) (list_max (map ti_fuel L'))).
  constructor.
  - apply decodes_to_s_mono with (F0 := ti_fuel it); [lia | now apply ti_decodes].
  - clear -IH. induction IH as [|c i cs is Hci _ IH2]; [constructor|]. constructor; [|exact IH2].
    apply decodes_to_s_mono with (F0 := list_max (map ti_fuel L')); [lia | exact Hci].
Qed.

Section TopLevel.
  Variables (m : mode) (L : list titem).
  Hypothesis Hok : Forall titem_ok L.
  Let b := tl_bytes L.
  Hypothesis Hlen : lenN b < 2 ^ 63.

  Lemma tl_children_wf : Forall child_wf (tl_children L).
  Proof.
    unfold tl_children. apply Forall_forall. intros c Hc. apply in_map_iff in Hc as (it & <- & Hin).
    apply ti_child_wf; [exact (proj1 (Forall_forall _ _) Hok it Hin)|].
    pose proof (ti_len_le_total it L Hin) as Hle. fold b in Hle. lia.
  Qed.

  (** [open_fuel] on the file: the loop reads all of it; the result is [open_result] of the accumulator *)
  Theorem tl_open_result : forall fuel, (tl_fuel L <= fuel)%nat ->
    run (open_fuel fuel m (lenN b)) (stream_at b 0)
    = (open_result (last_opt (tl_ftyps L) None, last_opt (tl_moovs L) None,
                    map fst (tl_moofs 0 L), map snd (tl_moofs 0 L), tl_emsgs L) (lenN b),
       stream_at b (lenN b)).
  Proof.
    intros fuel Hfuel.
    pose proof (open_fuel_children_s m fuel (tl_children L) (map ti_item L) (tl_fuel0 L) b (lenN b) 0 []) as Hopen.
    rewrite tl_put_all in Hopen. cbn [app] in Hopen.
    assert (Htot : total_len (tl_children L) = lenN b) by (unfold b, tl_bytes; symmetry; apply lenN_render).
    rewrite N.add_0_l, app_nil_r, Htot in Hopen.
    change (render (tl_children L)) with b in Hopen.
    unfold stream_at. rewrite dropN_0.
    rewrite Hopen.
    - f_equal. f_equal. symmetry. apply dropN_all. lia.
    - exact (tl_children_decode m L Hok).
    - exact tl_children_wf.
    - unfold tl_children. rewrite map_length. unfold tl_fuel in Hfuel. lia.
    - exact Hlen.
    - rewrite dropN_0. reflexivity.
  Qed.
End TopLevel.

Lemma open_result_frag_emsgs ft v moofs offs emsgs sz :
  ~ In 0 (map trak_id (moov_traks v)) ->
  open_result (Some ft, Some v, moofs, offs, emsgs) sz
  = res_bind (attach_moofs (moov_default_sample_duration v) (combine moofs offs) (tracks_collect (moov_traks v)))
             (fun tr => Ok (mkReader ft v moofs emsgs tr sz)).
Proof.
  intros Hn0. cbn [open_result].
  assert (Hex : existsb (fun t => tkhd_track_id (trak_tkhd t) =? 0) (moov_traks v) = false).
  { apply Bool.not_true_is_false. intros E. apply existsb_exists in E as (t & Hin & Et).
    apply N.eqb_eq in Et. apply Hn0. rewrite <- Et. apply (in_map trak_id). exact Hin. }
  rewrite Hex. destruct moofs; reflexivity.
Qed.

Lemma combine_fst_snd {A B} (l : list (A * B)) : combine (map fst l) (map snd l) = l.
Proof. induction l as [|[a b0] l IH]; cbn [map combine fst snd]; [reflexivity|]. now rewrite IH. Qed.

(** the trafs of the moof items *)
Lemma tl_flat_trafs_in L p x : In x (flat_trafs (tl_moofs p L)) ->
  exists mf, In mf (tl_moof_vals L) /\ In (fst x) (moof_trafs mf).
Proof.
  intros H. destruct (flat_trafs_in _ _ H) as ([mf off] & Hmp & Hin & _). cbn [fst] in Hin.
  exists mf. split; [|exact Hin]. rewrite <- (tl_moofs_fst L p). apply (in_map fst) in Hmp. exact Hmp.
Qed.

(** what a well-formed fragmented file is: one ftyp, one moov (anywhere), moofs, media data and skipped boxes in
    any order; distinct non-zero track ids; every traf names a track *)
Record tl_wf (L : list titem) (ft : ftyp) (v : moov) : Prop := mkTlWf {
  tlw_ftyp : tl_ftyps L = [ft];
  tlw_moov : tl_moovs L = [v];
  tlw_ok : Forall titem_ok L;
  tlw_len : lenN (tl_bytes L) < 2 ^ 63;
  tlw_nodup : NoDup (map trak_id (moov_traks v));
  tlw_nonzero : ~ In 0 (map trak_id (moov_traks v));
  tlw_trafs : forall mf tf, In mf (tl_moof_vals L) -> In tf (moof_trafs mf) -> In (traf_tid tf) (map trak_id (moov_traks v)) }.

Section TopLevelOpen.
  Variables (m : mode) (L : list titem) (ft : ftyp) (v : moov).
  Hypothesis Hwf : tl_wf L ft v.

  Let b := tl_bytes L.
  Let mps := tl_moofs 0 L.
  Let dsd := moov_default_sample_duration v.

  Theorem tl_open : exists r,
    (forall fuel, (tl_fuel L <= fuel)%nat ->
       run (open_fuel fuel m (lenN b)) (stream_at b 0) = (Ok r, stream_at b (lenN b))) /\
    rd_ftyp r = ft /\ rd_moov r = v /\ rd_moofs r = tl_moof_vals L /\ rd_emsgs r = tl_emsgs L /\ rd_size r = lenN b /\
    map fst (rd_tracks r) = map trak_id (moov_traks v) /\
    (forall k, ~ In k (map trak_id (moov_traks v)) -> tracks_get k (rd_tracks r) = None) /\
    forall t, In t (moov_traks v) ->
      exists t', tracks_get (trak_id t) (rd_tracks r) = Some t' /\ mt_trak t' = t /\
        track_view t' = Track.mkTrack (trak_id t) (stbl_tables (minf_stbl (mdia_minf (trak_mdia t))))
                                      (file_fragruns (trak_id t) mps)
                                      (match file_fragruns (trak_id t) mps with [] => 0 | _ => dsd end).
  Proof.
    destruct Hwf as [Hft Hmv Hok Hlen Hnd Hn0 Hall].
    destruct (attach_moofs_tracks dsd (moov_traks v) mps Hnd) as (tracks' & Hat & Hkeys & Hnone & Htr).
    { intros p Hp. destruct (tl_flat_trafs_in _ _ _ Hp) as (mf & Hmf & Hin). exact (Hall mf (fst p) Hmf Hin). }
    exists (mkReader ft v (tl_moof_vals L) (tl_emsgs L) tracks' (lenN b)).
    split.
    { intros fuel Hfuel. unfold b. rewrite (tl_open_result m L Hok Hlen fuel Hfuel).
      rewrite Hft, Hmv. cbn [last_opt fold_left].
      rewrite open_result_frag_emsgs by exact Hn0.
      rewrite combine_fst_snd. fold mps dsd. rewrite Hat. cbn [res_bind].
      unfold mps. rewrite tl_moofs_fst. reflexivity. }
    cbn [rd_ftyp rd_moov rd_moofs rd_emsgs rd_size rd_tracks].
    repeat (split; [reflexivity|]). split; [exact Hkeys|]. split; [exact Hnone|]. exact Htr.
  Qed.
End TopLevelOpen.

(** ** Part C: two layouts of the same logical movie *)

(** [p] and [q] are the same traf of the same (the [n]-th) moof of the two files, with the positions of that moof *)
Definition traf_rel (mpsA mpsB : list (moof * N)) (p q : traf * N) : Prop :=
  fst p = fst q /\
  exists n mf, nth_error mpsA n = Some (mf, snd p) /\ nth_error mpsB n = Some (mf, snd q) /\ In (fst p) (moof_trafs mf).

Lemma Forall2_nth_intro {A B} (R : A -> B -> Prop) : forall la lb,
  length la = length lb ->
  (forall a b, In (a, b) (combine la lb) -> R a b) -> Forall2 R la lb.
Proof.
  induction la as [|a la IH]; intros [|b0 lb] Hl H; try discriminate Hl; constructor.
  - apply H. now left.
  - apply IH; [cbn [length] in Hl; lia|]. intros a' b' Hin. apply H. now right.
Qed.

Lemma in_combine_nth {A B} : forall (la : list A) (lb : list B) a b, In (a, b) (combine la lb) ->
  exists n, nth_error la n = Some a /\ nth_error lb n = Some b.
Proof.
  induction la as [|x la IH]; intros [|y lb] a b H; cbn [combine] in H; try (destruct H; fail).
  destruct H as [H|H].
  - injection H as -> ->. exists 0%nat. split; reflexivity.
  - destruct (IH _ _ _ H) as (n & H1 & H2). exists (S n). split; assumption.
Qed.

Lemma flat_trafs_rel_gen (X Y : list (moof * N)) la lb :
  Forall2 (fun a b => fst a = fst b /\ exists n, nth_error X n = Some a /\ nth_error Y n = Some b) la lb ->
  Forall2 (traf_rel X Y) (flat_trafs la) (flat_trafs lb).
Proof.
  intros H0. unfold flat_trafs.
  induction H0 as [|[mf pa] [mf' pb] la lb (Hf & n & Ha & Hb) _ IH]; cbn [flat_map]; [constructor|].
  cbn [fst snd] in *. subst mf'. apply Forall2_app; [|exact IH].
  assert (Hsub : forall l, incl l (moof_trafs mf) ->
            Forall2 (traf_rel X Y) (map (fun tf => (tf, pa)) l) (map (fun tf => (tf, pb)) l)).
  { induction l as [|tf l IHl]; intros Hincl; cbn [map]; constructor.
    - split; [reflexivity|]. exists n, mf. cbn [fst snd]. split; [exact Ha|]. split; [exact Hb|].
      apply Hincl. now left.
    - apply IHl. intros x Hx. apply Hincl. now right. }
  apply Hsub. apply incl_refl.
Qed.

Lemma flat_trafs_rel mpsA mpsB : map fst mpsA = map fst mpsB ->
  Forall2 (traf_rel mpsA mpsB) (flat_trafs mpsA) (flat_trafs mpsB).
Proof.
  intros Hfst. apply flat_trafs_rel_gen. apply Forall2_nth_intro.
  - rewrite <- (map_length fst mpsA), Hfst. apply map_length.
  - intros a b0 Hin. destruct (in_combine_nth _ _ _ _ Hin) as (n & Ha & Hb). split; [|eauto].
    pose proof (map_nth_error fst _ _ Ha) as Ea. pose proof (map_nth_error fst _ _ Hb) as Eb.
    rewrite Hfst in Ea. congruence.
Qed.

Lemma Forall2_filter {A B} (R : A -> B -> Prop) (fa : A -> bool) (fb : B -> bool) la lb :
  Forall2 R la lb -> (forall a b, R a b -> fa a = fb b) -> Forall2 R (filter fa la) (filter fb lb).
Proof.
  intros H Hf. induction H as [|a b0 la lb Hab _ IH]; cbn [filter]; [constructor|].
  rewrite (Hf a b0 Hab). destruct (fb b0); [constructor; assumption | exact IH].
Qed.

Lemma Forall2_map {A B A' B'} (R : A' -> B' -> Prop) (f : A -> A') (g : B -> B') la lb :
  Forall2 (fun a b => R (f a) (g b)) la lb -> Forall2 R (map f la) (map g lb).
Proof. induction 1; cbn [map]; constructor; assumption. Qed.

Lemma Forall2_weaken {A B} (R R' : A -> B -> Prop) la lb :
  (forall a b, R a b -> R' a b) -> Forall2 R la lb -> Forall2 R' la lb.
Proof. intros H. induction 1; constructor; auto. Qed.

Lemma trafs_of_track_rel k mpsA mpsB : map fst mpsA = map fst mpsB ->
  Forall2 (traf_rel mpsA mpsB) (trafs_of_track k (flat_trafs mpsA)) (trafs_of_track k (flat_trafs mpsB)).
Proof.
  intros H. unfold trafs_of_track. apply Forall2_filter; [now apply flat_trafs_rel|].
  intros p q (E & _). now rewrite E.
Qed.

Lemma file_fragruns_same k mpsA mpsB : map fst mpsA = map fst mpsB ->
  Forall2 fr_same (file_fragruns k mpsA) (file_fragruns k mpsB).
Proof.
  intros H. unfold file_fragruns. apply Forall2_map.
  apply (Forall2_weaken (traf_rel mpsA mpsB)); [|now apply trafs_of_track_rel].
  intros p q (E & _). rewrite E. apply traf_fragrun_same.
Qed.

(** the [i]-th fragment of track [k] in both files: the same traf, of the same moof, at the two positions of that moof *)
Lemma file_fragruns_nth k mpsA mpsB i f g : map fst mpsA = map fst mpsB ->
  nthN (file_fragruns k mpsA) i = Some f -> nthN (file_fragruns k mpsB) i = Some g ->
  exists n mf tf pa pb,
    nth_error mpsA n = Some (mf, pa) /\ nth_error mpsB n = Some (mf, pb) /\ In tf (moof_trafs mf) /\ traf_tid tf = k /\
    f = traf_fragrun tf pa /\ g = traf_fragrun tf pb.
Proof.
  intros H Hf Hg. unfold file_fragruns in Hf, Hg. rewrite nthN_map in Hf, Hg.
  pose proof (Forall2_nthN _ _ _ (trafs_of_track_rel k mpsA mpsB H) i) as Hn.
  destruct (nthN (trafs_of_track k (flat_trafs mpsA)) i) as [[tf pa]|] eqn:Ea; [|discriminate Hf].
  destruct (nthN (trafs_of_track k (flat_trafs mpsB)) i) as [[tf' pb]|]; [|discriminate Hg].
  cbn [option_map fst snd] in Hf, Hg. injection Hf as <-. injection Hg as <-.
  destruct Hn as (E & n & mf & Ha & Hb & Hin). cbn [fst snd] in *. subst tf'.
  exists n, mf, tf, pa, pb. repeat (split; [assumption|]). split; [|split; reflexivity].
  apply nthN_In in Ea. unfold trafs_of_track in Ea. apply filter_In in Ea as [_ Ea]. cbn [fst] in Ea.
  now apply N.eqb_eq in Ea.
Qed.

(** what the lookups of two tracks have in common, [mpsA] / [mpsB] being the moofs of the two files with their positions *)
Definition same_lookups (m' : mode) (mpsA mpsB : list (moof * N)) (k : N) (va vb : track) : Prop :=
  sample_count va = sample_count vb /\
  (forall j, sample_size va j = sample_size vb j /\
             sample_time m' va j = sample_time m' vb j /\
             sample_rendering_offset va j = sample_rendering_offset vb j /\
             is_sync_sample va j = is_sync_sample vb j) /\
  (* offsets shifted by exactly the displacement of the moof the sample belongs to *)
  (forall j oa ob, sample_offset m' va j = Ok oa -> sample_offset m' vb j = Ok ob ->
     (* a track no traf names: the lookups go through the sample tables of the trak *)
     (tr_frags va = [] /\ tr_frags vb = [] /\ ob = oa) \/
     exists n mf tf pa pb,
       nth_error mpsA n = Some (mf, pa) /\ nth_error mpsB n = Some (mf, pb) /\
       In tf (moof_trafs mf) /\ traf_tid tf = k /\
       (Z.of_N ob - Z.of_N oa
        = match tfhd_base_data_offset (traf_tfhd tf) with
          | Some _ => 0
          | None => Z.of_N pb - Z.of_N pa
          end)%Z) /\
  (* the same sample is read when the media data is where the offsets say *)
  (forall j oa ob sz h s s', stream_wf s -> stream_wf s' ->
     sample_offset m' va j = Ok oa -> sample_offset m' vb j = Ok ob -> sample_size va j = Ok sz ->
     (sz = 0 \/ (exists r, splitN sz (dropN oa (s_data s)) = Some (h, r)) /\
                (exists r', splitN sz (dropN ob (s_data s')) = Some (h, r'))) ->
     fst (run (read_sample m' va j) s) = fst (run (read_sample m' vb j) s')).

Lemma same_lookups_views m' mpsA mpsB k tb d : map fst mpsA = map fst mpsB ->
  same_lookups m' mpsA mpsB k (mkTrack k tb (file_fragruns k mpsA) d) (mkTrack k tb (file_fragruns k mpsB) d).
Proof.
  intros H. pose proof (file_fragruns_same k mpsA mpsB H) as Hs.
  split; [now apply sample_count_same|]. split.
  { intros j. split; [now apply sample_size_same|]. split; [now apply sample_time_same|].
    split; [now apply sample_rendering_offset_same | now apply is_sync_sample_same]. }
  split.
  { intros j oa ob Ha Hb. cbn [tr_frags].
    destruct (file_fragruns k mpsA) as [|f0 fs0] eqn:Hne.
    { left. destruct (file_fragruns k mpsB); [|inversion Hs].
      split; [reflexivity|]. split; [reflexivity|]. rewrite Ha in Hb. now injection Hb. }
    right. rewrite <- Hne in *. assert (Hne' : file_fragruns k mpsA <> []) by (rewrite Hne; discriminate).
    destruct (sample_offset_same k tb d _ _ Hs m' m' j oa ob Hne' Ha Hb) as (i & si & f & g & _ & Hf & Hg & _ & E).
    destruct (file_fragruns_nth k mpsA mpsB i f g H Hf Hg) as (n & mf & tf & pa & pb & Hna & Hnb & Hin & Hk & -> & ->).
    exists n, mf, tf, pa, pb. repeat (split; [assumption|]). exact E. }
  intros j oa ob sz h s s' Hw Hw' Ha Hb Hsz Hbytes.
  exact (read_sample_same k tb d _ _ Hs m' j s s' oa ob sz h Hw Hw' Ha Hb Hsz Hbytes).
Qed.

(** under the movie-fragment specification (both fragment lists [frag_consistent]): the samples [frag_expand] defines
    are the same in number, size, start time, duration and composition offset; both offset lookups succeed *)
Lemma frag_expand_same m' id tb d fa fb : Forall2 fr_same fa fb -> fa <> [] ->
  frag_consistent fa d = true -> frag_consistent fb d = true ->
  lenN (frag_expand fa d) = lenN (frag_expand fb d) /\
  forall j, 1 <= j <= lenN (frag_expand fa d) ->
    exists oa ob sz st du ct,
      nthN (frag_expand fa d) (j - 1) = Some (oa, sz, st, du, ct) /\
      nthN (frag_expand fb d) (j - 1) = Some (ob, sz, st, du, ct) /\
      sample_offset m' (mkTrack id tb fa d) j = Ok oa /\ sample_offset m' (mkTrack id tb fb d) j = Ok ob.
Proof.
  intros Hs Hne Hca Hcb.
  assert (Hneb : fb <> []) by (destruct Hs; [congruence | discriminate]).
  destruct (frag_lookup_sound_lemma m' id tb fa d Hne Hca) as (Ca & _ & La & _).
  destruct (frag_lookup_sound_lemma m' id tb fb d Hneb Hcb) as (Cb & _ & Lb & _).
  assert (Hlen : lenN (frag_expand fa d) = lenN (frag_expand fb d)).
  { rewrite <- Ca, <- Cb. now apply sample_count_same. }
  split; [exact Hlen|]. intros j Hj.
  destruct (La j Hj) as (oa & sz & st & du & ct & Ea & Eoa & Esa & Eta & Eca).
  destruct (Lb j) as (ob & sz' & st' & du' & ct' & Eb & Eob & Esb & Etb & Ecb); [rewrite <- Hlen; exact Hj|].
  rewrite (sample_size_same id tb d fa fb Hs j) in Esa. rewrite Esa in Esb. injection Esb as <-.
  rewrite (sample_time_same id tb d fa fb Hs m' j) in Eta. rewrite Eta in Etb. injection Etb as <- <-.
  rewrite (sample_rendering_offset_same id tb d fa fb Hs j) in Eca. rewrite Eca in Ecb. subst ct'.
  exists oa, ob, sz, st, du, ct. auto.
Qed.

(** a reader a file opens to (for some fuel): [Props/C12.v]'s [opens] *)
Definition opens (m : mode) (f : bytes) (r : mp4reader) : Prop :=
  exists fuel, fst (run (open_fuel fuel m (lenN f)) (stream_at f 0)) = Ok r.

(** the reader of [tl_open] is the only reader the file opens to, whatever the fuel *)
Lemma tl_opens_unique m L r r' :
  (forall fuel, (tl_fuel L <= fuel)%nat ->
     run (open_fuel fuel m (lenN (tl_bytes L))) (stream_at (tl_bytes L) 0) = (Ok r, stream_at (tl_bytes L) (lenN (tl_bytes L)))) ->
  opens m (tl_bytes L) r' -> r' = r.
Proof.
  intros H (fuel & Hf). specialize (H (tl_fuel L) (Nat.le_refl _)).
  assert (E : run (open_fuel fuel m (lenN (tl_bytes L))) (stream_at (tl_bytes L) 0)
              = run (open_fuel (tl_fuel L) m (lenN (tl_bytes L))) (stream_at (tl_bytes L) 0)).
  { apply open_fuel_det; [rewrite Hf | rewrite H]; discriminate. }
  rewrite E, H in Hf. cbn [fst] in Hf. congruence.
Qed.

Theorem tl_opens m L ft v : tl_wf L ft v -> exists r, opens m (tl_bytes L) r.
Proof.
  intros Hwf. destruct (tl_open m L ft v Hwf) as (r & Hopen & _).
  exists r, (tl_fuel L). now rewrite (Hopen _ (Nat.le_refl _)).
Qed.

(** ** Where the media data is: the bytes of the file from the first byte of every moof box on *)
Fixpoint tl_tails (L : list titem) : list bytes :=
  match L with
  | [] => []
  | it :: t => (match it with TMoof _ _ => [tl_bytes (it :: t)] | _ => [] end) ++ tl_tails t
  end.

Lemma tl_tails_nth : forall L p i mf q, nth_error (tl_moofs p L) i = Some (mf, q) ->
  exists pre tail, nth_error (tl_tails L) i = Some tail /\ tl_bytes L = pre ++ tail /\ q = p + lenN pre.
Proof.
  induction L as [|it L IH]; intros p i mf q H; [destruct i; discriminate H|].
  cbn [tl_moofs tl_tails] in *.
  assert (Hnext : forall i', nth_error (tl_moofs (p + ti_len it) L) i' = Some (mf, q) ->
                  exists pre tail, nth_error (tl_tails L) i' = Some tail /\ tl_bytes (it :: L) = pre ++ tail /\ q = p + lenN pre).
  { intros i' H'. destruct (IH _ _ _ _ H') as (pre & tail & Ht & Hb & ->).
    exists (c_bytes (ti_child it) ++ pre), tail. split; [exact Ht|]. split.
    - rewrite tl_bytes_cons, Hb, app_assoc. reflexivity.
    - rewrite lenN_app, lenN_c_bytes. unfold ti_len. lia. }
  destruct it as [w ft|w v|w mf0|w media|c|w e]; cbn [app] in *; try (apply Hnext; exact H).
  destruct i as [|i]; cbn [nth_error] in H |- *.
  - injection H as -> ->. exists [], (tl_bytes (TMoof w mf :: L)). split; [reflexivity|]. split; [reflexivity|].
    change (lenN (@nil N)) with 0. lia.
  - apply Hnext. exact H.
Qed.

(** the longest common prefix of two byte strings *)
Fixpoint common_prefix (a b : bytes) : bytes :=
  match a, b with
  | x :: a', y :: b' => if x =? y then x :: common_prefix a' b' else []
  | _, _ => []
  end.

Lemma common_prefix_split : forall a b, exists ra rb, a = common_prefix a b ++ ra /\ b = common_prefix a b ++ rb.
Proof.
  induction a as [|x a IH]; intros [|y b0]; cbn [common_prefix]; try (eexists; eexists; split; reflexivity).
  destruct (N.eqb_spec x y) as [->|Hne]; [|eexists; eexists; split; reflexivity].
  destruct (IH b0) as (ra & rb & Ea & Eb). exists ra, rb. cbn [app]. split; congruence.
Qed.

(** the same items after the moof (e.g. the moof box itself and the mdat box that follows it): their bytes are common *)
Lemma common_prefix_app : forall c a b, lenN c <= lenN (common_prefix (c ++ a) (c ++ b)).
Proof.
  induction c as [|x c IH]; intros a b0; [change (lenN (@nil N)) with 0; lia|].
  cbn [app common_prefix]. rewrite N.eqb_refl, !lenN_cons. specialize (IH a b0). lia.
Qed.

Lemma tl_common_prefix F RA RB : lenN (tl_bytes F) <= lenN (common_prefix (tl_bytes (F ++ RA)) (tl_bytes (F ++ RB))).
Proof. rewrite !tl_bytes_app. apply common_prefix_app. Qed.

(** [sz] bytes at distance [x] from two positions, inside a common prefix of what follows the positions *)
Lemma slice_at (pre c1 h c2 rest : bytes) x sz : lenN c1 = x -> lenN h = sz ->
  splitN sz (dropN (lenN pre + x) (pre ++ (c1 ++ h ++ c2) ++ rest)) = Some (h, c2 ++ rest).
Proof.
  intros H1 H2.
  replace (pre ++ (c1 ++ h ++ c2) ++ rest) with ((pre ++ c1) ++ h ++ c2 ++ rest) by (rewrite <- !app_assoc; reflexivity).
  rewrite (dropN_app_n (lenN pre + x)) by (rewrite lenN_app; lia). now apply splitN_app_n.
Qed.

Lemma slice_in_common (fileA fileB preA preB tailA tailB : bytes) x sz :
  fileA = preA ++ tailA -> fileB = preB ++ tailB -> x + sz <= lenN (common_prefix tailA tailB) ->
  exists h r r', splitN sz (dropN (lenN preA + x) fileA) = Some (h, r) /\
                 splitN sz (dropN (lenN preB + x) fileB) = Some (h, r').
Proof.
  intros HA HB Hx. destruct (common_prefix_split tailA tailB) as (ra & rb & Ea & Eb).
  remember (common_prefix tailA tailB) as c eqn:Hcdef.
  destruct (slice_split c x sz Hx) as (Hc & Hl1 & Hl2).
  remember (firstn (N.to_nat x) c) as c1 eqn:Hc1.
  remember (firstn (N.to_nat sz) (skipn (N.to_nat x) c)) as h eqn:Hh.
  remember (skipn (N.to_nat sz) (skipn (N.to_nat x) c)) as c2 eqn:Hc2.
  clear Hcdef Hc1 Hh Hc2. subst c. subst tailA tailB fileA fileB.
  exists h, (c2 ++ ra), (c2 ++ rb). split; now apply slice_at.
Qed.

Section Layout.
  Variables (mA mB : mode) (A B : list titem) (ft ft' : ftyp) (v v' : moov).
  Hypothesis HwfA : tl_wf A ft v.
  Hypothesis HwfB : tl_wf B ft' v'.
  Hypothesis Hlog : logical A = logical B.

  Let bA := tl_bytes A.
  Let bB := tl_bytes B.
  Let mpsA := tl_moofs 0 A.
  Let mpsB := tl_moofs 0 B.

  Lemma layout_same_values : ft = ft' /\ v = v' /\ map fst mpsA = map fst mpsB.
  Proof.
    unfold logical in Hlog. injection Hlog as E1 E2 E3 _.
    rewrite (tlw_ftyp _ _ _ HwfA), (tlw_ftyp _ _ _ HwfB) in E1.
    rewrite (tlw_moov _ _ _ HwfA), (tlw_moov _ _ _ HwfB) in E2.
    unfold mpsA, mpsB. rewrite !tl_moofs_fst. split; [congruence|]. split; [congruence | exact E3].
  Qed.

  (** the layout theorem: whatever the build modes and the fuel the two files were opened with *)
  Theorem tl_layout ra rb (m' : mode) :
    opens mA bA ra -> opens mB bB rb ->
    rd_ftyp ra = rd_ftyp rb /\ rd_moov ra = rd_moov rb /\ rd_moofs ra = rd_moofs rb /\
    rd_emsgs ra = rd_emsgs rb /\ map fst (rd_tracks ra) = map fst (rd_tracks rb) /\
    rd_size ra = lenN bA /\ rd_size rb = lenN bB /\
    (forall k, rd_sample_count ra k = rd_sample_count rb k) /\
    (forall k, tracks_get k (rd_tracks ra) = None <-> tracks_get k (rd_tracks rb) = None) /\
    forall k ta tb, tracks_get k (rd_tracks ra) = Some ta -> tracks_get k (rd_tracks rb) = Some tb ->
      mt_trak ta = mt_trak tb /\
      same_lookups m' mpsA mpsB k (track_view ta) (track_view tb).
  Proof.
    intros Ha Hb. destruct layout_same_values as (<- & <- & Hfst).
    destruct (tl_open mA A ft v HwfA) as (r1 & Hopen1 & Hft1 & Hmv1 & Hmf1 & Hem1 & Hsz1 & Hk1 & Hnone1 & Htr1).
    destruct (tl_open mB B ft v HwfB) as (r2 & Hopen2 & Hft2 & Hmv2 & Hmf2 & Hem2 & Hsz2 & Hk2 & Hnone2 & Htr2).
    fold mpsA in Htr1. fold mpsB in Htr2.
    rewrite (tl_opens_unique mA A r1 ra Hopen1 Ha). rewrite (tl_opens_unique mB B r2 rb Hopen2 Hb).
    clear Ha Hb Hopen1 Hopen2 ra rb.
    (* per track *)
    assert (Htrack : forall k ta tb, tracks_get k (rd_tracks r1) = Some ta -> tracks_get k (rd_tracks r2) = Some tb ->
              mt_trak ta = mt_trak tb /\ sample_count (track_view ta) = sample_count (track_view tb) /\
              same_lookups m' mpsA mpsB k (track_view ta) (track_view tb)).
    { intros k ta tb Hga Hgb.
      assert (Hin : In k (map trak_id (moov_traks v))).
      { destruct (in_dec N.eq_dec k (map trak_id (moov_traks v))) as [Hin|Hnin]; [exact Hin|].
        rewrite (Hnone1 k Hnin) in Hga. discriminate. }
      apply in_map_iff in Hin as (t & <- & Hin).
      destruct (Htr1 t Hin) as (ta' & Hga' & Hta & Hva). destruct (Htr2 t Hin) as (tb' & Hgb' & Htb & Hvb).
      rewrite Hga in Hga'. injection Hga' as <-. rewrite Hgb in Hgb'. injection Hgb' as <-.
      split; [congruence|]. rewrite Hva, Hvb.
      pose proof (file_fragruns_same (trak_id t) mpsA mpsB Hfst) as Hs.
      assert (Ed : match file_fragruns (trak_id t) mpsA with [] => 0 | _ => moov_default_sample_duration v end
                   = match file_fragruns (trak_id t) mpsB with [] => 0 | _ => moov_default_sample_duration v end)
        by (destruct Hs; reflexivity).
      rewrite <- Ed.
      pose proof (same_lookups_views m' mpsA mpsB (trak_id t) (stbl_tables (minf_stbl (mdia_minf (trak_mdia t))))
                    (match file_fragruns (trak_id t) mpsA with [] => 0 | _ => moov_default_sample_duration v end) Hfst) as Hsl.
      split; [exact (proj1 Hsl) | exact Hsl]. }
    assert (Hget : forall k, (tracks_get k (rd_tracks r1) = None /\ tracks_get k (rd_tracks r2) = None) \/
                            exists ta tb, tracks_get k (rd_tracks r1) = Some ta /\ tracks_get k (rd_tracks r2) = Some tb).
    { intros k. destruct (in_dec N.eq_dec k (map trak_id (moov_traks v))) as [Hin|Hnin].
      - right. apply in_map_iff in Hin as (t & <- & Hin).
        destruct (Htr1 t Hin) as (ta & Hga & _). destruct (Htr2 t Hin) as (tb & Hgb & _). eauto.
      - left. split; [now apply Hnone1 | now apply Hnone2]. }
    assert (Hvals : tl_moof_vals A = tl_moof_vals B)
      by (unfold mpsA, mpsB in Hfst; now rewrite !tl_moofs_fst in Hfst).
    assert (Hems : tl_emsgs A = tl_emsgs B) by (unfold logical in Hlog; now injection Hlog).
    split; [congruence|]. split; [congruence|]. split; [congruence|]. split; [congruence|].
    split; [congruence|]. split; [exact Hsz1|]. split; [exact Hsz2|]. split; [|split].
    - intros k. unfold rd_sample_count.
      destruct (Hget k) as [[E1 E2]|(ta & tb & E1 & E2)]; rewrite E1, E2; [reflexivity|].
      f_equal. exact (proj1 (proj2 (Htrack k ta tb E1 E2))).
    - intros k. destruct (Hget k) as [[E1 E2]|(ta & tb & E1 & E2)]; rewrite E1, E2; split; auto; discriminate.
    - intros k ta tb E1 E2. destruct (Htrack k ta tb E1 E2) as (H1 & _ & H3). split; assumption.
  Qed.
  (** the views of the track of a trak of the movie in the two readers *)
  Lemma layout_views ra rb : opens mA bA ra -> opens mB bB rb ->
    forall t, In t (moov_traks v) ->
      let k := trak_id t in
      let d := match file_fragruns k mpsA with [] => 0 | _ => moov_default_sample_duration v end in
      exists ta tb, tracks_get k (rd_tracks ra) = Some ta /\ tracks_get k (rd_tracks rb) = Some tb /\
        track_view ta = mkTrack k (stbl_tables (minf_stbl (mdia_minf (trak_mdia t)))) (file_fragruns k mpsA) d /\
        track_view tb = mkTrack k (stbl_tables (minf_stbl (mdia_minf (trak_mdia t)))) (file_fragruns k mpsB) d.
  Proof.
    intros Ha Hb t Hin k d. destruct layout_same_values as (<- & <- & Hfst).
    destruct (tl_open mA A ft v HwfA) as (r1 & Hopen1 & _ & _ & _ & _ & _ & _ & _ & Htr1).
    destruct (tl_open mB B ft v HwfB) as (r2 & Hopen2 & _ & _ & _ & _ & _ & _ & _ & Htr2).
    fold mpsA in Htr1. fold mpsB in Htr2.
    rewrite (tl_opens_unique mA A r1 ra Hopen1 Ha). rewrite (tl_opens_unique mB B r2 rb Hopen2 Hb).
    destruct (Htr1 t Hin) as (ta & Hga & _ & Hva). destruct (Htr2 t Hin) as (tb & Hgb & _ & Hvb).
    exists ta, tb. split; [exact Hga|]. split; [exact Hgb|]. split; [exact Hva|]. rewrite Hvb. unfold d, k.
    pose proof (file_fragruns_same (trak_id t) mpsA mpsB Hfst) as Hs. destruct Hs; reflexivity.
  Qed.

  (** under the movie-fragment specification on both sides: the per-sample results of [frag_expand] (C09) agree
      except for the offsets, which differ by the displacement of the moof *)
  Theorem tl_layout_consistent ra rb (m' : mode) t :
    opens mA bA ra -> opens mB bB rb -> In t (moov_traks v) ->
    let k := trak_id t in
    let fsA := file_fragruns k mpsA in
    let fsB := file_fragruns k mpsB in
    let d := moov_default_sample_duration v in
    fsA <> [] -> frag_consistent fsA d = true -> frag_consistent fsB d = true ->
    rd_sample_count ra k = Ok (lenN (frag_expand fsA d)) /\
    rd_sample_count rb k = Ok (lenN (frag_expand fsA d)) /\
    lenN (frag_expand fsB d) = lenN (frag_expand fsA d) /\
    forall j, 1 <= j <= lenN (frag_expand fsA d) ->
      exists oa ob sz st du ct n mf tf pa pb,
        nthN (frag_expand fsA d) (j - 1) = Some (oa, sz, st, du, ct) /\
        nthN (frag_expand fsB d) (j - 1) = Some (ob, sz, st, du, ct) /\
        rd_sample_offset m' ra k j = Ok oa /\ rd_sample_offset m' rb k j = Ok ob /\
        nth_error mpsA n = Some (mf, pa) /\ nth_error mpsB n = Some (mf, pb) /\
        In tf (moof_trafs mf) /\ traf_tid tf = k /\
        (Z.of_N ob - Z.of_N oa
         = match tfhd_base_data_offset (traf_tfhd tf) with
           | Some _ => 0
           | None => Z.of_N pb - Z.of_N pa
           end)%Z.
  Proof.
    intros Ha Hb Hin k fsA fsB d Hne Hca Hcb.
    destruct (layout_views ra rb Ha Hb t Hin) as (ta & tb & Hga & Hgb & Hva & Hvb).
    destruct layout_same_values as (_ & _ & Hfst).
    fold k fsA fsB in Hga, Hgb, Hva, Hvb.
    assert (Ed : match fsA with [] => 0 | _ => moov_default_sample_duration v end = d)
      by (destruct fsA; [congruence | reflexivity]).
    rewrite Ed in Hva, Hvb.
    pose proof (file_fragruns_same k mpsA mpsB Hfst) as Hs. fold fsA fsB in Hs.
    set (tbl := stbl_tables (minf_stbl (mdia_minf (trak_mdia t)))) in *.
    destruct (frag_expand_same m' k tbl d fsA fsB Hs Hne Hca Hcb) as (Hlen & Hsamples).
    assert (Hneb : fsB <> []) by (destruct Hs; [congruence | discriminate]).
    destruct (frag_lookup_sound_lemma m' k tbl fsA d Hne Hca) as (Ca & _).
    destruct (frag_lookup_sound_lemma m' k tbl fsB d Hneb Hcb) as (Cb & _).
    unfold rd_sample_count, rd_sample_offset. rewrite Hga, Hgb, Hva, Hvb.
    split; [now rewrite Ca|]. split; [now rewrite Cb, Hlen|]. split; [now rewrite Hlen|].
    intros j Hj. destruct (Hsamples j Hj) as (oa & ob & sz & st & du & ct & Ea & Eb & Eoa & Eob).
    destruct (same_lookups_views m' mpsA mpsB k tbl d Hfst) as (_ & _ & Hoff & _).
    fold fsA fsB in Hoff.
    destruct (Hoff j oa ob Eoa Eob) as [(Hnil & _)|(n & mf & tf & pa & pb & H1 & H2 & H3 & H4 & H5)].
    { cbn [tr_frags] in Hnil. contradiction. }
    exists oa, ob, sz, st, du, ct, n, mf, tf, pa, pb. repeat (split; [assumption|]). exact H5.
  Qed.

  (** the same sample bytes: a sample [x = oa - pa] bytes after the start of its moof (the [n]-th) in [A] and
      in [B] is read identically when the two files agree on the [x + sz] bytes that follow the moof position
      ([common_prefix] of the [n]-th tails: e.g. the same moof header form and the same mdat item after it,
      [tl_common_prefix]) *)
  Theorem tl_layout_read ra rb (m' : mode) k j oa ob sz ta n mfa mfb pa pb tailA tailB posA posB :
    opens mA bA ra -> opens mB bB rb ->
    rd_sample_offset m' ra k j = Ok oa -> rd_sample_offset m' rb k j = Ok ob ->
    tracks_get k (rd_tracks ra) = Some ta -> sample_size (track_view ta) j = Ok sz ->
    nth_error mpsA n = Some (mfa, pa) -> nth_error mpsB n = Some (mfb, pb) ->
    nth_error (tl_tails A) n = Some tailA -> nth_error (tl_tails B) n = Some tailB ->
    pa <= oa -> (Z.of_N ob - Z.of_N oa = Z.of_N pb - Z.of_N pa)%Z ->
    oa - pa + sz <= lenN (common_prefix tailA tailB) ->
    fst (run (rd_read_sample m' ra k j) (stream_at bA posA))
    = fst (run (rd_read_sample m' rb k j) (stream_at bB posB)).
  Proof.
    intros Ha Hb Eoa Eob Hga Hsz Hna Hnb Hta Htb Hle Hdelta Hcommon.
    destruct (tl_layout ra rb m' Ha Hb) as (_ & _ & _ & _ & _ & _ & _ & _ & Hiff & Htrack).
    destruct (tracks_get k (rd_tracks rb)) as [tb|] eqn:Hgb.
    2:{ apply (proj2 (Hiff k)) in Hgb. congruence. }
    destruct (Htrack k ta tb Hga Hgb) as (_ & _ & _ & _ & Hread).
    unfold rd_read_sample, rd_sample_offset in *. rewrite Hga in *. rewrite Hgb in *.
    destruct (tl_tails_nth A 0 n mfa pa Hna) as (preA & tA' & HtA & HbA & HpA).
    destruct (tl_tails_nth B 0 n mfb pb Hnb) as (preB & tB' & HtB & HbB & HpB).
    rewrite Hta in HtA. injection HtA as <-. rewrite Htb in HtB. injection HtB as <-.
    rewrite N.add_0_l in HpA, HpB.
    destruct (slice_in_common bA bB preA preB tailA tailB (oa - pa) sz HbA HbB Hcommon) as (h & r & r' & E1 & E2).
    apply (Hread j oa ob sz h); try assumption; try apply stream_at_wf.
    right. cbn [stream_at s_data]. split.
    - exists r. replace oa with (lenN preA + (oa - pa)) by lia. exact E1.
    - exists r'. replace ob with (lenN preB + (oa - pa)) by lia. exact E2.
  Qed.
End Layout.


Print Assumptions sample_offset_same.
Print Assumptions read_sample_same.
Print Assumptions tl_moofs_at.
Print Assumptions tl_moof_position.
Print Assumptions tl_open.
Print Assumptions tl_opens.
Print Assumptions tl_layout.
Print Assumptions tl_layout_consistent.
Print Assumptions tl_layout_read.
