(** Round trip of [MehdBox] *)
From MP4 Require Import Kit BoxMehd IsoMehd.
From Coq Require Import ZifyN ZifyNat ZifyBool.
Open Scope string_scope.
Open Scope list_scope.
Open Scope N_scope.

Lemma mehd_code : u32_of_boxtype (box_type_of "MehdBox") = 0x6d656864.
Proof. vm_compute. reflexivity. Qed.

Lemma mehd_size_eq v : mehd_version v < 2 ->
  mehd_size v = if mehd_version v =? 1 then 20 else 16.
Proof.
  intros H. unfold mehd_size, HEADER_SIZE, HEADER_EXT_SIZE, Tables.HEADER_SIZE, Tables.HEADER_EXT_SIZE.
  destruct (N.eqb_spec (mehd_version v) 1), (N.eqb_spec (mehd_version v) 0); lia.
Qed.

Lemma mehd_enc v : mehd_wf v = true ->
  wfin (enc_mehd v) = Ok (mehd_size v) /\
  wout (enc_mehd v) = be 4 (mehd_size v) ++ be 4 0x6d656864 ++ iso_mehd_payload v.
Proof.
  intros H. unfold enc_mehd, iso_mehd_payload.
  unfold mehd_wf in H. split_andb.
  match goal with H : mehd_version v <? 2 = true |- _ => apply N.ltb_lt in H; pose proof (mehd_size_eq v H) as Hsz end.
  rewrite write_header_small by (rewrite Hsz; destruct (mehd_version v =? 1); reflexivity).
  rewrite mehd_code.
  rewrite write_header_ext_small by assumption.
  destruct (N.eqb_spec (mehd_version v) 1) as [E1|E1].
  - enc_norm. split; [reflexivity|]. rewrite <- ?app_assoc. reflexivity.
  - destruct (N.eqb_spec (mehd_version v) 0) as [E0|E0]; [|exfalso; clear -H E0 E1; lia].
    enc_norm. split; [reflexivity|].
    split_andb. rewrite !cast_u32_small by assumption.
    rewrite <- ?app_assoc. reflexivity.
Qed.

Lemma mehd_dec m v d l p post : mehd_wf v = true -> p + mehd_size v < 2^63 ->
  run (dec_mehd m (mehd_size v)) (mkStream d l (p + 8) (iso_mehd_payload v ++ post))
  = (Ok v, mkStream d l (p + mehd_size v) post).
Proof.
  intros H Hp. unfold dec_mehd, iso_mehd_payload.
  unfold mehd_wf in H. split_andb.
  match goal with H : mehd_version v <? 2 = true |- _ =>
     pose proof (ufit_version _ H) as Hv1; apply N.ltb_lt in H; pose proof (mehd_size_eq v H) as Hsz end.
  rewrite <- !app_assoc.
  prog_norm. cbn [run s_pos].
  rewrite run_sub64_ok by (clear; unfold HEADER_SIZE, Tables.HEADER_SIZE; lia).
  do 2 rd_step.
  destruct (N.eqb_spec (mehd_version v) 1) as [E1|E1].
  - cbv iota in *. split_andb. rewrite <- ?app_assoc.
    rd_step.
    rewrite run_add64_ok by (clear -Hsz Hp; unfold HEADER_SIZE, Tables.HEADER_SIZE, U64; lia).
    prog_norm.
    rewrite run_SeekTo_here by (clear -Hsz; unfold HEADER_SIZE, Tables.HEADER_SIZE; lia).
    cbn [run]. f_equal.
    + destruct v; reflexivity.
    + f_equal. clear -Hsz. lia.
  - destruct (N.eqb_spec (mehd_version v) 0) as [E0|E0]; [|exfalso; clear -H E0 E1; lia].
    cbv iota in *. split_andb. rewrite <- ?app_assoc.
    rd_step.
    rewrite run_add64_ok by (clear -Hsz Hp; unfold HEADER_SIZE, Tables.HEADER_SIZE, U64; lia).
    prog_norm.
    rewrite run_SeekTo_here by (clear -Hsz; unfold HEADER_SIZE, Tables.HEADER_SIZE; lia).
    cbn [run]. f_equal.
    + destruct v; reflexivity.
    + f_equal. clear -Hsz. lia.
Qed.

Lemma mehd_payload_len v : mehd_wf v = true -> lenN (iso_mehd_payload v) + 8 = mehd_size v.
Proof.
  intros H. unfold mehd_wf in H. split_andb.
  match goal with H : mehd_version v <? 2 = true |- _ => apply N.ltb_lt in H; rewrite (mehd_size_eq v H) end.
  unfold iso_mehd_payload. destruct (mehd_version v =? 1);
    rewrite ?lenN_app, ?lenN_be; reflexivity.
Qed.

Lemma mehd_appender v : mehd_wf v = true -> mehd_size v < U32 -> appender (enc_mehd v).
Proof.
  intros H Hs. unfold enc_mehd. rewrite write_header_small by exact Hs.
  unfold mehd_wf in H. split_andb.
  rewrite write_header_ext_small by assumption.
  destruct (mehd_version v =? 1); [|destruct (mehd_version v =? 0)];
    cbn [wbind appender wr wr_u8 wr_u16 wr_u32 wr_u64 wr_u wr_i32 wr_i]; exact I.
Qed.

Theorem mehd_roundtrip : leaf_roundtrip mehd_wf mehd_size 0x6d656864 enc_mehd dec_mehd iso_mehd_payload.
Proof.
  intros v H Hs. destruct (mehd_enc v H) as [H1 H2].
  split; [exact H1|]. split; [now apply mehd_appender|]. split; [exact H2|].
  split; [now apply mehd_payload_len|].
  intros m d l p post Hp. now apply mehd_dec.
Qed.

Print Assumptions mehd_roundtrip.
