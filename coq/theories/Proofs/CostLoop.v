(** * C07/C08, loop layer: termination and cost of the child-box loop [children_loop_gen]

    Fixed input [d] (valid bytes, shorter than 2^62).  The loop is entered with the stream
    positioned at [current].

    - [fuel_ok fuel p]: the fuel still covers the bytes between [p] and the end of the data, and
      there is at least one unit of it.  It holds initially with [fuel >= lenN d + 1], and it is
      preserved by every iteration (a header of 8 bytes was read, one unit was spent) and handed
      to the children.
    - [ispec c p s W Al]: the contract of a child decoder called at [p], right after a header
      announcing [s]: no [OutOfFuel], work <= [W], allocation <= [Al], and on success the stream is
      at the end of the child, [p - 8 + s].
    - [loop_cost]: if every child keeps that contract with [W = a*s+b], the loop never runs out of
      fuel and costs at most [(a+b+19) * (end - current) + (a*size+b+19)]: every iteration that
      continues has advanced by at least [max 1 s], and only the last child can overhang. *)
From MP4 Require Import Cost Loop.
From Coq Require Import ZArith ZifyN ZifyNat ZifyBool Lia.
Open Scope N_scope.

(** from a [sat] fact to a fact about a successful [mrun] *)
Lemma sat_mrun {A} d p (c : prog A) (Q : A -> N -> Prop) a p' k :
  sat d p c Q -> mrun c d p = (Ok a, p', k) -> Q a p'.
Proof.
  unfold sat. intros H E. pose proof (mrun_run c d p) as R. rewrite E in R. rewrite R in H.
  cbn in H. destruct H as (p'' & Hs & HQ).
  assert (p' = p'') by (apply (f_equal s_pos) in Hs; exact Hs). now subst.
Qed.

(** the two arithmetic facts behind the telescoping sum *)
Lemma ar_base K D T x : x <= T -> x <= K * D + T.
Proof. intros H. pose proof (N.le_0_l (K * D)). lia. Qed.

Lemma ar_step K a b c s D D' T rest :
  a + b + c <= K -> 1 <= s -> D' + s <= D -> rest <= K * D' + T ->
  c + (a * s + b) + rest <= K * D + T.
Proof.
  intros HK Hs HD Hr.
  assert (H1 : K * (D' + s) <= K * D) by (apply N.mul_le_mono_l; exact HD).
  rewrite N.mul_add_distr_l in H1.
  assert (H2 : (a + b + c) * s <= K * s) by (apply N.mul_le_mono_r; exact HK).
  rewrite !N.mul_add_distr_r in H2.
  assert (H3 : b * 1 <= b * s) by (apply N.mul_le_mono_l; exact Hs).
  assert (H4 : c * 1 <= c * s) by (apply N.mul_le_mono_l; exact Hs).
  lia.
Qed.

Section Loop.
  Variable d : bytes.
  Hypothesis Hd : bytes_ok d = true.
  Hypothesis Hlen : lenN d < 2 ^ 62.

  Definition fuel_ok (fuel : nat) (p : N) : Prop := 1 <= N.of_nat fuel /\ lenN d < p + N.of_nat fuel.

  Definition ispec {A} (c : prog A) (p s W Al : N) : Prop :=
    let '(r, p', k) := mrun c d p in
    r <> OutOfFuel /\ cwork k <= W /\ c_asum k <= Al /\ (is_ok r = true -> p' = p - 8 + s).

  Lemma ispec_weaken {A} (c : prog A) p s W Al W' Al' :
    ispec c p s W Al -> W <= W' -> Al <= Al' -> ispec c p s W' Al'.
  Proof.
    clear Hd Hlen.
    unfold ispec. destruct (mrun c d p) as [[r p'] k]. intros (H1 & H2 & H3 & H4) Hw Ha.
    repeat split; auto; lia.
  Qed.

  (** a leaf: the state-independent bound and the position fact of the no-panic proof *)
  Lemma ispec_leaf {A} (c : prog A) p s W Al :
    bnd c W Al -> sat d p c (fun _ p' => p' = p - 8 + s) -> ispec c p s W Al.
  Proof.
    intros Hb Hs. unfold ispec. specialize (Hb d p Hd).
    destruct (mrun c d p) as [[r p'] k] eqn:E. destruct Hb as (H1 & H2 & H3).
    repeat split; auto. destruct r as [a|e|x|]; cbn; try discriminate. intros _.
    exact (sat_mrun d p c _ a p' k Hs E).
  Qed.

  Lemma ispec_bind_ret {A B} (c : prog A) (g : A -> B) p s W Al :
    ispec c p s W Al -> ispec (x <- c ;; Ret (g x)) p s W Al.
  Proof.
    unfold ispec. rewrite mrun_bind. destruct (mrun c d p) as [[r p'] k].
    intros (H1 & H2 & H3 & H4). destruct r as [a|e|x|];
      try (repeat split; auto; try discriminate; congruence).
    rewrite mrun_Ret, cadd_0_r. repeat split; auto. discriminate.
  Qed.

  Lemma ispec_skip_box {A} m p s (a : A) :
    8 <= p -> p - 8 + s < U64 -> ispec (skip_box m s ;;; Ret a) p s 2 0.
  Proof.
    intros H8 Hs. apply (ispec_bind_ret (skip_box m s) (fun _ => a)).
    apply ispec_leaf; [apply bnd_skip_box|].
    apply sat_bind_ret. apply sat_skip_box; auto. now apply sat_ret.
  Qed.

  (** where [read_header] leaves the stream *)
  Lemma read_header_pos p :
    sat d p read_header (fun h p' => (p' = p + 8 \/ p' = p + 16) /\ p' <= lenN d).
  Proof.
    apply sat_bind_ret. apply sat_read_header; [exact Hd|].
    intros name size p' H Hp. apply sat_ret. split; [|exact Hp]. destruct H as [[-> _]|[-> _]]; auto.
  Qed.

  Section Gen.
    Context {Acc R : Type}.
    Variables (m : mode) (size end_ : N).
    Variable dispatch : nat -> N -> boxtype -> N -> Acc -> prog Acc.
    Variable fin : Acc -> N -> R.
    Variables a b al bl : N.
    Hypothesis Hsize : size < 2 ^ 62.
    Hypothesis Hdisp : forall f cur name s acc p,
      (p = cur + 8 \/ p = cur + 16) -> p <= lenN d -> 1 <= s -> s <= size -> fuel_ok f p ->
      ispec (dispatch f cur name s acc) p s (a * s + b) (al * s + bl).

    (** (a) progress: an iteration that continues has moved the stream forward *)
    Lemma loop_progress f cur name s acc p r p' k :
      (p = cur + 8 \/ p = cur + 16) -> p <= lenN d -> 1 <= s -> s <= size -> fuel_ok f p ->
      mrun (dispatch f cur name s acc) d p = (Ok r, p', k) -> cur + s <= p' /\ cur + 1 <= p'.
    Proof.
      intros Hp Hpl Hs1 Hs2 Hf E. pose proof (Hdisp f cur name s acc p Hp Hpl Hs1 Hs2 Hf) as H.
      unfold ispec in H. rewrite E in H. destruct H as (_ & _ & _ & H). specialize (H eq_refl).
      lia.
    Qed.

    (** (a) + (b): never [OutOfFuel]; the cost is the sum of the dispatch costs plus 19 per
        iteration, which telescopes to a linear function of [end_ - current] *)
    Lemma loop_cost fuel : forall acc cur, fuel_ok fuel cur ->
      let '(r, _, k) := mrun (children_loop_gen fuel m (Some size) true end_ dispatch fin acc cur) d cur in
      r <> OutOfFuel
      /\ cwork k <= (a + b + 19) * (end_ - cur) + (a * size + b + 19)
      /\ c_asum k <= (al + bl) * (end_ - cur) + (al * size + bl).
    Proof.
      induction fuel as [|f IH]; intros acc cur Hf.
      - destruct Hf as [Hf _]. cbn in Hf. lia.
      - rewrite children_loop_gen_eq. destruct (N.ltb_spec cur end_) as [Hlt|Hge].
        2:{ rewrite mrun_Ret. unfold cwork. cbn. repeat split; try lia. discriminate. }
        rewrite mrun_bind.
        pose proof (bnd_read_header d cur Hd) as Hb.
        pose proof (read_header_pos cur) as Hpos.
        destruct (mrun read_header d cur) as [[rh p1] k1] eqn:Eh.
        destruct Hb as (Hb1 & Hb2 & Hb3).
        destruct rh as [[name s]|e|x|]; [| |  |congruence].
        2:{ repeat split; try discriminate; apply ar_base; clear -Hb2 Hb3; lia. }
        2:{ repeat split; try discriminate; apply ar_base; clear -Hb2 Hb3; lia. }
        pose proof (sat_mrun _ _ _ _ _ _ _ Hpos Eh) as [Hp1 Hp1l].
        destruct (N.ltb_spec size s) as [Hbig|Hs2].
        { rewrite mrun_Throw, cadd_0_r. repeat split; try discriminate; apply ar_base; clear -Hb2 Hb3; lia. }
        destruct (N.eqb_spec s 0) as [Hs0|Hs0]; cbn [andb].
        { rewrite mrun_Ret, cadd_0_r. repeat split; try discriminate; apply ar_base; clear -Hb2 Hb3; lia. }
        assert (Hs1 : 1 <= s) by (clear -Hs0; lia).
        assert (Hf1 : fuel_ok f p1).
        { destruct Hf as [_ Hf]. unfold fuel_ok. clear -Hf Hp1 Hp1l. lia. }
        rewrite mrun_bind.
        pose proof (Hdisp f cur name s acc p1 Hp1 Hp1l Hs1 Hs2 Hf1) as Hdi. unfold ispec in Hdi.
        destruct (mrun (dispatch f cur name s acc) d p1) as [[rd p2] k2].
        destruct Hdi as (Hd1 & Hd2 & Hd3 & Hd4).
        assert (Hs_le : a * s <= a * size) by (apply N.mul_le_mono_l; exact Hs2).
        assert (Hs_le' : al * s <= al * size) by (apply N.mul_le_mono_l; exact Hs2).
        destruct rd as [acc'|e|x|]; [| | |congruence].
        2:{ rewrite cwork_cadd, casum_cadd. repeat split; try discriminate; apply ar_base;
            clear -Hb2 Hb3 Hd2 Hd3 Hs_le Hs_le'; lia. }
        2:{ rewrite cwork_cadd, casum_cadd. repeat split; try discriminate; apply ar_base;
            clear -Hb2 Hb3 Hd2 Hd3 Hs_le Hs_le'; lia. }
        specialize (Hd4 eq_refl). unfold get_pos. cbn [bind]. rewrite mrun_GetPos.
        assert (Hadv : cur + s <= p2) by (clear -Hd4 Hp1; lia).
        destruct (N.le_gt_cases end_ p2) as [Hend|Hin].
        + (* the loop ends right after this child *)
          rewrite children_loop_gen_done by exact Hend. rewrite mrun_Ret.
          rewrite !cwork_cadd, !casum_cadd. change (cwork c_op) with 1. change (cwork c0) with 0.
          change (c_asum c_op) with 0. change (c_asum c0) with 0.
          repeat split; try discriminate; apply ar_base; clear -Hb2 Hb3 Hd2 Hd3 Hs_le Hs_le'; lia.
        + assert (Hf2 : fuel_ok f p2).
          { destruct Hf as [_ Hf]. destruct Hf1 as [Hf1 _]. unfold fuel_ok. clear -Hf Hf1 Hadv Hs1. lia. }
          specialize (IH acc' p2 Hf2).
          destruct (mrun (children_loop_gen f m (Some size) true end_ dispatch fin acc' p2) d p2)
            as [[r3 p3] k3].
          destruct IH as (I1 & I2 & I3).
          rewrite !cwork_cadd, !casum_cadd. change (cwork c_op) with 1. change (c_asum c_op) with 0.
          split; [exact I1|].
          assert (HD : end_ - p2 + s <= end_ - cur) by (clear -Hadv Hin Hlt; lia).
          split.
          * pose proof (ar_step (a + b + 19) a b 19 s (end_ - cur) (end_ - p2) (a * size + b + 19)
                                (cwork k3) (N.le_refl _) Hs1 HD I2) as G.
            clear -G Hb2 Hd2. lia.
          * pose proof (ar_step (al + bl) al bl 0 s (end_ - cur) (end_ - p2) (al * size + bl)
                                (c_asum k3)) as G.
            assert (G0 : al + bl + 0 <= al + bl) by lia. specialize (G G0 Hs1 HD I3).
            clear -G Hb3 Hd3. lia.
    Qed.
  End Gen.
End Loop.
