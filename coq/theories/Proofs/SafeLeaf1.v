(** * C06, leaf layer (1): the fixed-layout boxes never panic

    For every decoder [dec_xxx] two statements (definitions in Base/Hoare.v):
    - [dec_xxx_sat  m : leaf_sat  (dec_xxx m)]  positional form, used inside other proofs;
    - [dec_xxx_safe m : leaf_safe (dec_xxx m)]  the Hoare triple
        {Inv s /\ s_data s = d0 /\ s_pos s = p0 /\ 8 <= p0 <= lenN d0 /\ size < 2^62}
          dec_xxx m size
        {Inv s' /\ s_data s' = d0 /\ s_pos s' = p0 - 8 + size}
      for both build modes [m]. *)
From MP4 Require Import Hoare.
From MP4 Require Import BoxFtyp BoxMvhd BoxMdhd BoxTkhd BoxMehd BoxMfhd BoxTfdt BoxTrex BoxSmhd
                        BoxVmhd BoxTfhd BoxTx3g BoxVpcc.
From Coq Require Import ZArith ZifyN ZifyNat ZifyBool Lia.
Open Scope N_scope.

Ltac leaf_start := intros d p size Hd Hl H8 Hp Hs.

Lemma dec_mvhd_sat m : leaf_sat (dec_mvhd m).
Proof. leaf_start. unfold dec_mvhd, rd_matrix. sat_go; sat_arith. Qed.
Definition dec_mvhd_safe m : leaf_safe (dec_mvhd m) := leaf_safe_of_sat _ (dec_mvhd_sat m).

Lemma dec_mdhd_sat m : leaf_sat (dec_mdhd m).
Proof. leaf_start. unfold dec_mdhd. sat_go; sat_arith. Qed.
Definition dec_mdhd_safe m : leaf_safe (dec_mdhd m) := leaf_safe_of_sat _ (dec_mdhd_sat m).

Lemma dec_tkhd_sat m : leaf_sat (dec_tkhd m).
Proof. leaf_start. unfold dec_tkhd, rd_matrix. sat_go; sat_arith. Qed.
Definition dec_tkhd_safe m : leaf_safe (dec_tkhd m) := leaf_safe_of_sat _ (dec_tkhd_sat m).

Lemma dec_mehd_sat m : leaf_sat (dec_mehd m).
Proof. leaf_start. unfold dec_mehd. sat_go; sat_arith. Qed.
Definition dec_mehd_safe m : leaf_safe (dec_mehd m) := leaf_safe_of_sat _ (dec_mehd_sat m).

Lemma dec_mfhd_sat m : leaf_sat (dec_mfhd m).
Proof. leaf_start. unfold dec_mfhd. sat_go; sat_arith. Qed.
Definition dec_mfhd_safe m : leaf_safe (dec_mfhd m) := leaf_safe_of_sat _ (dec_mfhd_sat m).

Lemma dec_tfdt_sat m : leaf_sat (dec_tfdt m).
Proof. leaf_start. unfold dec_tfdt. sat_go; sat_arith. Qed.
Definition dec_tfdt_safe m : leaf_safe (dec_tfdt m) := leaf_safe_of_sat _ (dec_tfdt_sat m).

Lemma dec_trex_sat m : leaf_sat (dec_trex m).
Proof. leaf_start. unfold dec_trex. sat_go; sat_arith. Qed.
Definition dec_trex_safe m : leaf_safe (dec_trex m) := leaf_safe_of_sat _ (dec_trex_sat m).

Lemma dec_smhd_sat m : leaf_sat (dec_smhd m).
Proof. leaf_start. unfold dec_smhd. sat_go; sat_arith. Qed.
Definition dec_smhd_safe m : leaf_safe (dec_smhd m) := leaf_safe_of_sat _ (dec_smhd_sat m).

Lemma dec_vmhd_sat m : leaf_sat (dec_vmhd m).
Proof. leaf_start. unfold dec_vmhd. sat_go; sat_arith. Qed.
Definition dec_vmhd_safe m : leaf_safe (dec_vmhd m) := leaf_safe_of_sat _ (dec_vmhd_sat m).

Lemma dec_tx3g_sat m : leaf_sat (dec_tx3g m).
Proof. leaf_start. unfold dec_tx3g. sat_go; sat_arith. Qed.
Definition dec_tx3g_safe m : leaf_safe (dec_tx3g m) := leaf_safe_of_sat _ (dec_tx3g_sat m).

Lemma dec_vpcc_sat m : leaf_sat (dec_vpcc m).
Proof. leaf_start. unfold dec_vpcc. sat_go; sat_arith. Qed.
Definition dec_vpcc_safe m : leaf_safe (dec_vpcc m) := leaf_safe_of_sat _ (dec_vpcc_sat m).

(** tfhd: five optional fields; one lemma for the optional read instead of 32 paths *)
Lemma sat_tfhd_rd_opt {B} d p flag flags w (k : option N -> prog B) Q :
  bytes_ok d = true -> (0 < w)%nat ->
  (forall o p', sat d p' (k o) Q) ->
  sat d p (bind (tfhd_rd_opt flag flags (rd_u w)) k) Q.
Proof.
  intros Hd Hw H. unfold tfhd_rd_opt. destruct (tfhd_has flag flags).
  - apply sat_bind_assoc. apply sat_rd_u; auto. intros x Hx Hp. cbn [bind]. apply H.
  - cbn [bind]. apply H.
Qed.

Lemma dec_tfhd_sat m : leaf_sat (dec_tfhd m).
Proof.
  leaf_start. unfold dec_tfhd. sat_go.
  unfold rd_u64, rd_u32.
  apply sat_tfhd_rd_opt; [exact Hd|lia|]. intros o1 p1.
  apply sat_tfhd_rd_opt; [exact Hd|lia|]. intros o2 p2.
  apply sat_tfhd_rd_opt; [exact Hd|lia|]. intros o3 p3.
  apply sat_tfhd_rd_opt; [exact Hd|lia|]. intros o4 p4.
  apply sat_tfhd_rd_opt; [exact Hd|lia|]. intros o5 p5.
  sat_go; sat_arith.
Qed.
Definition dec_tfhd_safe m : leaf_safe (dec_tfhd m) := leaf_safe_of_sat _ (dec_tfhd_sat m).

(** ftyp: a counted loop of [rd_u32] *)
Lemma dec_ftyp_sat m : leaf_sat (dec_ftyp m).
Proof.
  leaf_start. unfold dec_ftyp. sat_go.
  eapply sat_rd_n_bind with (I := fun _ => True); [exact I| |].
  - intros p' _. apply sat_bind_ret. sat_go. exact I.
  - intros l p' _. sat_go; sat_arith.
Qed.
Definition dec_ftyp_safe m : leaf_safe (dec_ftyp m) := leaf_safe_of_sat _ (dec_ftyp_sat m).
