(** * The esds descriptors stay within their containers (up to a constant)

    After the fix "keep esds descriptors within the descriptor or box that contains them"
    ([clamp_desc_size]) every descriptor loop of mp4a.rs ends at most a constant number of bytes
    after the end of its container, whatever the descriptor headers say. *)
From MP4 Require Import Hoare BoxMp4a SafeLeaf4.
From Coq Require Import ZArith ZifyN ZifyNat ZifyBool Lia.
Open Scope N_scope.

Lemma sat_read_desc_len_pos d p n size : bytes_ok d = true -> size < U32 ->
  sat d p (read_desc_len n size)
      (fun sz p' => sz < U32 /\ p + N.min 1 (N.of_nat n) <= p' /\ p' <= p + N.of_nat n /\ (p' <= lenN d \/ p' = p)).
Proof.
  intros Hd. revert p size; induction n as [|n IH]; intros p size Hs; cbn [read_desc_len].
  - apply sat_ret. split; [exact Hs|]. clear. lia.
  - sat_go.
    + split; [now apply desc_len_step|]. clear -Hp. lia.
    + eapply sat_conseq; [|apply IH; now apply desc_len_step].
      cbn beta. intros sz p' (H1 & H2 & H3 & H4). split; [exact H1|]. clear -Hp H2 H3 H4. lia.
Qed.

(** [read_desc] reads 2 to 5 bytes *)
Lemma sat_read_desc_pos {B} d p (k : N * N -> prog B) Q : bytes_ok d = true ->
  (forall tag size p', size < U32 -> p + 2 <= p' -> p' <= p + 5 -> p' <= lenN d ->
     sat d p' (k (tag, size)) Q) ->
  sat d p (bind read_desc k) Q.
Proof.
  intros Hd H. unfold read_desc. sat_go.
  eapply sat_bind; [apply sat_read_desc_len_pos; [exact Hd|unfold U32; lia]|].
  cbn beta. intros sz p' (H1 & H2 & H3 & H4). cbn [bind].
  apply H; [exact H1|clear -H2; lia|clear -H3; lia|clear -Hp H2 H4; lia].
Qed.

(** [DecoderSpecificDescriptor::read_desc] reads 2 to 5 bytes whatever its [size] argument *)
Lemma sat_get_chan_conf_pos {B} d p byte_b freq_index ext (k : N -> prog B) Q : bytes_ok d = true ->
  (forall c p', p <= p' -> p' <= p + 3 -> sat d p' (k c) Q) ->
  sat d p (bind (get_chan_conf byte_b freq_index ext) k) Q.
Proof. intros Hd H. unfold get_chan_conf. sat_go; apply H; clear; lia. Qed.

Lemma sat_dec_decspecific_pos d p size : bytes_ok d = true ->
  sat d p (dec_decspecific size) (fun _ p' => p + 2 <= p' /\ p' <= p + 5).
Proof.
  intros Hd. unfold dec_decspecific. sat_go.
  - apply sat_get_chan_conf_pos; [exact Hd|]. intros c p' H1 H2. apply sat_ret. clear -H1 H2. lia.
  - apply sat_get_chan_conf_pos; [exact Hd|]. intros c p' H1 H2. apply sat_ret. clear -H1 H2. lia.
Qed.

(** ** DecoderConfigDescriptor: the loop ends in [e, e + 9] (or where it started, if that is
    already at or after [e]) *)
Lemma sat_decconfig_loop_pos d fuel e ds p : bytes_ok d = true ->
  sat d p (decconfig_loop fuel p e ds) (fun _ p' => p <= p' /\ e <= p' /\ p' <= N.max p (e + 9)).
Proof.
  intros Hd. revert ds p; induction fuel as [|fuel IH]; intros ds p; cbn [decconfig_loop].
  - apply sat_spin.
  - destruct (N.ltb_spec p e) as [Hlt|Hge]; [|apply sat_ret; clear -Hge; lia].
    apply sat_read_desc_pos; [exact Hd|]. intros tag sz p1 Hsz H1 H2 H3.
    sat_go.
    + eapply sat_bind; [apply sat_dec_decspecific_pos; exact Hd|]. cbn beta. intros r1 p2 [H4 H5].
      sat_go. eapply sat_conseq; [|apply IH]. cbn beta. intros _ p' (H0 & H6 & H7).
      clear -H0 Hlt H1 H2 H4 H5 H6 H7. lia.
    + eapply sat_conseq; [|apply IH]. cbn beta. intros _ p' (H0 & H6 & H7).
      pose proof (clamp_desc_size_le sz e p1) as L.
      assert (Hs : clamp_desc_size sz e p1 < 2 ^ 63) by (clear -L Hsz; unfold U32 in Hsz; lia).
      specialize (Hsk Hs). unfold clamp_desc_size in Hsk.
      clear -H0 Hlt H1 H2 H6 H7 Hsk. lia.
Qed.

Lemma sat_dec_decconfig_fuel_pos d fuel m size p : bytes_ok d = true -> lenN d < 2 ^ 62 ->
  p <= lenN d -> size < U32 ->
  sat d p (dec_decconfig_fuel fuel m size)
      (fun _ p' => p + 13 <= p' /\ p + size <= p' /\ p' <= N.max (p + 13) (p + size + 9)).
Proof.
  intros Hd Hl Hp Hs. unfold dec_decconfig_fuel. sat_go.
  eapply sat_bind; [apply sat_decconfig_loop_pos; exact Hd|]. cbn beta. intros r1 p1 (H0 & H1 & H2).
  apply sat_ret. clear -H0 H1 H2. lia.
Qed.

(** ** ESDescriptor: the loop ends in [e, e + 17] *)
Lemma sat_esdesc_loop_pos d m fuel e dc sc p : bytes_ok d = true -> lenN d < 2 ^ 62 ->
  sat d p (esdesc_loop m fuel p e dc sc) (fun _ p' => p <= p' /\ e <= p' /\ p' <= N.max p (e + 17)).
Proof.
  intros Hd Hl. revert dc sc p; induction fuel as [|fuel IH]; intros dc sc p; cbn [esdesc_loop].
  - apply sat_spin.
  - destruct (N.ltb_spec p e) as [Hlt|Hge]; [|apply sat_ret; clear -Hge; lia].
    apply sat_read_desc_pos; [exact Hd|]. intros tag sz p1 Hsz H1 H2 H3.
    pose proof (clamp_desc_size_le sz e p1) as L.
    sat_go.
    + unfold dec_decconfig.
      eapply sat_bind; [apply sat_dec_decconfig_fuel_pos; auto using clamp_desc_size_u32|].
      cbn beta. intros r1 p2 (H4 & H5 & H6).
      sat_go. eapply sat_conseq; [|apply IH]. cbn beta. intros _ p' (H0 & H7 & H8).
      unfold clamp_desc_size in H5, H6. clear -H0 Hlt H1 H2 H4 H5 H6 H7 H8. lia.
    + unfold dec_slconfig. sat_go. eapply sat_conseq; [|apply IH]. cbn beta. intros _ p' (H0 & H7 & H8).
      clear -H0 Hlt H1 H2 H7 H8. lia.
    + eapply sat_conseq; [|apply IH]. cbn beta. intros _ p' (H0 & H7 & H8).
      unfold clamp_desc_size in Hsk. clear -H0 Hlt H1 H2 H7 H8 Hsk. lia.
Qed.

Lemma sat_dec_esdesc_fuel_pos d fuel m size p : bytes_ok d = true -> lenN d < 2 ^ 62 ->
  p <= lenN d -> size < U32 ->
  sat d p (dec_esdesc_fuel fuel m size)
      (fun _ p' => p + 3 <= p' /\ p + size <= p' /\ p' <= N.max (p + 3) (p + size + 17)).
Proof.
  intros Hd Hl Hp Hs. unfold dec_esdesc_fuel. sat_go.
  eapply sat_bind; [apply sat_esdesc_loop_pos; auto|]. cbn beta. intros [dc sc] p1 (H0 & H1 & H2).
  apply sat_ret. clear -H0 H1 H2. lia.
Qed.

(** ** EsdsBox: the loop ends at most 21 bytes after [e] *)
Lemma sat_esds_loop_pos d m fuel e x p : bytes_ok d = true -> lenN d < 2 ^ 62 ->
  sat d p (esds_loop m fuel p e x) (fun _ p' => p <= p' /\ p' <= N.max p (e + 21)).
Proof.
  intros Hd Hl. revert x p; induction fuel as [|fuel IH]; intros x p; cbn [esds_loop].
  - apply sat_spin.
  - destruct (N.ltb_spec p e) as [Hlt|Hge]; [|apply sat_ret; clear; lia].
    apply sat_read_desc_pos; [exact Hd|]. intros tag sz p1 Hsz H1 H2 H3.
    sat_go; [|clear -Hlt H1 H2; lia]. unfold dec_esdesc.
    eapply sat_bind; [apply sat_dec_esdesc_fuel_pos; auto using clamp_desc_size_u32|].
    cbn beta. intros y p2 (H4 & H5 & H6).
    sat_go. eapply sat_conseq; [|apply IH]. cbn beta. intros _ p' [H7 H8].
    unfold clamp_desc_size in H5, H6. clear -Hlt H1 H2 H4 H5 H6 H7 H8. lia.
Qed.

(** [EsdsBox::read_box] up to the end of its descriptor loop, and what it does afterwards *)
Definition dec_esds_scan (fuel : nat) (m : mode) (size : N) : prog (N * N * N * option esdesc) :=
  start <- box_start m ;;
  '(version, flags) <- read_header_ext ;;
  current <- get_pos ;;
  e <- add64 m "esds start+size" start size ;;
  es_desc <- esds_loop m fuel current e None ;;
  Ret (start, version, flags, es_desc).

Definition dec_esds_finish (m : mode) (size : N) (r : N * N * N * option esdesc) : prog esds :=
  let '(start, version, flags, es_desc) := r in
  match es_desc with
  | None => Throw EData
  | Some d =>
      e2 <- add64 m "esds start+size" start size ;;
      skip_bytes_to e2 ;;;
      Ret (mkEsds version flags d)
  end.

Ltac run_cong :=
  rewrite ?bind_bind; rewrite run_bind; symmetry; rewrite run_bind; symmetry;
  match goal with |- context [run ?c ?s] => destruct (run c s) as [[?|?|?|] ?] end;
  try reflexivity.

Lemma dec_esds_fuel_scan fuel m size s :
  run (dec_esds_fuel fuel m size) s
  = run (bind (dec_esds_scan fuel m size) (dec_esds_finish m size)) s.
Proof.
  unfold dec_esds_fuel, dec_esds_scan.
  run_cong. run_cong.
  match goal with x : (N * N)%type |- _ => destruct x as [version flags] end. cbv beta iota.
  run_cong. run_cong. run_cong.
Qed.

(** the motivating bound: entered after [read_header] at [p] (the box starts at [p - 8] and
    ends at [p - 8 + size]), the descriptor scan of [EsdsBox::read_box] leaves the stream at most
    21 bytes after the end of the box (or after the 4 bytes of version and flags when the box is
    shorter than that) -- before the fix the distance was up to 2^28 *)
Theorem dec_esds_scan_pos fuel m d p size : bytes_ok d = true -> lenN d < 2 ^ 62 ->
  8 <= p -> p <= lenN d -> size < 2 ^ 62 ->
  sat d p (dec_esds_scan fuel m size)
      (fun _ p' => p + 4 <= p' /\ p' <= N.max (p + 4) (p - 8 + size + 21)).
Proof.
  intros Hd Hl H8 Hp Hs. unfold dec_esds_scan. sat_go.
  eapply sat_bind; [apply sat_esds_loop_pos; auto|]. cbn beta. intros r1 p1 [H1 H2].
  apply sat_ret. clear -H1 H2. lia.
Qed.

(** the same in terms of [run] *)
Corollary dec_esds_scan_run fuel m d p size r s' : bytes_ok d = true -> lenN d < 2 ^ 62 ->
  8 <= p -> p <= lenN d -> size < 2 ^ 62 ->
  run (dec_esds_scan fuel m size) (stream_at d p) = (Ok r, s') ->
  s_pos s' <= N.max (p + 4) (p - 8 + size + 21).
Proof.
  intros Hd Hl H8 Hp Hs E. pose proof (dec_esds_scan_pos fuel m d p size Hd Hl H8 Hp Hs) as S.
  unfold sat in S. rewrite E in S. cbn in S. destruct S as (p' & -> & _ & H). exact H.
Qed.

Print Assumptions dec_esds_scan_pos.
Print Assumptions dec_esds_fuel_scan.
