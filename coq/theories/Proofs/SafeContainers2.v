(** * C06, container layer (2): ilst, meta, udta, trak, mvex, moov, traf, moof never panic
    — statements as in SafeContainers.v *)
From MP4 Require Import Hoare SafeLoop SafeLeaf1 SafeLeaf2 SafeLeaf3 SafeLeaf4 SafeValues SafeContainers.
From MP4 Require Import BoxStsd BoxStbl BoxMinf BoxMdia BoxEdts BoxTrak BoxMvex BoxMoov BoxTraf BoxMoof
     BoxIlst BoxMeta BoxUdta.
From Coq Require Import ZArith ZifyN ZifyNat ZifyBool Lia.
Open Scope N_scope.

(** ** ilst item, ilst *)
Lemma ilst_item_dispatch_sat d m size f name s a p :
  bytes_ok d = true -> lenN d < 2 ^ 62 -> size < 2 ^ 62 ->
  8 <= p -> p <= lenN d -> s <= size ->
  sat d p (ilst_item_dispatch m f name s a) (fun _ _ => True).
Proof.
  intros Hd Hl Hsz H8 Hp Hle. unfold ilst_item_dispatch.
  destruct name; try (disp_skip ltac:(exact I));
    disp_call (cont_sat_of_leaf _ (dec_data_sat m)) ltac:(exact I).
Qed.

Lemma dec_ilst_item_fuel_sat fuel m : cont_sat (dec_ilst_item_fuel fuel m) (fun _ => True).
Proof.
  cont_start. unfold dec_ilst_item_fuel.
  apply sat_container_prologue; auto.
  apply sat_children_loop_bind with (IA := fun _ => True); [exact Hd| |exact I|].
  - intros f name s a p0 _ H80 Hp0 Hle _. now apply ilst_item_dispatch_sat with (size := size).
  - intros a p1 _. destruct a; [|apply sat_throw].
    apply sat_container_epilogue; [sat_arith|exact I].
Qed.

Lemma ilst_dispatch_sat d m size f name s a p :
  bytes_ok d = true -> lenN d < 2 ^ 62 -> size < 2 ^ 62 ->
  8 <= p -> p <= lenN d -> s <= size ->
  sat d p (ilst_dispatch m f name s a) (fun _ _ => True).
Proof.
  intros Hd Hl Hsz H8 Hp Hle. unfold ilst_dispatch.
  destruct name; try (disp_skip ltac:(exact I));
    disp_call (dec_ilst_item_fuel_sat f m) ltac:(exact I).
Qed.

Lemma dec_ilst_fuel_sat fuel m : cont_sat (dec_ilst_fuel fuel m) (fun _ => True).
Proof.
  cont_start. unfold dec_ilst_fuel.
  apply sat_container_prologue; auto.
  apply sat_children_loop_bind with (IA := fun _ => True); [exact Hd| |exact I|].
  - intros f name s a p0 _ H80 Hp0 Hle _. now apply ilst_dispatch_sat with (size := size).
  - intros a p1 _. apply sat_container_epilogue; [sat_arith|exact I].
Qed.

(** ** meta: three loops over the same bytes *)
Lemma meta_find_hdlr_sat d m size f name s a p :
  bytes_ok d = true -> lenN d < 2 ^ 62 -> size < 2 ^ 62 ->
  8 <= p -> p <= lenN d -> s <= size ->
  sat d p (meta_find_hdlr m f name s a) (fun _ _ => True).
Proof.
  intros Hd Hl Hsz H8 Hp Hle. unfold meta_find_hdlr.
  destruct name; try (disp_skip ltac:(exact I));
    disp_call (cont_sat_of_leaf _ (dec_hdlr_sat m)) ltac:(exact I).
Qed.

Lemma meta_mdir_dispatch_sat d m size f name s a p :
  bytes_ok d = true -> lenN d < 2 ^ 62 -> size < 2 ^ 62 ->
  8 <= p -> p <= lenN d -> s <= size ->
  sat d p (meta_mdir_dispatch m f name s a) (fun _ _ => True).
Proof.
  intros Hd Hl Hsz H8 Hp Hle. unfold meta_mdir_dispatch.
  destruct name; try (disp_skip ltac:(exact I));
    disp_call (dec_ilst_fuel_sat f m) ltac:(exact I).
Qed.

Lemma sat_meta_raw_child d p s name (a : list (boxtype * bytes)) :
  bytes_ok d = true ->
  sat d p (match checked_sub s HEADER_SIZE with
           | None => Throw EData
           | Some box_data_size => bind (rd_vec box_data_size) (fun box_data => Ret (a ++ [(name, box_data)]))
           end) (fun _ _ => True).
Proof.
  intros Hd. destruct (checked_sub s HEADER_SIZE); [|apply sat_throw].
  apply sat_rd_vec; [exact Hd|]. intros l _ _ _. now apply sat_ret.
Qed.

Lemma meta_unknown_dispatch_sat d m size f name s a p :
  bytes_ok d = true -> lenN d < 2 ^ 62 -> size < 2 ^ 62 ->
  8 <= p -> p <= lenN d -> s <= size ->
  sat d p (meta_unknown_dispatch m f name s a) (fun _ _ => True).
Proof.
  intros Hd Hl Hsz H8 Hp Hle. unfold meta_unknown_dispatch.
  destruct name; try (now apply sat_meta_raw_child).
  disp_skip ltac:(exact I).
Qed.

Lemma dec_meta_fuel_sat fuel m : cont_sat (dec_meta_fuel fuel m) (fun _ => True).
Proof.
  cont_start. unfold dec_meta_fuel. do 2 sat_step.
  apply sat_bind_any.
  - match goal with |- sat _ _ (if ?b then _ else _) _ => destruct b; [|now apply sat_ret] end.
    sat_step. destruct (boxtype_of_u32 x0); try apply sat_throw.
    unfold seek_rel. apply sat_SeekRel. intros _. now apply sat_ret.
  - intros _ p1. unfold get_pos. cbn [bind]. apply sat_GetPos.
    apply sat_add64; [sat_arith|].
    apply sat_children_loop_bind with (IA := fun _ => True); [exact Hd| |exact I|].
    + intros f name s a q _ H8q Hq Hle _. now apply meta_find_hdlr_sat with (size := size).
    + intros hd p2 _. destruct hd as [h|]; [|apply sat_throw].
      unfold seek_to. cbn [bind]. apply sat_SeekTo. apply sat_GetPos.
      destruct (hdlr_handler_type h =? meta_MDIR).
      * apply sat_children_loop_bind with (IA := fun _ => True); [exact Hd| |exact I|].
        -- intros f name s a q _ H8q Hq Hle _. now apply meta_mdir_dispatch_sat with (size := size).
        -- intros il p3 _. apply sat_container_epilogue; [sat_arith|exact I].
      * apply sat_children_loop_bind with (IA := fun _ => True); [exact Hd| |exact I|].
        -- intros f name s a q _ H8q Hq Hle _. now apply meta_unknown_dispatch_sat with (size := size).
        -- intros il p3 _. apply sat_container_epilogue; [sat_arith|exact I].
Qed.

(** ** udta *)
Lemma udta_dispatch_sat d m size f name s a p :
  bytes_ok d = true -> lenN d < 2 ^ 62 -> size < 2 ^ 62 ->
  8 <= p -> p <= lenN d -> s <= size ->
  sat d p (udta_dispatch m f name s a) (fun _ _ => True).
Proof.
  intros Hd Hl Hsz H8 Hp Hle. unfold udta_dispatch.
  destruct name; try (disp_skip ltac:(exact I));
    disp_call (dec_meta_fuel_sat f m) ltac:(exact I).
Qed.

Lemma dec_udta_fuel_sat fuel m : cont_sat (dec_udta_fuel fuel m) (fun _ => True).
Proof.
  cont_start. unfold dec_udta_fuel.
  apply sat_container_prologue; auto.
  apply sat_children_loop_bind with (IA := fun _ => True); [exact Hd| |exact I|].
  - intros f name s a p0 _ H80 Hp0 Hle _. now apply udta_dispatch_sat with (size := size).
  - intros a p1 _. apply sat_container_epilogue; [sat_arith|exact I].
Qed.

(** ** trak *)
Definition trak_IA (a : trak_acc) : Prop := opt_ok mdia_ok (snd a).

Lemma trak_dispatch_sat d m size f name s a p :
  bytes_ok d = true -> lenN d < 2 ^ 62 -> size < 2 ^ 62 ->
  trak_IA a -> 8 <= p -> p <= lenN d -> s <= size ->
  sat d p (trak_dispatch m f name s a) (fun a' _ => trak_IA a').
Proof.
  intros Hd Hl Hsz HI H8 Hp Hle. unfold trak_dispatch. destruct a as [[[tk ed] me] md].
  unfold trak_IA in *. cbn [snd] in *.
  destruct name; try (disp_skip ltac:(exact HI));
    first [ disp_call (cont_sat_of_leaf _ (dec_tkhd_sat m)) ltac:(exact HI)
          | disp_call (dec_edts_fuel_sat f m) ltac:(exact HI)
          | disp_call (dec_meta_fuel_sat f m) ltac:(exact HI)
          | disp_call (dec_mdia_fuel_sat f m) ltac:(exact HR) ].
Qed.

Lemma dec_trak_fuel_sat fuel m : cont_sat (dec_trak_fuel fuel m) trak_ok.
Proof.
  cont_start. unfold dec_trak_fuel.
  apply sat_container_prologue; auto.
  apply sat_children_loop_bind with (IA := trak_IA); [exact Hd| |exact I|].
  - intros f name s a p0 HI H80 Hp0 Hle _. now apply trak_dispatch_sat with (size := size).
  - intros [[[tk ed] me] md] p1 HI. unfold trak_IA in HI. cbn [snd] in HI.
    destruct tk; [|apply sat_throw]. destruct md; [|apply sat_throw].
    apply sat_container_epilogue; [sat_arith|exact HI].
Qed.

(** ** mvex *)
Definition mvex_IA (a : mvex_acc) : Prop := opt_ok trex_ok (snd a).

Lemma mvex_dispatch_sat d m size f name s a p :
  bytes_ok d = true -> lenN d < 2 ^ 62 -> size < 2 ^ 62 ->
  mvex_IA a -> 8 <= p -> p <= lenN d -> s <= size ->
  sat d p (mvex_dispatch m f name s a) (fun a' _ => mvex_IA a').
Proof.
  intros Hd Hl Hsz HI H8 Hp Hle. unfold mvex_dispatch. destruct a as [me tr].
  unfold mvex_IA in *. cbn [snd] in *.
  destruct name; try (disp_skip ltac:(exact HI));
    first [ disp_call (cont_sat_of_leaf _ (dec_mehd_sat m)) ltac:(exact HI)
          | disp_call (dec_trex_ok m) ltac:(exact HR) ].
Qed.

Lemma dec_mvex_fuel_sat fuel m : cont_sat (dec_mvex_fuel fuel m) mvex_ok.
Proof.
  cont_start. unfold dec_mvex_fuel.
  apply sat_container_prologue; auto.
  apply sat_children_loop_bind with (IA := mvex_IA); [exact Hd| |exact I|].
  - intros f name s a p0 HI H80 Hp0 Hle _. now apply mvex_dispatch_sat with (size := size).
  - intros [me tr] p1 HI. unfold mvex_IA in HI. cbn [snd] in HI.
    destruct tr; [|apply sat_throw].
    apply sat_container_epilogue; [sat_arith|exact HI].
Qed.

(** ** moov *)
Definition moov_IA (a : moov_acc) : Prop := opt_ok mvex_ok (snd (fst a)) /\ Forall trak_ok (snd a).

Lemma moov_dispatch_sat d m size f name s a p :
  bytes_ok d = true -> lenN d < 2 ^ 62 -> size < 2 ^ 62 ->
  moov_IA a -> 8 <= p -> p <= lenN d -> s <= size ->
  sat d p (moov_dispatch m f name s a) (fun a' _ => moov_IA a').
Proof.
  intros Hd Hl Hsz HI H8 Hp Hle. unfold moov_dispatch. destruct a as [[[[mh me] ud] mx] tr].
  unfold moov_IA in *. cbn [fst snd] in *. destruct HI as [HI1 HI2].
  destruct name; try (disp_skip ltac:(split; assumption));
    first [ disp_call (cont_sat_of_leaf _ (dec_mvhd_sat m)) ltac:(split; assumption)
          | disp_call (dec_meta_fuel_sat f m) ltac:(split; assumption)
          | disp_call (dec_udta_fuel_sat f m) ltac:(split; assumption)
          | disp_call (dec_mvex_fuel_sat f m) ltac:(split; assumption)
          | disp_call (dec_trak_fuel_sat f m)
              ltac:(split; [assumption|apply Forall_app; split; [assumption|constructor; [assumption|constructor]]]) ].
Qed.

Lemma dec_moov_fuel_sat fuel m : cont_sat (dec_moov_fuel fuel m) moov_ok.
Proof.
  cont_start. unfold dec_moov_fuel.
  apply sat_container_prologue; auto.
  apply sat_children_loop_bind with (IA := moov_IA); [exact Hd| |split; [exact I|constructor]|].
  - intros f name s a p0 HI H80 Hp0 Hle _. now apply moov_dispatch_sat with (size := size).
  - intros [[[[mh me] ud] mx] tr] p1 HI. unfold moov_IA in HI. cbn [fst snd] in HI.
    destruct mh; [|apply sat_throw].
    apply sat_container_epilogue; [sat_arith|exact HI].
Qed.

(** ** traf *)
Definition traf_IA (a : traf_acc) : Prop := opt_ok tfhd_ok (fst (fst a)) /\ opt_ok trun_ok (snd a).

Lemma traf_dispatch_sat d m size f name s a p :
  bytes_ok d = true -> lenN d < 2 ^ 62 -> size < 2 ^ 62 ->
  traf_IA a -> 8 <= p -> p <= lenN d -> s <= size ->
  sat d p (traf_dispatch m f name s a) (fun a' _ => traf_IA a').
Proof.
  intros Hd Hl Hsz HI H8 Hp Hle. unfold traf_dispatch. destruct a as [[fh fd] ru].
  unfold traf_IA in *. cbn [fst snd] in *. destruct HI as [HI1 HI2].
  destruct name; try (disp_skip ltac:(split; assumption));
    first [ disp_call (dec_tfhd_ok m) ltac:(split; assumption)
          | disp_call (cont_sat_of_leaf _ (dec_tfdt_sat m)) ltac:(split; assumption)
          | disp_call (dec_trun_ok m) ltac:(split; assumption) ].
Qed.

Lemma dec_traf_fuel_sat fuel m : cont_sat (dec_traf_fuel fuel m) traf_ok.
Proof.
  cont_start. unfold dec_traf_fuel.
  apply sat_container_prologue; auto.
  apply sat_children_loop_bind with (IA := traf_IA); [exact Hd| |split; exact I|].
  - intros f name s a p0 HI H80 Hp0 Hle _. now apply traf_dispatch_sat with (size := size).
  - intros [[fh fd] ru] p1 HI. unfold traf_IA in HI. cbn [fst snd] in HI.
    destruct fh; [|apply sat_throw].
    apply sat_container_epilogue; [sat_arith|exact HI].
Qed.

(** ** moof *)
Definition moof_IA (a : moof_acc) : Prop := Forall traf_ok (snd a).

Lemma moof_dispatch_sat d m size f name s a p :
  bytes_ok d = true -> lenN d < 2 ^ 62 -> size < 2 ^ 62 ->
  moof_IA a -> 8 <= p -> p <= lenN d -> s <= size ->
  sat d p (moof_dispatch m f name s a) (fun a' _ => moof_IA a').
Proof.
  intros Hd Hl Hsz HI H8 Hp Hle. unfold moof_dispatch. destruct a as [mh tr].
  unfold moof_IA in *. cbn [snd] in *.
  destruct name; try (disp_skip ltac:(exact HI));
    first [ disp_call (cont_sat_of_leaf _ (dec_mfhd_sat m)) ltac:(exact HI)
          | disp_call (dec_traf_fuel_sat f m)
              ltac:(apply Forall_app; split; [assumption|constructor; [assumption|constructor]]) ].
Qed.

Lemma dec_moof_fuel_sat fuel m : cont_sat (dec_moof_fuel fuel m) moof_ok.
Proof.
  cont_start. unfold dec_moof_fuel.
  apply sat_container_prologue; auto.
  apply sat_children_loop_bind with (IA := moof_IA); [exact Hd| |constructor|].
  - intros f name s a p0 HI H80 Hp0 Hle _. now apply moof_dispatch_sat with (size := size).
  - intros [mh tr] p1 HI. unfold moof_IA in HI. cbn [snd] in HI.
    destruct mh; [|apply sat_throw].
    apply sat_container_epilogue; [sat_arith|exact HI].
Qed.
