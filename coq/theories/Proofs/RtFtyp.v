(** Round trip of [FtypBox] *)
From MP4 Require Import Kit VlKit BoxFtyp IsoFtyp.
From Coq Require Import ZifyN ZifyNat ZifyBool.
Open Scope string_scope.
Open Scope list_scope.
Open Scope N_scope.

Lemma ftyp_code : u32_of_boxtype (box_type_of "FtypBox") = 0x66747970.
Proof. vm_compute. reflexivity. Qed.

Lemma ftyp_size_eq v : ftyp_size v = 16 + 4 * lenN (ftyp_compatible_brands v).
Proof. unfold ftyp_size, HEADER_SIZE, Tables.HEADER_SIZE. lia. Qed.

Lemma ftyp_enc v : ftyp_wf v = true -> ftyp_size v < U32 ->
  wspec (enc_ftyp v) (ftyp_size v) (be 4 (ftyp_size v) ++ be 4 0x66747970 ++ iso_ftyp_payload v).
Proof.
  intros H Hs. unfold ftyp_wf in H. split_andb.
  unfold enc_ftyp, iso_ftyp_payload. rewrite <- ftyp_code.
  eapply wspec_out.
  - wspec_go. apply wspec_each with (enc := be 4). intros; apply wspec_wr.
  - rewrite <- !app_assoc, ?app_nil_r. reflexivity.
Qed.

Lemma ftyp_payload_len v : lenN (iso_ftyp_payload v) + 8 = ftyp_size v.
Proof.
  rewrite ftyp_size_eq. unfold iso_ftyp_payload.
  rewrite !lenN_app, !lenN_be, (lenN_flat_map_const _ _ 4) by (intros; apply lenN_be). lia.
Qed.

Lemma ftyp_dec m v d l p post : ftyp_wf v = true -> p + ftyp_size v < 2 ^ 63 ->
  run (dec_ftyp m (ftyp_size v)) (mkStream d l (p + 8) (iso_ftyp_payload v ++ post))
  = (Ok v, mkStream d l (p + ftyp_size v) post).
Proof.
  intros H Hp. unfold ftyp_wf in H. split_andb.
  pose proof (ftyp_size_eq v) as Hsz.
  unfold dec_ftyp, iso_ftyp_payload. rewrite <- !app_assoc.
  rewrite run_box_start.
  replace ((ftyp_size v <? 16) || negb (ftyp_size v mod 4 =? 0)) with false
    by (symmetry; apply orb_false_iff; split;
        [apply N.ltb_ge | apply negb_false_iff, N.eqb_eq]; clear -Hsz; lia).
  replace (N.to_nat ((ftyp_size v - 16) / 4)) with (length (ftyp_compatible_brands v))
    by (clear -Hsz; unfold lenN in *; lia).
  do 2 rd_step.
  rewrite (run_rd_n_bind rd_u32 (be 4) 4).
  2:{ intros x k' p' rest' Hx. apply run_rd_u_bind; [lia|].
      apply ufit_lt. eapply forallb_In; eassumption. }
  prog_norm. rewrite run_finish; [| clear -Hsz; lia | clear -Hsz Hp; unfold U64; lia].
  f_equal.
  - destruct v; reflexivity.
  - f_equal. clear -Hsz. lia.
Qed.

Theorem ftyp_roundtrip : leaf_roundtrip ftyp_wf ftyp_size 0x66747970 enc_ftyp dec_ftyp iso_ftyp_payload.
Proof.
  apply leaf_roundtrip_intro.
  - apply ftyp_enc.
  - intros; apply ftyp_payload_len.
  - intros; now apply ftyp_dec.
Qed.

Print Assumptions ftyp_roundtrip.
