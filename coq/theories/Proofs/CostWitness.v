(** * Regression example for C07: the esds descriptor scanners (finding D54, esds half — FIXED)

    Before the fix "clamp every descriptor length to the end of the enclosing descriptor"
    ([clamp_desc_size] in src/mp4box/mp4a.rs, [BoxMp4a.clamp_desc_size] in the model),
    [ESDescriptor::read_desc] and [DecoderConfigDescriptor::read_desc] looped
    [while current < start + size] with [size] the length field of the DESCRIPTOR (up to 2^28 - 1),
    never compared with the end of the enclosing esds/mp4a box: a descriptor could claim the rest of
    the file, unknown tags being skipped two bytes at a time (tag 0, length 0), four stream calls per
    iteration.  [stbl] accepts any number of stsd children, each with one mp4a entry, so [k] tiny stsd
    boxes followed by [z] bytes of zero padding cost about [2 * k * z] stream calls for a file of
    [40 + 77 k + z] bytes: quadratic (model and real code agreed: 241 / 4081 / 15866 / 62516 calls
    for the four files below, x4 per doubling).

    [esds_witness k z] is that file (moov > trak > mdia > minf > stbl > k * stsd, then [z] zero
    bytes, [z] even).  With the clamp each scan stops at the end of its own esds box and the family
    is linear; the examples pin the meters the fixed reader produces. *)
From MP4 Require Import Cost Reader.
From Coq Require Import ZArith Lia.
Open Scope N_scope.

Definition enc28 (x : N) : bytes :=
  [N.lor 128 (N.land (N.shiftr x 21) 127); N.lor 128 (N.land (N.shiftr x 14) 127);
   N.lor 128 (N.land (N.shiftr x 7) 127); N.land x 127].

(** one stsd box of 77 bytes at offset [off]; the ES descriptor claims everything up to [pad_end],
    its first inner descriptor (tag 0) skips to [pad_start] *)
Definition esds_stsd (off pad_start pad_end : N) : bytes :=
  be 4 77 ++ be 4 0x73747364 ++ [0; 0; 0; 0] ++ be 4 1 ++
  be 4 61 ++ be 4 0x6d703461 ++ repeatN 0 28 ++
  be 4 25 ++ be 4 0x65736473 ++ [0; 0; 0; 0] ++
  [3] ++ enc28 (pad_end - (off + 69)) ++ [0; 0; 0] ++
  [0] ++ enc28 (pad_start - (off + 77)).

Fixpoint esds_stsds (k : nat) (off pad_start pad_end : N) : bytes :=
  match k with
  | O => []
  | S k' => esds_stsd off pad_start pad_end ++ esds_stsds k' (off + 77) pad_start pad_end
  end.

Definition esds_witness (k : nat) (z : N) : bytes :=
  let body := 77 * N.of_nat k in
  let pad_start := 40 + body in
  be 4 (40 + body) ++ be 4 0x6d6f6f76 ++       (* moov *)
  be 4 (32 + body) ++ be 4 0x7472616b ++       (* trak *)
  be 4 (24 + body) ++ be 4 0x6d646961 ++       (* mdia *)
  be 4 (16 + body) ++ be 4 0x6d696e66 ++       (* minf *)
  be 4 (8 + body) ++ be 4 0x7374626c ++        (* stbl *)
  esds_stsds k 40 pad_start (pad_start + z) ++
  repeatN 0 z.

Definition open_ops (data : bytes) : N :=
  m_ops (snd (runm (open_fuel (N.to_nat (lenN data) + 1) Rel (lenN data)) (stream_at data 0) (meter0 None))).

Example esds_witness_sizes :
  lenN (esds_witness 5 0) = 425 /\ lenN (esds_witness 5 384) = 809 /\ lenN (esds_witness 10 770) = 1580
  /\ lenN (esds_witness 20 1540) = 3120.
Proof. vm_compute. repeat split; reflexivity. Qed.

(** the reader ends with Err (the stbl has no stts) after 12 stream calls per stsd, whatever the padding *)
Example esds_witness_now_linear :
  open_ops (esds_witness 5 0) = 251
  /\ open_ops (esds_witness 5 384) = 251       (* 809 bytes; 4081 before the fix *)
  /\ open_ops (esds_witness 10 770) = 486      (* 1580 bytes; 15866 before the fix *)
  /\ open_ops (esds_witness 20 1540) = 956.    (* 3120 bytes; 62516 before the fix *)
Proof. vm_compute. repeat split; reflexivity. Qed.
