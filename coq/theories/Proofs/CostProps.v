(** * C07/C08: the assembled statements (the Props files only restate them) *)
From MP4 Require Import Cost Reader CostLoop CostOpen CostSample.
From MP4 Require Track.
Open Scope list_scope.
Open Scope N_scope.

Definition linear_open_bound (n : N) (mt : meter) : Prop :=
  m_ops mt <= open_A * n + open_B /\ m_bytes mt <= open_A * n + open_B /\ m_steps mt <= open_A * n + open_B.

Lemma c07_all :
  (* opening a file *)
  (forall data m fuel, bytes_ok data = true -> lenN data < 2 ^ 62 -> lenN data < N.of_nat fuel ->
     let '(r, _, mt) := runm (open_fuel fuel m (lenN data)) (stream_at data 0) (meter0 None) in
     r <> OutOfFuel /\ linear_open_bound (lenN data) mt)
  (* opening further fragments against an opened file *)
  /\ (forall data m rd fuel, bytes_ok data = true -> lenN data < 2 ^ 62 -> lenN data < N.of_nat fuel ->
     let '(r, _, mt) := runm (open_fragment_fuel fuel m rd (lenN data)) (stream_at data 0) (meter0 None) in
     r <> OutOfFuel /\ linear_open_bound (lenN data) mt)
  (* reading a sample: two stream calls, at most the sample's bytes, which exist in the input *)
  /\ (forall m rd tid sid data p,
     let '(r, _, mt) := runm (rd_read_sample m rd tid sid) (stream_at data p) (meter0 None) in
     r <> OutOfFuel /\ m_ops mt <= 2 /\ m_bytes mt <= lenN data /\ m_steps mt = 0
     /\ (forall t sz, tracks_get tid (rd_tracks rd) = Some t ->
                      Track.sample_size (track_view t) sid = Ok sz -> m_bytes mt <= sz)).
Proof.
  split; [|split].
  - intros data m fuel Hd Hl Hf.
    pose proof (open_terminates data m fuel Hd Hl Hf) as T. pose proof (open_cost data m fuel Hd Hl Hf) as C.
    destruct (runm _ _ _) as [[r s] mt]. cbn in T, C. split; [exact T|]. unfold linear_open_bound. tauto.
  - intros data m rd fuel Hd Hl Hf.
    pose proof (open_fragment_terminates data m rd fuel Hd Hl Hf) as T.
    pose proof (open_fragment_cost data m rd fuel Hd Hl Hf) as C.
    destruct (runm _ _ _) as [[r s] mt]. cbn in T, C. split; [exact T|]. unfold linear_open_bound. tauto.
  - intros m rd tid sid data p.
    pose proof (read_sample_terminates m rd tid sid data p) as T.
    pose proof (read_sample_cost m rd tid sid data p) as C.
    pose proof (fun t sz H1 H2 => read_sample_cost_size m rd tid sid data p t sz H1 H2) as S.
    destruct (runm _ _ _) as [[r s] mt]. cbn in T, C, S. split; [exact T|].
    repeat split; try tauto. intros t sz H1 H2. apply (S t sz H1 H2).
Qed.

Lemma c08_all :
  (forall data m fuel, bytes_ok data = true -> lenN data < 2 ^ 62 -> lenN data < N.of_nat fuel ->
     let mt := snd (runm (open_fuel fuel m (lenN data)) (stream_at data 0) (meter0 None)) in
     m_alloc_max mt <= open_Al * lenN data + open_Bl /\ m_alloc_sum mt <= open_Al * lenN data + open_Bl)
  /\ (forall data m rd fuel, bytes_ok data = true -> lenN data < 2 ^ 62 -> lenN data < N.of_nat fuel ->
     let mt := snd (runm (open_fragment_fuel fuel m rd (lenN data)) (stream_at data 0) (meter0 None)) in
     m_alloc_max mt <= open_Al * lenN data + open_Bl /\ m_alloc_sum mt <= open_Al * lenN data + open_Bl)
  /\ (forall m rd tid sid data p,
     let mt := snd (runm (rd_read_sample m rd tid sid) (stream_at data p) (meter0 None)) in
     m_alloc_max mt <= 2 * lenN data + 32 /\ m_alloc_sum mt <= 2 * lenN data + 32).
Proof.
  split; [|split].
  - intros data m fuel Hd Hl Hf. pose proof (open_cost data m fuel Hd Hl Hf) as C. cbn zeta in *. tauto.
  - intros data m rd fuel Hd Hl Hf. pose proof (open_fragment_cost data m rd fuel Hd Hl Hf) as C.
    cbn zeta in *. tauto.
  - intros m rd tid sid data p. pose proof (read_sample_cost m rd tid sid data p) as C. cbn zeta in *. tauto.
Qed.
