(** Round trip of [Vp09Box] *)
From MP4 Require Import Kit VlKit BoxVpcc BoxVp09 IsoVpcc IsoVp09 RtVpcc.
From Coq Require Import ZifyN ZifyNat ZifyBool.
Open Scope string_scope.
Open Scope list_scope.
Open Scope N_scope.

Lemma vp09_code : u32_of_boxtype (box_type_of "Vp09Box") = 0x76703039.
Proof. vm_compute. reflexivity. Qed.

(** a 32-bit field is its two 16-bit halves *)
Lemma be4_halves a b : a < 65536 -> b < 65536 -> be 4 (a * 65536 + b) = be 2 a ++ be 2 b.
Proof.
  intros Ha Hb. unfold be. cbn [le rev app].
  do 4 (apply (f_equal2 (@cons N)); [clear -Ha Hb; lia|]). reflexivity.
Qed.

Lemma vp09_size_eq v : vp09_size v = 106.
Proof. reflexivity. Qed.

Lemma vp09_payload_norm v : vp09_wf v = true ->
  iso_vp09_payload v =
  be 1 (vp09_version v) ++ be 3 (vp09_flags v) ++ be 2 (vp09_start_code v) ++
  be 2 (vp09_data_reference_index v) ++ vp09_reserved0 v ++
  be 2 (vp09_width v) ++ be 2 (vp09_height v) ++
  be 2 (fst (vp09_horizresolution v)) ++ be 2 (snd (vp09_horizresolution v)) ++
  be 2 (fst (vp09_vertresolution v)) ++ be 2 (snd (vp09_vertresolution v)) ++
  vp09_reserved1 v ++ be 2 (vp09_frame_count v) ++ vp09_compressorname v ++
  be 2 (vp09_depth v) ++ be 2 (vp09_end_code v) ++
  be 4 (vpcc_size (vp09_vpcc v)) ++ be 4 0x76706343 ++ iso_vpcc_payload (vp09_vpcc v).
Proof.
  intros H. unfold vp09_wf in H. split_andb.
  unfold iso_vp09_payload, iso_vp09_box.
  rewrite !be4_halves by (rewrite <- pow256_2; assumption).
  replace (8 + lenN (iso_vpcc_payload (vp09_vpcc v))) with (vpcc_size (vp09_vpcc v))
    by (rewrite <- (vpcc_payload_len (vp09_vpcc v)); lia).
  rewrite <- !app_assoc. reflexivity.
Qed.

Lemma vp09_enc v : vp09_wf v = true -> vp09_size v < U32 ->
  wspec (enc_vp09 v) (vp09_size v) (be 4 (vp09_size v) ++ be 4 0x76703039 ++ iso_vp09_payload v).
Proof.
  intros H Hs. rewrite (vp09_payload_norm v H). unfold vp09_wf in H. split_andb.
  unfold enc_vp09. rewrite <- vp09_code.
  eapply wspec_out.
  - wspec_go. apply vpcc_enc; [assumption | reflexivity].
  - rewrite <- !app_assoc, ?app_nil_r. reflexivity.
Qed.

Lemma vp09_payload_len v : vp09_wf v = true -> lenN (iso_vp09_payload v) + 8 = vp09_size v.
Proof.
  intros H. rewrite (vp09_payload_norm v H). unfold vp09_wf in H. split_andb.
  repeat match goal with H : (lenN _ =? _) = true |- _ => apply N.eqb_eq in H end.
  rewrite vp09_size_eq.
  rewrite ?lenN_app, ?lenN_be.
  pose proof (vpcc_payload_len (vp09_vpcc v)) as Hc. rewrite vpcc_size_eq in Hc.
  repeat match goal with H : lenN _ = _ |- _ => rewrite H; clear H end.
  clear -Hc. lia.
Qed.

Ltac rd_arr_step h :=
  prog_norm; rewrite (run_RdExact_app _ _ _ _ h) by (first [assumption | clear; lia]); cbn beta.

Lemma vp09_dec m v d l p post : vp09_wf v = true -> p + vp09_size v < 2 ^ 63 ->
  run (dec_vp09 m (vp09_size v)) (mkStream d l (p + 8) (iso_vp09_payload v ++ post))
  = (Ok v, mkStream d l (p + vp09_size v) post).
Proof.
  intros H Hp. rewrite (vp09_payload_norm v H). unfold vp09_wf in H. split_andb.
  repeat match goal with H : (lenN _ =? _) = true |- _ => apply N.eqb_eq in H end.
  rewrite vp09_size_eq in *.
  unfold dec_vp09. rewrite <- !app_assoc.
  rewrite run_box_start.
  do 4 rd_step. rd_arr_step (vp09_reserved0 v).
  do 6 rd_step. rd_arr_step (vp09_reserved1 v).
  rd_step. rd_arr_step (vp09_compressorname v).
  do 2 rd_step.
  rewrite run_read_header_bind;
    [| rewrite vpcc_size_eq; clear; vm_compute; reflexivity
     | rewrite vpcc_size_eq; clear; lia
     | clear; vm_compute; reflexivity].
  cbv beta iota.
  replace (106 <? vpcc_size (vp09_vpcc v)) with false by (rewrite vpcc_size_eq; reflexivity).
  cbv iota.
  erewrite run_bind_ok;
    [| apply vpcc_dec; [assumption | rewrite vpcc_size_eq; clear -Hp; lia]].
  rewrite vpcc_size_eq.
  prog_norm. rewrite run_finish; [| clear; lia | clear -Hp; unfold U64; lia].
  f_equal.
  - destruct v as [a1 a2 a3 a4 a5 a6 a7 [h0 h1] [v0 v1] a8 a9 a10 a11 a12 a13]. reflexivity.
  - f_equal. clear. lia.
Qed.

Theorem vp09_roundtrip : leaf_roundtrip vp09_wf vp09_size 0x76703039 enc_vp09 dec_vp09 iso_vp09_payload.
Proof.
  apply leaf_roundtrip_intro.
  - apply vp09_enc.
  - apply vp09_payload_len.
  - intros; now apply vp09_dec.
Qed.

Print Assumptions vp09_roundtrip.
