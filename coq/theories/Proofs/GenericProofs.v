(** * Proofs for the properties that hold for EVERY stream program (C10, C15; C11 is in
      [GenericPrefix.v])

    Nothing here looks inside a box decoder: the theorems are consequences of the shape of
    [prog]/[wprog] (no "catch" node, the stream content is immutable, the fault counter only
    counts stream calls), instantiated for the reader and the encoders. *)
From MP4 Require Import Hoare Reader.
Open Scope list_scope.
Open Scope N_scope.

(** ** C10 — an injected fault is delivered and surfaces *)

(** the same meter with another fault setting *)
Definition with_fault (m : meter) (f : option N) : meter :=
  mkMeter (m_ops m) (m_bytes m) (m_steps m) (m_alloc_max m) (m_alloc_sum m) f (m_fired m).

Lemma with_fault_meter0 f : with_fault (meter0 None) f = meter0 f.
Proof. reflexivity. Qed.

Lemma with_fault_add_bytes m f n : with_fault (add_bytes m n) f = add_bytes (with_fault m f) n.
Proof. reflexivity. Qed.
Lemma with_fault_add_step m f : with_fault (add_step m) f = add_step (with_fault m f).
Proof. reflexivity. Qed.
Lemma with_fault_add_alloc m f n : with_fault (add_alloc m n) f = add_alloc (with_fault m f) n.
Proof. reflexivity. Qed.

(** one stream call under an armed fault: it fires at 0, else the un-faulted tick with the
    counter decremented *)
Lemma op_tick_armed m k : m_fault m = None ->
  exists m1, op_tick m = Some m1 /\ m_fault m1 = None /\ m_ops m1 = m_ops m + 1 /\
    (k = 0 -> op_tick (with_fault m (Some k)) = None) /\
    (k <> 0 -> op_tick (with_fault m (Some k)) = Some (with_fault m1 (Some (k - 1)))).
Proof.
  intros H. unfold op_tick. rewrite H. eexists. split; [reflexivity|].
  cbn [m_fault m_ops with_fault m_bytes m_steps m_alloc_max m_alloc_sum m_fired].
  repeat split.
  - intros ->. reflexivity.
  - intros Hk. destruct k as [|q]; [congruence|]. reflexivity.
Qed.

Lemma fire_with_fault m f : m_fired (fire (with_fault m f)) = true /\
  m_ops (fire (with_fault m f)) = m_ops m + 1.
Proof. split; reflexivity. Qed.

Lemma fault_delivered_gen {A} (p : prog A) : forall s m k,
  m_fault m = None ->
  m_ops m + k < m_ops (snd (runm p s m)) ->
  let '(_, _, m') := runm p s (with_fault m (Some k)) in
  m_fired m' = true /\ m_ops m' = m_ops m + k + 1.
Proof.
  induction p as [a|e|x| |n c IH|q c IH|d c IH|c IH|n c IH|c IH]; intros s m k Hm Hk;
    cbn [runm snd] in *; try (exfalso; clear -Hk; lia).
  - destruct (n =? 0); [apply IH; assumption|].
    destruct (op_tick_armed m k Hm) as (m1 & E1 & F1 & O1 & Z & NZ).
    rewrite E1 in Hk.
    destruct (N.eq_dec k 0) as [->|Hk0].
    + rewrite (Z eq_refl). destruct (fire_with_fault m (Some 0)) as [H1 H2].
      split; [exact H1|]. rewrite H2. clear; lia.
    + rewrite (NZ Hk0).
      destruct (splitN n (s_view s)) as [[h r]|].
      * rewrite <- with_fault_add_bytes.
        specialize (IH h (mkStream (s_data s) (s_len s) (s_pos s + n) r) (add_bytes m1 n) (k - 1)).
        cbn [s_data s_len s_pos s_view] in IH.
        match type of IH with ?P -> ?Q -> _ => assert (HP : P) by exact F1; assert (HQ : Q) end.
        { change (m_ops (add_bytes m1 n)) with (m_ops m1). rewrite O1. clear -Hk Hk0. lia. }
        specialize (IH HP HQ).
        destruct (runm (c h) _ (with_fault (add_bytes m1 n) (Some (k - 1)))) as [[r0 s0] m0].
        change (m_ops (add_bytes m1 n)) with (m_ops m1) in IH. rewrite O1 in IH.
        destruct IH as [I1 I2]. split; [exact I1|]. rewrite I2. clear -Hk0. lia.
      * cbn [snd] in Hk. rewrite O1 in Hk. exfalso. clear -Hk Hk0. lia.
  - destruct (op_tick_armed m k Hm) as (m1 & E1 & F1 & O1 & Z & NZ).
    rewrite E1 in Hk.
    destruct (N.eq_dec k 0) as [->|Hk0].
    + rewrite (Z eq_refl). destruct (fire_with_fault m (Some 0)) as [H1 H2].
      split; [exact H1|]. rewrite H2. clear; lia.
    + rewrite (NZ Hk0).
      specialize (IH (seek_abs s q) m1 (k - 1) F1).
      match type of IH with ?Q -> _ => assert (HQ : Q) by (rewrite O1; clear -Hk Hk0; lia) end.
      specialize (IH HQ).
      destruct (runm c _ (with_fault m1 (Some (k - 1)))) as [[r0 s0] m0].
      rewrite O1 in IH. destruct IH as [I1 I2]. split; [exact I1|]. rewrite I2. clear -Hk0. lia.
  - destruct (op_tick_armed m k Hm) as (m1 & E1 & F1 & O1 & Z & NZ).
    rewrite E1 in Hk.
    destruct (N.eq_dec k 0) as [->|Hk0].
    + rewrite (Z eq_refl). destruct (fire_with_fault m (Some 0)) as [H1 H2].
      split; [exact H1|]. rewrite H2. clear; lia.
    + rewrite (NZ Hk0).
      destruct (seek_cur s d) as [s1|].
      * specialize (IH s1 m1 (k - 1) F1).
        match type of IH with ?Q -> _ => assert (HQ : Q) by (rewrite O1; clear -Hk Hk0; lia) end.
        specialize (IH HQ).
        destruct (runm c _ (with_fault m1 (Some (k - 1)))) as [[r0 s0] m0].
        rewrite O1 in IH. destruct IH as [I1 I2]. split; [exact I1|]. rewrite I2. clear -Hk0. lia.
      * cbn [snd] in Hk. rewrite O1 in Hk. exfalso. clear -Hk Hk0. lia.
  - destruct (op_tick_armed m k Hm) as (m1 & E1 & F1 & O1 & Z & NZ).
    rewrite E1 in Hk.
    destruct (N.eq_dec k 0) as [->|Hk0].
    + rewrite (Z eq_refl). destruct (fire_with_fault m (Some 0)) as [H1 H2].
      split; [exact H1|]. rewrite H2. clear; lia.
    + rewrite (NZ Hk0).
      specialize (IH (s_pos s) s m1 (k - 1) F1).
      match type of IH with ?Q -> _ => assert (HQ : Q) by (rewrite O1; clear -Hk Hk0; lia) end.
      specialize (IH HQ).
      destruct (runm (c (s_pos s)) _ (with_fault m1 (Some (k - 1)))) as [[r0 s0] m0].
      rewrite O1 in IH. destruct IH as [I1 I2]. split; [exact I1|]. rewrite I2. clear -Hk0. lia.
  - rewrite <- with_fault_add_alloc. apply (IH s (add_alloc m n) k Hm). exact Hk.
  - rewrite <- with_fault_add_step. apply (IH s (add_step m) k Hm). exact Hk.
Qed.

(** Every fault index below the number of stream calls of the un-faulted run is delivered,
    after exactly [k] successful calls, and the call in progress returns [Err EIo]. *)
Lemma fault_is_delivered_lemma {A} (p : prog A) s k :
  k < m_ops (snd (runm p s (meter0 None))) ->
  let '(r, _, m') := runm p s (meter0 (Some k)) in
  m_fired m' = true /\ m_ops m' = k + 1 /\ r = Err EIo.
Proof.
  intros Hk.
  pose proof (fault_delivered_gen p s (meter0 None) k eq_refl) as H.
  pose proof (fault_surfaces p s (meter0 (Some k)) eq_refl) as F.
  change (with_fault (meter0 None) (Some k)) with (meter0 (Some k)) in H.
  change (m_ops (meter0 None) + k) with (0 + k) in H. rewrite N.add_0_l in H.
  specialize (H Hk).
  destruct (runm p s (meter0 (Some k))) as [[r s'] m'].
  destruct H as [H1 H2]. repeat split; auto.
Qed.

Lemma wfault_delivered_gen {A} (p : wprog A) : forall w m k,
  m_fault m = None ->
  m_ops m + k < m_ops (snd (wrunm p w m)) ->
  let '(_, _, m') := wrunm p w (with_fault m (Some k)) in
  m_fired m' = true /\ m_ops m' = m_ops m + k + 1.
Proof.
  induction p as [a|e|x|l c IH|q c IH|c IH]; intros w m k Hm Hk;
    cbn [wrunm snd] in *; try (exfalso; clear -Hk; lia).
  - destruct l as [|b l]; [apply IH; assumption|].
    destruct (op_tick_armed m k Hm) as (m1 & E1 & F1 & O1 & Z & NZ).
    rewrite E1 in Hk.
    destruct (N.eq_dec k 0) as [->|Hk0].
    + rewrite (Z eq_refl). destruct (fire_with_fault m (Some 0)) as [H1 H2].
      split; [exact H1|]. rewrite H2. clear; lia.
    + rewrite (NZ Hk0). rewrite <- with_fault_add_bytes.
      match goal with |- context [wrunm c ?w1 _] => specialize (IH w1 (add_bytes m1 (lenN (b :: l))) (k - 1) F1) end.
      change (m_ops (add_bytes m1 (lenN (b :: l)))) with (m_ops m1) in IH.
      match type of IH with ?Q -> _ => assert (HQ : Q) by (rewrite O1; clear -Hk Hk0; lia) end.
      specialize (IH HQ).
      destruct (wrunm c _ (with_fault (add_bytes m1 (lenN (b :: l))) (Some (k - 1)))) as [[r0 s0] m0].
      rewrite O1 in IH. destruct IH as [I1 I2]. split; [exact I1|]. rewrite I2. clear -Hk0. lia.
  - destruct (op_tick_armed m k Hm) as (m1 & E1 & F1 & O1 & Z & NZ).
    rewrite E1 in Hk.
    destruct (N.eq_dec k 0) as [->|Hk0].
    + rewrite (Z eq_refl). destruct (fire_with_fault m (Some 0)) as [H1 H2].
      split; [exact H1|]. rewrite H2. clear; lia.
    + rewrite (NZ Hk0).
      specialize (IH (mkW (w_base w) (w_buf w) q) m1 (k - 1) F1).
      match type of IH with ?Q -> _ => assert (HQ : Q) by (rewrite O1; clear -Hk Hk0; lia) end.
      specialize (IH HQ).
      destruct (wrunm c _ (with_fault m1 (Some (k - 1)))) as [[r0 s0] m0].
      rewrite O1 in IH. destruct IH as [I1 I2]. split; [exact I1|]. rewrite I2. clear -Hk0. lia.
  - destruct (op_tick_armed m k Hm) as (m1 & E1 & F1 & O1 & Z & NZ).
    rewrite E1 in Hk.
    destruct (N.eq_dec k 0) as [->|Hk0].
    + rewrite (Z eq_refl). destruct (fire_with_fault m (Some 0)) as [H1 H2].
      split; [exact H1|]. rewrite H2. clear; lia.
    + rewrite (NZ Hk0).
      specialize (IH (w_pos w) w m1 (k - 1) F1).
      match type of IH with ?Q -> _ => assert (HQ : Q) by (rewrite O1; clear -Hk Hk0; lia) end.
      specialize (IH HQ).
      destruct (wrunm (c (w_pos w)) _ (with_fault m1 (Some (k - 1)))) as [[r0 s0] m0].
      rewrite O1 in IH. destruct IH as [I1 I2]. split; [exact I1|]. rewrite I2. clear -Hk0. lia.
Qed.

Lemma wfault_is_delivered_lemma {A} (p : wprog A) w k :
  k < m_ops (snd (wrunm p w (meter0 None))) ->
  let '(r, _, m') := wrunm p w (meter0 (Some k)) in
  m_fired m' = true /\ m_ops m' = k + 1 /\ r = Err EIo.
Proof.
  intros Hk.
  pose proof (wfault_delivered_gen p w (meter0 None) k eq_refl) as H.
  pose proof (wfault_surfaces p w (meter0 (Some k)) eq_refl) as F.
  change (with_fault (meter0 None) (Some k)) with (meter0 (Some k)) in H.
  change (m_ops (meter0 None) + k) with (0 + k) in H. rewrite N.add_0_l in H.
  specialize (H Hk).
  destruct (wrunm p w (meter0 (Some k))) as [[r s'] m'].
  destruct H as [H1 H2]. repeat split; auto.
Qed.

(** with no fault armed nothing fires, and the metered run is the plain run *)
Lemma op_tick_plain m : m_fault m = None ->
  op_tick m = Some (mkMeter (m_ops m + 1) (m_bytes m) (m_steps m) (m_alloc_max m) (m_alloc_sum m)
                            None (m_fired m)).
Proof. intros H. unfold op_tick. rewrite H. reflexivity. Qed.

Lemma runm_nofault_fired {A} (p : prog A) : forall s m, m_fault m = None ->
  m_fired (snd (runm p s m)) = m_fired m.
Proof.
  induction p as [a|e|x| |n c IH|q c IH|d c IH|c IH|n c IH|c IH]; intros s m Hm;
    cbn [runm snd]; auto.
  - destruct (n =? 0); [now apply IH|]. rewrite (op_tick_plain m Hm).
    destruct (splitN n (s_view s)) as [[h r]|]; [|reflexivity]. rewrite IH; reflexivity.
  - rewrite (op_tick_plain m Hm). rewrite IH; reflexivity.
  - rewrite (op_tick_plain m Hm). destruct (seek_cur s d); [|reflexivity]. rewrite IH; reflexivity.
  - rewrite (op_tick_plain m Hm). rewrite IH; reflexivity.
  - rewrite IH; [reflexivity | exact Hm].
  - rewrite IH; [reflexivity | exact Hm].
Qed.

Lemma no_fault_same_result_lemma {A} (p : prog A) s :
  let '(r, s', m') := runm p s (meter0 None) in run p s = (r, s') /\ m_fired m' = false.
Proof.
  pose proof (runm_run p s (meter0 None) eq_refl) as H.
  pose proof (runm_nofault_fired p s (meter0 None) eq_refl) as F.
  destruct (runm p s (meter0 None)) as [[r s'] m']. cbn [snd] in F.
  destruct H as [H _]. split; [exact H | exact F].
Qed.

Lemma wrunm_nofault_fired {A} (p : wprog A) : forall w m, m_fault m = None ->
  m_fired (snd (wrunm p w m)) = m_fired m.
Proof.
  induction p as [a|e|x|l c IH|q c IH|c IH]; intros w m Hm; cbn [wrunm snd]; auto.
  - destruct l as [|b l]; [now apply IH|]. rewrite (op_tick_plain m Hm). rewrite IH; reflexivity.
  - rewrite (op_tick_plain m Hm). rewrite IH; reflexivity.
  - rewrite (op_tick_plain m Hm). rewrite IH; reflexivity.
Qed.

Lemma wno_fault_same_result_lemma {A} (p : wprog A) w :
  let '(r, w', m') := wrunm p w (meter0 None) in wrun p w = (r, w') /\ m_fired m' = false.
Proof.
  pose proof (wrunm_wrun p w (meter0 None) eq_refl) as H.
  pose proof (wrunm_nofault_fired p w (meter0 None) eq_refl) as F.
  destruct (wrunm p w (meter0 None)) as [[r w'] m']. cbn [snd] in F.
  destruct H as [H _]. split; [exact H | exact F].
Qed.

(** the instances *)
Definition surfaces {A} (p : prog A) : Prop := forall s mt,
  m_fired mt = false ->
  let '(r, _, m') := runm p s mt in m_fired m' = true -> r = Err EIo.
Definition wsurfaces {A} (p : wprog A) : Prop := forall w mt,
  m_fired mt = false ->
  let '(r, _, m') := wrunm p w mt in m_fired m' = true -> r = Err EIo.

Lemma surfaces_all {A} (p : prog A) : surfaces p.
Proof. intros s mt. apply fault_surfaces. Qed.
Lemma wsurfaces_all {A} (p : wprog A) : wsurfaces p.
Proof. intros w mt. apply wfault_surfaces. Qed.

Lemma io_fault_open_lemma fuel m size : surfaces (open_fuel fuel m size).
Proof. apply surfaces_all. Qed.
Lemma io_fault_open_fragment_lemma fuel m r size : surfaces (open_fragment_fuel fuel m r size).
Proof. apply surfaces_all. Qed.
Lemma io_fault_read_sample_lemma m r tid sid : surfaces (rd_read_sample m r tid sid).
Proof. apply surfaces_all. Qed.
Lemma io_fault_encoders_lemma :
  (forall m v, wsurfaces (enc_moov m v)) /\ (forall v, wsurfaces (enc_ftyp v)) /\
  (forall v, wsurfaces (enc_moof v)) /\ (forall v, wsurfaces (enc_emsg v)).
Proof. repeat split; intros; apply wsurfaces_all. Qed.

(** ** C15 — results do not depend on the stream position left by earlier calls *)

(** programs that begin (after CPU-only nodes) with an absolute seek, or touch no stream *)
Fixpoint pos_indep {A} (p : prog A) : Prop :=
  match p with
  | Ret _ | Throw _ | Crash _ | Spin => True
  | SeekTo _ _ => True
  | Alloc _ k | Step k => pos_indep k
  | RdExact _ _ | SeekRel _ _ | GetPos _ => False
  end.

Lemma pos_indep_run {A} (p : prog A) : pos_indep p ->
  forall d p1 p2, fst (run p (stream_at d p1)) = fst (run p (stream_at d p2)).
Proof.
  induction p as [a|e|x| |n c IH|q c IH|dz c IH|c IH|n c IH|c IH]; cbn [pos_indep run fst];
    intros H d p1 p2; auto; try contradiction.
  rewrite !seek_abs_at. reflexivity.
Qed.

Lemma read_sample_pos_indep m t sid : pos_indep (Track.read_sample m t sid).
Proof.
  unfold Track.read_sample.
  destruct (Track.sample_offset m t sid) as [off|[]|x|]; cbn [pos_indep]; auto.
  destruct (Track.sample_size t sid) as [sz|[]|x|]; cbn [pos_indep]; auto.
  unfold seek_to. cbn [bind pos_indep]. exact I.
Qed.

Lemma rd_read_sample_pos_indep m r tid sid : pos_indep (rd_read_sample m r tid sid).
Proof.
  unfold rd_read_sample. destruct (tracks_get tid (rd_tracks r)); [apply read_sample_pos_indep | exact I].
Qed.

Lemma read_sample_position_independent_lemma m r tid sid data p p' :
  fst (run (rd_read_sample m r tid sid) (stream_at data p)) =
  fst (run (rd_read_sample m r tid sid) (stream_at data p')).
Proof. apply pos_indep_run. apply rd_read_sample_pos_indep. Qed.

(** the calls of C15 and their results *)
Inductive rcall :=
| CallReadSample (tid sid : N)
| CallSampleOffset (tid sid : N)
| CallSampleCount (tid : N).

Inductive rcall_result :=
| ResSample (x : res (option Track.sample))
| ResOffset (x : res N)
| ResCount (x : res N).

(** one call on the reader [r] whose stream is in state [s]: result and new stream state
    (only [read_sample] touches the stream; the reader value itself is never modified) *)
Definition do_call (m : mode) (r : mp4reader) (c : rcall) (s : stream) : rcall_result * stream :=
  match c with
  | CallReadSample tid sid =>
      let '(x, s') := run (rd_read_sample m r tid sid) s in (ResSample x, s')
  | CallSampleOffset tid sid => (ResOffset (rd_sample_offset m r tid sid), s)
  | CallSampleCount tid => (ResCount (rd_sample_count r tid), s)
  end.

(** a schedule: calls executed one after the other on the same stream *)
Fixpoint do_calls (m : mode) (r : mp4reader) (cs : list rcall) (s : stream) : list rcall_result :=
  match cs with
  | [] => []
  | c :: t => let '(x, s') := do_call m r c s in x :: do_calls m r t s'
  end.

Lemma do_call_at m r c d p : exists p', snd (do_call m r c (stream_at d p)) = stream_at d p'.
Proof.
  destruct c as [tid sid|tid sid|tid]; cbn [do_call snd]; [|eexists; reflexivity ..].
  pose proof (run_at (rd_read_sample m r tid sid) d p) as H.
  destruct (run (rd_read_sample m r tid sid) (stream_at d p)) as [x s']. cbn [snd] in *.
  eexists. exact H.
Qed.

Lemma do_call_pos m r c d p p' :
  fst (do_call m r c (stream_at d p)) = fst (do_call m r c (stream_at d p')).
Proof.
  destruct c as [tid sid|tid sid|tid]; cbn [do_call fst]; [|reflexivity ..].
  pose proof (read_sample_position_independent_lemma m r tid sid d p p') as H.
  destruct (run (rd_read_sample m r tid sid) (stream_at d p)) as [x s1].
  destruct (run (rd_read_sample m r tid sid) (stream_at d p')) as [y s2].
  cbn [fst] in *. now rewrite H.
Qed.

Lemma schedule_independent_lemma m r data cs : forall pos pos0,
  do_calls m r cs (stream_at data pos) =
  map (fun c => fst (do_call m r c (stream_at data pos0))) cs.
Proof.
  induction cs as [|c t IH]; intros pos pos0; cbn [do_calls map]; [reflexivity|].
  pose proof (do_call_at m r c data pos) as [p' Hp'].
  pose proof (do_call_pos m r c data pos pos0) as Hx.
  destruct (do_call m r c (stream_at data pos)) as [x s']. cbn [fst snd] in *. subst s'.
  rewrite Hx. f_equal. apply IH.
Qed.

(** the stream content is never modified by any sequence of calls *)
Lemma do_call_data m r c s : s_data (snd (do_call m r c s)) = s_data s.
Proof.
  destruct c as [tid sid|tid sid|tid]; cbn [do_call snd]; [|reflexivity ..].
  pose proof (run_data (rd_read_sample m r tid sid) s) as H.
  destruct (run (rd_read_sample m r tid sid) s) as [x s']. exact H.
Qed.

(** a failing call leaves a stream on which later calls still give the fresh results: this is
    [schedule_independent_lemma]; here the special case "retry after failure" *)
Lemma retry_same_result_lemma m r tid sid data pos :
  let '(x, s') := run (rd_read_sample m r tid sid) (stream_at data pos) in
  fst (run (rd_read_sample m r tid sid) s') = x.
Proof.
  pose proof (run_at (rd_read_sample m r tid sid) data pos) as H.
  destruct (run (rd_read_sample m r tid sid) (stream_at data pos)) as [x s'] eqn:E. cbn [snd] in H.
  rewrite H. rewrite (read_sample_position_independent_lemma m r tid sid data _ pos). now rewrite E.
Qed.
