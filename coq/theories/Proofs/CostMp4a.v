(** * C07/C08, composition (mp4a): the esds descriptor scanners, after the fix that clamps every
      descriptor length to the end of the enclosing descriptor ([clamp_desc_size]): each nested
      loop ends at or before its container's end, every iteration reads at least two bytes, so the
      work is linear in the size of the esds box.  Nothing is allocated. *)
From MP4 Require Import Cost CostLeaf CostLoop CostCont CostTree.
From MP4 Require Import BoxMp4a.
From Coq Require Import ZArith ZifyN ZifyNat ZifyBool Lia.
Open Scope N_scope.

Ltac carith ::=
  lv_norm; unfold clamp_desc_size in *; sat_bools; rewrite ?N2Nat.id in *; sat_consts; lia.

Section Mp4a.
  Variable d : bytes.
  Hypothesis Hd : bytes_ok d = true.
  Hypothesis Hlen : lenN d < 2 ^ 62.

  (** tag and length: two to five bytes *)
  Lemma csat_read_desc p :
    csat d p read_desc 10 0 (fun _ p' => p + 2 <= p' /\ p' <= lenN d).
  Proof.
    apply csat_of_cacc. unfold read_desc. cbn [read_desc_len]. cacc_go.
  Qed.

  Lemma csat_decspecific p sz : csat d p (dec_decspecific sz) 12 0 (fun _ p' => p <= p').
  Proof.
    apply csat_of_cacc. unfold dec_decspecific, get_chan_conf. cacc_go.
  Qed.

  Ltac desc_step :=
    lazymatch goal with
    | |- cacc _ _ _ _ (bind read_desc _) _ _ _ =>
        eapply cacc_bind; [apply csat_read_desc|carith|carith|cbn beta; intros ? ? ?; cacc_facts]
    | |- cacc _ _ _ _ (bind (dec_decspecific _) _) _ _ _ =>
        eapply cacc_bind; [apply csat_decspecific|carith|carith|cbn beta; intros ? ? ?; cacc_facts]
    end.

  Lemma decconfig_loop_ok f : forall cur e ds, e < 2 ^ 63 -> e - cur < N.of_nat f ->
    csat d cur (decconfig_loop f cur e ds) (24 * (e - cur)) 0 (fun _ p' => e <= p').
  Proof.
    induction f as [|f IH]; intros cur e ds He Hf; [lia|].
    apply csat_of_cacc. cbn [decconfig_loop]. cacc_step; [|cacc_go].
    desc_step. cacc_step. cacc_step. cbn zeta. cacc_step.
    - desc_step. cacc_step.
      eapply cacc_of_csat; [apply IH; [exact He|carith]|carith|carith|auto].
    - cacc_step. cacc_step.
      eapply cacc_of_csat; [apply IH; [exact He|carith]|carith|carith|auto].
  Qed.

  Lemma decconfig_ok m size p : p + size < 2 ^ 63 ->
    csat d p (dec_decconfig m size) (24 * size + 30) 0 (fun _ p' => p + size <= p').
  Proof.
    intros Hp. apply csat_of_cacc. unfold dec_decconfig, dec_decconfig_fuel. repeat cacc_step.
    eapply cacc_bind; [apply decconfig_loop_ok; carith|carith|carith|cbn beta; intros ? ? ?].
    cacc_go.
  Qed.

  Lemma esdesc_loop_ok m f : forall cur e dc sc, e < 2 ^ 63 -> e - cur < N.of_nat f ->
    csat d cur (esdesc_loop m f cur e dc sc) (48 * (e - cur)) 0 (fun _ p' => e <= p').
  Proof.
    induction f as [|f IH]; intros cur e dc sc He Hf; [lia|].
    apply csat_of_cacc. cbn [esdesc_loop]. cacc_step; [|cacc_go].
    desc_step. cacc_step. cacc_step. cbn zeta. cacc_step.
    - eapply cacc_bind; [apply decconfig_ok; carith|carith|carith|cbn beta; intros ? ? ?].
      cacc_step.
      eapply cacc_of_csat; [apply IH; [exact He|carith]|carith|carith|auto].
    - cacc_step.
      + unfold dec_slconfig. repeat cacc_step.
        eapply cacc_of_csat; [apply IH; [exact He|carith]|carith|carith|auto].
      + cacc_step. cacc_step.
        eapply cacc_of_csat; [apply IH; [exact He|carith]|carith|carith|auto].
  Qed.

  Lemma esdesc_ok m size p : p + size < 2 ^ 63 ->
    csat d p (dec_esdesc m size) (48 * size + 10) 0 (fun _ p' => p + size <= p').
  Proof.
    intros Hp. apply csat_of_cacc. unfold dec_esdesc, dec_esdesc_fuel. repeat cacc_step.
    eapply cacc_bind; [apply esdesc_loop_ok; carith|carith|carith|cbn beta; intros ? ? ?].
    cacc_go.
  Qed.

  Lemma esds_loop_ok m f : forall cur e x, e < 2 ^ 63 -> e - cur < N.of_nat f ->
    csat d cur (esds_loop m f cur e x) (48 * (e - cur)) 0 (fun _ _ => True).
  Proof.
    induction f as [|f IH]; intros cur e x He Hf; [lia|].
    apply csat_of_cacc. cbn [esds_loop]. cacc_step; [|cacc_go].
    desc_step. cacc_step. cacc_step. cbn zeta. cacc_step; [|cacc_go].
    eapply cacc_bind; [apply esdesc_ok; carith|carith|carith|cbn beta; intros ? ? ?].
    cacc_step.
    eapply cacc_of_csat; [apply IH; [exact He|carith]|carith|carith|auto].
  Qed.

  Lemma esds_ok m p s : 8 <= p -> p <= lenN d -> s < 2 ^ 62 ->
    ispec d (dec_esds m s) p s (48 * s + 20) 0.
  Proof.
    intros H8 Hp Hs. apply ispec_of_csat, csat_of_cacc. unfold dec_esds, dec_esds_fuel.
    repeat cacc_step.
    eapply cacc_bind; [apply esds_loop_ok; carith|carith|carith|cbn beta; intros ? ? _].
    cacc_go.
  Qed.

  (** the child search loop of mp4a: a wave child is entered, anything else skipped *)
  Lemma mp4a_find_ok m f : forall cur size e, fuel_ok d f cur -> size < 2 ^ 62 ->
    csat d cur (mp4a_find m f size e) (21 * (e - cur) + (48 * size + 50)) 0 (fun _ _ => True).
  Proof.
    induction f as [|f IH]; intros cur size e Hf Hsz.
    - destruct Hf as [Hf _]. cbn in Hf. lia.
    - apply csat_of_cacc. cbn [mp4a_find]. cacc_step. cacc_step; [cacc_go|].
      cacc_step. cacc_step. cacc_step; [cacc_go|]. cacc_step; [cacc_go|].
      assert (Hf1 : fuel_ok d f p1) by (destruct Hf as [_ Hf]; unfold fuel_ok; lia).
      cacc_step.
      + eapply cacc_child; [apply esds_ok; first [assumption|lia]|carith|carith|intros ?]. cacc_go.
      + cacc_step.
        * eapply cacc_of_csat; [apply (IH _ size e Hf1 Hsz)|carith|carith|auto].
        * cacc_step.
          assert (Hf2 : fuel_ok d f (p1 - 8 + n)).
          { destruct Hf as [_ Hf]. destruct Hf1 as [Hf1 _]. unfold fuel_ok. sat_bools. lia. }
          eapply cacc_of_csat; [apply (IH _ size e Hf2 Hsz)|carith|carith|auto].
  Qed.

  Lemma mp4a_ok m : fok d 1 (fun f s => dec_mp4a_fuel f m s).
  Proof.
    intros f p s H8 Hp Hs Hf. apply ispec_of_csat, csat_of_cacc. unfold dec_mp4a_fuel.
    repeat cacc_step.
    all: (eapply cacc_bind; [apply (mp4a_find_ok m f); [|assumption]|carith|carith|cbn beta; intros ? ? _];
          [destruct Hf as [Hf1 Hf2]; unfold fuel_ok; sat_consts; lia|cacc_go]).
  Qed.
End Mp4a.
