(** * Layout invariance (property C12): the remaining containers built on [children_loop]
    (udta, mvex, dinf, moof, traf) — same scheme as LayoutProofs.v (generated from one template) *)
From MP4 Require Import LayoutKit LayoutProofs Reader.
From Coq Require Import ZifyN ZifyNat ZifyBool.
Open Scope string_scope.
Open Scope list_scope.
Open Scope N_scope.

(** *** udta *)
Inductive udta_item :=
| UI_meta (x : meta) | UI_skip.

Definition udta_body (m : mode) (fuel : nat) (name : boxtype) (s : N) : prog udta_item :=
  match name with
  | MetaBox => x <- dec_meta_fuel fuel m s ;; Ret (UI_meta x)
  | _ => skip_box m s ;;; Ret UI_skip
  end.

Definition udta_put (it : udta_item) (a : option meta) : option meta :=
  match it with
  | UI_meta x => Some x
  | UI_skip => a
  end.

Definition udta_kind (it : udta_item) : nat :=
  match it with UI_meta _ => 1 | UI_skip => 0 end%nat.
Definition udta_name_kind (n : boxtype) : nat :=
  match n with MetaBox => 1 | _ => 0 end%nat.
Definition udta_indep (i j : udta_item) : Prop := udta_kind i <> udta_kind j.
Definition udta_neutral (i : udta_item) : Prop := i = UI_skip.

Lemma udta_shape m : has_shape (udta_dispatch m) (udta_body m) udta_put.
Proof.
  intros f name s a st0. destruct name; cbn [udta_dispatch udta_body]; shape_tac.
Qed.
Lemma udta_put_comm i j a : udta_indep i j -> udta_put i (udta_put j a) = udta_put j (udta_put i a).
Proof.
  unfold udta_indep. 
  destruct i, j; cbn [udta_kind]; intros H; try reflexivity; now elim H.
Qed.
Lemma udta_put_neutral i a : udta_neutral i -> udta_put i a = a.
Proof. intros ->. reflexivity. Qed.
Lemma udta_body_kind m f n s st i st' :
  run (udta_body m f n s) st = (Ok i, st') -> udta_kind i = udta_name_kind n.
Proof. intros R. destruct n; cbn [udta_body] in R; body_kind_tac R st. Qed.

Definition udta_finish (a : option meta) : option udta :=
  Some (mkUdta a).

Definition udta_K (m : mode) (a : option meta) (start size : N) : prog udta :=
  e <- add64 m "udta start+size" start size ;;
  skip_bytes_to e ;;;
  Ret (mkUdta a).

Lemma udta_K_ok m a start size d l rest : start + size < 2 ^ 63 ->
  run (udta_K m a start size) (mkStream d l (start + size) rest)
  = (opt_res_data (udta_finish a), mkStream d l (start + size) rest).
Proof.
  intros H. now apply run_finish_seek.
Qed.

Theorem dec_udta_children m fuel cs items F0 d l p rest :
  Forall2 (decodes_to (udta_body m) F0) cs items -> Forall child_wf cs ->
  (F0 + length cs <= fuel)%nat -> p + 8 + total_len cs < 2 ^ 63 ->
  run (dec_udta_fuel fuel m (8 + total_len cs)) (mkStream d l (p + 8) (render cs ++ rest))
  = (opt_res_data (udta_finish (put_all udta_put items None)),
     mkStream d l (p + 8 + total_len cs) rest).
Proof.
  intros H2 Hwf Hf Hp.
  exact (container_children m "udta start+size" (udta_dispatch m) (udta_body m) udta_put None
           (udta_K m) udta_finish (udta_shape m) (udta_K_ok m) fuel cs items F0 d l p rest H2 Hwf Hf Hp).
Qed.

Theorem udta_order_irrelevant m f1 f2 n1 n2 s1 s2 a a1 a12 st1 st1' st2 st2' :
  run (udta_dispatch m f1 n1 s1 a) st1 = (Ok a1, st1') ->
  run (udta_dispatch m f2 n2 s2 a1) st2 = (Ok a12, st2') ->
  udta_name_kind n1 <> udta_name_kind n2 ->
  exists a2,
    run (udta_dispatch m f2 n2 s2 a) st2 = (Ok a2, st2') /\
    run (udta_dispatch m f1 n1 s1 a2) st1 = (Ok a12, st1').
Proof.
  intros H1 H2 Hn.
  apply (steps_commute (udta_dispatch m) (udta_body m) udta_put (udta_shape m) udta_indep udta_neutral
           udta_put_comm udta_put_neutral _ _ _ _ _ _ _ _ _ _ _ _ _ H1 H2).
  intros i1 i2 B1 B2. left. unfold udta_indep.
  now rewrite (udta_body_kind _ _ _ _ _ _ _ B1), (udta_body_kind _ _ _ _ _ _ _ B2).
Qed.

Theorem layout_invariance_udta m F0 cs items cs' items' :
  Forall2 (decodes_to (udta_body m) F0) cs items -> Forall child_wf cs ->
  Forall2 (decodes_to (udta_body m) F0) cs' items' -> Forall child_wf cs' ->
  items_equiv udta_indep udta_neutral items items' ->
  forall fuel fuel' d l p rest d' l' p' rest',
  (F0 + length cs <= fuel)%nat -> p + 8 + total_len cs < 2 ^ 63 ->
  (F0 + length cs' <= fuel')%nat -> p' + 8 + total_len cs' < 2 ^ 63 ->
  exists r,
    run (dec_udta_fuel fuel m (8 + total_len cs)) (mkStream d l (p + 8) (render cs ++ rest))
    = (r, mkStream d l (p + 8 + total_len cs) rest) /\
    run (dec_udta_fuel fuel' m (8 + total_len cs')) (mkStream d' l' (p' + 8) (render cs' ++ rest'))
    = (r, mkStream d' l' (p' + 8 + total_len cs') rest').
Proof.
  intros H2 Hwf H2' Hwf' Heq fuel fuel' d l p rest d' l' p' rest' Hf Hp Hf' Hp'.
  exact (container_layout_invariance m "udta start+size" (udta_dispatch m) (udta_body m) udta_put
           None
           (udta_K m) udta_finish udta_indep udta_neutral (udta_shape m) udta_put_comm udta_put_neutral
           (udta_K_ok m) F0 cs items cs' items' H2 Hwf H2' Hwf' Heq
           fuel fuel' d l p rest d' l' p' rest' Hf Hp Hf' Hp').
Qed.

Lemma udta_child_skip m c : udta_known (boxtype_of_u32 (c_code c)) = false -> decodes_to (udta_body m) 0 c UI_skip.
Proof.
  intros H f d l q rest _ Hq. destruct (boxtype_of_u32 (c_code c)); try discriminate H; cbn [udta_body];
    rewrite (run_skip_box_bind m (c_s c)) by (first [reflexivity | exact Hq]); reflexivity.
Qed.

(** *** mvex *)
Inductive mvex_item :=
| XI_mehd (x : mehd) | XI_trex (x : trex) | XI_skip.

Definition mvex_body (m : mode) (fuel : nat) (name : boxtype) (s : N) : prog mvex_item :=
  match name with
  | MehdBox => x <- dec_mehd m s ;; Ret (XI_mehd x)
  | TrexBox => x <- dec_trex m s ;; Ret (XI_trex x)
  | _ => skip_box m s ;;; Ret XI_skip
  end.

Definition mvex_put (it : mvex_item) (a : mvex_acc) : mvex_acc :=
  let '(me, tr) := a in
  match it with
  | XI_mehd x => (Some x, tr)
  | XI_trex x => (me, Some x)
  | XI_skip => (me, tr)
  end.

Definition mvex_kind (it : mvex_item) : nat :=
  match it with XI_mehd _ => 1 | XI_trex _ => 2 | XI_skip => 0 end%nat.
Definition mvex_name_kind (n : boxtype) : nat :=
  match n with MehdBox => 1 | TrexBox => 2 | _ => 0 end%nat.
Definition mvex_indep (i j : mvex_item) : Prop := mvex_kind i <> mvex_kind j.
Definition mvex_neutral (i : mvex_item) : Prop := i = XI_skip.

Lemma mvex_shape m : has_shape (mvex_dispatch m) (mvex_body m) mvex_put.
Proof.
  intros f name s [me tr] st0. destruct name; cbn [mvex_dispatch mvex_body]; shape_tac.
Qed.
Lemma mvex_put_comm i j a : mvex_indep i j -> mvex_put i (mvex_put j a) = mvex_put j (mvex_put i a).
Proof.
  unfold mvex_indep. destruct a as [me tr]. 
  destruct i, j; cbn [mvex_kind]; intros H; try reflexivity; now elim H.
Qed.
Lemma mvex_put_neutral i a : mvex_neutral i -> mvex_put i a = a.
Proof. intros ->. destruct a as [me tr]. reflexivity. Qed.
Lemma mvex_body_kind m f n s st i st' :
  run (mvex_body m f n s) st = (Ok i, st') -> mvex_kind i = mvex_name_kind n.
Proof. intros R. destruct n; cbn [mvex_body] in R; body_kind_tac R st. Qed.

Definition mvex_finish (a : mvex_acc) : option mvex :=
  let '(me, tr) := a in
  match tr with Some t => Some (mkMvex me t) | None => None end.

Definition mvex_K (m : mode) (a : mvex_acc) (start size : N) : prog mvex :=
  let '(me, tr) := a in
  match tr with
  | Some t =>
      e <- add64 m "mvex start+size" start size ;;
      skip_bytes_to e ;;;
      Ret (mkMvex me t)
  | None => Throw EData
  end.

Lemma mvex_K_ok m a start size d l rest : start + size < 2 ^ 63 ->
  run (mvex_K m a start size) (mkStream d l (start + size) rest)
  = (opt_res_data (mvex_finish a), mkStream d l (start + size) rest).
Proof.
  intros H. destruct a as [me [tr|]]; try reflexivity. now apply run_finish_seek.
Qed.

Theorem dec_mvex_children m fuel cs items F0 d l p rest :
  Forall2 (decodes_to (mvex_body m) F0) cs items -> Forall child_wf cs ->
  (F0 + length cs <= fuel)%nat -> p + 8 + total_len cs < 2 ^ 63 ->
  run (dec_mvex_fuel fuel m (8 + total_len cs)) (mkStream d l (p + 8) (render cs ++ rest))
  = (opt_res_data (mvex_finish (put_all mvex_put items (None, None))),
     mkStream d l (p + 8 + total_len cs) rest).
Proof.
  intros H2 Hwf Hf Hp.
  exact (container_children m "mvex start+size" (mvex_dispatch m) (mvex_body m) mvex_put (None, None)
           (mvex_K m) mvex_finish (mvex_shape m) (mvex_K_ok m) fuel cs items F0 d l p rest H2 Hwf Hf Hp).
Qed.

Theorem mvex_order_irrelevant m f1 f2 n1 n2 s1 s2 a a1 a12 st1 st1' st2 st2' :
  run (mvex_dispatch m f1 n1 s1 a) st1 = (Ok a1, st1') ->
  run (mvex_dispatch m f2 n2 s2 a1) st2 = (Ok a12, st2') ->
  mvex_name_kind n1 <> mvex_name_kind n2 ->
  exists a2,
    run (mvex_dispatch m f2 n2 s2 a) st2 = (Ok a2, st2') /\
    run (mvex_dispatch m f1 n1 s1 a2) st1 = (Ok a12, st1').
Proof.
  intros H1 H2 Hn.
  apply (steps_commute (mvex_dispatch m) (mvex_body m) mvex_put (mvex_shape m) mvex_indep mvex_neutral
           mvex_put_comm mvex_put_neutral _ _ _ _ _ _ _ _ _ _ _ _ _ H1 H2).
  intros i1 i2 B1 B2. left. unfold mvex_indep.
  now rewrite (mvex_body_kind _ _ _ _ _ _ _ B1), (mvex_body_kind _ _ _ _ _ _ _ B2).
Qed.

Theorem layout_invariance_mvex m F0 cs items cs' items' :
  Forall2 (decodes_to (mvex_body m) F0) cs items -> Forall child_wf cs ->
  Forall2 (decodes_to (mvex_body m) F0) cs' items' -> Forall child_wf cs' ->
  items_equiv mvex_indep mvex_neutral items items' ->
  forall fuel fuel' d l p rest d' l' p' rest',
  (F0 + length cs <= fuel)%nat -> p + 8 + total_len cs < 2 ^ 63 ->
  (F0 + length cs' <= fuel')%nat -> p' + 8 + total_len cs' < 2 ^ 63 ->
  exists r,
    run (dec_mvex_fuel fuel m (8 + total_len cs)) (mkStream d l (p + 8) (render cs ++ rest))
    = (r, mkStream d l (p + 8 + total_len cs) rest) /\
    run (dec_mvex_fuel fuel' m (8 + total_len cs')) (mkStream d' l' (p' + 8) (render cs' ++ rest'))
    = (r, mkStream d' l' (p' + 8 + total_len cs') rest').
Proof.
  intros H2 Hwf H2' Hwf' Heq fuel fuel' d l p rest d' l' p' rest' Hf Hp Hf' Hp'.
  exact (container_layout_invariance m "mvex start+size" (mvex_dispatch m) (mvex_body m) mvex_put
           (None, None)
           (mvex_K m) mvex_finish mvex_indep mvex_neutral (mvex_shape m) mvex_put_comm mvex_put_neutral
           (mvex_K_ok m) F0 cs items cs' items' H2 Hwf H2' Hwf' Heq
           fuel fuel' d l p rest d' l' p' rest' Hf Hp Hf' Hp').
Qed.

Lemma mvex_child_skip m c : mvex_known (boxtype_of_u32 (c_code c)) = false -> decodes_to (mvex_body m) 0 c XI_skip.
Proof.
  intros H f d l q rest _ Hq. destruct (boxtype_of_u32 (c_code c)); try discriminate H; cbn [mvex_body];
    rewrite (run_skip_box_bind m (c_s c)) by (first [reflexivity | exact Hq]); reflexivity.
Qed.

(** *** dinf *)
Inductive dinf_item :=
| FI_dref (x : dref) | FI_skip.

Definition dinf_body (m : mode) (fuel : nat) (name : boxtype) (s : N) : prog dinf_item :=
  match name with
  | DrefBox => x <- dec_dref m s ;; Ret (FI_dref x)
  | _ => skip_box m s ;;; Ret FI_skip
  end.

Definition dinf_put (it : dinf_item) (a : option dref) : option dref :=
  match it with
  | FI_dref x => Some x
  | FI_skip => a
  end.

Definition dinf_kind (it : dinf_item) : nat :=
  match it with FI_dref _ => 1 | FI_skip => 0 end%nat.
Definition dinf_name_kind (n : boxtype) : nat :=
  match n with DrefBox => 1 | _ => 0 end%nat.
Definition dinf_indep (i j : dinf_item) : Prop := dinf_kind i <> dinf_kind j.
Definition dinf_neutral (i : dinf_item) : Prop := i = FI_skip.

Lemma dinf_shape m : has_shape (dinf_dispatch m) (dinf_body m) dinf_put.
Proof.
  intros f name s a st0. destruct name; cbn [dinf_dispatch dinf_body]; shape_tac.
Qed.
Lemma dinf_put_comm i j a : dinf_indep i j -> dinf_put i (dinf_put j a) = dinf_put j (dinf_put i a).
Proof.
  unfold dinf_indep. 
  destruct i, j; cbn [dinf_kind]; intros H; try reflexivity; now elim H.
Qed.
Lemma dinf_put_neutral i a : dinf_neutral i -> dinf_put i a = a.
Proof. intros ->. reflexivity. Qed.
Lemma dinf_body_kind m f n s st i st' :
  run (dinf_body m f n s) st = (Ok i, st') -> dinf_kind i = dinf_name_kind n.
Proof. intros R. destruct n; cbn [dinf_body] in R; body_kind_tac R st. Qed.

Definition dinf_finish (a : option dref) : option dinf :=
  match a with Some x => Some (mkDinf x) | None => None end.

Definition dinf_K (m : mode) (a : option dref) (start size : N) : prog dinf :=
  match a with
  | None => Throw EData
  | Some x =>
      e <- add64 m "dinf start+size" start size ;;
      skip_bytes_to e ;;;
      Ret (mkDinf x)
  end.

Lemma dinf_K_ok m a start size d l rest : start + size < 2 ^ 63 ->
  run (dinf_K m a start size) (mkStream d l (start + size) rest)
  = (opt_res_data (dinf_finish a), mkStream d l (start + size) rest).
Proof.
  intros H. destruct a as [x|]; try reflexivity. now apply run_finish_seek.
Qed.

Theorem dec_dinf_children m fuel cs items F0 d l p rest :
  Forall2 (decodes_to (dinf_body m) F0) cs items -> Forall child_wf cs ->
  (F0 + length cs <= fuel)%nat -> p + 8 + total_len cs < 2 ^ 63 ->
  run (dec_dinf_fuel fuel m (8 + total_len cs)) (mkStream d l (p + 8) (render cs ++ rest))
  = (opt_res_data (dinf_finish (put_all dinf_put items None)),
     mkStream d l (p + 8 + total_len cs) rest).
Proof.
  intros H2 Hwf Hf Hp.
  exact (container_children m "dinf start+size" (dinf_dispatch m) (dinf_body m) dinf_put None
           (dinf_K m) dinf_finish (dinf_shape m) (dinf_K_ok m) fuel cs items F0 d l p rest H2 Hwf Hf Hp).
Qed.

Theorem dinf_order_irrelevant m f1 f2 n1 n2 s1 s2 a a1 a12 st1 st1' st2 st2' :
  run (dinf_dispatch m f1 n1 s1 a) st1 = (Ok a1, st1') ->
  run (dinf_dispatch m f2 n2 s2 a1) st2 = (Ok a12, st2') ->
  dinf_name_kind n1 <> dinf_name_kind n2 ->
  exists a2,
    run (dinf_dispatch m f2 n2 s2 a) st2 = (Ok a2, st2') /\
    run (dinf_dispatch m f1 n1 s1 a2) st1 = (Ok a12, st1').
Proof.
  intros H1 H2 Hn.
  apply (steps_commute (dinf_dispatch m) (dinf_body m) dinf_put (dinf_shape m) dinf_indep dinf_neutral
           dinf_put_comm dinf_put_neutral _ _ _ _ _ _ _ _ _ _ _ _ _ H1 H2).
  intros i1 i2 B1 B2. left. unfold dinf_indep.
  now rewrite (dinf_body_kind _ _ _ _ _ _ _ B1), (dinf_body_kind _ _ _ _ _ _ _ B2).
Qed.

Theorem layout_invariance_dinf m F0 cs items cs' items' :
  Forall2 (decodes_to (dinf_body m) F0) cs items -> Forall child_wf cs ->
  Forall2 (decodes_to (dinf_body m) F0) cs' items' -> Forall child_wf cs' ->
  items_equiv dinf_indep dinf_neutral items items' ->
  forall fuel fuel' d l p rest d' l' p' rest',
  (F0 + length cs <= fuel)%nat -> p + 8 + total_len cs < 2 ^ 63 ->
  (F0 + length cs' <= fuel')%nat -> p' + 8 + total_len cs' < 2 ^ 63 ->
  exists r,
    run (dec_dinf_fuel fuel m (8 + total_len cs)) (mkStream d l (p + 8) (render cs ++ rest))
    = (r, mkStream d l (p + 8 + total_len cs) rest) /\
    run (dec_dinf_fuel fuel' m (8 + total_len cs')) (mkStream d' l' (p' + 8) (render cs' ++ rest'))
    = (r, mkStream d' l' (p' + 8 + total_len cs') rest').
Proof.
  intros H2 Hwf H2' Hwf' Heq fuel fuel' d l p rest d' l' p' rest' Hf Hp Hf' Hp'.
  exact (container_layout_invariance m "dinf start+size" (dinf_dispatch m) (dinf_body m) dinf_put
           None
           (dinf_K m) dinf_finish dinf_indep dinf_neutral (dinf_shape m) dinf_put_comm dinf_put_neutral
           (dinf_K_ok m) F0 cs items cs' items' H2 Hwf H2' Hwf' Heq
           fuel fuel' d l p rest d' l' p' rest' Hf Hp Hf' Hp').
Qed.

Lemma dinf_child_skip m c : dinf_known (boxtype_of_u32 (c_code c)) = false -> decodes_to (dinf_body m) 0 c FI_skip.
Proof.
  intros H f d l q rest _ Hq. destruct (boxtype_of_u32 (c_code c)); try discriminate H; cbn [dinf_body];
    rewrite (run_skip_box_bind m (c_s c)) by (first [reflexivity | exact Hq]); reflexivity.
Qed.

(** *** moof *)
Inductive moof_item :=
| OFI_mfhd (x : mfhd) | OFI_traf (x : traf) | OFI_skip.

Definition moof_body (m : mode) (fuel : nat) (name : boxtype) (s : N) : prog moof_item :=
  match name with
  | MfhdBox => x <- dec_mfhd m s ;; Ret (OFI_mfhd x)
  | TrafBox => x <- dec_traf_fuel fuel m s ;; Ret (OFI_traf x)
  | _ => skip_box m s ;;; Ret OFI_skip
  end.

Definition moof_put (it : moof_item) (a : moof_acc) : moof_acc :=
  let '(mh, tr) := a in
  match it with
  | OFI_mfhd x => (Some x, tr)
  | OFI_traf x => (mh, tr ++ [x])
  | OFI_skip => (mh, tr)
  end.

Definition moof_kind (it : moof_item) : nat :=
  match it with OFI_mfhd _ => 1 | OFI_traf _ => 2 | OFI_skip => 0 end%nat.
Definition moof_name_kind (n : boxtype) : nat :=
  match n with MfhdBox => 1 | TrafBox => 2 | _ => 0 end%nat.
Definition moof_indep (i j : moof_item) : Prop := moof_kind i <> moof_kind j.
Definition moof_neutral (i : moof_item) : Prop := i = OFI_skip.

Lemma moof_shape m : has_shape (moof_dispatch m) (moof_body m) moof_put.
Proof.
  intros f name s [mh tr] st0. destruct name; cbn [moof_dispatch moof_body]; shape_tac.
Qed.
Lemma moof_put_comm i j a : moof_indep i j -> moof_put i (moof_put j a) = moof_put j (moof_put i a).
Proof.
  unfold moof_indep. destruct a as [mh tr]. 
  destruct i, j; cbn [moof_kind]; intros H; try reflexivity; now elim H.
Qed.
Lemma moof_put_neutral i a : moof_neutral i -> moof_put i a = a.
Proof. intros ->. destruct a as [mh tr]. reflexivity. Qed.
Lemma moof_body_kind m f n s st i st' :
  run (moof_body m f n s) st = (Ok i, st') -> moof_kind i = moof_name_kind n.
Proof. intros R. destruct n; cbn [moof_body] in R; body_kind_tac R st. Qed.

Definition moof_finish (a : moof_acc) : option moof :=
  let '(mh, tr) := a in
  match mh with Some h => Some (mkMoof h tr) | None => None end.

Definition moof_K (m : mode) (a : moof_acc) (start size : N) : prog moof :=
  let '(mh, tr) := a in
  match mh with
  | Some h =>
      e <- add64 m "moof start+size" start size ;;
      skip_bytes_to e ;;;
      Ret (mkMoof h tr)
  | None => Throw EData
  end.

Lemma moof_K_ok m a start size d l rest : start + size < 2 ^ 63 ->
  run (moof_K m a start size) (mkStream d l (start + size) rest)
  = (opt_res_data (moof_finish a), mkStream d l (start + size) rest).
Proof.
  intros H. destruct a as [[mh|] tr]; try reflexivity. now apply run_finish_seek.
Qed.

Theorem dec_moof_children m fuel cs items F0 d l p rest :
  Forall2 (decodes_to (moof_body m) F0) cs items -> Forall child_wf cs ->
  (F0 + length cs <= fuel)%nat -> p + 8 + total_len cs < 2 ^ 63 ->
  run (dec_moof_fuel fuel m (8 + total_len cs)) (mkStream d l (p + 8) (render cs ++ rest))
  = (opt_res_data (moof_finish (put_all moof_put items (None, []))),
     mkStream d l (p + 8 + total_len cs) rest).
Proof.
  intros H2 Hwf Hf Hp.
  exact (container_children m "moof start+size" (moof_dispatch m) (moof_body m) moof_put (None, [])
           (moof_K m) moof_finish (moof_shape m) (moof_K_ok m) fuel cs items F0 d l p rest H2 Hwf Hf Hp).
Qed.

Theorem moof_order_irrelevant m f1 f2 n1 n2 s1 s2 a a1 a12 st1 st1' st2 st2' :
  run (moof_dispatch m f1 n1 s1 a) st1 = (Ok a1, st1') ->
  run (moof_dispatch m f2 n2 s2 a1) st2 = (Ok a12, st2') ->
  moof_name_kind n1 <> moof_name_kind n2 ->
  exists a2,
    run (moof_dispatch m f2 n2 s2 a) st2 = (Ok a2, st2') /\
    run (moof_dispatch m f1 n1 s1 a2) st1 = (Ok a12, st1').
Proof.
  intros H1 H2 Hn.
  apply (steps_commute (moof_dispatch m) (moof_body m) moof_put (moof_shape m) moof_indep moof_neutral
           moof_put_comm moof_put_neutral _ _ _ _ _ _ _ _ _ _ _ _ _ H1 H2).
  intros i1 i2 B1 B2. left. unfold moof_indep.
  now rewrite (moof_body_kind _ _ _ _ _ _ _ B1), (moof_body_kind _ _ _ _ _ _ _ B2).
Qed.

Theorem layout_invariance_moof m F0 cs items cs' items' :
  Forall2 (decodes_to (moof_body m) F0) cs items -> Forall child_wf cs ->
  Forall2 (decodes_to (moof_body m) F0) cs' items' -> Forall child_wf cs' ->
  items_equiv moof_indep moof_neutral items items' ->
  forall fuel fuel' d l p rest d' l' p' rest',
  (F0 + length cs <= fuel)%nat -> p + 8 + total_len cs < 2 ^ 63 ->
  (F0 + length cs' <= fuel')%nat -> p' + 8 + total_len cs' < 2 ^ 63 ->
  exists r,
    run (dec_moof_fuel fuel m (8 + total_len cs)) (mkStream d l (p + 8) (render cs ++ rest))
    = (r, mkStream d l (p + 8 + total_len cs) rest) /\
    run (dec_moof_fuel fuel' m (8 + total_len cs')) (mkStream d' l' (p' + 8) (render cs' ++ rest'))
    = (r, mkStream d' l' (p' + 8 + total_len cs') rest').
Proof.
  intros H2 Hwf H2' Hwf' Heq fuel fuel' d l p rest d' l' p' rest' Hf Hp Hf' Hp'.
  exact (container_layout_invariance m "moof start+size" (moof_dispatch m) (moof_body m) moof_put
           (None, [])
           (moof_K m) moof_finish moof_indep moof_neutral (moof_shape m) moof_put_comm moof_put_neutral
           (moof_K_ok m) F0 cs items cs' items' H2 Hwf H2' Hwf' Heq
           fuel fuel' d l p rest d' l' p' rest' Hf Hp Hf' Hp').
Qed.

Lemma moof_child_skip m c : moof_known (boxtype_of_u32 (c_code c)) = false -> decodes_to (moof_body m) 0 c OFI_skip.
Proof.
  intros H f d l q rest _ Hq. destruct (boxtype_of_u32 (c_code c)); try discriminate H; cbn [moof_body];
    rewrite (run_skip_box_bind m (c_s c)) by (first [reflexivity | exact Hq]); reflexivity.
Qed.

(** *** traf *)
Inductive traf_item :=
| RI_tfhd (x : tfhd) | RI_tfdt (x : tfdt) | RI_trun (x : trun) | RI_skip.

Definition traf_body (m : mode) (fuel : nat) (name : boxtype) (s : N) : prog traf_item :=
  match name with
  | TfhdBox => x <- dec_tfhd m s ;; Ret (RI_tfhd x)
  | TfdtBox => x <- dec_tfdt m s ;; Ret (RI_tfdt x)
  | TrunBox => x <- dec_trun m s ;; Ret (RI_trun x)
  | _ => skip_box m s ;;; Ret RI_skip
  end.

Definition traf_put (it : traf_item) (a : traf_acc) : traf_acc :=
  let '(fh, fd, ru) := a in
  match it with
  | RI_tfhd x => (Some x, fd, ru)
  | RI_tfdt x => (fh, Some x, ru)
  | RI_trun x => (fh, fd, Some x)
  | RI_skip => (fh, fd, ru)
  end.

Definition traf_kind (it : traf_item) : nat :=
  match it with RI_tfhd _ => 1 | RI_tfdt _ => 2 | RI_trun _ => 3 | RI_skip => 0 end%nat.
Definition traf_name_kind (n : boxtype) : nat :=
  match n with TfhdBox => 1 | TfdtBox => 2 | TrunBox => 3 | _ => 0 end%nat.
Definition traf_indep (i j : traf_item) : Prop := traf_kind i <> traf_kind j.
Definition traf_neutral (i : traf_item) : Prop := i = RI_skip.

Lemma traf_shape m : has_shape (traf_dispatch m) (traf_body m) traf_put.
Proof.
  intros f name s [[fh fd] ru] st0. destruct name; cbn [traf_dispatch traf_body]; shape_tac.
Qed.
Lemma traf_put_comm i j a : traf_indep i j -> traf_put i (traf_put j a) = traf_put j (traf_put i a).
Proof.
  unfold traf_indep. destruct a as [[fh fd] ru]. 
  destruct i, j; cbn [traf_kind]; intros H; try reflexivity; now elim H.
Qed.
Lemma traf_put_neutral i a : traf_neutral i -> traf_put i a = a.
Proof. intros ->. destruct a as [[fh fd] ru]. reflexivity. Qed.
Lemma traf_body_kind m f n s st i st' :
  run (traf_body m f n s) st = (Ok i, st') -> traf_kind i = traf_name_kind n.
Proof. intros R. destruct n; cbn [traf_body] in R; body_kind_tac R st. Qed.

Definition traf_finish (a : traf_acc) : option traf :=
  let '(fh, fd, ru) := a in
  match fh with Some h => Some (mkTraf h fd ru) | None => None end.

Definition traf_K (m : mode) (a : traf_acc) (start size : N) : prog traf :=
  let '(fh, fd, ru) := a in
  match fh with
  | Some h =>
      e <- add64 m "traf start+size" start size ;;
      skip_bytes_to e ;;;
      Ret (mkTraf h fd ru)
  | None => Throw EData
  end.

Lemma traf_K_ok m a start size d l rest : start + size < 2 ^ 63 ->
  run (traf_K m a start size) (mkStream d l (start + size) rest)
  = (opt_res_data (traf_finish a), mkStream d l (start + size) rest).
Proof.
  intros H. destruct a as [[[fh|] fd] ru]; try reflexivity. now apply run_finish_seek.
Qed.

Theorem dec_traf_children m fuel cs items F0 d l p rest :
  Forall2 (decodes_to (traf_body m) F0) cs items -> Forall child_wf cs ->
  (F0 + length cs <= fuel)%nat -> p + 8 + total_len cs < 2 ^ 63 ->
  run (dec_traf_fuel fuel m (8 + total_len cs)) (mkStream d l (p + 8) (render cs ++ rest))
  = (opt_res_data (traf_finish (put_all traf_put items (None, None, None))),
     mkStream d l (p + 8 + total_len cs) rest).
Proof.
  intros H2 Hwf Hf Hp.
  exact (container_children m "traf start+size" (traf_dispatch m) (traf_body m) traf_put (None, None, None)
           (traf_K m) traf_finish (traf_shape m) (traf_K_ok m) fuel cs items F0 d l p rest H2 Hwf Hf Hp).
Qed.

Theorem traf_order_irrelevant m f1 f2 n1 n2 s1 s2 a a1 a12 st1 st1' st2 st2' :
  run (traf_dispatch m f1 n1 s1 a) st1 = (Ok a1, st1') ->
  run (traf_dispatch m f2 n2 s2 a1) st2 = (Ok a12, st2') ->
  traf_name_kind n1 <> traf_name_kind n2 ->
  exists a2,
    run (traf_dispatch m f2 n2 s2 a) st2 = (Ok a2, st2') /\
    run (traf_dispatch m f1 n1 s1 a2) st1 = (Ok a12, st1').
Proof.
  intros H1 H2 Hn.
  apply (steps_commute (traf_dispatch m) (traf_body m) traf_put (traf_shape m) traf_indep traf_neutral
           traf_put_comm traf_put_neutral _ _ _ _ _ _ _ _ _ _ _ _ _ H1 H2).
  intros i1 i2 B1 B2. left. unfold traf_indep.
  now rewrite (traf_body_kind _ _ _ _ _ _ _ B1), (traf_body_kind _ _ _ _ _ _ _ B2).
Qed.

Theorem layout_invariance_traf m F0 cs items cs' items' :
  Forall2 (decodes_to (traf_body m) F0) cs items -> Forall child_wf cs ->
  Forall2 (decodes_to (traf_body m) F0) cs' items' -> Forall child_wf cs' ->
  items_equiv traf_indep traf_neutral items items' ->
  forall fuel fuel' d l p rest d' l' p' rest',
  (F0 + length cs <= fuel)%nat -> p + 8 + total_len cs < 2 ^ 63 ->
  (F0 + length cs' <= fuel')%nat -> p' + 8 + total_len cs' < 2 ^ 63 ->
  exists r,
    run (dec_traf_fuel fuel m (8 + total_len cs)) (mkStream d l (p + 8) (render cs ++ rest))
    = (r, mkStream d l (p + 8 + total_len cs) rest) /\
    run (dec_traf_fuel fuel' m (8 + total_len cs')) (mkStream d' l' (p' + 8) (render cs' ++ rest'))
    = (r, mkStream d' l' (p' + 8 + total_len cs') rest').
Proof.
  intros H2 Hwf H2' Hwf' Heq fuel fuel' d l p rest d' l' p' rest' Hf Hp Hf' Hp'.
  exact (container_layout_invariance m "traf start+size" (traf_dispatch m) (traf_body m) traf_put
           (None, None, None)
           (traf_K m) traf_finish traf_indep traf_neutral (traf_shape m) traf_put_comm traf_put_neutral
           (traf_K_ok m) F0 cs items cs' items' H2 Hwf H2' Hwf' Heq
           fuel fuel' d l p rest d' l' p' rest' Hf Hp Hf' Hp').
Qed.

Lemma traf_child_skip m c : traf_known (boxtype_of_u32 (c_code c)) = false -> decodes_to (traf_body m) 0 c RI_skip.
Proof.
  intros H f d l q rest _ Hq. destruct (boxtype_of_u32 (c_code c)); try discriminate H; cbn [traf_body];
    rewrite (run_skip_box_bind m (c_s c)) by (first [reflexivity | exact Hq]); reflexivity.
Qed.

(** ** Children of these containers that decode, and these containers as children *)
From MP4 Require Import RtMehd RtTrex RtMfhd RtTfhd RtTfdt RtTrun RtDinf.
From MP4 Require Import IsoMehd IsoTrex IsoMfhd IsoTfhd IsoTfdt IsoTrun IsoDinf.

Lemma bt_udta : boxtype_of_u32 0x75647461 = UdtaBox. Proof. vm_compute. reflexivity. Qed.
Lemma bt_mvex : boxtype_of_u32 0x6d766578 = MvexBox. Proof. vm_compute. reflexivity. Qed.
Lemma bt_dref : boxtype_of_u32 0x64726566 = DrefBox. Proof. vm_compute. reflexivity. Qed.
Lemma bt_mehd : boxtype_of_u32 0x6d656864 = MehdBox. Proof. vm_compute. reflexivity. Qed.
Lemma bt_trex : boxtype_of_u32 0x74726578 = TrexBox. Proof. vm_compute. reflexivity. Qed.
Lemma bt_moof : boxtype_of_u32 0x6d6f6f66 = MoofBox. Proof. vm_compute. reflexivity. Qed.
Lemma bt_mfhd : boxtype_of_u32 0x6d666864 = MfhdBox. Proof. vm_compute. reflexivity. Qed.
Lemma bt_traf : boxtype_of_u32 0x74726166 = TrafBox. Proof. vm_compute. reflexivity. Qed.
Lemma bt_tfhd : boxtype_of_u32 0x74666864 = TfhdBox. Proof. vm_compute. reflexivity. Qed.
Lemma bt_tfdt : boxtype_of_u32 0x74666474 = TfdtBox. Proof. vm_compute. reflexivity. Qed.
Lemma bt_trun : boxtype_of_u32 0x7472756e = TrunBox. Proof. vm_compute. reflexivity. Qed.

(** leaves: either header form (no spare-byte theorem for these boxes) *)
Lemma dinf_child_dref m w64 v : dref_wf v = true -> dref_size v < U32 ->
  decodes_to (dinf_body m) 0 (mkChild w64 0x64726566 (iso_dref_payload v)) (FI_dref v).
Proof.
  intros Hw Hs. apply (decodes_to_leaf (dinf_body m) dec_dref m FI_dref DrefBox); [exact bt_dref | reflexivity |].
  exact (leaf_child_decodes0 _ _ _ _ _ _ dref_roundtrip v Hw Hs).
Qed.
Lemma mvex_child_mehd m w64 v : mehd_wf v = true -> mehd_size v < U32 ->
  decodes_to (mvex_body m) 0 (mkChild w64 0x6d656864 (iso_mehd_payload v)) (XI_mehd v).
Proof.
  intros Hw Hs. apply (decodes_to_leaf (mvex_body m) dec_mehd m XI_mehd MehdBox); [exact bt_mehd | reflexivity |].
  exact (leaf_child_decodes0 _ _ _ _ _ _ mehd_roundtrip v Hw Hs).
Qed.
Lemma mvex_child_trex m w64 v : trex_wf v = true -> trex_size v < U32 ->
  decodes_to (mvex_body m) 0 (mkChild w64 0x74726578 (iso_trex_payload v)) (XI_trex v).
Proof.
  intros Hw Hs. apply (decodes_to_leaf (mvex_body m) dec_trex m XI_trex TrexBox); [exact bt_trex | reflexivity |].
  exact (leaf_child_decodes0 _ _ _ _ _ _ trex_roundtrip v Hw Hs).
Qed.
Lemma moof_child_mfhd m w64 v : mfhd_wf v = true -> mfhd_size v < U32 ->
  decodes_to (moof_body m) 0 (mkChild w64 0x6d666864 (iso_mfhd_payload v)) (OFI_mfhd v).
Proof.
  intros Hw Hs. apply (decodes_to_leaf (moof_body m) dec_mfhd m OFI_mfhd MfhdBox); [exact bt_mfhd | reflexivity |].
  exact (leaf_child_decodes0 _ _ _ _ _ _ mfhd_roundtrip v Hw Hs).
Qed.
Lemma traf_child_tfhd m w64 v : tfhd_wf v = true -> tfhd_size v < U32 ->
  decodes_to (traf_body m) 0 (mkChild w64 0x74666864 (iso_tfhd_payload v)) (RI_tfhd v).
Proof.
  intros Hw Hs. apply (decodes_to_leaf (traf_body m) dec_tfhd m RI_tfhd TfhdBox); [exact bt_tfhd | reflexivity |].
  exact (leaf_child_decodes0 _ _ _ _ _ _ tfhd_roundtrip v Hw Hs).
Qed.
Lemma traf_child_tfdt m w64 v : tfdt_wf v = true -> tfdt_size v < U32 ->
  decodes_to (traf_body m) 0 (mkChild w64 0x74666474 (iso_tfdt_payload v)) (RI_tfdt v).
Proof.
  intros Hw Hs. apply (decodes_to_leaf (traf_body m) dec_tfdt m RI_tfdt TfdtBox); [exact bt_tfdt | reflexivity |].
  exact (leaf_child_decodes0 _ _ _ _ _ _ tfdt_roundtrip v Hw Hs).
Qed.
Lemma traf_child_trun m w64 v : trun_wf v = true -> trun_size v < U32 ->
  decodes_to (traf_body m) 0 (mkChild w64 0x7472756e (iso_trun_payload v)) (RI_trun v).
Proof.
  intros Hw Hs. apply (decodes_to_leaf (traf_body m) dec_trun m RI_trun TrunBox); [exact bt_trun | reflexivity |].
  exact (leaf_child_decodes0 _ _ _ _ _ _ trun_roundtrip v Hw Hs).
Qed.

(** nested *)
Lemma minf_child_dinf m w64 cs items F0 v :
  Forall2 (decodes_to (dinf_body m) F0) cs items -> Forall child_wf cs ->
  dinf_finish (put_all dinf_put items None) = Some v ->
  decodes_to (minf_body m) (F0 + length cs) (mkChild w64 0x64696e66 (render cs)) (NI_dinf v).
Proof.
  intros H2 Hwf Hfin.
  apply (decodes_to_nested (minf_body m) dec_dinf_fuel m NI_dinf DinfBox _ cs); [exact bt_dinf | reflexivity | reflexivity |].
  intros fuel d l p rest Hf Hp. rewrite (dec_dinf_children m fuel cs items F0) by assumption.
  now rewrite Hfin.
Qed.
Lemma moov_child_udta m w64 cs items F0 v :
  Forall2 (decodes_to (udta_body m) F0) cs items -> Forall child_wf cs ->
  udta_finish (put_all udta_put items None) = Some v ->
  decodes_to (moov_body m) (F0 + length cs) (mkChild w64 0x75647461 (render cs)) (VI_udta v).
Proof.
  intros H2 Hwf Hfin.
  apply (decodes_to_nested (moov_body m) dec_udta_fuel m VI_udta UdtaBox _ cs); [exact bt_udta | reflexivity | reflexivity |].
  intros fuel d l p rest Hf Hp. rewrite (dec_udta_children m fuel cs items F0) by assumption.
  now rewrite Hfin.
Qed.
Lemma moov_child_mvex m w64 cs items F0 v :
  Forall2 (decodes_to (mvex_body m) F0) cs items -> Forall child_wf cs ->
  mvex_finish (put_all mvex_put items (None, None)) = Some v ->
  decodes_to (moov_body m) (F0 + length cs) (mkChild w64 0x6d766578 (render cs)) (VI_mvex v).
Proof.
  intros H2 Hwf Hfin.
  apply (decodes_to_nested (moov_body m) dec_mvex_fuel m VI_mvex MvexBox _ cs); [exact bt_mvex | reflexivity | reflexivity |].
  intros fuel d l p rest Hf Hp. rewrite (dec_mvex_children m fuel cs items F0) by assumption.
  now rewrite Hfin.
Qed.
Lemma moof_child_traf m w64 cs items F0 v :
  Forall2 (decodes_to (traf_body m) F0) cs items -> Forall child_wf cs ->
  traf_finish (put_all traf_put items (None, None, None)) = Some v ->
  decodes_to (moof_body m) (F0 + length cs) (mkChild w64 0x74726166 (render cs)) (OFI_traf v).
Proof.
  intros H2 Hwf Hfin.
  apply (decodes_to_nested (moof_body m) dec_traf_fuel m OFI_traf TrafBox _ cs); [exact bt_traf | reflexivity | reflexivity |].
  intros fuel d l p rest Hf Hp. rewrite (dec_traf_children m fuel cs items F0) by assumption.
  now rewrite Hfin.
Qed.
