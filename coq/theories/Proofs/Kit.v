(** * Proof kit for box codecs: symbolic execution of [run] over a view that
    is syntactically [be w x ++ rest], and of [wout]/[wfin] over encoders. *)
From MP4 Require Export Prim.
From Coq Require Import ZifyN ZifyNat ZifyBool.
Open Scope string_scope.
Open Scope list_scope.
Open Scope N_scope.

(** ** Reads *)
Lemma run_RdExact_app {A} (k : bytes -> prog A) d l p h rest n :
  lenN h = n -> n <> 0 ->
  run (RdExact n k) (mkStream d l p (h ++ rest)) = run (k h) (mkStream d l (p + n) rest).
Proof.
  intros Hn Hz. cbn [run]. apply N.eqb_neq in Hz. rewrite Hz. cbn [s_view].
  rewrite (splitN_app_n n h rest Hn). reflexivity.
Qed.

Lemma run_rd_u_bind {A} w x rest (k : N -> prog A) d l p :
  (0 < w)%nat -> x < 256 ^ N.of_nat w ->
  run (bind (rd_u w) k) (mkStream d l p (be w x ++ rest))
  = run (k x) (mkStream d l (p + N.of_nat w) rest).
Proof.
  intros Hw Hx. unfold rd_u. cbn [bind].
  rewrite (run_RdExact_app _ d l p (be w x) rest (N.of_nat w)); [| apply lenN_be | lia].
  cbn [bind]. now rewrite unbe_be.
Qed.

Lemma run_rd_i_bind {A} w z rest (k : Z -> prog A) d l p :
  (0 < w)%nat -> fits_signed (8 * N.of_nat w) z = true ->
  run (bind (rd_i w) k) (mkStream d l p (be w (of_signed (8 * N.of_nat w) z) ++ rest))
  = run (k z) (mkStream d l (p + N.of_nat w) rest).
Proof.
  intros Hw Hz. unfold rd_i. cbn [bind].
  rewrite (run_RdExact_app _ d l p _ rest (N.of_nat w)); [| apply lenN_be | lia].
  cbn [bind]. rewrite unbe_be.
  - rewrite to_of_signed; auto. lia.
  - replace (256 ^ N.of_nat w) with (2 ^ (8 * N.of_nat w)).
    + apply of_signed_lt.
    + rewrite N.pow_mul_r. reflexivity.
Qed.

Lemma run_rd_arr_bind {A} n h rest (k : bytes -> prog A) d l p :
  lenN h = n -> n <> 0 ->
  run (bind (rd_arr n) k) (mkStream d l p (h ++ rest)) = run (k h) (mkStream d l (p + n) rest).
Proof.
  intros Hn Hz. unfold rd_arr. cbn [bind]. rewrite (run_RdExact_app _ d l p h rest n Hn Hz). reflexivity.
Qed.

Lemma run_rd_vec_bind {A} n h rest (k : bytes -> prog A) d l p :
  lenN h = n ->
  run (bind (rd_vec n) k) (mkStream d l p (h ++ rest)) = run (k h) (mkStream d l (p + n) rest).
Proof.
  intros Hn. unfold rd_vec. cbn [bind run].
  destruct (N.eqb_spec n 0) as [->|Hz].
  - destruct h; [|rewrite lenN_cons in Hn; lia]. cbn [app]. now rewrite N.add_0_r.
  - cbn [s_view]. rewrite (splitN_app_n n h rest Hn). reflexivity.
Qed.

Lemma run_get_pos_bind {A} (k : N -> prog A) s : run (bind get_pos k) s = run (k (s_pos s)) s.
Proof. reflexivity. Qed.

Lemma run_seek_to_fwd {A} (k : unit -> prog A) d l p v q :
  p <= q -> run (bind (seek_to q) k) (mkStream d l p v) = run (k tt) (mkStream d l q (dropN (q - p) v)).
Proof.
  intros H. unfold seek_to. cbn [bind run]. unfold seek_abs. cbn [s_pos s_data s_len s_view].
  apply N.leb_le in H. now rewrite H.
Qed.

Lemma run_seek_to_here {A} (k : unit -> prog A) d l p v q :
  q = p -> run (bind (seek_to q) k) (mkStream d l p v) = run (k tt) (mkStream d l p v).
Proof. intros ->. rewrite run_seek_to_fwd by lia. now rewrite N.sub_diag, dropN_0. Qed.

Lemma run_skip_bytes_app {A} n h rest (k : unit -> prog A) d l p :
  lenN h = n -> p + n < 2 ^ 63 ->
  run (bind (skip_bytes n) k) (mkStream d l p (h ++ rest)) = run (k tt) (mkStream d l (p + n) rest).
Proof.
  intros Hn Hp. unfold skip_bytes, seek_rel. cbn [bind run]. unfold seek_cur. cbn [s_pos].
  assert (Hs : to_signed 64 (n mod U64) = Z.of_N n).
  { unfold to_signed. rewrite N.mod_small by (unfold U64; lia).
    change (2 ^ (64 - 1)) with (2 ^ 63). destruct (N.ltb_spec n (2 ^ 63)); lia. }
  rewrite Hs.
  destruct (Z.ltb_spec (Z.of_N p + Z.of_N n) 0); [lia|].
  destruct (Z.leb_spec (Z.of_N U64) (Z.of_N p + Z.of_N n)); [unfold U64 in *; lia|].
  cbn [orb]. unfold seek_abs. cbn [s_pos s_data s_len s_view].
  replace (Z.to_N (Z.of_N p + Z.of_N n)) with (p + n) by lia.
  destruct (N.leb_spec p (p + n)); [|lia].
  replace (p + n - p) with n by lia. now rewrite (dropN_app_n n h rest Hn).
Qed.

Lemma run_lift_ok {A B} (a : A) (k : A -> prog B) s : run (bind (lift (Ok a)) k) s = run (k a) s.
Proof. reflexivity. Qed.

Lemma run_ret_bind {A B} (a : A) (k : A -> prog B) s : run (bind (Ret a) k) s = run (k a) s.
Proof. reflexivity. Qed.


(** ** Writers *)
Lemma wfin_wr {B} l (k : unit -> wprog B) : wfin (wbind (wr l) k) = wfin (k tt).
Proof. reflexivity. Qed.
Lemma wout_wr {B} l (k : unit -> wprog B) : wout (wbind (wr l) k) = l ++ wout (k tt).
Proof. reflexivity. Qed.

Lemma wr_zeros_out n : wout (wr_zeros n) = repeat 0 n /\ wfin (wr_zeros n) = Ok tt /\ appender (wr_zeros n).
Proof. induction n as [|n (IH1 & IH2 & IH3)]; cbn [wr_zeros wout wfin appender repeat]; auto.
  rewrite IH1. auto. Qed.

Lemma wout_wr_zeros_bind {B} n (k : unit -> wprog B) :
  wout (wbind (wr_zeros n) k) = repeat 0 n ++ wout (k tt).
Proof.
  destruct (wr_zeros_out n) as (H1 & H2 & H3). rewrite wout_bind by exact H3. now rewrite H1, H2.
Qed.
Lemma wfin_wr_zeros_bind {B} n (k : unit -> wprog B) :
  wfin (wbind (wr_zeros n) k) = wfin (k tt).
Proof.
  destruct (wr_zeros_out n) as (H1 & H2 & H3). rewrite wfin_bind by exact H3. now rewrite H2.
Qed.

(** the standard 8-byte header, for sizes below 2^32 *)
Lemma write_header_small name size : size < U32 ->
  write_header name size = WrAll (be 4 size) (WrAll (be 4 (u32_of_boxtype name)) (WRet 8)).
Proof. intros H. unfold write_header. destruct (N.leb_spec U32 size); [lia|]. reflexivity. Qed.

Lemma lenN_repeat {A} (x : A) n : lenN (repeat x n) = N.of_nat n.
Proof. unfold lenN. now rewrite repeat_length. Qed.

Lemma to_signed_unbe_be w z : (0 < w)%nat -> fits_signed (8 * N.of_nat w) z = true ->
  to_signed (8 * N.of_nat w) (unbe (be w (of_signed (8 * N.of_nat w) z))) = z.
Proof.
  intros Hw Hz. rewrite unbe_be.
  - rewrite to_of_signed; auto. lia.
  - replace (256 ^ N.of_nat w) with (2 ^ (8 * N.of_nat w)).
    + apply of_signed_lt.
    + rewrite N.pow_mul_r. reflexivity.
Qed.

Lemma firstn_app_len {A} (l1 l2 : list A) n : length l1 = n -> firstn n (l1 ++ l2) = l1.
Proof. intros <-. rewrite firstn_app, Nat.sub_diag, firstn_all. cbn [firstn]. apply app_nil_r. Qed.
Lemma skipn_app_len {A} (l1 l2 : list A) n : length l1 = n -> skipn n (l1 ++ l2) = l2.
Proof. intros <-. rewrite skipn_app, Nat.sub_diag, skipn_all. reflexivity. Qed.

(** Reading the 8-byte header of a box of declared size [size] (size <> 1, size < 2^32) *)
Lemma run_read_header_bind {A} size code rest (k : boxtype * N -> prog A) d l p :
  size < U32 -> size <> 1 -> code < U32 ->
  run (bind read_header k) (mkStream d l p (be 4 size ++ be 4 code ++ rest))
  = run (k (boxtype_of_u32 code, size)) (mkStream d l (p + 8) rest).
Proof.
  intros Hs H1 Hc. unfold read_header, rd_arr. cbn [bind].
  rewrite app_assoc.
  rewrite (run_RdExact_app _ d l p (be 4 size ++ be 4 code) rest 8);
    [| rewrite lenN_app, !lenN_be; reflexivity | lia].
  cbn [bind].
  rewrite (firstn_app_len _ _ 4 (be_length 4 size)), (skipn_app_len _ _ 4 (be_length 4 size)). rewrite !unbe_be by (rewrite pow256_4; assumption).
  apply N.eqb_neq in H1. rewrite H1. reflexivity.
Qed.

Lemma run_SeekTo_here {A} (k : prog A) d l p v q :
  q = p -> run (SeekTo q k) (mkStream d l p v) = run k (mkStream d l p v).
Proof.
  intros ->. cbn [run]. unfold seek_abs. cbn [s_pos s_data s_len s_view].
  rewrite N.leb_refl, N.sub_diag, dropN_0. reflexivity.
Qed.

Lemma run_SeekTo_fwd {A} (k : prog A) d l p v q :
  p <= q -> run (SeekTo q k) (mkStream d l p v) = run k (mkStream d l q (dropN (q - p) v)).
Proof.
  intros H. cbn [run]. unfold seek_abs. cbn [s_pos s_data s_len s_view].
  apply N.leb_le in H. now rewrite H.
Qed.

Lemma run_SeekRel_app {A} (k : prog A) n h rest d l p :
  lenN h = n -> p + n < 2 ^ 63 ->
  run (SeekRel (to_signed 64 (n mod U64)) k) (mkStream d l p (h ++ rest)) = run k (mkStream d l (p + n) rest).
Proof.
  intros Hn Hp. cbn [run]. unfold seek_cur. cbn [s_pos].
  assert (Hs : to_signed 64 (n mod U64) = Z.of_N n).
  { unfold to_signed. rewrite N.mod_small by (unfold U64; lia).
    change (2 ^ (64 - 1)) with (2 ^ 63). destruct (N.ltb_spec n (2 ^ 63)); lia. }
  rewrite Hs.
  destruct (Z.ltb_spec (Z.of_N p + Z.of_N n) 0); [lia|].
  destruct (Z.leb_spec (Z.of_N U64) (Z.of_N p + Z.of_N n)); [unfold U64 in *; lia|].
  cbn [orb]. unfold seek_abs. cbn [s_pos s_data s_len s_view].
  replace (Z.to_N (Z.of_N p + Z.of_N n)) with (p + n) by lia.
  destruct (N.leb_spec p (p + n)); [|lia].
  replace (p + n - p) with n by lia. now rewrite (dropN_app_n n h rest Hn).
Qed.

(** ** Tactics *)

Lemma ufit_lt w x : ufit w x = true -> x < 256 ^ N.of_nat w.
Proof. unfold ufit. apply N.ltb_lt. Qed.
Lemma ufit_version x : x <? 2 = true -> x < 256 ^ N.of_nat 1.
Proof. intros H. apply N.ltb_lt in H. rewrite pow256_1. lia. Qed.

(** bounds from a boolean well-formedness hypothesis *)
Ltac split_andb :=
  repeat match goal with
         | H : _ && _ = true |- _ => apply andb_true_iff in H; destruct H
         | H : ufit _ _ = true |- _ => apply ufit_lt in H
         | H : sfit _ _ = true |- _ => unfold sfit in H
         end.

Ltac nz_tac := first [ apply lenN_be | (clear; lia) ].
Ltac ubound_tac := first [ assumption | (clear; vm_compute; reflexivity) ].
Ltac sbound_tac := first [ assumption | (clear; lia) ].

Ltac prog_norm :=
  cbn [bind lift rd_u8 rd_u16 rd_u24 rd_u32 rd_u48 rd_u64 rd_u rd_i8 rd_i16 rd_i32 rd_i rd_arr
       get_pos seek_to seek_rel skip_bytes skip_bytes_to box_start read_header_ext alloc step].

(** one step of symbolic decoding over a view of the form [be w x ++ rest] *)
Ltac rd_step :=
  prog_norm;
  lazymatch goal with
  | |- context [run (RdExact _ _) (mkStream _ _ _ (be _ _ ++ _))] =>
      rewrite run_RdExact_app by nz_tac;
      cbn beta;
      first [ rewrite to_signed_unbe_be by sbound_tac
            | rewrite unbe_be by ubound_tac
            | idtac ]
  end.

Ltac enc_norm :=
  cbn [wbind wfin wout wr wr_u8 wr_u16 wr_u32 wr_u64 wr_u wr_i8 wr_i16 wr_i32 wr_i].

Lemma write_header_ext_small v f : f < 256 ^ N.of_nat 3 ->
  write_header_ext v f = WrAll (be 1 v) (WrAll (be 3 f) (WRet 4)).
Proof.
  intros H. unfold write_header_ext, wr_u24. rewrite pow256_3 in H.
  apply N.ltb_lt in H. unfold U24. rewrite H. reflexivity.
Qed.

(** [sub64]/[add64] when the operation is in range *)
Lemma run_sub64_ok {A} m site a b (k : N -> prog A) s : b <= a ->
  run (bind (sub64 m site a b) k) s = run (k (a - b)) s.
Proof. intros H. unfold sub64. rewrite sub_w_ok by exact H. reflexivity. Qed.
Lemma run_add64_ok {A} m site a b (k : N -> prog A) s : a + b < U64 ->
  run (bind (add64 m site a b) k) s = run (k (a + b)) s.
Proof. intros H. unfold add64. rewrite add_w_ok by exact H. reflexivity. Qed.

Lemma cast_u32_small x : x < 256 ^ N.of_nat 4 -> cast_w U32 x = x.
Proof. intros H. unfold cast_w. apply N.mod_small. now rewrite pow256_4 in H. Qed.
Lemma cast_u16_small x : x < 256 ^ N.of_nat 2 -> cast_w U16 x = x.
Proof. intros H. unfold cast_w. apply N.mod_small. now rewrite pow256_2 in H. Qed.
Lemma cast_u8_small x : x < 256 ^ N.of_nat 1 -> cast_w U8 x = x.
Proof. intros H. unfold cast_w. apply N.mod_small. now rewrite pow256_1 in H. Qed.

(** ** Counted loops *)
Lemma run_rd_n_bind {A B} (body : prog A) (encode : A -> bytes) (elen : N) (xs : list A)
      (k : list A -> prog B) d l p rest :
  (forall x (k' : A -> prog B) p' rest', In x xs ->
      run (bind body k') (mkStream d l p' (encode x ++ rest')) = run (k' x) (mkStream d l (p' + elen) rest')) ->
  run (bind (rd_n (length xs) body) k) (mkStream d l p (flat_map encode xs ++ rest))
  = run (k xs) (mkStream d l (p + elen * lenN xs) rest).
Proof.
  revert k p. induction xs as [|x xs IH]; intros k p H.
  - cbn [length rd_n bind flat_map app]. change (lenN (@nil A)) with 0. now rewrite N.mul_0_r, N.add_0_r.
  - cbn [length rd_n flat_map]. rewrite <- app_assoc.
    rewrite bind_bind. rewrite H by (now left).
    rewrite bind_bind. rewrite IH by (intros; apply H; now right).
    cbn [bind]. rewrite lenN_cons. f_equal. f_equal. lia.
Qed.

(** ** The statement every leaf box proves *)
Definition leaf_roundtrip {X} (wf : X -> bool) (size : X -> N) (code : N)
           (enc : X -> wprog N) (dec : mode -> N -> prog X) (payload : X -> bytes) : Prop :=
  forall v, wf v = true -> size v < U32 ->
    wfin (enc v) = Ok (size v) /\ appender (enc v)
    /\ wout (enc v) = be 4 (size v) ++ be 4 code ++ payload v
    /\ lenN (payload v) + 8 = size v
    /\ forall m d l p post, p + size v < 2 ^ 63 ->
         run (dec m (size v)) (mkStream d l (p + 8) (payload v ++ post))
         = (Ok v, mkStream d l (p + size v) post).
