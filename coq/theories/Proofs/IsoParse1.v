(** * The independent ISO parser ([Iso/IsoFile.v]) on rendered boxes — stage 1: the box splitter

    [iso_parse] / [iso_boxes] split a byte range into boxes.  On the rendering of a list of
    well-formed children ([LayoutKit.render], either header form) they return exactly those
    children, with their offsets ([iboxes_of]).  Also here: the generic field readers [fld],
    [records], [table_of] on byte strings that are concatenations of [be w x]. *)
From MP4 Require Import IsoFile LayoutKit IsoCont.
From Coq Require Import Lia ZArith NArith List Bool ZifyN ZifyNat ZifyBool.
Import ListNotations.
Open Scope list_scope.
Open Scope N_scope.

(** ** [takeN] *)
Lemma takeN_app_n {A} n (l1 l2 : list A) : lenN l1 = n -> takeN n (l1 ++ l2) = l1.
Proof. intros <-. unfold takeN, lenN. rewrite Nat2N.id. now apply firstn_app_len. Qed.

Lemma takeN_all {A} n (l : list A) : lenN l <= n -> takeN n l = l.
Proof. unfold takeN, lenN. intros H. apply firstn_all2. lia. Qed.

Lemma takeN_exact {A} n (l : list A) : lenN l = n -> takeN n l = l.
Proof. intros H. apply takeN_all. lia. Qed.

Lemma lenN_takeN {A} n (l : list A) : n <= lenN l -> lenN (takeN n l) = n.
Proof. unfold takeN, lenN. intros H. rewrite firstn_length. lia. Qed.

Lemma dropN_app_ge {A} n (l1 l2 : list A) : lenN l1 <= n -> dropN n (l1 ++ l2) = dropN (n - lenN l1) l2.
Proof.
  intros H. replace n with ((n - lenN l1) + lenN l1) at 1 by lia.
  rewrite <- dropN_dropN, dropN_app. reflexivity.
Qed.

(** ** The children of a rendering, as the independent parser reports them *)
Definition ibox_of (off : N) (c : child) : ibox :=
  mkIbox (c_code c) off (c_hlen c) (c_len c) (c_payload c).

Fixpoint iboxes_of (off : N) (cs : list child) : list ibox :=
  match cs with
  | [] => []
  | c :: t => ibox_of off c :: iboxes_of (off + c_len c) t
  end.

Lemma iboxes_of_app cs1 : forall off cs2,
  iboxes_of off (cs1 ++ cs2) = iboxes_of off cs1 ++ iboxes_of (off + total_len cs1) cs2.
Proof.
  induction cs1 as [|c t IH]; intros off cs2.
  - unfold total_len. cbn [app iboxes_of map sumN fold_right]. rewrite N.add_0_r. reflexivity.
  - cbn [app iboxes_of]. rewrite IH.
    replace (off + total_len (c :: t)) with (off + c_len c + total_len t)
      by (unfold total_len, sumN; cbn [map fold_right]; lia).
    reflexivity.
Qed.

Lemma length_iboxes_of cs : forall off, length (iboxes_of off cs) = length cs.
Proof. induction cs as [|c t IH]; intros off; cbn [iboxes_of length]; [reflexivity | now rewrite IH]. Qed.

(** the fuel of [iso_boxes] does not matter once it exceeds the length *)
Lemma iso_boxes_fuel : forall f1 f2 off l, (length l < f1)%nat -> (length l < f2)%nat ->
  iso_boxes f1 off l = iso_boxes f2 off l.
Proof.
  induction f1 as [|f1 IH]; intros f2 off l H1 H2; [exfalso; lia|].
  destruct f2 as [|f2]; [exfalso; lia|].
  destruct l as [|b t]; [reflexivity|].
  cbn [iso_boxes]. set (l := b :: t) in *.
  destruct (lenN l <? 8); [reflexivity|].
  destruct (if unbe (takeN 4 l) =? 1 then (16, unbe (takeN 8 (dropN 8 l)))
            else if unbe (takeN 4 l) =? 0 then (8, lenN l) else (8, unbe (takeN 4 l))) as [hdr size] eqn:E.
  destruct ((size <? hdr) || (lenN l <? size)) eqn:Ec; [reflexivity|].
  apply orb_false_iff in Ec as [Ea Eb]. apply N.ltb_ge in Ea, Eb.
  assert (Hh : 8 <= hdr).
  { destruct (unbe (takeN 4 l) =? 1); [injection E as <- _; lia|].
    destruct (unbe (takeN 4 l) =? 0); injection E as <- _; lia. }
  assert (Hl : (length (dropN size l) < length l)%nat).
  { pose proof (dropN_lenN size l) as Hd. unfold lenN in *. lia. }
  rewrite (IH f2 (off + size) (dropN size l)) by lia. reflexivity.
Qed.

(** one rendered child (either header form) in front of [rest] *)
Lemma iso_boxes_child f off c rest : child_wf c ->
  iso_boxes (S f) off (c_bytes c ++ rest) =
  match iso_boxes f (off + c_len c) rest with
  | Some r => Some (ibox_of off c :: r)
  | None => None
  end.
Proof.
  intros [Hc Hn].
  assert (Hlen : lenN (c_bytes c ++ rest) = c_len c + lenN rest) by (rewrite lenN_app, lenN_c_bytes; reflexivity).
  assert (Hdrop : dropN (c_len c) (c_bytes c ++ rest) = rest) by (apply dropN_app_n, lenN_c_bytes).
  assert (Hpay : takeN (c_len c - c_hlen c) (dropN (c_hlen c) (c_bytes c ++ rest)) = c_payload c).
  { unfold c_bytes. rewrite <- app_assoc. rewrite (dropN_app_n (c_hlen c)) by apply lenN_c_hdr.
    apply takeN_app_n. unfold c_len. lia. }
  assert (H8 : 8 <= c_hlen c) by (unfold c_hlen; destruct (c_w64 c); lia).
  assert (Hcode : unbe (takeN 4 (dropN 4 (c_bytes c ++ rest))) = c_code c).
  { unfold c_bytes, c_hdr. destruct (c_w64 c); unfold hdr64, hdr32; rewrite <- !app_assoc;
      (rewrite (dropN_app_n 4) by apply lenN_be); (rewrite (takeN_app_n 4) by apply lenN_be);
      apply unbe_be; rewrite pow256_4; exact Hc. }
  unfold ibox_of.
  revert Hlen Hdrop Hpay Hcode.
  assert (Hsz : unbe (takeN 4 (c_bytes c ++ rest)) = if c_w64 c then 1 else 8 + lenN (c_payload c)).
  { unfold c_bytes, c_hdr. destruct (c_w64 c); unfold hdr64, hdr32; rewrite <- !app_assoc;
      (rewrite (takeN_app_n 4) by apply lenN_be); apply unbe_be; rewrite pow256_4; [reflexivity | exact Hn]. }
  assert (Hbig : c_w64 c = true -> unbe (takeN 8 (dropN 8 (c_bytes c ++ rest))) = 16 + lenN (c_payload c)).
  { intros Hw. unfold c_bytes, c_hdr. rewrite Hw in *. unfold hdr64. rewrite <- !app_assoc.
    rewrite (app_assoc (be 4 1)).
    rewrite (dropN_app_n 8) by (rewrite lenN_app, !lenN_be; reflexivity).
    rewrite (takeN_app_n 8) by apply lenN_be. apply unbe_be. rewrite pow256_8. exact Hn. }
  revert Hsz Hbig.
  generalize (c_bytes c ++ rest). intros l Hsz Hbig Hlen Hdrop Hpay Hcode.
  destruct l as [|b t].
  { exfalso. change (lenN (@nil N)) with 0 in Hlen. unfold c_len in Hlen. lia. }
  cbn [iso_boxes]. set (l := b :: t) in *.
  destruct (N.ltb_spec (lenN l) 8) as [E|_]; [exfalso; unfold c_len in Hlen; lia|].
  rewrite Hsz, Hcode.
  unfold c_len, c_hlen in *. destruct (c_w64 c).
  - change (1 =? 1) with true. cbv iota. rewrite (Hbig eq_refl).
    destruct (N.ltb_spec (16 + lenN (c_payload c)) 16) as [E|_]; [exfalso; lia|].
    destruct (N.ltb_spec (lenN l) (16 + lenN (c_payload c))) as [E|_]; [exfalso; lia|].
    cbn [orb]. rewrite Hdrop, Hpay. reflexivity.
  - destruct (N.eqb_spec (8 + lenN (c_payload c)) 1) as [E|_]; [exfalso; lia|].
    destruct (N.eqb_spec (8 + lenN (c_payload c)) 0) as [E|_]; [exfalso; lia|].
    destruct (N.ltb_spec (8 + lenN (c_payload c)) 8) as [E|_]; [exfalso; lia|].
    destruct (N.ltb_spec (lenN l) (8 + lenN (c_payload c))) as [E|_]; [exfalso; lia|].
    cbn [orb]. rewrite Hdrop, Hpay. reflexivity.
Qed.

Lemma iso_parse_child off c rest : child_wf c ->
  iso_parse off (c_bytes c ++ rest) =
  match iso_parse (off + c_len c) rest with
  | Some r => Some (ibox_of off c :: r)
  | None => None
  end.
Proof.
  intros Hw. unfold iso_parse. rewrite iso_boxes_child by exact Hw.
  assert (Hl : (length rest < length (c_bytes c ++ rest))%nat).
  { rewrite app_length. pose proof (lenN_c_bytes c) as H. unfold lenN, c_len, c_hlen in H.
    destruct (c_w64 c); lia. }
  rewrite (iso_boxes_fuel (length (c_bytes c ++ rest)) (S (length rest))) by lia.
  reflexivity.
Qed.

Theorem iso_parse_render cs : forall off, Forall child_wf cs ->
  iso_parse off (render cs) = Some (iboxes_of off cs).
Proof.
  induction cs as [|c t IH]; intros off Hwf.
  - reflexivity.
  - inversion Hwf as [|? ? Hc Ht]; subst.
    change (render (c :: t)) with (c_bytes c ++ render t).
    rewrite iso_parse_child by exact Hc. rewrite IH by exact Ht. reflexivity.
Qed.

(** the children of a box whose payload is a rendering *)
Lemma children_render off c cs : c_payload c = render cs -> Forall child_wf cs ->
  children (ibox_of off c) = Some (iboxes_of (off + c_hlen c) cs).
Proof.
  intros Hp Hwf. unfold children, ibox_of. cbn [ib_off ib_hdr ib_payload]. rewrite Hp.
  now apply iso_parse_render.
Qed.

Lemma children_after_render off c skip pre cs :
  c_payload c = pre ++ render cs -> lenN pre = skip -> Forall child_wf cs ->
  children_after skip (ibox_of off c) = Some (iboxes_of (off + c_hlen c + skip) cs).
Proof.
  intros Hp Hs Hwf. unfold children_after, ibox_of. cbn [ib_off ib_hdr ib_payload]. rewrite Hp.
  rewrite (dropN_app_n skip) by exact Hs. now apply iso_parse_render.
Qed.

(** ** [iso_box] (the 32-bit form used by every [iso_xxx_payload]) is a child *)
Definition ch (code : N) (payload : bytes) : child := mkChild false code payload.

Lemma iso_box_ch code payload : iso_box code payload = c_bytes (ch code payload).
Proof. unfold iso_box, c_bytes, c_hdr, ch, hdr32. cbn [c_w64 c_code c_payload]. now rewrite <- app_assoc. Qed.

Lemma ch_wf code payload : code < U32 -> 8 + lenN payload < U32 -> child_wf (ch code payload).
Proof. intros H1 H2. split; assumption. Qed.

Lemma c_len_ch code payload : c_len (ch code payload) = 8 + lenN payload.
Proof. reflexivity. Qed.

Lemma lenN_iso_box code payload : lenN (iso_box code payload) = 8 + lenN payload.
Proof. unfold iso_box. rewrite !lenN_app, !lenN_be. change (N.of_nat 4) with 4. lia. Qed.

(** ** Fields *)

(** the field [be w x] after a prefix of length [o] *)
Lemma fld_at pre w x post o : lenN pre = o -> x < 256 ^ N.of_nat w ->
  fld (pre ++ be w x ++ post) o (N.of_nat w) = Some x.
Proof.
  intros Ho Hx. unfold fld. rewrite !lenN_app, lenN_be.
  destruct (N.ltb_spec (lenN pre + (N.of_nat w + lenN post)) (o + N.of_nat w)) as [E|_]; [exfalso; lia|].
  rewrite (dropN_app_n o) by exact Ho. rewrite (takeN_app_n (N.of_nat w)) by apply lenN_be.
  now rewrite unbe_be.
Qed.

Lemma fld_at0 w x post : x < 256 ^ N.of_nat w -> fld (be w x ++ post) 0 (N.of_nat w) = Some x.
Proof. intros Hx. apply (fld_at [] w x post 0); [reflexivity | exact Hx]. Qed.

Lemma u32_at_app pre x post o : lenN pre = o -> x < U32 -> u32_at (pre ++ be 4 x ++ post) o = x.
Proof.
  intros Ho Hx. unfold u32_at. rewrite (dropN_app_n o) by exact Ho.
  rewrite (takeN_app_n 4) by apply lenN_be. apply unbe_be. rewrite pow256_4. exact Hx.
Qed.

Lemma u32_at_0 x post : x < U32 -> u32_at (be 4 x ++ post) 0 = x.
Proof. intros Hx. apply (u32_at_app [] x post 0); [reflexivity | exact Hx]. Qed.

Lemma u32_at_0_exact x : x < U32 -> u32_at (be 4 x) 0 = x.
Proof. intros Hx. rewrite <- (app_nil_r (be 4 x)). now apply u32_at_0. Qed.

Lemma u64_at_0_exact x : x < U64 -> u64_at (be 8 x) 0 = x.
Proof.
  intros Hx. unfold u64_at. rewrite dropN_0. rewrite takeN_exact by apply lenN_be.
  apply unbe_be. rewrite pow256_8. exact Hx.
Qed.

(** ** Records: [n] fixed-width entries rendered one after the other *)
Lemma records_flat_map {X} (f : X -> bytes) (w : N) (l : list X) :
  (forall x, In x l -> lenN (f x) = w) ->
  records (length l) w (flat_map f l) = Some (map f l).
Proof.
  induction l as [|x t IH]; intros Hw.
  - reflexivity.
  - cbn [length records flat_map map].
    assert (Hx : lenN (f x) = w) by (apply Hw; now left).
    rewrite lenN_app, Hx.
    destruct (N.ltb_spec (w + lenN (flat_map f t)) w) as [E|_]; [exfalso; lia|].
    rewrite (dropN_app_n w) by exact Hx. rewrite IH by (intros y Hy; apply Hw; now right).
    rewrite (takeN_app_n w) by exact Hx. reflexivity.
Qed.

Lemma lenN_flat_map_const {X} (f : X -> bytes) (w : N) (l : list X) :
  (forall x, In x l -> lenN (f x) = w) -> lenN (flat_map f l) = lenN l * w.
Proof.
  induction l as [|x t IH]; intros Hw.
  - reflexivity.
  - cbn [flat_map]. rewrite lenN_app, lenN_cons, (Hw x) by now left.
    rewrite IH by (intros y Hy; apply Hw; now right). lia.
Qed.

(** a full-box table: version, flags, entry count, then the entries *)
Theorem table_of_payload {X} (f : X -> bytes) (w : N) (ver flags : N) (l : list X) b :
  ib_payload b = be 1 ver ++ be 3 flags ++ be 4 (lenN l) ++ flat_map f l ->
  ver < 256 -> flags < 16777216 -> lenN l < U32 ->
  (forall x, In x l -> lenN (f x) = w) ->
  table_of b w = Some (ver, flags, map f l).
Proof.
  intros Hp Hv Hf Hl Hw. unfold table_of. rewrite Hp.
  change 1 with (N.of_nat 1) at 1. rewrite fld_at0 by (rewrite pow256_1; exact Hv).
  rewrite (fld_at (be 1 ver) 3 flags _ 1) by (first [apply lenN_be | rewrite pow256_3; exact Hf]).
  rewrite (app_assoc (be 1 ver)).
  rewrite (fld_at (be 1 ver ++ be 3 flags) 4 (lenN l) _ 4)
    by (first [rewrite lenN_app, !lenN_be; reflexivity | rewrite pow256_4; exact Hl]).
  rewrite (app_assoc _ (be 4 (lenN l))).
  assert (H8 : lenN ((be 1 ver ++ be 3 flags) ++ be 4 (lenN l)) = 8) by (rewrite !lenN_app, !lenN_be; reflexivity).
  rewrite (dropN_app_n 8) by exact H8.
  rewrite lenN_app, H8, (lenN_flat_map_const f w l Hw).
  destruct (N.ltb_spec (8 + lenN l * w - 8) (lenN l * w)) as [E|_]; [exfalso; lia|].
  unfold lenN at 1. rewrite Nat2N.id. rewrite records_flat_map by exact Hw. reflexivity.
Qed.

(** ** [find_all] / [find_one] / [find_opt] on [iboxes_of] *)
Lemma find_all_app t l1 l2 : find_all t (l1 ++ l2) = find_all t l1 ++ find_all t l2.
Proof. unfold find_all. apply filter_app. Qed.

Lemma find_all_none t cs : forall off,
  forallb (fun c => negb (c_code c =? t)) cs = true -> find_all t (iboxes_of off cs) = [].
Proof.
  induction cs as [|c r IH]; intros off H; [reflexivity|].
  cbn [forallb] in H. apply andb_true_iff in H as [H1 H2]. apply negb_true_iff in H1.
  unfold find_all in *. cbn [iboxes_of filter ib_type ibox_of]. rewrite H1. now apply IH.
Qed.

Lemma find_all_all t cs : forall off,
  forallb (fun c => c_code c =? t) cs = true -> find_all t (iboxes_of off cs) = iboxes_of off cs.
Proof.
  induction cs as [|c r IH]; intros off H; [reflexivity|].
  cbn [forallb] in H. apply andb_true_iff in H as [H1 H2].
  unfold find_all in *. cbn [iboxes_of filter ib_type ibox_of]. rewrite H1. f_equal. now apply IH.
Qed.

(** exactly one child of type [t], at a known place *)
Lemma find_one_at t cs1 c cs2 off :
  forallb (fun c' => negb (c_code c' =? t)) cs1 = true -> c_code c = t ->
  forallb (fun c' => negb (c_code c' =? t)) cs2 = true ->
  find_one t (iboxes_of off (cs1 ++ c :: cs2)) = Some (ibox_of (off + total_len cs1) c).
Proof.
  intros H1 Hc H2. unfold find_one. rewrite iboxes_of_app, find_all_app, (find_all_none t cs1) by exact H1.
  cbn [app iboxes_of]. unfold find_all at 1. cbn [filter ib_type ibox_of]. rewrite Hc, N.eqb_refl.
  fold (find_all t (iboxes_of (off + total_len cs1 + c_len c) cs2)).
  rewrite (find_all_none t cs2) by exact H2. reflexivity.
Qed.

Lemma find_opt_at t cs1 c cs2 off :
  forallb (fun c' => negb (c_code c' =? t)) cs1 = true -> c_code c = t ->
  forallb (fun c' => negb (c_code c' =? t)) cs2 = true ->
  find_opt t (iboxes_of off (cs1 ++ c :: cs2)) = Some (Some (ibox_of (off + total_len cs1) c)).
Proof.
  intros H1 Hc H2. unfold find_opt. rewrite iboxes_of_app, find_all_app, (find_all_none t cs1) by exact H1.
  cbn [app iboxes_of]. unfold find_all at 1. cbn [filter ib_type ibox_of]. rewrite Hc, N.eqb_refl.
  fold (find_all t (iboxes_of (off + total_len cs1 + c_len c) cs2)).
  rewrite (find_all_none t cs2) by exact H2. reflexivity.
Qed.

Lemma find_opt_none t cs off :
  forallb (fun c' => negb (c_code c' =? t)) cs = true -> find_opt t (iboxes_of off cs) = Some None.
Proof. intros H. unfold find_opt. now rewrite find_all_none. Qed.

Print Assumptions iso_parse_render.
Print Assumptions table_of_payload.
Print Assumptions find_one_at.
