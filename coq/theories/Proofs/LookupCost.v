(** * C07, the lookups: how many loop iterations the pure sample-table lookups of src/track.rs perform

    [Props/C07.v] states the stream work of [read_sample]; the lookups that precede the seek
    ([sample_offset], [sample_size]) and follow the read ([sample_time], [sample_rendering_offset],
    [is_sync_sample]) are pure functions of the parsed tables in the model ([Model/Track.v]) and the
    meters do not see them.  This file counts their loop iterations.

    Part 1.  For every loop of [Model/Track.v] an instrumented copy [xxx_c] defined by the SAME
    recursion, returning [(result, steps)]: [steps] is the number of times the body of the Rust loop is
    entered (an iteration that leaves the loop through [return]/[?] is counted).  [xxx_c_fst] proves
    that the first component IS the model's function, so the counter is not a free-standing guess.
    The public lookups are instrumented the same way ([sample_offset_c], ...), with [cbind] adding the
    steps of the parts that are actually executed ([?] stops the count where it stops the function).

    Part 2.  Every counter is bounded by the length of the table the loop runs over (for all inputs,
    both build modes), hence [read_sample_steps m t sid <= 5 * table_weight t + 1].

    Part 3 ([LookupCostOpen.v]) links [table_weight] to the length of the file. *)
From MP4 Require Import Track.
From Coq Require Import ZArith Lia.
Open Scope list_scope.
Open Scope N_scope.

(** ** Results with a step count *)
Definition cres (A : Type) : Type := (res A * N)%type.

(** no loop: zero steps *)
Definition cpure {A} (r : res A) : cres A := (r, 0).

(** [x?] then [k]: the steps of [k] are added only when [x] succeeded *)
Definition cbind {A B} (x : cres A) (k : A -> cres B) : cres B :=
  match fst x with
  | Ok a => (fst (k a), snd x + snd (k a))
  | Err e => (Err e, snd x)
  | Panic s => (Panic s, snd x)
  | OutOfFuel => (OutOfFuel, snd x)
  end.

Lemma fst_cbind {A B} (x : cres A) (k : A -> cres B) :
  fst (cbind x k) = res_bind (fst x) (fun a => fst (k a)).
Proof. unfold cbind. destruct (fst x); reflexivity. Qed.

Lemma res_bind_ext {A B} (r : res A) (k k' : A -> res B) :
  (forall a, k a = k' a) -> res_bind r k = res_bind r k'.
Proof. intros H. destruct r; cbn [res_bind]; auto. Qed.

(** the steps of a [cbind] are at most the steps of the first part plus a bound on the second *)
Lemma snd_cbind_le {A B} (x : cres A) (k : A -> cres B) b :
  (forall a, snd (k a) <= b) -> snd (cbind x k) <= snd x + b.
Proof.
  intros H. unfold cbind. destruct (fst x) as [a| | |]; cbn [snd]; try lia.
  specialize (H a). lia.
Qed.

(** ** Part 1: the loops *)

(** [stsc_index] (track.rs, [for (i, entry) in stsc.entries.iter().enumerate()]) *)
Fixpoint stsc_index_from_c (es : list stsc_entry) (i last : N) (sid : N) : cres N :=
  match es with
  | [] => (Ok last, 0)
  | e :: t =>
      if sid <? sc_first_sample e then ((if i =? 0 then Err EData else Ok (i - 1)), 1)
      else let r := stsc_index_from_c t (i + 1) i sid in (fst r, 1 + snd r)
  end.
Definition stsc_index_c (tb : tables) (sid : N) : cres N :=
  match t_stsc tb with
  | [] => (Err EData, 0)
  | es => stsc_index_from_c es 0 0 sid
  end.

Lemma stsc_index_from_c_fst es : forall i last sid,
  fst (stsc_index_from_c es i last sid) = stsc_index_from es i last sid.
Proof.
  induction es as [|e t IH]; intros i last sid; cbn [stsc_index_from_c stsc_index_from]; [reflexivity|].
  destruct (sid <? sc_first_sample e); [reflexivity|]. cbn [fst]. apply IH.
Qed.
Lemma stsc_index_c_fst tb sid : fst (stsc_index_c tb sid) = stsc_index tb sid.
Proof.
  unfold stsc_index_c, stsc_index. destruct (t_stsc tb) as [|e t]; [reflexivity|].
  apply stsc_index_from_c_fst.
Qed.

(** [ctts_index] ([for (i, entry) in ctts.entries.iter().enumerate()]) *)
Fixpoint ctts_index_from_c (es : list (N * Z)) (i : N) (sample_count : N) (sid : N) : cres (N * N) :=
  match es with
  | [] => (Err ENotFound, 0)
  | (cnt, _) :: t =>
      match checked_add U32 sample_count cnt with
      | None => (Err EData, 1)
      | Some next =>
          if sid <? next then (Ok (i, sample_count), 1)
          else let r := ctts_index_from_c t (i + 1) next sid in (fst r, 1 + snd r)
      end
  end.

Lemma ctts_index_from_c_fst es : forall i sc sid,
  fst (ctts_index_from_c es i sc sid) = ctts_index_from es i sc sid.
Proof.
  induction es as [|[cnt o] t IH]; intros i sc sid; cbn [ctts_index_from_c ctts_index_from]; [reflexivity|].
  destruct (checked_add U32 sc cnt) as [next|]; [|reflexivity].
  destruct (sid <? next); [reflexivity|]. cbn [fst]. apply IH.
Qed.

(** [find_traf_idx_and_sample_idx] ([for traf_idx in 0..self.trafs.len()]) *)
Fixpoint find_traf_from_c (fs : list fragrun) (idx : N) (offset : N) (global_idx : N)
  : option (N * N) * N :=
  match fs with
  | [] => (None, 0)
  | f :: t =>
      if fr_has_trun f then
        if global_idx - offset <? fr_sample_count f then (Some (idx, global_idx - offset), 1)
        else match checked_add U32 offset (fr_sample_count f) with
             | Some o => let r := find_traf_from_c t (idx + 1) o global_idx in (fst r, 1 + snd r)
             | None => (None, 1)
             end
      else let r := find_traf_from_c t (idx + 1) offset global_idx in (fst r, 1 + snd r)
  end.
Definition find_traf_c (t : track) (sid : N) : option (N * N) * N :=
  match checked_sub sid 1 with
  | Some g => find_traf_from_c (tr_frags t) 0 0 g
  | None => (None, 0)
  end.

Lemma find_traf_from_c_fst fs : forall idx off g,
  fst (find_traf_from_c fs idx off g) = find_traf_from fs idx off g.
Proof.
  induction fs as [|f t IH]; intros idx off g; cbn [find_traf_from_c find_traf_from]; [reflexivity|].
  destruct (fr_has_trun f); [|cbn [fst]; apply IH].
  destruct (g - off <? fr_sample_count f); [reflexivity|].
  destruct (checked_add U32 off (fr_sample_count f)) as [o|]; [|reflexivity]. cbn [fst]. apply IH.
Qed.
Lemma find_traf_c_fst t sid : fst (find_traf_c t sid) = find_traf t sid.
Proof.
  unfold find_traf_c, find_traf. destruct (checked_sub sid 1); [apply find_traf_from_c_fst|reflexivity].
Qed.

(** the loop [for i in first_sample_in_chunk..sample_id { offset += self.sample_size(i)? }]
    of [sample_offset]; the iteration in which [sample_size] fails is counted *)
Fixpoint sum_sizes_c (l : list N) (cnt : N) (acc : N) : cres N :=
  if cnt =? 0 then (Ok acc, 0)
  else match l with
       | [] => (Err ENotFound, 1)
       | x :: t => let r := sum_sizes_c t (cnt - 1) (acc + x) in (fst r, 1 + snd r)
       end.

Lemma sum_sizes_c_fst l : forall cnt acc, fst (sum_sizes_c l cnt acc) = sum_sizes l cnt acc.
Proof.
  induction l as [|x t IH]; intros cnt acc; cbn [sum_sizes_c sum_sizes];
    destruct (cnt =? 0); try reflexivity. cbn [fst]. apply IH.
Qed.

(** the loop [for j in 0..sample_idx] over [trun.sample_sizes] of [sample_offset] *)
Fixpoint sum_run_sizes_c (l : list N) (cnt : N) (acc : N) : cres N :=
  if cnt =? 0 then (Ok acc, 0)
  else match l with
       | [] => (Err EData, 1)
       | x :: t => match checked_add U64 acc x with
                   | Some a => let r := sum_run_sizes_c t (cnt - 1) a in (fst r, 1 + snd r)
                   | None => (Err EData, 1)
                   end
       end.

Lemma sum_run_sizes_c_fst l : forall cnt acc, fst (sum_run_sizes_c l cnt acc) = sum_run_sizes l cnt acc.
Proof.
  induction l as [|x t IH]; intros cnt acc; cbn [sum_run_sizes_c sum_run_sizes];
    destruct (cnt =? 0); try reflexivity.
  destruct (checked_add U64 acc x) as [a|]; [|reflexivity]. cbn [fst]. apply IH.
Qed.

(** the loop [for entry in stts.entries.iter()] of [sample_time] *)
Fixpoint stts_scan_c (m : mode) (es : list (N * N)) (sample_count elapsed : N) (sid : N) : cres (N * N) :=
  match es with
  | [] => (Err ENotFound, 0)
  | (cnt, delta) :: t =>
      match checked_add U32 sample_count cnt with
      | None => (Err EData, 1)
      | Some next =>
          if sid <? next then
            (res_bind (sub_w m U32 "sample_id - sample_count" sid sample_count) (fun k =>
             res_bind (mul_w m U64 "k * delta" k delta) (fun kd =>
             res_bind (add_w m U64 "start_time" kd elapsed) (fun st => Ok (st, delta)))), 1)
          else
            match res_bind (mul_w m U64 "count * delta" cnt delta) (fun cd =>
                            add_w m U64 "elapsed" elapsed cd) with
            | Ok e' => let r := stts_scan_c m t next e' sid in (fst r, 1 + snd r)
            | Err e => (Err e, 1)
            | Panic s => (Panic s, 1)
            | OutOfFuel => (OutOfFuel, 1)
            end
      end
  end.

Lemma stts_scan_c_fst m es : forall sc el sid, fst (stts_scan_c m es sc el sid) = stts_scan m es sc el sid.
Proof.
  induction es as [|[cnt delta] t IH]; intros sc el sid; cbn [stts_scan_c stts_scan]; [reflexivity|].
  destruct (checked_add U32 sc cnt) as [next|]; [|reflexivity].
  destruct (sid <? next); [reflexivity|].
  destruct (mul_w m U64 "count * delta" cnt delta) as [cd| | |]; cbn [res_bind]; try reflexivity.
  destruct (add_w m U64 "elapsed" el cd) as [e'| | |]; cbn [res_bind fst]; try reflexivity. apply IH.
Qed.

(** the loop [for duration in &trun.sample_durations[..sample_idx]] of [sample_time]: the slice
    expression panics before the first iteration when it is out of range *)
Fixpoint sum_durations_go_c (l : list N) (cnt : N) (acc : N) : cres N :=
  if cnt =? 0 then (Ok acc, 0)
  else match l with
       | [] => (Ok acc, 0)
       | x :: t => match checked_add U64 acc x with
                   | Some a => let r := sum_durations_go_c t (cnt - 1) a in (fst r, 1 + snd r)
                   | None => (Err EData, 1)
                   end
       end.
Definition sum_durations_c (l : list N) (cnt : N) (acc : N) : cres N :=
  if lenN l <? cnt then (Panic "sample_durations[..sample_idx]", 0) else sum_durations_go_c l cnt acc.

Lemma sum_durations_go_c_fst l : forall cnt acc,
  fst (sum_durations_go_c l cnt acc) = sum_durations_go l cnt acc.
Proof.
  induction l as [|x t IH]; intros cnt acc; cbn [sum_durations_go_c sum_durations_go];
    destruct (cnt =? 0); try reflexivity.
  destruct (checked_add U64 acc x) as [a|]; [|reflexivity]. cbn [fst]. apply IH.
Qed.
Lemma sum_durations_c_fst l cnt acc : fst (sum_durations_c l cnt acc) = sum_durations l cnt acc.
Proof.
  unfold sum_durations_c, sum_durations. destruct (lenN l <? cnt); [reflexivity|].
  apply sum_durations_go_c_fst.
Qed.

(** [slice::binary_search]: the halving loop, then one final comparison *)
Fixpoint bsearch_loop_c (fuel : nat) (l : list N) (base size : N) (x : N) : N * N :=
  match fuel with
  | O => (base, 0)
  | S f =>
      if size <=? 1 then (base, 0)
      else
        let half := size / 2 in
        let mid := base + half in
        let base' := match nthN l mid with
                     | Some y => if x <? y then base else mid
                     | None => base
                     end in
        let r := bsearch_loop_c f l base' (size - half) x in (fst r, 1 + snd r)
  end.
Definition binary_search_ok_c (l : list N) (x : N) : bool * N :=
  match l with
  | [] => (false, 0)
  | _ => let r := bsearch_loop_c (S (length l)) l 0 (lenN l) x in
         (match nthN l (fst r) with Some y => y =? x | None => false end, snd r + 1)
  end.

Lemma bsearch_loop_c_fst fuel l : forall base size x,
  fst (bsearch_loop_c fuel l base size x) = bsearch_loop fuel l base size x.
Proof.
  induction fuel as [|f IH]; intros base size x; cbn [bsearch_loop_c bsearch_loop]; [reflexivity|].
  destruct (size <=? 1); [reflexivity|]. cbn [fst]. apply IH.
Qed.
Lemma binary_search_ok_c_fst l x : fst (binary_search_ok_c l x) = binary_search_ok l x.
Proof.
  unfold binary_search_ok_c, binary_search_ok. destruct l as [|y t]; [reflexivity|].
  cbn [fst]. rewrite bsearch_loop_c_fst. reflexivity.
Qed.

(** [sample_count] ([for traf in self.trafs.iter()]) *)
Definition frag_sample_count_c (fs : list fragrun) : N * N :=
  fold_left (fun an f => ((if fr_has_trun f then sat_add U32 (fst an) (fr_sample_count f) else fst an),
                          snd an + 1)) fs (0, 0).
Definition sample_count_c (t : track) : N * N :=
  match tr_frags t with
  | [] => (t_stsz_count (tr_tables t), 0)
  | fs => frag_sample_count_c fs
  end.

Lemma frag_sample_count_c_gen fs : forall a n,
  fold_left (fun an f => ((if fr_has_trun f then sat_add U32 (fst an) (fr_sample_count f) else fst an),
                          snd an + 1)) fs (a, n)
  = (fold_left (fun acc f => if fr_has_trun f then sat_add U32 acc (fr_sample_count f) else acc) fs a,
     n + lenN fs).
Proof.
  induction fs as [|f t IH]; intros a n; cbn [fold_left].
  - change (lenN (@nil fragrun)) with 0. now rewrite N.add_0_r.
  - cbn [fst snd]. rewrite IH. rewrite lenN_cons. f_equal. lia.
Qed.
Lemma frag_sample_count_c_eq fs : frag_sample_count_c fs = (frag_sample_count fs, lenN fs).
Proof. unfold frag_sample_count_c, frag_sample_count. now rewrite frag_sample_count_c_gen. Qed.
Lemma sample_count_c_fst t : fst (sample_count_c t) = sample_count t.
Proof.
  unfold sample_count_c, sample_count. destruct (tr_frags t) as [|f fs]; [reflexivity|].
  now rewrite frag_sample_count_c_eq.
Qed.

(** ** Part 1: the public lookups, with the steps of the loops they run *)

(** [sample_size]: the fragmented branch calls [find_traf_idx_and_sample_idx] once (track.rs,
    [if let Some((traf_idx, sample_idx)) = self.find_traf_idx_and_sample_idx(sample_id)]); the
    stbl branch is two slice accesses *)
Definition sample_size_c (t : track) (sid : N) : cres N :=
  match tr_frags t with
  | [] => cpure (sample_size t sid)
  | fs =>
      let fd := find_traf_c t sid in
      (match fst fd with
       | Some (ti, si) =>
           match nthN fs ti with
           | Some f => match nthN (fr_sizes f) si with
                       | Some s => Ok s
                       | None => Err EData
                       end
           | None => Panic "trafs index"
           end
       | None => Err EData
       end, snd fd)
  end.

Lemma sample_size_c_fst t sid : fst (sample_size_c t sid) = sample_size t sid.
Proof.
  unfold sample_size_c, sample_size. destruct (tr_frags t) as [|f fs]; [reflexivity|].
  cbn [fst]. now rewrite find_traf_c_fst.
Qed.

(** [sample_offset].  Fragmented: one [find_traf_idx_and_sample_idx], then the loop over
    [trun.sample_sizes].  Otherwise: one [stsc_index], [chunk_offset] (two slice accesses), and the
    loop [for i in first_sample_in_chunk..sample_id] when [stsz.sample_size == 0]
    (with [first_sample_in_chunk = 0] the first iteration fails in [sample_size(0)]) *)
Definition sample_offset_c (m : mode) (t : track) (sid : N) : cres N :=
  match tr_frags t with
  | [] =>
      let tb := tr_tables t in
      cbind (stsc_index_c tb sid) (fun idx =>
      match nthN (t_stsc tb) idx with
      | None => cpure (Panic "stsc entries.get(stsc_index).unwrap()")
      | Some e =>
          let first_chunk := sc_first_chunk e in
          let first_sample := sc_first_sample e in
          let spc := sc_samples_per_chunk e in
          if spc =? 0 then cpure (Err EData) else
          match checked_sub sid first_sample with
          | None => cpure (Err EData)
          | Some d =>
              match checked_add U32 (d / spc) first_chunk with
              | None => cpure (Err EData)
              | Some chunk_id =>
                  cbind (cpure (chunk_offset tb chunk_id)) (fun coff =>
                  cbind (cpure (sub_w m U32 "sample_id - first_sample" sid first_sample)) (fun d' =>
                  cbind (cpure (sub_w m U32 "sample_id - rem" sid (d' mod spc))) (fun fsic =>
                  cbind (if 0 <? t_stsz_size tb
                         then cpure (res_bind (sub_w m U32 "sample_id - first_in_chunk" sid fsic) (fun k =>
                                     mul_w m U64 "in-chunk offset" k (t_stsz_size tb)))
                         else match checked_sub fsic 1 with
                              | Some skip => sum_sizes_c (dropN skip (t_stsz_sizes tb)) (sid - fsic) 0
                              | None => if sid - fsic =? 0 then (Ok 0, 0) else (Err ENotFound, 1)
                              end) (fun inchunk =>
                  cpure (match checked_add U64 coff inchunk with
                         | Some o => Ok o
                         | None => Err EData
                         end)))))
              end
          end
      end)
  | fs =>
      let fd := find_traf_c t sid in
      match fst fd with
      | None => (Err EData, snd fd)
      | Some (ti, si) =>
          match nthN fs ti with
          | None => (Panic "trafs index", snd fd)
          | Some f =>
              let base := match fr_base_data_offset f with Some b => b | None => fr_moof_offset f end in
              cbind (res_bind
                       (match (if fr_has_trun f then fr_data_offset f else None) with
                        | Some d =>
                            let s := (Z.of_N base + d)%Z in
                            if ((s <? 0) || (Z.of_N U64 <=? s))%Z then Err EData else Ok (Z.to_N s)
                        | None => Ok base
                        end) (fun off =>
                     res_bind (sub_w m U32 "sample_id - sample_idx" sid (cast_w U32 si)) (fun _ => Ok off)),
                     snd fd) (fun off =>
              sum_run_sizes_c (if fr_has_trun f then fr_sizes f else []) si off)
          end
      end
  end.

Lemma sample_offset_c_fst m t sid : fst (sample_offset_c m t sid) = sample_offset m t sid.
Proof.
  unfold sample_offset_c, sample_offset. destruct (tr_frags t) as [|f0 fs].
  - cbn zeta. rewrite fst_cbind, stsc_index_c_fst. apply res_bind_ext. intros idx.
    destruct (nthN (t_stsc (tr_tables t)) idx) as [e|]; [|reflexivity].
    destruct (sc_samples_per_chunk e =? 0); [reflexivity|].
    destruct (checked_sub sid (sc_first_sample e)) as [d|]; [|reflexivity].
    destruct (checked_add U32 (d / sc_samples_per_chunk e) (sc_first_chunk e)) as [chunk_id|]; [|reflexivity].
    rewrite fst_cbind. unfold cpure at 1. cbn [fst]. apply res_bind_ext. intros coff.
    rewrite fst_cbind. unfold cpure at 1. cbn [fst]. apply res_bind_ext. intros d'.
    rewrite fst_cbind. unfold cpure at 1. cbn [fst]. apply res_bind_ext. intros fsic.
    rewrite fst_cbind.
    assert (E : forall X Y : res N, X = Y -> forall k : N -> res N, res_bind X k = res_bind Y k) by (intros; subst; auto).
    apply E. destruct (0 <? t_stsz_size (tr_tables t)); [reflexivity|].
    destruct (checked_sub fsic 1) as [skip|]; [apply sum_sizes_c_fst|].
    destruct (sid - fsic =? 0); reflexivity.
  - cbn zeta. rewrite <- find_traf_c_fst. destruct (fst (find_traf_c t sid)) as [[ti si]|]; [|reflexivity].
    destruct (nthN (f0 :: fs) ti) as [f|]; [|reflexivity].
    rewrite fst_cbind. cbn [fst].
    destruct (match (if fr_has_trun f then fr_data_offset f else None) with
              | Some d => _ | None => _ end) as [off| | |]; cbn [res_bind]; try reflexivity.
    destruct (sub_w m U32 "sample_id - sample_idx" sid (cast_w U32 si)); cbn [res_bind]; try reflexivity.
    apply sum_run_sizes_c_fst.
Qed.

(** [sample_time].  Fragmented: one [find_traf_idx_and_sample_idx], then the loop over
    [trun.sample_durations[..sample_idx]] when the run has per-sample durations.  Otherwise the stts
    loop. *)
Definition sample_time_c (m : mode) (t : track) (sid : N) : cres (N * N) :=
  match tr_frags t with
  | [] => stts_scan_c m (t_stts (tr_tables t)) 1 0 sid
  | fs =>
      let fd := find_traf_c t sid in
      let found := fst fd in
      let idx_in_run := match found with Some (_, si) => si | None => sid - 1 end in
      let frag := match found with Some (ti, _) => nthN fs ti | None => None end in
      match found, frag with
      | Some _, None => (Panic "trafs index", snd fd)
      | _, _ =>
        let base := match frag with Some f => match fr_tfdt f with Some b => b | None => 0 end | None => 0 end in
        let dflt := match frag with
                    | Some f => match fr_default_duration f with Some d => d | None => tr_default_sample_duration t end
                    | None => tr_default_sample_duration t
                    end in
        let per_sample := match frag with
                          | Some f => fr_has_trun f && negb (N.land FLAG_SAMPLE_DURATION (fr_flags f) =? 0)
                          | None => false
                          end in
        if per_sample then
          match frag with
          | Some f =>
              let r :=
                cbind (sum_durations_c (fr_durations f) idx_in_run 0) (fun so =>
                cpure (match nthN (fr_durations f) idx_in_run with
                       | None => Panic "sample_durations[sample_idx]"
                       | Some d =>
                           match checked_add U64 base so with
                           | Some st => Ok (st, d)
                           | None => Err EData
                           end
                       end)) in
              (fst r, snd fd + snd r)
          | None => (Panic "unreachable", snd fd)
          end
        else
          (res_bind (mul_w m U64 "idx_in_run * default" idx_in_run dflt) (fun so =>
           match checked_add U64 base so with
           | Some st => Ok (st, dflt)
           | None => Err EData
           end), snd fd)
      end
  end.

Lemma sample_time_c_fst m t sid : fst (sample_time_c m t sid) = sample_time m t sid.
Proof.
  unfold sample_time_c, sample_time. destruct (tr_frags t) as [|f0 fs]; [apply stts_scan_c_fst|].
  cbn zeta. rewrite <- find_traf_c_fst. destruct (fst (find_traf_c t sid)) as [[ti si]|].
  - destruct (nthN (f0 :: fs) ti) as [f|]; [|reflexivity].
    destruct (fr_has_trun f && negb (N.land FLAG_SAMPLE_DURATION (fr_flags f) =? 0)); [|reflexivity].
    cbn [fst]. rewrite fst_cbind, sum_durations_c_fst. reflexivity.
  - reflexivity.
Qed.

(** [sample_rendering_offset].  Fragmented: one [find_traf_idx_and_sample_idx]; otherwise one
    [ctts_index] when there is a ctts box *)
Definition sample_rendering_offset_c (t : track) (sid : N) : Z * N :=
  match tr_frags t with
  | [] =>
      match t_ctts (tr_tables t) with
      | Some es =>
          let r := ctts_index_from_c es 0 1 sid in
          (match fst r with
           | Ok (i, _) => match nthN es i with Some (_, o) => o | None => 0%Z end
           | _ => 0%Z
           end, snd r)
      | None => (0%Z, 0)
      end
  | fs =>
      let fd := find_traf_c t sid in
      (match fst fd with
       | Some (ti, si) =>
           match nthN fs ti with
           | Some f => match (if fr_has_trun f then nthN (fr_cts f) si else None) with
                       | Some c => to_signed 32 c
                       | None => 0%Z
                       end
           | None => 0%Z
           end
       | None => 0%Z
       end, snd fd)
  end.

Lemma sample_rendering_offset_c_fst t sid :
  fst (sample_rendering_offset_c t sid) = sample_rendering_offset t sid.
Proof.
  unfold sample_rendering_offset_c, sample_rendering_offset. destruct (tr_frags t) as [|f0 fs].
  - destruct (t_ctts (tr_tables t)) as [es|]; [|reflexivity]. cbn [fst].
    now rewrite ctts_index_from_c_fst.
  - cbn [fst]. now rewrite find_traf_c_fst.
Qed.

(** [is_sync_sample].  Fragmented: one [sample_count()] (a loop over the trafs); otherwise the binary
    search of stss *)
Definition is_sync_sample_c (t : track) (sid : N) : cres bool :=
  match tr_frags t with
  | [] =>
      match t_stss (tr_tables t) with
      | Some es => let r := binary_search_ok_c es sid in (Ok (fst r), snd r)
      | None => (Ok true, 0)
      end
  | fs =>
      let sc := sample_count_c t in
      let c := fst sc / cast_w U32 (lenN fs) in
      ((if c =? 0 then Ok (sid =? 1) else Ok ((sid =? 1) || (sid mod c =? 0))), snd sc)
  end.

Lemma is_sync_sample_c_fst t sid : fst (is_sync_sample_c t sid) = is_sync_sample t sid.
Proof.
  unfold is_sync_sample_c, is_sync_sample. destruct (tr_frags t) as [|f0 fs] eqn:E.
  - destruct (t_stss (tr_tables t)) as [es|]; [|reflexivity]. cbn [fst].
    now rewrite binary_search_ok_c_fst.
  - cbn [fst]. now rewrite sample_count_c_fst.
Qed.

(** ** The step counters *)
Definition stsc_index_steps (tb : tables) (sid : N) : N := snd (stsc_index_c tb sid).
Definition find_traf_steps (t : track) (sid : N) : N := snd (find_traf_c t sid).
Definition sample_count_steps (t : track) : N := snd (sample_count_c t).
Definition sample_size_steps (t : track) (sid : N) : N := snd (sample_size_c t sid).
Definition sample_offset_steps (m : mode) (t : track) (sid : N) : N := snd (sample_offset_c m t sid).
Definition sample_time_steps (m : mode) (t : track) (sid : N) : N := snd (sample_time_c m t sid).
Definition sample_rendering_offset_steps (t : track) (sid : N) : N := snd (sample_rendering_offset_c t sid).
Definition is_sync_steps (t : track) (sid : N) : N := snd (is_sync_sample_c t sid).

(** [Mp4Track::read_sample] (track.rs): [sample_offset(sample_id)] — a failure returns;
    [sample_size(sample_id)] — a failure returns; the seek and the read (stream work, C07);
    [sample_time(sample_id)?]; [sample_rendering_offset(sample_id)]; [is_sync_sample(sample_id)].
    The count is that of a call whose stream operations succeed (an I/O error between
    [sample_size] and [sample_time] only removes the last three summands). *)
Definition read_sample_steps (m : mode) (t : track) (sid : N) : N :=
  let o := sample_offset_c m t sid in
  snd o                                                  (* let sample_offset = match self.sample_offset(..) *)
  + match fst o with
    | Ok _ =>
        let z := sample_size_c t sid in
        snd z                                            (* let sample_size = match self.sample_size(..) *)
        + match fst z with
          | Ok _ =>
              let tm := sample_time_c m t sid in
              snd tm                                     (* self.sample_time(sample_id)? *)
              + match fst tm with
                | Ok _ => sample_rendering_offset_steps t sid   (* self.sample_rendering_offset(..) *)
                          + is_sync_steps t sid                 (* self.is_sync_sample(..) *)
                | _ => 0
                end
          | _ => 0
          end
    | _ => 0
    end.

Lemma read_sample_steps_le m t sid :
  read_sample_steps m t sid <=
  sample_offset_steps m t sid + sample_size_steps t sid + sample_time_steps m t sid
  + sample_rendering_offset_steps t sid + is_sync_steps t sid.
Proof.
  unfold read_sample_steps, sample_offset_steps, sample_size_steps, sample_time_steps. cbn zeta.
  destruct (fst (sample_offset_c m t sid)); try lia.
  destruct (fst (sample_size_c t sid)); try lia.
  destruct (fst (sample_time_c m t sid)); lia.
Qed.

(** the instrumented lookups compute what [read_sample] uses: the model's [read_sample] written
    with them *)
Lemma read_sample_uses_c m t sid :
  read_sample m t sid =
  match fst (sample_offset_c m t sid) with
  | Err ENotFound => Ret None
  | Err e => Throw e
  | Panic s => Crash s
  | OutOfFuel => Spin
  | Ok off =>
      match fst (sample_size_c t sid) with
      | Err ENotFound => Ret None
      | Err e => Throw e
      | Panic s => Crash s
      | OutOfFuel => Spin
      | Ok sz =>
          seek_to off ;;;
          buf <- rd_exact sz ;;
          alloc (2 * sz + 32) ;;;
          '(st, dur) <- lift (fst (sample_time_c m t sid)) ;;
          sync <- lift (fst (is_sync_sample_c t sid)) ;;
          Ret (Some (mkSample st dur (fst (sample_rendering_offset_c t sid)) sync buf))
      end
  end.
Proof.
  rewrite sample_offset_c_fst, sample_size_c_fst, sample_time_c_fst, is_sync_sample_c_fst.
  unfold read_sample. destruct (sample_offset m t sid); try reflexivity.
  destruct (sample_size t sid); try reflexivity.
  now rewrite sample_rendering_offset_c_fst.
Qed.

(** ** Part 2: every loop is bounded by the table it runs over *)
Ltac z0 := unfold cpure; cbn [snd fst]; lia.

Lemma stsc_index_from_steps_le es : forall i last sid, snd (stsc_index_from_c es i last sid) <= lenN es.
Proof.
  induction es as [|e t IH]; intros i last sid; cbn [stsc_index_from_c].
  - cbn [snd]. lia.
  - rewrite lenN_cons. destruct (sid <? sc_first_sample e); cbn [snd]; [lia|].
    specialize (IH (i + 1) i sid). lia.
Qed.
Lemma stsc_index_steps_le tb sid : stsc_index_steps tb sid <= lenN (t_stsc tb).
Proof.
  unfold stsc_index_steps, stsc_index_c. destruct (t_stsc tb) as [|e t] eqn:E; [z0|].
  apply stsc_index_from_steps_le.
Qed.

Lemma ctts_index_steps_le es : forall i sc sid, snd (ctts_index_from_c es i sc sid) <= lenN es.
Proof.
  induction es as [|[cnt o] t IH]; intros i sc sid; cbn [ctts_index_from_c].
  - cbn [snd]. lia.
  - rewrite lenN_cons. destruct (checked_add U32 sc cnt) as [next|]; [|cbn [snd]; lia].
    destruct (sid <? next); cbn [snd]; [lia|]. specialize (IH (i + 1) next sid). lia.
Qed.

Lemma find_traf_from_steps_le fs : forall idx off g, snd (find_traf_from_c fs idx off g) <= lenN fs.
Proof.
  induction fs as [|f t IH]; intros idx off g; cbn [find_traf_from_c].
  - cbn [snd]. lia.
  - rewrite lenN_cons. destruct (fr_has_trun f).
    + destruct (g - off <? fr_sample_count f); [cbn [snd]; lia|].
      destruct (checked_add U32 off (fr_sample_count f)) as [o|]; cbn [snd]; [|lia].
      specialize (IH (idx + 1) o g). lia.
    + cbn [snd]. specialize (IH (idx + 1) off g). lia.
Qed.
Lemma find_traf_steps_le t sid : find_traf_steps t sid <= lenN (tr_frags t).
Proof.
  unfold find_traf_steps, find_traf_c. destruct (checked_sub sid 1); [apply find_traf_from_steps_le|z0].
Qed.

(** the failing iteration is counted: one more than the entries *)
Lemma sum_sizes_steps_le l : forall cnt acc, snd (sum_sizes_c l cnt acc) <= lenN l + 1.
Proof.
  induction l as [|x t IH]; intros cnt acc; cbn [sum_sizes_c]; destruct (cnt =? 0); cbn [snd]; try lia.
  rewrite lenN_cons. specialize (IH (cnt - 1) (acc + x)). lia.
Qed.
(** ... and no more than the count asked for *)
Lemma sum_sizes_steps_le_cnt l : forall cnt acc, snd (sum_sizes_c l cnt acc) <= cnt.
Proof.
  induction l as [|x t IH]; intros cnt acc; cbn [sum_sizes_c]; destruct (N.eqb_spec cnt 0); cbn [snd]; try lia.
  specialize (IH (cnt - 1) (acc + x)). lia.
Qed.

Lemma sum_run_sizes_steps_le l : forall cnt acc, snd (sum_run_sizes_c l cnt acc) <= lenN l + 1.
Proof.
  induction l as [|x t IH]; intros cnt acc; cbn [sum_run_sizes_c]; destruct (cnt =? 0); cbn [snd]; try lia.
  rewrite lenN_cons. destruct (checked_add U64 acc x) as [a|]; cbn [snd]; [|lia].
  specialize (IH (cnt - 1) a). lia.
Qed.

Lemma stts_scan_steps_le m es : forall sc el sid, snd (stts_scan_c m es sc el sid) <= lenN es.
Proof.
  induction es as [|[cnt delta] t IH]; intros sc el sid; cbn [stts_scan_c].
  - cbn [snd]. lia.
  - rewrite lenN_cons. destruct (checked_add U32 sc cnt) as [next|]; [|cbn [snd]; lia].
    destruct (sid <? next); [cbn [snd]; lia|].
    destruct (res_bind _ _) as [e'| | |]; cbn [snd]; try lia.
    specialize (IH next e' sid). lia.
Qed.

Lemma sum_durations_go_steps_le l : forall cnt acc, snd (sum_durations_go_c l cnt acc) <= lenN l.
Proof.
  induction l as [|x t IH]; intros cnt acc; cbn [sum_durations_go_c]; destruct (cnt =? 0); cbn [snd]; try lia.
  rewrite lenN_cons. destruct (checked_add U64 acc x) as [a|]; cbn [snd]; [|lia].
  specialize (IH (cnt - 1) a). lia.
Qed.
Lemma sum_durations_steps_le l cnt acc : snd (sum_durations_c l cnt acc) <= lenN l.
Proof.
  unfold sum_durations_c. destruct (lenN l <? cnt); [cbn [snd]; lia|apply sum_durations_go_steps_le].
Qed.

(** the binary search: at most [log2_up size] halvings *)
Lemma half_up_log2 size : 2 <= size -> N.log2_up (size - size / 2) + 1 <= N.log2_up size.
Proof.
  intros H2.
  assert (Hpos : 0 < N.log2_up size) by (apply N.log2_up_pos; lia).
  assert (Hle : size <= 2 ^ N.log2_up size) by (apply N.log2_up_spec; lia).
  set (L := N.log2_up size) in *.
  assert (E : 2 ^ L = 2 * 2 ^ (L - 1)).
  { replace L with (N.succ (L - 1)) at 1 by lia. now rewrite N.pow_succ_r'. }
  assert (Hd : size - size / 2 <= 2 ^ (L - 1)).
  { pose proof (N.div_mod size 2 ltac:(lia)) as Hm. pose proof (N.mod_upper_bound size 2 ltac:(lia)). lia. }
  assert (Hl : N.log2_up (size - size / 2) <= L - 1).
  { apply N.log2_up_le_pow2; [|exact Hd].
    pose proof (N.div_mod size 2 ltac:(lia)) as Hm. pose proof (N.mod_upper_bound size 2 ltac:(lia)). lia. }
  lia.
Qed.

Lemma bsearch_loop_steps_le fuel l : forall base size x,
  snd (bsearch_loop_c fuel l base size x) <= N.log2_up size.
Proof.
  induction fuel as [|f IH]; intros base size x; cbn [bsearch_loop_c]; [cbn [snd]; lia|].
  destruct (N.leb_spec size 1) as [H1|H1]; [cbn [snd]; lia|]. cbn [snd].
  match goal with |- 1 + snd (bsearch_loop_c f l ?b ?s x) <= _ => specialize (IH b s x) end.
  pose proof (half_up_log2 size ltac:(lia)). lia.
Qed.

Lemma log2_up_succ_le n : 1 <= n -> N.log2_up n + 1 <= n.
Proof.
  intros H. destruct (N.eq_dec n 1) as [->|Hn]; [change (N.log2_up 1) with 0; lia|].
  assert (Hl : N.log2_up n <= n - 1).
  { apply N.log2_up_le_pow2; [lia|].
    pose proof (N.pow_gt_lin_r 2 (n - 1) ltac:(lia)). lia. }
  lia.
Qed.

Lemma binary_search_steps_le_log l x : snd (binary_search_ok_c l x) <= N.log2_up (lenN l) + 1.
Proof.
  unfold binary_search_ok_c. destruct l as [|y t]; [cbn [snd]; lia|]. cbn [snd].
  pose proof (bsearch_loop_steps_le (S (length (y :: t))) (y :: t) 0 (lenN (y :: t)) x). lia.
Qed.
Lemma binary_search_steps_le l x : snd (binary_search_ok_c l x) <= lenN l.
Proof.
  destruct l as [|y t]; [unfold binary_search_ok_c; cbn [snd]; lia|].
  pose proof (binary_search_steps_le_log (y :: t) x) as H.
  pose proof (log2_up_succ_le (lenN (y :: t))) as H1. rewrite lenN_cons in *. lia.
Qed.

Lemma sample_count_steps_le t : sample_count_steps t <= lenN (tr_frags t).
Proof.
  unfold sample_count_steps, sample_count_c. destruct (tr_frags t) as [|f fs] eqn:E; [z0|].
  rewrite frag_sample_count_c_eq. cbn [snd]. lia.
Qed.

(** ** The weight of a track: the number of entries of all its tables and runs *)
Definition olen {A} (o : option (list A)) : N := match o with Some l => lenN l | None => 0 end.

Definition tables_weight (tb : tables) : N :=
  lenN (t_stsc tb) + lenN (t_stsz_sizes tb) + olen (t_stco tb) + olen (t_co64 tb)
  + lenN (t_stts tb) + olen (t_ctts tb) + olen (t_stss tb).

Definition fragrun_weight (f : fragrun) : N :=
  1 + lenN (fr_durations f) + lenN (fr_sizes f) + lenN (fr_cts f).

Fixpoint frags_weight (fs : list fragrun) : N :=
  match fs with
  | [] => 0
  | f :: t => fragrun_weight f + frags_weight t
  end.

(** every traf counts for one (the loops over [self.trafs]), plus its per-sample vectors *)
Definition table_weight (t : track) : N := tables_weight (tr_tables t) + frags_weight (tr_frags t).

Lemma frags_weight_len fs : lenN fs <= frags_weight fs.
Proof.
  induction fs as [|f t IH]; [rewrite lenN_nil; cbn [frags_weight]; lia|].
  rewrite lenN_cons. cbn [frags_weight]. unfold fragrun_weight. lia.
Qed.

Lemma frags_weight_nth fs : forall i f, nthN fs i = Some f -> lenN fs + fragrun_weight f <= frags_weight fs + 1.
Proof.
  induction fs as [|g t IH]; intros i f H; cbn [nthN] in H; [discriminate|].
  rewrite lenN_cons. cbn [frags_weight]. destruct (i =? 0).
  - injection H as ->. pose proof (frags_weight_len t). lia.
  - specialize (IH _ _ H). unfold fragrun_weight in *. lia.
Qed.

(** ** The public lookups against the weight *)

Lemma sample_size_steps_le t sid : sample_size_steps t sid <= lenN (tr_frags t).
Proof.
  unfold sample_size_steps, sample_size_c. destruct (tr_frags t) as [|f fs] eqn:E; [z0|].
  cbn [snd]. rewrite <- E. apply find_traf_steps_le.
Qed.

Lemma sample_rendering_offset_steps_le t sid :
  sample_rendering_offset_steps t sid <= olen (t_ctts (tr_tables t)) + lenN (tr_frags t).
Proof.
  unfold sample_rendering_offset_steps, sample_rendering_offset_c. destruct (tr_frags t) as [|f fs] eqn:E.
  - destruct (t_ctts (tr_tables t)) as [es|]; cbn [snd olen]; [|lia].
    pose proof (ctts_index_steps_le es 0 1 sid). lia.
  - cbn [snd]. rewrite <- E. pose proof (find_traf_steps_le t sid). unfold find_traf_steps in *. lia.
Qed.

Lemma is_sync_steps_le t sid : is_sync_steps t sid <= olen (t_stss (tr_tables t)) + lenN (tr_frags t).
Proof.
  unfold is_sync_steps, is_sync_sample_c. destruct (tr_frags t) as [|f fs] eqn:E.
  - destruct (t_stss (tr_tables t)) as [es|]; cbn [snd olen]; [|lia].
    pose proof (binary_search_steps_le es sid). lia.
  - cbn [snd]. rewrite <- E. pose proof (sample_count_steps_le t). unfold sample_count_steps in *. lia.
Qed.

(** the stss search is logarithmic *)
Lemma is_sync_steps_le_log t sid : tr_frags t = [] ->
  is_sync_steps t sid <= N.log2_up (olen (t_stss (tr_tables t))) + 1.
Proof.
  intros E. unfold is_sync_steps, is_sync_sample_c. rewrite E.
  destruct (t_stss (tr_tables t)) as [es|]; cbn [snd olen]; [|lia].
  apply binary_search_steps_le_log.
Qed.

Lemma sample_time_steps_le m t sid :
  sample_time_steps m t sid <= lenN (t_stts (tr_tables t)) + frags_weight (tr_frags t).
Proof.
  unfold sample_time_steps, sample_time_c. destruct (tr_frags t) as [|f0 fs] eqn:E.
  - pose proof (stts_scan_steps_le m (t_stts (tr_tables t)) 1 0 sid). lia.
  - cbn zeta. rewrite <- E.
    pose proof (find_traf_steps_le t sid) as Hf. unfold find_traf_steps in Hf.
    pose proof (frags_weight_len (tr_frags t)) as Hw.
    destruct (fst (find_traf_c t sid)) as [[ti si]|].
    + destruct (nthN (tr_frags t) ti) as [f|] eqn:En; [|cbn [snd]; lia].
      destruct (fr_has_trun f && negb (N.land FLAG_SAMPLE_DURATION (fr_flags f) =? 0)); [|cbn [snd]; lia].
      cbn [snd].
      match goal with |- snd (find_traf_c t sid) + snd (cbind ?x ?k) <= _ =>
        pose proof (snd_cbind_le x k 0 ltac:(intros; z0)) as Hc end.
      pose proof (sum_durations_steps_le (fr_durations f) si 0) as Hd.
      pose proof (frags_weight_nth _ _ _ En) as Hn. unfold fragrun_weight in Hn. lia.
    + cbn [snd]. lia.
Qed.

Lemma sample_offset_steps_le m t sid :
  sample_offset_steps m t sid
  <= lenN (t_stsc (tr_tables t)) + lenN (t_stsz_sizes (tr_tables t)) + 1 + frags_weight (tr_frags t).
Proof.
  unfold sample_offset_steps, sample_offset_c. destruct (tr_frags t) as [|f0 fs] eqn:E.
  - cbn zeta. set (tb := tr_tables t).
    pose proof (stsc_index_steps_le tb sid) as Hs. unfold stsc_index_steps in Hs.
    match goal with |- snd (cbind ?x ?k) <= _ =>
      pose proof (snd_cbind_le x k (lenN (t_stsz_sizes tb) + 1)) as Hc end.
    cbn [frags_weight]. rewrite N.add_0_r.
    etransitivity; [apply Hc|lia]. clear Hc Hs. intros idx.
    destruct (nthN (t_stsc tb) idx) as [e|]; [|z0].
    destruct (sc_samples_per_chunk e =? 0); [z0|].
    destruct (checked_sub sid (sc_first_sample e)) as [d|]; [|z0].
    destruct (checked_add U32 (d / sc_samples_per_chunk e) (sc_first_chunk e)) as [chunk_id|]; [|z0].
    etransitivity; [apply (snd_cbind_le _ _ (lenN (t_stsz_sizes tb) + 1))|cbn [cpure snd]; lia]. intros coff.
    etransitivity; [apply (snd_cbind_le _ _ (lenN (t_stsz_sizes tb) + 1))|cbn [cpure snd]; lia]. intros d'.
    etransitivity; [apply (snd_cbind_le _ _ (lenN (t_stsz_sizes tb) + 1))|cbn [cpure snd]; lia]. intros fsic.
    etransitivity; [apply (snd_cbind_le _ _ 0); intros; z0|]. rewrite N.add_0_r.
    destruct (0 <? t_stsz_size tb); [z0|].
    destruct (checked_sub fsic 1) as [skip|].
    + pose proof (sum_sizes_steps_le (dropN skip (t_stsz_sizes tb)) (sid - fsic) 0) as H.
      rewrite dropN_lenN in H. lia.
    + destruct (sid - fsic =? 0); cbn [snd]; lia.
  - cbn zeta. rewrite <- E.
    pose proof (find_traf_steps_le t sid) as Hf. unfold find_traf_steps in Hf.
    pose proof (frags_weight_len (tr_frags t)) as Hw.
    destruct (fst (find_traf_c t sid)) as [[ti si]|]; [|cbn [snd]; lia].
    destruct (nthN (tr_frags t) ti) as [f|] eqn:En; [|cbn [snd]; lia].
    pose proof (frags_weight_nth _ _ _ En) as Hn. unfold fragrun_weight in Hn.
    etransitivity; [apply (snd_cbind_le _ _ (lenN (fr_sizes f) + 1))|cbn [snd]; lia].
    intros off. destruct (fr_has_trun f).
    + apply sum_run_sizes_steps_le.
    + pose proof (sum_run_sizes_steps_le [] si off) as H. change (lenN (@nil N)) with 0 in H. lia.
Qed.

(** the in-chunk loop also stops at [sample_id]: in the stbl branch the steps of [sample_offset] are
    at most the stsc entries plus [sid] *)
Lemma sample_offset_steps_le_sid m t sid : tr_frags t = [] ->
  sample_offset_steps m t sid <= lenN (t_stsc (tr_tables t)) + sid.
Proof.
  intros E. unfold sample_offset_steps, sample_offset_c. rewrite E. cbn zeta. set (tb := tr_tables t).
  pose proof (stsc_index_steps_le tb sid) as Hs. unfold stsc_index_steps in Hs.
  etransitivity; [apply (snd_cbind_le _ _ sid)|lia]. intros idx.
  destruct (nthN (t_stsc tb) idx) as [e|]; [|z0].
  destruct (sc_samples_per_chunk e =? 0); [z0|].
  destruct (checked_sub sid (sc_first_sample e)) as [d|]; [|z0].
  destruct (checked_add U32 (d / sc_samples_per_chunk e) (sc_first_chunk e)) as [chunk_id|]; [|z0].
  etransitivity; [apply (snd_cbind_le _ _ sid)|cbn [cpure snd]; lia]. intros coff.
  etransitivity; [apply (snd_cbind_le _ _ sid)|cbn [cpure snd]; lia]. intros d'.
  etransitivity; [apply (snd_cbind_le _ _ sid)|cbn [cpure snd]; lia]. intros fsic.
  etransitivity; [apply (snd_cbind_le _ _ 0); intros; z0|]. rewrite N.add_0_r.
  destruct (0 <? t_stsz_size tb); [z0|].
  destruct (checked_sub fsic 1) as [skip|].
  - pose proof (sum_sizes_steps_le_cnt (dropN skip (t_stsz_sizes tb)) (sid - fsic) 0). lia.
  - destruct (N.eqb_spec (sid - fsic) 0); cbn [snd]; lia.
Qed.

(** ** The bound of [read_sample] and of the accessors, for every track value, sample id, build mode *)
Theorem sample_offset_steps_weight m t sid : sample_offset_steps m t sid <= table_weight t + 1.
Proof.
  pose proof (sample_offset_steps_le m t sid). unfold table_weight, tables_weight. lia.
Qed.

Theorem sample_count_steps_weight t : sample_count_steps t <= table_weight t.
Proof.
  pose proof (sample_count_steps_le t). pose proof (frags_weight_len (tr_frags t)).
  unfold table_weight. lia.
Qed.

Theorem read_sample_steps_weight m t sid : read_sample_steps m t sid <= 5 * table_weight t + 1.
Proof.
  pose proof (read_sample_steps_le m t sid) as H.
  pose proof (sample_offset_steps_le m t sid) as H1.
  pose proof (sample_size_steps_le t sid) as H2.
  pose proof (sample_time_steps_le m t sid) as H3.
  pose proof (sample_rendering_offset_steps_le t sid) as H4.
  pose proof (is_sync_steps_le t sid) as H5.
  pose proof (frags_weight_len (tr_frags t)) as Hw.
  unfold table_weight, tables_weight. lia.
Qed.

Print Assumptions read_sample_steps_weight.
Print Assumptions read_sample_uses_c.
