(** Round trip of [MfhdBox] *)
From MP4 Require Import Kit BoxMfhd IsoMfhd.
From Coq Require Import ZifyN ZifyNat ZifyBool.
Open Scope string_scope.
Open Scope list_scope.
Open Scope N_scope.

Lemma mfhd_code : u32_of_boxtype (box_type_of "MfhdBox") = 0x6d666864.
Proof. vm_compute. reflexivity. Qed.

Lemma mfhd_size_eq v : mfhd_size v = 16.
Proof. reflexivity. Qed.

Lemma mfhd_enc v : mfhd_wf v = true ->
  wfin (enc_mfhd v) = Ok (mfhd_size v) /\
  wout (enc_mfhd v) = be 4 (mfhd_size v) ++ be 4 0x6d666864 ++ iso_mfhd_payload v.
Proof.
  intros H. unfold enc_mfhd, iso_mfhd_payload.
  unfold mfhd_wf in H. split_andb.
  rewrite write_header_small by (rewrite mfhd_size_eq; reflexivity).
  rewrite mfhd_code.
  rewrite write_header_ext_small by assumption.
  enc_norm. split; [reflexivity|].
  rewrite <- ?app_assoc. reflexivity.
Qed.

Lemma mfhd_dec m v d l p post : mfhd_wf v = true -> p + mfhd_size v < 2^63 ->
  run (dec_mfhd m (mfhd_size v)) (mkStream d l (p + 8) (iso_mfhd_payload v ++ post))
  = (Ok v, mkStream d l (p + mfhd_size v) post).
Proof.
  intros H Hp. unfold dec_mfhd, iso_mfhd_payload.
  unfold mfhd_wf in H. split_andb.
  pose proof (mfhd_size_eq v) as Hsz.
  rewrite <- !app_assoc.
  prog_norm. cbn [run s_pos].
  rewrite run_sub64_ok by (clear; unfold HEADER_SIZE, Tables.HEADER_SIZE; lia).
  do 3 rd_step.
  rewrite run_add64_ok by (clear -Hsz Hp; unfold HEADER_SIZE, Tables.HEADER_SIZE, U64; lia).
  prog_norm.
  rewrite run_SeekTo_here by (clear -Hsz; unfold HEADER_SIZE, Tables.HEADER_SIZE; lia).
  cbn [run]. f_equal.
  - destruct v; reflexivity.
  - f_equal. clear -Hsz. lia.
Qed.

Lemma mfhd_payload_len v : lenN (iso_mfhd_payload v) + 8 = mfhd_size v.
Proof.
  rewrite mfhd_size_eq. unfold iso_mfhd_payload.
  rewrite ?lenN_app, ?lenN_be. reflexivity.
Qed.

Lemma mfhd_appender v : mfhd_wf v = true -> mfhd_size v < U32 -> appender (enc_mfhd v).
Proof.
  intros H Hs. unfold enc_mfhd. rewrite write_header_small by exact Hs.
  unfold mfhd_wf in H. split_andb.
  rewrite write_header_ext_small by assumption.
  cbn [wbind appender wr wr_u8 wr_u16 wr_u32 wr_u64 wr_u wr_i16 wr_i32 wr_i]. exact I.
Qed.

Theorem mfhd_roundtrip : leaf_roundtrip mfhd_wf mfhd_size 0x6d666864 enc_mfhd dec_mfhd iso_mfhd_payload.
Proof.
  intros v H Hs. destruct (mfhd_enc v H) as [H1 H2].
  split; [exact H1|]. split; [now apply mfhd_appender|]. split; [exact H2|].
  split; [now apply mfhd_payload_len|].
  intros m d l p post Hp. now apply mfhd_dec.
Qed.

Print Assumptions mfhd_roundtrip.
