(** Round trip of [MoofBox] (moof.rs) *)
From MP4 Require Import KitCont BoxMoof IsoMfhd IsoMoof IsoTraf RtMfhd RtTraf.
From Coq Require Import ZifyN ZifyNat ZifyBool.
Open Scope string_scope.
Open Scope list_scope.
Open Scope N_scope.


Lemma moof_code : u32_of_boxtype (box_type_of "MoofBox") = 0x6d6f6f66.
Proof. vm_compute. reflexivity. Qed.


Definition moof_rt_wf (v : moof) : bool :=
  mfhd_wf (moof_mfhd v) && forallb traf_rt_wf (moof_trafs v).

Lemma moof_bt_mfhd : boxtype_of_u32 0x6d666864 = MfhdBox. Proof. vm_compute. reflexivity. Qed.
Lemma moof_bt_trafs : boxtype_of_u32 0x74726166 = TrafBox. Proof. vm_compute. reflexivity. Qed.

Definition moof_u_mfhd (x : mfhd) (a : moof_acc) : moof_acc := let '(a0, a1) := a in (Some x, a1).
Definition moof_u_trafs (x : traf) (a : moof_acc) : moof_acc := let '(a0, a1) := a in (a0, a1 ++ [x]).

Definition moof_i_mfhd := ci_of mfhd_size 0x6d666864 iso_mfhd_payload (fun _ => 0%nat) moof_u_mfhd.
Definition moof_i_trafs := ci_of traf_size 0x74726166 iso_traf_payload traf_fuel moof_u_trafs.

Definition moof_items (v : moof) : list (citem moof_acc) :=
  [moof_i_mfhd (moof_mfhd v)] ++
  map moof_i_trafs (moof_trafs v).

Ltac moof_unfold_items := unfold moof_items.
Ltac moof_unfold_i := unfold moof_i_mfhd, moof_i_trafs in *.

Lemma moof_items_iso v : flat_map ci_iso (moof_items v) = iso_moof_payload v.
Proof.
  unfold iso_moof_payload. moof_unfold_items. rewrite !flat_map_app, ?flat_map_ci_iso_map. moof_unfold_i.
  cbn [flat_map ci_opt app iso_opt ci_iso ci_of ci_code ci_pl]; rewrite <- ?app_assoc, ?app_nil_r; reflexivity.
Qed.

Lemma moof_items_size v : moof_size v = 8 + ci_total (moof_items v).
Proof.
  unfold moof_size. moof_unfold_items. rewrite !ci_total_app.
  rewrite (ci_total_map moof_i_trafs traf_size) by reflexivity.
  moof_unfold_i.
  unfold ci_total; cbn [ci_opt map ci_of ci_size sumN fold_right]; hdr_consts; lia.
Qed.

Definition moof_fuel (v : moof) : nat := (length (moof_trafs v) + 4)%nat.

Lemma moof_items_fuel v : (length (moof_items v) + ci_maxneed (moof_items v) <= moof_fuel v)%nat.
Proof.
  unfold moof_fuel. moof_unfold_items. rewrite !app_length, !ci_maxneed_app, ?map_length.
  pose proof (ci_maxneed_map_le moof_i_trafs (moof_trafs v) 3%nat (fun _ => le_n _)).
  moof_unfold_i.
  cbn [length ci_opt ci_maxneed ci_need ci_of]; lia.
Qed.

Lemma moof_items_ok m v : moof_rt_wf v = true -> moof_size v < U32 ->
  Forall (ci_ok (moof_dispatch m)) (moof_items v).
Proof.
  intros H Hs. apply Forall_ci_ok_total; [| rewrite moof_items_size in Hs; clear -Hs; lia].
  unfold moof_rt_wf in H. split_andb.
  unfold moof_items. repeat apply Forall_app_intro.
  - apply Forall_one. ci_leaf_t (cont_of_leaf _ _ _ _ _ _ mfhd_roundtrip) moof_bt_mfhd.
  - apply Forall_ci_map. intros x Hx.
    match goal with Hf : forallb _ _ = true |- _ => pose proof (forallb_In _ _ _ Hf Hx) end.
    ci_leaf_t (traf_roundtrip Dbg) moof_bt_trafs.
Qed.

Lemma moof_payload_len v : moof_rt_wf v = true -> moof_size v < U32 ->
  lenN (iso_moof_payload v) + 8 = moof_size v.
Proof.
  intros H Hs. apply (cont_payload_len (moof_dispatch Dbg) (moof_items v)).
  - now apply moof_items_ok.
  - apply moof_items_iso.
  - apply moof_items_size.
Qed.

Ltac moof_child me Hs :=
  lazymatch goal with
  | |- wspec (enc_mfhd _) _ _ => apply (cont_rt_wspec _ _ _ _ _ _ _ _ (cont_of_leaf _ _ _ _ _ _ mfhd_roundtrip))
  | |- wspec (enc_traf _) _ _ => apply (cont_rt_wspec _ _ _ _ _ _ _ _ (traf_roundtrip Dbg))
  end;
  [ assumption | let Hs' := fresh "Hs" in pose proof Hs as Hs'; unfold moof_size in Hs'; cont_size_tac Hs' ].

Ltac moof_opt me Hs :=
  let x := fresh "x" in let Hx := fresh "Hx" in
  apply wspec_opt_child; intros x Hx; unfold moof_size in Hs; rewrite Hx in *; eexists; moof_child me Hs.

Lemma moof_enc (me : mode) v : moof_rt_wf v = true -> moof_size v < U32 ->
  wspec (enc_moof v) (moof_size v) (be 4 (moof_size v) ++ be 4 0x6d6f6f66 ++ iso_moof_payload v).
Proof.
  intros H Hs. rewrite <- moof_code. unfold moof_rt_wf in H. split_andb.
  unfold enc_moof, iso_moof_payload.
  eapply wspec_out.
  - wspec_go.
    + moof_child me Hs.
    + apply (wspec_wr_each _ (fun x => iso_box 0x74726166 (iso_traf_payload x))). intros x Hx. eexists.
      match goal with Hf : forallb _ _ = true |- _ => pose proof (forallb_In _ _ _ Hf Hx) end.
      pose proof (sumN_map_In_le traf_size _ _ Hx) as Hle.
      lazymatch goal with |- wspec (enc_traf _) _ _ => apply (cont_rt_wspec _ _ _ _ _ _ _ _ (traf_roundtrip Dbg)) end; [assumption|].
      unfold moof_size in Hs. clear -Hs Hle.
      repeat match type of Hs with context [match ?o with Some _ => _ | None => _ end] => destruct o end; hdr_consts; lia.
  - unfold iso_all. rewrite <- ?app_assoc, ?app_nil_r. reflexivity.
Qed.

Lemma moof_fold_trafs l a0 a1 :
  ci_fold (map moof_i_trafs l) (a0, a1) = (a0, a1 ++ l).
Proof.
  revert a1. induction l as [|x t IH]; intros a1; cbn [map ci_fold fold_left].
  - now rewrite app_nil_r.
  - unfold ci_fold in IH. cbn [moof_i_trafs ci_of ci_upd moof_u_trafs]. rewrite IH, <- app_assoc. reflexivity.
Qed.

Lemma moof_dec v fuel m d l p post : moof_rt_wf v = true -> moof_size v < U32 ->
  (moof_fuel v <= fuel)%nat -> p + moof_size v < 2 ^ 63 ->
  run (dec_moof_fuel fuel m (moof_size v)) (mkStream d l (p + 8) (iso_moof_payload v ++ post))
  = (Ok v, mkStream d l (p + moof_size v) post).
Proof.
  intros H Hs Hf Hp. unfold dec_moof_fuel.
  rewrite (cont_dec_items m _ (moof_size v) (moof_dispatch m) (moof_items v) (iso_moof_payload v));
    [ | now apply moof_items_ok | apply moof_items_iso | apply moof_items_size | exact Hp
      | pose proof (moof_items_fuel v); lia ].
  moof_unfold_items. rewrite !ci_fold_app.
  destruct v as [f_mfhd f_trafs].
  cbn [moof_mfhd moof_trafs] in *.
  moof_unfold_i.
  cbn [ci_fold fold_left ci_opt ci_of ci_upd moof_u_mfhd moof_u_trafs];
    rewrite ?moof_fold_trafs; cbn [ci_fold fold_left ci_opt ci_of ci_upd moof_u_mfhd moof_u_trafs app];
    apply run_cont_finish; (clear -Hp; lia).
Qed.

Theorem moof_roundtrip (me : mode) :
  cont_roundtrip moof_rt_wf moof_size 0x6d6f6f66 enc_moof dec_moof_fuel iso_moof_payload moof_fuel.
Proof.
  apply cont_roundtrip_intro.
  - apply (moof_enc me).
  - apply moof_payload_len.
  - intros; now apply moof_dec.
Qed.


Print Assumptions moof_roundtrip.
