(** Round trip of [HdlrBox] *)
From MP4 Require Import Kit VlKit BoxHdlr IsoHdlr.
From Coq Require Import ZifyN ZifyNat ZifyBool.
Open Scope string_scope.
Open Scope list_scope.
Open Scope N_scope.

Lemma hdlr_code : u32_of_boxtype (box_type_of "HdlrBox") = 0x68646c72.
Proof. vm_compute. reflexivity. Qed.

Lemma hdlr_size_eq v : hdlr_size v = 33 + lenN (hdlr_name v).
Proof. unfold hdlr_size, HEADER_SIZE, HEADER_EXT_SIZE, Tables.HEADER_SIZE, Tables.HEADER_EXT_SIZE. lia. Qed.

Lemma hdlr_enc v : hdlr_wf v = true -> hdlr_size v < U32 ->
  wspec (enc_hdlr v) (hdlr_size v) (be 4 (hdlr_size v) ++ be 4 0x68646c72 ++ iso_hdlr_payload v).
Proof.
  intros H Hs. unfold hdlr_wf in H. split_andb.
  unfold enc_hdlr, iso_hdlr_payload. rewrite <- hdlr_code.
  eapply wspec_out.
  - wspec_go.
  - rewrite <- !app_assoc, ?app_nil_r. reflexivity.
Qed.

Lemma hdlr_payload_len v : lenN (iso_hdlr_payload v) + 8 = hdlr_size v.
Proof.
  rewrite hdlr_size_eq. unfold iso_hdlr_payload.
  rewrite ?lenN_app, ?lenN_be, lenN_cons, lenN_nil. lia.
Qed.

Lemma hdlr_dec m v d l p post : hdlr_wf v = true -> p + hdlr_size v < 2 ^ 63 ->
  run (dec_hdlr m (hdlr_size v)) (mkStream d l (p + 8) (iso_hdlr_payload v ++ post))
  = (Ok v, mkStream d l (p + hdlr_size v) post).
Proof.
  intros H Hp. unfold hdlr_wf in H. split_andb.
  match goal with H : vl_str_ok _ = true |- _ => apply vl_str_ok_inv in H as [Hu Hn] end.
  pose proof (hdlr_size_eq v) as Hsz.
  unfold dec_hdlr, iso_hdlr_payload.
  change (be 4 0 ++ be 4 0 ++ be 4 0) with (repeat 0 12).
  rewrite <- !app_assoc.
  rewrite run_box_start.
  do 4 rd_step.
  prog_norm.
  rewrite (run_SeekRel_app _ 12 (repeat 0 12)) by (first [reflexivity | clear -Hp Hsz; lia]).
  rewrite checked_sub_ok
    by (clear -Hsz; unfold HEADER_SIZE, HEADER_EXT_SIZE, Tables.HEADER_SIZE, Tables.HEADER_EXT_SIZE; lia).
  rewrite (app_assoc (hdlr_name v) [0] post).
  rewrite (run_rd_vec_bind _ (hdlr_name v ++ [0]))
    by (rewrite lenN_app, lenN_cons, lenN_nil; clear -Hsz;
        unfold HEADER_SIZE, HEADER_EXT_SIZE, Tables.HEADER_SIZE, Tables.HEADER_EXT_SIZE; lia).
  rewrite vl_trim_nul_app by exact Hn. rewrite vl_utf8_or_default_ok by exact Hu.
  prog_norm. rewrite run_finish;
    [| clear -Hsz; unfold HEADER_SIZE, HEADER_EXT_SIZE, Tables.HEADER_SIZE, Tables.HEADER_EXT_SIZE; lia
     | clear -Hp; unfold U64; lia].
  f_equal.
  - destruct v; reflexivity.
  - f_equal. clear -Hsz.
    unfold HEADER_SIZE, HEADER_EXT_SIZE, Tables.HEADER_SIZE, Tables.HEADER_EXT_SIZE. lia.
Qed.

Theorem hdlr_roundtrip : leaf_roundtrip hdlr_wf hdlr_size 0x68646c72 enc_hdlr dec_hdlr iso_hdlr_payload.
Proof.
  apply leaf_roundtrip_intro.
  - apply hdlr_enc.
  - intros; apply hdlr_payload_len.
  - intros; now apply hdlr_dec.
Qed.

Print Assumptions hdlr_roundtrip.
