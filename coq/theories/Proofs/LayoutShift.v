(** * Layout invariance (property C12): sample offsets follow the media data

    A layout change moves the media data; the tool that makes the change rewrites the chunk
    offsets (stco / co64 entries) by the displacement.  For a non-fragmented track:
    [sample_offset] of the track with all chunk offsets increased by [delta] is [sample_offset]
    of the original plus [delta]; every other lookup (count, size, time, rendering offset, sync)
    does not look at the chunk offsets; and [read_sample] returns the same sample when the
    bytes it finds at the shifted offset are the same bytes. *)
From MP4 Require Import Kit Reader.
From MP4 Require Track.
From Coq Require Import ZifyN ZifyNat ZifyBool.
Open Scope string_scope.
Open Scope list_scope.
Open Scope N_scope.

Import Track.

Definition shift_tables (delta : N) (tb : tables) : tables :=
  mkTables (t_stsc tb) (t_stsz_size tb) (t_stsz_count tb) (t_stsz_sizes tb)
           (option_map (map (fun o => o + delta)) (t_stco tb))
           (option_map (map (fun o => o + delta)) (t_co64 tb))
           (t_stts tb) (t_ctts tb) (t_stss tb).

Definition shift_track (delta : N) (t : track) : track :=
  mkTrack (tr_id t) (shift_tables delta (tr_tables t)) (tr_frags t) (tr_default_sample_duration t).

Lemma nthN_map {A B} (f : A -> B) l i : nthN (map f l) i = option_map f (nthN l i).
Proof.
  rewrite !nthN_nth_error. revert l. induction (N.to_nat i) as [|n IH]; intros [|x l]; cbn; auto.
Qed.

Lemma chunk_offset_shift delta tb c :
  chunk_offset (shift_tables delta tb) c = res_map (fun o => o + delta) (chunk_offset tb c).
Proof.
  unfold chunk_offset. cbn [shift_tables t_stco t_co64].
  destruct (t_stco tb) as [l|], (t_co64 tb) as [l'|]; cbn [option_map]; try reflexivity;
    destruct (checked_sub c 1) as [i|]; try reflexivity; rewrite nthN_map;
    match goal with |- context [nthN ?x i] => destruct (nthN x i) end; reflexivity.
Qed.

(** the lookups that do not read the chunk offsets *)
Lemma shift_other_lookups m delta t sid :
  sample_count (shift_track delta t) = sample_count t /\
  sample_size (shift_track delta t) sid = sample_size t sid /\
  sample_time m (shift_track delta t) sid = sample_time m t sid /\
  sample_rendering_offset (shift_track delta t) sid = sample_rendering_offset t sid /\
  is_sync_sample (shift_track delta t) sid = is_sync_sample t sid.
Proof. repeat split; reflexivity. Qed.

(** the offset of a sample moves with the chunk offsets *)
Theorem sample_offset_shift m delta t sid o :
  tr_frags t = [] -> sample_offset m t sid = Ok o -> o + delta < U64 ->
  sample_offset m (shift_track delta t) sid = Ok (o + delta).
Proof.
  intros Hf H Ho. unfold sample_offset in *. cbn [shift_track tr_frags tr_tables]. rewrite Hf in *.
  cbv zeta in *.
  change (stsc_index (shift_tables delta (tr_tables t)) sid) with (stsc_index (tr_tables t) sid).
  destruct (stsc_index (tr_tables t) sid) as [idx| | |]; try discriminate H. cbn [res_bind] in *.
  change (t_stsc (shift_tables delta (tr_tables t))) with (t_stsc (tr_tables t)).
  destruct (nthN (t_stsc (tr_tables t)) idx) as [e|]; try discriminate H.
  destruct (sc_samples_per_chunk e =? 0); try discriminate H.
  destruct (checked_sub sid (sc_first_sample e)) as [dd|]; try discriminate H.
  destruct (checked_add U32 (dd / sc_samples_per_chunk e) (sc_first_chunk e)) as [chunk_id|]; try discriminate H.
  rewrite chunk_offset_shift.
  destruct (chunk_offset (tr_tables t) chunk_id) as [coff| | |]; try discriminate H.
  cbn [res_map res_bind] in *.
  destruct (sub_w m U32 "sample_id - first_sample" sid (sc_first_sample e)) as [d'| | |]; try discriminate H.
  cbn [res_bind] in *.
  destruct (sub_w m U32 "sample_id - rem" sid (d' mod sc_samples_per_chunk e)) as [fsic| | |]; try discriminate H.
  cbn [res_bind] in *.
  change (t_stsz_size (shift_tables delta (tr_tables t))) with (t_stsz_size (tr_tables t)).
  change (t_stsz_sizes (shift_tables delta (tr_tables t))) with (t_stsz_sizes (tr_tables t)).
  match type of H with
  | res_bind ?X _ = _ => destruct X as [inchunk| | |]; try discriminate H
  end.
  cbn [res_bind] in *.
  unfold checked_add in *.
  destruct (N.ltb_spec (coff + inchunk) U64) as [L|L]; try discriminate H.
  inversion H; subst o.
  destruct (N.ltb_spec (coff + delta + inchunk) U64) as [L'|L']; [|exfalso; clear -Ho L'; lia].
  f_equal. clear. lia.
Qed.

(** [read_sample] on the shifted track, in a file where the sample's bytes sit [delta] further:
    the same sample *)
Theorem read_sample_shift m delta t sid s s' o sz h :
  tr_frags t = [] -> stream_wf s -> stream_wf s' ->
  sample_offset m t sid = Ok o -> o + delta < U64 ->
  sample_size t sid = Ok sz ->
  (* the [sz] bytes at [o] in the first file are the [sz] bytes at [o + delta] in the second *)
  (sz = 0 \/ (exists r, splitN sz (dropN o (s_data s)) = Some (h, r)) /\
             (exists r', splitN sz (dropN (o + delta) (s_data s')) = Some (h, r'))) ->
  fst (run (read_sample m t sid) s) = fst (run (read_sample m (shift_track delta t) sid) s').
Proof.
  intros Hf Hs Hs' Hoff Ho Hsz Hbytes.
  unfold read_sample.
  rewrite (sample_offset_shift m delta t sid o Hf Hoff Ho), Hoff.
  change (sample_size (shift_track delta t) sid) with (sample_size t sid). rewrite Hsz.
  change (sample_time m (shift_track delta t) sid) with (sample_time m t sid).
  change (is_sync_sample (shift_track delta t) sid) with (is_sync_sample t sid).
  change (sample_rendering_offset (shift_track delta t) sid) with (sample_rendering_offset t sid).
  unfold seek_to, rd_exact, alloc. cbn [bind run].
  pose proof (seek_abs_wf s o Hs) as [_ V]. pose proof (seek_abs_wf s' (o + delta) Hs') as [_ V'].
  assert (D : s_data (seek_abs s o) = s_data s) by (unfold seek_abs; destruct (s_pos s <=? o); reflexivity).
  assert (D' : s_data (seek_abs s' (o + delta)) = s_data s')
    by (unfold seek_abs; destruct (s_pos s' <=? o + delta); reflexivity).
  assert (P : s_pos (seek_abs s o) = o) by (unfold seek_abs; destruct (s_pos s <=? o); reflexivity).
  assert (P' : s_pos (seek_abs s' (o + delta)) = o + delta)
    by (unfold seek_abs; destruct (s_pos s' <=? o + delta); reflexivity).
  rewrite V, V', D, D', P, P'.
  destruct (N.eqb_spec sz 0) as [Z|NZ].
  - destruct (sample_time m t sid) as [[st du]| | |]; cbn [lift bind run fst]; try reflexivity.
    destruct (is_sync_sample t sid); reflexivity.
  - destruct Hbytes as [Z|[[r E] [r' E']]]; [contradiction|]. rewrite E, E'.
    destruct (sample_time m t sid) as [[st du]| | |]; cbn [lift bind run fst]; try reflexivity.
    destruct (is_sync_sample t sid); reflexivity.
Qed.

(** the view of a parsed track: shifting the stco/co64 entries of its stbl shifts the tables *)
Definition shift_stbl (delta : N) (s : stbl) : stbl :=
  mkStbl (stbl_stsd s) (stbl_stts s) (stbl_ctts s) (stbl_stss s) (stbl_stsc s) (stbl_stsz s)
         (option_map (fun c => mkStco (stco_version c) (stco_flags c) (map (fun o => o + delta) (stco_entries c)))
                     (stbl_stco s))
         (option_map (fun c => mkCo64 (co64_version c) (co64_flags c) (map (fun o => o + delta) (co64_entries c)))
                     (stbl_co64 s)).

Lemma stbl_tables_shift delta s : stbl_tables (shift_stbl delta s) = shift_tables delta (stbl_tables s).
Proof.
  unfold stbl_tables, shift_tables, shift_stbl. cbn.
  destruct (stbl_stco s), (stbl_co64 s); reflexivity.
Qed.

Definition shift_trak (delta : N) (t : trak) : trak :=
  let md := trak_mdia t in let mi := mdia_minf md in
  mkTrak (trak_tkhd t) (trak_edts t) (trak_meta t)
         (mkMdia (mdia_mdhd md) (mdia_hdlr md)
                 (mkMinf (minf_vmhd mi) (minf_smhd mi) (minf_dinf mi) (shift_stbl delta (minf_stbl mi)))).

(** the lookup view of the track the reader builds from a trak with shifted chunk offsets *)
Lemma track_view_shift delta t :
  track_view (mp4track_from (shift_trak delta t)) = shift_track delta (track_view (mp4track_from t)).
Proof.
  unfold track_view, mp4track_from, shift_trak, shift_track. cbn. now rewrite stbl_tables_shift.
Qed.
