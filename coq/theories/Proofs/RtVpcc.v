(** Round trip of [VpccBox] *)
From MP4 Require Import Kit VlKit BoxVpcc IsoVpcc.
From Coq Require Import ZifyN ZifyNat ZifyBool.
Open Scope string_scope.
Open Scope list_scope.
Open Scope N_scope.

Lemma vpcc_code : u32_of_boxtype (box_type_of "VpccBox") = 0x76706343.
Proof. vm_compute. reflexivity. Qed.

(** the packed byte: all 16 * 8 * 2 cases by computation *)
Definition vpcc_byte (bd cs : N) (f : bool) : N := bd * 16 + cs * 2 + (if f then 1 else 0).

Definition vpcc_chk (bd cs : N) (f : bool) : bool :=
  let b := vpcc_byte bd cs f in
  (N.lor (N.lor (cast_w U8 (N.shiftl bd 4)) (cast_w U8 (N.shiftl cs 1))) (if f then 1 else 0) =? b)
  && (b <? 256)
  && (N.shiftr b 4 =? bd)
  && (N.shiftr (cast_w U8 (N.shiftl b 4)) 5 =? cs)
  && Bool.eqb (N.land b 1 =? 1) f.

Lemma vpcc_chk_all :
  forallb (fun bd => forallb (fun cs => vpcc_chk bd cs true && vpcc_chk bd cs false)
                             (map N.of_nat (seq 0 8)))
          (map N.of_nat (seq 0 16)) = true.
Proof. vm_compute. reflexivity. Qed.

Lemma in_range_list x n : x < N.of_nat n -> In x (map N.of_nat (seq 0 n)).
Proof.
  intros H. replace x with (N.of_nat (N.to_nat x)) by lia.
  apply in_map, in_seq. lia.
Qed.

Lemma vpcc_bits bd cs f : bd < 16 -> cs < 8 -> vpcc_chk bd cs f = true.
Proof.
  intros Hb Hc. pose proof vpcc_chk_all as H.
  rewrite forallb_forall in H. specialize (H bd (in_range_list bd 16 Hb)).
  rewrite forallb_forall in H. specialize (H cs (in_range_list cs 8 Hc)).
  apply andb_true_iff in H as [H1 H2]. now destruct f.
Qed.

Lemma vpcc_size_eq v : vpcc_size v = 20.
Proof. reflexivity. Qed.

Lemma vpcc_enc v : vpcc_wf v = true -> vpcc_size v < U32 ->
  wspec (enc_vpcc v) (vpcc_size v) (be 4 (vpcc_size v) ++ be 4 0x76706343 ++ iso_vpcc_payload v).
Proof.
  intros H Hs. unfold vpcc_wf in H. split_andb.
  repeat match goal with H : (_ <? _) = true |- _ => apply N.ltb_lt in H end.
  unfold enc_vpcc, iso_vpcc_payload. rewrite <- vpcc_code.
  match goal with Hb : vpcc_bit_depth v < 16, Hc : vpcc_chroma_subsampling v < 8 |- _ =>
    pose proof (vpcc_bits _ _ (vpcc_video_full_range_flag v) Hb Hc) as Hk end.
  unfold vpcc_chk in Hk. split_andb.
  match goal with H : (N.lor _ _ =? _) = true |- _ => apply N.eqb_eq in H; unfold vpcc_byte in H end.
  eapply wspec_out.
  - wspec_go.
  - unfold vpcc_packed.
    match goal with H : N.lor _ _ = _ |- _ => rewrite H end.
    rewrite <- !app_assoc, ?app_nil_r. reflexivity.
Qed.

Lemma vpcc_payload_len v : lenN (iso_vpcc_payload v) + 8 = vpcc_size v.
Proof. unfold iso_vpcc_payload. rewrite ?lenN_app, ?lenN_be. reflexivity. Qed.

Lemma vpcc_dec m v d l p post : vpcc_wf v = true -> p + vpcc_size v < 2 ^ 63 ->
  run (dec_vpcc m (vpcc_size v)) (mkStream d l (p + 8) (iso_vpcc_payload v ++ post))
  = (Ok v, mkStream d l (p + vpcc_size v) post).
Proof.
  intros H Hp. unfold vpcc_wf in H. split_andb.
  repeat match goal with H : (_ <? _) = true |- _ => apply N.ltb_lt in H end.
  match goal with Hb : vpcc_bit_depth v < 16, Hc : vpcc_chroma_subsampling v < 8 |- _ =>
    pose proof (vpcc_bits _ _ (vpcc_video_full_range_flag v) Hb Hc) as Hk end.
  unfold vpcc_chk in Hk. fold (vpcc_byte (vpcc_bit_depth v) (vpcc_chroma_subsampling v) (vpcc_video_full_range_flag v)) in *.
  cbv zeta in Hk. split_andb.
  repeat match goal with H : (_ =? _) = true |- _ => apply N.eqb_eq in H end.
  match goal with H : (vpcc_byte _ _ _ <? 256) = true |- _ =>
    apply N.ltb_lt in H; rewrite <- pow256_1 in H end.
  match goal with H : Bool.eqb _ _ = true |- _ => apply Bool.eqb_prop in H end.
  rewrite vpcc_size_eq in *.
  unfold dec_vpcc, iso_vpcc_payload.
  fold (vpcc_byte (vpcc_bit_depth v) (vpcc_chroma_subsampling v) (vpcc_video_full_range_flag v)).
  rewrite <- !app_assoc.
  rewrite run_box_start.
  do 9 rd_step.
  prog_norm. rewrite run_finish; [| clear; lia | clear -Hp; unfold U64; lia].
  f_equal.
  - f_equal.
    repeat match goal with H : _ = _ |- _ => rewrite H; clear H end.
    destruct v; reflexivity.
  - f_equal. clear. lia.
Qed.

Theorem vpcc_roundtrip : leaf_roundtrip vpcc_wf vpcc_size 0x76706343 enc_vpcc dec_vpcc iso_vpcc_payload.
Proof.
  apply leaf_roundtrip_intro.
  - apply vpcc_enc.
  - intros; apply vpcc_payload_len.
  - intros; now apply vpcc_dec.
Qed.

Print Assumptions vpcc_roundtrip.
