(** * The independent ISO parser on rendered boxes — stage 4: [iso_file] on ftyp / mdat / moov

    [iso_file] ([Iso/IsoFile.v]) on the rendering of three top-level children — ftyp, mdat (either header
    form), and a moov whose payload is [iso_moov_payload mv] for a well-formed [mv] ([moov_rt_wf]) every
    track of which has exactly one sample entry — returns the header fields of [mv] and, per track, the
    [itrack] of stage 3. *)
From MP4 Require Import IsoFile LayoutKit IsoCont IsoParse1 IsoParse2 IsoParse3 MuxMoovDefs MuxMoovTables.
From MP4 Require Import RtStbl RtMinf RtMdia RtTrak RtMoov.
From MP4 Require Import IsoTrak IsoMoov IsoMvex IsoUdta IsoMetaBox.
From Coq Require Import Lia ZArith NArith List Bool ZifyN ZifyNat ZifyBool.
Import ListNotations.
Open Scope list_scope.
Open Scope N_scope.

(** ** The children of moov *)
Definition trak_child (x : trak) : child := ch 0x7472616b (iso_trak_payload x).

Definition moov_children (v : moov) : list child :=
  [ch 0x6d766864 (iso_mvhd_payload (moov_mvhd v))]
  ++ map trak_child (moov_traks v)
  ++ optc 0x6d766578 iso_mvex_payload (moov_mvex v)
  ++ optc 0x6d657461 iso_meta_payload (moov_meta v)
  ++ optc 0x75647461 iso_udta_payload (moov_udta v).

Lemma iso_all_render l : iso_all (fun x => iso_box 0x7472616b (iso_trak_payload x)) l = render (map trak_child l).
Proof.
  unfold iso_all, render. induction l as [|x t IH]; [reflexivity|].
  cbn [flat_map map]. rewrite IH. unfold trak_child. now rewrite <- iso_box_ch.
Qed.

Lemma iso_moov_payload_render v : iso_moov_payload v = render (moov_children v).
Proof.
  unfold iso_moov_payload, moov_children.
  rewrite !render_app, <- !iso_opt_render, <- iso_all_render, !render_one, <- !iso_box_ch. reflexivity.
Qed.

Lemma moov_children_small v : Forall small_child (moov_children v).
Proof.
  unfold moov_children. small_go.
  apply Forall_forall. intros c Hin. apply in_map_iff in Hin as (x & <- & _). apply small_ch. vm_compute. reflexivity.
Qed.

Lemma find_all_traks t l : forall off,
  find_all t (iboxes_of off (map trak_child l)) = if 0x7472616b =? t then iboxes_of off (map trak_child l) else [].
Proof.
  destruct (0x7472616b =? t) eqn:E; intros off.
  - apply find_all_all. apply forallb_forall. intros c Hin. apply in_map_iff in Hin as (x & <- & _). exact E.
  - apply find_all_none. apply forallb_forall. intros c Hin. apply in_map_iff in Hin as (x & <- & _).
    cbn [c_code trak_child ch]. now rewrite E.
Qed.

Lemma moov_finds off v :
  let bs := iboxes_of off (moov_children v) in
  (exists o, find_one MVHD bs = Some (ibox_of o (ch 0x6d766864 (iso_mvhd_payload (moov_mvhd v))))) /\
  (exists o, find_all TRAK bs = iboxes_of o (map trak_child (moov_traks v))).
Proof.
  intros bs. unfold bs, moov_children. rewrite !iboxes_of_app.
  repeat apply conj; unfold find_one;
    rewrite !find_all_app, ?find_all_optc, ?find_all_single, ?find_all_traks;
    unfold MVHD, TRAK; eqb_closed; cbv iota; cbn [app]; rewrite ?app_nil_r; eexists; reflexivity.
Qed.

(** ** The tracks *)
Definition trak_entry (tk : trak) : option (N * bytes) :=
  stsd_entry (stbl_stsd (minf_stbl (mdia_minf (trak_mdia tk)))).

Definition itrack_opt (tk : trak) : itrack :=
  let e := match trak_entry tk with Some e => e | None => (0, []) end in
  itrack_of tk (fst e) (snd e).

Definition trak_ok (tk : trak) : Prop :=
  trak_rt_wf tk = true /\ trak_entry tk <> None /\ lenN (iso_trak_payload tk) + 8 < U32.

Lemma all_some_traks l : forall o, Forall trak_ok l ->
  all_some (map parse_trak (iboxes_of o (map trak_child l))) = Some (map itrack_opt l).
Proof.
  induction l as [|tk t IH]; intros o Hf; [reflexivity|].
  inversion Hf as [|? ? (Hw & He & Hl) Ht]; subst.
  cbn [map iboxes_of all_some].
  destruct (trak_entry tk) as [[code p]|] eqn:E; [|congruence].
  rewrite (parse_trak_iso o (trak_child tk) tk code p eq_refl Hw E Hl).
  rewrite (IH _ Ht). unfold itrack_opt at 2. rewrite E. reflexivity.
Qed.

(** ** [iso_file] *)
Theorem iso_file_iso base c1 c2 c3 mv :
  c_code c1 = FTYP -> c_code c2 = MDAT -> c_code c3 = MOOV ->
  c_payload c3 = iso_moov_payload mv ->
  Forall child_wf [c1; c2; c3] ->
  lenN (iso_moov_payload mv) + 8 < U32 ->
  moov_rt_wf mv = true ->
  Forall (fun tk => trak_entry tk <> None) (moov_traks mv) ->
  iso_file base (render [c1; c2; c3]) =
    Some (mkIfile (ibox_of base c1) [ibox_of (base + c_len c1) c2]
                  (mvhd_version (moov_mvhd mv)) (mvhd_timescale (moov_mvhd mv)) (mvhd_duration (moov_mvhd mv))
                  (map itrack_opt (moov_traks mv))
                  (iboxes_of base [c1; c2; c3])).
Proof.
  intros T1 T2 T3 Hp Hwf Hlen Hmv Hent.
  unfold moov_rt_wf in Hmv. sp.
  rewrite iso_moov_payload_render in Hp, Hlen. rewrite lenN_render in Hlen.
  pose proof (small_children_wf _ (moov_children_small mv) Hlen) as W.
  unfold iso_file. rewrite (iso_parse_render _ base Hwf). cbn [opt_bind iboxes_of].
  cbn [ib_type ibox_of]. rewrite T1, N.eqb_refl. cbn [opt_bind].
  assert (F3 : find_one MOOV [ibox_of base c1; ibox_of (base + c_len c1) c2; ibox_of (base + c_len c1 + c_len c2) c3]
               = Some (ibox_of (base + c_len c1 + c_len c2) c3)).
  { unfold find_one, find_all. cbn [filter ib_type ibox_of]. rewrite T1, T2, T3. reflexivity. }
  assert (F2 : find_all MDAT [ibox_of base c1; ibox_of (base + c_len c1) c2; ibox_of (base + c_len c1 + c_len c2) c3]
               = [ibox_of (base + c_len c1) c2]).
  { unfold find_all. cbn [filter ib_type ibox_of]. rewrite T1, T2, T3. reflexivity. }
  rewrite F3, F2. cbn [opt_bind].
  rewrite (children_render _ c3 _ Hp W). cbn [opt_bind].
  destruct (moov_finds (base + c_len c1 + c_len c2 + c_hlen c3) mv) as ((o1 & M1) & (o2 & M2)).
  rewrite M1, M2. cbn [opt_bind]. cbn [ib_payload ibox_of c_payload ch].
  match goal with H : mvhd_wf _ = true |- _ => destruct (mvhd_fields _ H) as (A1 & A2 & A3 & A4) end.
  rewrite A1. cbn [opt_bind]. rewrite A2. cbn [opt_bind]. rewrite A3. cbn [opt_bind].
  rewrite A4, N.eqb_refl. cbn [opt_bind].
  rewrite all_some_traks; [reflexivity|].
  apply Forall_forall. intros tk Hin.
  match goal with H : forallb trak_rt_wf _ = true |- _ => rewrite forallb_forall in H; pose proof (H tk Hin) as Hw end.
  rewrite Forall_forall in Hent. split; [exact Hw|]. split; [exact (Hent tk Hin)|].
  pose proof (sub_len (moov_children mv) 0x7472616b (iso_trak_payload tk)) as H'.
  unfold moov_children at 1 in H'.
  assert (Hi : In (ch 0x7472616b (iso_trak_payload tk))
                  ([ch 0x6d766864 (iso_mvhd_payload (moov_mvhd mv))] ++ map trak_child (moov_traks mv) ++
                   optc 0x6d766578 iso_mvex_payload (moov_mvex mv) ++ optc 0x6d657461 iso_meta_payload (moov_meta mv) ++
                   optc 0x75647461 iso_udta_payload (moov_udta mv))).
  { rewrite !in_app_iff. right. left. apply in_map_iff. exists tk. split; [reflexivity | exact Hin]. }
  specialize (H' Hi Hlen). clear -H'. lia.
Qed.

Print Assumptions iso_file_iso.
