(** Round trip of the descriptors of mp4a.rs, of [EsdsBox] and of [Mp4aBox] *)
From MP4 Require Import KitCodecs BoxMp4a IsoMp4a.
From Coq Require Import ZifyN ZifyNat ZifyBool.
Open Scope string_scope.
Open Scope list_scope.
Open Scope N_scope.

(** The statement proved for every descriptor: what [leaf_roundtrip] says for a box, with the
    tag and length prefix in the place of the box header (the decoder is entered after
    [read_desc], as in the Rust code). *)
Definition desc_roundtrip {X} (wf : X -> bool) (tag size : N)
           (enc : X -> wprog N) (dec : mode -> N -> prog X) (iso : X -> bytes) : Prop :=
  forall v, wf v = true ->
    wfin (enc v) = Ok size /\ appender (enc v)
    /\ wout (enc v) = iso v
    /\ lenN (iso v) = 1 + size_of_length size + size
    /\ forall m d l p post, p + lenN (iso v) < 2 ^ 63 ->
         run (h <- read_desc ;; x <- dec m (snd h) ;; Ret (fst h, x)) (mkStream d l p (iso v ++ post))
         = (Ok (tag, v), mkStream d l (p + lenN (iso v)) post).

(** ** tag and length prefix, for lengths below 128 *)
Lemma desc_land128 x : x < 128 -> N.land x 128 = 0.
Proof. apply (eqb_of_forall_below (fun x => N.land x 128) (fun _ => 0) 128). vm_compute. reflexivity. Qed.
Lemma desc_len_val x : x < 128 -> N.lor (cast_w U32 (N.shiftl 0 7)) (N.land x 127) = x.
Proof. apply (eqb_of_forall_below (fun x => N.lor (cast_w U32 (N.shiftl 0 7)) (N.land x 127)) (fun x => x) 128).
  vm_compute. reflexivity. Qed.
Lemma desc_len_byte x : x < 128 -> N.land (cast_w U8 (N.shiftr x ((1 - 0 - 1) * 7))) 127 = x.
Proof. apply (eqb_of_forall_below (fun x => N.land (cast_w U8 (N.shiftr x ((1 - 0 - 1) * 7))) 127) (fun x => x) 128).
  vm_compute. reflexivity. Qed.

Lemma run_read_desc_small {A} tag size rest (k : N * N -> prog A) d l p :
  tag < 256 -> size < 128 ->
  run (bind read_desc k) (mkStream d l p (be 1 tag ++ be 1 size ++ rest))
  = run (k (tag, size)) (mkStream d l (p + 2) rest).
Proof.
  intros Ht Hs.
  assert (Ht' : tag < 256 ^ N.of_nat 1) by (rewrite pow256_1; exact Ht).
  assert (Hs' : size < 256 ^ N.of_nat 1) by (rewrite pow256_1; clear -Hs; lia).
  unfold read_desc. rd_step. cbn [read_desc_len]. rd_step.
  rewrite desc_land128, desc_len_val by exact Hs. cbn [N.eqb bind].
  f_equal. f_equal. lia.
Qed.

Lemma size_of_length_small size : size < 128 -> size_of_length size = 1.
Proof.
  intros H. unfold size_of_length.
  replace (size <=? 127) with true by (symmetry; apply N.leb_le; clear -H; lia). reflexivity.
Qed.

Lemma write_desc_small tag size : size < 128 ->
  write_desc tag size = WrAll (be 1 tag) (WrAll (be 1 size) (WRet 2)).
Proof.
  intros H. unfold write_desc.
  replace (U32 - 1 <? size) with false by (symmetry; apply N.ltb_ge; clear -H; unfold U32; lia).
  rewrite size_of_length_small by exact H.
  change (N.to_nat 1) with 1%nat. cbn [write_desc_len]. cbv zeta.
  change (0 <? 1 - 1) with false. cbv iota.
  rewrite desc_len_byte by exact H. reflexivity.
Qed.

(** ** SLConfigDescriptor *)
Definition slconfig_bytes : bytes := be 1 6 ++ be 1 1 ++ be 1 2.

Lemma slconfig_iso v : iso_slconfig v = slconfig_bytes.
Proof. reflexivity. Qed.

Lemma slconfig_enc v :
  wfin (enc_slconfig v) = Ok 1 /\ appender (enc_slconfig v) /\ wout (enc_slconfig v) = slconfig_bytes.
Proof.
  unfold enc_slconfig, slconfig_desc_tag, slconfig_desc_size.
  rewrite write_desc_small by (clear; lia). enc_norm. cbn [appender].
  split; [reflexivity|]. split; [exact I|]. reflexivity.
Qed.

Lemma slconfig_dec {B} sz (k : slconfig -> prog B) d l p rest :
  run (bind (dec_slconfig sz) k) (mkStream d l p (be 1 2 ++ rest))
  = run (k mkSlConfig) (mkStream d l (p + 1) rest).
Proof. unfold dec_slconfig. rd_step. reflexivity. Qed.

Theorem slconfig_roundtrip :
  desc_roundtrip slconfig_wf 6 1 enc_slconfig (fun _ => dec_slconfig) iso_slconfig.
Proof.
  intros v _. destruct (slconfig_enc v) as (H1 & H2 & H3).
  split; [exact H1|]. split; [exact H2|]. split; [rewrite slconfig_iso; exact H3|].
  split; [reflexivity|].
  intros m d l p post Hp. rewrite slconfig_iso. unfold slconfig_bytes.
  rewrite <- !app_assoc.
  rewrite run_read_desc_small by (clear; lia). cbn [fst snd].
  rewrite slconfig_dec. cbn [run bind].
  destruct v. change (lenN (be 1 6 ++ be 1 1 ++ be 1 2)) with 3. f_equal. f_equal. clear. lia.
Qed.

(** ** DecoderSpecificDescriptor *)
Definition decspecific_a (p f : N) : N := p * 8 + f / 2.
Definition decspecific_b (f c : N) : N := (f mod 2) * 128 + c * 8.

Definition decspecific_body (v : decspecific) : bytes :=
  be 1 (decspecific_a (decspecific_profile v) (decspecific_freq_index v)) ++
  be 1 (decspecific_b (decspecific_freq_index v) (decspecific_chan_conf v)).
Definition decspecific_bytes (v : decspecific) : bytes :=
  be 1 5 ++ be 1 2 ++ decspecific_body v.

Lemma decspecific_enc_a p f : p < 31 -> f < 15 ->
  cast_w U8 (N.shiftl p 3) + N.shiftr f 1 = decspecific_a p f.
Proof. apply (eqb_of_forall_below2 (fun p f => cast_w U8 (N.shiftl p 3) + N.shiftr f 1) decspecific_a 31 15).
  vm_compute. reflexivity. Qed.
Lemma decspecific_enc_b f c : f < 15 -> c < 16 ->
  cast_w U8 (N.shiftl f 7) + cast_w U8 (N.shiftl c 3) = decspecific_b f c.
Proof. apply (eqb_of_forall_below2 (fun f c => cast_w U8 (N.shiftl f 7) + cast_w U8 (N.shiftl c 3)) decspecific_b 15 16).
  vm_compute. reflexivity. Qed.
Lemma decspecific_a_lt p f : p < 31 -> f < 15 -> decspecific_a p f < 256.
Proof. unfold decspecific_a. lia. Qed.
Lemma decspecific_b_lt f c : f < 15 -> c < 16 -> decspecific_b f c < 256.
Proof. unfold decspecific_b. lia. Qed.

Lemma decspecific_dec_aot p f c : p < 31 -> f < 15 -> c < 16 ->
  get_audio_object_type (decspecific_a p f) (decspecific_b f c) = p.
Proof. apply (eqb_of_forall_below3 (fun p f c => get_audio_object_type (decspecific_a p f) (decspecific_b f c))
                (fun p _ _ => p) 31 15 16). vm_compute. reflexivity. Qed.
Lemma decspecific_dec_freq p f c : p < 31 -> f < 15 -> c < 16 ->
  cast_w U8 (N.shiftl (N.land (decspecific_a p f) 7) 1) + N.shiftr (decspecific_b f c) 7 = f.
Proof. apply (eqb_of_forall_below3
                (fun p f c => cast_w U8 (N.shiftl (N.land (decspecific_a p f) 7) 1) + N.shiftr (decspecific_b f c) 7)
                (fun _ f _ => f) 31 15 16). vm_compute. reflexivity. Qed.
Lemma decspecific_dec_chan f c : f < 15 -> c < 16 ->
  N.land (N.shiftr (decspecific_b f c) 3) 15 = c.
Proof. apply (eqb_of_forall_below2 (fun f c => N.land (N.shiftr (decspecific_b f c) 3) 15) (fun _ c => c) 15 16).
  vm_compute. reflexivity. Qed.

Ltac decspecific_bounds H :=
  unfold decspecific_wf in H; split_andb;
  repeat match goal with H : (_ <? _) = true |- _ => apply N.ltb_lt in H end.

Lemma decspecific_iso v : decspecific_wf v = true -> iso_decspecific v = decspecific_bytes v.
Proof.
  intros H. decspecific_bounds H.
  unfold iso_decspecific, iso_descriptor, iso_audio_specific_config, decspecific_bytes, decspecific_body.
  rewrite lenN_be.
  replace (decspecific_profile v * 2048 + decspecific_freq_index v * 128 + decspecific_chan_conf v * 8)
    with (decspecific_a (decspecific_profile v) (decspecific_freq_index v) * 256
          + decspecific_b (decspecific_freq_index v) (decspecific_chan_conf v))
    by (unfold decspecific_a, decspecific_b; lia).
  rewrite be_2_split by (first [apply decspecific_a_lt | apply decspecific_b_lt]; assumption).
  reflexivity.
Qed.

Lemma decspecific_bytes_len v : lenN (decspecific_bytes v) = 4.
Proof. unfold decspecific_bytes, decspecific_body. rewrite !lenN_app, !lenN_be. reflexivity. Qed.

Lemma decspecific_enc m v : decspecific_wf v = true ->
  wfin (enc_decspecific m v) = Ok 2 /\ appender (enc_decspecific m v)
  /\ wout (enc_decspecific m v) = decspecific_bytes v.
Proof.
  intros H. decspecific_bounds H.
  unfold enc_decspecific, decspecific_desc_tag, decspecific_desc_size, decspecific_bytes, decspecific_body.
  rewrite write_desc_small by (clear; lia). cbn [wbind].
  rewrite wadd8_ok by (rewrite decspecific_enc_a by assumption; apply decspecific_a_lt; assumption).
  cbn [wbind wr wr_u8 wr_u].
  rewrite wadd8_ok by (rewrite decspecific_enc_b by assumption; apply decspecific_b_lt; assumption).
  rewrite decspecific_enc_a, decspecific_enc_b by assumption.
  enc_norm. cbn [appender].
  split; [reflexivity|]. split; [exact I|]. rewrite app_nil_r. reflexivity.
Qed.

Lemma decspecific_dec {B} v sz (k : decspecific -> prog B) d l p rest : decspecific_wf v = true ->
  run (bind (dec_decspecific sz) k) (mkStream d l p (decspecific_body v ++ rest))
  = run (k v) (mkStream d l (p + 2) rest).
Proof.
  intros H. decspecific_bounds H.
  match goal with Hp : decspecific_profile v < 31, Hf : decspecific_freq_index v < 15,
                  Hc : decspecific_chan_conf v < 16 |- _ =>
    pose proof (decspecific_a_lt _ _ Hp Hf) as Ba; pose proof (decspecific_b_lt _ _ Hf Hc) as Bb;
    pose proof (decspecific_dec_aot _ _ _ Hp Hf Hc) as E1;
    pose proof (decspecific_dec_freq _ _ _ Hp Hf Hc) as E2;
    pose proof (decspecific_dec_chan _ _ Hf Hc) as E3
  end.
  rewrite <- pow256_1 in Ba, Bb.
  unfold dec_decspecific, decspecific_body. rewrite <- !app_assoc.
  do 2 rd_step. cbv zeta. rewrite E1.
  replace (31 <? decspecific_profile v) with false by (symmetry; apply N.ltb_ge; lia).
  cbv iota. rewrite E2. unfold get_chan_conf.
  replace (decspecific_freq_index v =? 15) with false by (symmetry; apply N.eqb_neq; lia).
  cbv iota. rewrite E3. cbn [bind].
  f_equal; [f_equal; destruct v; reflexivity | f_equal; clear; lia].
Qed.

Theorem decspecific_roundtrip m0 :
  desc_roundtrip decspecific_wf 5 2 (enc_decspecific m0) (fun _ => dec_decspecific) iso_decspecific.
Proof.
  intros v H. destruct (decspecific_enc m0 v H) as (H1 & H2 & H3).
  rewrite (decspecific_iso v H).
  split; [exact H1|]. split; [exact H2|]. split; [exact H3|].
  split; [apply decspecific_bytes_len|].
  intros m d l p post Hp. rewrite decspecific_bytes_len. unfold decspecific_bytes.
  rewrite <- !app_assoc.
  rewrite run_read_desc_small by (clear; lia). cbn [fst snd].
  rewrite (decspecific_dec v) by exact H. cbn [run bind].
  f_equal. f_equal. clear. lia.
Qed.

(** ** DecoderConfigDescriptor *)
Definition decconfig_b (st u : N) : N := st * 4 + (u / 2) * 2 + 1.

Definition decconfig_body (v : decconfig) : bytes :=
  be 1 (decconfig_object_type_indication v) ++
  be 1 (decconfig_b (decconfig_stream_type v) (decconfig_up_stream v)) ++
  be 3 (decconfig_buffer_size_db v) ++
  be 4 (decconfig_max_bitrate v) ++
  be 4 (decconfig_avg_bitrate v) ++
  decspecific_bytes (decconfig_dec_specific v).
Definition decconfig_bytes (v : decconfig) : bytes := be 1 4 ++ be 1 17 ++ decconfig_body v.

Lemma decconfig_enc_b st u : st < 64 -> u < 3 -> u <> 1 ->
  cast_w U8 (N.shiftl st 2) + N.land u 2 + 1 = decconfig_b st u.
Proof.
  intros Hs Hu Hn.
  pose proof (forall_below2 (fun st u => (u =? 1) || (cast_w U8 (N.shiftl st 2) + N.land u 2 + 1 =? decconfig_b st u)) 64 3) as P.
  specialize (P ltac:(vm_compute; reflexivity) st u Hs Hu). cbv beta in P.
  apply orb_true_iff in P as [P|P]; [apply N.eqb_eq in P; contradiction | now apply N.eqb_eq in P].
Qed.
Lemma decconfig_dec_st st u : st < 64 -> u < 3 -> u <> 1 ->
  N.shiftr (N.land (decconfig_b st u) 252) 2 = st.
Proof.
  intros Hs Hu Hn.
  pose proof (forall_below2 (fun st u => (u =? 1) || (N.shiftr (N.land (decconfig_b st u) 252) 2 =? st)) 64 3) as P.
  specialize (P ltac:(vm_compute; reflexivity) st u Hs Hu). cbv beta in P.
  apply orb_true_iff in P as [P|P]; [apply N.eqb_eq in P; contradiction | now apply N.eqb_eq in P].
Qed.
Lemma decconfig_dec_up st u : st < 64 -> u < 3 -> u <> 1 ->
  N.land (decconfig_b st u) 2 = u.
Proof.
  intros Hs Hu Hn.
  pose proof (forall_below2 (fun st u => (u =? 1) || (N.land (decconfig_b st u) 2 =? u)) 64 3) as P.
  specialize (P ltac:(vm_compute; reflexivity) st u Hs Hu). cbv beta in P.
  apply orb_true_iff in P as [P|P]; [apply N.eqb_eq in P; contradiction | now apply N.eqb_eq in P].
Qed.
Lemma decconfig_b_lt st u : st < 64 -> u < 3 -> decconfig_b st u < 256.
Proof. unfold decconfig_b. lia. Qed.

Lemma decconfig_up_cases u : (u =? 0) || (u =? 2) = true -> u < 3 /\ u <> 1.
Proof. intros H. apply orb_true_iff in H as [H|H]; apply N.eqb_eq in H; lia. Qed.

Ltac decconfig_bounds H :=
  unfold decconfig_wf in H; split_andb;
  repeat match goal with
         | H : (_ <? _) = true |- _ => apply N.ltb_lt in H
         | H : (_ =? 0) || (_ =? 2) = true |- _ => apply decconfig_up_cases in H; destruct H
         end.

Lemma decconfig_iso v : decconfig_wf v = true -> iso_decconfig v = decconfig_bytes v.
Proof.
  intros H. decconfig_bounds H.
  unfold iso_decconfig, iso_descriptor, decconfig_bytes, decconfig_body.
  rewrite decspecific_iso by assumption.
  rewrite !lenN_app, !lenN_be, decspecific_bytes_len.
  reflexivity.
Qed.

Lemma decconfig_bytes_len v : lenN (decconfig_bytes v) = 19.
Proof.
  unfold decconfig_bytes, decconfig_body. rewrite !lenN_app, !lenN_be, decspecific_bytes_len. reflexivity.
Qed.

Lemma wr_u24_small {B} x (k : unit -> wprog B) : x < 256 ^ N.of_nat 3 ->
  wbind (wr_u24 x) k = WrAll (be 3 x) (k tt).
Proof.
  intros H. rewrite pow256_3 in H. unfold wr_u24, U24. apply N.ltb_lt in H. rewrite H. reflexivity.
Qed.

Lemma decconfig_enc m v : decconfig_wf v = true ->
  wfin (enc_decconfig m v) = Ok 17 /\ appender (enc_decconfig m v)
  /\ wout (enc_decconfig m v) = decconfig_bytes v.
Proof.
  intros H. decconfig_bounds H.
  destruct (decspecific_enc m (decconfig_dec_specific v)) as (E1 & E2 & E3); [assumption|].
  unfold enc_decconfig, decconfig_desc_tag, decconfig_bytes, decconfig_body.
  change decconfig_desc_size with 17.
  rewrite write_desc_small by (clear; lia).
  set (E := enc_decspecific m (decconfig_dec_specific v)) in *.
  cbn [wbind wr wr_u8 wr_u].
  match goal with Hs : decconfig_stream_type v < 64, Hu : decconfig_up_stream v < 3,
                  Hn : decconfig_up_stream v <> 1 |- _ =>
    pose proof (decconfig_enc_b _ _ Hs Hu Hn) as Eb; pose proof (decconfig_b_lt _ _ Hs Hu) as Bb end.
  rewrite wadd8_ok by (clear -Eb Bb; lia).
  rewrite wadd8_ok by (clear -Eb Bb; lia).
  rewrite Eb. cbn [wbind wr wr_u8 wr_u].
  rewrite wr_u24_small by assumption.
  cbn [wbind wr wr_u32 wr_u wfin wout appender].
  rewrite wfin_bind, wout_bind by exact E2. rewrite E1, E3. cbn [res_bind wfin wout].
  split; [reflexivity|]. split.
  - apply appender_bind; [exact E2 | intros; exact I].
  - rewrite app_nil_r. reflexivity.
Qed.

(** the fix of [esds]: a descriptor that fits the bytes left in its container is not clamped *)
Lemma clamp_desc_size_fit sz e pos : pos + sz <= e -> clamp_desc_size sz e pos = sz.
Proof. unfold clamp_desc_size. intros H. apply N.min_l. clear -H. lia. Qed.

(** after [read_desc]: the [stream_position] call of [clamp_desc_size] and the clamp itself *)
Ltac clamp_step :=
  prog_norm; rewrite run_GetPos; cbv zeta;
  rewrite clamp_desc_size_fit by (clear; unfold HEADER_SIZE, Tables.HEADER_SIZE; lia).

Lemma decconfig_loop_S f current e acc :
  decconfig_loop (S f) current e acc =
  (if current <? e then
     '(desc_tag, desc_size) <- read_desc ;;
     pos <- get_pos ;;
     let desc_size := clamp_desc_size desc_size e pos in
     if desc_tag =? 5 then
       d <- dec_decspecific desc_size ;; c <- get_pos ;; decconfig_loop f c e (Some d)
     else
       skip_bytes desc_size ;;; c <- get_pos ;; decconfig_loop f c e acc
   else Ret acc).
Proof. reflexivity. Qed.

Lemma decconfig_fuel_dec {B} f m v (k : decconfig -> prog B) d l p rest :
  decconfig_wf v = true -> p + 17 < 2 ^ 63 ->
  run (bind (dec_decconfig_fuel (S (S f)) m 17) k) (mkStream d l p (decconfig_body v ++ rest))
  = run (k v) (mkStream d l (p + 17) rest).
Proof.
  intros H Hp. decconfig_bounds H.
  match goal with Hs : decconfig_stream_type v < 64, Hu : decconfig_up_stream v < 3,
                  Hn : decconfig_up_stream v <> 1 |- _ =>
    pose proof (decconfig_dec_st _ _ Hs Hu Hn) as E1; pose proof (decconfig_dec_up _ _ Hs Hu Hn) as E2;
    pose proof (decconfig_b_lt _ _ Hs Hu) as Bb end.
  rewrite <- pow256_1 in Bb.
  unfold dec_decconfig_fuel, decconfig_body, decspecific_bytes.
  rewrite <- !app_assoc.
  prog_norm. rewrite run_GetPos.
  do 5 rd_step. prog_norm. rewrite run_GetPos.
  rewrite !bind_bind.
  rewrite run_add64_ok by (clear -Hp; unfold U64; lia).
  rewrite decconfig_loop_S.
  match goal with |- context [?a <? ?b] =>
    replace (a <? b) with true by (symmetry; apply N.ltb_lt; clear; lia) end.
  cbv iota. rewrite !bind_bind.
  rewrite run_read_desc_small by (clear; lia). cbv beta iota.
  clamp_step.
  change (5 =? 5) with true. cbv iota. rewrite !bind_bind.
  rewrite (decspecific_dec (decconfig_dec_specific v)) by assumption.
  prog_norm. rewrite run_GetPos.
  rewrite decconfig_loop_S.
  match goal with |- context [?a <? ?b] =>
    replace (a <? b) with false by (symmetry; apply N.ltb_ge; clear; lia) end.
  cbv iota. cbn [bind]. rewrite E1, E2.
  f_equal; [f_equal; destruct v; reflexivity | f_equal; clear; lia].
Qed.

Lemma decconfig_dec {B} m v (k : decconfig -> prog B) d l p rest :
  decconfig_wf v = true -> p + 17 < 2 ^ 63 ->
  run (bind (dec_decconfig m 17) k) (mkStream d l p (decconfig_body v ++ rest))
  = run (k v) (mkStream d l (p + 17) rest).
Proof. unfold dec_decconfig. change (N.to_nat 17 + 1)%nat with (S (S 16)). apply decconfig_fuel_dec. Qed.

Theorem decconfig_roundtrip m0 :
  desc_roundtrip decconfig_wf 4 17 (enc_decconfig m0) dec_decconfig iso_decconfig.
Proof.
  intros v H. destruct (decconfig_enc m0 v H) as (H1 & H2 & H3).
  rewrite (decconfig_iso v H).
  split; [exact H1|]. split; [exact H2|]. split; [exact H3|].
  split; [apply decconfig_bytes_len|].
  intros m d l p post Hp. rewrite decconfig_bytes_len in *. unfold decconfig_bytes.
  rewrite <- !app_assoc.
  rewrite run_read_desc_small by (clear; lia). cbn [fst snd].
  rewrite (decconfig_dec m v) by (first [exact H | clear -Hp; lia]).
  cbn [run]. f_equal. f_equal. clear. lia.
Qed.

(** ** ESDescriptor *)
Definition esdesc_body (v : esdesc) : bytes :=
  be 2 (esdesc_es_id v) ++ be 1 0 ++ decconfig_bytes (esdesc_dec_config v) ++ slconfig_bytes.
Definition esdesc_bytes (v : esdesc) : bytes := be 1 3 ++ be 1 25 ++ esdesc_body v.

Ltac esdesc_bounds H := unfold esdesc_wf in H; split_andb.

Lemma esdesc_iso v : esdesc_wf v = true -> iso_esdesc v = esdesc_bytes v.
Proof.
  intros H. esdesc_bounds H.
  unfold iso_esdesc, iso_descriptor, esdesc_bytes, esdesc_body.
  rewrite decconfig_iso by assumption. rewrite slconfig_iso.
  rewrite !lenN_app, !lenN_be, decconfig_bytes_len.
  reflexivity.
Qed.

Lemma esdesc_bytes_len v : lenN (esdesc_bytes v) = 27.
Proof.
  unfold esdesc_bytes, esdesc_body. rewrite !lenN_app, !lenN_be, decconfig_bytes_len. reflexivity.
Qed.

Lemma esdesc_enc m v : esdesc_wf v = true ->
  wfin (enc_esdesc m v) = Ok 25 /\ appender (enc_esdesc m v)
  /\ wout (enc_esdesc m v) = esdesc_bytes v.
Proof.
  intros H. esdesc_bounds H.
  destruct (decconfig_enc m (esdesc_dec_config v)) as (E1 & E2 & E3); [assumption|].
  destruct (slconfig_enc (esdesc_sl_config v)) as (S1 & S2 & S3).
  unfold enc_esdesc, esdesc_desc_tag, esdesc_bytes, esdesc_body.
  change esdesc_desc_size with 25.
  rewrite write_desc_small by (clear; lia).
  set (E := enc_decconfig m (esdesc_dec_config v)) in *.
  set (S := enc_slconfig (esdesc_sl_config v)) in *.
  cbn [wbind wr wr_u8 wr_u16 wr_u wfin wout appender].
  rewrite !wfin_bind, !wout_bind by (first [exact E2 | exact S2]).
  rewrite E1, E3. cbn [res_bind].
  rewrite S1, S3. cbn [res_bind wfin wout].
  split; [reflexivity|]. split.
  - apply appender_bind; [exact E2 | intros _]. apply appender_bind; [exact S2 | intros; exact I].
  - rewrite app_nil_r. reflexivity.
Qed.

Lemma esdesc_loop_S m f current e dc sl :
  esdesc_loop m (S f) current e dc sl =
  (if current <? e then
     '(desc_tag, desc_size) <- read_desc ;;
     pos <- get_pos ;;
     let desc_size := clamp_desc_size desc_size e pos in
     if desc_tag =? 4 then
       d <- dec_decconfig m desc_size ;; c <- get_pos ;; esdesc_loop m f c e (Some d) sl
     else if desc_tag =? 6 then
       s <- dec_slconfig desc_size ;; c <- get_pos ;; esdesc_loop m f c e dc (Some s)
     else
       skip_bytes desc_size ;;; c <- get_pos ;; esdesc_loop m f c e dc sl
   else Ret (dc, sl)).
Proof. reflexivity. Qed.

Ltac cond_true :=
  match goal with |- context [?a <? ?b] =>
    replace (a <? b) with true by (symmetry; apply N.ltb_lt; clear; lia) end; cbv iota.
Ltac cond_false :=
  match goal with |- context [?a <? ?b] =>
    replace (a <? b) with false by (symmetry; apply N.ltb_ge; clear; lia) end; cbv iota.

Lemma esdesc_fuel_dec {B} f m v (k : esdesc -> prog B) d l p rest :
  esdesc_wf v = true -> p + 25 < 2 ^ 63 ->
  run (bind (dec_esdesc_fuel (S (S (S f))) m 25) k) (mkStream d l p (esdesc_body v ++ rest))
  = run (k v) (mkStream d l (p + 25) rest).
Proof.
  intros H Hp. esdesc_bounds H.
  unfold dec_esdesc_fuel, esdesc_body, decconfig_bytes, slconfig_bytes.
  rewrite <- !app_assoc.
  prog_norm. rewrite run_GetPos.
  do 2 rd_step. prog_norm. rewrite run_GetPos.
  rewrite !bind_bind.
  rewrite run_add64_ok by (clear -Hp; unfold U64; lia).
  rewrite esdesc_loop_S. cond_true. rewrite !bind_bind.
  rewrite run_read_desc_small by (clear; lia). cbv beta iota.
  clamp_step.
  change (4 =? 4) with true. cbv iota. rewrite !bind_bind.
  rewrite (decconfig_dec m (esdesc_dec_config v)) by (first [assumption | clear -Hp; lia]).
  prog_norm. rewrite run_GetPos.
  rewrite esdesc_loop_S. cond_true. rewrite !bind_bind.
  rewrite run_read_desc_small by (clear; lia). cbv beta iota.
  clamp_step.
  change (6 =? 4) with false. change (6 =? 6) with true. cbv iota. rewrite !bind_bind.
  rewrite slconfig_dec.
  prog_norm. rewrite run_GetPos.
  rewrite esdesc_loop_S. cond_false. cbn [bind].
  f_equal; [f_equal; destruct v as [? ? []]; reflexivity | f_equal; clear; lia].
Qed.

Lemma esdesc_dec {B} m v (k : esdesc -> prog B) d l p rest :
  esdesc_wf v = true -> p + 25 < 2 ^ 63 ->
  run (bind (dec_esdesc m 25) k) (mkStream d l p (esdesc_body v ++ rest))
  = run (k v) (mkStream d l (p + 25) rest).
Proof. unfold dec_esdesc. change (N.to_nat 25 + 1)%nat with (S (S (S 23))). apply esdesc_fuel_dec. Qed.

Theorem esdesc_roundtrip m0 :
  desc_roundtrip esdesc_wf 3 25 (enc_esdesc m0) dec_esdesc iso_esdesc.
Proof.
  intros v H. destruct (esdesc_enc m0 v H) as (H1 & H2 & H3).
  rewrite (esdesc_iso v H).
  split; [exact H1|]. split; [exact H2|]. split; [exact H3|].
  split; [apply esdesc_bytes_len|].
  intros m d l p post Hp. rewrite esdesc_bytes_len in *. unfold esdesc_bytes.
  rewrite <- !app_assoc.
  rewrite run_read_desc_small by (clear; lia). cbn [fst snd].
  rewrite (esdesc_dec m v) by (first [exact H | clear -Hp; lia]).
  cbn [run]. f_equal. f_equal. clear. lia.
Qed.

(** ** EsdsBox *)
Lemma esds_code : u32_of_boxtype (box_type_of "EsdsBox") = 0x65736473.
Proof. vm_compute. reflexivity. Qed.
Lemma mp4a_code : u32_of_boxtype (box_type_of "Mp4aBox") = 0x6d703461.
Proof. vm_compute. reflexivity. Qed.

Lemma esds_size_eq v : esds_size v = 39.
Proof. reflexivity. Qed.

Definition esds_payload (v : esds) : bytes :=
  be 1 (esds_version v) ++ be 3 (esds_flags v) ++ esdesc_bytes (esds_es_desc v).

Ltac esds_bounds H := unfold esds_wf in H; split_andb.

Lemma esds_iso v : esds_wf v = true -> iso_esds_payload v = esds_payload v.
Proof.
  intros H. esds_bounds H. unfold iso_esds_payload, esds_payload.
  rewrite esdesc_iso by assumption. reflexivity.
Qed.

Lemma esds_payload_len v : esds_wf v = true -> lenN (iso_esds_payload v) + 8 = esds_size v.
Proof.
  intros H. rewrite esds_iso by exact H. unfold esds_payload.
  rewrite !lenN_app, !lenN_be, esdesc_bytes_len. reflexivity.
Qed.

Lemma esds_enc m v : esds_wf v = true ->
  wfin (enc_esds m v) = Ok (esds_size v) /\ appender (enc_esds m v) /\
  wout (enc_esds m v) = be 4 (esds_size v) ++ be 4 0x65736473 ++ iso_esds_payload v.
Proof.
  intros H. rewrite esds_iso by exact H. esds_bounds H.
  destruct (esdesc_enc m (esds_es_desc v)) as (E1 & E2 & E3); [assumption|].
  unfold enc_esds, esds_payload. rewrite esds_size_eq.
  rewrite write_header_small by (clear; unfold U32; lia). rewrite esds_code.
  rewrite write_header_ext_small by assumption.
  set (E := enc_esdesc m (esds_es_desc v)) in *.
  cbn [wbind wfin wout appender].
  rewrite !wfin_bind, !wout_bind by exact E2. rewrite E1, E3. cbn [res_bind wfin wout].
  split; [reflexivity|]. split.
  - apply appender_bind; [exact E2 | intros; exact I].
  - rewrite app_nil_r. reflexivity.
Qed.

Lemma esds_loop_S m f current e acc :
  esds_loop m (S f) current e acc =
  (if current <? e then
     '(desc_tag, desc_size) <- read_desc ;;
     pos <- get_pos ;;
     let desc_size := clamp_desc_size desc_size e pos in
     if desc_tag =? 3 then
       d <- dec_esdesc m desc_size ;; c <- get_pos ;; esds_loop m f c e (Some d)
     else Ret acc
   else Ret acc).
Proof. reflexivity. Qed.

Lemma esds_fuel_dec f m v d l p post : esds_wf v = true -> p + 39 < 2 ^ 63 ->
  run (dec_esds_fuel (S (S f)) m 39) (mkStream d l (p + 8) (esds_payload v ++ post))
  = (Ok v, mkStream d l (p + 39) post).
Proof.
  intros H Hp. esds_bounds H.
  unfold dec_esds_fuel, esds_payload, esdesc_bytes.
  rewrite <- !app_assoc.
  prog_norm. rewrite run_GetPos.
  rewrite run_sub64_ok by (clear; unfold HEADER_SIZE, Tables.HEADER_SIZE; lia).
  do 2 rd_step. prog_norm. rewrite run_GetPos. rewrite ?bind_bind.
  rewrite run_add64_ok by (clear -Hp; unfold HEADER_SIZE, Tables.HEADER_SIZE, U64; lia).
  rewrite esds_loop_S.
  match goal with |- context [?a <? ?b] =>
    replace (a <? b) with true
      by (symmetry; apply N.ltb_lt; clear; unfold HEADER_SIZE, Tables.HEADER_SIZE; lia) end.
  cbv iota. rewrite !bind_bind.
  rewrite run_read_desc_small by (clear; lia). cbv beta iota.
  clamp_step.
  change (3 =? 3) with true. cbv iota. rewrite !bind_bind.
  rewrite (esdesc_dec m (esds_es_desc v)) by (first [assumption | clear -Hp; lia]).
  prog_norm. rewrite run_GetPos.
  rewrite esds_loop_S.
  match goal with |- context [?a <? ?b] =>
    replace (a <? b) with false
      by (symmetry; apply N.ltb_ge; clear; unfold HEADER_SIZE, Tables.HEADER_SIZE; lia) end.
  cbv iota. cbn [bind].
  rewrite run_add64_ok by (clear -Hp; unfold HEADER_SIZE, Tables.HEADER_SIZE, U64; lia).
  prog_norm.
  rewrite run_SeekTo_here by (clear; unfold HEADER_SIZE, Tables.HEADER_SIZE; lia).
  cbn [run]. f_equal; [f_equal; destruct v; reflexivity | f_equal; clear; lia].
Qed.

Lemma esds_dec m v d l p post : esds_wf v = true -> p + esds_size v < 2 ^ 63 ->
  run (dec_esds m (esds_size v)) (mkStream d l (p + 8) (iso_esds_payload v ++ post))
  = (Ok v, mkStream d l (p + esds_size v) post).
Proof.
  intros H Hp. rewrite esds_iso by exact H. rewrite esds_size_eq in *.
  unfold dec_esds. change (N.to_nat 39 + 1)%nat with (S (S 38)). now apply esds_fuel_dec.
Qed.

Theorem esds_roundtrip m0 :
  leaf_roundtrip esds_wf esds_size 0x65736473 (enc_esds m0) dec_esds iso_esds_payload.
Proof.
  intros v H Hs. destruct (esds_enc m0 v H) as (H1 & H2 & H3).
  split; [exact H1|]. split; [exact H2|]. split; [exact H3|].
  split; [now apply esds_payload_len|].
  intros m d l p post Hp. now apply esds_dec.
Qed.

(** ** Mp4aBox *)
Lemma mp4a_boxtype_esds : boxtype_of_u32 0x65736473 = EsdsBox.
Proof. vm_compute. reflexivity. Qed.
Lemma mp4a_eqb_esds : boxtype_eqb EsdsBox EsdsBox = true.
Proof. vm_compute. reflexivity. Qed.

(** the payload in the shape the Rust code reads it *)
Definition mp4a_payload (v : mp4a) : bytes :=
  be 4 0 ++ be 2 0 ++ be 2 (mp4a_data_reference_index v) ++
  be 2 0 ++ be 2 0 ++ be 4 0 ++
  be 2 (mp4a_channelcount v) ++ be 2 (mp4a_samplesize v) ++
  be 4 0 ++ be 4 (mp4a_samplerate v) ++
  match mp4a_esds v with
  | Some e => be 4 39 ++ be 4 0x65736473 ++ iso_esds_payload e
  | None => []
  end.

Ltac mp4a_bounds H := unfold mp4a_wf in H; split_andb.

Lemma mp4a_size_eq v : mp4a_size v = match mp4a_esds v with Some _ => 75 | None => 36 end.
Proof. unfold mp4a_size. destruct (mp4a_esds v); reflexivity. Qed.

Lemma mp4a_payload_iso v : mp4a_wf v = true -> iso_mp4a_payload v = mp4a_payload v.
Proof.
  intros H. mp4a_bounds H. unfold iso_mp4a_payload, mp4a_payload, iso_mp4a_box.
  destruct (mp4a_esds v) as [e|]; [|reflexivity].
  replace (8 + lenN (iso_esds_payload e)) with 39
    by (pose proof (esds_payload_len e ltac:(assumption)) as L; rewrite esds_size_eq in L; clear -L; lia).
  reflexivity.
Qed.

Lemma mp4a_payload_len v : mp4a_wf v = true -> lenN (iso_mp4a_payload v) + 8 = mp4a_size v.
Proof.
  intros H. rewrite mp4a_payload_iso by exact H. mp4a_bounds H. rewrite mp4a_size_eq.
  unfold mp4a_payload. destruct (mp4a_esds v) as [e|].
  - pose proof (esds_payload_len e ltac:(assumption)) as L. rewrite esds_size_eq in L.
    rewrite !lenN_app, !lenN_be. clear -L. lia.
  - rewrite !lenN_app, !lenN_be. reflexivity.
Qed.

Lemma mp4a_enc m v : mp4a_wf v = true ->
  wfin (enc_mp4a m v) = Ok (mp4a_size v) /\ appender (enc_mp4a m v) /\
  wout (enc_mp4a m v) = be 4 (mp4a_size v) ++ be 4 0x6d703461 ++ iso_mp4a_payload v.
Proof.
  intros H. rewrite mp4a_payload_iso by exact H. mp4a_bounds H.
  unfold enc_mp4a, mp4a_payload.
  rewrite write_header_small by (rewrite mp4a_size_eq; destruct (mp4a_esds v); clear; unfold U32; lia).
  rewrite mp4a_code.
  destruct (mp4a_esds v) as [e|] eqn:Ee.
  - destruct (esds_enc m e) as (E1 & E2 & E3); [assumption|].
    set (E := enc_esds m e) in *.
    cbn [wbind wr wr_u16 wr_u32 wr_u64 wr_u wfin wout appender].
    rewrite !wfin_bind, !wout_bind by exact E2. rewrite E1, E3. cbn [res_bind wfin wout].
    split; [reflexivity|]. split.
    + apply appender_bind; [exact E2 | intros; exact I].
    + rewrite app_nil_r. rewrite <- ?app_assoc. reflexivity.
  - cbn [wbind wr wr_u16 wr_u32 wr_u64 wr_u wfin wout appender].
    split; [reflexivity|]. split; [exact I|]. reflexivity.
Qed.

Lemma mp4a_dec m v d l p post : mp4a_wf v = true -> p + mp4a_size v < 2 ^ 63 ->
  run (dec_mp4a m (mp4a_size v)) (mkStream d l (p + 8) (iso_mp4a_payload v ++ post))
  = (Ok v, mkStream d l (p + mp4a_size v) post).
Proof.
  intros H Hp. rewrite mp4a_payload_iso by exact H. mp4a_bounds H.
  pose proof (mp4a_size_eq v) as Hsz.
  unfold dec_mp4a, dec_mp4a_fuel, mp4a_payload.
  rewrite Nat.add_1_r.
  rewrite <- !app_assoc.
  prog_norm. rewrite run_GetPos.
  rewrite run_sub64_ok by (clear; unfold HEADER_SIZE, Tables.HEADER_SIZE; lia).
  do 10 rd_step.
  change (0 =? 1) with false. cbv iota. cbn [bind].
  rewrite ?bind_bind.
  rewrite run_add64_ok
    by (clear -Hsz Hp; destruct (mp4a_esds v); unfold HEADER_SIZE, Tables.HEADER_SIZE, U64; lia).
  cbn [mp4a_find]. prog_norm. rewrite run_GetPos.
  destruct (mp4a_esds v) as [e|] eqn:Ee.
  - match goal with |- context [?a <=? ?b] =>
      replace (a <=? b) with false
        by (symmetry; apply N.leb_gt; clear -Hsz; unfold HEADER_SIZE, Tables.HEADER_SIZE; lia) end.
    cbv iota. rewrite !bind_bind. rewrite <- !app_assoc.
    rewrite run_read_header_bind by (clear; vm_compute; first [reflexivity | discriminate]).
    cbv beta iota.
    rewrite Hsz. change (75 <? 39) with false. change (39 =? 0) with false.
    rewrite mp4a_boxtype_esds, mp4a_eqb_esds. cbv iota.
    rewrite !bind_bind, run_bind.
    match goal with |- context [mkStream d l ?q (iso_esds_payload e ++ _)] =>
      replace q with (p + 36 + 8) by (clear; lia) end.
    change 39 with (esds_size e) at 1.
    rewrite (esds_dec m e d l (p + 36)) by (first [assumption | rewrite esds_size_eq; clear -Hsz Hp; lia]).
    cbv beta iota. cbn [bind].
    rewrite run_SeekTo_here by (rewrite esds_size_eq; clear; unfold HEADER_SIZE, Tables.HEADER_SIZE; lia).
    cbn [run]. f_equal; [f_equal; destruct v; cbn in Ee; subst; reflexivity | f_equal; rewrite esds_size_eq; clear; lia].
  - match goal with |- context [?a <=? ?b] =>
      replace (a <=? b) with true
        by (symmetry; apply N.leb_le; clear -Hsz; unfold HEADER_SIZE, Tables.HEADER_SIZE; lia) end.
    cbv iota. cbn [bind].
    rewrite run_SeekTo_here by (clear -Hsz; unfold HEADER_SIZE, Tables.HEADER_SIZE; lia).
    cbn [run app]. f_equal; [f_equal; destruct v; cbn in Ee; subst; reflexivity | f_equal; clear -Hsz; lia].
Qed.

Theorem mp4a_roundtrip m0 :
  leaf_roundtrip mp4a_wf mp4a_size 0x6d703461 (enc_mp4a m0) dec_mp4a iso_mp4a_payload.
Proof.
  intros v H Hs. destruct (mp4a_enc m0 v H) as (H1 & H2 & H3).
  split; [exact H1|]. split; [exact H2|]. split; [exact H3|].
  split; [now apply mp4a_payload_len|].
  intros m d l p post Hp. now apply mp4a_dec.
Qed.

(** ** The tag and length prefix in general: [write_desc] writes the tag and the shortest
    expandable-size encoding of ISO/IEC 14496-1 for every size below 2^28, and [read_desc]
    reads it back *)
Lemma desc_land127 x : N.land x 127 = x mod 128.
Proof. change 127 with (N.ones 7). rewrite N.land_ones. reflexivity. Qed.

Lemma desc_land_mul128 a b : b < 128 -> N.land (a * 128) b = 0.
Proof.
  intros Hb. apply N.bits_inj. intros n. rewrite N.land_spec, N.bits_0.
  change 128 with (2 ^ 7). destruct (N.lt_ge_cases n 7) as [Hn|Hn].
  - rewrite N.mul_pow2_bits_low by exact Hn. reflexivity.
  - rewrite <- (N.mod_small b (2 ^ 7)) by exact Hb.
    rewrite N.mod_pow2_bits_high by exact Hn. apply andb_false_r.
Qed.

Lemma desc_lor_add a b : b < 128 -> N.lor (a * 128) b = a * 128 + b.
Proof.
  intros Hb. pose proof (desc_land_mul128 a b Hb) as H0.
  rewrite <- N.lxor_lor by exact H0. symmetry. apply N.add_nocarry_lxor. exact H0.
Qed.

Lemma desc_lor_128 x : x < 128 -> N.lor x 128 = 128 + x.
Proof. apply (eqb_of_forall_below (fun x => N.lor x 128) (fun x => 128 + x) 128). vm_compute. reflexivity. Qed.
Lemma desc_cont_hi x : x < 128 -> N.land (128 + x) 128 =? 0 = false.
Proof. intros H. pose proof (forall_below (fun x => negb (N.land (128 + x) 128 =? 0)) 128 ltac:(vm_compute; reflexivity) x H) as P.
  cbv beta in P. now apply negb_true_iff in P. Qed.
Lemma desc_cont_lo x : x < 128 -> N.land x 128 =? 0 = true.
Proof. intros H. now rewrite desc_land128. Qed.
Lemma desc_low7_hi x : x < 128 -> N.land (128 + x) 127 = x.
Proof. apply (eqb_of_forall_below (fun x => N.land (128 + x) 127) (fun x => x) 128). vm_compute. reflexivity. Qed.
Lemma desc_low7_lo x : x < 128 -> N.land x 127 = x.
Proof. apply (eqb_of_forall_below (fun x => N.land x 127) (fun x => x) 128). vm_compute. reflexivity. Qed.

(** one step of the accumulation in [read_desc] *)
Lemma desc_acc acc b : acc < 2097152 -> b < 128 ->
  N.lor (cast_w U32 (N.shiftl acc 7)) b = acc * 128 + b.
Proof.
  intros Ha Hb. rewrite N.shiftl_mul_pow2. change (2 ^ 7) with 128.
  unfold cast_w. rewrite N.mod_small by (unfold U32; lia).
  now apply desc_lor_add.
Qed.

(** one digit written by [write_desc] *)
Lemma desc_digit size sh : N.land (cast_w U8 (N.shiftr size sh)) 127 = (size / 2 ^ sh) mod 128.
Proof.
  rewrite N.shiftr_div_pow2, desc_land127. unfold cast_w, U8.
  generalize (size / 2 ^ sh). intros x. lia.
Qed.

Lemma write_desc_len_1 size : write_desc_len size 1 1 0 =
  WrAll (be 1 (N.land (cast_w U8 (N.shiftr size 0)) 127)) (WRet tt).
Proof. reflexivity. Qed.
Lemma write_desc_len_2 size : write_desc_len size 2 2 0 =
  WrAll (be 1 (N.lor (N.land (cast_w U8 (N.shiftr size 7)) 127) 128))
 (WrAll (be 1 (N.land (cast_w U8 (N.shiftr size 0)) 127)) (WRet tt)).
Proof. reflexivity. Qed.
Lemma write_desc_len_3 size : write_desc_len size 3 3 0 =
  WrAll (be 1 (N.lor (N.land (cast_w U8 (N.shiftr size 14)) 127) 128))
 (WrAll (be 1 (N.lor (N.land (cast_w U8 (N.shiftr size 7)) 127) 128))
 (WrAll (be 1 (N.land (cast_w U8 (N.shiftr size 0)) 127)) (WRet tt))).
Proof. reflexivity. Qed.
Lemma write_desc_len_4 size : write_desc_len size 4 4 0 =
  WrAll (be 1 (N.lor (N.land (cast_w U8 (N.shiftr size 21)) 127) 128))
 (WrAll (be 1 (N.lor (N.land (cast_w U8 (N.shiftr size 14)) 127) 128))
 (WrAll (be 1 (N.lor (N.land (cast_w U8 (N.shiftr size 7)) 127) 128))
 (WrAll (be 1 (N.land (cast_w U8 (N.shiftr size 0)) 127)) (WRet tt)))).
Proof. reflexivity. Qed.

Lemma desc_mod128_lt x : x mod 128 < 128.
Proof. apply N.mod_lt. lia. Qed.

Lemma write_desc_out tag size : size < 2 ^ 28 ->
  wfin (write_desc tag size) = Ok (1 + size_of_length size) /\ appender (write_desc tag size)
  /\ wout (write_desc tag size) = be 1 tag ++ iso_size_of_instance size.
Proof.
  intros H. change (2 ^ 28) with 268435456 in H.
  unfold write_desc, iso_size_of_instance, size_of_length.
  replace (U32 - 1 <? size) with false by (symmetry; apply N.ltb_ge; clear -H; unfold U32; lia).
  change (128 * 128 * 128) with 2097152. change (128 * 128) with 16384.
  destruct (N.leb_spec size 127) as [C1|C1]; [|destruct (N.leb_spec size 16383) as [C2|C2];
    [|destruct (N.leb_spec size 2097151) as [C3|C3]]].
  - replace (size <? 128) with true by (symmetry; apply N.ltb_lt; lia).
    change (N.to_nat 1) with 1%nat. rewrite write_desc_len_1.
    rewrite desc_digit. change (2 ^ 0) with 1. rewrite N.div_1_r.
    rewrite N.mod_small by lia. cbn [wbind wr wr_u8 wr_u wfin wout appender].
    split; [reflexivity|]. split; [exact I|]. rewrite app_nil_r. reflexivity.
  - replace (size <? 128) with false by (symmetry; apply N.ltb_ge; lia).
    replace (size <? 16384) with true by (symmetry; apply N.ltb_lt; lia).
    change (N.to_nat 2) with 2%nat. rewrite write_desc_len_2.
    rewrite !desc_digit. change (2 ^ 0) with 1. change (2 ^ 7) with 128. rewrite N.div_1_r.
    rewrite desc_lor_128 by apply desc_mod128_lt.
    replace ((size / 128) mod 128) with (size / 128) by (clear -C2; lia).
    cbn [wbind wr wr_u8 wr_u wfin wout appender].
    split; [reflexivity|]. split; [exact I|]. rewrite app_nil_r. reflexivity.
  - replace (size <? 128) with false by (symmetry; apply N.ltb_ge; lia).
    replace (size <? 16384) with false by (symmetry; apply N.ltb_ge; lia).
    replace (size <? 2097152) with true by (symmetry; apply N.ltb_lt; lia).
    change (N.to_nat 3) with 3%nat. rewrite write_desc_len_3.
    rewrite !desc_digit. change (2 ^ 0) with 1. change (2 ^ 7) with 128. change (2 ^ 14) with 16384.
    rewrite N.div_1_r.
    rewrite !desc_lor_128 by apply desc_mod128_lt.
    replace ((size / 16384) mod 128) with (size / 16384) by (clear -C3; lia).
    cbn [wbind wr wr_u8 wr_u wfin wout appender].
    split; [reflexivity|]. split; [exact I|]. rewrite app_nil_r. reflexivity.
  - replace (size <? 128) with false by (symmetry; apply N.ltb_ge; lia).
    replace (size <? 16384) with false by (symmetry; apply N.ltb_ge; lia).
    replace (size <? 2097152) with false by (symmetry; apply N.ltb_ge; lia).
    change (N.to_nat 4) with 4%nat. rewrite write_desc_len_4.
    rewrite !desc_digit. change (2 ^ 0) with 1. change (2 ^ 7) with 128. change (2 ^ 14) with 16384.
    change (2 ^ 21) with 2097152. rewrite N.div_1_r.
    rewrite !desc_lor_128 by apply desc_mod128_lt.
    replace ((size / 2097152) mod 128) with (size / 2097152) by (clear -H; lia).
    cbn [wbind wr wr_u8 wr_u wfin wout appender].
    split; [reflexivity|]. split; [exact I|]. rewrite app_nil_r. reflexivity.
Qed.

Ltac desc_rd_hi :=
  rd_step; rewrite desc_cont_hi by assumption; cbv iota;
  rewrite desc_low7_hi by assumption; rewrite desc_acc by (first [assumption | lia]).
Ltac desc_rd_lo :=
  rd_step; rewrite desc_cont_lo by assumption; cbv iota;
  rewrite desc_low7_lo by assumption; rewrite desc_acc by (first [assumption | lia]).

Lemma run_read_desc_iso {A} tag size rest (k : N * N -> prog A) d l p :
  tag < 256 -> size < 2 ^ 28 ->
  run (bind read_desc k) (mkStream d l p (be 1 tag ++ iso_size_of_instance size ++ rest))
  = run (k (tag, size)) (mkStream d l (p + 1 + size_of_length size) rest).
Proof.
  intros Ht H. change (2 ^ 28) with 268435456 in H.
  assert (Ht' : tag < 256 ^ N.of_nat 1) by (rewrite pow256_1; exact Ht).
  unfold iso_size_of_instance, size_of_length.
  change (128 * 128 * 128) with 2097152. change (128 * 128) with 16384.
  unfold read_desc. rd_step. cbn [read_desc_len].
  destruct (N.leb_spec size 127) as [C1|C1]; [|destruct (N.leb_spec size 16383) as [C2|C2];
    [|destruct (N.leb_spec size 2097151) as [C3|C3]]].
  - replace (size <? 128) with true by (symmetry; apply N.ltb_lt; lia).
    assert (B0 : size < 128) by lia.
    assert (B0' : size < 256 ^ N.of_nat 1) by (rewrite pow256_1; lia).
    desc_rd_lo. cbn [bind]. match goal with |- run (_ (_, ?x)) (mkStream _ _ ?q _) = run (_ (_, ?y)) (mkStream _ _ ?q' _) =>
      replace x with y by lia; replace q with q' by lia; reflexivity end.
  - replace (size <? 128) with false by (symmetry; apply N.ltb_ge; lia).
    replace (size <? 16384) with true by (symmetry; apply N.ltb_lt; lia).
    pose proof (N.div_mod size 128 ltac:(lia)) as E.
    remember (size / 128) as a eqn:Ea. remember (size mod 128) as b eqn:Eb.
    assert (Ba : a < 128) by (clear -C2 Ea; lia).
    assert (Bb : b < 128) by (rewrite Eb; apply desc_mod128_lt).
    clear Ea Eb.
    assert (Ba' : 128 + a < 256 ^ N.of_nat 1) by (rewrite pow256_1; lia).
    assert (Bb' : b < 256 ^ N.of_nat 1) by (rewrite pow256_1; lia).
    rewrite <- !app_assoc.
    desc_rd_hi. desc_rd_lo. cbn [bind]. match goal with |- run (_ (_, ?x)) (mkStream _ _ ?q _) = run (_ (_, ?y)) (mkStream _ _ ?q' _) =>
      replace x with y by lia; replace q with q' by lia; reflexivity end.
  - replace (size <? 128) with false by (symmetry; apply N.ltb_ge; lia).
    replace (size <? 16384) with false by (symmetry; apply N.ltb_ge; lia).
    replace (size <? 2097152) with true by (symmetry; apply N.ltb_lt; lia).
    assert (E : size = (size / 16384) * 16384 + ((size / 128) mod 128) * 128 + size mod 128) by lia.
    remember (size / 16384) as a eqn:Ea. remember ((size / 128) mod 128) as b eqn:Eb. remember (size mod 128) as c eqn:Ec.
    assert (Ba : a < 128) by (clear -C3 Ea; lia).
    assert (Bb : b < 128) by (rewrite Eb; apply desc_mod128_lt).
    assert (Bc : c < 128) by (rewrite Ec; apply desc_mod128_lt).
    clear Ea Eb Ec.
    assert (Ba' : 128 + a < 256 ^ N.of_nat 1) by (rewrite pow256_1; lia).
    assert (Bb' : 128 + b < 256 ^ N.of_nat 1) by (rewrite pow256_1; lia).
    assert (Bc' : c < 256 ^ N.of_nat 1) by (rewrite pow256_1; lia).
    rewrite <- !app_assoc.
    desc_rd_hi. desc_rd_hi. desc_rd_lo. cbn [bind]. match goal with |- run (_ (_, ?x)) (mkStream _ _ ?q _) = run (_ (_, ?y)) (mkStream _ _ ?q' _) =>
      replace x with y by lia; replace q with q' by lia; reflexivity end.
  - replace (size <? 128) with false by (symmetry; apply N.ltb_ge; lia).
    replace (size <? 16384) with false by (symmetry; apply N.ltb_ge; lia).
    replace (size <? 2097152) with false by (symmetry; apply N.ltb_ge; lia).
    assert (E : size = (size / 2097152) * 2097152 + ((size / 16384) mod 128) * 16384
                       + ((size / 128) mod 128) * 128 + size mod 128) by lia.
    remember (size / 2097152) as a eqn:Ea. remember ((size / 16384) mod 128) as b eqn:Eb.
    remember ((size / 128) mod 128) as c eqn:Ec. remember (size mod 128) as e eqn:Ee.
    assert (Ba : a < 128) by (clear -H Ea; lia).
    assert (Bb : b < 128) by (rewrite Eb; apply desc_mod128_lt).
    assert (Bc : c < 128) by (rewrite Ec; apply desc_mod128_lt).
    assert (Be : e < 128) by (rewrite Ee; apply desc_mod128_lt).
    clear Ea Eb Ec Ee.
    assert (Ba' : 128 + a < 256 ^ N.of_nat 1) by (rewrite pow256_1; lia).
    assert (Bb' : 128 + b < 256 ^ N.of_nat 1) by (rewrite pow256_1; lia).
    assert (Bc' : 128 + c < 256 ^ N.of_nat 1) by (rewrite pow256_1; lia).
    assert (Be' : e < 256 ^ N.of_nat 1) by (rewrite pow256_1; lia).
    rewrite <- !app_assoc.
    desc_rd_hi. desc_rd_hi. desc_rd_hi. desc_rd_lo. cbn [bind].
    match goal with |- run (_ (_, ?x)) (mkStream _ _ ?q _) = run (_ (_, ?y)) (mkStream _ _ ?q' _) =>
      replace x with y by lia; replace q with q' by lia; reflexivity end.
Qed.

(** [read_desc] after [write_desc], at any position and before any suffix *)
Theorem desc_prefix_roundtrip {A} tag size rest (k : N * N -> prog A) d l p :
  tag < 256 -> size < 2 ^ 28 ->
  run (bind read_desc k) (mkStream d l p (wout (write_desc tag size) ++ rest))
  = run (k (tag, size)) (mkStream d l (p + 1 + size_of_length size) rest).
Proof.
  intros Ht Hs. destruct (write_desc_out tag size Hs) as (_ & _ & ->).
  rewrite <- app_assoc. now apply run_read_desc_iso.
Qed.

Print Assumptions slconfig_roundtrip.
Print Assumptions decspecific_roundtrip.
Print Assumptions decconfig_roundtrip.
Print Assumptions esdesc_roundtrip.
Print Assumptions esds_roundtrip.
Print Assumptions mp4a_roundtrip.
Print Assumptions desc_prefix_roundtrip.
