(** * Kit for "every value a decoder returns is well formed" (second half of property C04), group G2.

    [post c Q]: on ANY stream whose cached view and whose data are byte strings (every element below
    256), IF [c] returns [Ok a] THEN [Q a].  Nothing is claimed for errors, panics or exhausted fuel.
    The stream invariant [SI] is preserved by every program ([run_SI]), so the postcondition is a
    predicate on the returned value only.  Rules: structural ([post_ret], [post_bind], [post_conseq],
    [post_if], ...), the reads of Prim.v ([post_rd_u]: the value read is below 256^w, [post_rd_i]: it fits
    the signed width, [post_rd_vec]/[post_rd_arr]: the bytes read are bytes and there are n of them),
    the counted loop [post_rd_n], [lift], positions and seeks (no information), and the generic
    corollary [reencode_fixpoint_of_roundtrip] that turns [leaf_roundtrip] + "decoded values are wf"
    into "re-encoding is a fixpoint". *)
From MP4 Require Export Kit VlKit.
From Coq Require Import ZifyN ZifyNat ZifyBool.
Open Scope string_scope.
Open Scope list_scope.
Open Scope N_scope.

(** ** The stream invariant *)
Definition SI (s : stream) : Prop := bytes_ok (s_view s) = true /\ bytes_ok (s_data s) = true.

Lemma bytes_ok_dropN n l : bytes_ok l = true -> bytes_ok (dropN n l) = true.
Proof.
  revert n; induction l as [|b t IH]; intros n H; cbn [dropN].
  - now destruct (n =? 0).
  - destruct (n =? 0); [exact H|]. apply IH.
    cbn [bytes_ok forallb] in H. apply andb_true_iff in H as [_ H]. exact H.
Qed.

Lemma bytes_ok_cons b t : bytes_ok (b :: t) = true <-> b < 256 /\ bytes_ok t = true.
Proof.
  cbn [bytes_ok forallb]. fold (bytes_ok t). unfold byte_ok. rewrite andb_true_iff, N.ltb_lt. tauto.
Qed.

Lemma seek_abs_SI s p : SI s -> SI (seek_abs s p).
Proof.
  intros [Hv Hd]. unfold seek_abs. destruct (s_pos s <=? p); split; cbn [s_view s_data]; auto;
    now apply bytes_ok_dropN.
Qed.

Lemma run_SI {A} (c : prog A) s : SI s -> SI (snd (run c s)).
Proof.
  revert s; induction c as [a|e|x| |n k IH|q k IH|d k IH|k IH|n k IH|k IH]; intros s Hs;
    cbn [run snd]; auto.
  - destruct (n =? 0); auto.
    destruct (splitN n (s_view s)) as [[h r]|] eqn:E.
    + apply IH. destruct Hs as [Hv Hd]. split; cbn [s_view s_data]; auto.
      apply splitN_some in E as [E _]. rewrite E, bytes_ok_app in Hv.
      apply andb_true_iff in Hv as [_ Hv]. exact Hv.
    + cbn [snd]. destruct Hs as [Hv Hd]. split; cbn [eof_stream s_view s_data]; auto.
  - apply IH. now apply seek_abs_SI.
  - unfold seek_cur.
    destruct ((Z.of_N (s_pos s) + d <? 0) || (Z.of_N U64 <=? Z.of_N (s_pos s) + d))%Z; cbn [snd]; auto.
    apply IH. now apply seek_abs_SI.
Qed.

(** ** The judgement *)
Definition post {A} (c : prog A) (Q : A -> Prop) : Prop :=
  forall s a s', SI s -> run c s = (Ok a, s') -> Q a.

Lemma post_ret {A} (a : A) (Q : A -> Prop) : Q a -> post (Ret a) Q.
Proof. intros H s a' s' _ E. cbn [run] in E. inversion E; subst. exact H. Qed.

Lemma post_throw {A} e (Q : A -> Prop) : post (Throw e) Q.
Proof. intros s a s' _ E. cbn [run] in E. discriminate. Qed.

Lemma post_crash {A} x (Q : A -> Prop) : post (Crash x) Q.
Proof. intros s a s' _ E. cbn [run] in E. discriminate. Qed.

Lemma post_spin {A} (Q : A -> Prop) : post Spin Q.
Proof. intros s a s' _ E. cbn [run] in E. discriminate. Qed.

Lemma post_bind {A B} (c : prog A) (R : A -> Prop) (f : A -> prog B) (Q : B -> Prop) :
  post c R -> (forall a, R a -> post (f a) Q) -> post (bind c f) Q.
Proof.
  intros Hc Hf s b s' Hs E. rewrite run_bind in E.
  pose proof (run_SI c s Hs) as Hs1.
  destruct (run c s) as [[a|e|x|] s1] eqn:E1; try discriminate.
  cbn [snd] in Hs1. exact (Hf a (Hc s a s1 Hs E1) s1 b s' Hs1 E).
Qed.

Lemma post_conseq {A} (c : prog A) (Q Q' : A -> Prop) :
  post c Q -> (forall a, Q a -> Q' a) -> post c Q'.
Proof. intros H HQ s a s' Hs E. apply HQ. exact (H s a s' Hs E). Qed.

Lemma post_true {A} (c : prog A) : post c (fun _ => True).
Proof. intros s a s' _ _. exact I. Qed.

Lemma post_and {A} (c : prog A) (Q1 Q2 : A -> Prop) :
  post c Q1 -> post c Q2 -> post c (fun a => Q1 a /\ Q2 a).
Proof. intros H1 H2 s a s' Hs E. split; eauto. Qed.

Lemma post_if {A} (b : bool) (c1 c2 : prog A) (Q : A -> Prop) :
  (b = true -> post c1 Q) -> (b = false -> post c2 Q) -> post (if b then c1 else c2) Q.
Proof. destruct b; auto. Qed.

(** [bind] of a program that carries no information *)
Lemma post_bind_any {A B} (c : prog A) (f : A -> prog B) (Q : B -> Prop) :
  (forall a, post (f a) Q) -> post (bind c f) Q.
Proof. intros H. apply post_bind with (R := fun _ => True); [apply post_true|auto]. Qed.

Lemma post_lift {A} (r : res A) : post (lift r) (fun a => r = Ok a).
Proof. intros s a s' _ E. rewrite run_lift in E. inversion E; subst. reflexivity. Qed.

(** ** Primitive nodes *)
Lemma post_RdExact {A} n (k : bytes -> prog A) (Q : A -> Prop) :
  (forall h, bytes_ok h = true -> lenN h = n -> post (k h) Q) -> post (RdExact n k) Q.
Proof.
  intros H s a s' Hs E. cbn [run] in E.
  destruct (N.eqb_spec n 0) as [->|Hn].
  - exact (H [] eq_refl eq_refl s a s' Hs E).
  - destruct (splitN n (s_view s)) as [[h r]|] eqn:E1; [|discriminate].
    apply splitN_some in E1 as [Ev El]. destruct Hs as [Hv Hd].
    rewrite Ev, bytes_ok_app in Hv. apply andb_true_iff in Hv as [Hh Hr].
    refine (H h Hh El _ a s' _ E). split; cbn [s_view s_data]; auto.
Qed.

Lemma post_SeekTo {A} p (k : prog A) (Q : A -> Prop) : post k Q -> post (SeekTo p k) Q.
Proof. intros H s a s' Hs E. cbn [run] in E. exact (H _ a s' (seek_abs_SI s p Hs) E). Qed.

Lemma post_SeekRel {A} d (k : prog A) (Q : A -> Prop) : post k Q -> post (SeekRel d k) Q.
Proof.
  intros H s a s' Hs E. cbn [run] in E. unfold seek_cur in E.
  destruct ((Z.of_N (s_pos s) + d <? 0) || (Z.of_N U64 <=? Z.of_N (s_pos s) + d))%Z; [discriminate|].
  exact (H _ a s' (seek_abs_SI s _ Hs) E).
Qed.

Lemma post_GetPos {A} (k : N -> prog A) (Q : A -> Prop) : (forall p, post (k p) Q) -> post (GetPos k) Q.
Proof. intros H s a s' Hs E. cbn [run] in E. exact (H _ s a s' Hs E). Qed.

Lemma post_Alloc {A} n (k : prog A) (Q : A -> Prop) : post k Q -> post (Alloc n k) Q.
Proof. intros H s a s' Hs E. cbn [run] in E. exact (H s a s' Hs E). Qed.

Lemma post_Step {A} (k : prog A) (Q : A -> Prop) : post k Q -> post (Step k) Q.
Proof. intros H s a s' Hs E. cbn [run] in E. exact (H s a s' Hs E). Qed.

(** ** The reads of Prim.v *)
Lemma post_rd_u w : post (rd_u w) (fun x => x < 256 ^ N.of_nat w).
Proof.
  unfold rd_u. apply post_RdExact. intros h Hh Hl. apply post_ret.
  rewrite <- Hl. now apply unbe_lt.
Qed.

Lemma post_rd_u_fit w : post (rd_u w) (fun x => ufit w x = true).
Proof. eapply post_conseq; [apply post_rd_u|]. intros x H. unfold ufit. now apply N.ltb_lt. Qed.

Lemma post_rd_i w : (0 < w)%nat -> post (rd_i w) (fun z => sfit w z = true).
Proof.
  intros Hw. unfold rd_i. apply post_RdExact. intros h Hh Hl. apply post_ret.
  unfold sfit. apply to_signed_fits; [lia|].
  replace (2 ^ (8 * N.of_nat w)) with (256 ^ N.of_nat w) by (rewrite N.pow_mul_r; reflexivity).
  rewrite <- Hl. now apply unbe_lt.
Qed.

Lemma post_rd_arr n : post (rd_arr n) (fun l => bytes_ok l = true /\ lenN l = n).
Proof. unfold rd_arr. apply post_RdExact. intros h Hh Hl. apply post_ret. auto. Qed.

Lemma post_rd_vec n : post (rd_vec n) (fun l => bytes_ok l = true /\ lenN l = n).
Proof. unfold rd_vec. apply post_Alloc, post_RdExact. intros h Hh Hl. apply post_ret. auto. Qed.

Lemma post_read_header_ext :
  post read_header_ext (fun vf => ufit 1 (fst vf) = true /\ ufit 3 (snd vf) = true).
Proof.
  unfold read_header_ext, rd_u8, rd_u24.
  eapply post_bind; [apply post_rd_u_fit|]. intros v Hv.
  eapply post_bind; [apply post_rd_u_fit|]. intros f Hf.
  apply post_ret. auto.
Qed.

(** the counted loop *)
Lemma post_rd_n {A} (n : nat) (body : prog A) (R : A -> Prop) :
  post body R -> post (rd_n n body) (fun l => length l = n /\ Forall R l).
Proof.
  intros Hb. induction n as [|n IH]; cbn [rd_n].
  - apply post_ret. auto.
  - eapply post_bind; [exact Hb|]. intros x Hx.
    eapply post_bind; [exact IH|]. intros r [Hl Hr].
    apply post_ret. cbn [length]. auto.
Qed.

Lemma Forall_forallb {A} (q : A -> bool) l : Forall (fun x => q x = true) l -> forallb q l = true.
Proof. intros H. apply forallb_forall. now apply Forall_forall. Qed.

Lemma lenN_of_length {A} (l : list A) n : length l = N.to_nat n -> lenN l = n.
Proof. unfold lenN. lia. Qed.

Lemma ufit_intro w x : x < 256 ^ N.of_nat w -> ufit w x = true.
Proof. unfold ufit. apply N.ltb_lt. Qed.

(** the common epilogue [let e = start + size; skip_bytes_to(e); Ok(v)] *)
Lemma post_finish {A} m site start size (a : A) (Q : A -> Prop) :
  Q a -> post (bind (add64 m site start size) (fun e => bind (skip_bytes_to e) (fun _ => Ret a))) Q.
Proof.
  intros H. apply post_bind_any. intros e. unfold skip_bytes_to, seek_to. cbn [bind].
  apply post_SeekTo, post_ret. exact H.
Qed.

(** ** From the round trip and "decoded values are well formed" to the fixpoint statement *)
Lemma dropN_8_header a b pl : dropN 8 (be 4 a ++ be 4 b ++ pl) = pl.
Proof.
  rewrite app_assoc. apply dropN_app_n. rewrite lenN_app, !lenN_be. reflexivity.
Qed.

Lemma reencode_fixpoint_of_roundtrip {X} (wf : X -> bool) (size : X -> N) code enc dec payload :
  leaf_roundtrip wf size code enc dec payload ->
  forall v, wf v = true -> size v < U32 ->
    wfin (enc v) = Ok (size v) /\
    forall m' d l p post_, p + size v < 2 ^ 63 ->
      run (dec m' (size v)) (mkStream d l (p + 8) (dropN 8 (wout (enc v)) ++ post_))
      = (Ok v, mkStream d l (p + size v) post_).
Proof.
  intros Hrt v Hw Hs. destruct (Hrt v Hw Hs) as (H1 & _ & H3 & _ & H5).
  split; [exact H1|]. intros m' d l p post_ Hp.
  rewrite H3, dropN_8_header. now apply H5.
Qed.

(** ** Tactics: one step through a decoder *)
Ltac post_step :=
  lazymatch goal with
  | |- post (bind (box_start _) _) _ => apply post_bind_any; intros ?start
  | |- post (bind read_header_ext _) _ =>
      eapply post_bind; [apply post_read_header_ext|];
      let vf := fresh "vf" in let Hv := fresh "Hver" in let Hf := fresh "Hflags" in
      intros vf [Hv Hf]; destruct vf as [?version ?flags]; cbn [fst snd] in Hv, Hf
  | |- post (bind (alloc _) _) _ => apply post_bind_any; intros _
  | |- post (bind get_pos _) _ => apply post_bind_any; intros ?pos
  | |- post (bind (add64 _ _ _ _) (fun _ => bind (skip_bytes_to _) (fun _ => Ret _))) _ => apply post_finish
  | |- post (bind (add64 _ _ _ _) _) _ => apply post_bind_any; intros ?e
  | |- post (if _ then Throw _ else _) _ => apply post_if; [intros _; apply post_throw|intros ?Hcmp]
  | |- post (Throw _) _ => apply post_throw
  | |- post (Ret _) _ => apply post_ret
  end.
