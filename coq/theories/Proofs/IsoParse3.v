(** * The independent ISO parser on rendered boxes — stage 3: header fields and [parse_trak]

    Field extraction from [iso_tkhd_payload] / [iso_mdhd_payload] / [iso_hdlr_payload] / [iso_mvhd_payload],
    and [parse_trak] ([Iso/IsoFile.v]) on a box whose payload is [iso_trak_payload tk] for a well-formed
    [tk] ([trak_rt_wf]) with exactly one sample entry. *)
From MP4 Require Import IsoFile LayoutKit IsoCont IsoParse1 IsoParse2 MuxMoovDefs MuxMoovTables.
From MP4 Require Import RtStbl RtMinf RtMdia RtTrak.
From MP4 Require Import IsoStbl IsoMinf IsoMdia IsoTrak IsoTkhd IsoMdhd IsoHdlr IsoDinf IsoVmhd IsoSmhd IsoEdts IsoMetaBox IsoMoov.
From Coq Require Import Lia ZArith NArith List Bool ZifyN ZifyNat ZifyBool.
Import ListNotations.
Open Scope list_scope.
Open Scope N_scope.

(** ** Reading one field of a concatenation of [be w x] *)
Lemma fld_skip a rest o o' w k : lenN a = k -> o = k + o' -> fld (a ++ rest) o w = fld rest o' w.
Proof.
  intros Ha ->. unfold fld. rewrite lenN_app, Ha.
  replace (k + o') with (o' + k) by lia. rewrite <- dropN_dropN, (dropN_app_n k) by exact Ha.
  destruct (N.ltb_spec (k + lenN rest) (o' + k + w)), (N.ltb_spec (lenN rest) (o' + w)); try reflexivity; exfalso; lia.
Qed.

Lemma fld_end w x : x < 256 ^ N.of_nat w -> fld (be w x) 0 (N.of_nat w) = Some x.
Proof. intros H. rewrite <- (app_nil_r (be w x)). now apply fld_at0. Qed.

Ltac fld_go :=
  repeat match goal with
         | |- fld (be ?n ?x ++ ?rest) ?o ?w = _ =>
             let k := eval vm_compute in (N.of_nat n) in
             let ok := eval vm_compute in (k <=? o) in
             lazymatch ok with true => idtac end;
             let o' := eval vm_compute in (o - k) in
             rewrite (fld_skip (be n x) rest o o' w k (lenN_be n x) eq_refl)
         end;
  match goal with
  | |- fld (be ?n ?x ++ ?rest) 0 _ = _ => apply (fld_at0 n x rest)
  | |- fld (be ?n ?x) 0 _ = _ => apply (fld_end n x)
  end.

Ltac fit_go := first [ apply ufit_lt; assumption | apply ufit_version; assumption | reflexivity ].

Lemma tkhd_fields v : tkhd_wf v = true ->
  let p := iso_tkhd_payload v in
  let tv := tkhd_version v in
  fld p 0 1 = Some tv /\
  fld p (if tv =? 1 then 20 else 12) 4 = Some (tkhd_track_id v) /\
  (if tv =? 1 then fld p 28 8 else fld p 20 4) = Some (tkhd_duration v) /\
  fld p (if tv =? 1 then 88 else 76) 4 = Some (tkhd_width v) /\
  fld p (if tv =? 1 then 92 else 80) 4 = Some (tkhd_height v) /\
  lenN p = (if tv =? 1 then 96 else 84).
Proof.
  intros H. cbv zeta. unfold tkhd_wf in H. sp.
  unfold iso_tkhd_payload, iso_tkhd_matrix, iso_tkhd_i32.
  destruct (tkhd_version v =? 1) eqn:E; sp; rewrite <- !app_assoc;
    (repeat apply conj; [fld_go; fit_go | fld_go; fit_go | fld_go; fit_go | fld_go; fit_go | fld_go; fit_go
                        | rewrite !lenN_app, !lenN_be; reflexivity]).
Qed.

Lemma mdhd_fields v : mdhd_wf v = true ->
  let p := iso_mdhd_payload v in
  let mv := mdhd_version v in
  fld p 0 1 = Some mv /\
  fld p (if mv =? 1 then 20 else 12) 4 = Some (mdhd_timescale v) /\
  (if mv =? 1 then fld p 24 8 else fld p 16 4) = Some (mdhd_duration v) /\
  fld p (if mv =? 1 then 32 else 20) 2 = Some (iso_mdhd_lang (mdhd_language v)) /\
  lenN p = (if mv =? 1 then 36 else 24).
Proof.
  intros H. cbv zeta. unfold mdhd_wf in H. sp.
  assert (HL : iso_mdhd_lang (mdhd_language v) < 256 ^ N.of_nat 2).
  { unfold iso_mdhd_lang. destruct (mdhd_language v) as [|a [|b [|c [|d t]]]]; try (vm_compute; reflexivity).
    match goal with Hl : mdhd_lang_wf _ = true |- _ => unfold mdhd_lang_wf, in_range in Hl end. sp.
    repeat match goal with Hx : (_ <=? _) = true |- _ => apply N.leb_le in Hx end.
    unfold IsoTables.iso_lang_pack. rewrite pow256_2. lia. }
  unfold iso_mdhd_payload.
  destruct (mdhd_version v =? 1) eqn:E; sp; rewrite <- !app_assoc;
    (repeat apply conj; [fld_go; fit_go | fld_go; fit_go | fld_go; fit_go | fld_go; exact HL
                        | rewrite !lenN_app, !lenN_be; reflexivity]).
Qed.

Lemma hdlr_fields v : hdlr_wf v = true -> fld (iso_hdlr_payload v) 8 4 = Some (hdlr_handler_type v).
Proof.
  intros H. unfold hdlr_wf in H. sp. unfold iso_hdlr_payload. rewrite <- !app_assoc. fld_go. fit_go.
Qed.

Lemma mvhd_fields v : mvhd_wf v = true ->
  let p := iso_mvhd_payload v in
  let mv := mvhd_version v in
  fld p 0 1 = Some mv /\
  fld p (if mv =? 1 then 20 else 12) 4 = Some (mvhd_timescale v) /\
  (if mv =? 1 then fld p 24 8 else fld p 16 4) = Some (mvhd_duration v) /\
  lenN p = (if mv =? 1 then 112 else 100).
Proof.
  intros H. cbv zeta. unfold mvhd_wf in H. sp.
  unfold iso_mvhd_payload, iso_i32.
  destruct (mvhd_version v =? 1) eqn:E; sp; rewrite <- !app_assoc;
    (repeat apply conj; [fld_go; fit_go | fld_go; fit_go | fld_go; fit_go
                        | rewrite !lenN_app, !lenN_be; reflexivity]).
Qed.

(** ** The container boxes of a track as lists of children *)
Definition trak_children (v : trak) : list child :=
  [ch 0x746b6864 (iso_tkhd_payload (trak_tkhd v))]
  ++ optc 0x65647473 iso_edts_payload (trak_edts v)
  ++ [ch 0x6d646961 (iso_mdia_payload (trak_mdia v))]
  ++ optc 0x6d657461 iso_meta_payload (trak_meta v).

Definition mdia_children (v : mdia) : list child :=
  [ch 0x6d646864 (iso_mdhd_payload (mdia_mdhd v))] ++ [ch 0x68646c72 (iso_hdlr_payload (mdia_hdlr v))]
  ++ [ch 0x6d696e66 (iso_minf_payload (mdia_minf v))].

Definition minf_children (v : minf) : list child :=
  optc 0x766d6864 iso_vmhd_payload (minf_vmhd v) ++ optc 0x736d6864 iso_smhd_payload (minf_smhd v)
  ++ [ch 0x64696e66 (iso_dinf_payload (minf_dinf v))] ++ [ch 0x7374626c (iso_stbl_payload (minf_stbl v))].

Definition dinf_children (v : dinf) : list child := [ch 0x64726566 (iso_dref_payload (dinf_dref v))].

Lemma iso_trak_payload_render v : iso_trak_payload v = render (trak_children v).
Proof.
  unfold iso_trak_payload, trak_children.
  rewrite !render_app, <- !iso_opt_render, !render_one, <- !iso_box_ch. reflexivity.
Qed.
Lemma iso_mdia_payload_render v : iso_mdia_payload v = render (mdia_children v).
Proof.
  unfold iso_mdia_payload, mdia_children.
  rewrite !render_app, !render_one, <- !iso_box_ch. reflexivity.
Qed.
Lemma iso_minf_payload_render v : iso_minf_payload v = render (minf_children v).
Proof.
  unfold iso_minf_payload, minf_children.
  rewrite !render_app, <- !iso_opt_render, !render_one, <- !iso_box_ch. reflexivity.
Qed.
Lemma iso_dinf_payload_render v : iso_dinf_payload v = render (dinf_children v).
Proof.
  unfold iso_dinf_payload, dinf_children, iso_dinf_box. rewrite render_one, <- iso_box_ch. reflexivity.
Qed.

Ltac small_go :=
  repeat first [ apply Forall_app; split | apply Forall_cons | apply Forall_nil
               | apply small_optc; vm_compute; reflexivity | apply small_ch; vm_compute; reflexivity ].

Lemma trak_children_small v : Forall small_child (trak_children v).
Proof. unfold trak_children. small_go. Qed.
Lemma mdia_children_small v : Forall small_child (mdia_children v).
Proof. unfold mdia_children. small_go. Qed.
Lemma minf_children_small v : Forall small_child (minf_children v).
Proof. unfold minf_children. small_go. Qed.
Lemma dinf_children_small v : Forall small_child (dinf_children v).
Proof. unfold dinf_children. small_go. Qed.

(** a child's payload is shorter than the parent's *)
Lemma sub_len cs code p : In (ch code p) cs -> total_len cs + 8 < U32 -> lenN p + 16 < U32.
Proof. intros Hin Ht. pose proof (c_len_le_total _ _ Hin) as H. rewrite c_len_ch in H. lia. Qed.

Ltac finds_go :=
  repeat apply conj; unfold find_one, find_opt;
  rewrite !find_all_app, ?find_all_optc, ?find_all_single;
  unfold TKHD, MDIA, MDHD, HDLR, MINF, STBL, DINF; eqb_closed; cbv iota; cbn [app];
  eexists; reflexivity.

Lemma trak_finds off v :
  let bs := iboxes_of off (trak_children v) in
  (exists o, find_one TKHD bs = Some (ibox_of o (ch 0x746b6864 (iso_tkhd_payload (trak_tkhd v))))) /\
  (exists o, find_one MDIA bs = Some (ibox_of o (ch 0x6d646961 (iso_mdia_payload (trak_mdia v))))).
Proof. intros bs. unfold bs, trak_children. rewrite !iboxes_of_app. finds_go. Qed.

Lemma mdia_finds off v :
  let bs := iboxes_of off (mdia_children v) in
  (exists o, find_one MDHD bs = Some (ibox_of o (ch 0x6d646864 (iso_mdhd_payload (mdia_mdhd v))))) /\
  (exists o, find_one HDLR bs = Some (ibox_of o (ch 0x68646c72 (iso_hdlr_payload (mdia_hdlr v))))) /\
  (exists o, find_one MINF bs = Some (ibox_of o (ch 0x6d696e66 (iso_minf_payload (mdia_minf v))))).
Proof. intros bs. unfold bs, mdia_children. rewrite !iboxes_of_app. finds_go. Qed.

Lemma minf_finds off v :
  let bs := iboxes_of off (minf_children v) in
  (exists o, find_one STBL bs = Some (ibox_of o (ch 0x7374626c (iso_stbl_payload (minf_stbl v))))) /\
  (exists o, find_opt DINF bs = Some (Some (ibox_of o (ch 0x64696e66 (iso_dinf_payload (minf_dinf v)))))).
Proof. intros bs. unfold bs, minf_children. rewrite !iboxes_of_app. finds_go. Qed.

(** ** [parse_trak] *)
Definition itrack_of (tk : trak) (code : N) (p : bytes) : itrack :=
  let th := trak_tkhd tk in
  let mh := mdia_mdhd (trak_mdia tk) in
  mkItrack (tkhd_track_id th) (tkhd_version th) (tkhd_duration th) (tkhd_width th) (tkhd_height th)
           (mdhd_version mh) (mdhd_timescale mh) (mdhd_duration mh) (iso_mdhd_lang (mdhd_language mh))
           (hdlr_handler_type (mdia_hdlr (trak_mdia tk))) code p
           (wire_tables (stbl_tables (minf_stbl (mdia_minf (trak_mdia tk))))) true.

Theorem parse_trak_iso off c tk code p :
  c_payload c = iso_trak_payload tk ->
  trak_rt_wf tk = true ->
  stsd_entry (stbl_stsd (minf_stbl (mdia_minf (trak_mdia tk)))) = Some (code, p) ->
  lenN (iso_trak_payload tk) + 8 < U32 ->
  parse_trak (ibox_of off c) = Some (itrack_of tk code p).
Proof.
  intros Hp Hwf Hent Hlen.
  unfold trak_rt_wf in Hwf. sp.
  match goal with H : mdia_rt_wf _ = true |- _ => unfold mdia_rt_wf in H end. sp.
  match goal with H : minf_rt_wf _ = true |- _ => unfold minf_rt_wf in H end. sp.
  match goal with H : stbl_rt_wf _ = true |- _ => rewrite stbl_rt_wf_split in H end. sp.
  set (md := trak_mdia tk) in *. set (mi := mdia_minf md) in *. set (sb := minf_stbl mi) in *.
  (* sizes, from the outside in *)
  rewrite iso_trak_payload_render in Hp, Hlen. rewrite lenN_render in Hlen.
  assert (L1 : total_len (mdia_children md) + 8 < U32).
  { rewrite <- lenN_render, <- iso_mdia_payload_render.
    pose proof (sub_len (trak_children tk) 0x6d646961 (iso_mdia_payload md)) as H'.
    unfold trak_children at 1 in H'. fold md in H'. specialize (H' ltac:(rewrite !in_app_iff; right; right; left; now left) Hlen). clear -H'. lia. }
  assert (L2 : total_len (minf_children mi) + 8 < U32).
  { rewrite <- lenN_render, <- iso_minf_payload_render.
    pose proof (sub_len (mdia_children md) 0x6d696e66 (iso_minf_payload mi)) as H'.
    unfold mdia_children at 1 in H'. fold mi in H'. specialize (H' ltac:(rewrite !in_app_iff; right; right; now left) L1). clear -H'. lia. }
  assert (L3 : lenN (iso_stbl_payload sb) + 8 < U32).
  { pose proof (sub_len (minf_children mi) 0x7374626c (iso_stbl_payload sb)) as H'.
    unfold minf_children at 1 in H'. fold sb in H'. specialize (H' ltac:(rewrite !in_app_iff; right; right; right; now left) L2). clear -H'. lia. }
  assert (L4 : total_len (dinf_children (minf_dinf mi)) + 8 < U32).
  { rewrite <- lenN_render, <- iso_dinf_payload_render.
    pose proof (sub_len (minf_children mi) 0x64696e66 (iso_dinf_payload (minf_dinf mi))) as H'.
    unfold minf_children at 1 in H'. specialize (H' ltac:(rewrite !in_app_iff; right; right; left; now left) L2). clear -H'. lia. }
  pose proof (small_children_wf _ (trak_children_small tk) Hlen) as W0.
  pose proof (small_children_wf _ (mdia_children_small md) L1) as W1.
  pose proof (small_children_wf _ (minf_children_small mi) L2) as W2.
  pose proof (small_children_wf _ (dinf_children_small (minf_dinf mi)) L4) as W4.
  (* the boxes *)
  unfold parse_trak. rewrite (children_render off c _ Hp W0). cbn [opt_bind].
  destruct (trak_finds (off + c_hlen c) tk) as ((o1 & F1) & (o2 & F2)). rewrite F1, F2. cbn [opt_bind]. fold md.
  rewrite (children_render o2 (ch 0x6d646961 (iso_mdia_payload md)) _ (iso_mdia_payload_render md) W1). cbn [opt_bind].
  destruct (mdia_finds (o2 + c_hlen (ch 0x6d646961 (iso_mdia_payload md))) md) as ((o3 & F3) & (o4 & F4) & (o5 & F5)).
  rewrite F3, F4, F5. cbn [opt_bind]. fold mi.
  rewrite (children_render o5 (ch 0x6d696e66 (iso_minf_payload mi)) _ (iso_minf_payload_render mi) W2). cbn [opt_bind].
  destruct (minf_finds (o5 + c_hlen (ch 0x6d696e66 (iso_minf_payload mi))) mi) as ((o6 & F6) & (o7 & F7)).
  rewrite F6, F7. cbn [opt_bind]. fold sb.
  rewrite (children_render o7 (ch 0x64696e66 (iso_dinf_payload (minf_dinf mi))) _ (iso_dinf_payload_render _) W4). cbn [opt_bind].
  match goal with H : stbl_tables_wf sb = true |- _ =>
    rewrite (parse_stbl_iso o6 (ch 0x7374626c (iso_stbl_payload sb)) sb code p eq_refl H Hent L3) end.
  cbn [opt_bind]. cbn [ib_payload ibox_of c_payload ch].
  (* the header fields *)
  match goal with H : tkhd_wf _ = true |- _ => destruct (tkhd_fields _ H) as (A1 & A2 & A3 & A4 & A5 & A6) end.
  match goal with H : mdhd_wf _ = true |- _ => destruct (mdhd_fields _ H) as (B1 & B2 & B3 & B4 & B5) end.
  match goal with H : hdlr_wf _ = true |- _ => pose proof (hdlr_fields _ H) as C1 end.
  rewrite A1. cbn [opt_bind]. rewrite B1. cbn [opt_bind].
  rewrite A2. cbn [opt_bind]. rewrite A3. cbn [opt_bind]. rewrite A4. cbn [opt_bind]. rewrite A5. cbn [opt_bind].
  rewrite A6, N.eqb_refl. cbn [opt_bind].
  rewrite B2. cbn [opt_bind]. rewrite B3. cbn [opt_bind]. rewrite B4. cbn [opt_bind].
  rewrite B5, N.eqb_refl. cbn [opt_bind].
  rewrite C1. cbn [opt_bind]. reflexivity.
Qed.

Print Assumptions tkhd_fields.
Print Assumptions mdhd_fields.
Print Assumptions mvhd_fields.
Print Assumptions parse_trak_iso.
