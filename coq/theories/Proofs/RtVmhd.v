(** Round trip of [VmhdBox] *)
From MP4 Require Import Kit BoxVmhd IsoVmhd.
From Coq Require Import ZifyN ZifyNat ZifyBool.
Open Scope string_scope.
Open Scope list_scope.
Open Scope N_scope.

Lemma vmhd_code : u32_of_boxtype (box_type_of "VmhdBox") = 0x766d6864.
Proof. vm_compute. reflexivity. Qed.

Lemma vmhd_size_eq v : vmhd_size v = 20.
Proof. reflexivity. Qed.

Lemma vmhd_enc v : vmhd_wf v = true ->
  wfin (enc_vmhd v) = Ok (vmhd_size v) /\
  wout (enc_vmhd v) = be 4 (vmhd_size v) ++ be 4 0x766d6864 ++ iso_vmhd_payload v.
Proof.
  intros H. unfold enc_vmhd, iso_vmhd_payload.
  unfold vmhd_wf, vmhd_rgb_wf in H. split_andb.
  rewrite write_header_small by (rewrite vmhd_size_eq; reflexivity).
  rewrite vmhd_code.
  rewrite write_header_ext_small by assumption.
  enc_norm. split; [reflexivity|].
  rewrite <- ?app_assoc. reflexivity.
Qed.

Lemma vmhd_dec m v d l p post : vmhd_wf v = true -> p + vmhd_size v < 2^63 ->
  run (dec_vmhd m (vmhd_size v)) (mkStream d l (p + 8) (iso_vmhd_payload v ++ post))
  = (Ok v, mkStream d l (p + vmhd_size v) post).
Proof.
  intros H Hp. unfold dec_vmhd, iso_vmhd_payload.
  unfold vmhd_wf, vmhd_rgb_wf in H. split_andb.
  pose proof (vmhd_size_eq v) as Hsz.
  rewrite <- !app_assoc.
  prog_norm. cbn [run s_pos].
  rewrite run_sub64_ok by (clear; unfold HEADER_SIZE, Tables.HEADER_SIZE; lia).
  do 6 rd_step.
  rewrite run_add64_ok by (clear -Hsz Hp; unfold HEADER_SIZE, Tables.HEADER_SIZE, U64; lia).
  prog_norm.
  rewrite run_SeekTo_here by (clear -Hsz; unfold HEADER_SIZE, Tables.HEADER_SIZE; lia).
  cbn [run]. f_equal.
  - destruct v as [? ? ? []]; reflexivity.
  - f_equal. clear -Hsz. lia.
Qed.

Lemma vmhd_payload_len v : lenN (iso_vmhd_payload v) + 8 = vmhd_size v.
Proof.
  rewrite vmhd_size_eq. unfold iso_vmhd_payload.
  rewrite ?lenN_app, ?lenN_be. reflexivity.
Qed.

Lemma vmhd_appender v : vmhd_wf v = true -> vmhd_size v < U32 -> appender (enc_vmhd v).
Proof.
  intros H Hs. unfold enc_vmhd. rewrite write_header_small by exact Hs.
  unfold vmhd_wf, vmhd_rgb_wf in H. split_andb.
  rewrite write_header_ext_small by assumption.
  cbn [wbind appender wr wr_u8 wr_u16 wr_u32 wr_u64 wr_u wr_i16 wr_i32 wr_i]. exact I.
Qed.

Theorem vmhd_roundtrip : leaf_roundtrip vmhd_wf vmhd_size 0x766d6864 enc_vmhd dec_vmhd iso_vmhd_payload.
Proof.
  intros v H Hs. destruct (vmhd_enc v H) as [H1 H2].
  split; [exact H1|]. split; [now apply vmhd_appender|]. split; [exact H2|].
  split; [now apply vmhd_payload_len|].
  intros m d l p post Hp. now apply vmhd_dec.
Qed.

Print Assumptions vmhd_roundtrip.
