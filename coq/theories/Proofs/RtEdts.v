(** Round trip of [EdtsBox] (edts.rs): one optional child, read without a loop *)
From MP4 Require Import KitCont BoxEdts IsoEdts IsoElst RtElst.
From Coq Require Import ZifyN ZifyNat ZifyBool.
Open Scope string_scope.
Open Scope list_scope.
Open Scope N_scope.

Lemma edts_code : u32_of_boxtype (box_type_of "EdtsBox") = 0x65647473.
Proof. vm_compute. reflexivity. Qed.
Lemma edts_bt_elst : boxtype_of_u32 0x656c7374 = ElstBox. Proof. vm_compute. reflexivity. Qed.

Lemma edts_enc v : edts_wf v = true -> edts_size v < U32 ->
  wspec (enc_edts v) (edts_size v) (be 4 (edts_size v) ++ be 4 0x65647473 ++ iso_edts_payload v).
Proof.
  intros H Hs. rewrite <- edts_code. unfold edts_wf in H.
  unfold enc_edts, iso_edts_payload.
  eapply wspec_out.
  - wspec_go. apply wspec_opt_child. intros x Hx. unfold edts_size in Hs. rewrite Hx in *. eexists.
    apply (cont_rt_wspec _ _ _ _ _ _ _ _ (cont_of_leaf _ _ _ _ _ _ elst_roundtrip)); [assumption|].
    clear -Hs. hdr_consts. lia.
  - rewrite <- ?app_assoc, ?app_nil_r. reflexivity.
Qed.

Lemma edts_payload_len v : edts_wf v = true -> edts_size v < U32 ->
  lenN (iso_edts_payload v) + 8 = edts_size v.
Proof.
  intros H Hs. unfold edts_wf in H. unfold iso_edts_payload, edts_size in *.
  destruct (edts_elst v) as [x|]; cbn [iso_opt].
  - rewrite lenN_iso_box.
    rewrite <- (cont_rt_len _ _ _ _ _ _ _ x (cont_of_leaf _ _ _ _ _ _ elst_roundtrip))
      by (first [assumption | clear -Hs; hdr_consts; lia]).
    hdr_consts. lia.
  - rewrite lenN_nil. hdr_consts. lia.
Qed.

Lemma edts_dec v fuel m d l p post : edts_wf v = true -> edts_size v < U32 ->
  p + edts_size v < 2 ^ 63 ->
  run (dec_edts_fuel fuel m (edts_size v)) (mkStream d l (p + 8) (iso_edts_payload v ++ post))
  = (Ok v, mkStream d l (p + edts_size v) post).
Proof.
  intros H Hs Hp. unfold edts_wf in H. unfold dec_edts_fuel, iso_edts_payload, edts_size in *.
  destruct v as [[x|]]; cbn [edts_elst iso_opt app] in *.
  - assert (Hsx : elst_size x < U32) by (clear -Hs; hdr_consts; lia).
    destruct (elst_roundtrip x H Hsx) as (_ & _ & _ & Hlen & Hdec).
    unfold iso_box. replace (8 + lenN (iso_elst_payload x)) with (elst_size x) by (clear -Hlen; lia).
    rewrite <- !app_assoc.
    rewrite run_box_start. rewrite run_get_pos_bind. cbn [s_pos].
    rewrite run_add64_ok by (clear -Hp; hdr_consts; unfold U64; lia).
    rewrite run_add64_ok by (clear -Hp; hdr_consts; unfold U64; lia).
    match goal with |- context [if ?a <=? ?b then _ else _] =>
      replace (a <=? b) with true by (symmetry; apply N.leb_le; clear -Hlen; hdr_consts; lia) end.
    rewrite !bind_bind.
    rewrite run_read_header_bind by (first [assumption | clear -Hlen; lia | clear; vm_compute; reflexivity]).
    cbv beta iota.
    match goal with |- context [if ?a <? ?b then _ else _] =>
      replace (a <? b) with false by (symmetry; apply N.ltb_ge; clear; hdr_consts; lia) end.
    rewrite edts_bt_elst. cbv iota. rewrite !bind_bind.
    erewrite run_bind_ok; [| apply Hdec; clear -Hp; hdr_consts; lia].
    cbn [bind].
    rewrite run_cont_finish; [| clear; hdr_consts; lia | clear -Hp; hdr_consts; lia].
    f_equal. f_equal. clear. hdr_consts. lia.
  - rewrite run_box_start. rewrite run_get_pos_bind. cbn [s_pos].
    rewrite run_add64_ok by (clear -Hp; hdr_consts; unfold U64; lia).
    rewrite run_add64_ok by (clear -Hp; hdr_consts; unfold U64; lia).
    match goal with |- context [if ?a <=? ?b then _ else _] =>
      replace (a <=? b) with false by (symmetry; apply N.leb_gt; clear; hdr_consts; lia) end.
    cbn [bind].
    rewrite run_cont_finish; [| clear; hdr_consts; lia | clear -Hp; hdr_consts; lia].
    f_equal; try (f_equal; clear; hdr_consts; lia).
Qed.

Theorem edts_roundtrip :
  cont_roundtrip edts_wf edts_size 0x65647473 enc_edts dec_edts_fuel iso_edts_payload (fun _ => 0%nat).
Proof.
  apply cont_roundtrip_intro.
  - apply edts_enc.
  - apply edts_payload_len.
  - intros; now apply edts_dec.
Qed.

Print Assumptions edts_roundtrip.
