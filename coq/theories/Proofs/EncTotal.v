(** * C17, last step: building and encoding [moov] never panics

    [MuxTotal.muxer_total_lemma] shows that [run_mux] (every muxer call up to, not including, the
    encoding of [moov] at the end of [write_end]) never panics.  This file does the rest:
    [moov_of_mfinal] (the [TrakBox]es of [Mp4TrackWriter::new] / [write_end]) and [enc_moov]
    (every [write_box] below [MoovBox]) never panic on what the muxer hands them, so
    [mux_bytes] -- the complete [write_start .. write_end] run -- never panics.

    Crash sites on this path (everything else is [wr (be ..)], which cannot fail):
    - [wr_u24] (byteorder's assertion): the flags word of every full box ([write_header_ext]) and
      [DecoderConfigDescriptor.buffer_size_db];
    - [wr_u48]: [HvcCBox.general_constraint_indicator_flag];
    - [wadd8] (unchecked [u8 + u8], a debug build panics): two sums in
      [DecoderSpecificDescriptor::write_desc], two in [DecoderConfigDescriptor::write_desc];
    - [avcc_new] ([AvcCBox::new] indexes [sps[1..=3]]).
    [WThrow] sites (mvhd/tkhd/mdhd version, stsz count, descriptor size) are errors, not panics. *)
From Coq Require Import List NArith ZArith Lia Bool String.
From MP4 Require Import WriterMoov MuxTotal.
Import ListNotations.
Open Scope list_scope.
Open Scope N_scope.

(** ** The predicate and its rules *)

Definition wsafe {A} (p : wprog A) : Prop := is_panic (wfin p) = false.

(** [wfin] commutes with [wbind] for every writer program (no [appender] hypothesis needed) *)
Lemma wfin_wbind {A B} (p : wprog A) (f : A -> wprog B) :
  wfin (wbind p f) = res_bind (wfin p) (fun a => wfin (f a)).
Proof.
  induction p as [a|e|x|l k IH|q k IH|k IH]; cbn [wbind wfin res_bind]; auto.
Qed.

Lemma wsafe_bind {A B} (p : wprog A) (f : A -> wprog B) :
  wsafe p -> (forall a, wsafe (f a)) -> wsafe (wbind p f).
Proof.
  unfold wsafe. intros Hp Hf. rewrite wfin_wbind.
  destruct (wfin p) as [a| | |]; cbn [res_bind is_panic] in *; auto.
Qed.

Lemma wsafe_ret {A} (a : A) : wsafe (WRet a).            Proof. reflexivity. Qed.
Lemma wsafe_throw {A} (e : err) : wsafe (@WThrow A e).   Proof. reflexivity. Qed.
Lemma wsafe_wr l : wsafe (wr l).                         Proof. reflexivity. Qed.
Lemma wsafe_wr_u w x : wsafe (wr_u w x).                 Proof. reflexivity. Qed.
Lemma wsafe_wr_i w z : wsafe (wr_i w z).                 Proof. reflexivity. Qed.

Lemma wsafe_wr_u24 x : x < U24 -> wsafe (wr_u24 x).
Proof. intros H. unfold wr_u24. apply N.ltb_lt in H. rewrite H. reflexivity. Qed.

Lemma wsafe_wr_u48 x : x < U48 -> wsafe (wr_u48 x).
Proof. intros H. unfold wr_u48. apply N.ltb_lt in H. rewrite H. reflexivity. Qed.

Lemma wsafe_wr_zeros n : wsafe (wr_zeros n).
Proof. induction n as [|n IH]; [reflexivity|exact IH]. Qed.

Lemma wsafe_wr_each {A B} (f : A -> wprog B) l : (forall x, wsafe (f x)) -> wsafe (wr_each f l).
Proof.
  intros Hf. induction l as [|x t IH]; cbn [wr_each]; [reflexivity|].
  apply wsafe_bind; [apply Hf|intros _; exact IH].
Qed.

Lemma wsafe_tbl_wr_each {A} (f : A -> wprog unit) l : (forall x, wsafe (f x)) -> wsafe (tbl_wr_each f l).
Proof.
  intros Hf. induction l as [|x t IH]; cbn [tbl_wr_each]; [reflexivity|].
  apply wsafe_bind; [apply Hf|intros _; exact IH].
Qed.

Lemma wsafe_vl_wr_each {A} (f : A -> wprog unit) l : (forall x, wsafe (f x)) -> wsafe (vl_wr_each f l).
Proof.
  intros Hf. induction l as [|x t IH]; cbn [vl_wr_each]; [reflexivity|].
  apply wsafe_bind; [apply Hf|intros _; exact IH].
Qed.

(** an unchecked [u8] sum: a debug build needs the sum to fit, a release build wraps *)
Definition dbg_lt (m : mode) (x W : N) : Prop := match m with Dbg => x < W | Rel => True end.

Lemma wsafe_wadd8 m site a b : dbg_lt m (a + b) U8 -> wsafe (wadd8 m site a b).
Proof.
  intros H. unfold wadd8, add_w, wsafe. destruct (N.ltb_spec (a + b) U8) as [Hlt|Hge]; [reflexivity|].
  destruct m; [cbn [dbg_lt] in H; lia|reflexivity].
Qed.

Lemma wsafe_write_header name size : wsafe (write_header name size).
Proof.
  unfold write_header. destruct (U32 <=? size);
    repeat (apply wsafe_bind; [exact (wsafe_wr_u _ _)|intros _]); exact (wsafe_ret _).
Qed.

Lemma wsafe_write_header_ext v f : f < U24 -> wsafe (write_header_ext v f).
Proof.
  intros H. unfold write_header_ext.
  apply wsafe_bind; [exact (wsafe_wr_u _ _)|intros _].
  apply wsafe_bind; [apply wsafe_wr_u24, H|intros _]. exact (wsafe_ret _).
Qed.

(** structural steps; leaves the side conditions ([_ < U24], [dbg_lt ..]) and calls of other encoders *)
Ltac wsafe_step :=
  lazymatch goal with
  | |- wsafe (wbind _ _) => apply wsafe_bind; [|intros ?]
  | |- wsafe (WRet _) => exact (wsafe_ret _)
  | |- wsafe (WThrow _) => exact (wsafe_throw _)
  | |- wsafe (write_header _ _) => exact (wsafe_write_header _ _)
  | |- wsafe (write_header_ext _ _) => apply wsafe_write_header_ext
  | |- wsafe (wr _) => exact (wsafe_wr _)
  | |- wsafe (wr_u _ _) => exact (wsafe_wr_u _ _)
  | |- wsafe (wr_u8 _) => exact (wsafe_wr_u _ _)
  | |- wsafe (wr_u16 _) => exact (wsafe_wr_u _ _)
  | |- wsafe (wr_u32 _) => exact (wsafe_wr_u _ _)
  | |- wsafe (wr_u64 _) => exact (wsafe_wr_u _ _)
  | |- wsafe (wr_i _ _) => exact (wsafe_wr_i _ _)
  | |- wsafe (wr_i8 _) => exact (wsafe_wr_i _ _)
  | |- wsafe (wr_i16 _) => exact (wsafe_wr_i _ _)
  | |- wsafe (wr_i32 _) => exact (wsafe_wr_i _ _)
  | |- wsafe (wr_zeros _) => exact (wsafe_wr_zeros _)
  | |- wsafe (wr_u24 _) => apply wsafe_wr_u24
  | |- wsafe (wr_u48 _) => apply wsafe_wr_u48
  | |- wsafe (wadd8 _ _ _ _) => apply wsafe_wadd8
  | |- wsafe (wr_each _ _) => apply wsafe_wr_each; intros ?
  | |- wsafe (tbl_wr_each _ _) => apply wsafe_tbl_wr_each; intros ?
  | |- wsafe (vl_wr_each _ _) => apply wsafe_vl_wr_each; intros ?
  | |- wsafe (match ?o with _ => _ end) => destruct o
  end.

Ltac wsafe_go := cbv zeta; repeat first [ wsafe_step | assumption ].

(** ** Leaf boxes.  The only condition of a full box is that its flags word fits 24 bits. *)

Lemma enc_mvhd_wsafe v : mvhd_flags v < U24 -> wsafe (enc_mvhd v).
Proof. intros H. unfold enc_mvhd, wr_matrix. wsafe_go. Qed.

Lemma enc_tkhd_wsafe v : tkhd_flags v < U24 -> wsafe (enc_tkhd v).
Proof. intros H. unfold enc_tkhd, wr_matrix. wsafe_go. Qed.

Lemma enc_mdhd_wsafe v : mdhd_flags v < U24 -> wsafe (enc_mdhd v).
Proof. intros H. unfold enc_mdhd. wsafe_go. Qed.

Lemma enc_hdlr_wsafe v : hdlr_flags v < U24 -> wsafe (enc_hdlr v).
Proof. intros H. unfold enc_hdlr. wsafe_go. Qed.

Lemma enc_vmhd_wsafe v : vmhd_flags v < U24 -> wsafe (enc_vmhd v).
Proof. intros H. unfold enc_vmhd. wsafe_go. Qed.

Lemma enc_smhd_wsafe v : smhd_flags v < U24 -> wsafe (enc_smhd v).
Proof. intros H. unfold enc_smhd. wsafe_go. Qed.

Lemma enc_url_wsafe v : url_flags v < U24 -> wsafe (enc_url v).
Proof. intros H. unfold enc_url. wsafe_go. Qed.

Definition np_dref (v : dref) : Prop :=
  dref_flags v < U24 /\ match dref_url v with Some u => url_flags u < U24 | None => True end.

Lemma enc_dref_wsafe v : np_dref v -> wsafe (enc_dref v).
Proof.
  intros [H Hu]. unfold enc_dref. cbv zeta.
  destruct (dref_url v) as [u|]; wsafe_go. apply enc_url_wsafe, Hu.
Qed.

Lemma enc_dinf_wsafe v : np_dref (dinf_dref v) -> wsafe (enc_dinf v).
Proof. intros H. unfold enc_dinf. wsafe_go. apply enc_dref_wsafe, H. Qed.

Lemma enc_stts_wsafe v : stts_flags v < U24 -> wsafe (enc_stts v).
Proof. intros H. unfold enc_stts, stts_wr_entry. wsafe_go. Qed.

Lemma enc_ctts_wsafe v : ctts_flags v < U24 -> wsafe (enc_ctts v).
Proof. intros H. unfold enc_ctts, ctts_wr_entry. wsafe_go. Qed.

Lemma enc_stss_wsafe v : stss_flags v < U24 -> wsafe (enc_stss v).
Proof. intros H. unfold enc_stss. wsafe_go. Qed.

Lemma enc_stsc_wsafe v : stsc_flags v < U24 -> wsafe (enc_stsc v).
Proof. intros H. unfold enc_stsc, stsc_wr_entry. wsafe_go. Qed.

Lemma enc_stsz_wsafe v : stsz_flags v < U24 -> wsafe (enc_stsz v).
Proof. intros H. unfold enc_stsz. wsafe_go. Qed.

Lemma enc_stco_wsafe v : stco_flags v < U24 -> wsafe (enc_stco v).
Proof. intros H. unfold enc_stco. wsafe_go. Qed.

Lemma enc_co64_wsafe v : co64_flags v < U24 -> wsafe (enc_co64 v).
Proof. intros H. unfold enc_co64. wsafe_go. Qed.

(** ** Sample entries *)

(** avc1 / avcC: no crash site at all *)
Lemma enc_avcc_wsafe v : wsafe (enc_avcc v).
Proof. unfold enc_avcc, enc_nalunit. wsafe_go. Qed.

Lemma enc_avc1_wsafe v : wsafe (enc_avc1 v).
Proof. unfold enc_avc1. wsafe_go. apply enc_avcc_wsafe. Qed.

(** hev1 / hvcC: the 48-bit constraint flags *)
Lemma enc_hvcc_wsafe v : hvcc_general_constraint_indicator_flag v < U48 -> wsafe (enc_hvcc v).
Proof. intros H. unfold enc_hvcc, enc_hvccarray, enc_hvccnalu. wsafe_go. Qed.

Lemma enc_hev1_wsafe v :
  hvcc_general_constraint_indicator_flag (hev1_hvcc v) < U48 -> wsafe (enc_hev1 v).
Proof. intros H. unfold enc_hev1. wsafe_go. apply enc_hvcc_wsafe, H. Qed.

(** vp09 / vpcC: two full boxes *)
Lemma enc_vpcc_wsafe v : vpcc_flags v < U24 -> wsafe (enc_vpcc v).
Proof. intros H. unfold enc_vpcc. wsafe_go. Qed.

Definition np_vp09 (v : vp09) : Prop := vp09_flags v < U24 /\ vpcc_flags (vp09_vpcc v) < U24.

Lemma enc_vp09_wsafe v : np_vp09 v -> wsafe (enc_vp09 v).
Proof. intros [H Hc]. unfold enc_vp09. wsafe_go. apply enc_vpcc_wsafe, Hc. Qed.

(** tx3g: no crash site *)
Lemma enc_tx3g_wsafe v : wsafe (enc_tx3g v).
Proof. unfold enc_tx3g. wsafe_go. Qed.

(** mp4a / esds and its descriptors: the four unchecked [u8] sums and the 24-bit buffer size *)
Lemma write_desc_len_wsafe size nbytes cnt : forall i, wsafe (write_desc_len size nbytes cnt i).
Proof. induction cnt as [|c IH]; intros i; cbn [write_desc_len]; wsafe_go. apply IH. Qed.

Lemma write_desc_wsafe tag size : wsafe (write_desc tag size).
Proof. unfold write_desc. wsafe_go. apply write_desc_len_wsafe. Qed.

Lemma enc_slconfig_wsafe v : wsafe (enc_slconfig v).
Proof. unfold enc_slconfig. wsafe_go; apply write_desc_wsafe. Qed.

Definition np_decspecific (m : mode) (v : decspecific) : Prop :=
  dbg_lt m (cast_w U8 (N.shiftl (decspecific_profile v) 3) + N.shiftr (decspecific_freq_index v) 1) U8 /\
  dbg_lt m (cast_w U8 (N.shiftl (decspecific_freq_index v) 7) + cast_w U8 (N.shiftl (decspecific_chan_conf v) 3)) U8.

Lemma enc_decspecific_wsafe m v : np_decspecific m v -> wsafe (enc_decspecific m v).
Proof. intros [Ha Hb]. unfold enc_decspecific. wsafe_go. apply write_desc_wsafe. Qed.

Definition np_decconfig (m : mode) (v : decconfig) : Prop :=
  decconfig_buffer_size_db v < U24 /\
  dbg_lt m (cast_w U8 (N.shiftl (decconfig_stream_type v) 2) + N.land (decconfig_up_stream v) 2 + 1) U8 /\
  np_decspecific m (decconfig_dec_specific v).

Lemma enc_decconfig_wsafe m v : np_decconfig m v -> wsafe (enc_decconfig m v).
Proof.
  intros (Hb & Hs & Hd). unfold enc_decconfig. cbv zeta.
  apply wsafe_bind; [apply write_desc_wsafe|intros _].
  apply wsafe_bind; [exact (wsafe_wr_u _ _)|intros _].
  (* the first sum; its value is what the second sum adds 1 to *)
  unfold wsafe. rewrite wfin_wbind. unfold wadd8 at 1, add_w.
  set (s := cast_w U8 (N.shiftl (decconfig_stream_type v) 2) + N.land (decconfig_up_stream v) 2) in *.
  assert (Hgo : forall a, dbg_lt m (a + 1) U8 ->
            is_panic (wfin (b <- wadd8 m "DecoderConfigDescriptor (stream_type << 2) + (up_stream & 2) + 1" a 1 ;;
                            wr_u8 b ;;; wr_u24 (decconfig_buffer_size_db v) ;;; wr_u32 (decconfig_max_bitrate v) ;;;
                            wr_u32 (decconfig_avg_bitrate v) ;;; enc_decspecific m (decconfig_dec_specific v) ;;;
                            WRet decconfig_desc_size)%wprog) = false).
  { intros a Ha. change (wsafe (b <- wadd8 m "DecoderConfigDescriptor (stream_type << 2) + (up_stream & 2) + 1" a 1 ;;
                            wr_u8 b ;;; wr_u24 (decconfig_buffer_size_db v) ;;; wr_u32 (decconfig_max_bitrate v) ;;;
                            wr_u32 (decconfig_avg_bitrate v) ;;; enc_decspecific m (decconfig_dec_specific v) ;;;
                            WRet decconfig_desc_size)%wprog).
    wsafe_go. apply enc_decspecific_wsafe, Hd. }
  destruct (N.ltb_spec s U8) as [Hlt|Hge].
  - cbn [wlift wfin res_bind]. apply Hgo. exact Hs.
  - destruct m.
    + cbn [dbg_lt] in Hs. lia.
    + cbn [wlift wfin res_bind]. apply Hgo. exact I.
Qed.

Definition np_esds (m : mode) (v : esds) : Prop :=
  esds_flags v < U24 /\ np_decconfig m (esdesc_dec_config (esds_es_desc v)).

Lemma enc_esdesc_wsafe m v : np_decconfig m (esdesc_dec_config v) -> wsafe (enc_esdesc m v).
Proof.
  intros H. unfold enc_esdesc. wsafe_go.
  - apply write_desc_wsafe.
  - apply enc_decconfig_wsafe, H.
  - apply enc_slconfig_wsafe.
Qed.

Lemma enc_esds_wsafe m v : np_esds m v -> wsafe (enc_esds m v).
Proof. intros [Hf Hd]. unfold enc_esds. wsafe_go. apply enc_esdesc_wsafe, Hd. Qed.

Definition np_mp4a (m : mode) (v : mp4a) : Prop :=
  match mp4a_esds v with Some e => np_esds m e | None => True end.

Lemma enc_mp4a_wsafe m v : np_mp4a m v -> wsafe (enc_mp4a m v).
Proof.
  unfold np_mp4a, enc_mp4a. cbv zeta. destruct (mp4a_esds v) as [e|]; intros H; wsafe_go.
  apply enc_esds_wsafe, H.
Qed.

(** ** Containers *)
Definition np_opt {A} (P : A -> Prop) (o : option A) : Prop :=
  match o with Some x => P x | None => True end.

Definition np_stsd (m : mode) (v : stsd) : Prop :=
  stsd_flags v < U24 /\
  np_opt (fun h => hvcc_general_constraint_indicator_flag (hev1_hvcc h) < U48) (stsd_hev1 v) /\
  np_opt np_vp09 (stsd_vp09 v) /\
  np_opt (np_mp4a m) (stsd_mp4a v).

Lemma enc_stsd_wsafe m v : np_stsd m v -> wsafe (enc_stsd m v).
Proof.
  intros (Hf & Hh & Hp & Ha). unfold enc_stsd. cbv zeta.
  apply wsafe_bind; [exact (wsafe_write_header _ _)|intros _].
  apply wsafe_bind; [apply wsafe_write_header_ext, Hf|intros _].
  apply wsafe_bind; [exact (wsafe_wr_u _ _)|intros _].
  apply wsafe_bind; [|intros _; exact (wsafe_ret _)].
  destruct (stsd_avc1 v) as [a|]; [wsafe_go; apply enc_avc1_wsafe|].
  destruct (stsd_hev1 v) as [h|]; [wsafe_go; apply enc_hev1_wsafe, Hh|].
  destruct (stsd_vp09 v) as [p|]; [wsafe_go; apply enc_vp09_wsafe, Hp|].
  destruct (stsd_mp4a v) as [a|]; [wsafe_go; apply enc_mp4a_wsafe, Ha|].
  destruct (stsd_tx3g v) as [t|]; [wsafe_go; apply enc_tx3g_wsafe|exact (wsafe_ret _)].
Qed.

Definition np_stbl (m : mode) (v : stbl) : Prop :=
  np_stsd m (stbl_stsd v) /\ stts_flags (stbl_stts v) < U24 /\
  np_opt (fun x => ctts_flags x < U24) (stbl_ctts v) /\
  np_opt (fun x => stss_flags x < U24) (stbl_stss v) /\
  stsc_flags (stbl_stsc v) < U24 /\ stsz_flags (stbl_stsz v) < U24 /\
  np_opt (fun x => stco_flags x < U24) (stbl_stco v) /\
  np_opt (fun x => co64_flags x < U24) (stbl_co64 v).

Lemma enc_stbl_wsafe m v : np_stbl m v -> wsafe (enc_stbl m v).
Proof.
  intros (Hsd & Hts & Hct & Hss & Hsc & Hsz & Hco & Hc64). unfold enc_stbl. cbv zeta.
  apply wsafe_bind; [exact (wsafe_write_header _ _)|intros _].
  apply wsafe_bind; [apply enc_stsd_wsafe, Hsd|intros _].
  apply wsafe_bind; [apply enc_stts_wsafe, Hts|intros _].
  apply wsafe_bind; [destruct (stbl_ctts v); wsafe_go; apply enc_ctts_wsafe, Hct|intros _].
  apply wsafe_bind; [destruct (stbl_stss v); wsafe_go; apply enc_stss_wsafe, Hss|intros _].
  apply wsafe_bind; [apply enc_stsc_wsafe, Hsc|intros _].
  apply wsafe_bind; [apply enc_stsz_wsafe, Hsz|intros _].
  apply wsafe_bind; [destruct (stbl_stco v); wsafe_go; apply enc_stco_wsafe, Hco|intros _].
  apply wsafe_bind; [destruct (stbl_co64 v); wsafe_go; apply enc_co64_wsafe, Hc64|intros _].
  exact (wsafe_ret _).
Qed.

Definition np_minf (m : mode) (v : minf) : Prop :=
  np_opt (fun x => vmhd_flags x < U24) (minf_vmhd v) /\
  np_opt (fun x => smhd_flags x < U24) (minf_smhd v) /\
  np_dref (dinf_dref (minf_dinf v)) /\ np_stbl m (minf_stbl v).

Lemma enc_minf_wsafe m v : np_minf m v -> wsafe (enc_minf m v).
Proof.
  intros (Hv & Hs & Hd & Hst). unfold enc_minf. cbv zeta.
  apply wsafe_bind; [exact (wsafe_write_header _ _)|intros _].
  apply wsafe_bind; [destruct (minf_vmhd v); wsafe_go; apply enc_vmhd_wsafe, Hv|intros _].
  apply wsafe_bind; [destruct (minf_smhd v); wsafe_go; apply enc_smhd_wsafe, Hs|intros _].
  apply wsafe_bind; [apply enc_dinf_wsafe, Hd|intros _].
  apply wsafe_bind; [apply enc_stbl_wsafe, Hst|intros _].
  exact (wsafe_ret _).
Qed.

Definition np_mdia (m : mode) (v : mdia) : Prop :=
  mdhd_flags (mdia_mdhd v) < U24 /\ hdlr_flags (mdia_hdlr v) < U24 /\ np_minf m (mdia_minf v).

Lemma enc_mdia_wsafe m v : np_mdia m v -> wsafe (enc_mdia m v).
Proof.
  intros (Hm & Hh & Hi). unfold enc_mdia. cbv zeta.
  apply wsafe_bind; [exact (wsafe_write_header _ _)|intros _].
  apply wsafe_bind; [apply enc_mdhd_wsafe, Hm|intros _].
  apply wsafe_bind; [apply enc_hdlr_wsafe, Hh|intros _].
  apply wsafe_bind; [apply enc_minf_wsafe, Hi|intros _].
  exact (wsafe_ret _).
Qed.

(** the muxer never sets [edts] / [meta] / [mvex] / [udta]; their encoders are not needed here *)
Definition np_trak (m : mode) (v : trak) : Prop :=
  tkhd_flags (trak_tkhd v) < U24 /\ trak_edts v = None /\ trak_meta v = None /\ np_mdia m (trak_mdia v).

Lemma enc_trak_wsafe m v : np_trak m v -> wsafe (enc_trak m v).
Proof.
  intros (Ht & He & Hme & Hd). unfold enc_trak. cbv zeta. rewrite He, Hme.
  apply wsafe_bind; [exact (wsafe_write_header _ _)|intros _].
  apply wsafe_bind; [apply enc_tkhd_wsafe, Ht|intros _].
  apply wsafe_bind; [exact (wsafe_ret _)|intros _].
  apply wsafe_bind; [apply enc_mdia_wsafe, Hd|intros _].
  apply wsafe_bind; [exact (wsafe_ret _)|intros _].
  exact (wsafe_ret _).
Qed.

Definition np_moov (m : mode) (v : moov) : Prop :=
  mvhd_flags (moov_mvhd v) < U24 /\ moov_meta v = None /\ moov_mvex v = None /\ moov_udta v = None /\
  Forall (np_trak m) (moov_traks v).

Lemma wsafe_wr_each_Forall {A B} (P : A -> Prop) (f : A -> wprog B) l :
  (forall x, P x -> wsafe (f x)) -> Forall P l -> wsafe (wr_each f l).
Proof.
  intros Hf F. induction F as [|x t Hx F IH]; cbn [wr_each]; [reflexivity|].
  apply wsafe_bind; [apply Hf, Hx|intros _; exact IH].
Qed.

Theorem enc_moov_wsafe m v : np_moov m v -> wsafe (enc_moov m v).
Proof.
  intros (Hm & Hme & Hx & Hu & Ht). unfold enc_moov. cbv zeta. rewrite Hme, Hx, Hu.
  apply wsafe_bind; [exact (wsafe_write_header _ _)|intros _].
  apply wsafe_bind; [apply enc_mvhd_wsafe, Hm|intros _].
  apply wsafe_bind; [exact (wsafe_wr_each_Forall _ _ _ (enc_trak_wsafe m) Ht)|intros _].
  repeat (apply wsafe_bind; [exact (wsafe_ret _)|intros _]).
  exact (wsafe_ret _).
Qed.

(** ** What the muxer builds: [moov_of_mfinal] never panics and lands in [np_moov] *)

(** the discriminant of an enum variant name is one of the table's values (or 0: not a name) *)
Lemma enum_discr_in tbl n : In (enum_discr tbl n) (0 :: map snd tbl).
Proof.
  unfold enum_discr. induction tbl as [|[k v] t IH]; cbn [lookup_s map snd]; [left; reflexivity|].
  destruct (String.eqb n k); [right; left; reflexivity|].
  destruct IH as [IH|IH]; [left; exact IH|right; right; exact IH].
Qed.

(** the two sums of [DecoderSpecificDescriptor::write_desc] on [as u8] discriminants *)
Definition decspec_chk (a f c : N) : bool :=
  (cast_w U8 (N.shiftl (cast_w U8 a) 3) + N.shiftr (cast_w U8 f) 1 <? U8)
  && (cast_w U8 (N.shiftl (cast_w U8 f) 7) + cast_w U8 (N.shiftl (cast_w U8 c) 3) <? U8).

(** checked on the tables regenerated from src/types.rs: every (profile, freq_index, chan_conf) *)
Lemma decspec_tables :
  forallb (fun a => forallb (fun f => forallb (fun c => decspec_chk a f c)
    (0 :: map snd Tables.ChannelConfig_discr))
    (0 :: map snd Tables.SampleFreqIndex_discr))
    (0 :: map snd Tables.AudioObjectType_discr) = true.
Proof. vm_compute. reflexivity. Qed.

Lemma np_decspecific_new m p f c : np_decspecific m (decspecific_new p f c).
Proof.
  pose proof decspec_tables as T.
  rewrite forallb_forall in T. specialize (T _ (enum_discr_in Tables.AudioObjectType_discr p)).
  rewrite forallb_forall in T. specialize (T _ (enum_discr_in Tables.SampleFreqIndex_discr f)).
  rewrite forallb_forall in T. specialize (T _ (enum_discr_in Tables.ChannelConfig_discr c)).
  unfold decspec_chk in T. apply andb_true_iff in T. destruct T as [Ta Tb].
  apply N.ltb_lt in Ta. apply N.ltb_lt in Tb.
  unfold np_decspecific, decspecific_new.
  cbn [decspecific_profile decspecific_freq_index decspecific_chan_conf].
  split; (destruct m; cbn [dbg_lt]; [|exact I]).
  - exact Ta.
  - exact Tb.
Qed.

Lemma min_u24 x : N.min x 0xFFFFFF < U24.
Proof. unfold U24. lia. Qed.

(** [stsd] of an accepted configuration, after [write_end] stored the clamped buffer size *)
Definition conf_sps_ok (c : media_conf) : Prop :=
  match c with AvcConf _ _ sps _ => 4 <= lenN sps | _ => True end.

Lemma avcc_new_ok sps pps : 4 <= lenN sps -> exists a, avcc_new sps pps = Ok a.
Proof.
  intros H. destruct sps as [|b0 [|b1 [|b2 [|b3 t]]]];
    try (unfold lenN in H; cbn [length] in H; lia).
  unfold avcc_new. cbn [nth_error]. eexists. reflexivity.
Qed.

Lemma stsd_of_conf_ok m c mx : conf_sps_ok c ->
  exists sd, stsd_of_conf c = Ok sd /\ np_stsd m (stsd_finish sd mx).
Proof.
  intros H. destruct c as [w h sps pps|w h|w h|br p f ch|]; cbn [stsd_of_conf conf_sps_ok] in *.
  - destruct (avcc_new_ok sps pps H) as (a & Ea). unfold avc1_new. rewrite Ea. cbn [res_bind].
    eexists. split; [reflexivity|].
    unfold stsd_finish, np_stsd.
    cbn [stsd_mp4a stsd_flags stsd_hev1 stsd_vp09 np_opt]. repeat split; reflexivity.
  - eexists. split; [reflexivity|].
    unfold stsd_finish, np_stsd.
    cbn [stsd_mp4a stsd_flags stsd_hev1 stsd_vp09 np_opt]. repeat split; reflexivity.
  - eexists. split; [reflexivity|].
    unfold stsd_finish, np_stsd.
    cbn [stsd_mp4a stsd_flags stsd_hev1 stsd_vp09 np_opt]. repeat split; reflexivity.
  - eexists. split; [reflexivity|].
    unfold stsd_finish, np_stsd, mp4a_new.
    cbn [stsd_mp4a stsd_flags stsd_hev1 stsd_vp09 stsd_version stsd_avc1 stsd_tx3g mp4a_esds np_opt].
    split; [reflexivity|]. split; [exact I|]. split; [exact I|].
    unfold np_mp4a. cbn [mp4a_esds]. unfold np_esds, esds_set_buffer_size, esds_new, esdesc_new, decconfig_new.
    cbn [esds_flags esds_es_desc esds_version esdesc_dec_config esdesc_es_id esdesc_sl_config
         decconfig_object_type_indication decconfig_stream_type decconfig_up_stream decconfig_buffer_size_db
         decconfig_max_bitrate decconfig_avg_bitrate decconfig_dec_specific].
    split; [reflexivity|]. unfold np_decconfig.
    cbn [decconfig_object_type_indication decconfig_stream_type decconfig_up_stream decconfig_buffer_size_db
         decconfig_max_bitrate decconfig_avg_bitrate decconfig_dec_specific].
    split; [apply min_u24|]. split; [|apply np_decspecific_new].
    destruct m; cbn [dbg_lt]; [vm_compute; reflexivity|exact I].
  - eexists. split; [reflexivity|].
    unfold stsd_finish, np_stsd.
    cbn [stsd_mp4a stsd_flags stsd_hev1 stsd_vp09 np_opt]. repeat split; reflexivity.
Qed.

Lemma tkhd_of_tfinal_flags tf : tkhd_flags (tkhd_of_tfinal tf) < U24.
Proof.
  unfold tkhd_of_tfinal, tkhd_set_dims.
  destruct (tc_media (tf_conf tf)); unfold tkhd_set_height, tkhd_set_width; cbn [tkhd_flags]; reflexivity.
Qed.

Lemma np_opt_map {A B} (P : B -> Prop) (f : A -> B) o : (forall a, P (f a)) -> np_opt P (option_map f o).
Proof. intros H. destruct o; cbn [option_map np_opt]; auto. Qed.

Lemma trak_of_tfinal_ok m tf : conf_sps_ok (tc_media (tf_conf tf)) ->
  exists t, trak_of_tfinal m tf = Ok t /\ np_trak m t.
Proof.
  intros H. unfold trak_of_tfinal.
  destruct (stsd_of_conf_ok m _ (tf_max_sample_size tf) H) as (sd & -> & Hsd). cbn [res_bind].
  eexists. split; [reflexivity|].
  unfold np_trak. cbn [trak_tkhd trak_edts trak_meta trak_mdia].
  split; [apply tkhd_of_tfinal_flags|]. split; [reflexivity|]. split; [reflexivity|].
  unfold np_mdia. cbn [mdia_mdhd mdia_hdlr mdia_minf].
  split; [reflexivity|]. split; [reflexivity|].
  unfold np_minf. cbn [minf_vmhd minf_smhd minf_dinf minf_stbl].
  split; [destruct (tc_media (tf_conf tf)); cbn [vmhd_of_conf np_opt]; try exact I; reflexivity|].
  split; [destruct (tc_media (tf_conf tf)); cbn [smhd_of_conf np_opt]; try exact I; reflexivity|].
  split; [split; reflexivity|].
  unfold np_stbl, stbl_of_tfinal.
  cbn [stbl_stsd stbl_stts stbl_ctts stbl_stss stbl_stsc stbl_stsz stbl_stco stbl_co64].
  split; [exact Hsd|]. split; [reflexivity|].
  split; [apply np_opt_map; intros; reflexivity|].
  split; [apply np_opt_map; intros; reflexivity|].
  split; [reflexivity|]. split; [reflexivity|].
  split; apply np_opt_map; intros; reflexivity.
Qed.

Lemma traks_of_ok m : forall tfs, Forall (fun tf => conf_sps_ok (tc_media (tf_conf tf))) tfs ->
  exists ts, traks_of m tfs = Ok ts /\ Forall (np_trak m) ts.
Proof.
  induction tfs as [|tf rest IH]; intros F; cbn [traks_of].
  - exists []. split; [reflexivity|constructor].
  - inversion F as [|? ? Hx F']; subst.
    destruct (trak_of_tfinal_ok m tf Hx) as (t & -> & Ht).
    destruct (IH F') as (ts & -> & Hts). cbn [res_bind].
    exists (t :: ts). split; [reflexivity|constructor; assumption].
Qed.

Lemma moov_of_mfinal_ok m f : Forall (fun tf => conf_sps_ok (tc_media (tf_conf tf))) (mf_tracks f) ->
  exists mv, moov_of_mfinal m f = Ok mv /\ np_moov m mv.
Proof.
  intros F. unfold moov_of_mfinal. destruct (traks_of_ok m _ F) as (ts & -> & Hts). cbn [res_bind].
  eexists. split; [reflexivity|].
  unfold np_moov. cbn [moov_mvhd moov_meta moov_mvex moov_udta moov_traks].
  split; [reflexivity|]. repeat (split; [reflexivity|]). exact Hts.
Qed.

(** a configuration [add_track] accepts has an SPS of at least 4 bytes *)
Lemma conf_check_sps c : is_ok (conf_check c) = true -> conf_sps_ok (tc_media c).
Proof.
  unfold conf_check. destruct (tc_timescale c =? 0); [discriminate|].
  destruct (tc_media c) as [w h sps pps|w h|w h|br p f ch|]; cbn [conf_sps_ok]; auto.
  destruct (N.ltb_spec (lenN sps) 4) as [Hlt|Hge]; [discriminate|]. intros _. exact Hge.
Qed.

Lemma added_confs_sps ops : Forall (fun c => conf_sps_ok (tc_media c)) (added_confs ops).
Proof.
  unfold added_confs. induction ops as [|op rest IH]; cbn [flat_map]; [constructor|].
  apply Forall_app. split; [|exact IH].
  destruct op as [c|id s]; [|constructor].
  destruct (is_ok (conf_check c)) eqn:E; [|constructor].
  constructor; [apply conf_check_sps, E|constructor].
Qed.

(** ** The theorem: the whole [write_start .. write_end] run, including the encoding of [moov] *)

Theorem mux_bytes_total_untyped : forall m base cfg ops,
  Forall op_typed ops -> lenN (added_confs ops) < U32MAX ->
  base < 2 ^ 63 -> base + lenN (ftyp_bytes cfg) + 16 + sample_bytes ops < 2 ^ 63 ->
  is_panic (mux_bytes m base cfg ops) = false.
Proof.
  intros m base cfg ops Hty Hn _ Hb.
  assert (Hpre : mux_pre base cfg ops).
  { constructor; try assumption. change (2 ^ 63) with 9223372036854775808 in Hb. unfold U64. lia. }
  destruct (run_mux_spec m base cfg ops Hpre) as (cls & f & E & P).
  unfold mux_bytes. rewrite E. cbn [res_bind].
  assert (F : Forall (fun tf => conf_sps_ok (tc_media (tf_conf tf))) (mf_tracks f)).
  { pose proof (added_confs_sps ops) as A. rewrite <- (po_confs _ _ _ _ _ P) in A.
    rewrite Forall_map in A. exact A. }
  destruct (moov_of_mfinal_ok m f F) as (mv & -> & Hnp). cbn [res_bind].
  pose proof (enc_moov_wsafe m mv Hnp) as Hs. unfold wsafe in Hs.
  destruct (wfin (enc_moov m mv)) as [n|e|s|]; cbn [res_bind is_panic] in *; auto.
Qed.

(** ** Release builds: no hypothesis at all on the history.
    [MuxTotal.muxer_total_rel_lemma] threads "the timescale of every track is non-zero" through the
    run; here the invariant is "every track's configuration passed [conf_check]", which also gives
    the 4-byte SPS that [AvcCBox::new] indexes. *)
Definition conf_inv (w : mwriter) : Prop :=
  Forall (fun t => is_ok (conf_check (tw_conf t)) = true) (mw_tracks w).

Lemma conf_check_ts c : is_ok (conf_check c) = true -> tc_timescale c <> 0.
Proof. unfold conf_check. destruct (N.eqb_spec (tc_timescale c) 0); [discriminate|auto]. Qed.

Lemma mux_step_rel_conf w op : conf_inv w -> res_all conf_inv (mux_step Rel w op).
Proof.
  intros H. destruct op as [c|id s]; cbn [mux_step].
  - unfold mw_add_track. rel_step. unfold tw_new.
    destruct (conf_check c) as [[]| | |] eqn:E; cbn [res_bind res_all]; try exact I.
    + unfold conf_inv. cbn [mw_tracks]. apply Forall_app. split; [exact H|]. constructor; [|constructor].
      cbn [tw_conf]. rewrite E. reflexivity.
    + destruct (conf_check_res c) as [E'|E']; rewrite E' in E; discriminate.
  - unfold mw_write_sample. destruct (id =? 0); [exact I|].
    rewrite nthN_nth_error. destruct (nth_error (mw_tracks w) (N.to_nat (id - 1))) as [t|] eqn:En; [|exact I].
    assert (Hc : is_ok (conf_check (tw_conf t)) = true).
    { unfold conf_inv in H. rewrite Forall_forall in H. apply H. eapply nth_error_In; eauto. }
    eapply res_all_bind; [apply tw_write_sample_rel; exact (conf_check_ts _ Hc)|].
    intros [[t' wrote] td] Hc'. cbn [fst] in Hc'. cbn [res_all].
    destruct (emit_fields w (replace_nth (mw_tracks w) (N.to_nat (id - 1)) t') wrote
                (if mw_duration w <? td then td else mw_duration w)) as (_ & E2 & _).
    unfold conf_inv. rewrite E2. apply replace_nth_Forall; [exact H|]. now rewrite Hc'.
Qed.

Lemma run_ops_rel_conf : forall ops w acc, conf_inv w -> res_all (fun r => conf_inv (fst r)) (run_ops Rel w ops acc).
Proof.
  induction ops as [|op rest IH]; intros w acc H; [exact H|].
  cbn [run_ops]. pose proof (mux_step_rel_conf w op H) as Hs. unfold mux_step in Hs.
  destruct (match op with OpAddTrack c => mw_add_track Rel w c | OpWrite id s => mw_write_sample Rel w id s end);
    cbn [res_all] in Hs; try contradiction; first [apply IH; assumption|exact I].
Qed.

Lemma end_tracks_rel_conf : forall ts w acc,
  Forall (fun t => is_ok (conf_check (tw_conf t)) = true) ts ->
  Forall (fun tf => conf_sps_ok (tc_media (tf_conf tf))) acc ->
  res_all (fun r => Forall (fun tf => conf_sps_ok (tc_media (tf_conf tf))) (snd r)) (end_tracks Rel ts w acc).
Proof.
  induction ts as [|t ts IH]; intros w acc Ht Ha; [exact Ha|].
  inversion Ht as [|? ? Hc Ht']; subst.
  cbn [end_tracks].
  eapply res_all_bind with (Q := fun r => tf_conf (snd r) = tw_conf t).
  - unfold tw_write_end. eapply res_all_bind; [apply write_chunk_rel|]. intros [[t1 c1] wrote] _. reflexivity.
  - intros [[t' wrote] tf] E. cbn [snd] in E. apply IH; [exact Ht'|].
    apply Forall_app. split; [exact Ha|]. constructor; [|constructor].
    rewrite E. apply conf_check_sps, Hc.
Qed.

Lemma mw_write_end_rel_conf w : conf_inv w ->
  res_all (fun f => Forall (fun tf => conf_sps_ok (tc_media (tf_conf tf))) (mf_tracks f)) (mw_write_end Rel w).
Proof.
  intros H. unfold mw_write_end.
  eapply res_all_bind; [apply end_tracks_rel_conf; [exact H|constructor]|]. intros [w1 tfs] F. cbn [snd] in F.
  rel_step. eapply res_all_bind with (Q := anyv).
  - destruct (U32MAX <? a); repeat rel_step.
  - intros out _. exact F.
Qed.

Theorem mux_bytes_total_release : forall base cfg ops, is_panic (mux_bytes Rel base cfg ops) = false.
Proof.
  intros base cfg ops. apply (res_all_np anyv). unfold mux_bytes, run_mux.
  eapply res_all_bind with (Q := fun r => Forall (fun tf => conf_sps_ok (tc_media (tf_conf tf))) (mf_tracks (snd r))).
  - eapply res_all_bind; [apply run_ops_rel_conf; constructor|].
    intros [w cls] Hw. cbn [fst] in Hw.
    eapply res_all_bind; [apply mw_write_end_rel_conf, Hw|intros f F; exact F].
  - intros [cls f] F. cbn [snd] in F.
    destruct (moov_of_mfinal_ok Rel f F) as (mv & -> & Hnp). cbn [res_bind].
    pose proof (enc_moov_wsafe Rel mv Hnp) as Hs. unfold wsafe in Hs.
    destruct (wfin (enc_moov Rel mv)) as [n|e|s|]; cbn [res_bind is_panic res_all] in *; try exact I.
    discriminate.
Qed.

(** ** The statement with the configurations typed as the Rust types type them.
    [TrackConfig { track_type: TrackType, timescale: u32, language: String, media_conf }],
    [AvcConfig { width: u16, height: u16, seq_param_set: Vec<u8>, pic_param_set: Vec<u8> }],
    [HevcConfig / Vp9Config { width: u16, height: u16 }],
    [AacConfig { bitrate: u32, profile: AudioObjectType, freq_index: SampleFreqIndex, chan_conf: ChannelConfig }]
    (src/types.rs): integer widths, byte vectors, and variant NAMES of the regenerated tables --
    nothing about representability (any language bytes, any AAC object type, empty parameter sets).
    The model keeps these fields in unbounded [N] / [string]; [fp16_new width], [cast_w U16 ..] etc.
    are the Rust operations only on typed values, which is why the hypothesis belongs in the statement.
    The PROOF does not use it ([mux_bytes_total_untyped]): no crash site of the model depends on it. *)
Definition all_u8 (l : bytes) : Prop := Forall (fun b => b < U8) l.

Definition media_typed (c : media_conf) : Prop :=
  match c with
  | AvcConf w h sps pps => w < U16 /\ h < U16 /\ all_u8 sps /\ all_u8 pps
  | HevcConf w h => w < U16 /\ h < U16
  | Vp9Conf w h => w < U16 /\ h < U16
  | AacConf br p f ch =>
      br < U32 /\ In p (map fst Tables.AudioObjectType_discr) /\
      In f (map fst Tables.SampleFreqIndex_discr) /\ In ch (map fst Tables.ChannelConfig_discr)
  | TtxtConf => True
  end.

Definition conf_typed (c : track_conf) : Prop :=
  In (tc_track_type c) (map (fun e => fst (fst e)) Tables.handler_table) /\
  tc_timescale c < U32 /\ all_u8 (tc_language c) /\ media_typed (tc_media c).

Definition conf_typed_all (ops : list mux_op) : Prop :=
  Forall (fun op => match op with OpAddTrack c => conf_typed c | OpWrite _ _ => True end) ops.

Theorem mux_bytes_total_lemma : forall m base cfg ops,
  Forall op_typed ops -> lenN (added_confs ops) < U32MAX ->
  base < 2 ^ 63 -> base + lenN (ftyp_bytes cfg) + 16 + sample_bytes ops < 2 ^ 63 ->
  conf_typed_all ops ->
  is_panic (mux_bytes m base cfg ops) = false.
Proof. intros m base cfg ops H1 H2 H3 H4 _. now apply mux_bytes_total_untyped. Qed.

(** ** Each precondition of the encoder lemmas is needed (the crash sites are real) *)
Example wsafe_needs_flags : is_panic (wfin (enc_mvhd (mkMvhd 0 U24 0 0 1000 0 0 0 matrix_default 1))) = true.
Proof. vm_compute. reflexivity. Qed.

Example wsafe_needs_buffer_size :
  is_panic (wfin (enc_decconfig Rel (mkDecConfig 64 5 0 U24 0 0 decspecific_default))) = true.
Proof. vm_compute. reflexivity. Qed.

(** an [AvcCBox::new] on a 3-byte SPS panics: [conf_check] is what keeps it away *)
Example moov_needs_conf_check :
  is_panic (moov_of_mfinal Dbg
     (mkMf 0 [] 0 0 [mkTf (mkTrackConf "Video" 1000 [] (AvcConf 1 1 [1; 2; 3] []))
                          1 (mkTables [] 0 0 [] None None [] None None) (mkWh 0 0 0 0) 0] 1000 0 0)) = true.
Proof. vm_compute. reflexivity. Qed.

(** a chan_conf discriminant of 16 or more (not a [ChannelConfig]) would overflow the second sum *)
Example decspecific_sum_can_overflow :
  is_panic (wfin (enc_decspecific Dbg (mkDecSpecific 2 1 16))) = true.
Proof. vm_compute. reflexivity. Qed.

Print Assumptions enc_moov_wsafe.
Print Assumptions mux_bytes_total_untyped.
Print Assumptions mux_bytes_total_release.
Print Assumptions mux_bytes_total_lemma.
