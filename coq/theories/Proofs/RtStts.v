(** Round trip of [SttsBox] *)
From MP4 Require Import TblKit BoxStts IsoStts.
From Coq Require Import ZifyN ZifyNat ZifyBool.
Open Scope string_scope.
Open Scope list_scope.
Open Scope N_scope.

Lemma stts_code : u32_of_boxtype (box_type_of "SttsBox") = 0x73747473.
Proof. vm_compute. reflexivity. Qed.

Lemma stts_size_eq v : stts_size v = 8 + 4 + 4 + 8 * lenN (stts_entries v).
Proof. reflexivity. Qed.

Lemma stts_wr_entry_ok e :
  wfin (stts_wr_entry e) = Ok tt /\ wout (stts_wr_entry e) = iso_stts_entry e.
Proof.
  unfold stts_wr_entry, iso_stts_entry. enc_norm. split; [reflexivity|]. now rewrite app_nil_r.
Qed.

Lemma stts_enc v : stts_wf v = true -> stts_size v < U32 ->
  wfin (enc_stts v) = Ok (stts_size v) /\
  wout (enc_stts v) = be 4 (stts_size v) ++ be 4 0x73747473 ++ iso_stts_payload v.
Proof.
  intros H Hs. unfold enc_stts, iso_stts_payload. unfold stts_wf in H. split_andb.
  rewrite write_header_small by exact Hs. rewrite stts_code.
  rewrite write_header_ext_small by assumption.
  set (W := tbl_wr_each stts_wr_entry (stts_entries v)).
  enc_norm. subst W.
  rewrite (tbl_wfin_each_bind _ iso_stts_entry), (tbl_wout_each_bind _ iso_stts_entry)
    by (first [intros; exact I | intros; apply stts_wr_entry_ok]).
  cbn [wfin wout]. split; [reflexivity|].
  rewrite cast_u32_small by assumption. rewrite app_nil_r. reflexivity.
Qed.

Lemma stts_rd_entry_ok {B} es d l x (k' : stts_entry -> prog B) p' rest' :
  forallb stts_entry_wf es = true -> In x es ->
  run (bind stts_rd_entry k') (mkStream d l p' (iso_stts_entry x ++ rest'))
  = run (k' x) (mkStream d l (p' + 8) rest').
Proof.
  intros Hall Hin. rewrite forallb_forall in Hall. apply Hall in Hin.
  unfold stts_entry_wf in Hin. split_andb.
  unfold stts_rd_entry, iso_stts_entry. rewrite <- !app_assoc.
  do 2 rd_step. prog_norm.
  destruct x as [a b]; cbn [stts_e_sample_count stts_e_sample_delta]. do 2 f_equal. clear. lia.
Qed.

Lemma stts_dec m v d l p post : stts_wf v = true -> p + stts_size v < 2^63 ->
  run (dec_stts m (stts_size v)) (mkStream d l (p + 8) (iso_stts_payload v ++ post))
  = (Ok v, mkStream d l (p + stts_size v) post).
Proof.
  intros H Hp. unfold dec_stts, iso_stts_payload. unfold stts_wf in H. split_andb.
  pose proof (stts_size_eq v) as Hsz.
  rewrite <- !app_assoc.
  prog_norm. cbn [run s_pos].
  rewrite run_sub64_ok by (clear; unfold HEADER_SIZE, Tables.HEADER_SIZE; lia).
  do 3 rd_step.
  rewrite tbl_guard_false by (first [ clear; lia | rewrite Hsz; reflexivity ]).
  prog_norm. rewrite run_Alloc.
  rewrite (run_rd_n_lenN_bind _ iso_stts_entry 8) by (intros; now apply (stts_rd_entry_ok (stts_entries v))).
  rewrite run_add64_ok by (clear -Hsz Hp; unfold HEADER_SIZE, Tables.HEADER_SIZE, U64; lia).
  prog_norm.
  rewrite run_SeekTo_here by (clear -Hsz; unfold HEADER_SIZE, Tables.HEADER_SIZE; lia).
  cbn [run]. f_equal.
  - destruct v; reflexivity.
  - f_equal. clear -Hsz. lia.
Qed.

Lemma stts_entry_len e : lenN (iso_stts_entry e) = 8.
Proof. unfold iso_stts_entry. rewrite !lenN_app, !lenN_be. reflexivity. Qed.

Lemma stts_payload_len v : lenN (iso_stts_payload v) + 8 = stts_size v.
Proof.
  rewrite stts_size_eq. unfold iso_stts_payload.
  rewrite !lenN_app, !lenN_be, (lenN_flat_map_const iso_stts_entry 8) by apply stts_entry_len. lia.
Qed.

Lemma stts_appender v : stts_wf v = true -> stts_size v < U32 -> appender (enc_stts v).
Proof.
  intros H Hs. unfold enc_stts. rewrite write_header_small by exact Hs.
  unfold stts_wf in H. split_andb.
  rewrite write_header_ext_small by assumption.
  cbn [wbind appender wr wr_u32 wr_u].
  apply tbl_appender_each_bind; intros; exact I.
Qed.

Theorem stts_roundtrip : leaf_roundtrip stts_wf stts_size 0x73747473 enc_stts dec_stts iso_stts_payload.
Proof.
  intros v H Hs. destruct (stts_enc v H Hs) as [H1 H2].
  split; [exact H1|]. split; [now apply stts_appender|]. split; [exact H2|].
  split; [now apply stts_payload_len|].
  intros m d l p post Hp. now apply stts_dec.
Qed.

Print Assumptions stts_roundtrip.
