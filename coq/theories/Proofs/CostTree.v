(** * C07/C08, composition: the contracts of all box decoders, by nesting level

    One family of constants [(lvA k, lvB k, lvAl k, lvBl k)]: a decoder whose deepest chain of nested
    containers has length [k] does at most [lvA k * size + lvB k] units of work and requests at most
    [lvAl k * size + lvBl k] bytes, never runs out of the fuel it is handed, and on success leaves
    the stream at the end of its box.  Level 0 are the leaves; a level is obtained from the previous
    one by [(a, b) |-> (4a + 2b + 100, 2b + 200)] (a standard container needs [(2a + b + 19, b + 22)];
    meta reads its content twice). *)
From MP4 Require Import Cost CostLeaf CostLeaf2 CostLeaf3 CostLoop CostCont CostBoxes CostHvcc.
From MP4 Require Import SafeLeaf1 SafeLeaf2 SafeLeaf3 SafeLeaf4.
From MP4 Require Import BoxMvhd BoxMdhd BoxTkhd BoxMehd BoxMfhd BoxTfdt BoxTrex BoxSmhd BoxVmhd BoxTx3g
     BoxTfhd BoxHdlr BoxFtyp BoxStts BoxCtts BoxStsc BoxStsz BoxStss BoxStco BoxCo64 BoxElst BoxTrun
     BoxHev1 BoxVp09 BoxData BoxEmsg BoxDinf BoxMvex BoxTraf BoxMoof BoxIlst.
From Coq Require Import ZArith ZifyN ZifyNat ZifyBool Lia.
Open Scope N_scope.

(** level 0: the largest constants among the leaves are those of avcC ([avcc_cost]: 32 + 256 NAL
    units of at most 65 535 bytes, whose lengths are not compared with the box); the largest slopes
    are 6 (work, emsg) and 17 (allocation, hvcC: [hvcc_spec]) *)
Definition lv0_W : N := 18750000.
Definition lv0_A : N := 18750000.

Fixpoint lvl (k : nat) : N * N * N * N :=
  match k with
  | O => (6, lv0_W, 17, lv0_A)
  | S k' => let '(a, b, al, bl) := lvl k' in (4 * a + 2 * b + 100, 2 * b + 200, 4 * al + 2 * bl, 2 * bl)
  end.
Definition lvA k := fst (fst (fst (lvl k))).
Definition lvB k := snd (fst (fst (lvl k))).
Definition lvAl k := snd (fst (lvl k)).
Definition lvBl k := snd (lvl k).

Lemma lv_step k :
  lvA (S k) = 4 * lvA k + 2 * lvB k + 100 /\ lvB (S k) = 2 * lvB k + 200
  /\ lvAl (S k) = 4 * lvAl k + 2 * lvBl k /\ lvBl (S k) = 2 * lvBl k.
Proof.
  unfold lvA, lvB, lvAl, lvBl. cbn [lvl]. destruct (lvl k) as [[[a b] al] bl]. cbn [fst snd]. auto.
Qed.

Lemma lv_mono k k' : (k <= k')%nat ->
  lvA k <= lvA k' /\ lvB k <= lvB k' /\ lvAl k <= lvAl k' /\ lvBl k <= lvBl k'.
Proof.
  induction 1 as [|k' _ IH]; [lia|]. destruct (lv_step k') as (E1 & E2 & E3 & E4). lia.
Qed.

(** the numerals *)
Ltac lv_norm :=
  repeat match goal with
         | |- context [lvA ?k] => let v := eval vm_compute in (lvA k) in change (lvA k) with v
         | |- context [lvB ?k] => let v := eval vm_compute in (lvB k) in change (lvB k) with v
         | |- context [lvAl ?k] => let v := eval vm_compute in (lvAl k) in change (lvAl k) with v
         | |- context [lvBl ?k] => let v := eval vm_compute in (lvBl k) in change (lvBl k) with v
         end.

Section Tree.
  Variable d : bytes.
  Hypothesis Hd : bytes_ok d = true.
  Hypothesis Hlen : lenN d < 2 ^ 62.

  Definition dok (k : nat) {A} (dec : N -> prog A) : Prop :=
    dspec d dec (lvA k) (lvB k) (lvAl k) (lvBl k).
  Definition fok (k : nat) {A} (dec : nat -> N -> prog A) : Prop :=
    fspec d dec (lvA k) (lvB k) (lvAl k) (lvBl k).

  Lemma dok_mono k k' {A} (dec : N -> prog A) : (k <= k')%nat -> dok k dec -> dok k' dec.
  Proof.
    intros Hk H p s H8 Hp Hs. destruct (lv_mono k k' Hk) as (M1 & M2 & M3 & M4).
    eapply ispec_mono; [exact Hd|exact Hlen|apply H; assumption|assumption..].
  Qed.
  Lemma fok_mono k k' {A} (dec : nat -> N -> prog A) : (k <= k')%nat -> fok k dec -> fok k' dec.
  Proof.
    intros Hk H f p s H8 Hp Hs Hf. destruct (lv_mono k k' Hk) as (M1 & M2 & M3 & M4).
    eapply ispec_mono; [exact Hd|exact Hlen|apply H; assumption|assumption..].
  Qed.

  (** a leaf with a state-independent bound below level 0 *)
  Lemma dok_leaf {A} (dec : N -> prog A) W Al :
    (forall s, bnd (dec s) (W s) (Al s)) -> (forall s, W s <= 6 * s + lv0_W) ->
    (forall s, Al s <= 17 * s + lv0_A) -> leaf_sat dec -> dok 0 dec.
  Proof.
    intros Hb Hw Ha Hs. apply dspec_of_leaf; [exact Hd|exact Hlen| |exact Hs].
    intros s. eapply bnd_weaken; [apply Hb|apply Hw|apply Ha].
  Qed.

  Ltac leaf_ok cost sat :=
    apply (dok_leaf _ _ _ cost); [intros; unfold lv0_W, lv0_A; lia..|apply sat].

  Lemma mvhd_ok m : dok 0 (dec_mvhd m).
  Proof. apply (dok_leaf _ (fun _ => 400) (fun _ => 0) (mvhd_cost m)); [intros; unfold lv0_W, lv0_A; lia..|apply dec_mvhd_sat]. Qed.
  Lemma mdhd_ok m : dok 0 (dec_mdhd m).
  Proof. apply (dok_leaf _ (fun _ => 400) (fun _ => 0) (mdhd_cost m)); [intros; unfold lv0_W, lv0_A; lia..|apply dec_mdhd_sat]. Qed.
  Lemma tkhd_ok m : dok 0 (dec_tkhd m).
  Proof. apply (dok_leaf _ (fun _ => 400) (fun _ => 0) (tkhd_cost m)); [intros; unfold lv0_W, lv0_A; lia..|apply dec_tkhd_sat]. Qed.
  Lemma mehd_ok m : dok 0 (dec_mehd m).
  Proof. apply (dok_leaf _ (fun _ => 400) (fun _ => 0) (mehd_cost m)); [intros; unfold lv0_W, lv0_A; lia..|apply dec_mehd_sat]. Qed.
  Lemma mfhd_ok m : dok 0 (dec_mfhd m).
  Proof. apply (dok_leaf _ (fun _ => 400) (fun _ => 0) (mfhd_cost m)); [intros; unfold lv0_W, lv0_A; lia..|apply dec_mfhd_sat]. Qed.
  Lemma tfdt_ok m : dok 0 (dec_tfdt m).
  Proof. apply (dok_leaf _ (fun _ => 400) (fun _ => 0) (tfdt_cost m)); [intros; unfold lv0_W, lv0_A; lia..|apply dec_tfdt_sat]. Qed.
  Lemma trex_ok m : dok 0 (dec_trex m).
  Proof. apply (dok_leaf _ (fun _ => 400) (fun _ => 0) (trex_cost m)); [intros; unfold lv0_W, lv0_A; lia..|apply dec_trex_sat]. Qed.
  Lemma smhd_ok m : dok 0 (dec_smhd m).
  Proof. apply (dok_leaf _ (fun _ => 400) (fun _ => 0) (smhd_cost m)); [intros; unfold lv0_W, lv0_A; lia..|apply dec_smhd_sat]. Qed.
  Lemma vmhd_ok m : dok 0 (dec_vmhd m).
  Proof. apply (dok_leaf _ (fun _ => 400) (fun _ => 0) (vmhd_cost m)); [intros; unfold lv0_W, lv0_A; lia..|apply dec_vmhd_sat]. Qed.
  Lemma tx3g_ok m : dok 0 (dec_tx3g m).
  Proof. apply (dok_leaf _ (fun _ => 400) (fun _ => 0) (tx3g_cost m)); [intros; unfold lv0_W, lv0_A; lia..|apply dec_tx3g_sat]. Qed.
  Lemma tfhd_ok m : dok 0 (dec_tfhd m).
  Proof. apply (dok_leaf _ (fun _ => 400) (fun _ => 0) (tfhd_cost m)); [intros; unfold lv0_W, lv0_A; lia..|apply dec_tfhd_sat]. Qed.
  Lemma vp09_ok m : dok 0 (dec_vp09 m).
  Proof. apply (dok_leaf _ (fun _ => 400) (fun _ => 0) (vp09_cost m)); [intros; unfold lv0_W, lv0_A; lia..|apply dec_vp09_sat]. Qed.
  Lemma hdlr_ok m : dok 0 (dec_hdlr m).
  Proof. apply (dok_leaf _ (fun s => s + 400) (fun s => s) (hdlr_cost m)); [intros; unfold lv0_W, lv0_A; lia..|apply dec_hdlr_sat]. Qed.
  Lemma url_ok m : dok 0 (dec_url m).
  Proof. apply (dok_leaf _ (fun s => s + 400) (fun s => s) (url_cost m)); [intros; unfold lv0_W, lv0_A; lia..|apply dec_url_sat]. Qed.
  Lemma ftyp_ok m : dok 0 (dec_ftyp m).
  Proof. apply (dok_leaf _ (fun s => 2 * s + 400) (fun _ => 0) (ftyp_cost m)); [intros; unfold lv0_W, lv0_A; lia..|apply dec_ftyp_sat]. Qed.
  Lemma stts_ok m : dok 0 (dec_stts m).
  Proof. apply (dok_leaf _ (fun s => 2 * s + 40) (fun s => s) (stts_cost m)); [intros; unfold lv0_W, lv0_A; lia..|apply dec_stts_sat]. Qed.
  Lemma ctts_ok m : dok 0 (dec_ctts m).
  Proof. apply (dok_leaf _ (fun s => 2 * s + 40) (fun s => s) (ctts_cost m)); [intros; unfold lv0_W, lv0_A; lia..|apply dec_ctts_sat]. Qed.
  Lemma stss_ok m : dok 0 (dec_stss m).
  Proof. apply (dok_leaf _ (fun s => 2 * s + 40) (fun s => s) (stss_cost m)); [intros; unfold lv0_W, lv0_A; lia..|apply dec_stss_sat]. Qed.
  Lemma stco_ok m : dok 0 (dec_stco m).
  Proof. apply (dok_leaf _ (fun s => 2 * s + 40) (fun s => s) (stco_cost m)); [intros; unfold lv0_W, lv0_A; lia..|apply dec_stco_sat]. Qed.
  Lemma co64_ok m : dok 0 (dec_co64 m).
  Proof. apply (dok_leaf _ (fun s => 2 * s + 40) (fun s => s) (co64_cost m)); [intros; unfold lv0_W, lv0_A; lia..|apply dec_co64_sat]. Qed.
  Lemma stsz_ok m : dok 0 (dec_stsz m).
  Proof. apply (dok_leaf _ (fun s => 2 * s + 40) (fun s => s) (stsz_cost m)); [intros; unfold lv0_W, lv0_A; lia..|apply dec_stsz_sat]. Qed.
  Lemma stsc_ok m : dok 0 (dec_stsc m).
  Proof. apply (dok_leaf _ (fun s => 2 * s + 40) (fun s => 2 * s) (stsc_cost m)); [intros; unfold lv0_W, lv0_A; lia..|apply dec_stsc_sat]. Qed.
  Lemma elst_ok m : dok 0 (dec_elst m).
  Proof. apply (dok_leaf _ (fun s => 2 * s + 40) (fun s => 2 * s) (elst_cost m)); [intros; unfold lv0_W, lv0_A; lia..|apply dec_elst_sat]. Qed.
  Lemma trun_ok m : dok 0 (dec_trun m).
  Proof. apply (dok_leaf _ (fun s => 2 * s + 40) (fun s => s) (trun_cost m)); [intros; unfold lv0_W, lv0_A; lia..|apply dec_trun_sat]. Qed.
  (** hvcC/hev1: the position-aware contract of CostHvcc.v (the state-independent [hev1_cost] is
      the crude constant of the field widths) *)
  Lemma hvcc_ok m : dok 0 (dec_hvcc m).
  Proof.
    intros p s H8 Hp Hs. eapply ispec_mono; [exact Hd|exact Hlen|apply (hvcc_spec d Hd Hlen m); assumption|lv_norm; lia..].
  Qed.
  Lemma hev1_ok m : dok 0 (dec_hev1 m).
  Proof.
    intros p s H8 Hp Hs. eapply ispec_mono; [exact Hd|exact Hlen|apply (hev1_spec d Hd Hlen m); assumption|lv_norm; lia..].
  Qed.

  Lemma data_ok m : dok 0 (dec_data m).
  Proof.
    intros p s H8 Hp Hs. eapply ispec_mono; [exact Hd|exact Hlen|apply (data_spec d Hd Hlen m); assumption|lv_norm; lia..].
  Qed.
  Lemma emsg_ok m : dok 0 (dec_emsg m).
  Proof.
    intros p s H8 Hp Hs. eapply ispec_mono; [exact Hd|exact Hlen|apply (emsg_spec d Hd Hlen m); assumption|lv_norm; lia..].
  Qed.

  (** ** Standard containers *)
  Lemma std_ok k {Acc A} (dec : nat -> N -> prog A) m site
        (dispatch : nat -> boxtype -> N -> Acc -> prog Acc) acc0 (tail : N -> N -> Acc -> prog A) :
    (forall f size, dec f size =
       (start <- box_start m ;; current <- get_pos ;; end_ <- add64 m site start size ;;
        acc <- children_loop f m (Some size) true end_ dispatch acc0 current ;;
        tail start size acc)) ->
    (forall f name s acc p size, 8 <= p -> p <= lenN d -> 1 <= s -> s <= size -> size < 2 ^ 62 ->
       fuel_ok d f p ->
       ispec d (dispatch f name s acc) p s (lvA k * s + lvB k) (lvAl k * s + lvBl k)) ->
    (forall start size acc, bnd (tail start size acc) 1 0) ->
    (forall start size acc q, start + size < U64 ->
       sat d q (tail start size acc) (fun _ p' => p' = start + size)) ->
    fok (S k) dec.
  Proof.
    intros H1 H2 H3 H4 f p s H8 Hp Hs Hf.
    pose proof (std_container d Hd Hlen dec m site dispatch acc0 tail _ _ _ _ H1 H2 H3 H4 f p s H8 Hp Hs Hf)
      as G.
    destruct (lv_step k) as (E1 & E2 & E3 & E4).
    eapply ispec_mono; [exact Hd|exact Hlen|exact G|lia..].
  Qed.

  (** the child loop as a step on the spine of a non-standard container *)
  Lemma loop_ok k {Acc} m size end_ (dispatch : nat -> boxtype -> N -> Acc -> prog Acc) acc0 f cur :
    size < 2 ^ 62 ->
    (forall f name s acc p, 8 <= p -> p <= lenN d -> 1 <= s -> s <= size -> fuel_ok d f p ->
       ispec d (dispatch f name s acc) p s (lvA k * s + lvB k) (lvAl k * s + lvBl k)) ->
    fuel_ok d f cur ->
    csat d cur (children_loop f m (Some size) true end_ dispatch acc0 cur)
         ((lvA k + lvB k + 19) * (end_ - cur) + (lvA k * size + lvB k + 19))
         ((lvAl k + lvBl k) * (end_ - cur) + (lvAl k * size + lvBl k))
         (fun _ _ => True).
  Proof.
    intros Hsz Hdisp Hf. unfold children_loop, csat.
    pose proof (loop_cost d Hd Hlen m size end_ (fun f _ => dispatch f) (fun x _ => x)
                          (lvA k) (lvB k) (lvAl k) (lvBl k) Hsz) as L.
    assert (HD : forall f cur name s0 acc p0, p0 = cur + 8 \/ p0 = cur + 16 -> p0 <= lenN d ->
                   1 <= s0 -> s0 <= size -> fuel_ok d f p0 ->
                   ispec d (dispatch f name s0 acc) p0 s0 (lvA k * s0 + lvB k) (lvAl k * s0 + lvBl k)).
    { intros f0 c0 name s0 acc p0 Hp0 Hp0l Hs1 Hs2 Hf0. apply Hdisp; auto. destruct Hp0; lia. }
    specialize (L HD f acc0 cur Hf).
    destruct (mrun (children_loop_gen f m (Some size) true end_ (fun f0 _ => dispatch f0)
                                      (fun x _ => x) acc0 cur) d cur) as [[r3 p3] k3].
    destruct L as (L1 & L2 & L3). repeat split; auto.
  Qed.

  Lemma skip_ok k {A} m p s (a : A) : 8 <= p -> p <= lenN d -> s < 2 ^ 62 ->
    ispec d (skip_box m s ;;; Ret a) p s (lvA k * s + lvB k) (lvAl k * s + lvBl k).
  Proof.
    intros H8 Hp Hs. destruct (lv_mono 0 k (Nat.le_0_l k)) as (_ & M & _ & _).
    eapply ispec_weaken; [apply ispec_skip_box; [exact Hd|exact H8|unfold U64; lia]| |lia].
    assert (2 <= lvB 0) by (vm_compute; discriminate). lia.
  Qed.
End Tree.

(** the default arm of every dispatch: an unknown child is skipped *)
Ltac disp_skip := apply skip_ok; [eassumption | eassumption | assumption | assumption | lia].

(** a known child: its contract, weakened to the level of the parent's children *)
Ltac disp_child lem :=
  apply ispec_bind_ret;
  eapply ispec_mono;
  [ eassumption | eassumption | apply lem; first [assumption | lia] | lv_norm; lia .. ].

Ltac tail_bnd := apply bnd_of_acc; acc_all.
Ltac tail_sat := sat_go; try sat_arith.

Section Tree2.
  Variable d : bytes.
  Hypothesis Hd : bytes_ok d = true.
  Hypothesis Hlen : lenN d < 2 ^ 62.

  Lemma mvex_ok m : fok d 1 (fun f s => dec_mvex_fuel f m s).
  Proof.
    eapply (std_ok d Hd Hlen 0) with (m := m) (dispatch := mvex_dispatch m).
    - intros f size. unfold dec_mvex_fuel. reflexivity.
    - intros f name s [me tr] p size H8 Hp Hs1 Hs2 Hsz Hf.
      destruct name; cbn [mvex_dispatch];
        first [disp_child (mehd_ok d Hd Hlen m) | disp_child (trex_ok d Hd Hlen m) | disp_skip].
    - intros start size [me tr]. tail_bnd.
    - intros start size [me tr] q Hov. tail_sat.
  Qed.
End Tree2.
