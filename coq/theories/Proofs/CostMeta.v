(** * C07/C08, composition (meta): the content of a meta box is read twice (first for the hdlr box,
      then for the children) *)
From MP4 Require Import Cost CostLeaf CostLoop CostCont CostTree CostTree2 CostTree3.
From MP4 Require Import BoxMeta BoxHdlr BoxIlst.
From Coq Require Import ZArith ZifyN ZifyNat ZifyBool Lia.
Open Scope N_scope.

Section Meta.
  Variable d : bytes.
  Hypothesis Hd : bytes_ok d = true.
  Hypothesis Hlen : lenN d < 2 ^ 62.

  (** meta: the content is read twice (first for the hdlr box, then for the children) *)
  Lemma meta_find_hdlr_ok m f name s acc p : 8 <= p -> p <= lenN d -> 1 <= s -> s < 2 ^ 62 ->
    ispec d (meta_find_hdlr m f name s acc) p s (lvA 2 * s + lvB 2) (lvAl 2 * s + lvBl 2).
  Proof.
    intros H8 Hp Hs1 Hs.
    destruct name; cbn [meta_find_hdlr]; first [disp_child (hdlr_ok d Hd Hlen m) | disp_skip].
  Qed.

  Lemma meta_mdir_ok m f name s acc p : 8 <= p -> p <= lenN d -> 1 <= s -> s < 2 ^ 62 ->
    fuel_ok d f p ->
    ispec d (meta_mdir_dispatch m f name s acc) p s (lvA 2 * s + lvB 2) (lvAl 2 * s + lvBl 2).
  Proof.
    intros H8 Hp Hs1 Hs Hf.
    destruct name; cbn [meta_mdir_dispatch]; first [disp_child (ilst_ok d Hd Hlen m) | disp_skip].
  Qed.

  (** an unknown child is kept as raw bytes: [vec![0; s - 8]] *)
  Lemma meta_raw_ok k (name : boxtype) (s : N) (a : list (boxtype * bytes)) p : 8 <= p -> p <= lenN d -> s < 2 ^ 62 ->
    ispec d (match checked_sub s HEADER_SIZE with
             | None => Throw EData
             | Some box_data_size => box_data <- rd_vec box_data_size ;; Ret (a ++ [(name, box_data)])
             end) p s (lvA k * s + lvB k) (lvAl k * s + lvBl k).
  Proof.
    intros H8 Hp Hs. destruct (lv_mono 0 k (Nat.le_0_l k)) as (M1 & M2 & M3 & M4).
    assert (E1 : lvA 0 = 6) by reflexivity. assert (E3 : 2 <= lvAl 0) by (vm_compute; discriminate).
    assert (HA : 6 * s <= lvA k * s) by (apply N.mul_le_mono_r; lia).
    assert (HAl : 2 * s <= lvAl k * s) by (apply N.mul_le_mono_r; lia).
    assert (E2 : 10 <= lvB 0) by (vm_compute; discriminate).
    apply ispec_of_csat, csat_of_cacc.
    destruct (checked_sub s HEADER_SIZE) eqn:E.
    - eapply cacc_bind; [apply (csat_rd_vec d Hd)| | |cbn beta; intros ? ? ?].
      + sat_bools. sat_consts. lia.
      + sat_bools. sat_consts. lia.
      + apply cacc_Ret; sat_bools; sat_consts; lia.
    - apply cacc_Throw; lia.
  Qed.

  Lemma meta_unknown_ok m f name s acc p : 8 <= p -> p <= lenN d -> 1 <= s -> s < 2 ^ 62 ->
    ispec d (meta_unknown_dispatch m f name s acc) p s (lvA 2 * s + lvB 2) (lvAl 2 * s + lvBl 2).
  Proof.
    intros H8 Hp Hs1 Hs.
    destruct name; cbn [meta_unknown_dispatch]; first [apply meta_raw_ok; assumption | disp_skip].
  Qed.

  Lemma meta_ok m : fok d 3 (fun f s => dec_meta_fuel f m s).
  Proof.
    intros f p s H8 Hp Hs Hf. apply ispec_of_csat, csat_of_cacc. unfold dec_meta_fuel.
    assert (Hfq : forall q, p <= q -> fuel_ok d f q).
    { intros q Hq. destruct Hf as [Hf1 Hf2]. unfold fuel_ok. lia. }
    cacc_step. cacc_step.
    assert (Tail : forall q w, p <= q -> q <= p + 4 -> w <= 20 ->
      cacc d q w 0
        (current <- get_pos;;
         end_ <- add64 m "meta start+size" (p - 8) s;;
         hd <- children_loop f m (Some s) true end_ (meta_find_hdlr m) None current;;
         match hd with
         | Some h =>
             seek_to current;;;
             current0 <- get_pos;;
             (if hdlr_handler_type h =? meta_MDIR
              then
               il <- children_loop f m (Some s) true end_ (meta_mdir_dispatch m) None current0;;
               e <- add64 m "meta start+size (final seek)" (p - 8) s;;
               skip_bytes_to e;;; Ret (MetaMdir il)
              else
               d0 <- children_loop f m (Some s) true end_ (meta_unknown_dispatch m) [] current0;;
               e <- add64 m "meta start+size (final seek)" (p - 8) s;;
               skip_bytes_to e;;; Ret (MetaUnknown h d0))
         | None => Throw EData
         end) (lvA 3 * s + lvB 3) (lvAl 3 * s + lvBl 3) (fun (_ : meta) (p' : N) => p' = p - 8 + s)).
    { intros q w Hq1 Hq2 Hw. cacc_step. cacc_step.
      eapply cacc_bind;
        [apply (loop_ok d Hd Hlen 2 m s _ (meta_find_hdlr m) None f q Hs);
         [intros; apply meta_find_hdlr_ok; first [assumption|lia]|apply Hfq; assumption]
        |carith|carith|cbn beta; intros hd q1 _].
      cacc_step; [|cacc_go]. cacc_step. cacc_step. cacc_step.
      - eapply cacc_bind;
          [apply (loop_ok d Hd Hlen 2 m s _ (meta_mdir_dispatch m) None f q Hs);
           [intros; apply meta_mdir_ok; first [assumption|lia]|apply Hfq; assumption]
          |carith|carith|cbn beta; intros il q2 _].
        cacc_go.
      - eapply cacc_bind;
          [apply (loop_ok d Hd Hlen 2 m s _ (meta_unknown_dispatch m) [] f q Hs);
           [intros; apply meta_unknown_ok; first [assumption|lia]|apply Hfq; assumption]
          |carith|carith|cbn beta; intros il q2 _].
        cacc_go. }
    cacc_step.
    - cacc_step. cacc_step.
      destruct (boxtype_of_u32 x0); try (cacc_go; fail).
      cacc_step. apply Tail; carith.
    - cacc_step. apply Tail; carith.
  Qed.
End Meta.
