(** * C06: what the lookups of track.rs need to know about the parsed VALUES

    The model's integers are [N]; a Rust [u32] field holds a value below 2^32.  The sample
    lookups multiply and add such fields in [u64] without a check, which is safe for [u32]
    operands and only for them; and the fragmented [sample_time] slices
    [trun.sample_durations[..sample_idx]], which is safe only because [TrunBox::read_box] pushes
    one duration per sample when the flag is set.  This file defines these facts ([xxx_ok]) and
    proves that the leaf decoders establish them — in the form [cont_sat (dec_xxx m) xxx_ok]
    (Proofs/SafeLoop.v): from every call site, no panic, and IF the decoder returns [Ok v] then
    [xxx_ok v]. *)
From MP4 Require Import Hoare SafeLoop SafeLeaf1 SafeLeaf2 SafeLeaf3.
From MP4 Require Import BoxStsz BoxStts BoxStsc BoxTrex BoxTfhd BoxTrun.
From Coq Require Import ZArith ZifyN ZifyNat ZifyBool Lia.
Open Scope N_scope.

(** ** the facts *)
Definition stsz_ok (v : stsz) : Prop := stsz_sample_size v < U32.
Definition stts_ok (v : stts) : Prop := Forall (fun e => stts_e_sample_delta e < U32) (stts_entries v).
(** the first [first_sample] derived by [StscBox::read_box] is 1: sample id 0 is below every entry *)
Definition stsc_ok (v : stsc) : Prop :=
  match stsc_entries v with e :: _ => 1 <= stsc_e_first_sample e | [] => True end.
Definition trex_ok (v : trex) : Prop := trex_default_sample_duration v < U32.
Definition tfhd_ok (v : tfhd) : Prop :=
  match tfhd_default_sample_duration v with Some x => x < U32 | None => True end.
(** the per-sample duration vector has one entry per sample when its flag is set *)
Definition trun_ok (v : trun) : Prop :=
  trun_has trun_FLAG_SAMPLE_DURATION (trun_flags v) = true ->
  lenN (trun_sample_durations v) = trun_sample_count v.

(** ** a counted loop whose elements satisfy [R] *)
Lemma sat_rd_n_bind_R {A B} d (body : prog A) (R : A -> Prop) n p (k : list A -> prog B) Q :
  (forall p', sat d p' body (fun x _ => R x)) ->
  (forall l p', length l = n -> Forall R l -> sat d p' (k l) Q) ->
  sat d p (bind (rd_n n body) k) Q.
Proof.
  intros Hb Hk. eapply sat_bind; [apply (sat_rd_n d body (fun _ _ => True) R n p I)|].
  - intros i p' _ _. eapply sat_conseq; [|apply Hb]. cbn beta. auto.
  - cbn beta. intros l p' (_ & Hlen & Hall). now apply Hk.
Qed.

Ltac leaf_start := intros d p size Hd Hl H8 Hp Hs.

(** ** stsz, stts, trex, tfhd *)
Lemma dec_stsz_ok m : cont_sat (dec_stsz m) stsz_ok.
Proof.
  leaf_start. unfold dec_stsz. sat_go.
  - eapply sat_rd_n_bind with (I := fun _ => True);
      [exact I | intros p' _; apply sat_bind_ret; sat_go; exact I | intros l p' _].
    sat_go; try sat_arith. unfold stsz_ok. cbn [stsz_sample_size]. sat_arith.
  - unfold stsz_ok. cbn [stsz_sample_size]. sat_arith.
Qed.

Lemma sat_stts_rd_entry d p : bytes_ok d = true ->
  sat d p stts_rd_entry (fun e _ => stts_e_sample_delta e < U32).
Proof. intros Hd. unfold stts_rd_entry. sat_go. cbn [stts_e_sample_delta]. sat_arith. Qed.

Lemma dec_stts_ok m : cont_sat (dec_stts m) stts_ok.
Proof.
  leaf_start. unfold dec_stts. sat_go.
  apply sat_rd_n_bind_R with (R := fun e => stts_e_sample_delta e < U32).
  - intros p'. now apply sat_stts_rd_entry.
  - intros l p' _ Hall. sat_go; try sat_arith. exact Hall.
Qed.

(** stsc: the second pass stores the running sample id, which starts at 1 *)
Lemma sat_stsc_fill_head d p es sid :
  sat d p (stsc_fill es sid)
      (fun r _ => match r with e :: _ => stsc_e_first_sample e = sid | [] => True end).
Proof.
  destruct es as [|e t]; cbn [stsc_fill].
  - now apply sat_ret.
  - unfold step. cbn [bind]. apply sat_Step. destruct t as [|nx t'].
    + now apply sat_ret.
    + destruct (stsc_next_id e nx sid) as [sid'|]; [|apply sat_throw].
      apply sat_bind_any; [eapply sat_conseq; [|apply SafeLeaf2.sat_stsc_fill]; cbn beta; auto|].
      intros r p'. now apply sat_ret.
Qed.

Lemma dec_stsc_ok m : cont_sat (dec_stsc m) stsc_ok.
Proof.
  leaf_start. unfold dec_stsc. sat_go.
  eapply sat_rd_n_bind with (I := fun _ => True);
    [exact I | intros p' _; apply sat_bind_ret; unfold stsc_rd_entry; sat_go; exact I | intros l p' _].
  eapply sat_bind; [apply sat_stsc_fill_head|]. cbn beta. intros es p1 Hes.
  sat_go; try sat_arith. unfold stsc_ok. cbn [stsc_entries].
  destruct es as [|e t]; [exact I|]. rewrite Hes. clear. lia.
Qed.

Lemma dec_trex_ok m : cont_sat (dec_trex m) trex_ok.
Proof.
  leaf_start. unfold dec_trex. sat_go; try sat_arith.
  unfold trex_ok. cbn [trex_default_sample_duration]. sat_arith.
Qed.

(** an optional field of [tfhd] read as [u32] *)
Lemma sat_tfhd_rd_opt32 {B} d p flag flags (k : option N -> prog B) Q :
  bytes_ok d = true ->
  (forall o p', match o with Some x => x < U32 | None => True end -> sat d p' (k o) Q) ->
  sat d p (bind (tfhd_rd_opt flag flags (rd_u 4)) k) Q.
Proof.
  intros Hd H. unfold tfhd_rd_opt. destruct (tfhd_has flag flags).
  - apply sat_bind_assoc. apply sat_rd_u; [exact Hd|lia|]. intros x Hx Hp. cbn [bind]. apply H.
    rewrite pow256_4 in Hx. exact Hx.
  - cbn [bind]. apply H. exact I.
Qed.

Lemma dec_tfhd_ok m : cont_sat (dec_tfhd m) tfhd_ok.
Proof.
  leaf_start. unfold dec_tfhd. sat_go.
  unfold rd_u64, rd_u32.
  apply sat_tfhd_rd_opt; [exact Hd|lia|]. intros o1 p1.
  apply sat_tfhd_rd_opt; [exact Hd|lia|]. intros o2 p2.
  apply sat_tfhd_rd_opt32; [exact Hd|]. intros o3 p3 Ho3.
  apply sat_tfhd_rd_opt; [exact Hd|lia|]. intros o4 p4.
  apply sat_tfhd_rd_opt; [exact Hd|lia|]. intros o5 p5.
  sat_go; try sat_arith. exact Ho3.
Qed.

(** ** trun *)
Definition trun_row_ok (flags : N) (r : trun_row) : Prop :=
  trun_has trun_FLAG_SAMPLE_DURATION flags = true -> trun_row_d r <> None.

Lemma sat_trun_rd_row_ok d p flags : bytes_ok d = true ->
  sat d p (trun_rd_row flags) (fun r _ => trun_row_ok flags r).
Proof.
  intros Hd. unfold trun_rd_row, trun_row_ok.
  destruct (trun_has trun_FLAG_SAMPLE_DURATION flags); unfold trun_rd_opt at 1.
  - sat_go.
    apply sat_trun_rd_opt; [exact Hd|]. intros o2 p2.
    apply sat_trun_rd_opt; [exact Hd|]. intros o3 p3.
    apply sat_trun_rd_opt; [exact Hd|]. intros o4 p4.
    apply sat_ret. intros _. cbn. discriminate.
  - cbn [bind].
    apply sat_trun_rd_opt; [exact Hd|]. intros o2 p2.
    apply sat_trun_rd_opt; [exact Hd|]. intros o3 p3.
    apply sat_trun_rd_opt; [exact Hd|]. intros o4 p4.
    apply sat_ret. discriminate.
Qed.

Lemma trun_durations_length (rows : list trun_row) :
  Forall (fun r => trun_row_d r <> None) rows ->
  length (flat_map (fun r => trun_olist (trun_row_d r)) rows) = length rows.
Proof.
  induction 1 as [|r t Hr _ IH]; [reflexivity|]. cbn [flat_map].
  rewrite app_length, IH. destruct (trun_row_d r); [reflexivity|contradiction].
Qed.

Lemma dec_trun_ok m : cont_sat (dec_trun m) trun_ok.
Proof.
  leaf_start. unfold dec_trun. do 3 sat_step.
  apply sat_bind_any; [destruct (trun_has trun_FLAG_DATA_OFFSET flags); sat_go; exact I|].
  intros data_offset p1.
  apply sat_bind_any; [destruct (trun_has trun_FLAG_FIRST_SAMPLE_FLAGS flags); sat_go; exact I|].
  intros first_sample_flags p2.
  match goal with |- sat _ _ (if ?b then _ else _) _ => destruct b; [apply sat_throw|] end.
  apply sat_bind_any; [destruct (trun_has trun_FLAG_SAMPLE_DURATION flags); sat_go; exact I|].
  intros _ p3.
  apply sat_bind_any; [destruct (trun_has trun_FLAG_SAMPLE_SIZE flags); sat_go; exact I|].
  intros _ p4.
  apply sat_bind_any; [destruct (trun_has trun_FLAG_SAMPLE_FLAGS flags); sat_go; exact I|].
  intros _ p5.
  apply sat_bind_any; [destruct (trun_has trun_FLAG_SAMPLE_CTS flags); sat_go; exact I|].
  intros _ p6.
  apply sat_rd_n_bind_R with (R := trun_row_ok flags).
  - intros p'. now apply sat_trun_rd_row_ok.
  - intros rows p7 Hlen Hall. clear - Hd Hl H8 Hp Hs Hlen Hall.
    sat_go; try sat_arith.
    unfold trun_ok. cbn [trun_flags trun_sample_durations trun_sample_count]. intros Hf.
    unfold lenN. rewrite trun_durations_length.
    + rewrite Hlen, Hf. clear.
      replace (0 <? 4 + _ + _ + _) with true; [lia|].
      symmetry. apply N.ltb_lt. lia.
    + eapply Forall_impl; [|exact Hall]. intros r Hr. exact (Hr Hf).
Qed.
