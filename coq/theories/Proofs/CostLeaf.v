(** * C07/C08, leaf layer: every leaf decoder does an amount of work and of allocation bounded by
      a fixed linear function of the box size, whatever the input holds.

    Statements: [bnd (dec_xxx m size) (a * size + b) (c * size + e)] ([Cost.v]): from EVERY position
    of EVERY byte string the run performs at most [a * size + b] stream calls + bytes moved + CPU
    steps, requests at most [c * size + e] bytes of allocation in total — hence in any single
    request — and does not run out of fuel.

    For the table boxes this is exactly the C08 fact: the entry count read from the input is compared
    with [(size - header) / entry_size] BEFORE [Vec::with_capacity(count)], so the request is at most
    [k * size]; the containers compare [size] with the size of the parent, hence with the file. *)
From MP4 Require Import Cost.
From MP4 Require Import BoxStts BoxCtts BoxStsc BoxStsz BoxStss BoxStco BoxCo64 BoxElst BoxTrun.
From Coq Require Import ZArith ZifyN ZifyNat ZifyBool Lia.
Open Scope N_scope.

(** ** Synthesis of a bound for a small compound program (the bounds are evars) *)
Lemma bnd_if {A} (b : bool) (c1 c2 : prog A) W1 A1 W2 A2 :
  (b = true -> bnd c1 W1 A1) -> (b = false -> bnd c2 W2 A2) ->
  bnd (if b then c1 else c2) (N.max W1 W2) (N.max A1 A2).
Proof.
  intros H1 H2. destruct b.
  - eapply bnd_weaken; [apply H1; reflexivity|lia|lia].
  - eapply bnd_weaken; [apply H2; reflexivity|lia|lia].
Qed.

Ltac bnd_synth :=
  lazymatch goal with
  | |- bnd (bind _ _) _ _ => eapply bnd_bind; [bnd_synth | intros ?; bnd_synth]
  | |- bnd (if _ then _ else _) _ _ => eapply bnd_if; intros ?; bnd_synth
  | |- bnd (let '(_, _) := ?x in _) _ _ => destruct x; bnd_synth
  | |- _ => bnd_prim
  end.

(** the list a counted loop returns has the length of the count *)
Lemma mrun_rd_n_length {A} (body : prog A) n d p l :
  fst (fst (mrun (rd_n n body) d p)) = Ok l -> length l = n.
Proof.
  revert p l; induction n as [|n IH]; intros p l; cbn [rd_n].
  - rewrite mrun_Ret. cbn. intros [= <-]. reflexivity.
  - rewrite mrun_bind. destruct (mrun body d p) as [[r p1] k1].
    destruct r as [x|e|y|]; cbn; try discriminate.
    rewrite mrun_bind. specialize (IH p1).
    destruct (mrun (rd_n n body) d p1) as [[r2 p2] k2].
    destruct r2 as [l2|e|y|]; cbn; try discriminate.
    intros [= <-]. cbn [length]. f_equal. now apply IH.
Qed.

Lemma acc_rd_n {A B} w a n (body : prog A) (f : list A -> prog B) W Al Wb Ab :
  bnd body Wb Ab -> w + N.of_nat n * Wb <= W -> a + N.of_nat n * Ab <= Al ->
  (forall l, length l = n -> acc (w + N.of_nat n * Wb) (a + N.of_nat n * Ab) (f l) W Al) ->
  acc w a (bind (rd_n n body) f) W Al.
Proof.
  intros Hb Hw Ha H d p Hd. rewrite mrun_bind.
  pose proof (bnd_rd_n body n Wb Ab Hb d p Hd) as H1.
  pose proof (mrun_rd_n_length body n d p) as Hlen.
  destruct (mrun (rd_n n body) d p) as [[r p1] k1]. destruct H1 as (Hr & Hw1 & Ha1).
  destruct r as [l|e|y|]; try (repeat split; [discriminate|lia|lia]); [|congruence].
  specialize (H l (Hlen l eq_refl) d p1 Hd). destruct (mrun (f l) d p1) as [[r2 p2] k2].
  destruct H as (Hr2 & Hw2 & Ha2). rewrite cwork_cadd, casum_cadd. repeat split; auto; lia.
Qed.

Ltac acc_arith' := sat_bools; rewrite ?N2Nat.id in *; sat_consts; lia.
Ltac acc_arith ::= acc_arith'.

(** a counted loop on the spine: the bound of the body is synthesised *)
Ltac acc_loop :=
  eapply acc_rd_n; [bnd_synth | acc_arith' | acc_arith' | intros ? ?].

Ltac acc_all := repeat first [acc_step | acc_loop].

(** ** The sample-table boxes *)
Lemma stts_cost m size : bnd (dec_stts m size) (2 * size + 40) size.
Proof. apply bnd_of_acc. unfold dec_stts, stts_rd_entry. acc_all. Qed.

Lemma ctts_cost m size : bnd (dec_ctts m size) (2 * size + 40) size.
Proof. apply bnd_of_acc. unfold dec_ctts, ctts_rd_entry. acc_all. Qed.

Lemma stss_cost m size : bnd (dec_stss m size) (2 * size + 40) size.
Proof. apply bnd_of_acc. unfold dec_stss. acc_all. Qed.

Lemma stco_cost m size : bnd (dec_stco m size) (2 * size + 40) size.
Proof. apply bnd_of_acc. unfold dec_stco. acc_all. Qed.

Lemma co64_cost m size : bnd (dec_co64 m size) (2 * size + 40) size.
Proof. apply bnd_of_acc. unfold dec_co64. acc_all. Qed.

(** a division whose divisor is visibly nonzero: keep the quotient (the count guard uses it) *)
Ltac acc_div :=
  lazymatch goal with
  | |- acc _ _ (bind (lift (div_w _ _ _)) _) _ _ =>
      rewrite div_w_ok by (sat_bools; sat_consts; lia); cbn [lift bind]
  | |- acc _ _ (bind (lift (rem_w _ _ _)) _) _ _ =>
      rewrite rem_w_ok by (sat_bools; sat_consts; lia); cbn [lift bind]
  end.

(** a call the stepper does not know: unfold it (never a loop) *)
Ltac head_of t := lazymatch t with ?f _ => head_of f | _ => t end.
Ltac acc_unfold :=
  lazymatch goal with
  | |- acc _ _ (bind ?c _) _ _ =>
      let h := head_of c in
      lazymatch h with
      | @rd_n => fail
      | @bind => fail
      | _ => unfold h
      end
  | |- acc _ _ ?c _ _ =>
      let h := head_of c in
      lazymatch h with
      | @rd_n => fail
      | @bind => fail
      | _ => unfold h
      end
  end.

Ltac acc_all ::= repeat first [acc_div | acc_step | acc_loop | acc_unfold].

(** stsc: the second loop touches no stream; one step per entry *)
Lemma bnd_stsc_fill es sid : bnd (stsc_fill es sid) (lenN es) 0.
Proof.
  revert sid; induction es as [|e t IH]; intros sid; cbn [stsc_fill].
  - apply bnd_Ret.
  - rewrite lenN_cons. apply (bnd_weaken _ (1 + lenN t) (0 + 0)); [|lia|lia].
    eapply bnd_bind; [apply bnd_step|]. intros _. destruct t as [|nx t'].
    + eapply bnd_weaken; [apply bnd_Ret|lia|lia].
    + destruct (stsc_next_id e nx sid) as [sid'|]; [|eapply bnd_weaken; [apply bnd_Throw|lia|lia]].
      apply (bnd_weaken _ (lenN (nx :: t') + 0) (0 + 0)); [|lia|lia].
      eapply bnd_bind; [apply IH|]. intros r. apply bnd_Ret.
Qed.

Lemma stsc_cost m size : bnd (dec_stsc m size) (2 * size + 40) (2 * size).
Proof.
  apply bnd_of_acc. unfold dec_stsc, stsc_rd_entry. acc_all.
  eapply acc_bind; [apply bnd_stsc_fill| | |intros ?]; [unfold lenN; acc_arith'..|].
  unfold lenN. acc_all.
Qed.

Lemma stsz_cost m size : bnd (dec_stsz m size) (2 * size + 40) size.
Proof. apply bnd_of_acc. unfold dec_stsz. acc_all. Qed.

Lemma elst_cost m size : bnd (dec_elst m size) (2 * size + 40) (2 * size).
Proof.
  apply bnd_of_acc. unfold dec_elst, elst_rd_entry. acc_all.
  match goal with H : context [if ?b then _ else _] |- _ => destruct b end; acc_all.
Qed.

(** trun: the four optional per-sample fields; [s b] is the wire size of one of them *)
Lemma bnd_trun_rd_opt b : bnd (trun_rd_opt b) (2 * (if b then 4 else 0)) 0.
Proof.
  unfold trun_rd_opt. destruct b.
  - apply (bnd_weaken _ (5 + 0) (0 + 0)); [|lia|lia]. eapply bnd_bind; [apply bnd_rd_u32|intros; apply bnd_Ret].
  - apply bnd_Ret.
Qed.

Lemma bnd_trun_alloc (b : bool) c : bnd (if b then alloc (c * 4) else Ret tt) 0 (c * (if b then 4 else 0)).
Proof. destruct b; [apply bnd_alloc|eapply bnd_weaken; [apply bnd_Ret|lia|lia]]. Qed.

Lemma bnd_trun_rd_row flags :
  bnd (trun_rd_row flags)
      (2 * (if trun_has trun_FLAG_SAMPLE_DURATION flags then 4 else 0)
       + (2 * (if trun_has trun_FLAG_SAMPLE_SIZE flags then 4 else 0)
          + (2 * (if trun_has trun_FLAG_SAMPLE_FLAGS flags then 4 else 0)
             + (2 * (if trun_has trun_FLAG_SAMPLE_CTS flags then 4 else 0) + 0)))) (0 + (0 + (0 + (0 + 0)))).
Proof.
  unfold trun_rd_row.
  eapply bnd_bind; [apply bnd_trun_rd_opt|intros ?].
  eapply bnd_bind; [apply bnd_trun_rd_opt|intros ?].
  eapply bnd_bind; [apply bnd_trun_rd_opt|intros ?].
  eapply bnd_bind; [apply bnd_trun_rd_opt|intros ?]. apply bnd_Ret.
Qed.

Ltac trun_alloc_step :=
  lazymatch goal with
  | |- acc _ _ (bind (if _ then alloc _ else Ret tt) _) _ _ =>
      eapply acc_bind; [apply bnd_trun_alloc | acc_arith' | acc_arith' | intros _]
  end.

Ltac trun_loop_step :=
  lazymatch goal with
  | |- acc _ _ (bind (rd_n (N.to_nat (if ?b then _ else _)) (trun_rd_row _)) _) _ _ =>
      destruct b eqn:?; (eapply acc_rd_n; [apply bnd_trun_rd_row | acc_arith' | acc_arith' | intros ? ?])
  end.

Lemma trun_cost m size : bnd (dec_trun m size) (2 * size + 40) size.
Proof.
  apply bnd_of_acc. unfold dec_trun.
  repeat first [trun_alloc_step | trun_loop_step | acc_step].
Qed.
