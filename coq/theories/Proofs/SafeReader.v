(** * C06, reader layer: opening a file, opening a fragment, and every accessor never panic

    - [open_sat] / [open_never_panics]: [Mp4Reader::read_header] on ANY byte string with its true
      length (valid bytes, fewer than 2^62 of them), for all fuel, in both build modes; a reader
      value it returns satisfies [reader_ok];
    - [open_fragment_sat] / [open_fragment_never_panics]: [read_fragment_header] against ANY
      reader value; the result is [reader_ok] when the first reader's moov box is;
    - [calls_never_panic]: [read_sample], [sample_offset], [sample_count] on a [reader_ok] reader,
      any stream, any track id, any [u32] sample id;
    - [accessors_never_panic]: the [Result]-valued accessors of [Mp4Track], for ANY track value;
    - [open_then_calls_never_panic], [open_fragment_then_calls_never_panic]: the compositions
      the property speaks about.

    [reader_ok] only records the facts of [SafeValues.v] (integer widths, first stsc
    [first_sample], trun duration count) for the moov box and for every track; it says nothing
    about the consistency of the sample tables. *)
From MP4 Require Import Hoare SafeLoop SafeLeaf1 SafeLeaf3 SafeValues SafeContainers SafeContainers2 SafeLookup.
From MP4 Require Import Reader.
From MP4 Require Track.
From Coq Require Import ZArith ZifyN ZifyNat ZifyBool Lia.
Open Scope N_scope.

(** ** the invariant of reader values *)
Definition mp4track_ok (t : mp4track) : Prop :=
  trak_ok (mt_trak t) /\ Forall traf_ok (mt_trafs t) /\ mt_default_sample_duration t < U32.

Definition tracks_ok (l : list (N * mp4track)) : Prop := Forall (fun kv => mp4track_ok (snd kv)) l.

Definition reader_ok (r : mp4reader) : Prop := moov_ok (rd_moov r) /\ tracks_ok (rd_tracks r).

(** ** from the box values to the lookup view *)
Lemma FLAG_SAMPLE_DURATION_eq : Track.FLAG_SAMPLE_DURATION = trun_FLAG_SAMPLE_DURATION.
Proof. reflexivity. Qed.

Lemma traf_fragrun_ok tf off : traf_ok tf -> fragrun_ok (traf_fragrun tf off).
Proof.
  intros [Hh Hr]. unfold traf_fragrun, fragrun_ok.
  cbn [Track.fr_default_duration Track.fr_has_trun Track.fr_flags Track.fr_durations Track.fr_sample_count].
  split; [exact Hh|]. destruct (traf_trun tf) as [ru|]; [|discriminate].
  cbn [opt_ok] in Hr. intros _ Hf. apply Hr. unfold trun_has. rewrite <- FLAG_SAMPLE_DURATION_eq.
  apply N.ltb_lt. lia.
Qed.

Lemma frag_views_ok trafs : forall offs, Forall traf_ok trafs -> Forall fragrun_ok (frag_views trafs offs).
Proof.
  induction trafs as [|tf t IH]; intros offs H; cbn [frag_views]; [constructor|].
  inversion H; subst. constructor; [now apply traf_fragrun_ok|now apply IH].
Qed.

Lemma track_view_ok t : mp4track_ok t -> view_ok (track_view t).
Proof.
  intros ((Hz & Ht & Hc) & Hf & Hd). unfold track_view, view_ok.
  cbn [Track.tr_tables Track.tr_frags Track.tr_default_sample_duration].
  split; [|split; [now apply frag_views_ok|exact Hd]].
  set (sb := minf_stbl (mdia_minf (trak_mdia (mt_trak t)))) in *.
  unfold tables_ok, stbl_tables. cbn [Track.t_stsz_size Track.t_stts Track.t_stsc].
  split; [exact Hz|]. split.
  - unfold stts_ok in Ht. apply Forall_map. eapply Forall_impl; [|exact Ht]. cbn beta. auto.
  - unfold stsc_ok in Hc. destruct (stsc_entries (stbl_stsc sb)) as [|e es]; [exact I|].
    cbn [map Track.sc_first_sample]. exact Hc.
Qed.

(** ** [tracks], [attach_trafs], [attach_moofs] *)
Lemma Forall_filter {A} (P : A -> Prop) f (l : list A) : Forall P l -> Forall P (filter f l).
Proof.
  induction 1 as [|x t Hx _ IH]; cbn [filter]; [constructor|]. destruct (f x); [constructor|]; auto.
Qed.

Lemma tracks_insert_ok k v l : mp4track_ok v -> tracks_ok l -> tracks_ok (tracks_insert k v l).
Proof.
  intros Hv Hl. unfold tracks_insert, tracks_ok. apply Forall_app. split.
  - now apply Forall_filter.
  - constructor; [exact Hv|constructor].
Qed.

Lemma tracks_collect_ok ts : Forall trak_ok ts -> tracks_ok (tracks_collect ts).
Proof.
  unfold tracks_collect. intros H.
  assert (G : forall acc, tracks_ok acc ->
    tracks_ok (fold_left (fun acc t => tracks_insert (tkhd_track_id (trak_tkhd t)) (mp4track_from t) acc) ts acc)).
  { induction H as [|t ts' Ht _ IH]; intros acc Hacc; cbn [fold_left]; [exact Hacc|].
    apply IH. apply tracks_insert_ok; [|exact Hacc].
    unfold mp4track_from, mp4track_ok. cbn [mt_trak mt_trafs mt_default_sample_duration].
    split; [exact Ht|]. split; [constructor|unfold U32; lia]. }
  apply G. constructor.
Qed.

Lemma tracks_get_In k l v : tracks_get k l = Some v -> exists k', In (k', v) l.
Proof.
  induction l as [|[k' v'] t IH]; cbn [tracks_get]; [discriminate|].
  destruct (tracks_get k t) as [w|].
  - intros [= <-]. destruct (IH eq_refl) as [k2 H]. exists k2. now right.
  - destruct (k' =? k); [|discriminate]. intros [= <-]. exists k'. now left.
Qed.

Lemma tracks_get_ok k l v : tracks_ok l -> tracks_get k l = Some v -> mp4track_ok v.
Proof.
  intros Hl H. apply tracks_get_In in H as [k' H]. unfold tracks_ok in Hl.
  rewrite Forall_forall in Hl. exact (Hl _ H).
Qed.

Lemma tracks_update_ok k f l : (forall t, mp4track_ok t -> mp4track_ok (f t)) ->
  tracks_ok l -> tracks_ok (tracks_update k f l).
Proof.
  intros Hf Hl. unfold tracks_update, tracks_ok. apply Forall_map.
  eapply Forall_impl; [|exact Hl]. intros [k' t] H. cbn [fst snd] in *.
  destruct (k' =? k); cbn [snd]; auto.
Qed.

Lemma attach_trafs_np dsd off trafs : forall tracks, np (attach_trafs dsd off trafs tracks).
Proof.
  induction trafs as [|tf t IH]; intros tracks; cbn [attach_trafs]; [reflexivity|].
  destruct (tracks_get _ tracks); [apply IH|reflexivity].
Qed.

Lemma attach_trafs_ok dsd off trafs : dsd < U32 -> Forall traf_ok trafs -> forall tracks tracks',
  tracks_ok tracks -> attach_trafs dsd off trafs tracks = Ok tracks' -> tracks_ok tracks'.
Proof.
  intros Hdsd H. induction H as [|tf t Htf _ IH]; intros tracks tracks' Hok; cbn [attach_trafs].
  - now intros [= <-].
  - destruct (tracks_get _ tracks); [|discriminate]. apply IH.
    apply tracks_update_ok; [|exact Hok]. intros t0 (H1 & H2 & H3).
    unfold mp4track_ok. cbn [mt_trak mt_trafs mt_default_sample_duration].
    split; [exact H1|]. split; [|exact Hdsd]. apply Forall_app. split; [exact H2|].
    constructor; [exact Htf|constructor].
Qed.

Lemma attach_moofs_np dsd ms : forall tracks, np (attach_moofs dsd ms tracks).
Proof.
  induction ms as [|[mf off] t IH]; intros tracks; cbn [attach_moofs]; [reflexivity|].
  apply np_res_bind; [apply attach_trafs_np|]. intros a _. apply IH.
Qed.

Lemma attach_moofs_ok dsd ms : dsd < U32 -> Forall (fun p => moof_ok (fst p)) ms -> forall tracks tracks',
  tracks_ok tracks -> attach_moofs dsd ms tracks = Ok tracks' -> tracks_ok tracks'.
Proof.
  intros Hdsd H. induction H as [|[mf off] t Hmf _ IH]; intros tracks tracks' Hok; cbn [attach_moofs].
  - now intros [= <-].
  - destruct (attach_trafs dsd off (moof_trafs mf) tracks) as [tr1| | |] eqn:E; cbn [res_bind];
      try discriminate.
    apply IH. exact (attach_trafs_ok dsd off _ Hdsd Hmf _ _ Hok E).
Qed.

Lemma combine_moofs_ok moofs : forall offs : list N,
  Forall moof_ok moofs -> Forall (fun p => moof_ok (fst p)) (combine moofs offs).
Proof.
  induction moofs as [|mf t IH]; intros offs H; cbn [combine]; [constructor|].
  destruct offs as [|o os]; [constructor|]. inversion H; subst. constructor; [assumption|now apply IH].
Qed.

Lemma moov_dsd_lt v : moov_ok v -> moov_default_sample_duration v < U32.
Proof.
  intros [H _]. unfold moov_default_sample_duration. destruct (moov_mvex v); [exact H|unfold U32; lia].
Qed.

(** the [lift (attach_moofs ..)] step of both entry points *)
Lemma sat_attach_moofs {B} d p dsd moofs offs tracks (k : list (N * mp4track) -> prog B) Q :
  (forall tracks', (dsd < U32 -> Forall moof_ok moofs -> tracks_ok tracks -> tracks_ok tracks') ->
                   sat d p (k tracks') Q) ->
  sat d p (bind (lift (attach_moofs dsd (combine moofs offs) tracks)) k) Q.
Proof.
  intros H. apply sat_lift_bind.
  pose proof (attach_moofs_np dsd (combine moofs offs) tracks) as Hnp.
  destruct (attach_moofs dsd (combine moofs offs) tracks) as [tr| | |] eqn:E; try exact I;
    [|discriminate Hnp].
  apply H. intros H1 H2 H3.
  exact (attach_moofs_ok dsd _ H1 (combine_moofs_ok _ _ H2) _ _ H3 E).
Qed.

(** ** [Mp4Reader::read_header] *)
Definition open_IA (a : open_acc) : Prop :=
  let '(ft, mv, moofs, offs, emsgs) := a in opt_ok moov_ok mv /\ Forall moof_ok moofs.

Lemma open_dispatch_sat d m size f cur name s a p :
  bytes_ok d = true -> lenN d < 2 ^ 62 -> size < 2 ^ 62 ->
  open_IA a -> 8 <= p -> p <= lenN d -> s <= size ->
  sat d p (open_dispatch m f cur name s a) (fun a' _ => open_IA a').
Proof.
  intros Hd Hl Hsz HI H8 Hp Hle. unfold open_dispatch. destruct a as [[[[ft mv] moofs] offs] emsgs].
  unfold open_IA in *. destruct HI as [HI1 HI2].
  destruct name; try (disp_skip ltac:(split; assumption));
    first [ disp_call (cont_sat_of_leaf _ (dec_ftyp_sat m)) ltac:(split; assumption)
          | disp_call (dec_moov_fuel_sat f m) ltac:(split; assumption)
          | disp_call (cont_sat_of_leaf _ (dec_emsg_sat m)) ltac:(split; assumption)
          | disp_call (dec_moof_fuel_sat f m)
              ltac:(split; [assumption|apply Forall_app; split; [assumption|constructor; [assumption|constructor]]]) ].
Qed.

Theorem open_sat fuel m d : bytes_ok d = true -> lenN d < 2 ^ 62 ->
  sat d 0 (open_fuel fuel m (lenN d)) (fun r _ => reader_ok r).
Proof.
  intros Hd Hl. unfold open_fuel, get_pos. cbn [bind]. apply sat_GetPos.
  eapply sat_bind.
  - unfold children_loop_at.
    apply (sat_children_loop_gen d m (Some (lenN d)) true (lenN d) (open_dispatch m) pair
             (fun a _ => open_IA a) Hd).
    + intros f name s a p p' HI Hh Hp' Hcs _. apply open_dispatch_sat with (size := lenN d); auto.
      * clear - Hh. lia.
    + split; [exact I|constructor].
  - cbn beta. intros r p' (acc & cur & -> & HI).
    destruct acc as [[[[ft mv] moofs] offs] emsgs]. destruct HI as [Hmv Hmf].
    destruct ft as [f|]; [|apply sat_throw]. destruct mv as [v|]; [|apply sat_throw].
    cbn [opt_ok] in Hmv.
    apply sat_sub64; [lia|].
    destruct (existsb _ (moov_traks v)); [apply sat_throw|].
    pose proof (tracks_collect_ok _ (proj2 Hmv)) as Htr.
    destruct moofs as [|mf moofs'].
    + cbn [bind]. apply sat_ret. split; assumption.
    + apply sat_attach_moofs. intros tracks' Hok. apply sat_ret. split; [exact Hmv|].
      cbn [rd_tracks]. apply Hok; [now apply moov_dsd_lt|exact Hmf|exact Htr].
Qed.

Theorem open_never_panics : forall fuel m data, bytes_ok data = true -> lenN data < 2 ^ 62 ->
  is_panic (fst (run (open_fuel fuel m (lenN data)) (stream_at data 0))) = false.
Proof. intros fuel m data Hd Hl. exact (sat_no_panic _ _ _ _ (open_sat fuel m data Hd Hl)). Qed.

Theorem open_returns_ok_reader : forall fuel m data r,
  bytes_ok data = true -> lenN data < 2 ^ 62 ->
  fst (run (open_fuel fuel m (lenN data)) (stream_at data 0)) = Ok r -> reader_ok r.
Proof.
  intros fuel m data r Hd Hl E. pose proof (open_sat fuel m data Hd Hl) as S. unfold sat in S.
  destruct (run (open_fuel fuel m (lenN data)) (stream_at data 0)) as [x s']. cbn [fst] in E. subst x.
  destruct S as (p' & _ & H). exact H.
Qed.

(** ** [Mp4Reader::read_fragment_header], against ANY reader value *)
Definition frag_IA (a : frag_acc) : Prop := Forall moof_ok (fst a).

Lemma frag_dispatch_sat d m size f cur name s a p :
  bytes_ok d = true -> lenN d < 2 ^ 62 -> size < 2 ^ 62 ->
  frag_IA a -> 8 <= p -> p <= lenN d -> s <= size ->
  sat d p (frag_dispatch m f cur name s a) (fun a' _ => frag_IA a').
Proof.
  intros Hd Hl Hsz HI H8 Hp Hle. unfold frag_dispatch. destruct a as [moofs offs].
  unfold frag_IA in *. cbn [fst] in *.
  destruct name; try (disp_skip ltac:(exact HI));
    disp_call (dec_moof_fuel_sat f m)
      ltac:(apply Forall_app; split; [assumption|constructor; [assumption|constructor]]).
Qed.

Theorem open_fragment_sat fuel m r d : bytes_ok d = true -> lenN d < 2 ^ 62 ->
  sat d 0 (open_fragment_fuel fuel m r (lenN d)) (fun r2 _ => moov_ok (rd_moov r) -> reader_ok r2).
Proof.
  intros Hd Hl. unfold open_fragment_fuel, get_pos. cbn [bind]. apply sat_GetPos.
  eapply sat_bind.
  - unfold children_loop_at.
    apply (sat_children_loop_gen d m (Some (lenN d)) true (lenN d) (frag_dispatch m) pair
             (fun a _ => frag_IA a) Hd).
    + intros f name s a p p' HI Hh Hp' Hcs _. apply frag_dispatch_sat with (size := lenN d); auto.
      * clear - Hh. lia.
    + constructor.
  - cbn beta. intros x p' (acc & cur & -> & HI).
    destruct acc as [moofs offs]. unfold frag_IA in HI. cbn [fst] in HI.
    destruct moofs as [|mf moofs']; [apply sat_throw|].
    apply sat_sub64; [lia|].
    apply sat_attach_moofs. intros tracks' Hok. apply sat_ret. intros Hmv. split; [exact Hmv|].
    cbn [rd_tracks]. apply Hok; [now apply moov_dsd_lt|exact HI|].
    apply tracks_collect_ok. exact (proj2 Hmv).
Qed.

Theorem open_fragment_never_panics : forall fuel m r data2, bytes_ok data2 = true -> lenN data2 < 2 ^ 62 ->
  is_panic (fst (run (open_fragment_fuel fuel m r (lenN data2)) (stream_at data2 0))) = false.
Proof. intros fuel m r d Hd Hl. exact (sat_no_panic _ _ _ _ (open_fragment_sat fuel m r d Hd Hl)). Qed.

Theorem open_fragment_returns_ok_reader : forall fuel m r data2 r2,
  bytes_ok data2 = true -> lenN data2 < 2 ^ 62 -> reader_ok r ->
  fst (run (open_fragment_fuel fuel m r (lenN data2)) (stream_at data2 0)) = Ok r2 -> reader_ok r2.
Proof.
  intros fuel m r d r2 Hd Hl [Hr _] E. pose proof (open_fragment_sat fuel m r d Hd Hl) as S. unfold sat in S.
  destruct (run (open_fragment_fuel fuel m r (lenN d)) (stream_at d 0)) as [x s']. cbn [fst] in E. subst x.
  destruct S as (p' & _ & H). exact (H Hr).
Qed.

(** ** the sample calls *)
Theorem calls_never_panic : forall m r data pos tid sid, reader_ok r -> sid < U32 ->
  is_panic (fst (run (rd_read_sample m r tid sid) (stream_at data pos))) = false
  /\ is_panic (rd_sample_offset m r tid sid) = false
  /\ is_panic (rd_sample_count r tid) = false.
Proof.
  intros m r data pos tid sid [_ Htr] Hs.
  unfold rd_read_sample, rd_sample_offset, rd_sample_count.
  destruct (tracks_get tid (rd_tracks r)) as [t|] eqn:E; [|repeat split; reflexivity].
  pose proof (track_view_ok t (tracks_get_ok _ _ _ Htr E)) as Hv.
  split; [now apply read_sample_np|]. split; [now apply sample_offset_np|reflexivity].
Qed.

(** ** the [Result]-valued accessors of [Mp4Track]: no hypothesis at all.  (The remaining accessors
    — [rd_duration_ms], [rd_timescale], [rd_get_size], [rd_major_brand], [rd_is_fragmented],
    [rd_metadata], [md_title] .., [mt_track_id], [mt_width], [mt_height], [mt_language],
    [mt_timescale], [mt_duration_us], [mt_sample_count], [mt_bitrate] — are total functions into
    [N] / [bytes] / [option]: there is no [res] to inspect.) *)
Lemma enum_try_from_np tbl x : np (enum_try_from tbl x).
Proof. unfold enum_try_from. destruct (lookup_n x tbl); reflexivity. Qed.

Theorem accessors_never_panic : forall t : mp4track,
  is_panic (mt_track_type t) = false /\ is_panic (mt_media_type t) = false
  /\ is_panic (mt_box_type t) = false /\ is_panic (mt_video_profile t) = false
  /\ is_panic (mt_sequence_parameter_set t) = false /\ is_panic (mt_picture_parameter_set t) = false
  /\ is_panic (mt_audio_profile t) = false /\ is_panic (mt_sample_freq_index t) = false
  /\ is_panic (mt_channel_config t) = false.
Proof.
  intros t.
  assert (Hds : np (mt_dec_specific t)).
  { unfold mt_dec_specific. destruct (stsd_mp4a (mt_stsd t)) as [a|]; [destruct (mp4a_esds a)|]; reflexivity. }
  split. { unfold mt_track_type, tracktype_of_fourcc. destruct (find _ _) as [[[k ?] ?]|]; reflexivity. }
  split. { unfold mt_media_type. cbv zeta.
           destruct (stsd_avc1 (mt_stsd t)), (stsd_hev1 (mt_stsd t)), (stsd_vp09 (mt_stsd t)),
             (stsd_mp4a (mt_stsd t)), (stsd_tx3g (mt_stsd t)); reflexivity. }
  split. { unfold mt_box_type. cbv zeta.
           destruct (stsd_avc1 (mt_stsd t)), (stsd_hev1 (mt_stsd t)), (stsd_vp09 (mt_stsd t)),
             (stsd_mp4a (mt_stsd t)), (stsd_tx3g (mt_stsd t)); reflexivity. }
  split. { unfold mt_video_profile, avc_profile_try_from. destruct (stsd_avc1 _); [|reflexivity].
           destruct (find _ _) as [[[? ?] ?]|]; reflexivity. }
  split. { unfold mt_sequence_parameter_set. destruct (stsd_avc1 _) as [a|]; [|reflexivity].
           destruct (avcc_sequence_parameter_sets _); reflexivity. }
  split. { unfold mt_picture_parameter_set. destruct (stsd_avc1 _) as [a|]; [|reflexivity].
           destruct (avcc_picture_parameter_sets _); reflexivity. }
  split. { unfold mt_audio_profile. apply np_res_bind; [exact Hds|]. intros. apply enum_try_from_np. }
  split. { unfold mt_sample_freq_index. apply np_res_bind; [exact Hds|]. intros. apply enum_try_from_np. }
  unfold mt_channel_config. apply np_res_bind; [exact Hds|]. intros. apply enum_try_from_np.
Qed.

(** ** the compositions *)
Theorem open_then_calls_never_panic : forall fuel m data r,
  bytes_ok data = true -> lenN data < 2 ^ 62 ->
  fst (run (open_fuel fuel m (lenN data)) (stream_at data 0)) = Ok r ->
  forall m' data' pos tid sid, sid < U32 ->
    is_panic (fst (run (rd_read_sample m' r tid sid) (stream_at data' pos))) = false
    /\ is_panic (rd_sample_offset m' r tid sid) = false
    /\ is_panic (rd_sample_count r tid) = false.
Proof.
  intros fuel m data r Hd Hl E m' data' pos tid sid Hs.
  apply calls_never_panic; [|exact Hs]. exact (open_returns_ok_reader fuel m data r Hd Hl E).
Qed.

Theorem open_fragment_then_calls_never_panic : forall fuel m data r fuel2 m2 data2 r2,
  bytes_ok data = true -> lenN data < 2 ^ 62 ->
  fst (run (open_fuel fuel m (lenN data)) (stream_at data 0)) = Ok r ->
  bytes_ok data2 = true -> lenN data2 < 2 ^ 62 ->
  fst (run (open_fragment_fuel fuel2 m2 r (lenN data2)) (stream_at data2 0)) = Ok r2 ->
  forall m' data' pos tid sid, sid < U32 ->
    is_panic (fst (run (rd_read_sample m' r2 tid sid) (stream_at data' pos))) = false
    /\ is_panic (rd_sample_offset m' r2 tid sid) = false
    /\ is_panic (rd_sample_count r2 tid) = false.
Proof.
  intros fuel m data r fuel2 m2 data2 r2 Hd Hl E Hd2 Hl2 E2 m' data' pos tid sid Hs.
  apply calls_never_panic; [|exact Hs].
  apply (open_fragment_returns_ok_reader fuel2 m2 r data2 r2 Hd2 Hl2); [|exact E2].
  exact (open_returns_ok_reader fuel m data r Hd Hl E).
Qed.

(** ** [reader_ok] is needed for the sample calls: a reader value that no parse produces (a trun
    whose flags announce per-sample durations but whose vector is shorter than [sample_count])
    panics in [read_sample] — in the Rust code the slice [sample_durations[..sample_idx]] *)
Definition bad_reader : mp4reader :=
  let tf := mkTraf (mkTfhd 0 0 1 (Some 0) None None None None) None
                   (Some (mkTrun 0 (trun_FLAG_SAMPLE_DURATION + trun_FLAG_SAMPLE_SIZE) 2 None None [5] [1; 1] [] [])) in
  mkReader ftyp_default reader_test_moov [] []
           [(1, mkMp4Track trak_test [tf] [0] 0)] 0.

Example calls_can_panic_on_inconsistent_reader :
  is_panic (fst (run (rd_read_sample Dbg bad_reader 1 2) (stream_at [1; 2; 3] 0))) = true
  /\ is_panic (fst (run (rd_read_sample Rel bad_reader 1 2) (stream_at [1; 2; 3] 0))) = true.
Proof. vm_compute. split; reflexivity. Qed.

(** ** The statement of property C06 in one piece *)

(** every call the property lists, on the reader value [r]: the three sample calls for any build
    mode, stream, track id and [u32] sample id, and the [Result]-valued track accessors *)
Definition calls_safe (r : mp4reader) : Prop :=
  (forall m data pos tid sid, sid < U32 ->
     is_panic (fst (run (rd_read_sample m r tid sid) (stream_at data pos))) = false
     /\ is_panic (rd_sample_offset m r tid sid) = false
     /\ is_panic (rd_sample_count r tid) = false)
  /\ (forall tid t, tracks_get tid (rd_tracks r) = Some t ->
     is_panic (mt_track_type t) = false /\ is_panic (mt_media_type t) = false
     /\ is_panic (mt_box_type t) = false /\ is_panic (mt_video_profile t) = false
     /\ is_panic (mt_sequence_parameter_set t) = false /\ is_panic (mt_picture_parameter_set t) = false
     /\ is_panic (mt_audio_profile t) = false /\ is_panic (mt_sample_freq_index t) = false
     /\ is_panic (mt_channel_config t) = false).

Lemma reader_ok_calls_safe r : reader_ok r -> calls_safe r.
Proof.
  intros H. split.
  - intros m data pos tid sid Hs. now apply calls_never_panic.
  - intros tid t _. apply accessors_never_panic.
Qed.

Definition C06_statement : Prop :=
  (* opening any byte string with its true length *)
  (forall fuel m data, bytes_ok data = true -> lenN data < 2 ^ 62 ->
     is_panic (fst (run (open_fuel fuel m (lenN data)) (stream_at data 0))) = false)
  (* opening any byte string as a fragment against ANY reader value *)
  /\ (forall fuel m r data2, bytes_ok data2 = true -> lenN data2 < 2 ^ 62 ->
     is_panic (fst (run (open_fragment_fuel fuel m r (lenN data2)) (stream_at data2 0))) = false)
  (* every call on whatever opening returned *)
  /\ (forall fuel m data r, bytes_ok data = true -> lenN data < 2 ^ 62 ->
     fst (run (open_fuel fuel m (lenN data)) (stream_at data 0)) = Ok r -> calls_safe r)
  (* every call on whatever opening a fragment against an opened file returned *)
  /\ (forall fuel m data r fuel2 m2 data2 r2,
     bytes_ok data = true -> lenN data < 2 ^ 62 ->
     fst (run (open_fuel fuel m (lenN data)) (stream_at data 0)) = Ok r ->
     bytes_ok data2 = true -> lenN data2 < 2 ^ 62 ->
     fst (run (open_fragment_fuel fuel2 m2 r (lenN data2)) (stream_at data2 0)) = Ok r2 ->
     calls_safe r2).

Theorem C06_lemma : C06_statement.
Proof.
  split; [exact open_never_panics|]. split; [exact open_fragment_never_panics|]. split.
  - intros fuel m data r Hd Hl E. apply reader_ok_calls_safe.
    exact (open_returns_ok_reader fuel m data r Hd Hl E).
  - intros fuel m data r fuel2 m2 data2 r2 Hd Hl E Hd2 Hl2 E2. apply reader_ok_calls_safe.
    apply (open_fragment_returns_ok_reader fuel2 m2 r data2 r2 Hd2 Hl2); [|exact E2].
    exact (open_returns_ok_reader fuel m data r Hd Hl E).
Qed.

(** ** "with its true length" is needed: a declared length far above the real one (here
    [u64::MAX]) lets a 64-bit box header pass the [s > size] guard, and [start + size] in
    [skip_box] overflows — a panic in a debug build (a release build wraps and seeks backwards).
    The bytes: an 8-byte [free] box, then [00 00 00 01 "mfhd" FF FF FF FF FF FF FF FF]. *)
Definition declared_length_witness : bytes :=
  [0;0;0;8; 102;114;101;101;
   0;0;0;1; 109;102;104;100; 255;255;255;255;255;255;255;255].

Example open_declared_length_above_true_length_can_panic :
  bytes_ok declared_length_witness = true /\ lenN declared_length_witness = 24
  /\ is_panic (fst (run (open_fuel 10 Dbg (2 ^ 64 - 1)) (stream_at declared_length_witness 0))) = true
  /\ is_panic (fst (run (open_fuel 10 Dbg 24) (stream_at declared_length_witness 0))) = false
  /\ is_panic (fst (run (open_fuel 10 Rel (2 ^ 64 - 1)) (stream_at declared_length_witness 0))) = false.
Proof. vm_compute. repeat split; reflexivity. Qed.
