(** * The independent ISO parser on rendered boxes — stage 2: the sample-table box

    [parse_stbl] ([Iso/IsoFile.v]) on a box whose payload is [iso_stbl_payload v] (the ISO layout of
    the model's [stbl] value [v], [Iso/IsoStbl.v]) returns the single sample entry and the tables of
    [v] as they are on the wire: [stbl_tables v] with every stsc [first_sample] set to 0 (the field
    is not serialised; [parse_stbl] builds [mkStsc _ _ _ 0]). *)
From MP4 Require Import IsoFile LayoutKit IsoCont IsoParse1 MuxMoovDefs MuxMoovTables.
From MP4 Require Import IsoStbl IsoStsd IsoStts IsoCtts IsoStss IsoStsc IsoStsz IsoStco IsoCo64.
From MP4 Require Import IsoAvc1 IsoHev1 IsoVp09 IsoMp4a IsoTx3g.
From Coq Require Import Lia ZArith NArith List Bool ZifyN ZifyNat ZifyBool.
Import ListNotations.
Open Scope list_scope.
Open Scope N_scope.

(** ** Lists of 32-bit children *)
Definition optc {X} (code : N) (f : X -> bytes) (o : option X) : list child :=
  match o with Some x => [ch code (f x)] | None => [] end.

Lemma render_app a b : render (a ++ b) = render a ++ render b.
Proof. unfold render. apply flat_map_app. Qed.

Lemma render_one c : render [c] = c_bytes c.
Proof. unfold render. cbn [flat_map]. apply app_nil_r. Qed.

Lemma iso_opt_render {X} code (f : X -> bytes) o :
  iso_opt (fun x => iso_box code (f x)) o = render (optc code f o).
Proof. destruct o as [x|]; cbn [iso_opt optc]; [rewrite render_one; apply iso_box_ch | reflexivity]. Qed.

Lemma total_len_app a b : total_len (a ++ b) = total_len a + total_len b.
Proof. unfold total_len. rewrite map_app. apply sumN_app. Qed.

Lemma c_len_le_total c cs : In c cs -> c_len c <= total_len cs.
Proof.
  induction cs as [|x t IH]; intros Hin; [destruct Hin|].
  unfold total_len in *. cbn [map]. unfold sumN in *. cbn [fold_right].
  destruct Hin as [->|Hin]; [lia|]. specialize (IH Hin). lia.
Qed.

(** 32-bit children with 32-bit codes whose rendering is shorter than 2^32 are well formed *)
Definition small_child (c : child) : Prop := c_w64 c = false /\ c_code c < U32.

Lemma small_children_wf cs : Forall small_child cs -> total_len cs + 8 < U32 -> Forall child_wf cs.
Proof.
  intros Hs Ht. apply Forall_forall. intros c Hin. rewrite Forall_forall in Hs.
  destruct (Hs c Hin) as [Hw Hc]. pose proof (c_len_le_total c cs Hin) as Hle.
  split; [exact Hc|]. unfold c_len, c_hlen in Hle. rewrite Hw in *. lia.
Qed.

Lemma small_ch code p : code < U32 -> small_child (ch code p).
Proof. intros H. split; [reflexivity | exact H]. Qed.

Lemma small_optc {X} code (f : X -> bytes) o : code < U32 -> Forall small_child (optc code f o).
Proof. intros H. destruct o; cbn [optc]; repeat constructor. exact H. Qed.

Ltac sp := repeat match goal with H : _ && _ = true |- _ => apply andb_true_iff in H; destruct H end.

(** closed comparisons of four-character codes *)
Ltac eqb_closed :=
  repeat match goal with
         | |- context [N.eqb ?a ?b] =>
             let a' := eval cbv in a in
             let b' := eval cbv in b in
             lazymatch a' with Npos _ => idtac | N0 => idtac end;
             lazymatch b' with Npos _ => idtac | N0 => idtac end;
             let v := eval vm_compute in (N.eqb a' b') in
             change (N.eqb a b) with v
         end.

(** ** The children of stbl *)
Definition stbl_children (v : stbl) : list child :=
  [ch 0x73747364 (iso_stsd_payload (stbl_stsd v))] ++ [ch 0x73747473 (iso_stts_payload (stbl_stts v))]
  ++ optc 0x63747473 iso_ctts_payload (stbl_ctts v)
  ++ optc 0x73747373 iso_stss_payload (stbl_stss v)
  ++ [ch 0x73747363 (iso_stsc_payload (stbl_stsc v))] ++ [ch 0x7374737a (iso_stsz_payload (stbl_stsz v))]
  ++ optc 0x7374636f iso_stco_payload (stbl_stco v)
  ++ optc 0x636f3634 iso_co64_payload (stbl_co64 v).

Lemma find_all_single t off code p :
  find_all t (iboxes_of off [ch code p]) = if code =? t then [ibox_of off (ch code p)] else [].
Proof. unfold find_all. cbn [iboxes_of filter ib_type ibox_of c_code ch]. destruct (code =? t); reflexivity. Qed.

Lemma find_all_optc {X} t off code (f : X -> bytes) o :
  find_all t (iboxes_of off (optc code f o)) = if code =? t then iboxes_of off (optc code f o) else [].
Proof.
  destruct o as [x|]; cbn [optc]; [|destruct (code =? t); reflexivity].
  rewrite find_all_single. reflexivity.
Qed.

Lemma iso_stbl_payload_render v : iso_stbl_payload v = render (stbl_children v).
Proof.
  unfold iso_stbl_payload, stbl_children.
  rewrite !render_app, <- !iso_opt_render, !render_one, <- !iso_box_ch. reflexivity.
Qed.

Lemma stbl_children_small v : Forall small_child (stbl_children v).
Proof.
  unfold stbl_children.
  repeat first [ apply Forall_app; split | apply Forall_cons | apply Forall_nil
               | apply small_optc; vm_compute; reflexivity | apply small_ch; vm_compute; reflexivity ].
Qed.

(** ** The single sample entry of stsd *)
Definition stsd_entry (sd : stsd) : option (N * bytes) :=
  match stsd_avc1 sd, stsd_hev1 sd, stsd_vp09 sd, stsd_mp4a sd, stsd_tx3g sd with
  | Some x, None, None, None, None => Some (0x61766331, iso_avc1_payload x)
  | None, Some x, None, None, None => Some (0x68657631, iso_hev1_payload x)
  | None, None, Some x, None, None => Some (0x76703039, iso_vp09_payload x)
  | None, None, None, Some x, None => Some (0x6d703461, iso_mp4a_payload x)
  | None, None, None, None, Some x => Some (0x74783367, iso_tx3g_payload x)
  | _, _, _, _, _ => None
  end.

Lemma stsd_entry_payload sd code p : stsd_entry sd = Some (code, p) ->
  iso_stsd_payload sd = (be 1 (stsd_version sd) ++ be 3 (stsd_flags sd) ++ be 4 1) ++ render [ch code p] /\ code < U32.
Proof.
  unfold stsd_entry, iso_stsd_payload. rewrite render_one, <- iso_box_ch.
  destruct (stsd_avc1 sd), (stsd_hev1 sd), (stsd_vp09 sd), (stsd_mp4a sd), (stsd_tx3g sd); intros H;
    try discriminate H; injection H as <- <-; cbn [iso_opt iso_present]; rewrite ?app_nil_r, <- ?app_assoc;
    (split; [reflexivity | vm_compute; reflexivity]).
Qed.

(** ** The tables on the wire *)
Definition zero_first (e : stsc_entry) : stsc_entry :=
  mkStsc (sc_first_chunk e) (sc_samples_per_chunk e) (sc_sample_description_index e) 0.

Definition wire_tables (tb : tables) : tables := tables_with_stsc tb (map zero_first (t_stsc tb)).

(** ** The table boxes one by one *)
Lemma ufit_lt1 x : ufit 1 x = true -> x < 256.
Proof. intros H. apply ufit_lt in H. now rewrite pow256_1 in H. Qed.
Lemma ufit_lt3 x : ufit 3 x = true -> x < 16777216.
Proof. intros H. apply ufit_lt in H. now rewrite pow256_3 in H. Qed.
Lemma ufit_lt4 x : ufit 4 x = true -> x < U32.
Proof. intros H. apply ufit_lt in H. now rewrite pow256_4 in H. Qed.
Lemma ufit_lt8 x : ufit 8 x = true -> x < U64.
Proof. intros H. apply ufit_lt in H. now rewrite pow256_8 in H. Qed.

Lemma map_ext_forallb {A B} (f g : A -> B) (p : A -> bool) l :
  forallb p l = true -> (forall x, p x = true -> f x = g x) -> map f l = map g l.
Proof.
  intros Hp H. apply map_ext_in. intros x Hin. apply H. rewrite forallb_forall in Hp. now apply Hp.
Qed.

Lemma stts_table o code s : stts_wf s = true ->
  table_of (ibox_of o (ch code (iso_stts_payload s))) 8 =
    Some (stts_version s, stts_flags s, map iso_stts_entry (stts_entries s)) /\
  map (fun e => (u32_at e 0, u32_at e 4)) (map iso_stts_entry (stts_entries s)) =
    map (fun e => (stts_e_sample_count e, stts_e_sample_delta e)) (stts_entries s).
Proof.
  unfold stts_wf. intros H. sp. split.
  - apply table_of_payload; [reflexivity | now apply ufit_lt1 | now apply ufit_lt3 | now apply ufit_lt4 |].
    intros x _. unfold iso_stts_entry. rewrite lenN_app, !lenN_be. reflexivity.
  - rewrite map_map. eapply map_ext_forallb; [eassumption|]. intros e He. unfold stts_entry_wf in He. sp.
    unfold iso_stts_entry. f_equal.
    + apply u32_at_0. now apply ufit_lt4.
    + rewrite <- (app_nil_r (be 4 (stts_e_sample_delta e))).
      apply u32_at_app; [apply lenN_be | now apply ufit_lt4].
Qed.

Lemma ctts_table o code s : ctts_wf s = true ->
  table_of (ibox_of o (ch code (iso_ctts_payload s))) 8 =
    Some (ctts_version s, ctts_flags s, map iso_ctts_entry (ctts_entries s)) /\
  map (fun e => (u32_at e 0, to_signed 32 (u32_at e 4))) (map iso_ctts_entry (ctts_entries s)) =
    map (fun e => (ctts_e_sample_count e, ctts_e_sample_offset e)) (ctts_entries s).
Proof.
  unfold ctts_wf. intros H. sp. split.
  - apply table_of_payload; [reflexivity | now apply ufit_lt1 | now apply ufit_lt3 | now apply ufit_lt4 |].
    intros x _. unfold iso_ctts_entry. rewrite lenN_app, !lenN_be. reflexivity.
  - rewrite map_map. eapply map_ext_forallb; [eassumption|]. intros e He. unfold ctts_entry_wf in He. sp.
    unfold iso_ctts_entry. change (8 * N.of_nat 4) with 32. f_equal.
    + apply u32_at_0. now apply ufit_lt4.
    + rewrite <- (app_nil_r (be 4 (of_signed 32 (ctts_e_sample_offset e)))).
      rewrite u32_at_app; [| apply lenN_be | exact (of_signed_lt 32 _)].
      apply to_of_signed; [reflexivity|]. match goal with Hs : sfit 4 _ = true |- _ => exact Hs end.
Qed.

Lemma stsc_table o code s : stsc_wf s = true ->
  table_of (ibox_of o (ch code (iso_stsc_payload s))) 12 =
    Some (stsc_version s, stsc_flags s, map iso_stsc_entry (stsc_entries s)) /\
  map (fun e => mkStsc (u32_at e 0) (u32_at e 4) (u32_at e 8) 0) (map iso_stsc_entry (stsc_entries s)) =
    map (fun e => mkStsc (stsc_e_first_chunk e) (stsc_e_samples_per_chunk e) (stsc_e_sample_description_index e) 0)
        (stsc_entries s).
Proof.
  unfold stsc_wf. intros H. sp. split.
  - apply table_of_payload; [reflexivity | now apply ufit_lt1 | now apply ufit_lt3 | now apply ufit_lt4 |].
    intros x _. unfold iso_stsc_entry. rewrite !lenN_app, !lenN_be. reflexivity.
  - rewrite map_map. eapply map_ext_forallb; [eassumption|]. intros e He. unfold stsc_ent_wf in He. sp.
    unfold iso_stsc_entry. f_equal.
    + apply u32_at_0. now apply ufit_lt4.
    + apply u32_at_app; [apply lenN_be | now apply ufit_lt4].
    + rewrite (app_assoc (be 4 _) (be 4 _)). rewrite <- (app_nil_r (be 4 (stsc_e_sample_description_index e))).
      apply u32_at_app; [rewrite lenN_app, !lenN_be; reflexivity | now apply ufit_lt4].
Qed.

Lemma u32_list_table (ver flags : N) (l : list N) b :
  ib_payload b = be 1 ver ++ be 3 flags ++ be 4 (lenN l) ++ flat_map (be 4) l ->
  ufit 1 ver = true -> ufit 3 flags = true -> ufit 4 (lenN l) = true -> forallb (ufit 4) l = true ->
  table_of b 4 = Some (ver, flags, map (be 4) l) /\ map (fun e => u32_at e 0) (map (be 4) l) = l.
Proof.
  intros Hp H1 H2 H3 H4. split.
  - apply table_of_payload; [exact Hp | now apply ufit_lt1 | now apply ufit_lt3 | now apply ufit_lt4 |].
    intros x _. apply lenN_be.
  - rewrite map_map. rewrite <- (map_id l) at 2. eapply map_ext_forallb; [exact H4|]. intros e He.
    apply u32_at_0_exact. now apply ufit_lt4.
Qed.

Lemma stss_table o code s : stss_wf s = true ->
  table_of (ibox_of o (ch code (iso_stss_payload s))) 4 = Some (stss_version s, stss_flags s, map (be 4) (stss_entries s)) /\
  map (fun e => u32_at e 0) (map (be 4) (stss_entries s)) = stss_entries s.
Proof. unfold stss_wf. intros H. sp. now apply u32_list_table. Qed.

Lemma stco_table o code s : stco_wf s = true ->
  table_of (ibox_of o (ch code (iso_stco_payload s))) 4 = Some (stco_version s, stco_flags s, map (be 4) (stco_entries s)) /\
  map (fun e => u32_at e 0) (map (be 4) (stco_entries s)) = stco_entries s.
Proof. unfold stco_wf. intros H. sp. now apply u32_list_table. Qed.

Lemma co64_table o code s : co64_wf s = true ->
  table_of (ibox_of o (ch code (iso_co64_payload s))) 8 = Some (co64_version s, co64_flags s, map (be 8) (co64_entries s)) /\
  map (fun e => u64_at e 0) (map (be 8) (co64_entries s)) = co64_entries s.
Proof.
  unfold co64_wf. intros H. sp. split.
  - apply table_of_payload; [reflexivity | now apply ufit_lt1 | now apply ufit_lt3 | now apply ufit_lt4 |].
    intros x _. apply lenN_be.
  - rewrite map_map. rewrite <- (map_id (co64_entries s)) at 2. eapply map_ext_forallb; [eassumption|]. intros e He.
    apply u64_at_0_exact. now apply ufit_lt8.
Qed.

(** stsz: sample_size, sample_count, then the per-sample sizes iff sample_size = 0 *)
Lemma stsz_fields s : stsz_wf s = true ->
  let p := iso_stsz_payload s in
  fld p 4 4 = Some (stsz_sample_size s) /\ fld p 8 4 = Some (stsz_sample_count s) /\
  (if stsz_sample_size s =? 0
   then records (N.to_nat (stsz_sample_count s)) 4 (dropN 12 p)
   else match dropN 12 p with [] => Some [] | _ => None end) = Some (map (be 4) (stsz_sample_sizes s)) /\
  map (fun e => u32_at e 0) (map (be 4) (stsz_sample_sizes s)) = stsz_sample_sizes s.
Proof.
  intros H. cbv zeta. unfold stsz_wf in H. sp. unfold iso_stsz_payload.
  assert (H4 : lenN (be 1 (stsz_version s) ++ be 3 (stsz_flags s)) = 4) by (rewrite lenN_app, !lenN_be; reflexivity).
  split; [|split; [|split]].
  - rewrite (app_assoc (be 1 _)). change 4 with (N.of_nat 4) at 2.
    apply fld_at; [exact H4 | now apply ufit_lt].
  - rewrite (app_assoc (be 1 _)), (app_assoc _ (be 4 (stsz_sample_size s))). change 4 with (N.of_nat 4) at 1.
    apply fld_at; [rewrite lenN_app, H4, lenN_be; reflexivity | now apply ufit_lt].
  - rewrite (app_assoc (be 1 _)), (app_assoc _ (be 4 (stsz_sample_size s))), (app_assoc _ (be 4 (stsz_sample_count s))).
    rewrite (dropN_app_n 12) by (rewrite !lenN_app, !lenN_be; reflexivity).
    destruct (stsz_sample_size s =? 0).
    + sp. match goal with Hc : (_ =? _) = true |- _ => apply N.eqb_eq in Hc; rewrite Hc end.
      unfold lenN. rewrite Nat2N.id. apply records_flat_map. intros x _. apply lenN_be.
    + destruct (stsz_sample_sizes s); [reflexivity | discriminate].
  - rewrite map_map. rewrite <- (map_id (stsz_sample_sizes s)) at 2.
    destruct (stsz_sample_size s =? 0).
    + sp. eapply map_ext_forallb; [eassumption|]. intros e He. apply u32_at_0_exact. now apply ufit_lt4.
    + destruct (stsz_sample_sizes s); [reflexivity | discriminate].
Qed.

(** ** [parse_stbl] *)
Lemma stbl_tables_wire v :
  wire_tables (stbl_tables v) =
  mkTables (map (fun e => mkStsc (stsc_e_first_chunk e) (stsc_e_samples_per_chunk e) (stsc_e_sample_description_index e) 0)
                (stsc_entries (stbl_stsc v)))
           (stsz_sample_size (stbl_stsz v)) (stsz_sample_count (stbl_stsz v)) (stsz_sample_sizes (stbl_stsz v))
           (option_map stco_entries (stbl_stco v)) (option_map co64_entries (stbl_co64 v))
           (map (fun e => (stts_e_sample_count e, stts_e_sample_delta e)) (stts_entries (stbl_stts v)))
           (option_map (fun c => map (fun e => (ctts_e_sample_count e, ctts_e_sample_offset e)) (ctts_entries c)) (stbl_ctts v))
           (option_map stss_entries (stbl_stss v)).
Proof.
  unfold wire_tables, tables_with_stsc, stbl_tables.
  cbn [t_stsc t_stsz_size t_stsz_count t_stsz_sizes t_stco t_co64 t_stts t_ctts t_stss].
  rewrite map_map. reflexivity.
Qed.

(** where the eight children are found (the offsets do not matter) *)
Lemma stbl_finds off v :
  let bs := iboxes_of off (stbl_children v) in
  (exists o, find_one STSD bs = Some (ibox_of o (ch 0x73747364 (iso_stsd_payload (stbl_stsd v))))) /\
  (exists o, find_one STTS bs = Some (ibox_of o (ch 0x73747473 (iso_stts_payload (stbl_stts v))))) /\
  (exists o, find_one STSC bs = Some (ibox_of o (ch 0x73747363 (iso_stsc_payload (stbl_stsc v))))) /\
  (exists o, find_one STSZ bs = Some (ibox_of o (ch 0x7374737a (iso_stsz_payload (stbl_stsz v))))) /\
  (exists o, find_opt CTTS bs = Some (option_map (fun x => ibox_of o (ch 0x63747473 (iso_ctts_payload x))) (stbl_ctts v))) /\
  (exists o, find_opt STSS bs = Some (option_map (fun x => ibox_of o (ch 0x73747373 (iso_stss_payload x))) (stbl_stss v))) /\
  (exists o, find_opt STCO bs = Some (option_map (fun x => ibox_of o (ch 0x7374636f (iso_stco_payload x))) (stbl_stco v))) /\
  (exists o, find_opt CO64 bs = Some (option_map (fun x => ibox_of o (ch 0x636f3634 (iso_co64_payload x))) (stbl_co64 v))).
Proof.
  intros bs. unfold bs, stbl_children. rewrite !iboxes_of_app.
  repeat apply conj; unfold find_one, find_opt;
    rewrite !find_all_app, !find_all_optc, !find_all_single;
    unfold STSD, STTS, STSC, STSZ, CTTS, STSS, STCO, CO64; eqb_closed; cbv iota; cbn [app].
  1-4: eexists; reflexivity.
  - destruct (stbl_ctts v); cbn [optc iboxes_of app option_map]; [eexists; reflexivity | exists 0; reflexivity].
  - destruct (stbl_stss v); cbn [optc iboxes_of app option_map]; [eexists; reflexivity | exists 0; reflexivity].
  - destruct (stbl_stco v); cbn [optc iboxes_of app option_map]; [eexists; reflexivity | exists 0; reflexivity].
  - destruct (stbl_co64 v); cbn [optc iboxes_of app option_map]; [eexists; reflexivity | exists 0; reflexivity].
Qed.

Theorem parse_stbl_iso off c v code p :
  c_payload c = iso_stbl_payload v ->
  stbl_tables_wf v = true ->
  stsd_entry (stbl_stsd v) = Some (code, p) ->
  lenN (iso_stbl_payload v) + 8 < U32 ->
  parse_stbl (ibox_of off c) = Some (code, p, wire_tables (stbl_tables v)).
Proof.
  intros Hp Hwf Hent Hlen.
  rewrite iso_stbl_payload_render in Hp, Hlen. rewrite lenN_render in Hlen.
  pose proof (small_children_wf _ (stbl_children_small v) Hlen) as Hcwf.
  unfold parse_stbl. rewrite (children_render off c _ Hp Hcwf). cbn [opt_bind].
  destruct (stbl_finds (off + c_hlen c) v) as ((o1 & F1) & (o2 & F2) & (o3 & F3) & (o4 & F4) & (o5 & F5) & (o6 & F6) & (o7 & F7) & (o8 & F8)).
  rewrite F1, F2, F3, F4, F5, F6, F7, F8. cbn [opt_bind].
  (* stsd *)
  destruct (stsd_entry_payload _ _ _ Hent) as (Hsd & Hcode).
  assert (Hsdlen : 8 + lenN (iso_stsd_payload (stbl_stsd v)) <= total_len (stbl_children v)).
  { apply (c_len_le_total (ch 0x73747364 (iso_stsd_payload (stbl_stsd v)))). unfold stbl_children. cbn [app]. now left. }
  cbn [ib_payload ibox_of c_payload ch].
  assert (E1 : fld (iso_stsd_payload (stbl_stsd v)) 4 4 = Some 1).
  { rewrite Hsd, <- !app_assoc, (app_assoc (be 1 _)). change 4 with (N.of_nat 4) at 2.
    apply fld_at; [rewrite lenN_app, !lenN_be; reflexivity | reflexivity]. }
  rewrite E1. cbn [opt_bind].
  rewrite (children_after_render o1 (ch 0x73747364 (iso_stsd_payload (stbl_stsd v))) 8 _ [ch code p] Hsd).
  2:{ rewrite !lenN_app, !lenN_be. reflexivity. }
  2:{ constructor; [|constructor]. apply ch_wf; [exact Hcode|].
      rewrite Hsd, render_one, lenN_app, lenN_c_bytes, c_len_ch in Hsdlen. lia. }
  cbn [opt_bind iboxes_of]. change (1 =? 1) with true. cbv iota. cbn [opt_bind].
  (* the tables *)
  unfold stbl_tables_wf in Hwf. sp.
  match goal with H : stts_wf _ = true |- _ => destruct (stts_table o2 0x73747473 _ H) as (T2 & M2) end.
  match goal with H : stsc_wf _ = true |- _ => destruct (stsc_table o3 0x73747363 _ H) as (T3 & M3) end.
  match goal with H : stsz_wf _ = true |- _ => destruct (stsz_fields _ H) as (Z1 & Z2 & Z3 & Z4) end.
  rewrite T2. cbn [opt_bind]. rewrite T3. cbn [opt_bind].
  rewrite Z1. cbn [opt_bind]. rewrite Z2. cbn [opt_bind]. rewrite Z3. cbn [opt_bind].
  rewrite stbl_tables_wire, M2, M3, Z4. cbn [ib_type ib_payload ibox_of c_code c_payload ch].
  (* the optional tables *)
  destruct (stbl_ctts v) as [ct|]; cbn [option_map opt_bind].
  1: match goal with H : ctts_wf _ = true |- _ => destruct (ctts_table o5 0x63747473 _ H) as (T5 & M5) end;
     rewrite T5; cbn [opt_bind]; rewrite M5.
  all: destruct (stbl_stss v) as [ss|]; cbn [option_map opt_bind].
  1,3: match goal with H : stss_wf _ = true |- _ => destruct (stss_table o6 0x73747373 _ H) as (T6 & M6) end;
     rewrite T6; cbn [opt_bind]; rewrite M6.
  all: destruct (stbl_stco v) as [sc|]; cbn [option_map opt_bind].
  1,3,5,7: match goal with H : stco_wf _ = true |- _ => destruct (stco_table o7 0x7374636f _ H) as (T7 & M7) end;
     rewrite T7; cbn [opt_bind]; rewrite M7.
  all: destruct (stbl_co64 v) as [c6|]; cbn [option_map opt_bind].
  all: try (match goal with H : co64_wf _ = true |- _ => destruct (co64_table o8 0x636f3634 _ H) as (T8 & M8) end;
     rewrite T8; cbn [opt_bind]; rewrite M8).
  all: reflexivity.
Qed.

(** ** [track_tables_ok] and the chunk extents do not read [first_sample] *)
Lemma iso_chunk_counts_zero_first runs n : iso_chunk_counts (map zero_first runs) n = iso_chunk_counts runs n.
Proof.
  induction runs as [|e t IH]; [reflexivity|].
  cbn [map iso_chunk_counts]. rewrite IH. destruct t; reflexivity.
Qed.

Lemma stsc_runs_ok_zero_first runs : forall ex n, stsc_runs_ok (map zero_first runs) ex n = stsc_runs_ok runs ex n.
Proof.
  induction runs as [|e t IH]; intros ex n; [reflexivity|].
  cbn [map stsc_runs_ok]. rewrite IH. destruct t; reflexivity.
Qed.

Lemma offsets_of_wire tb : offsets_of (wire_tables tb) = offsets_of tb.
Proof. reflexivity. Qed.
Lemma sizes_of_wire tb : sizes_of (wire_tables tb) = sizes_of tb.
Proof. reflexivity. Qed.
Lemma t_stsc_wire tb : t_stsc (wire_tables tb) = map zero_first (t_stsc tb).
Proof. reflexivity. Qed.

Theorem track_tables_ok_wire tb n d : track_tables_ok (wire_tables tb) n d = track_tables_ok tb n d.
Proof.
  unfold track_tables_ok. rewrite offsets_of_wire, sizes_of_wire, t_stsc_wire.
  rewrite iso_chunk_counts_zero_first, stsc_runs_ok_zero_first.
  unfold wire_tables, tables_with_stsc. cbn [t_stco t_co64 t_stsz_count t_stts t_ctts t_stss].
  destruct (t_stsc tb); reflexivity.
Qed.

Theorem chunk_extents_wire tb :
  chunk_extents (offsets_of (wire_tables tb))
                (iso_chunk_counts (t_stsc (wire_tables tb)) (lenN (offsets_of (wire_tables tb))))
                (sizes_of (wire_tables tb))
  = chunk_extents (offsets_of tb) (iso_chunk_counts (t_stsc tb) (lenN (offsets_of tb))) (sizes_of tb).
Proof. rewrite offsets_of_wire, sizes_of_wire, t_stsc_wire, iso_chunk_counts_zero_first. reflexivity. Qed.

Print Assumptions parse_stbl_iso.
Print Assumptions track_tables_ok_wire.
Print Assumptions chunk_extents_wire.
