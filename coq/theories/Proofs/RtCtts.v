(** Round trip of [CttsBox] *)
From MP4 Require Import TblKit BoxCtts IsoCtts.
From Coq Require Import ZifyN ZifyNat ZifyBool.
Open Scope string_scope.
Open Scope list_scope.
Open Scope N_scope.

Lemma ctts_code : u32_of_boxtype (box_type_of "CttsBox") = 0x63747473.
Proof. vm_compute. reflexivity. Qed.

Lemma ctts_size_eq v : ctts_size v = 8 + 4 + 4 + 8 * lenN (ctts_entries v).
Proof. reflexivity. Qed.

Lemma ctts_wr_entry_ok e :
  wfin (ctts_wr_entry e) = Ok tt /\ wout (ctts_wr_entry e) = iso_ctts_entry e.
Proof.
  unfold ctts_wr_entry, iso_ctts_entry. enc_norm. split; [reflexivity|]. now rewrite app_nil_r.
Qed.

Lemma ctts_enc v : ctts_wf v = true -> ctts_size v < U32 ->
  wfin (enc_ctts v) = Ok (ctts_size v) /\
  wout (enc_ctts v) = be 4 (ctts_size v) ++ be 4 0x63747473 ++ iso_ctts_payload v.
Proof.
  intros H Hs. unfold enc_ctts, iso_ctts_payload. unfold ctts_wf in H. split_andb.
  rewrite write_header_small by exact Hs. rewrite ctts_code.
  rewrite write_header_ext_small by assumption.
  set (W := tbl_wr_each ctts_wr_entry (ctts_entries v)).
  enc_norm. subst W.
  rewrite (tbl_wfin_each_bind _ iso_ctts_entry), (tbl_wout_each_bind _ iso_ctts_entry)
    by (first [intros; exact I | intros; apply ctts_wr_entry_ok]).
  cbn [wfin wout]. split; [reflexivity|].
  rewrite cast_u32_small by assumption. rewrite app_nil_r. reflexivity.
Qed.

Lemma ctts_rd_entry_ok {B} es d l x (k' : ctts_entry -> prog B) p' rest' :
  forallb ctts_entry_wf es = true -> In x es ->
  run (bind ctts_rd_entry k') (mkStream d l p' (iso_ctts_entry x ++ rest'))
  = run (k' x) (mkStream d l (p' + 8) rest').
Proof.
  intros Hall Hin. rewrite forallb_forall in Hall. apply Hall in Hin.
  unfold ctts_entry_wf in Hin. split_andb.
  unfold ctts_rd_entry, iso_ctts_entry. rewrite <- !app_assoc.
  do 2 rd_step. prog_norm.
  destruct x as [a b]; cbn [ctts_e_sample_count ctts_e_sample_offset]. do 2 f_equal. clear. lia.
Qed.

Lemma ctts_dec m v d l p post : ctts_wf v = true -> p + ctts_size v < 2^63 ->
  run (dec_ctts m (ctts_size v)) (mkStream d l (p + 8) (iso_ctts_payload v ++ post))
  = (Ok v, mkStream d l (p + ctts_size v) post).
Proof.
  intros H Hp. unfold dec_ctts, iso_ctts_payload. unfold ctts_wf in H. split_andb.
  pose proof (ctts_size_eq v) as Hsz.
  rewrite <- !app_assoc.
  prog_norm. cbn [run s_pos].
  rewrite run_sub64_ok by (clear; unfold HEADER_SIZE, Tables.HEADER_SIZE; lia).
  do 3 rd_step.
  rewrite tbl_guard_false by (first [ clear; lia | rewrite Hsz; reflexivity ]).
  prog_norm. rewrite run_Alloc.
  rewrite (run_rd_n_lenN_bind _ iso_ctts_entry 8) by (intros; now apply (ctts_rd_entry_ok (ctts_entries v))).
  rewrite run_add64_ok by (clear -Hsz Hp; unfold HEADER_SIZE, Tables.HEADER_SIZE, U64; lia).
  prog_norm.
  rewrite run_SeekTo_here by (clear -Hsz; unfold HEADER_SIZE, Tables.HEADER_SIZE; lia).
  cbn [run]. f_equal.
  - destruct v; reflexivity.
  - f_equal. clear -Hsz. lia.
Qed.

Lemma ctts_entry_len e : lenN (iso_ctts_entry e) = 8.
Proof. unfold iso_ctts_entry. rewrite !lenN_app, !lenN_be. reflexivity. Qed.

Lemma ctts_payload_len v : lenN (iso_ctts_payload v) + 8 = ctts_size v.
Proof.
  rewrite ctts_size_eq. unfold iso_ctts_payload.
  rewrite !lenN_app, !lenN_be, (lenN_flat_map_const iso_ctts_entry 8) by apply ctts_entry_len. lia.
Qed.

Lemma ctts_appender v : ctts_wf v = true -> ctts_size v < U32 -> appender (enc_ctts v).
Proof.
  intros H Hs. unfold enc_ctts. rewrite write_header_small by exact Hs.
  unfold ctts_wf in H. split_andb.
  rewrite write_header_ext_small by assumption.
  cbn [wbind appender wr wr_u32 wr_u wr_i32 wr_i].
  apply tbl_appender_each_bind; intros; exact I.
Qed.

Theorem ctts_roundtrip : leaf_roundtrip ctts_wf ctts_size 0x63747473 enc_ctts dec_ctts iso_ctts_payload.
Proof.
  intros v H Hs. destruct (ctts_enc v H Hs) as [H1 H2].
  split; [exact H1|]. split; [now apply ctts_appender|]. split; [exact H2|].
  split; [now apply ctts_payload_len|].
  intros m d l p post Hp. now apply ctts_dec.
Qed.

Print Assumptions ctts_roundtrip.
