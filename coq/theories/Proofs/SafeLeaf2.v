(** * C06, leaf layer (2): the sample-table boxes never panic
    (stts, ctts, stsc, stsz, stss, stco, co64, elst) — statements as in SafeLeaf1.v *)
From MP4 Require Import Hoare.
From MP4 Require Import BoxStts BoxCtts BoxStsc BoxStsz BoxStss BoxStco BoxCo64 BoxElst.
From Coq Require Import ZArith ZifyN ZifyNat ZifyBool Lia.
Open Scope N_scope.

Ltac leaf_start := intros d p size Hd Hl H8 Hp Hs.

(** a counted loop whose body only reads: no invariant on the position is needed *)
Ltac sat_loop_any body_tac :=
  eapply sat_rd_n_bind with (I := fun _ => True);
  [ exact I
  | let p' := fresh "p" in intros p' _; apply sat_bind_ret; body_tac; sat_go; exact I
  | let l := fresh "l" in let p' := fresh "p" in intros l p' _ ].

Lemma dec_stts_sat m : leaf_sat (dec_stts m).
Proof.
  leaf_start. unfold dec_stts. sat_go.
  sat_loop_any ltac:(unfold stts_rd_entry). sat_go; sat_arith.
Qed.
Definition dec_stts_safe m : leaf_safe (dec_stts m) := leaf_safe_of_sat _ (dec_stts_sat m).

Lemma dec_ctts_sat m : leaf_sat (dec_ctts m).
Proof.
  leaf_start. unfold dec_ctts. sat_go.
  sat_loop_any ltac:(unfold ctts_rd_entry). sat_go; sat_arith.
Qed.
Definition dec_ctts_safe m : leaf_safe (dec_ctts m) := leaf_safe_of_sat _ (dec_ctts_sat m).

(** stsc: the second loop touches no stream *)
Lemma sat_stsc_fill d p es sid : sat d p (stsc_fill es sid) (fun _ p' => p' = p).
Proof.
  revert sid; induction es as [|e t IH]; intros sid; cbn [stsc_fill].
  - now apply sat_ret.
  - unfold step. cbn [bind]. apply sat_Step. destruct t as [|nx t'].
    + now apply sat_ret.
    + destruct (stsc_next_id e nx sid) as [sid'|]; [|apply sat_throw].
      eapply sat_bind; [apply IH|]. cbn beta. intros r p' ->. now apply sat_ret.
Qed.

Lemma dec_stsc_sat m : leaf_sat (dec_stsc m).
Proof.
  leaf_start. unfold dec_stsc. sat_go.
  sat_loop_any ltac:(unfold stsc_rd_entry).
  eapply sat_bind; [apply sat_stsc_fill|]. cbn beta. intros es p1 _.
  sat_go; sat_arith.
Qed.
Definition dec_stsc_safe m : leaf_safe (dec_stsc m) := leaf_safe_of_sat _ (dec_stsc_sat m).

(** stsz: the divisor is 4 on the only path that divides *)
Lemma dec_stsz_sat m : leaf_sat (dec_stsz m).
Proof.
  leaf_start. unfold dec_stsz. sat_go.
  - sat_loop_any idtac. sat_go; sat_arith.
  - sat_arith.
Qed.
Definition dec_stsz_safe m : leaf_safe (dec_stsz m) := leaf_safe_of_sat _ (dec_stsz_sat m).

Lemma dec_stss_sat m : leaf_sat (dec_stss m).
Proof.
  leaf_start. unfold dec_stss. sat_go.
  sat_loop_any idtac. sat_go; sat_arith.
Qed.
Definition dec_stss_safe m : leaf_safe (dec_stss m) := leaf_safe_of_sat _ (dec_stss_sat m).

Lemma dec_stco_sat m : leaf_sat (dec_stco m).
Proof.
  leaf_start. unfold dec_stco. sat_go.
  sat_loop_any idtac. sat_go; sat_arith.
Qed.
Definition dec_stco_safe m : leaf_safe (dec_stco m) := leaf_safe_of_sat _ (dec_stco_sat m).

Lemma dec_co64_sat m : leaf_sat (dec_co64 m).
Proof.
  leaf_start. unfold dec_co64. sat_go.
  sat_loop_any idtac. sat_go; sat_arith.
Qed.
Definition dec_co64_safe m : leaf_safe (dec_co64 m) := leaf_safe_of_sat _ (dec_co64_sat m).

Lemma dec_elst_sat m : leaf_sat (dec_elst m).
Proof.
  leaf_start. unfold dec_elst. sat_go.
  sat_loop_any ltac:(unfold elst_rd_entry). sat_go; sat_arith.
Qed.
Definition dec_elst_safe m : leaf_safe (dec_elst m) := leaf_safe_of_sat _ (dec_elst_sat m).
