(** * C07/C08, leaf layer (3): the codec configuration boxes (avcC, hvcC, hev1)

    State-independent bounds: the constants the u8/u16 field widths allow (a NAL unit length is
    below 65536, an hvcC array holds fewer than 65536 NAL units of 32 bytes of bookkeeping each, ...):
    fixed numbers, independent of the input, but larger than the input can be.  (Since the fix
    "check the hvcC nal unit count against the box before allocating" the count of an hvcC array
    is compared with the bytes left in the box, one more [stream_position] call per array; a bound
    that does not look at the position cannot see that: the position-aware contracts
    [hvcc_spec]/[hev1_spec] of CostHvcc.v, linear in the box size, are the ones the composition
    uses.) *)
From MP4 Require Import Cost CostLeaf.
From MP4 Require Import BoxAvc1 BoxHev1.
From Coq Require Import ZArith ZifyN ZifyNat ZifyBool Lia.
Open Scope N_scope.

(** a read whose value bound matters *)
Ltac acc_rdb :=
  unfold rd_u8, rd_u16, rd_u24, rd_u32, rd_u48, rd_u64;
  lazymatch goal with
  | |- acc _ _ (bind (rd_u ?w) _) _ _ =>
      eapply acc_rd_u; [acc_arith | acc_arith | intros ? ?]
  end.

Lemma land_31 b : N.land b 31 < 32.
Proof. change 31 with (N.ones 5). rewrite N.land_ones. apply N.mod_lt. discriminate. Qed.

Lemma nalunit_cost : bnd dec_nalunit 65540 65535.
Proof. apply bnd_of_acc. unfold dec_nalunit. acc_rdb. acc_all. Qed.

Lemma avcc_cost m size : bnd (dec_avcc m size) 18750000 18750000.
Proof.
  apply bnd_of_acc. unfold dec_avcc. do 6 acc_step.
  acc_step.
  match goal with |- context [N.land ?b 31] => pose proof (land_31 b); generalize dependent (N.land b 31) end.
  intros k Hk. acc_step.
  eapply acc_rd_n; [apply nalunit_cost|acc_arith|acc_arith|intros ? ?].
  acc_rdb. acc_step.
  eapply acc_rd_n; [apply nalunit_cost|acc_arith|acc_arith|intros ? ?].
  acc_all.
Qed.

(** hvcC: [num_of_arrays : u8] arrays of [num_nalus : u16] NAL units of [size : u16] bytes each *)
Definition hvcc_nalu_W : N := 65542.
Definition hvcc_nalu_A : N := 65535.
Definition hvcc_array_W : N := Eval vm_compute in 6 + 65535 * hvcc_nalu_W.
Definition hvcc_array_A : N := Eval vm_compute in 65535 * 32 + 65535 * hvcc_nalu_A.
Definition hvcc_W : N := Eval vm_compute in 100 + 255 * hvcc_array_W.
Definition hvcc_A : N := Eval vm_compute in 255 * 32 + 255 * hvcc_array_A.

Lemma hvccnalu_cost m e : bnd (dec_hvccnalu m e) hvcc_nalu_W hvcc_nalu_A.
Proof. apply bnd_of_acc. unfold dec_hvccnalu, hvcc_nalu_W, hvcc_nalu_A. acc_rdb. acc_all. Qed.

Lemma hvccarray_cost m e : bnd (dec_hvccarray m e) hvcc_array_W hvcc_array_A.
Proof.
  apply bnd_of_acc. unfold dec_hvccarray, hvcc_array_W, hvcc_array_A. repeat first [acc_rdb | acc_step].
  eapply acc_rd_n; [apply hvccnalu_cost|unfold hvcc_nalu_W; acc_arith|unfold hvcc_nalu_A; acc_arith|intros ? ?].
  unfold hvcc_nalu_W, hvcc_nalu_A. acc_all.
Qed.

Lemma hvcc_cost m size : bnd (dec_hvcc m size) hvcc_W hvcc_A.
Proof.
  apply bnd_of_acc. unfold dec_hvcc, hvcc_W, hvcc_A. repeat first [acc_rdb | acc_step].
  eapply acc_rd_n; [apply hvccarray_cost|unfold hvcc_array_W; acc_arith|unfold hvcc_array_A; acc_arith|intros ? ?].
  unfold hvcc_array_W, hvcc_array_A. acc_all.
Qed.

Definition hev1_W : N := Eval vm_compute in 200 + hvcc_W.

Lemma hev1_cost m size : bnd (dec_hev1 m size) hev1_W hvcc_A.
Proof.
  apply bnd_of_acc. unfold dec_hev1, hev1_W.
  repeat first
    [ lazymatch goal with
      | |- acc _ _ (bind (dec_hvcc _ _) _) _ _ =>
          eapply acc_bind; [apply hvcc_cost|unfold hvcc_W; acc_arith|unfold hvcc_A; acc_arith|intros ?];
          unfold hvcc_W, hvcc_A
      end
    | acc_step ].
Qed.
