(** * Proofs for C11, files with movie fragments: a track whose fragment list is extended
      serves the samples of its earlier fragments unchanged (except for the sync flag) *)
From MP4 Require Import Hoare Reader GenericProofs GenericPrefix.
From MP4 Require Import Track.
Open Scope list_scope.
Open Scope N_scope.

(** ** Lookups in an extended fragment list *)
Lemma nthN_app_l {A} (l1 l2 : list A) n : n < lenN l1 -> nthN (l1 ++ l2) n = nthN l1 n.
Proof.
  intros H. rewrite !nthN_nth_error. apply nth_error_app1. unfold lenN in H. lia.
Qed.

Lemma find_traf_from_bound : forall fs idx off g ti si,
  find_traf_from fs idx off g = Some (ti, si) -> idx <= ti < idx + lenN fs.
Proof.
  induction fs as [|f t IH]; intros idx off g ti si H; cbn [find_traf_from] in H; [discriminate|].
  rewrite lenN_cons.
  destruct (fr_has_trun f).
  - destruct (g - off <? fr_sample_count f).
    + inversion H; subst. lia.
    + destruct (checked_add U32 off (fr_sample_count f)) as [o|]; [|discriminate].
      apply IH in H. lia.
  - apply IH in H. lia.
Qed.

Lemma find_traf_from_app : forall fs gs idx off g x,
  find_traf_from fs idx off g = Some x -> find_traf_from (fs ++ gs) idx off g = Some x.
Proof.
  induction fs as [|f t IH]; intros gs idx off g x H; cbn [find_traf_from app] in *; [discriminate|].
  destruct (fr_has_trun f).
  - destruct (g - off <? fr_sample_count f); [exact H|].
    destruct (checked_add U32 off (fr_sample_count f)) as [o|]; [|discriminate].
    now apply IH.
  - now apply IH.
Qed.

Section Frag.
Variable m : mode.

Lemma frag_lookup_stable id tb f0 fs0 gs dsd sid ti si :
  let t := mkTrack id tb (f0 :: fs0) dsd in
  let t' := mkTrack id tb (f0 :: fs0 ++ gs) dsd in
  find_traf t sid = Some (ti, si) ->
  find_traf t' sid = Some (ti, si) /\
  sample_size t' sid = sample_size t sid /\
  sample_offset m t' sid = sample_offset m t sid /\
  sample_time m t' sid = sample_time m t sid /\
  sample_rendering_offset t' sid = sample_rendering_offset t sid.
Proof.
  intros t t' H.
  assert (H' : find_traf t' sid = Some (ti, si)).
  { unfold find_traf in *. cbn [tr_frags t t'] in *.
    destruct (checked_sub sid 1) as [g|]; [|discriminate].
    change (f0 :: fs0 ++ gs) with ((f0 :: fs0) ++ gs). now apply find_traf_from_app. }
  assert (Hn : nthN (f0 :: fs0 ++ gs) ti = nthN (f0 :: fs0) ti).
  { change (f0 :: fs0 ++ gs) with ((f0 :: fs0) ++ gs). apply nthN_app_l.
    unfold find_traf in H. cbn [tr_frags t] in H.
    destruct (checked_sub sid 1) as [g|]; [|discriminate].
    apply find_traf_from_bound in H. lia. }
  split; [exact H'|].
  unfold sample_size, sample_offset, sample_time, sample_rendering_offset.
  rewrite H, H'. cbn [tr_frags tr_default_sample_duration tr_tables t t']. rewrite Hn.
  repeat split; reflexivity.
Qed.

Lemma is_sync_sample_ok t sid : exists b, is_sync_sample t sid = Ok b.
Proof.
  unfold is_sync_sample. destruct (tr_frags t).
  - destruct (t_stss (tr_tables t)); eexists; reflexivity.
  - destruct (_ =? 0); eexists; reflexivity.
Qed.

(** the stream part of [read_sample] with everything looked up *)
Definition sample_prog (off sz : N) (tm : res (N * N)) (ro : Z) (sync : res bool) : prog (option sample) :=
  seek_to off ;;;
  buf <- rd_exact sz ;;
  alloc (2 * sz + 32) ;;;
  '(st, dur) <- lift tm ;;
  sync <- lift sync ;;
  Ret (Some (mkSample st dur ro sync buf)).

Lemma read_sample_unfold t sid off sz :
  sample_offset m t sid = Ok off -> sample_size t sid = Ok sz ->
  read_sample m t sid = sample_prog off sz (sample_time m t sid) (sample_rendering_offset t sid)
                                    (is_sync_sample t sid).
Proof. intros H1 H2. unfold read_sample. rewrite H1, H2. reflexivity. Qed.

Definition same_but_sync (x y : sample) : Prop :=
  sm_bytes x = sm_bytes y /\ sm_start_time x = sm_start_time y /\
  sm_duration x = sm_duration y /\ sm_rendering_offset x = sm_rendering_offset y.

Lemma sample_prog_sync off sz tm ro b b' s x :
  fst (run (sample_prog off sz tm ro (Ok b)) s) = Ok (Some x) ->
  exists y, fst (run (sample_prog off sz tm ro (Ok b')) s) = Ok (Some y) /\ same_but_sync x y.
Proof.
  unfold sample_prog, seek_to, rd_exact, alloc. cbn [bind run lift].
  destruct (sz =? 0).
  - destruct tm as [[st dur]|e|z|]; cbn [lift bind run fst]; try discriminate.
    intros H. inversion H; subst. eexists; split; [reflexivity|]. repeat split.
  - destruct (splitN sz (s_view (seek_abs s off))) as [[h r]|]; cbn [fst]; try discriminate.
    destruct tm as [[st dur]|e|z|]; cbn [lift bind run fst]; try discriminate.
    intros H. inversion H; subst. eexists; split; [reflexivity|]. repeat split.
Qed.

(** a track with at least one fragment, and the same track with further fragments *)
Lemma read_sample_more_frags id tb f0 fs0 gs dsd sid s x :
  fst (run (read_sample m (mkTrack id tb (f0 :: fs0) dsd) sid) s) = Ok (Some x) ->
  exists y, fst (run (read_sample m (mkTrack id tb (f0 :: fs0 ++ gs) dsd) sid) s) = Ok (Some y)
            /\ same_but_sync x y.
Proof.
  set (t := mkTrack id tb (f0 :: fs0) dsd). set (t' := mkTrack id tb (f0 :: fs0 ++ gs) dsd).
  intros H.
  destruct (find_traf t sid) as [[ti si]|] eqn:Ef.
  2:{ exfalso. unfold read_sample in H.
      assert (E : sample_offset m t sid = Err EData).
      { unfold sample_offset. cbn [tr_frags t]. fold t. rewrite Ef. reflexivity. }
      rewrite E in H. cbn in H. discriminate. }
  destruct (frag_lookup_stable id tb f0 fs0 gs dsd sid ti si Ef) as (_ & E1 & E2 & E3 & E4).
  fold t t' in E1, E2, E3, E4.
  destruct (sample_offset m t sid) as [off|e|z|] eqn:Eo.
  2:{ exfalso. unfold read_sample in H. rewrite Eo in H. destruct e; cbn in H; discriminate. }
  2:{ exfalso. unfold read_sample in H. rewrite Eo in H. cbn in H; discriminate. }
  2:{ exfalso. unfold read_sample in H. rewrite Eo in H. cbn in H; discriminate. }
  destruct (sample_size t sid) as [sz|e|z|] eqn:Es.
  2:{ exfalso. unfold read_sample in H. rewrite Eo, Es in H. destruct e; cbn in H; discriminate. }
  2:{ exfalso. unfold read_sample in H. rewrite Eo, Es in H. cbn in H; discriminate. }
  2:{ exfalso. unfold read_sample in H. rewrite Eo, Es in H. cbn in H; discriminate. }
  rewrite (read_sample_unfold t sid off sz Eo Es) in H.
  rewrite (read_sample_unfold t' sid off sz) by congruence.
  rewrite E3, E4.
  destruct (is_sync_sample_ok t sid) as [b Eb]. destruct (is_sync_sample_ok t' sid) as [b' Eb'].
  rewrite Eb in H. rewrite Eb'. revert H. apply sample_prog_sync.
Qed.
End Frag.

(** ** The track map: attaching further movie fragments only extends each track *)
Definition mt_ext (dsd : N) (t t' : mp4track) : Prop :=
  mt_trak t' = mt_trak t /\
  exists a b, mt_trafs t' = mt_trafs t ++ a /\ mt_moof_offsets t' = mt_moof_offsets t ++ b /\
              length a = length b /\ (a = [] -> t' = t) /\
              (a <> [] -> mt_default_sample_duration t' = dsd).

Definition rel_opt {A} (R : A -> A -> Prop) (x y : option A) : Prop :=
  match x, y with Some a, Some b => R a b | None, None => True | _, _ => False end.

Lemma mt_ext_refl dsd t : mt_ext dsd t t.
Proof.
  split; auto. exists [], []. rewrite !app_nil_r. repeat split; auto. congruence.
Qed.

Lemma mt_ext_trans dsd t1 t2 t3 : mt_ext dsd t1 t2 -> mt_ext dsd t2 t3 -> mt_ext dsd t1 t3.
Proof.
  intros (K1 & a1 & b1 & A1 & B1 & L1 & N1 & D1) (K2 & a2 & b2 & A2 & B2 & L2 & N2 & D2).
  split; [congruence|]. exists (a1 ++ a2), (b1 ++ b2).
  split; [rewrite A2, A1; now rewrite app_assoc|].
  split; [rewrite B2, B1; now rewrite app_assoc|].
  split; [rewrite !app_length; lia|].
  split.
  - intros E. apply app_eq_nil in E as [E1 E2]. rewrite (N2 E2). auto.
  - intros E. destruct a2 as [|x a2].
    + rewrite (N2 eq_refl). apply D1. rewrite app_nil_r in E. exact E.
    + apply D2. discriminate.
Qed.

Lemma rel_opt_refl dsd o : rel_opt (mt_ext dsd) o o.
Proof. destruct o; cbn; auto. apply mt_ext_refl. Qed.

Lemma rel_opt_trans dsd x y z :
  rel_opt (mt_ext dsd) x y -> rel_opt (mt_ext dsd) y z -> rel_opt (mt_ext dsd) x z.
Proof.
  destruct x, y, z; cbn; auto; try contradiction. apply mt_ext_trans.
Qed.

Lemma tracks_get_update k k' f l :
  tracks_get k (tracks_update k' f l) = option_map (fun v => if k =? k' then f v else v) (tracks_get k l).
Proof.
  induction l as [|[k0 v] l IH]; [reflexivity|].
  unfold tracks_update in *. cbn [map fst snd].
  destruct (N.eqb_spec k0 k') as [E|E]; cbn [tracks_get]; rewrite IH;
    destruct (tracks_get k l) as [w|]; cbn [option_map]; auto;
    destruct (N.eqb_spec k0 k) as [E2|E2]; auto; subst k0.
  - subst k'. now rewrite N.eqb_refl.
  - destruct (N.eqb_spec k k'); [contradiction | reflexivity].
Qed.

Lemma attach_trafs_rel dsd off : forall trafs T T',
  attach_trafs dsd off trafs T = Ok T' ->
  forall k, rel_opt (mt_ext dsd) (tracks_get k T) (tracks_get k T').
Proof.
  induction trafs as [|tf rest IH]; intros T T' H k; cbn [attach_trafs] in H.
  - inversion H; subst. apply rel_opt_refl.
  - destruct (tracks_get (tfhd_track_id (traf_tfhd tf)) T) as [t0|]; [|discriminate].
    specialize (IH _ _ H k). rewrite tracks_get_update in IH.
    eapply rel_opt_trans; [|exact IH].
    destruct (tracks_get k T) as [t|]; cbn [option_map rel_opt]; auto.
    destruct (k =? tfhd_track_id (traf_tfhd tf)); [|apply mt_ext_refl].
    split; [reflexivity|]. exists [tf], [off]. cbn [mt_trafs mt_moof_offsets mt_default_sample_duration].
    repeat split; auto; discriminate.
Qed.

Lemma attach_moofs_rel dsd : forall ms T T',
  attach_moofs dsd ms T = Ok T' ->
  forall k, rel_opt (mt_ext dsd) (tracks_get k T) (tracks_get k T').
Proof.
  induction ms as [|[mf off] rest IH]; intros T T' H k; cbn [attach_moofs] in H.
  - inversion H; subst. apply rel_opt_refl.
  - destruct (attach_trafs dsd off (moof_trafs mf) T) as [T1|e|x|] eqn:E; cbn [res_bind] in H; try discriminate.
    eapply rel_opt_trans; [eapply attach_trafs_rel; exact E | eapply IH; exact H].
Qed.

(** the tracks made from the moov have no fragments yet *)
Definition fresh_track (t : mp4track) : Prop := mt_trafs t = [] /\ mt_moof_offsets t = [].

Lemma tracks_get_in k l t : tracks_get k l = Some t -> exists k', In (k', t) l.
Proof.
  induction l as [|[k0 v] l IH]; cbn [tracks_get]; [discriminate|].
  destruct (tracks_get k l) as [w|].
  - intros H. inversion H; subst. destruct (IH eq_refl) as [k' Hk]. exists k'. now right.
  - destruct (k0 =? k); [|discriminate]. intros H. inversion H; subst. exists k0. now left.
Qed.

Lemma tracks_collect_fresh ts : Forall (fun p => fresh_track (snd p)) (tracks_collect ts).
Proof.
  unfold tracks_collect.
  assert (G : forall ts acc, Forall (fun p => fresh_track (snd p)) acc ->
            Forall (fun p => fresh_track (snd p))
              (fold_left (fun acc t => tracks_insert (tkhd_track_id (trak_tkhd t)) (mp4track_from t) acc) ts acc)).
  { clear ts. induction ts as [|t ts IH]; intros acc H; cbn [fold_left]; [exact H|].
    apply IH. unfold tracks_insert. apply Forall_app. split.
    - apply Forall_forall. intros x Hx. apply filter_In in Hx as [Hx _].
      eapply Forall_forall in H; eauto.
    - constructor; [split; reflexivity | constructor]. }
  apply G. constructor.
Qed.

Lemma frag_views_app : forall l1 l2 o1 o2, length l1 = length o1 ->
  frag_views (l1 ++ l2) (o1 ++ o2) = frag_views l1 o1 ++ frag_views l2 o2.
Proof.
  induction l1 as [|x t IH]; intros l2 [|y o1] o2 H; cbn in H; try discriminate; cbn [app frag_views hd tl].
  - reflexivity.
  - rewrite IH; [reflexivity | lia].
Qed.

(** ** C11 for a track that already has a fragment in the prefix *)
Section Final.
Variable m : mode.

Lemma c11_fragmented_lemma f n d k pos rp sp r s :
  n <= lenN d ->
  run (open_fuel f m n) (stream_at (firstn k d) pos) = (Ok rp, sp) ->
  run (open_fuel f m (lenN d)) (stream_at d pos) = (Ok r, s) ->
  (length (filter is_moov (tnames (top_boxes m f d pos))) <= 1)%nat ->
  (length (filter is_ftyp (tnames (top_boxes m f d pos))) <= 1)%nat ->
  forall tid sid p p' x,
    (forall t, tracks_get tid (rd_tracks rp) = Some t -> mt_trafs t <> []) ->
    fst (run (rd_read_sample m rp tid sid) (stream_at (firstn k d) p)) = Ok (Some x) ->
    exists y, fst (run (rd_read_sample m r tid sid) (stream_at d p')) = Ok (Some y)
              /\ same_but_sync x y.
Proof.
  intros Hn Hp Hr Um Uf tid sid p p' x Hfrag Hx.
  destruct (open_prefix_core m _ _ _ _ _ _ _ _ _ Hn Hp Hr Um Uf) as (_ & _ & _ & _ & _ & [ms0 A0] & [ms A1]).
  pose proof (attach_moofs_rel _ _ _ _ A0 tid) as R0.
  pose proof (attach_moofs_rel _ _ _ _ A1 tid) as R1.
  apply (read_sample_prefix_lemma m rp tid sid d k p p') in Hx.
  unfold rd_read_sample in *.
  destruct (tracks_get tid (rd_tracks rp)) as [tp|] eqn:Gp; [|cbn in Hx; discriminate].
  destruct (tracks_get tid (tracks_collect (moov_traks (rd_moov r)))) as [t0|] eqn:G0; [|contradiction].
  destruct (tracks_get tid (rd_tracks r)) as [tr|] eqn:Gr; [|contradiction].
  cbn [rel_opt] in R0, R1.
  assert (F0 : fresh_track t0).
  { destruct (tracks_get_in _ _ _ G0) as [k' Hin].
    pose proof (tracks_collect_fresh (moov_traks (rd_moov r))) as FA.
    eapply Forall_forall in FA; [|exact Hin]. exact FA. }
  destruct F0 as [F1 F2].
  destruct R0 as (K0 & a & b & A & B & L & _ & D).
  rewrite F1 in A. rewrite F2 in B. cbn [app] in A, B.
  specialize (Hfrag tp eq_refl). rewrite A in Hfrag. specialize (D Hfrag).
  destruct R1 as (K1 & a' & b' & A' & B' & L' & N' & D').
  assert (Ed : mt_default_sample_duration tr = mt_default_sample_duration tp).
  { destruct a' as [|z a']; [now rewrite (N' eq_refl)|]. rewrite D; apply D'. discriminate. }
  unfold track_view in *. rewrite K1, A', B', Ed. rewrite A, B in *.
  rewrite frag_views_app by exact L.
  destruct a as [|tf a]; [congruence|]. cbn [frag_views] in *. cbn [app].
  eapply read_sample_more_frags. exact Hx.
Qed.
End Final.
