(** Round trip of [TrunBox] *)
From MP4 Require Import Kit VlKit BoxTrun IsoTrun.
From Coq Require Import ZifyN ZifyNat ZifyBool.
Open Scope string_scope.
Open Scope list_scope.
Open Scope N_scope.

Lemma trun_code : u32_of_boxtype (box_type_of "TrunBox") = 0x7472756e.
Proof. vm_compute. reflexivity. Qed.

(** ** The standard's flag tests are the library's *)
Lemma trun_has_iso mask f : trun_has mask f = iso_trun_has mask f.
Proof.
  unfold trun_has, iso_trun_has. rewrite (N.land_comm f mask).
  destruct (N.eqb_spec (N.land mask f) 0) as [E|E]; cbn [negb].
  - rewrite E. reflexivity.
  - apply N.ltb_lt. lia.
Qed.

Lemma iso_has_do f : iso_trun_has 0x1 f = trun_has trun_FLAG_DATA_OFFSET f.
Proof. exact (eq_sym (trun_has_iso _ f)). Qed.
Lemma iso_has_fsf f : iso_trun_has 0x4 f = trun_has trun_FLAG_FIRST_SAMPLE_FLAGS f.
Proof. exact (eq_sym (trun_has_iso _ f)). Qed.
Lemma iso_has_d f : iso_trun_has 0x100 f = trun_has trun_FLAG_SAMPLE_DURATION f.
Proof. exact (eq_sym (trun_has_iso _ f)). Qed.
Lemma iso_has_s f : iso_trun_has 0x200 f = trun_has trun_FLAG_SAMPLE_SIZE f.
Proof. exact (eq_sym (trun_has_iso _ f)). Qed.
Lemma iso_has_f f : iso_trun_has 0x400 f = trun_has trun_FLAG_SAMPLE_FLAGS f.
Proof. exact (eq_sym (trun_has_iso _ f)). Qed.
Lemma iso_has_c f : iso_trun_has 0x800 f = trun_has trun_FLAG_SAMPLE_CTS f.
Proof. exact (eq_sym (trun_has_iso _ f)). Qed.

Ltac iso_flags := rewrite ?iso_has_do, ?iso_has_fsf, ?iso_has_d, ?iso_has_s, ?iso_has_f, ?iso_has_c.

Local Notation FO v := (trun_has trun_FLAG_DATA_OFFSET (trun_flags v)).
Local Notation FF v := (trun_has trun_FLAG_FIRST_SAMPLE_FLAGS (trun_flags v)).
Local Notation FD v := (trun_has trun_FLAG_SAMPLE_DURATION (trun_flags v)).
Local Notation FS v := (trun_has trun_FLAG_SAMPLE_SIZE (trun_flags v)).
Local Notation FL v := (trun_has trun_FLAG_SAMPLE_FLAGS (trun_flags v)).
Local Notation FC v := (trun_has trun_FLAG_SAMPLE_CTS (trun_flags v)).

Definition trun_do_val (v : trun) : Z := match trun_data_offset v with Some z => z | None => 0%Z end.
Definition trun_fsf_val (v : trun) : N := match trun_first_sample_flags v with Some x => x | None => 0 end.

(** ** What well-formedness says *)
Record trun_facts (v : trun) : Prop := {
  tf_ver : trun_version v < 256 ^ N.of_nat 1;
  tf_fl : trun_flags v < 256 ^ N.of_nat 3;
  tf_cnt : trun_sample_count v < 256 ^ N.of_nat 4;
  tf_do : trun_data_offset v = if FO v then Some (trun_do_val v) else None;
  tf_do_fit : fits_signed (8 * N.of_nat 4) (trun_do_val v) = true;
  tf_fsf : trun_first_sample_flags v = if FF v then Some (trun_fsf_val v) else None;
  tf_fsf_fit : trun_fsf_val v < 256 ^ N.of_nat 4;
  tf_d : if FD v then lenN (trun_sample_durations v) = trun_sample_count v else trun_sample_durations v = [];
  tf_s : if FS v then lenN (trun_sample_sizes v) = trun_sample_count v else trun_sample_sizes v = [];
  tf_l : if FL v then lenN (trun_sample_flags v) = trun_sample_count v else trun_sample_flags v = [];
  tf_c : if FC v then lenN (trun_sample_cts v) = trun_sample_count v else trun_sample_cts v = [];
  tf_d_fit : forallb (ufit 4) (trun_sample_durations v) = true;
  tf_s_fit : forallb (ufit 4) (trun_sample_sizes v) = true;
  tf_l_fit : forallb (ufit 4) (trun_sample_flags v) = true;
  tf_c_fit : forallb (ufit 4) (trun_sample_cts v) = true
}.

Lemma trun_vec_wf_inv b c l : trun_vec_wf b c l = true ->
  (if b then lenN l = c else l = []) /\ forallb (ufit 4) l = true.
Proof.
  unfold trun_vec_wf. destruct b.
  - intros H. apply andb_true_iff in H as [H1 H2]. apply N.eqb_eq in H1. auto.
  - destruct l; [auto | discriminate].
Qed.

Lemma trun_wf_facts v : trun_wf v = true -> trun_facts v.
Proof.
  intros H. unfold trun_wf in H. cbv zeta in H.
  repeat match goal with
         | H : _ && _ = true |- _ => apply andb_true_iff in H; destruct H
         end.
  repeat match goal with
         | H : trun_vec_wf _ _ _ = true |- _ => apply trun_vec_wf_inv in H; destruct H
         | H : ufit _ _ = true |- _ => apply ufit_lt in H
         end.
  constructor; try assumption; unfold trun_do_val, trun_fsf_val.
  - destruct (trun_data_offset v) as [z|].
    + match goal with H : FO v && _ = true |- _ => apply andb_true_iff in H; destruct H as [-> _] end.
      reflexivity.
    + match goal with H : negb (FO v) = true |- _ => apply negb_true_iff in H; rewrite H end.
      reflexivity.
  - destruct (trun_data_offset v) as [z|].
    + match goal with H : FO v && _ = true |- _ => apply andb_true_iff in H; destruct H as [_ H]; exact H end.
    + reflexivity.
  - destruct (trun_first_sample_flags v) as [x|].
    + match goal with H : FF v && _ = true |- _ => apply andb_true_iff in H; destruct H as [-> _] end.
      reflexivity.
    + match goal with H : negb (FF v) = true |- _ => apply negb_true_iff in H; rewrite H end.
      reflexivity.
  - destruct (trun_first_sample_flags v) as [x|].
    + match goal with H : FF v && _ = true |- _ => apply andb_true_iff in H; destruct H as [_ H]; now apply ufit_lt end.
    + rewrite pow256_4. reflexivity.
Qed.

(** ** Sizes *)
Definition trun_ss (v : trun) : N :=
  (if FD v then 4 else 0) + (if FS v then 4 else 0) + (if FL v then 4 else 0) + (if FC v then 4 else 0).

Lemma trun_size_eq v :
  trun_size v = 16 + (if FO v then 4 else 0) + (if FF v then 4 else 0) + trun_sample_count v * trun_ss v.
Proof.
  unfold trun_size, trun_ss, HEADER_SIZE, HEADER_EXT_SIZE, Tables.HEADER_SIZE, Tables.HEADER_EXT_SIZE.
  cbv zeta. destruct (FD v), (FS v), (FL v), (FC v); lia.
Qed.

(** ** Rows *)
Definition trun_row_of (v : trun) (i : nat) : trun_row :=
  (if FD v then Some (nth i (trun_sample_durations v) 0) else None,
   if FS v then Some (nth i (trun_sample_sizes v) 0) else None,
   if FL v then Some (nth i (trun_sample_flags v) 0) else None,
   if FC v then Some (nth i (trun_sample_cts v) 0) else None).

Definition trun_oenc (o : option N) : bytes := match o with Some x => be 4 x | None => [] end.
Definition trun_row_enc (r : trun_row) : bytes :=
  trun_oenc (trun_row_d r) ++ trun_oenc (trun_row_s r) ++ trun_oenc (trun_row_f r) ++ trun_oenc (trun_row_c r).

Lemma trun_oenc_if (b : bool) x : trun_oenc (if b then Some x else None) = iso_trun_opt b (be 4 x).
Proof. now destruct b. Qed.

Lemma iso_trun_sample_eq v i : iso_trun_sample v i = trun_row_enc (trun_row_of v i).
Proof.
  unfold iso_trun_sample, trun_row_enc, trun_row_of, trun_row_d, trun_row_s, trun_row_f, trun_row_c.
  cbv zeta. cbn [fst snd]. rewrite !trun_oenc_if. iso_flags. reflexivity.
Qed.

Lemma flat_map_map' {A B C} (f : B -> list C) (g : A -> B) l :
  flat_map f (map g l) = flat_map (fun x => f (g x)) l.
Proof. induction l as [|a l IH]; cbn [map flat_map]; auto. now rewrite IH. Qed.

Lemma nth_ufit l i : forallb (ufit 4) l = true -> nth i l 0 < 256 ^ N.of_nat 4.
Proof.
  intros H. destruct (nth_in_or_default i l 0) as [Hin | ->].
  - apply ufit_lt. eapply forallb_In; eassumption.
  - rewrite pow256_4. reflexivity.
Qed.

Lemma lenN_row_enc v i : lenN (trun_row_enc (trun_row_of v i)) = trun_ss v.
Proof.
  unfold trun_row_enc, trun_row_of, trun_ss, trun_row_d, trun_row_s, trun_row_f, trun_row_c. cbn [fst snd].
  rewrite !trun_oenc_if, !lenN_app.
  destruct (FD v), (FS v), (FL v), (FC v); cbn [iso_trun_opt]; rewrite ?lenN_be, ?lenN_nil; reflexivity.
Qed.

(** ** Encoder *)
Lemma wspec_opt_i32 (b : bool) z :
  wspec (match (if b then Some z else None) with Some z => wr_i32 z | None => WRet tt end) tt
        (iso_trun_opt b (be 4 (of_signed 32 z))).
Proof. destruct b; [apply wspec_wr | apply wspec_ret]. Qed.

Lemma wspec_opt_u32 (b : bool) x :
  wspec (match (if b then Some x else None) with Some x => wr_u32 x | None => WRet tt end) tt
        (iso_trun_opt b (be 4 x)).
Proof. destruct b; [apply wspec_wr | apply wspec_ret]. Qed.

Lemma trun_wr_at_spec b l i : (b = true -> (i < length l)%nat) ->
  wspec (trun_wr_at b l i) tt (iso_trun_opt b (be 4 (nth i l 0))).
Proof.
  intros H. unfold trun_wr_at. destruct b; cbn [iso_trun_opt].
  - rewrite (nth_error_nth' l 0) by auto. apply wspec_wr.
  - apply wspec_ret.
Qed.

Lemma trun_sync_ok (b : bool) (l : list N) c : (if b then lenN l = c else l = []) -> b && negb (lenN l =? c) = false.
Proof. destruct b; cbn [andb]; auto. intros ->. now rewrite N.eqb_refl. Qed.

Lemma trun_idx (b : bool) (l : list N) c i : (if b then lenN l = c else l = []) -> (i < N.to_nat c)%nat ->
  b = true -> (i < length l)%nat.
Proof. intros H Hi ->. unfold lenN in H. lia. Qed.

Lemma trun_enc v : trun_wf v = true -> trun_size v < U32 ->
  wspec (enc_trun v) (trun_size v) (be 4 (trun_size v) ++ be 4 0x7472756e ++ iso_trun_payload v).
Proof.
  intros H Hs. destruct (trun_wf_facts v H).
  unfold enc_trun, iso_trun_payload. cbv zeta. rewrite <- trun_code. iso_flags.
  fold (trun_do_val v) (trun_fsf_val v). rewrite tf_do0, tf_fsf0.
  rewrite !trun_sync_ok by assumption. cbn [orb].
  eapply wspec_out.
  - wspec_go.
    + apply wspec_opt_i32.
    + apply wspec_opt_u32.
    + apply wspec_each with (enc := iso_trun_sample v). intros i Hi. apply in_seq in Hi.
      unfold trun_wr_row, iso_trun_sample. cbv zeta. iso_flags.
      eapply wspec_out.
      * wspec_go; apply trun_wr_at_spec; eapply trun_idx; try eassumption; lia.
      * rewrite <- ?app_assoc, ?app_nil_r. reflexivity.
  - rewrite <- !app_assoc, ?app_nil_r. reflexivity.
Qed.

Lemma trun_payload_len v : trun_wf v = true -> lenN (iso_trun_payload v) + 8 = trun_size v.
Proof.
  intros H. rewrite trun_size_eq. unfold iso_trun_payload. cbv zeta. iso_flags.
  rewrite !lenN_app, !lenN_be.
  rewrite (lenN_flat_map_const _ _ (trun_ss v))
    by (intros; rewrite iso_trun_sample_eq; apply lenN_row_enc).
  replace (lenN (seq 0 (N.to_nat (trun_sample_count v)))) with (trun_sample_count v)
    by (unfold lenN; rewrite seq_length; lia).
  destruct (FO v), (FF v); cbn [iso_trun_opt]; rewrite ?lenN_be, ?lenN_nil; lia.
Qed.

(** ** Decoder *)
Lemma run_opt_i32 {A} (b : bool) z rest (k : option Z -> prog A) d l p :
  fits_signed (8 * N.of_nat 4) z = true ->
  run (bind (if b then bind rd_i32 (fun x => Ret (Some x)) else Ret None) k)
      (mkStream d l p (iso_trun_opt b (be 4 (of_signed 32 z)) ++ rest))
  = run (k (if b then Some z else None)) (mkStream d l (p + (if b then 4 else 0)) rest).
Proof.
  intros Hz. destruct b; cbn [iso_trun_opt].
  - rewrite bind_bind. change (of_signed 32) with (of_signed (8 * N.of_nat 4)).
    unfold rd_i32. rewrite run_rd_i_bind by (auto; lia). reflexivity.
  - cbn [bind app]. now rewrite N.add_0_r.
Qed.

Lemma run_opt_u32 {A} (b : bool) x rest (k : option N -> prog A) d l p :
  x < 256 ^ N.of_nat 4 ->
  run (bind (if b then bind rd_u32 (fun x => Ret (Some x)) else Ret None) k)
      (mkStream d l p (iso_trun_opt b (be 4 x) ++ rest))
  = run (k (if b then Some x else None)) (mkStream d l (p + (if b then 4 else 0)) rest).
Proof.
  intros Hx. destruct b; cbn [iso_trun_opt].
  - rewrite bind_bind. unfold rd_u32. rewrite run_rd_u_bind by (auto; lia). reflexivity.
  - cbn [bind app]. now rewrite N.add_0_r.
Qed.

Lemma run_trun_rd_row {A} fl a b c e rest (k : trun_row -> prog A) d l p :
  a < 256 ^ N.of_nat 4 -> b < 256 ^ N.of_nat 4 -> c < 256 ^ N.of_nat 4 -> e < 256 ^ N.of_nat 4 ->
  run (bind (trun_rd_row fl) k)
      (mkStream d l p (iso_trun_opt (trun_has trun_FLAG_SAMPLE_DURATION fl) (be 4 a) ++
                       iso_trun_opt (trun_has trun_FLAG_SAMPLE_SIZE fl) (be 4 b) ++
                       iso_trun_opt (trun_has trun_FLAG_SAMPLE_FLAGS fl) (be 4 c) ++
                       iso_trun_opt (trun_has trun_FLAG_SAMPLE_CTS fl) (be 4 e) ++ rest))
  = run (k (if trun_has trun_FLAG_SAMPLE_DURATION fl then Some a else None,
            if trun_has trun_FLAG_SAMPLE_SIZE fl then Some b else None,
            if trun_has trun_FLAG_SAMPLE_FLAGS fl then Some c else None,
            if trun_has trun_FLAG_SAMPLE_CTS fl then Some e else None))
        (mkStream d l (p + ((if trun_has trun_FLAG_SAMPLE_DURATION fl then 4 else 0)
                            + (if trun_has trun_FLAG_SAMPLE_SIZE fl then 4 else 0)
                            + (if trun_has trun_FLAG_SAMPLE_FLAGS fl then 4 else 0)
                            + (if trun_has trun_FLAG_SAMPLE_CTS fl then 4 else 0))) rest).
Proof.
  intros Ha Hb Hc He. unfold trun_rd_row, trun_rd_opt.
  rewrite bind_bind, run_opt_u32 by assumption.
  rewrite bind_bind, run_opt_u32 by assumption.
  rewrite bind_bind, run_opt_u32 by assumption.
  rewrite bind_bind, run_opt_u32 by assumption.
  cbn [bind]. f_equal. f_equal. lia.
Qed.

Lemma run_if_alloc {A} (b : bool) n (k : unit -> prog A) s :
  run (bind (if b then alloc n else Ret tt) k) s = run (k tt) s.
Proof. destruct b; reflexivity. Qed.

(** what the rows give back *)
Lemma trun_rows_back (b : bool) (l : list N) n (sel : nat -> option N) :
  (forall i, sel i = if b then Some (nth i l 0) else None) ->
  (if b then length l = n else l = []) ->
  flat_map (fun i => trun_olist (sel i)) (seq 0 n) = l.
Proof.
  intros Hsel Hl. destruct b.
  - subst n.
    rewrite (flat_map_ext _ (fun i => [nth i l 0])) by (intros i; rewrite Hsel; reflexivity).
    transitivity (map (fun i => nth i l 0) (seq 0 (length l))); [|apply map_nth_seq].
    generalize (seq 0 (length l)). intros s.
    induction s as [|i s IH]; cbn [flat_map map app]; [reflexivity | now rewrite IH].
  - subst l. rewrite (flat_map_ext _ (fun _ => [])) by (intros i; rewrite Hsel; reflexivity).
    apply flat_map_nil.
Qed.

Lemma trun_dec m v d l p post : trun_wf v = true -> p + trun_size v < 2 ^ 63 ->
  run (dec_trun m (trun_size v)) (mkStream d l (p + 8) (iso_trun_payload v ++ post))
  = (Ok v, mkStream d l (p + trun_size v) post).
Proof.
  intros H Hp. destruct (trun_wf_facts v H).
  pose proof (trun_size_eq v) as Hsz.
  unfold dec_trun, iso_trun_payload. cbv zeta. iso_flags.
  rewrite <- !app_assoc.
  rewrite run_box_start. do 3 rd_step.
  rewrite run_opt_i32 by assumption.
  rewrite run_opt_u32 by assumption.
  fold (trun_ss v).
  match goal with |- context [if ?a <? ?b then Throw EData else _] =>
    replace (a <? b) with false
      by (symmetry; apply N.ltb_ge; clear -Hsz;
          unfold HEADER_SIZE, HEADER_EXT_SIZE, Tables.HEADER_SIZE, Tables.HEADER_EXT_SIZE;
          destruct (FO v), (FF v); lia) end.
  cbv iota.
  rewrite !run_if_alloc.
  set (n := N.to_nat (trun_sample_count v)).
  assert (Hview : flat_map (iso_trun_sample v) (seq 0 n)
                  = flat_map trun_row_enc (map (trun_row_of v)
                      (seq 0 (N.to_nat (if 0 <? trun_ss v then trun_sample_count v else 0))))).
  { rewrite flat_map_map'.
    destruct (N.ltb_spec 0 (trun_ss v)) as [Hpos|Hz].
    - apply flat_map_ext. intros; apply iso_trun_sample_eq.
    - change (N.to_nat 0) with 0%nat. cbn [seq flat_map].
      rewrite (flat_map_ext _ (fun _ => [])); [apply flat_map_nil|].
      intros i. rewrite iso_trun_sample_eq.
      assert (E : lenN (trun_row_enc (trun_row_of v i)) = 0) by (rewrite lenN_row_enc; lia).
      destruct (trun_row_enc (trun_row_of v i)); [reflexivity | rewrite lenN_cons in E; lia]. }
  rewrite Hview.
  set (rows := map (trun_row_of v) (seq 0 (N.to_nat (if 0 <? trun_ss v then trun_sample_count v else 0)))).
  replace (N.to_nat (if 0 <? trun_ss v then trun_sample_count v else 0)) with (length rows)
    by (unfold rows; now rewrite map_length, seq_length).
  rewrite (run_rd_n_bind (trun_rd_row (trun_flags v)) trun_row_enc (trun_ss v)).
  2:{ intros x k' p' rest' Hx. unfold rows in Hx. apply in_map_iff in Hx as (i & <- & _).
      unfold trun_row_enc, trun_row_of, trun_row_d, trun_row_s, trun_row_f, trun_row_c. cbn [fst snd].
      rewrite !trun_oenc_if, <- !app_assoc.
      apply run_trun_rd_row; apply nth_ufit; assumption. }
  prog_norm.
  replace (p + 8 + N.of_nat 1 + N.of_nat 3 + N.of_nat 4 + (if FO v then 4 else 0)
           + (if FF v then 4 else 0) + trun_ss v * lenN rows) with (p + trun_size v).
  2:{ rewrite Hsz. unfold rows. unfold lenN. rewrite map_length, seq_length.
      clear. destruct (N.ltb_spec 0 (trun_ss v)); destruct (FO v), (FF v); nia. }
  rewrite run_finish; [| reflexivity | clear -Hp; unfold U64; lia].
  f_equal.
  - f_equal. unfold rows.
    assert (Hn : forall (b : bool) (l0 : list N),
               (if b then lenN l0 = trun_sample_count v else l0 = []) ->
               (if b then 0 < trun_ss v else True) ->
               if b then length l0 = N.to_nat (if 0 <? trun_ss v then trun_sample_count v else 0) else l0 = []).
    { intros b l0 Hb Hpos. destruct b; auto. apply N.ltb_lt in Hpos. rewrite Hpos.
      unfold lenN in Hb. lia. }
    rewrite !flat_map_map'.
    fold (trun_do_val v) (trun_fsf_val v). rewrite <- tf_do0, <- tf_fsf0.
    destruct v as [ver fl cnt dof fsf ds ss fs cs].
    cbn [trun_version trun_flags trun_sample_count trun_data_offset trun_first_sample_flags
         trun_sample_durations trun_sample_sizes trun_sample_flags trun_sample_cts] in *.
    f_equal.
    + apply trun_rows_back with (b := trun_has trun_FLAG_SAMPLE_DURATION fl); [reflexivity|].
      apply Hn; [assumption|]. unfold trun_ss. cbn [trun_flags].
      destruct (trun_has trun_FLAG_SAMPLE_DURATION fl); [|exact I]. clear. lia.
    + apply trun_rows_back with (b := trun_has trun_FLAG_SAMPLE_SIZE fl); [reflexivity|].
      apply Hn; [assumption|]. unfold trun_ss. cbn [trun_flags].
      destruct (trun_has trun_FLAG_SAMPLE_SIZE fl); [|exact I]. clear. lia.
    + apply trun_rows_back with (b := trun_has trun_FLAG_SAMPLE_FLAGS fl); [reflexivity|].
      apply Hn; [assumption|]. unfold trun_ss. cbn [trun_flags].
      destruct (trun_has trun_FLAG_SAMPLE_FLAGS fl); [|exact I]. clear. lia.
    + apply trun_rows_back with (b := trun_has trun_FLAG_SAMPLE_CTS fl); [reflexivity|].
      apply Hn; [assumption|]. unfold trun_ss. cbn [trun_flags].
      destruct (trun_has trun_FLAG_SAMPLE_CTS fl); [|exact I]. clear. lia.
Qed.

Theorem trun_roundtrip : leaf_roundtrip trun_wf trun_size 0x7472756e enc_trun dec_trun iso_trun_payload.
Proof.
  apply leaf_roundtrip_intro.
  - apply trun_enc.
  - apply trun_payload_len.
  - intros; now apply trun_dec.
Qed.

Print Assumptions trun_roundtrip.
