(** Round trip of [EmsgBox] *)
From MP4 Require Import Kit VlKit BoxEmsg IsoEmsg.
From Coq Require Import ZifyN ZifyNat ZifyBool.
Open Scope string_scope.
Open Scope list_scope.
Open Scope N_scope.

Lemma emsg_code : u32_of_boxtype (box_type_of "EmsgBox") = 0x656d7367.
Proof. vm_compute. reflexivity. Qed.

Ltac eqb_consts :=
  change (0 =? 0) with true in *; change (0 =? 1) with false in *;
  change (1 =? 0) with false in *; change (1 =? 1) with true in *.

Ltac hdr_consts := unfold HEADER_SIZE, HEADER_EXT_SIZE, Tables.HEADER_SIZE, Tables.HEADER_EXT_SIZE in *.

(** ** NUL-terminated strings *)
Lemma unbe_one b : unbe [b] = b.
Proof. unfold unbe. cbn [rev app unle]. lia. Qed.

Lemma run_emsg_rd_cstr_loop {A} s : forall rest (k : bytes -> prog A) d l p fuel acc,
  vl_no_nul s = true -> (length s < fuel)%nat ->
  run (bind (emsg_rd_cstr_loop fuel acc) k) (mkStream d l p (s ++ 0 :: rest))
  = run (k (acc ++ s ++ [0])) (mkStream d l (p + lenN s + 1) rest).
Proof.
  induction s as [|b t IH]; intros rest k d l p fuel acc Hn Hf.
  - destruct fuel as [|r]; [cbn [length] in Hf; lia|].
    cbn [emsg_rd_cstr_loop app]. unfold rd_u8, rd_u. cbn [bind].
    rewrite (run_RdExact_app _ d l p [0] rest (N.of_nat 1)) by (first [reflexivity | lia]).
    rewrite unbe_one. rewrite N.eqb_refl. cbn [bind]. f_equal. f_equal.
    change (lenN (@nil N)) with 0. lia.
  - destruct fuel as [|r]; [cbn [length] in Hf; lia|].
    cbn [vl_no_nul forallb] in Hn. apply andb_true_iff in Hn as [Hb Ht].
    apply negb_true_iff in Hb.
    cbn [emsg_rd_cstr_loop]. unfold rd_u8, rd_u. cbn [bind].
    change ((b :: t) ++ 0 :: rest) with ([b] ++ (t ++ 0 :: rest)).
    rewrite (run_RdExact_app _ d l p [b] _ (N.of_nat 1)) by (first [reflexivity | lia]).
    rewrite unbe_one. rewrite Hb. cbn [bind].
    rewrite IH by (auto; cbn [length] in Hf; lia).
    f_equal.
    + f_equal. rewrite <- app_assoc. reflexivity.
    + f_equal. rewrite lenN_cons. lia.
Qed.

Lemma run_emsg_rd_string {A} m start size s rest (k : bytes -> prog A) d l p :
  vl_str_ok s = true -> start + size < U64 -> p + lenN s < start + size ->
  run (bind (emsg_rd_string m start size) k) (mkStream d l p (s ++ 0 :: rest))
  = run (k s) (mkStream d l (p + lenN s + 1) rest).
Proof.
  intros Hs Hb Hl. apply vl_str_ok_inv in Hs as [Hu Hn].
  unfold emsg_rd_string. rewrite bind_bind, run_add64_ok by exact Hb.
  rewrite bind_bind. unfold get_pos. cbn [bind]. rewrite run_GetPos.
  unfold emsg_rd_cstr. rewrite bind_bind.
  rewrite run_emsg_rd_cstr_loop by (auto; unfold lenN in *; lia).
  cbn [app]. rewrite removelast_last, Hu. reflexivity.
Qed.

(** ** Encoder *)
Lemma wspec_emsg_cstr s : bytes_ok s = true -> wspec (emsg_wr_cstr s) tt (s ++ [0]).
Proof.
  intros H. unfold emsg_wr_cstr.
  eapply wspec_out.
  - eapply wspec_bind; [|cbv beta; apply wspec_wr].
    apply wspec_each with (enc := be 1). intros; apply wspec_wr.
  - rewrite flat_map_be1 by exact H. reflexivity.
Qed.

Lemma wspec_emsg_bytes s : bytes_ok s = true -> wspec (vl_wr_each wr_u8 s) tt s.
Proof.
  intros H. eapply wspec_out.
  - apply wspec_each with (enc := be 1). intros; apply wspec_wr.
  - now apply flat_map_be1.
Qed.

Lemma emsg_size_eq v :
  emsg_size v = 16 + emsg_time_size (emsg_version v) + lenN (emsg_scheme_id_uri v) + 1
                + lenN (emsg_value v) + 1 + lenN (emsg_message_data v).
Proof. unfold emsg_size, emsg_size_without_message. hdr_consts. lia. Qed.

(** the two shapes a well-formed value has *)
Lemma emsg_shape v : emsg_wf v = true ->
  (emsg_version v = 0 /\ emsg_presentation_time v = None
   /\ exists x, emsg_presentation_time_delta v = Some x /\ x < 256 ^ N.of_nat 4)
  \/ (emsg_version v = 1 /\ emsg_presentation_time_delta v = None
      /\ exists x, emsg_presentation_time v = Some x /\ x < 256 ^ N.of_nat 8).
Proof.
  intros H. unfold emsg_wf in H.
  repeat match goal with H : _ && _ = true |- _ => apply andb_true_iff in H; destruct H end.
  match goal with H : (emsg_version v <? 2) = true |- _ => apply N.ltb_lt in H end.
  destruct (N.eqb_spec (emsg_version v) 1) as [E|E].
  - right. destruct (emsg_presentation_time v), (emsg_presentation_time_delta v); try discriminate.
    repeat split; auto. eexists; split; [reflexivity|]. now apply ufit_lt.
  - left. destruct (emsg_presentation_time v), (emsg_presentation_time_delta v); try discriminate.
    repeat split; auto; [lia|]. eexists; split; [reflexivity|]. now apply ufit_lt.
Qed.

Lemma emsg_enc v : emsg_wf v = true -> emsg_size v < U32 ->
  wspec (enc_emsg v) (emsg_size v) (be 4 (emsg_size v) ++ be 4 0x656d7367 ++ iso_emsg_payload v).
Proof.
  intros H Hs. pose proof (emsg_shape v H) as Hsh. unfold emsg_wf in H. split_andb.
  repeat match goal with H : vl_str_ok _ = true |- _ => apply vl_str_ok_bytes in H end.
  unfold enc_emsg, iso_emsg_payload, emsg_time_size_ok. rewrite <- emsg_code.
  destruct Hsh as [(Ev & Ept & x & Ed & Hx) | (Ev & Ed & x & Ept & Hx)]; rewrite Ev, Ept, Ed;
    eqb_consts; cbn [orb negb]; cbv iota.
  - eapply wspec_out.
    + wspec_go; first [ apply wspec_emsg_cstr; assumption | apply wspec_emsg_bytes; assumption ].
    + rewrite <- !app_assoc, ?app_nil_r. reflexivity.
  - eapply wspec_out.
    + wspec_go; first [ apply wspec_emsg_cstr; assumption | apply wspec_emsg_bytes; assumption ].
    + rewrite <- !app_assoc, ?app_nil_r. reflexivity.
Qed.

Lemma emsg_payload_len v : emsg_wf v = true -> lenN (iso_emsg_payload v) + 8 = emsg_size v.
Proof.
  intros H. pose proof (emsg_shape v H) as Hsh.
  rewrite emsg_size_eq. unfold iso_emsg_payload, emsg_time_size.
  destruct Hsh as [(Ev & _) | (Ev & _)]; rewrite Ev; eqb_consts; cbv iota;
    rewrite ?lenN_app, ?lenN_be, ?lenN_cons, ?lenN_nil; lia.
Qed.

(** ** Decoder *)
Lemma emsg_dec m v d l p post : emsg_wf v = true -> p + emsg_size v < 2 ^ 63 ->
  run (dec_emsg m (emsg_size v)) (mkStream d l (p + 8) (iso_emsg_payload v ++ post))
  = (Ok v, mkStream d l (p + emsg_size v) post).
Proof.
  intros H Hp. pose proof (emsg_shape v H) as Hsh. unfold emsg_wf in H. split_andb.
  pose proof (emsg_size_eq v) as Hsz.
  match goal with H : bytes_ok (emsg_message_data v) = true |- _ => rename H into Hmd end.
  match goal with H : vl_str_ok (emsg_scheme_id_uri v) = true |- _ => rename H into Huri end.
  match goal with H : vl_str_ok (emsg_value v) = true |- _ => rename H into Hval end.
  match goal with H : (emsg_version v <? 2) = true |- _ => pose proof (ufit_version _ H) as Hv1 end.
  unfold dec_emsg, iso_emsg_payload.
  destruct Hsh as [(Ev & Ept & x & Ed & Hx) | (Ev & Ed & x & Ept & Hx)]; rewrite Ept, Ed.
  - (* version 0 *)
    unfold emsg_time_size in Hsz. rewrite Ev in Hsz. eqb_consts. cbv iota in Hsz.
    rewrite Ev. eqb_consts. cbv iota. rewrite <- !app_assoc. cbn [app].
    rewrite run_box_start. do 2 rd_step.
    eqb_consts. cbv iota.
    rewrite bind_bind.
    rewrite run_emsg_rd_string; [| exact Huri | clear -Hp; unfold U64; lia | clear -Hsz; lia].
    rewrite bind_bind.
    rewrite run_emsg_rd_string; [| exact Hval | clear -Hp; unfold U64; lia | clear -Hsz; lia].
    do 4 rd_step.
    assert (Hms : emsg_size_without_message 0 (emsg_scheme_id_uri v) (emsg_value v) <= emsg_size v
                  /\ emsg_size v - emsg_size_without_message 0 (emsg_scheme_id_uri v) (emsg_value v)
                     = lenN (emsg_message_data v))
      by (unfold emsg_size_without_message, emsg_time_size; eqb_consts; cbv iota; hdr_consts;
          clear -Hsz; lia).
    destruct Hms as [Hms1 Hms2].
    rewrite checked_sub_ok by exact Hms1. rewrite Hms2.
    rewrite run_Alloc. rewrite to_nat_lenN.
    rewrite run_rd_n_u8_bytes by exact Hmd.
    prog_norm. rewrite run_finish; [| clear -Hsz; lia | clear -Hp Hsz; unfold U64; lia].
    f_equal.
    + f_equal. destruct v as [ver fl ts pt dl dur id uri val md]. cbn [emsg_version emsg_presentation_time emsg_presentation_time_delta] in *.
      subst. reflexivity.
    + f_equal. clear -Hsz. lia.
  - (* version 1 *)
    unfold emsg_time_size in Hsz. rewrite Ev in Hsz. eqb_consts. cbv iota in Hsz.
    rewrite Ev. eqb_consts. cbv iota. rewrite <- !app_assoc. cbn [app].
    rewrite run_box_start. do 2 rd_step.
    eqb_consts. cbv iota.
    do 4 rd_step.
    rewrite bind_bind.
    rewrite run_emsg_rd_string; [| exact Huri | clear -Hp; unfold U64; lia | clear -Hsz; lia].
    rewrite bind_bind.
    rewrite run_emsg_rd_string; [| exact Hval | clear -Hp; unfold U64; lia | clear -Hsz; lia].
    prog_norm.
    assert (Hms : emsg_size_without_message 1 (emsg_scheme_id_uri v) (emsg_value v) <= emsg_size v
                  /\ emsg_size v - emsg_size_without_message 1 (emsg_scheme_id_uri v) (emsg_value v)
                     = lenN (emsg_message_data v))
      by (unfold emsg_size_without_message, emsg_time_size; eqb_consts; cbv iota; hdr_consts;
          clear -Hsz; lia).
    destruct Hms as [Hms1 Hms2].
    rewrite checked_sub_ok by exact Hms1. rewrite Hms2.
    rewrite run_Alloc. rewrite to_nat_lenN.
    rewrite run_rd_n_u8_bytes by exact Hmd.
    prog_norm. rewrite run_finish; [| clear -Hsz; lia | clear -Hp Hsz; unfold U64; lia].
    f_equal.
    + f_equal. destruct v as [ver fl ts pt dl dur id uri val md]. cbn [emsg_version emsg_presentation_time emsg_presentation_time_delta] in *.
      subst. reflexivity.
    + f_equal. clear -Hsz. lia.
Qed.

Theorem emsg_roundtrip : leaf_roundtrip emsg_wf emsg_size 0x656d7367 enc_emsg dec_emsg iso_emsg_payload.
Proof.
  apply leaf_roundtrip_intro.
  - apply emsg_enc.
  - apply emsg_payload_len.
  - intros; now apply emsg_dec.
Qed.

Print Assumptions emsg_roundtrip.
