(** Round trip of [UdtaBox] (udta.rs) *)
From MP4 Require Import KitCont BoxUdta IsoMetaBox IsoUdta RtMeta.
From Coq Require Import ZifyN ZifyNat ZifyBool.
Open Scope string_scope.
Open Scope list_scope.
Open Scope N_scope.


Lemma udta_code : u32_of_boxtype (box_type_of "UdtaBox") = 0x75647461.
Proof. vm_compute. reflexivity. Qed.


Definition udta_rt_wf (v : udta) : bool :=
  match udta_meta v with Some x => meta_rt_wf x | None => true end.

Lemma udta_bt_meta : boxtype_of_u32 0x6d657461 = MetaBox. Proof. vm_compute. reflexivity. Qed.

Definition udta_u_meta (x : meta) (a : option meta) : option meta := Some x.

Definition udta_i_meta := ci_of meta_size 0x6d657461 iso_meta_payload meta_fuel udta_u_meta.

Definition udta_items (v : udta) : list (citem (option meta)) :=
  ci_opt udta_i_meta (udta_meta v).

Ltac udta_unfold_items := unfold udta_items.
Ltac udta_unfold_i := unfold udta_i_meta in *.

Lemma udta_items_iso v : flat_map ci_iso (udta_items v) = iso_udta_payload v.
Proof.
  unfold iso_udta_payload. udta_unfold_items. rewrite ?flat_map_app, ?flat_map_ci_iso_map. udta_unfold_i.
  destruct (udta_meta v);
    cbn [flat_map ci_opt app iso_opt ci_iso ci_of ci_code ci_pl]; rewrite <- ?app_assoc, ?app_nil_r; reflexivity.
Qed.

Lemma udta_items_size v : udta_size v = 8 + ci_total (udta_items v).
Proof.
  unfold udta_size. udta_unfold_items. rewrite ?ci_total_app.
  udta_unfold_i.
  destruct (udta_meta v);
    unfold ci_total; cbn [ci_opt map ci_of ci_size sumN fold_right]; hdr_consts; lia.
Qed.

Definition udta_fuel (v : udta) : nat := (1 + match udta_meta v with Some x => meta_fuel x | None => 0 end)%nat.

Lemma udta_items_fuel v : (length (udta_items v) + ci_maxneed (udta_items v) <= udta_fuel v)%nat.
Proof.
  unfold udta_fuel. udta_unfold_items. rewrite ?app_length, ?ci_maxneed_app, ?map_length.
  udta_unfold_i.
  destruct (udta_meta v);
    cbn [length ci_opt ci_maxneed ci_need ci_of]; lia.
Qed.

Lemma udta_items_ok m v : udta_rt_wf v = true -> udta_size v < U32 ->
  Forall (ci_ok_s (udta_dispatch m)) (udta_items v).
Proof.
  intros H Hs. apply Forall_ci_ok_total; [| rewrite udta_items_size in Hs; clear -Hs; lia].
  unfold udta_rt_wf in H. split_andb.
  unfold udta_items. repeat apply Forall_app_intro.
  - apply Forall_ci_opt. intros x Hx. rewrite Hx in *. ci_leaf_ts meta_roundtrip udta_bt_meta.
Qed.

Lemma udta_payload_len v : udta_rt_wf v = true -> udta_size v < U32 ->
  lenN (iso_udta_payload v) + 8 = udta_size v.
Proof.
  intros H Hs. apply (cont_payload_len_s (udta_dispatch Dbg) (udta_items v)).
  - now apply udta_items_ok.
  - apply udta_items_iso.
  - apply udta_items_size.
Qed.

Ltac udta_child me Hs :=
  lazymatch goal with
  | |- wspec (enc_meta _) _ _ => apply (cont_rt_wspec_s _ _ _ _ _ _ _ _ meta_roundtrip)
  end;
  [ assumption | let Hs' := fresh "Hs" in pose proof Hs as Hs'; unfold udta_size in Hs'; cont_size_tac Hs' ].

Ltac udta_opt me Hs :=
  let x := fresh "x" in let Hx := fresh "Hx" in
  apply wspec_opt_child; intros x Hx; unfold udta_size in Hs; rewrite Hx in *; eexists; udta_child me Hs.

Lemma udta_enc (me : mode) v : udta_rt_wf v = true -> udta_size v < U32 ->
  wspec (enc_udta v) (udta_size v) (be 4 (udta_size v) ++ be 4 0x75647461 ++ iso_udta_payload v).
Proof.
  intros H Hs. rewrite <- udta_code. unfold udta_rt_wf in H. split_andb.
  unfold enc_udta, iso_udta_payload.
  eapply wspec_out.
  - wspec_go.
    + udta_opt me Hs.
  - unfold iso_all. rewrite <- ?app_assoc, ?app_nil_r. reflexivity.
Qed.

Lemma udta_dec v fuel m d l p post : udta_rt_wf v = true -> udta_size v < U32 ->
  (udta_fuel v <= fuel)%nat -> p + udta_size v < 2 ^ 63 ->
  dropN (p + 8) d = iso_udta_payload v ++ post ->
  run (dec_udta_fuel fuel m (udta_size v)) (mkStream d l (p + 8) (iso_udta_payload v ++ post))
  = (Ok v, mkStream d l (p + udta_size v) post).
Proof.
  intros H Hs Hf Hp Hd. unfold dec_udta_fuel.
  rewrite (cont_dec_items_s m _ (udta_size v) (udta_dispatch m) (udta_items v) (iso_udta_payload v));
    [ | now apply udta_items_ok | apply udta_items_iso | apply udta_items_size | exact Hp
      | pose proof (udta_items_fuel v); lia | exact Hd ].
  udta_unfold_items. rewrite ?ci_fold_app.
  destruct v as [f_meta].
  cbn [udta_meta] in *.
  udta_unfold_i.
  destruct f_meta;
    cbn [ci_fold fold_left ci_opt ci_of ci_upd udta_u_meta];
    cbn [ci_fold fold_left ci_opt ci_of ci_upd udta_u_meta app];
    apply run_cont_finish; (clear -Hp; lia).
Qed.

Theorem udta_roundtrip (me : mode) :
  cont_roundtrip_s udta_rt_wf udta_size 0x75647461 enc_udta dec_udta_fuel iso_udta_payload udta_fuel.
Proof.
  apply cont_roundtrip_s_intro.
  - apply (udta_enc me).
  - apply udta_payload_len.
  - intros; now apply udta_dec.
Qed.


Print Assumptions udta_roundtrip.
