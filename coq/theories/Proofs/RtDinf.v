(** Round trips of [UrlBox], [DrefBox], [DinfBox] (dinf.rs) *)
From MP4 Require Import Kit VlKit BoxDinf IsoDinf.
From Coq Require Import ZifyN ZifyNat ZifyBool.
Open Scope string_scope.
Open Scope list_scope.
Open Scope N_scope.

Ltac hdr_consts := unfold HEADER_SIZE, HEADER_EXT_SIZE, Tables.HEADER_SIZE, Tables.HEADER_EXT_SIZE in *.

(** ** UrlBox *)
Lemma url_code : u32_of_boxtype (box_type_of "UrlBox") = 0x75726c20.
Proof. vm_compute. reflexivity. Qed.

Lemma url_size_eq v :
  url_size v = 12 + match url_location v with [] => 0 | _ => lenN (url_location v) + 1 end.
Proof. unfold url_size. hdr_consts. lia. Qed.

Lemma url_enc v : url_wf v = true -> url_size v < U32 ->
  wspec (enc_url v) (url_size v) (be 4 (url_size v) ++ be 4 0x75726c20 ++ iso_url_payload v).
Proof.
  intros H Hs. unfold url_wf, url_self_contained in H. split_andb.
  match goal with H : Bool.eqb _ _ = true |- _ => apply Bool.eqb_prop in H; rename H into Ho end.
  unfold enc_url, iso_url_payload. rewrite <- url_code. rewrite Ho.
  destruct (url_location v) as [|b t].
  - eapply wspec_out; [wspec_go|]. rewrite <- !app_assoc, ?app_nil_r. reflexivity.
  - eapply wspec_out; [wspec_go|]. rewrite <- !app_assoc, ?app_nil_r. reflexivity.
Qed.

Lemma url_payload_len v : url_wf v = true -> lenN (iso_url_payload v) + 8 = url_size v.
Proof.
  intros H. unfold url_wf, url_self_contained in H. split_andb.
  match goal with H : Bool.eqb _ _ = true |- _ => apply Bool.eqb_prop in H; rename H into Ho end.
  rewrite url_size_eq. unfold iso_url_payload. rewrite Ho.
  destruct (url_location v) as [|b t].
  - rewrite ?lenN_app, ?lenN_be, lenN_nil. lia.
  - rewrite ?lenN_app, ?lenN_be, !lenN_cons, lenN_nil. lia.
Qed.

Lemma url_dec m v d l p post : url_wf v = true -> p + url_size v < 2 ^ 63 ->
  run (dec_url m (url_size v)) (mkStream d l (p + 8) (iso_url_payload v ++ post))
  = (Ok v, mkStream d l (p + url_size v) post).
Proof.
  intros H Hp. unfold url_wf, url_self_contained in H. split_andb.
  match goal with H : Bool.eqb _ _ = true |- _ => apply Bool.eqb_prop in H; rename H into Ho end.
  match goal with H : vl_str_ok _ = true |- _ => apply vl_str_ok_inv in H as [Hu Hn] end.
  pose proof (url_size_eq v) as Hsz.
  unfold dec_url, iso_url_payload. rewrite Ho.
  destruct v as [ver fl loc]. cbn [url_version url_flags url_location] in *.
  destruct loc as [|b t].
  - rewrite <- !app_assoc. cbn [app].
    rewrite run_box_start. do 2 rd_step.
    rewrite checked_sub_ok by (clear -Hsz; hdr_consts; lia).
    replace (url_size {| url_version := ver; url_flags := fl; url_location := [] |}
             - (HEADER_SIZE + HEADER_EXT_SIZE)) with 0 by (clear -Hsz; hdr_consts; lia).
    rewrite run_rd_vec0_bind. cbn [vl_trim_nul]. rewrite vl_utf8_or_default_ok by reflexivity.
    prog_norm. rewrite run_finish; [| clear -Hsz; lia | clear -Hp; unfold U64; lia].
    f_equal. f_equal. clear -Hsz. lia.
  - rewrite <- !app_assoc.
    rewrite run_box_start. do 2 rd_step.
    rewrite checked_sub_ok by (clear -Hsz; hdr_consts; lia).
    rewrite (app_assoc (b :: t) [0] post).
    rewrite (run_rd_vec_bind _ ((b :: t) ++ [0]))
      by (rewrite lenN_app, (lenN_cons 0), lenN_nil; clear -Hsz; hdr_consts; lia).
    rewrite vl_trim_nul_app by exact Hn. rewrite vl_utf8_or_default_ok by exact Hu.
    prog_norm. rewrite run_finish; [| clear -Hsz; hdr_consts; lia | clear -Hp; unfold U64; lia].
    f_equal. f_equal. clear -Hsz. hdr_consts. lia.
Qed.

Theorem url_roundtrip : leaf_roundtrip url_wf url_size 0x75726c20 enc_url dec_url iso_url_payload.
Proof.
  apply leaf_roundtrip_intro.
  - apply url_enc.
  - apply url_payload_len.
  - intros; now apply url_dec.
Qed.

(** ** DrefBox *)
Lemma dref_code : u32_of_boxtype (box_type_of "DrefBox") = 0x64726566.
Proof. vm_compute. reflexivity. Qed.

Lemma url_is_url : boxtype_eqb (boxtype_of_u32 0x75726c20) UrlBox = true.
Proof. vm_compute. reflexivity. Qed.

Lemma dref_size_eq v :
  dref_size v = 16 + match dref_url v with Some u => url_size u | None => 0 end.
Proof. unfold dref_size. hdr_consts. lia. Qed.

Lemma url_size_ge v : 12 <= url_size v.
Proof. rewrite url_size_eq. lia. Qed.

Lemma dref_enc v : dref_wf v = true -> dref_size v < U32 ->
  wspec (enc_dref v) (dref_size v) (be 4 (dref_size v) ++ be 4 0x64726566 ++ iso_dref_payload v).
Proof.
  intros H Hs. unfold dref_wf in H. split_andb.
  pose proof (dref_size_eq v) as Hsz.
  unfold enc_dref, iso_dref_payload, iso_dinf_box. rewrite <- dref_code.
  destruct (dref_url v) as [u|].
  - pose proof (url_payload_len u ltac:(assumption)) as Hlen.
    eapply wspec_out.
    + wspec_go. apply url_enc; [assumption|]. clear -Hs Hsz. lia.
    + replace (8 + lenN (iso_url_payload u)) with (url_size u) by (clear -Hlen; lia).
      rewrite <- !app_assoc, ?app_nil_r. reflexivity.
  - eapply wspec_out; [wspec_go|]. rewrite <- !app_assoc, ?app_nil_r. reflexivity.
Qed.

Lemma dref_payload_len v : dref_wf v = true -> lenN (iso_dref_payload v) + 8 = dref_size v.
Proof.
  intros H. unfold dref_wf in H. split_andb.
  rewrite dref_size_eq. unfold iso_dref_payload, iso_dinf_box.
  destruct (dref_url v) as [u|].
  - rewrite <- (url_payload_len u) by assumption. rewrite ?lenN_app, ?lenN_be. lia.
  - rewrite ?lenN_app, ?lenN_be, lenN_nil. lia.
Qed.

Lemma dref_dec m v d l p post : dref_wf v = true -> dref_size v < U32 -> p + dref_size v < 2 ^ 63 ->
  run (dec_dref m (dref_size v)) (mkStream d l (p + 8) (iso_dref_payload v ++ post))
  = (Ok v, mkStream d l (p + dref_size v) post).
Proof.
  intros H Hs Hp. unfold dref_wf in H. split_andb.
  pose proof (dref_size_eq v) as Hsz.
  unfold dec_dref, iso_dref_payload, iso_dinf_box.
  destruct v as [ver fl [u|]]; cbn [dref_version dref_flags dref_url] in *.
  - pose proof (url_size_ge u) as Hge.
    pose proof (url_payload_len u ltac:(assumption)) as Hlen.
    replace (8 + lenN (iso_url_payload u)) with (url_size u) by (clear -Hlen; lia).
    rewrite <- !app_assoc.
    rewrite run_box_start. do 2 rd_step.
    rewrite run_add64_ok by (clear -Hp; unfold U64; lia).
    rd_step. rewrite run_GetPos.
    change (N.to_nat 1) with 1%nat. cbn [dref_loop].
    match goal with |- context [if ?a <=? ?b then _ else _] =>
      replace (a <=? b) with false by (symmetry; apply N.leb_gt; clear -Hsz Hge; lia) end.
    rewrite bind_bind.
    rewrite run_read_header_bind;
      [| clear -Hs Hsz; lia | clear -Hge; lia | clear; vm_compute; reflexivity].
    cbv beta iota.
    match goal with |- context [if ?a <? ?b then _ else _] =>
      replace (a <? b) with false by (symmetry; apply N.ltb_ge; clear -Hsz; lia) end.
    replace (url_size u =? 0) with false by (symmetry; apply N.eqb_neq; clear -Hge; lia).
    rewrite url_is_url. cbv iota.
    rewrite !bind_bind.
    erewrite run_bind_ok; [| apply url_dec; [assumption | clear -Hp Hsz; lia]].
    prog_norm. rewrite run_GetPos.
    prog_norm. rewrite run_finish; [| clear -Hsz; lia | clear -Hp Hsz; unfold U64; lia].
    f_equal. f_equal. clear -Hsz. lia.
  - rewrite <- !app_assoc. cbn [app].
    rewrite run_box_start. do 2 rd_step.
    rewrite run_add64_ok by (clear -Hp; unfold U64; lia).
    rd_step. rewrite run_GetPos.
    change (N.to_nat 0) with 0%nat. cbn [dref_loop bind].
    prog_norm. rewrite run_finish; [| clear -Hsz; lia | clear -Hp Hsz; unfold U64; lia].
    f_equal. f_equal. clear -Hsz. lia.
Qed.

Theorem dref_roundtrip : leaf_roundtrip dref_wf dref_size 0x64726566 enc_dref dec_dref iso_dref_payload.
Proof.
  apply leaf_roundtrip_intro.
  - apply dref_enc.
  - apply dref_payload_len.
  - intros; now apply dref_dec.
Qed.

(** ** DinfBox *)
Lemma dinf_code : u32_of_boxtype (box_type_of "DinfBox") = 0x64696e66.
Proof. vm_compute. reflexivity. Qed.

Lemma dref_is_dref : boxtype_eqb (boxtype_of_u32 0x64726566) DrefBox = true.
Proof. vm_compute. reflexivity. Qed.

Lemma dinf_size_eq v : dinf_size v = 8 + dref_size (dinf_dref v).
Proof. unfold dinf_size. hdr_consts. lia. Qed.

Lemma dref_size_ge v : 16 <= dref_size v.
Proof. rewrite dref_size_eq. lia. Qed.

Lemma dinf_loop_done m fuel size end_ x current : end_ <= current ->
  dinf_loop m fuel size end_ x current = Ret x.
Proof.
  intros H. apply N.ltb_ge in H. destruct fuel; cbn [dinf_loop]; now rewrite H.
Qed.

Lemma dinf_enc v : dinf_wf v = true -> dinf_size v < U32 ->
  wspec (enc_dinf v) (dinf_size v) (be 4 (dinf_size v) ++ be 4 0x64696e66 ++ iso_dinf_payload v).
Proof.
  intros H Hs. unfold dinf_wf in H.
  pose proof (dinf_size_eq v) as Hsz.
  pose proof (dref_payload_len _ H) as Hlen.
  unfold enc_dinf, iso_dinf_payload, iso_dinf_box. rewrite <- dinf_code.
  eapply wspec_out.
  - wspec_go. apply dref_enc; [assumption|]. clear -Hs Hsz. lia.
  - replace (8 + lenN (iso_dref_payload (dinf_dref v))) with (dref_size (dinf_dref v)) by (clear -Hlen; lia).
    rewrite <- !app_assoc, ?app_nil_r. reflexivity.
Qed.

Lemma dinf_payload_len v : dinf_wf v = true -> lenN (iso_dinf_payload v) + 8 = dinf_size v.
Proof.
  intros H. unfold dinf_wf in H. pose proof (dref_payload_len _ H) as Hlen.
  rewrite dinf_size_eq. unfold iso_dinf_payload, iso_dinf_box. rewrite lenN_box8. lia.
Qed.

Lemma dinf_dec m v d l p post : dinf_wf v = true -> dinf_size v < U32 -> p + dinf_size v < 2 ^ 63 ->
  run (dec_dinf m (dinf_size v)) (mkStream d l (p + 8) (iso_dinf_payload v ++ post))
  = (Ok v, mkStream d l (p + dinf_size v) post).
Proof.
  intros H Hs Hp. unfold dinf_wf in H.
  pose proof (dinf_size_eq v) as Hsz.
  pose proof (dref_payload_len _ H) as Hlen.
  pose proof (dref_size_ge (dinf_dref v)) as Hge.
  unfold dec_dinf, iso_dinf_payload, iso_dinf_box.
  replace (8 + lenN (iso_dref_payload (dinf_dref v))) with (dref_size (dinf_dref v)) by (clear -Hlen; lia).
  rewrite <- !app_assoc.
  rewrite run_box_start. prog_norm. rewrite run_GetPos.
  rewrite run_add64_ok by (clear -Hp; unfold U64; lia).
  replace (N.to_nat (p + dinf_size v - (p + 8)))
    with (S (N.to_nat (p + dinf_size v - (p + 8) - 1))) by (clear -Hsz Hge; lia).
  cbn [dinf_loop].
  replace (p + 8 <? p + dinf_size v) with true by (symmetry; apply N.ltb_lt; clear -Hsz Hge; lia).
  rewrite bind_bind.
  rewrite run_read_header_bind;
    [| clear -Hs Hsz; lia | clear -Hge; lia | clear; vm_compute; reflexivity].
  cbv beta iota.
  match goal with |- context [if ?a <? ?b then _ else _] =>
    replace (a <? b) with false by (symmetry; apply N.ltb_ge; clear -Hsz; lia) end.
  replace (dref_size (dinf_dref v) =? 0) with false by (symmetry; apply N.eqb_neq; clear -Hge; lia).
  rewrite dref_is_dref. cbv iota.
  rewrite !bind_bind.
  erewrite run_bind_ok; [| apply dref_dec; [assumption | clear -Hs Hsz; lia | clear -Hp Hsz; lia]].
  prog_norm. rewrite run_GetPos.
  rewrite dinf_loop_done by (clear -Hsz; lia).
  prog_norm. rewrite run_finish; [| clear -Hsz; lia | clear -Hp Hsz; unfold U64; lia].
  f_equal.
  - destruct v; reflexivity.
  - f_equal. clear -Hsz. lia.
Qed.

Theorem dinf_roundtrip : leaf_roundtrip dinf_wf dinf_size 0x64696e66 enc_dinf dec_dinf iso_dinf_payload.
Proof.
  apply leaf_roundtrip_intro.
  - apply dinf_enc.
  - apply dinf_payload_len.
  - intros; now apply dinf_dec.
Qed.

Print Assumptions url_roundtrip.
Print Assumptions dref_roundtrip.
Print Assumptions dinf_roundtrip.
