(** Round trip of [TkhdBox] *)
From MP4 Require Import Kit BoxTkhd IsoTkhd.
From Coq Require Import ZifyN ZifyNat ZifyBool.
Open Scope string_scope.
Open Scope list_scope.
Open Scope N_scope.

Lemma tkhd_code : u32_of_boxtype (box_type_of "TkhdBox") = 0x746b6864.
Proof. vm_compute. reflexivity. Qed.

(** the standard's layout in the shape the symbolic-execution tactics expect
    (the two reserved 32-bit words are read as one u64) *)
Definition tkhd_payload (v : tkhd) : bytes :=
  be 1 (tkhd_version v) ++ be 3 (tkhd_flags v) ++
  (if tkhd_version v =? 1 then
     be 8 (tkhd_creation_time v) ++ be 8 (tkhd_modification_time v) ++ be 4 (tkhd_track_id v) ++ be 4 0 ++ be 8 (tkhd_duration v)
   else be 4 (tkhd_creation_time v) ++ be 4 (tkhd_modification_time v) ++ be 4 (tkhd_track_id v) ++ be 4 0 ++ be 4 (tkhd_duration v)) ++
  be 8 0 ++ be 2 (tkhd_layer v) ++ be 2 (tkhd_alternate_group v) ++ be 2 (tkhd_volume v) ++ be 2 0 ++
  be 4 (of_signed (8 * N.of_nat 4) (mx_a (tkhd_matrix v))) ++ be 4 (of_signed (8 * N.of_nat 4) (mx_b (tkhd_matrix v))) ++
  be 4 (of_signed (8 * N.of_nat 4) (mx_u (tkhd_matrix v))) ++ be 4 (of_signed (8 * N.of_nat 4) (mx_c (tkhd_matrix v))) ++
  be 4 (of_signed (8 * N.of_nat 4) (mx_d (tkhd_matrix v))) ++ be 4 (of_signed (8 * N.of_nat 4) (mx_v (tkhd_matrix v))) ++
  be 4 (of_signed (8 * N.of_nat 4) (mx_x (tkhd_matrix v))) ++ be 4 (of_signed (8 * N.of_nat 4) (mx_y (tkhd_matrix v))) ++
  be 4 (of_signed (8 * N.of_nat 4) (mx_w (tkhd_matrix v))) ++
  be 4 (tkhd_width v) ++ be 4 (tkhd_height v).

Lemma iso_tkhd_payload_eq v : iso_tkhd_payload v = tkhd_payload v.
Proof.
  unfold iso_tkhd_payload, tkhd_payload, iso_tkhd_matrix, iso_tkhd_i32.
  change (of_signed 32) with (of_signed (8 * N.of_nat 4)).
  change (be 4 0 ++ be 4 0) with (be 8 0).
  rewrite <- !app_assoc. reflexivity.
Qed.

Lemma tkhd_size_eq v : tkhd_version v < 2 ->
  tkhd_size v = if tkhd_version v =? 1 then 104 else 92.
Proof.
  intros H. unfold tkhd_size, HEADER_SIZE, HEADER_EXT_SIZE, Tables.HEADER_SIZE, Tables.HEADER_EXT_SIZE.
  destruct (N.eqb_spec (tkhd_version v) 1), (N.eqb_spec (tkhd_version v) 0); lia.
Qed.

Lemma tkhd_enc v : tkhd_wf v = true ->
  wfin (enc_tkhd v) = Ok (tkhd_size v) /\
  wout (enc_tkhd v) = be 4 (tkhd_size v) ++ be 4 0x746b6864 ++ iso_tkhd_payload v.
Proof.
  intros H. rewrite iso_tkhd_payload_eq. unfold enc_tkhd, tkhd_payload.
  unfold tkhd_wf in H. split_andb.
  match goal with H : tkhd_version v <? 2 = true |- _ => apply N.ltb_lt in H; pose proof (tkhd_size_eq v H) as Hsz end.
  rewrite write_header_small by (rewrite Hsz; destruct (tkhd_version v =? 1); reflexivity).
  rewrite tkhd_code.
  rewrite write_header_ext_small by assumption.
  unfold wr_matrix.
  destruct (N.eqb_spec (tkhd_version v) 1) as [E1|E1].
  - enc_norm. split; [reflexivity|].
    rewrite <- !app_assoc. reflexivity.
  - destruct (N.eqb_spec (tkhd_version v) 0) as [E0|E0]; [|exfalso; clear -H E0 E1; lia].
    enc_norm. split; [reflexivity|].
    split_andb. rewrite !cast_u32_small by assumption.
    rewrite <- !app_assoc. reflexivity.
Qed.

Lemma tkhd_dec m v d l p post : tkhd_wf v = true -> p + tkhd_size v < 2^63 ->
  run (dec_tkhd m (tkhd_size v)) (mkStream d l (p + 8) (iso_tkhd_payload v ++ post))
  = (Ok v, mkStream d l (p + tkhd_size v) post).
Proof.
  intros H Hp. rewrite iso_tkhd_payload_eq. unfold dec_tkhd, tkhd_payload.
  unfold tkhd_wf, matrix_wf in H. split_andb.
  match goal with H : tkhd_version v <? 2 = true |- _ =>
     pose proof (ufit_version _ H) as Hv1; apply N.ltb_lt in H; pose proof (tkhd_size_eq v H) as Hsz end.
  rewrite <- !app_assoc.
  prog_norm. cbn [run s_pos].
  rewrite run_sub64_ok by (clear; unfold HEADER_SIZE, Tables.HEADER_SIZE; lia).
  do 2 rd_step.
  destruct (N.eqb_spec (tkhd_version v) 1) as [E1|E1].
  - cbv iota in *. split_andb. rewrite <- !app_assoc.
    do 10 rd_step. unfold rd_matrix. do 11 rd_step.
    rewrite run_add64_ok by (clear -Hsz Hp; unfold HEADER_SIZE, Tables.HEADER_SIZE, U64; lia).
    prog_norm.
    rewrite run_SeekTo_here by (clear -Hsz; unfold HEADER_SIZE, Tables.HEADER_SIZE; lia).
    cbn [run]. f_equal.
    + destruct v as [? ? ? ? ? ? ? ? ? [] ? ?]; reflexivity.
    + f_equal. clear -Hsz. lia.
  - destruct (N.eqb_spec (tkhd_version v) 0) as [E0|E0]; [|exfalso; clear -H E0 E1; lia].
    cbv iota in *. split_andb. rewrite <- !app_assoc.
    do 10 rd_step. unfold rd_matrix. do 11 rd_step.
    rewrite run_add64_ok by (clear -Hsz Hp; unfold HEADER_SIZE, Tables.HEADER_SIZE, U64; lia).
    prog_norm.
    rewrite run_SeekTo_here by (clear -Hsz; unfold HEADER_SIZE, Tables.HEADER_SIZE; lia).
    cbn [run]. f_equal.
    + destruct v as [? ? ? ? ? ? ? ? ? [] ? ?]; reflexivity.
    + f_equal. clear -Hsz. lia.
Qed.

Lemma tkhd_payload_len v : tkhd_wf v = true -> lenN (iso_tkhd_payload v) + 8 = tkhd_size v.
Proof.
  intros H. rewrite iso_tkhd_payload_eq. unfold tkhd_wf in H. split_andb.
  match goal with H : tkhd_version v <? 2 = true |- _ => apply N.ltb_lt in H; rewrite (tkhd_size_eq v H) end.
  unfold tkhd_payload. destruct (tkhd_version v =? 1);
    rewrite ?lenN_app, ?lenN_be; reflexivity.
Qed.

Lemma tkhd_appender v : tkhd_wf v = true -> tkhd_size v < U32 -> appender (enc_tkhd v).
Proof.
  intros H Hs. unfold enc_tkhd. rewrite write_header_small by exact Hs.
  unfold tkhd_wf in H. split_andb.
  rewrite write_header_ext_small by assumption. unfold wr_matrix.
  destruct (tkhd_version v =? 1); [|destruct (tkhd_version v =? 0)];
    cbn [wbind appender wr wr_u8 wr_u16 wr_u32 wr_u64 wr_u wr_i32 wr_i]; exact I.
Qed.

Theorem tkhd_roundtrip : leaf_roundtrip tkhd_wf tkhd_size 0x746b6864 enc_tkhd dec_tkhd iso_tkhd_payload.
Proof.
  intros v H Hs. destruct (tkhd_enc v H) as [H1 H2].
  split; [exact H1|]. split; [now apply tkhd_appender|]. split; [exact H2|].
  split; [now apply tkhd_payload_len|].
  intros m d l p post Hp. now apply tkhd_dec.
Qed.

Print Assumptions tkhd_roundtrip.
