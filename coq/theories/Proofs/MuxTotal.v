(** * Reachable-state invariant of the muxer model ([Model/Writer.v]) and what follows from it:
      totality (C17), lossless 32/64-bit transitions (C13), configuration and durations (C14). *)
From MP4 Require Import Writer IsoFile.
From Coq Require Import ZArith ZifyN ZifyNat ZifyBool Lia.
Ltac Zify.zify_post_hook ::= Z.div_mod_to_equations.
Open Scope list_scope.
Open Scope N_scope.

(** ** Small list facts *)

Lemma rev_eq_nil {A} (l : list A) : rev l = [] -> l = [].
Proof. intros H. rewrite <- (rev_involutive l), H. reflexivity. Qed.

Lemma rev_eq_cons {A} (l : list A) x t : rev l = x :: t -> l = rev t ++ [x].
Proof. intros H. rewrite <- (rev_involutive l), H. reflexivity. Qed.

Lemma sumN_nil : sumN [] = 0.  Proof. reflexivity. Qed.
Lemma sumN_cons a l : sumN (a :: l) = a + sumN l.  Proof. reflexivity. Qed.
Lemma sumN_one a : sumN [a] = a.  Proof. unfold sumN. cbn [fold_right]. lia. Qed.

(** ** Run-length lists *)

Definition rl_total {V} (l : list (N * V)) : N := sumN (map fst l).
Definition stts_dur (l : list (N * N)) : N := sumN (map (fun e => fst e * snd e) l).

Lemma rl_total_app {V} (a b : list (N * V)) : rl_total (a ++ b) = rl_total a + rl_total b.
Proof. unfold rl_total. now rewrite map_app, sumN_app. Qed.
Lemma stts_dur_app a b : stts_dur (a ++ b) = stts_dur a + stts_dur b.
Proof. unfold stts_dur. now rewrite map_app, sumN_app. Qed.
Lemma rl_total_one {V} c (v : V) : rl_total [(c, v)] = c.
Proof. unfold rl_total. cbn [map fst]. apply sumN_one. Qed.
Lemma stts_dur_one c v : stts_dur [(c, v)] = c * v.
Proof. unfold stts_dur. cbn [map fst snd]. apply sumN_one. Qed.

(** the two outcomes of [rl_push]: the last run is extended, or a new run of length 1 is appended *)
Lemma rl_push_spec m {V} (eqb : V -> V -> bool) site (l : list (N * V)) v :
  (forall a b, eqb a b = true -> a = b) ->
  rl_total l + 1 < U32 ->
  exists l', rl_push m eqb site l v = Ok l' /\
    ((exists before cnt, l = before ++ [(cnt, v)] /\ l' = before ++ [(cnt + 1, v)]) \/ l' = l ++ [(1, v)]).
Proof.
  intros Heq Hlt. unfold rl_push. destruct (rev l) as [|[cnt v'] before] eqn:E.
  - eexists; split; [reflexivity|now right].
  - apply rev_eq_cons in E. destruct (eqb v' v) eqn:Ev.
    + apply Heq in Ev. subst v'. rewrite add_w_ok.
      * cbn [res_bind]. eexists; split; [reflexivity|]. left. exists (rev before), cnt. now split.
      * rewrite E, rl_total_app, rl_total_one in Hlt. clear - Hlt. lia.
    + eexists; split; [reflexivity|now right].
Qed.

Lemma rl_push_total m {V} (eqb : V -> V -> bool) site (l : list (N * V)) v :
  (forall a b, eqb a b = true -> a = b) ->
  rl_total l + 1 < U32 ->
  exists l', rl_push m eqb site l v = Ok l' /\ rl_total l' = rl_total l + 1.
Proof.
  intros Heq Hlt. destruct (rl_push_spec m eqb site l v Heq Hlt) as (l' & E & [(b & c & -> & ->)| ->]);
    (eexists; split; [exact E|]); rewrite !rl_total_app, !rl_total_one; lia.
Qed.

Lemma rl_push_stts m site l v :
  rl_total l + 1 < U32 ->
  exists l', rl_push m N.eqb site l v = Ok l' /\ rl_total l' = rl_total l + 1 /\ stts_dur l' = stts_dur l + v.
Proof.
  intros Hlt.
  destruct (rl_push_spec m N.eqb site l v (fun a b H => proj1 (N.eqb_eq a b) H) Hlt)
    as (l' & E & [(b & c & -> & ->)| ->]);
    (eexists; split; [exact E|]); rewrite !rl_total_app, !rl_total_one, !stts_dur_app, !stts_dur_one; lia.
Qed.

(** ** Steps of [Mp4TrackWriter::write_sample] *)

Ltac prj := cbn [wt_stsc wt_stsz_size wt_stsz_count wt_stsz_sizes wt_co64 wt_stts wt_ctts wt_stss
                 wh_mdhd_duration wh_mdhd_version wh_tkhd_duration wh_tkhd_version
                 wc_sample_id wc_fixed_sample_size wc_is_fixed_sample_size wc_chunk_samples wc_chunk_duration
                 wc_chunk_buffer
                 tw_conf tw_track_id tw_samples_per_chunk tw_duration_per_chunk tw_t tw_h tw_c
                 res_bind fst snd] in *.

Lemma update_sample_sizes_ok m t c size :
  wt_stsz_count t + 1 < U32 ->
  exists sz szs fx isf,
    update_sample_sizes m t c size =
    Ok (mkWt (wt_stsc t) sz (wt_stsz_count t + 1) szs (wt_co64 t) (wt_stts t) (wt_ctts t) (wt_stss t),
        mkWc (wc_sample_id c) fx isf (wc_chunk_samples c) (wc_chunk_duration c) (wc_chunk_buffer c)).
Proof.
  intros H. unfold update_sample_sizes. rewrite add_w_ok by exact H.
  destruct (if wt_stsz_count t =? 0 then _ else _) as [[[sz szs] fx] isf].
  cbn [res_bind]. now exists sz, szs, fx, isf.
Qed.

Lemma update_sample_times_ok m t dur :
  rl_total (wt_stts t) + 1 < U32 ->
  exists st, update_sample_times m t dur =
    Ok (mkWt (wt_stsc t) (wt_stsz_size t) (wt_stsz_count t) (wt_stsz_sizes t) (wt_co64 t) st (wt_ctts t) (wt_stss t))
    /\ rl_total st = rl_total (wt_stts t) + 1 /\ stts_dur st = stts_dur (wt_stts t) + dur.
Proof.
  intros H. unfold update_sample_times.
  destruct (rl_push_stts m "stts entry.sample_count += 1" (wt_stts t) dur H) as (st & -> & H1 & H2).
  cbn [res_bind]. now exists st.
Qed.

Definition ctts_ok (ct : option (list (N * Z))) (n : N) : Prop :=
  match ct with Some es => rl_total es = n | None => True end.

Lemma update_rendering_offsets_ok m t sid off :
  1 <= sid -> sid < U32 -> ctts_ok (wt_ctts t) (sid - 1) ->
  exists ct, update_rendering_offsets m t sid off =
    Ok (mkWt (wt_stsc t) (wt_stsz_size t) (wt_stsz_count t) (wt_stsz_sizes t) (wt_co64 t) (wt_stts t) ct (wt_stss t))
    /\ ctts_ok ct sid.
Proof.
  intros H1 H2 Hc. unfold update_rendering_offsets.
  assert (Zeq : forall a b : Z, (a =? b)%Z = true -> a = b) by (intros a b; apply Z.eqb_eq).
  destruct (wt_ctts t) as [es|] eqn:Ect.
  - cbn [ctts_ok] in Hc.
    destruct (rl_push_total m Z.eqb "ctts entry.sample_count += 1" es off Zeq) as (es' & -> & E).
    { clear - Hc H1 H2. lia. }
    cbn [res_bind]. exists (Some es'). split; [reflexivity|]. cbn [ctts_ok]. clear - E Hc H1. lia.
  - destruct (off =? 0)%Z.
    + exists None. split; [|exact I]. destruct t. cbn in Ect. subst. reflexivity.
    + destruct (N.ltb_spec 1 sid) as [Hs|Hs].
      * rewrite sub_w_ok by (clear - H1; lia). cbn [res_bind].
        destruct (rl_push_total m Z.eqb "ctts entry.sample_count += 1" [(sid - 1, 0%Z)] off Zeq) as (es' & -> & E).
        { rewrite rl_total_one. clear - H1 H2. lia. }
        cbn [res_bind]. exists (Some es'). split; [reflexivity|]. cbn [ctts_ok].
        rewrite rl_total_one in E. clear - E H1. lia.
      * destruct (rl_push_total m Z.eqb "ctts entry.sample_count += 1" [] off Zeq) as (es' & -> & E).
        { cbv. reflexivity. }
        cbn [res_bind]. exists (Some es'). split; [reflexivity|]. cbn [ctts_ok].
        change (rl_total (@nil (N * Z))) with 0 in E. clear - E H1 Hs. lia.
Qed.

Lemma write_chunk_ok m t c pos :
  wc_chunk_samples c <= wc_sample_id c -> wc_sample_id c < U32MAX -> lenN (wt_co64 t) + 1 < U32 ->
  (wc_chunk_samples c = 0 /\ write_chunk m t c pos = Ok (t, c, None)) \/
  (wc_chunk_samples c <> 0 /\ exists sc,
    write_chunk m t c pos =
    Ok (mkWt sc (wt_stsz_size t) (wt_stsz_count t) (wt_stsz_sizes t) (wt_co64 t ++ [pos]) (wt_stts t)
             (wt_ctts t) (wt_stss t),
        mkWc (wc_sample_id c) (wc_fixed_sample_size c) (wc_is_fixed_sample_size c) 0 0 [],
        Some (pos, wc_chunk_buffer c))).
Proof.
  intros H1 H2 H3. unfold write_chunk. destruct (N.eqb_spec (wc_chunk_samples c) 0) as [E|E]; [left; now split|].
  right. split; [exact E|].
  assert (Ec : cast_w U32 (lenN (wt_co64 t)) = lenN (wt_co64 t)).
  { unfold cast_w. apply N.mod_small. clear - H3. lia. }
  rewrite Ec. rewrite add_w_ok by exact H3. cbn [res_bind].
  assert (Hnew : res_bind (sub_w m U32 "sample_id - chunk_samples" (wc_sample_id c) (wc_chunk_samples c)) (fun d =>
           res_bind (add_w m U32 "sample_id - chunk_samples + 1" d 1) (fun fs =>
           Ok (wt_stsc t ++ [mkStsc (lenN (wt_co64 t) + 1) (wc_chunk_samples c) 1 fs])))
          = Ok (wt_stsc t ++ [mkStsc (lenN (wt_co64 t) + 1) (wc_chunk_samples c) 1
                                    (wc_sample_id c - wc_chunk_samples c + 1)])).
  { rewrite sub_w_ok by exact H1. cbn [res_bind]. rewrite add_w_ok; [reflexivity|].
    unfold U32MAX, U32 in *. clear - H1 H2. lia. }
  destruct (rev (wt_stsc t)) as [|e r].
  - rewrite Hnew. cbn [res_bind]. eexists; reflexivity.
  - destruct (sc_samples_per_chunk e =? wc_chunk_samples c).
    + cbn [res_bind]. eexists; reflexivity.
    + rewrite Hnew. cbn [res_bind]. eexists; reflexivity.
Qed.

(** header invariant: versions and the track-header duration are functions of the media duration *)
Definition tkhd_of (md mts tts : N) : N := N.min (md * mts / tts) U64MAX.

Record hdr_inv (mts tts : N) (h : whdr) : Prop := mkHdrInv {
  hi_mv : wh_mdhd_version h = if U32MAX <? wh_mdhd_duration h then 1 else 0;
  hi_td : wh_tkhd_duration h = tkhd_of (wh_mdhd_duration h) mts tts;
  hi_tv : wh_tkhd_version h = if U32MAX <? wh_tkhd_duration h then 1 else 0 }.

Lemma tkhd_of_mono md md' mts tts : tts <> 0 -> md <= md' -> tkhd_of md mts tts <= tkhd_of md' mts tts.
Proof.
  intros Ht H. unfold tkhd_of.
  assert (md * mts / tts <= md' * mts / tts).
  { apply N.div_le_mono; [exact Ht|]. apply N.mul_le_mono_r. exact H. }
  lia.
Qed.

Lemma update_durations_ok m w h dur mts :
  tc_timescale (tw_conf w) <> 0 -> wh_mdhd_duration h + dur < U64 ->
  hdr_inv mts (tc_timescale (tw_conf w)) h ->
  exists h', update_durations m w h dur mts = Ok h' /\
    wh_mdhd_duration h' = wh_mdhd_duration h + dur /\
    hdr_inv mts (tc_timescale (tw_conf w)) h' /\
    wh_tkhd_duration h <= wh_tkhd_duration h'.
Proof.
  intros Ht Hd [Hmv Htd Htv]. unfold update_durations.
  rewrite add_w_ok by exact Hd. cbn [res_bind]. rewrite div_w_ok by exact Ht. cbn [res_bind].
  eexists; split; [reflexivity|]. prj.
  set (md := wh_mdhd_duration h) in *. set (md' := md + dur).
  set (q := md' * mts / tc_timescale (tw_conf w)).
  assert (Eq : (if q <? U64 then q else U64MAX) = tkhd_of md' mts (tc_timescale (tw_conf w))).
  { unfold tkhd_of. fold q. unfold U64MAX, U64. destruct (N.ltb_spec q 18446744073709551616); lia. }
  rewrite Eq.
  assert (Hmono : tkhd_of md mts (tc_timescale (tw_conf w)) <= tkhd_of md' mts (tc_timescale (tw_conf w))).
  { apply tkhd_of_mono; [exact Ht|]. unfold md'. lia. }
  split; [reflexivity|]. split; [|rewrite Htd; exact Hmono].
  constructor; prj.
  - rewrite Hmv. destruct (N.ltb_spec U32MAX md'), (N.ltb_spec U32MAX md); try reflexivity.
    unfold md' in *. lia.
  - reflexivity.
  - rewrite Htv, Htd.
    destruct (N.ltb_spec U32MAX (tkhd_of md' mts (tc_timescale (tw_conf w)))),
             (N.ltb_spec U32MAX (tkhd_of md mts (tc_timescale (tw_conf w)))); try reflexivity.
    lia.
Qed.

(** ** The track-writer invariant *)
Record tw_inv (mts : N) (w : twriter) : Prop := mkTwInv {
  ti_sid_lo : 1 <= wc_sample_id (tw_c w);
  ti_sid_hi : wc_sample_id (tw_c w) <= U32MAX;
  ti_ts : tc_timescale (tw_conf w) <> 0;
  ti_count : wt_stsz_count (tw_t w) = wc_sample_id (tw_c w) - 1;
  ti_chunks : wc_chunk_samples (tw_c w) + lenN (wt_co64 (tw_t w)) <= wc_sample_id (tw_c w) - 1;
  ti_stts : rl_total (wt_stts (tw_t w)) = wc_sample_id (tw_c w) - 1;
  ti_ctts : ctts_ok (wt_ctts (tw_t w)) (wc_sample_id (tw_c w) - 1);
  ti_md : wh_mdhd_duration (tw_h w) = stts_dur (wt_stts (tw_t w));
  ti_md_hi : wh_mdhd_duration (tw_h w) <= (wc_sample_id (tw_c w) - 1) * U32MAX;
  ti_hdr : hdr_inv mts (tc_timescale (tw_conf w)) (tw_h w) }.

Lemma tw_new_inv mts id c w : tw_new id c = Ok w -> tw_inv mts w /\ tw_conf w = c /\ tw_track_id w = id.
Proof.
  unfold tw_new. destruct (conf_check c) as [[]|e|s|] eqn:E; cbn [res_bind]; try discriminate.
  intros H. injection H as <-. split; [|split; reflexivity].
  assert (Hts : tc_timescale c <> 0).
  { unfold conf_check in E. destruct (N.eqb_spec (tc_timescale c) 0); [discriminate|assumption]. }
  constructor; prj; try (vm_compute; congruence); try exact Hts; try exact I; try reflexivity.
  constructor; prj; try reflexivity.
Qed.

Lemma tw_new_res id c : tw_new id c = Err EData \/ exists w, tw_new id c = Ok w.
Proof.
  unfold tw_new, conf_check. destruct (tc_timescale c =? 0); [now left|].
  destruct (tc_media c); try (right; eexists; reflexivity).
  destruct (lenN sps <? 4); [now left|]. destruct (65535 <? lenN sps); [now left|].
  destruct (65535 <? lenN pps); [now left|]. right; eexists; reflexivity.
Qed.

Definition wrote_ok (pos : N) (co co' : list N) (wrote : option (N * bytes)) : Prop :=
  match wrote with
  | Some (o, _) => o = pos /\ co' = co ++ [pos]
  | None => co' = co
  end.

Lemma tw_write_sample_ok m mts w pos s :
  tw_inv mts w -> ws_duration s < U32 ->
  (tw_write_sample m w pos s mts = Err EData) \/
  (exists w' wrote,
     tw_write_sample m w pos s mts = Ok (w', wrote, wh_tkhd_duration (tw_h w')) /\
     tw_inv mts w' /\ tw_conf w' = tw_conf w /\ tw_track_id w' = tw_track_id w /\
     wc_sample_id (tw_c w') = wc_sample_id (tw_c w) + 1 /\
     wh_tkhd_duration (tw_h w) <= wh_tkhd_duration (tw_h w') /\
     wh_mdhd_duration (tw_h w') = wh_mdhd_duration (tw_h w) + ws_duration s /\
     wrote_ok pos (wt_co64 (tw_t w)) (wt_co64 (tw_t w')) wrote).
Proof.
  intros [Hlo Hhi Hts Hcnt Hch Hst Hct Hmd Hmdhi Hhdr] Hdur. unfold tw_write_sample.
  destruct (U32MAX <? lenN (ws_bytes s)); [now left|].
  destruct (N.eqb_spec (wc_sample_id (tw_c w)) U32MAX) as [Hs|Hs]; [now left|]. right.
  assert (Hsid : wc_sample_id (tw_c w) < U32MAX) by (clear - Hhi Hs; lia).
  assert (HU : U32MAX + 1 = U32) by reflexivity.
  rewrite add_w_ok by (clear - Hch Hsid HU; lia). cbn [res_bind]. cbv zeta.
  match goal with |- context [update_sample_sizes m ?t ?c ?sz] =>
    destruct (update_sample_sizes_ok m t c sz) as (sz' & szs & fx & isf & ->) end.
  { rewrite Hcnt. clear - Hlo Hsid HU. lia. }
  prj.
  match goal with |- context [update_sample_times m ?t ?d] =>
    destruct (update_sample_times_ok m t d) as (st & -> & Hst1 & Hst2) end.
  { prj. rewrite Hst. clear - Hlo Hsid HU. lia. }
  prj.
  match goal with |- context [update_rendering_offsets m ?t ?i ?o] =>
    destruct (update_rendering_offsets_ok m t i o) as (ct & -> & Hct1) end.
  { exact Hlo. } { clear - Hsid HU. lia. } { prj. exact Hct. }
  prj. unfold update_sync_samples. prj.
  set (stss' := Some _).
  assert (Hwc : exists t5 c3 wrote,
    (if is_chunk_full w (mkWc (wc_sample_id (tw_c w)) fx isf (wc_chunk_samples (tw_c w) + 1)
                              (sat_add U32 (wc_chunk_duration (tw_c w)) (ws_duration s))
                              (wc_chunk_buffer (tw_c w) ++ ws_bytes s))
     then write_chunk m (mkWt (wt_stsc (tw_t w)) sz' (wt_stsz_count (tw_t w) + 1) szs (wt_co64 (tw_t w)) st ct stss')
            (mkWc (wc_sample_id (tw_c w)) fx isf (wc_chunk_samples (tw_c w) + 1)
                              (sat_add U32 (wc_chunk_duration (tw_c w)) (ws_duration s))
                              (wc_chunk_buffer (tw_c w) ++ ws_bytes s)) pos
     else Ok (mkWt (wt_stsc (tw_t w)) sz' (wt_stsz_count (tw_t w) + 1) szs (wt_co64 (tw_t w)) st ct stss',
              mkWc (wc_sample_id (tw_c w)) fx isf (wc_chunk_samples (tw_c w) + 1)
                              (sat_add U32 (wc_chunk_duration (tw_c w)) (ws_duration s))
                              (wc_chunk_buffer (tw_c w) ++ ws_bytes s), None)) = Ok (t5, c3, wrote) /\
    wc_sample_id c3 = wc_sample_id (tw_c w) /\
    wt_stsz_count t5 = wt_stsz_count (tw_t w) + 1 /\ wt_stts t5 = st /\ wt_ctts t5 = ct /\
    wc_chunk_samples c3 + lenN (wt_co64 t5) <= wc_sample_id (tw_c w) /\
    wrote_ok pos (wt_co64 (tw_t w)) (wt_co64 t5) wrote).
  { destruct (is_chunk_full w _).
    - match goal with |- context [write_chunk m ?t ?c pos] =>
        destruct (write_chunk_ok m t c pos) as [[H0 ->]|[H0 (sc & ->)]] end; prj.
      + clear - Hch Hlo. lia.
      + exact Hsid.
      + clear - Hch Hsid HU. lia.
      + clear - H0. lia.
      + do 3 eexists. split; [reflexivity|]. prj. rewrite lenN_app. change (lenN [pos]) with 1.
        repeat split; try reflexivity. clear - Hch Hlo. lia.
    - do 3 eexists. split; [reflexivity|]. prj. repeat split; try reflexivity. clear - Hch Hlo. lia. }
  destruct Hwc as (t5 & c3 & wrote & -> & Hc3 & Ht5c & Ht5s & Ht5ct & Ht5ch & Hwr).
  prj.
  destruct (update_durations_ok m w (tw_h w) (ws_duration s) mts Hts) as (h1 & -> & Hh1 & Hh1i & Hh1m).
  { unfold U32MAX, U32, U64 in *. clear - Hmdhi Hdur Hsid Hlo. nia. }
  { exact Hhdr. }
  prj. rewrite add_w_ok by (rewrite Hc3; clear - Hsid HU; lia). prj.
  match goal with |- exists w' wr, Ok (?a, ?b, _) = _ /\ _ => exists a, b end.
  split; [reflexivity|]. prj. rewrite Hc3.
  split; [|repeat split; try reflexivity; assumption].
  constructor; prj.
  - clear. lia.
  - clear - Hsid HU. lia.
  - exact Hts.
  - rewrite Ht5c, Hcnt. clear - Hlo. lia.
  - clear - Ht5ch. lia.
  - rewrite Ht5s, Hst1, Hst. clear - Hlo. lia.
  - rewrite Ht5ct. replace (wc_sample_id (tw_c w) + 1 - 1) with (wc_sample_id (tw_c w)) by (clear; lia). exact Hct1.
  - rewrite Hh1, Ht5s, Hst2, Hmd. reflexivity.
  - rewrite Hh1. unfold U32MAX, U32 in *. clear - Hmdhi Hdur Hlo. nia.
  - exact Hh1i.
Qed.

(** ** [Mp4TrackWriter::write_end] *)

(** the chunk-offset table of a finished track, whichever of the two boxes carries it *)
Definition tb_offsets (tb : tables) : list N :=
  match t_co64 tb with Some l => l | None => match t_stco tb with Some l => l | None => [] end end.

(** "stco xor co64, and co64 exactly when some offset needs it" *)
Definition offsets_form_ok (tb : tables) : Prop :=
  (exists l, t_stco tb = Some l /\ t_co64 tb = None /\ Forall (fun o => o <= U32MAX) l) \/
  (exists l, t_stco tb = None /\ t_co64 tb = Some l /\ Exists (fun o => U32MAX < o) l).

Lemma forallb_false_Exists {A} (f : A -> bool) l : forallb f l = false -> Exists (fun x => f x = false) l.
Proof.
  induction l as [|a l IH]; cbn [forallb]; [discriminate|].
  destruct (f a) eqn:E; cbn [andb]; intros H.
  - right. now apply IH.
  - now left.
Qed.

Lemma tw_write_end_ok m mts w pos :
  tw_inv mts w ->
  exists w' wrote tf,
    tw_write_end m w pos = Ok (w', wrote, tf) /\
    tf_conf tf = tw_conf w /\ tf_track_id tf = tw_track_id w /\ tf_hdr tf = tw_h w /\
    offsets_form_ok (tf_tables tf) /\
    wrote_ok pos (wt_co64 (tw_t w)) (tb_offsets (tf_tables tf)) wrote /\
    t_stts (tf_tables tf) = wt_stts (tw_t w) /\
    t_stsz_count (tf_tables tf) = wt_stsz_count (tw_t w).
Proof.
  intros [Hlo Hhi Hts Hcnt Hch Hst Hct Hmd Hmdhi Hhdr]. unfold tw_write_end.
  assert (HU : U32MAX + 1 = U32) by reflexivity.
  assert (Hwc : exists t1 c1 wrote, write_chunk m (tw_t w) (tw_c w) pos = Ok (t1, c1, wrote) /\
            wrote_ok pos (wt_co64 (tw_t w)) (wt_co64 t1) wrote /\ wt_stts t1 = wt_stts (tw_t w) /\
            wt_stsz_count t1 = wt_stsz_count (tw_t w)).
  { destruct (N.eqb_spec (wc_sample_id (tw_c w)) U32MAX) as [Emax|Emax].
    - (* the track is full: [write_chunk_ok] needs sample_id < U32MAX only for "+ 1", redo it here *)
      unfold write_chunk. destruct (N.eqb_spec (wc_chunk_samples (tw_c w)) 0) as [E|E].
      + do 3 eexists. split; [reflexivity|]. repeat split; reflexivity.
      + assert (Ec : cast_w U32 (lenN (wt_co64 (tw_t w))) = lenN (wt_co64 (tw_t w))).
        { unfold cast_w. apply N.mod_small. clear - Hch Hhi HU. lia. }
        rewrite Ec. rewrite add_w_ok by (clear - Hch Hhi Hlo HU; lia). cbn [res_bind].
        rewrite sub_w_ok by (clear - Hch Hlo; lia). cbn [res_bind].
        rewrite add_w_ok by (clear - Hch Hhi Hlo HU E; lia). cbn [res_bind].
        destruct (rev (wt_stsc (tw_t w))) as [|e r].
        * cbn [res_bind]. do 3 eexists. split; [reflexivity|]. prj. cbn [wrote_ok]. repeat split; reflexivity.
        * destruct (sc_samples_per_chunk e =? wc_chunk_samples (tw_c w)); cbn [res_bind];
            (do 3 eexists; split; [reflexivity|]; prj; cbn [wrote_ok]; repeat split; reflexivity).
    - destruct (write_chunk_ok m (tw_t w) (tw_c w) pos) as [[H0 ->]|[H0 (sc & ->)]].
      + clear - Hch Hlo. lia.
      + clear - Hhi Emax. lia.
      + clear - Hch Hhi Hlo HU. lia.
      + do 3 eexists. split; [reflexivity|]. repeat split; reflexivity.
      + do 3 eexists. split; [reflexivity|]. prj. cbn [wrote_ok]. repeat split; reflexivity. }
  destruct Hwc as (t1 & c1 & wrote & -> & Hwr & Hs1 & Hc1). cbn [res_bind].
  do 3 eexists. split; [reflexivity|]. cbn [tf_conf tf_track_id tf_hdr tf_tables].
  repeat split; try reflexivity.
  - unfold offsets_form_ok. cbn [t_stco t_co64].
    destruct (forallb (fun o => o <=? U32MAX) (wt_co64 t1)) eqn:Ef.
    + left. eexists; repeat split; try reflexivity.
      rewrite forallb_forall in Ef. apply Forall_forall. intros o Ho. apply N.leb_le. now apply Ef.
    + right. eexists; repeat split; try reflexivity.
      apply forallb_false_Exists in Ef. eapply Exists_impl; [|exact Ef].
      cbv beta. intros o Ho. apply N.leb_gt in Ho. exact Ho.
  - unfold tb_offsets. cbn [t_stco t_co64].
    destruct (forallb (fun o => o <=? U32MAX) (wt_co64 t1)); exact Hwr.
  - cbn [t_stts]. exact Hs1.
  - cbn [t_stsz_count]. exact Hc1.
Qed.

(** ** [replace_nth] *)

Lemma replace_nth_map {A B} (f : A -> B) : forall (l : list A) i x y,
  nth_error l i = Some y -> f x = f y -> map f (replace_nth l i x) = map f l.
Proof.
  induction l as [|a l IH]; intros [|i] x y H E; cbn in *; try discriminate.
  - injection H as ->. now rewrite E.
  - f_equal. eapply IH; eauto.
Qed.

Lemma replace_nth_Forall {A} (P : A -> Prop) : forall (l : list A) i x,
  Forall P l -> P x -> Forall P (replace_nth l i x).
Proof.
  induction l as [|a l IH]; intros [|i] x H Hx; cbn [replace_nth]; try constructor; inversion H; subst; auto.
Qed.

Lemma replace_nth_length {A} : forall (l : list A) i x, length (replace_nth l i x) = length l.
Proof. induction l as [|a l IH]; intros [|i] x; cbn [replace_nth length]; auto. Qed.

Lemma replace_nth_nth_error {A} : forall (l : list A) i j x y,
  nth_error l i = Some y ->
  nth_error (replace_nth l i x) j = if Nat.eqb i j then Some x else nth_error l j.
Proof.
  induction l as [|a l IH]; intros [|i] [|j] x y H; cbn in *; try discriminate; try reflexivity.
  eapply IH; eauto.
Qed.

Definition max_list (l : list N) : N := fold_right N.max 0 l.

Lemma max_list_replace {A} (f : A -> N) : forall (l : list A) i x y,
  nth_error l i = Some y -> f y <= f x ->
  max_list (map f (replace_nth l i x)) = N.max (max_list (map f l)) (f x).
Proof.
  induction l as [|a l IH]; intros [|i] x y H E; cbn in H; try discriminate.
  - injection H as ->. cbn [replace_nth map max_list fold_right]. fold (max_list (map f l)). lia.
  - cbn [replace_nth map max_list fold_right]. fold (max_list (map f l)).
    fold (max_list (map f (replace_nth l i x))). rewrite (IH _ _ _ H E). lia.
Qed.

Lemma max_list_app a b : max_list (a ++ b) = N.max (max_list a) (max_list b).
Proof.
  induction a as [|x a IH]; cbn [app max_list fold_right].
  - fold (max_list b). lia.
  - fold (max_list (a ++ b)). fold (max_list a). rewrite IH. lia.
Qed.

(** ** The [Mp4Writer] invariant *)

Definition ids_from (k n : nat) : list N := map N.of_nat (seq k n).

Definition tkhd_durs (ts : list twriter) : list N := map (fun t => wh_tkhd_duration (tw_h t)) ts.

Definition offs_in (lo hi : N) (t : twriter) : Prop := Forall (fun o => lo <= o <= hi) (wt_co64 (tw_t t)).

Record mw_inv (cfg : mp4_conf) (base : N) (w : mwriter) : Prop := mkMwInv {
  mi_base : mw_base w = base;
  mi_pos : mw_pos w = base + lenN (mw_out w);
  mi_out : exists payload, mw_out w = ftyp_bytes cfg ++ mdat_wide_headers ++ payload;
  mi_mdat : mw_mdat_pos w = base + lenN (ftyp_bytes cfg);
  mi_ts : mw_timescale w = mc_timescale cfg;
  mi_tracks : Forall (tw_inv (mc_timescale cfg)) (mw_tracks w);
  mi_ids : map tw_track_id (mw_tracks w) = ids_from 1 (length (mw_tracks w));
  mi_dur : mw_duration w = max_list (tkhd_durs (mw_tracks w));
  mi_offs : Forall (offs_in (mw_mdat_pos w + 16) (mw_pos w)) (mw_tracks w) }.

Lemma lenN_mdat_wide_headers : lenN mdat_wide_headers = 16.
Proof. reflexivity. Qed.

Lemma mw_write_start_inv base cfg : mw_inv cfg base (mw_write_start base cfg).
Proof.
  unfold mw_write_start. constructor; cbn [mw_base mw_pos mw_out mw_mdat_pos mw_timescale mw_tracks mw_duration];
    try reflexivity; try constructor.
  exists []. now rewrite app_nil_r.
Qed.

(** position of the first payload byte *)
Lemma mw_inv_payload_start cfg base w : mw_inv cfg base w -> mw_mdat_pos w + 16 <= mw_pos w.
Proof.
  intros I. destruct (mi_out _ _ _ I) as (p & E).
  rewrite (mi_pos _ _ _ I), (mi_mdat _ _ _ I), E, !lenN_app, lenN_mdat_wide_headers. lia.
Qed.

Definition mux_step (m : mode) (w : mwriter) (op : mux_op) : res mwriter :=
  match op with
  | OpAddTrack c => mw_add_track m w c
  | OpWrite id s => mw_write_sample m w id s
  end.

Lemma conf_check_res c : conf_check c = Ok tt \/ conf_check c = Err EData.
Proof.
  unfold conf_check. destruct (tc_timescale c =? 0); [now right|].
  destruct (tc_media c); try now left.
  destruct (lenN sps <? 4); [now right|]. destruct (65535 <? lenN sps); [now right|].
  destruct (65535 <? lenN pps); [now right|]. now left.
Qed.

Lemma ids_from_S k n : ids_from k (S n) = ids_from k n ++ [N.of_nat (k + n)].
Proof. unfold ids_from. rewrite seq_S, map_app. reflexivity. Qed.

Lemma mw_add_track_ok m cfg base w c :
  mw_inv cfg base w -> lenN (mw_tracks w) + 1 < U32 ->
  (conf_check c = Err EData /\ mw_add_track m w c = Err EData) \/
  (conf_check c = Ok tt /\ exists w' t,
     mw_add_track m w c = Ok w' /\ mw_inv cfg base w' /\
     mw_tracks w' = mw_tracks w ++ [t] /\ tw_conf t = c /\ wh_mdhd_duration (tw_h t) = 0 /\
     mw_out w' = mw_out w).
Proof.
  intros I Hn. unfold mw_add_track.
  assert (Ec : cast_w U32 (lenN (mw_tracks w)) = lenN (mw_tracks w)).
  { unfold cast_w. apply N.mod_small. clear - Hn. lia. }
  rewrite Ec, add_w_ok by exact Hn. cbn [res_bind].
  destruct (conf_check_res c) as [E|E]; [right|left]; (split; [exact E|]).
  - destruct (tw_new (lenN (mw_tracks w) + 1) c) as [t| | |] eqn:Et;
      try (unfold tw_new in Et; rewrite E in Et; discriminate).
    cbn [res_bind]. destruct (tw_new_inv (mc_timescale cfg) _ _ _ Et) as (It & Hc & Hid).
    do 2 eexists. split; [reflexivity|]. cbn [mw_tracks mw_out].
    split; [|repeat split; try reflexivity; try exact Hc].
    + destruct I as [Ib Ip Io Im Its Itr Iid Idur Ioff].
      constructor; cbn [mw_base mw_pos mw_out mw_mdat_pos mw_timescale mw_tracks mw_duration]; try assumption.
      * apply Forall_app. split; [assumption|]. constructor; [exact It|constructor].
      * rewrite map_app, app_length, Iid. cbn [map length]. rewrite Nat.add_1_r, ids_from_S. f_equal.
        rewrite Hid. f_equal. unfold lenN. lia.
      * unfold tkhd_durs in *. rewrite map_app, max_list_app, <- Idur. cbn [map max_list fold_right].
        unfold tw_new in Et. rewrite E in Et. cbn [res_bind] in Et. injection Et as <-. prj. lia.
      * apply Forall_app. split; [assumption|]. constructor; [|constructor].
        unfold tw_new in Et. rewrite E in Et. cbn [res_bind] in Et. injection Et as <-. unfold offs_in. prj. constructor.
    + unfold tw_new in Et. rewrite E in Et. cbn [res_bind] in Et. injection Et as <-. reflexivity.
  - unfold tw_new. rewrite E. reflexivity.
Qed.

Lemma offs_in_mono lo hi hi' t : hi <= hi' -> offs_in lo hi t -> offs_in lo hi' t.
Proof.
  intros H. unfold offs_in. apply Forall_impl. intros o Ho. lia.
Qed.

(** what [emit] does to the stream *)
Lemma emit_fields w tr wrote d :
  mw_base (emit w tr wrote d) = mw_base w /\ mw_tracks (emit w tr wrote d) = tr /\
  mw_mdat_pos (emit w tr wrote d) = mw_mdat_pos w /\ mw_timescale (emit w tr wrote d) = mw_timescale w /\
  mw_duration (emit w tr wrote d) = d /\
  exists b, mw_out (emit w tr wrote d) = mw_out w ++ b /\ mw_pos (emit w tr wrote d) = mw_pos w + lenN b /\
            b = match wrote with Some (_, b) => b | None => [] end.
Proof.
  unfold emit. destruct wrote as [[o b]|]; cbn [mw_base mw_tracks mw_mdat_pos mw_timescale mw_duration mw_out mw_pos];
    repeat split; try reflexivity.
  - exists b. repeat split; reflexivity.
  - exists []. rewrite app_nil_r, lenN_nil, N.add_0_r. repeat split; reflexivity.
Qed.

Lemma emit_inv cfg base w tr wrote d :
  mw_inv cfg base w ->
  Forall (tw_inv (mc_timescale cfg)) tr ->
  map tw_track_id tr = ids_from 1 (length tr) ->
  d = max_list (tkhd_durs tr) ->
  Forall (offs_in (mw_mdat_pos w + 16) (mw_pos w)) tr ->
  mw_inv cfg base (emit w tr wrote d).
Proof.
  intros [Ib Ip [pl Io] Im Its Itr Iid Idur Ioff] Htr Hid Hd Hoff.
  destruct (emit_fields w tr wrote d) as (E1 & E2 & E3 & E4 & E5 & b & E6 & E7 & _).
  constructor; rewrite ?E1, ?E2, ?E3, ?E4, ?E5, ?E6, ?E7; try assumption.
  - rewrite lenN_app, Ip. lia.
  - exists (pl ++ b). rewrite Io, <- !app_assoc. reflexivity.
  - eapply Forall_impl; [|exact Hoff]. intros t. apply offs_in_mono. lia.
Qed.

Lemma mw_write_sample_ok m cfg base w id s :
  mw_inv cfg base w -> ws_duration s < U32 ->
  mw_write_sample m w id s = Err EData \/
  exists w' t t',
    mw_write_sample m w id s = Ok w' /\ mw_inv cfg base w' /\ id <> 0 /\
    nth_error (mw_tracks w) (N.to_nat (id - 1)) = Some t /\
    mw_tracks w' = replace_nth (mw_tracks w) (N.to_nat (id - 1)) t' /\
    tw_conf t' = tw_conf t /\
    wh_mdhd_duration (tw_h t') = wh_mdhd_duration (tw_h t) + ws_duration s.
Proof.
  intros I Hd. unfold mw_write_sample.
  destruct (N.eqb_spec id 0) as [E0|E0]; [now left|].
  rewrite nthN_nth_error. destruct (nth_error (mw_tracks w) (N.to_nat (id - 1))) as [t|] eqn:En; [|now left].
  assert (It : tw_inv (mc_timescale cfg) t).
  { pose proof (mi_tracks _ _ _ I) as F. rewrite Forall_forall in F. apply F. eapply nth_error_In; eauto. }
  rewrite (mi_ts _ _ _ I).
  destruct (tw_write_sample_ok m (mc_timescale cfg) t (mw_pos w) s It Hd)
    as [->|(t' & wrote & -> & It' & Hc & Hid & Hsid & Hmono & Hmd & Hwr)]; [now left|].
  right. cbn [res_bind]. eexists. exists t, t'. split; [reflexivity|].
  split; [|repeat split; try eassumption; try reflexivity].
  2:{ destruct (emit_fields w (replace_nth (mw_tracks w) (N.to_nat (id - 1)) t') wrote
         (if mw_duration w <? wh_tkhd_duration (tw_h t') then wh_tkhd_duration (tw_h t') else mw_duration w))
        as (_ & E2 & _). exact E2. }
  pose proof (mw_inv_payload_start _ _ _ I) as Hps.
  assert (Hoff' : Forall (offs_in (mw_mdat_pos w + 16) (mw_pos w)) (replace_nth (mw_tracks w) (N.to_nat (id - 1)) t')).
  { apply replace_nth_Forall; [exact (mi_offs _ _ _ I)|].
    assert (Ot : offs_in (mw_mdat_pos w + 16) (mw_pos w) t).
    { pose proof (mi_offs _ _ _ I) as F. rewrite Forall_forall in F. apply F. eapply nth_error_In; eauto. }
    unfold offs_in in *. unfold wrote_ok in Hwr. destruct wrote as [[o b]|].
    - destruct Hwr as [_ ->]. apply Forall_app. split; [exact Ot|]. constructor; [|constructor]. lia.
    - rewrite Hwr. exact Ot. }
  apply emit_inv; try assumption.
  - apply replace_nth_Forall; [exact (mi_tracks _ _ _ I)|exact It'].
  - rewrite replace_nth_length. rewrite (replace_nth_map tw_track_id _ _ _ _ En Hid). exact (mi_ids _ _ _ I).
  - unfold tkhd_durs. rewrite (max_list_replace (fun t => wh_tkhd_duration (tw_h t)) _ _ _ _ En Hmono).
    fold (tkhd_durs (mw_tracks w)). rewrite <- (mi_dur _ _ _ I).
    destruct (N.ltb_spec (mw_duration w) (wh_tkhd_duration (tw_h t'))); lia.
Qed.

(** ** [Mp4Writer::write_end] *)

(** relation between a track writer (before [write_end]) and the finished track *)
Record tf_of (mts lo hi : N) (t : twriter) (tf : tfinal) : Prop := mkTfOf {
  to_conf : tf_conf tf = tw_conf t;
  to_id : tf_track_id tf = tw_track_id t;
  to_hdr : tf_hdr tf = tw_h t;
  to_form : offsets_form_ok (tf_tables tf);
  to_offs : Forall (fun o => lo <= o <= hi) (tb_offsets (tf_tables tf));
  to_stts : t_stts (tf_tables tf) = wt_stts (tw_t t);
  to_md : wh_mdhd_duration (tw_h t) = stts_dur (wt_stts (tw_t t));
  to_hinv : hdr_inv mts (tc_timescale (tw_conf t)) (tw_h t);
  to_ts : tc_timescale (tw_conf t) <> 0;
  to_md_hi : wh_mdhd_duration (tw_h t) < U64 }.

Lemma tf_of_mono mts lo hi hi' t tf : hi <= hi' -> tf_of mts lo hi t tf -> tf_of mts lo hi' t tf.
Proof.
  intros H [? ? ? ? Ho ? ? ? ? ?]. constructor; try assumption.
  eapply Forall_impl; [|exact Ho]. intros o Hoo. cbv beta in Hoo. lia.
Qed.

Lemma end_tracks_ok m cfg base : forall ts w acc,
  mw_inv cfg base w ->
  Forall (tw_inv (mc_timescale cfg)) ts ->
  Forall (offs_in (mw_mdat_pos w + 16) (mw_pos w)) ts ->
  exists w1 tfs,
    end_tracks m ts w acc = Ok (w1, acc ++ tfs) /\ mw_inv cfg base w1 /\
    mw_tracks w1 = mw_tracks w /\ mw_duration w1 = mw_duration w /\ mw_pos w <= mw_pos w1 /\
    Forall2 (tf_of (mc_timescale cfg) (mw_mdat_pos w + 16) (mw_pos w1)) ts tfs.
Proof.
  induction ts as [|t ts IH]; intros w acc I Hts Hoff.
  - exists w, []. cbn [end_tracks]. rewrite app_nil_r.
    split; [reflexivity|]. split; [exact I|]. split; [reflexivity|]. split; [reflexivity|]. split; [lia|constructor].
  - cbn [end_tracks]. inversion Hts as [|? ? It Hts']; subst. inversion Hoff as [|? ? Ot Hoff']; subst.
    destruct (tw_write_end_ok m (mc_timescale cfg) t (mw_pos w) It)
      as (t' & wrote & tf & -> & Hc & Hid & Hh & Hform & Hwr & Hstts & _).
    cbn [res_bind].
    set (w2 := emit w (mw_tracks w) wrote (mw_duration w)).
    assert (I2 : mw_inv cfg base w2).
    { apply emit_inv; try assumption.
      - exact (mi_tracks _ _ _ I).
      - exact (mi_ids _ _ _ I).
      - exact (mi_dur _ _ _ I).
      - exact (mi_offs _ _ _ I). }
    destruct (emit_fields w (mw_tracks w) wrote (mw_duration w)) as (E1 & E2 & E3 & E4 & E5 & b & E6 & E7 & _).
    fold w2 in E1, E2, E3, E4, E5, E6, E7.
    destruct (IH w2 (acc ++ [tf]) I2 Hts') as (w1 & tfs & E & I1 & Htr & Hdur & Hpos & F2).
    { rewrite E3, E7. eapply Forall_impl; [|exact Hoff']. intros x. apply offs_in_mono. lia. }
    exists w1, (tf :: tfs). rewrite E, <- app_assoc. cbn [app].
    split; [reflexivity|]. split; [exact I1|]. split; [now rewrite Htr|]. split; [now rewrite Hdur|].
    split; [rewrite E7 in Hpos; lia|].
    constructor; [|rewrite E3 in F2; exact F2].
    pose proof (mw_inv_payload_start _ _ _ I) as Hps.
    destruct It as [Hlo Hhi Hts0 Hcnt Hch Hst Hct Hmd Hmdhi Hhdr].
    constructor; try assumption.
    2:{ unfold U32MAX, U32, U64 in *. clear - Hmdhi Hhi Hlo. nia. }
    unfold wrote_ok in Hwr. unfold offs_in in Ot. rewrite E7 in Hpos. destruct wrote as [[o bb]|].
    + destruct Hwr as [_ ->]. apply Forall_app. split.
      * eapply Forall_impl; [|exact Ot]. intros x Hx. cbv beta in Hx. lia.
      * constructor; [|constructor]. lia.
    + rewrite Hwr. eapply Forall_impl; [|exact Ot]. intros x Hx. cbv beta in Hx. lia.
Qed.

Lemma firstn_lenN_app {A} (a b : list A) : firstn (N.to_nat (lenN a)) (a ++ b) = a.
Proof.
  replace (N.to_nat (lenN a)) with (length a + 0)%nat by (unfold lenN; lia).
  rewrite firstn_app_2. cbn [firstn]. apply app_nil_r.
Qed.

Lemma write_at_mid off l (a b c : bytes) :
  lenN a = off -> lenN l = lenN b -> write_at off l (a ++ b ++ c) = a ++ l ++ c.
Proof.
  intros <- Hl. unfold write_at.
  destruct (N.leb_spec (lenN a) (lenN (a ++ b ++ c))) as [_|H]; [|rewrite lenN_app in H; lia].
  rewrite firstn_lenN_app. do 2 f_equal.
  rewrite Hl, N.add_comm, <- dropN_dropN, dropN_app, dropN_app. reflexivity.
Qed.

(** the mdat box header (with the [wide] placeholder it may overwrite) as [write_end] leaves it *)
Definition mdat_header (size : N) : bytes :=
  if U32MAX <? size then be 4 1 ++ be 4 0x6d646174 ++ be 8 size
  else be 4 size ++ be 4 0x6d646174 ++ be 4 8 ++ be 4 0x77696465.

Lemma lenN_mdat_header size : lenN (mdat_header size) = 16.
Proof. unfold mdat_header. destruct (U32MAX <? size); rewrite !lenN_app, !lenN_be; reflexivity. Qed.

Record mf_ok (cfg : mp4_conf) (base : N) (w : mwriter) (f : mfinal) : Prop := mkMfOk {
  fo_base : mf_base f = base;
  fo_mdat_pos : mf_mdat_pos f = base + lenN (ftyp_bytes cfg);
  fo_out : exists payload, mf_out f = ftyp_bytes cfg ++ mdat_header (mf_mdat_size f) ++ payload /\
                           mf_mdat_size f = 16 + lenN payload;
  fo_size : mf_mdat_size f = mf_base f + lenN (mf_out f) - mf_mdat_pos f;
  fo_ts : mf_mvhd_timescale f = mc_timescale cfg;
  fo_dur : mf_mvhd_duration f = max_list (tkhd_durs (mw_tracks w));
  fo_ver : mf_mvhd_version f = if U32MAX <? mf_mvhd_duration f then 1 else 0;
  fo_tracks : Forall2 (tf_of (mc_timescale cfg) (mf_mdat_pos f + 16) (mf_base f + lenN (mf_out f)))
                      (mw_tracks w) (mf_tracks f);
  fo_ids : map tw_track_id (mw_tracks w) = ids_from 1 (length (mw_tracks w)) }.

Lemma mw_write_end_ok m cfg base w :
  mw_inv cfg base w -> base + lenN (ftyp_bytes cfg) + 8 < U64 ->
  exists f, mw_write_end m w = Ok f /\ mf_ok cfg base w f.
Proof.
  intros I Hb. unfold mw_write_end.
  destruct (end_tracks_ok m cfg base (mw_tracks w) w [] I (mi_tracks _ _ _ I) (mi_offs _ _ _ I))
    as (w1 & tfs & -> & I1 & Htr & Hdur & Hpos & F2).
  cbn [res_bind app].
  pose proof (mw_inv_payload_start _ _ _ I1) as Hps.
  rewrite sub_w_ok by (clear - Hps; lia). cbn [res_bind].
  destruct I1 as [Ib Ip [pl Io] Im Its Itr Iid Idur Ioff].
  assert (Hoff : mw_mdat_pos w1 - mw_base w1 = lenN (ftyp_bytes cfg)) by (rewrite Im, Ib; clear; lia).
  assert (Hsz : mw_pos w1 - mw_mdat_pos w1 = 16 + lenN pl).
  { rewrite Ip, Im, Io, !lenN_app, lenN_mdat_wide_headers. clear. lia. }
  rewrite Hoff, Hsz.
  assert (Hout : exists out,
    (if U32MAX <? 16 + lenN pl
     then res_bind (add_w m U64 "mdat_pos + 8" (mw_mdat_pos w1) 8) (fun _ =>
          Ok (patch (patch (mw_out w1) (lenN (ftyp_bytes cfg)) (be 4 1)) (lenN (ftyp_bytes cfg) + 8) (be 8 (16 + lenN pl))))
     else Ok (patch (mw_out w1) (lenN (ftyp_bytes cfg)) (be 4 (cast_w U32 (16 + lenN pl))))) = Ok out /\
    out = ftyp_bytes cfg ++ mdat_header (16 + lenN pl) ++ pl).
  { unfold mdat_header, patch. rewrite Io. unfold mdat_wide_headers.
    destruct (N.ltb_spec U32MAX (16 + lenN pl)) as [Hbig|Hsmall].
    - rewrite add_w_ok by (rewrite Im; exact Hb). cbn [res_bind]. eexists. split; [reflexivity|].
      rewrite <- !app_assoc.
      rewrite (write_at_mid (lenN (ftyp_bytes cfg)) (be 4 1) (ftyp_bytes cfg) (be 4 8)); [|reflexivity|now rewrite !lenN_be].
      replace (ftyp_bytes cfg ++ be 4 1 ++ be 4 1835295092 ++ be 4 8 ++ be 4 2003395685 ++ pl)
        with ((ftyp_bytes cfg ++ be 4 1 ++ be 4 1835295092) ++ (be 4 8 ++ be 4 2003395685) ++ pl)
        by (rewrite <- !app_assoc; reflexivity).
      rewrite (write_at_mid (lenN (ftyp_bytes cfg) + 8) (be 8 (16 + lenN pl))).
      + rewrite <- !app_assoc. reflexivity.
      + rewrite !lenN_app, !lenN_be. lia.
      + rewrite !lenN_app, !lenN_be. reflexivity.
    - eexists. split; [reflexivity|].
      assert (Ec : cast_w U32 (16 + lenN pl) = 16 + lenN pl).
      { unfold cast_w. apply N.mod_small. unfold U32MAX in Hsmall. clear - Hsmall. lia. }
      rewrite Ec, <- !app_assoc.
      rewrite (write_at_mid (lenN (ftyp_bytes cfg)) (be 4 (16 + lenN pl)) (ftyp_bytes cfg) (be 4 8));
        [reflexivity|reflexivity|now rewrite !lenN_be]. }
  destruct Hout as (out & -> & Eout). cbn [res_bind]. eexists. split; [reflexivity|].
  assert (Hlen : lenN out = lenN (ftyp_bytes cfg) + 16 + lenN pl).
  { rewrite Eout, !lenN_app, lenN_mdat_header. clear. lia. }
  constructor; cbn [mf_base mf_out mf_mdat_pos mf_mdat_size mf_tracks mf_mvhd_timescale mf_mvhd_duration mf_mvhd_version];
    try assumption; try reflexivity.
  - exists pl. split; [exact Eout|reflexivity].
  - rewrite Hlen, Ib, Im. clear. lia.
  - rewrite Idur, Htr. reflexivity.
  - rewrite Hlen, Ib. rewrite <- Htr.
    replace (mw_mdat_pos w1) with (mw_mdat_pos w).
    2:{ rewrite Im. exact (mi_mdat _ _ _ I). }
    replace (base + (lenN (ftyp_bytes cfg) + 16 + lenN pl)) with (mw_pos w1); [rewrite Htr; exact F2|].
    rewrite Ip, Io, !lenN_app, lenN_mdat_wide_headers. clear. lia.
  - exact (mi_ids _ _ _ I).
Qed.

(** ** Histories *)

(** the only "typing" a history needs: [Mp4Sample::duration] is a [u32] *)
Definition op_typed (op : mux_op) : Prop :=
  match op with OpWrite _ s => ws_duration s < U32 | OpAddTrack _ => True end.

(** the configurations [add_track] accepts, in call order *)
Definition added_confs (ops : list mux_op) : list track_conf :=
  flat_map (fun op => match op with
                      | OpAddTrack c => if is_ok (conf_check c) then [c] else []
                      | OpWrite _ _ => []
                      end) ops.

(** sum of the durations of the accepted [write_sample] calls for track [id] *)
Fixpoint dur_written (id : N) (ops : list mux_op) (cls : list rclass) : N :=
  match ops, cls with
  | OpWrite i s :: ops', COk :: cls' => (if i =? id then ws_duration s else 0) + dur_written id ops' cls'
  | _ :: ops', _ :: cls' => dur_written id ops' cls'
  | _, _ => 0
  end.

(** outcome class of each call: [add_track] succeeds exactly when the configuration passes [conf_check];
    [write_sample] succeeds or returns an error *)
Definition cls_ok (op : mux_op) (c : rclass) : Prop :=
  match op with
  | OpAddTrack tc => c = if is_ok (conf_check tc) then COk else CData
  | OpWrite _ _ => c = COk \/ c = CData
  end.

Definition mdhd_at (ts : list twriter) (i : nat) : N :=
  match nth_error ts i with Some t => wh_mdhd_duration (tw_h t) | None => 0 end.

Lemma mdhd_at_snoc ts t i : wh_mdhd_duration (tw_h t) = 0 -> mdhd_at (ts ++ [t]) i = mdhd_at ts i.
Proof.
  intros H. unfold mdhd_at. destruct (Nat.ltb_spec i (length ts)) as [Hi|Hi].
  - now rewrite nth_error_app1.
  - rewrite nth_error_app2 by exact Hi. rewrite (proj2 (nth_error_None ts i) Hi).
    destruct (i - length ts)%nat as [|k]; cbn [nth_error]; [exact H|]. now destruct k.
Qed.

Lemma run_ops_ok m cfg base : forall ops w acc,
  mw_inv cfg base w -> Forall op_typed ops ->
  lenN (mw_tracks w) + lenN (added_confs ops) < U32MAX ->
  exists w' cls,
    run_ops m w ops acc = Ok (w', acc ++ cls) /\ mw_inv cfg base w' /\ Forall2 cls_ok ops cls /\
    map tw_conf (mw_tracks w') = map tw_conf (mw_tracks w) ++ added_confs ops /\
    forall i, mdhd_at (mw_tracks w') i = mdhd_at (mw_tracks w) i + dur_written (N.of_nat i + 1) ops cls.
Proof.
  induction ops as [|op rest IH]; intros w acc I Hty Hn.
  - exists w, []. cbn [run_ops added_confs flat_map dur_written]. rewrite !app_nil_r.
    split; [reflexivity|]. split; [exact I|]. split; [constructor|]. split; [reflexivity|]. intros i. lia.
  - inversion Hty as [|? ? Hop Hty']; subst. destruct op as [c|id s].
    + cbn [run_ops]. change (added_confs (OpAddTrack c :: rest))
        with ((if is_ok (conf_check c) then [c] else []) ++ added_confs rest) in *.
      destruct (conf_check_res c) as [Ec|Ec].
      * rewrite Ec in *. cbn [is_ok] in *. rewrite lenN_app in Hn. change (lenN [c]) with 1 in Hn.
        destruct (mw_add_track_ok m cfg base w c I) as [[Ec' _]|(_ & w1 & t & -> & I1 & Htr & Hc & Hmd & _)].
        { unfold U32MAX, U32 in *. clear - Hn. lia. }
        { rewrite Ec in Ec'. discriminate. }
        destruct (IH w1 (acc ++ [COk]) I1 Hty') as (w' & cls & E & I' & Hlen & Hconfs & Hdur).
        { rewrite Htr, lenN_app. change (lenN [t]) with 1. clear - Hn. lia. }
        exists w', (COk :: cls). rewrite E, <- app_assoc. cbn [app].
        split; [reflexivity|]. split; [exact I'|].
        split; [constructor; [cbn [cls_ok]; rewrite Ec; reflexivity|exact Hlen]|].
        split.
        { rewrite Hconfs, Htr, map_app, <- app_assoc. cbn [map app]. now rewrite Hc. }
        intros i. rewrite Hdur, Htr, (mdhd_at_snoc _ _ _ Hmd). reflexivity.
      * rewrite Ec in *. cbn [is_ok app] in *.
        destruct (mw_add_track_ok m cfg base w c I) as [[_ ->]|(Ec' & _)].
        { unfold U32MAX, U32 in *. clear - Hn. lia. }
        2:{ rewrite Ec in Ec'. discriminate. }
        destruct (IH w (acc ++ [class_of (@Err unit EData)]) I Hty' Hn) as (w' & cls & E & I' & Hlen & Hconfs & Hdur).
        exists w', (CData :: cls). rewrite E, <- app_assoc. cbn [app class_of].
        split; [reflexivity|]. split; [exact I'|].
        split; [constructor; [cbn [cls_ok]; rewrite Ec; reflexivity|exact Hlen]|].
        split; [exact Hconfs|]. intros i. rewrite Hdur. reflexivity.
    + cbn [run_ops]. change (added_confs (OpWrite id s :: rest)) with (added_confs rest) in *.
      cbn [op_typed] in Hop.
      destruct (mw_write_sample_ok m cfg base w id s I Hop)
        as [->|(w1 & t & t' & -> & I1 & Hid & Hnth & Htr & Hc & Hmd)].
      * destruct (IH w (acc ++ [class_of (@Err unit EData)]) I Hty' Hn) as (w' & cls & E & I' & Hlen & Hconfs & Hdur).
        exists w', (CData :: cls). rewrite E, <- app_assoc. cbn [app class_of].
        split; [reflexivity|]. split; [exact I'|].
        split; [constructor; [cbn [cls_ok]; now right|exact Hlen]|].
        split; [exact Hconfs|]. intros i. rewrite Hdur. reflexivity.
      * assert (Hlen1 : length (mw_tracks w1) = length (mw_tracks w)) by (rewrite Htr; apply replace_nth_length).
        destruct (IH w1 (acc ++ [COk]) I1 Hty') as (w' & cls & E & I' & Hlen & Hconfs & Hdur).
        { unfold lenN in *. rewrite Hlen1. exact Hn. }
        exists w', (COk :: cls). rewrite E, <- app_assoc. cbn [app].
        split; [reflexivity|]. split; [exact I'|].
        split; [constructor; [cbn [cls_ok]; now left|exact Hlen]|].
        split.
        { rewrite Hconfs, Htr. f_equal. exact (replace_nth_map tw_conf _ _ _ _ Hnth Hc). }
        intros i. rewrite Hdur. cbn [dur_written]. unfold mdhd_at. rewrite Htr.
        rewrite (replace_nth_nth_error _ _ i t' _ Hnth).
        destruct (Nat.eqb_spec (N.to_nat (id - 1)) i) as [Ei|Ei].
        -- subst i. rewrite Hnth, Hmd.
           destruct (N.eqb_spec id (N.of_nat (N.to_nat (id - 1)) + 1)) as [_|Hne]; [lia|].
           exfalso. apply Hne. clear - Hid. lia.
        -- destruct (N.eqb_spec id (N.of_nat i + 1)) as [He|_]; [|lia].
           exfalso. apply Ei. clear - He. lia.
Qed.

(** ** The whole run *)

Record mux_pre (base : N) (cfg : mp4_conf) (ops : list mux_op) : Prop := mkMuxPre {
  mp_typed : Forall op_typed ops;                    (* sample durations are u32 values *)
  mp_tracks : lenN (added_confs ops) < U32MAX;       (* fewer than 2^32-1 tracks *)
  mp_pos : base + lenN (ftyp_bytes cfg) + 8 < U64    (* the mdat header lies below 2^64 *) }.

Lemma Forall2_map_eq {A B C} (f : B -> C) (g : A -> C) (R : A -> B -> Prop) l1 l2 :
  (forall a b, R a b -> f b = g a) -> Forall2 R l1 l2 -> map f l2 = map g l1.
Proof. intros H F. induction F; cbn [map]; [reflexivity|]. f_equal; auto. Qed.

Lemma Forall2_nth_r {A B} (R : A -> B -> Prop) l1 l2 : Forall2 R l1 l2 ->
  forall i b, nth_error l2 i = Some b -> exists a, nth_error l1 i = Some a /\ R a b.
Proof.
  intros F. induction F as [|a b l1 l2 Hab F IH]; intros [|i] y H; cbn [nth_error] in *; try discriminate.
  - injection H as <-. eauto.
  - eauto.
Qed.

Lemma Forall2_length_eq {A B} (R : A -> B -> Prop) l1 l2 : Forall2 R l1 l2 -> length l1 = length l2.
Proof. intros F. induction F; cbn [length]; congruence. Qed.

(** everything the property files need about an accepted run, in terms of the result only *)
Record track_post (cfg : mp4_conf) (ops : list mux_op) (cls : list rclass) (f : mfinal) (i : nat) (tf : tfinal)
  : Prop := mkTrackPost {
  tp_form : offsets_form_ok (tf_tables tf);
  tp_offs : Forall (fun o => mf_mdat_pos f + 16 <= o <= mf_base f + lenN (mf_out f)) (tb_offsets (tf_tables tf));
  tp_md_hist : wh_mdhd_duration (tf_hdr tf) = dur_written (N.of_nat i + 1) ops cls;
  tp_md_stts : wh_mdhd_duration (tf_hdr tf) = stts_dur (t_stts (tf_tables tf));
  tp_hdr : hdr_inv (mc_timescale cfg) (tc_timescale (tf_conf tf)) (tf_hdr tf);
  tp_ts : tc_timescale (tf_conf tf) <> 0;
  tp_md_hi : wh_mdhd_duration (tf_hdr tf) < U64 }.

Record mux_post (base : N) (cfg : mp4_conf) (ops : list mux_op) (cls : list rclass) (f : mfinal) : Prop := mkMuxPost {
  po_cls : Forall2 cls_ok ops cls;
  po_base : mf_base f = base;
  po_mdat_pos : mf_mdat_pos f = base + lenN (ftyp_bytes cfg);
  po_out : exists payload, mf_out f = ftyp_bytes cfg ++ mdat_header (mf_mdat_size f) ++ payload /\
                           mf_mdat_size f = 16 + lenN payload;
  po_size : mf_mdat_size f = mf_base f + lenN (mf_out f) - mf_mdat_pos f;
  po_ts : mf_mvhd_timescale f = mc_timescale cfg;
  po_ver : mf_mvhd_version f = if U32MAX <? mf_mvhd_duration f then 1 else 0;
  po_dur : mf_mvhd_duration f = max_list (map (fun tf => wh_tkhd_duration (tf_hdr tf)) (mf_tracks f));
  po_confs : map tf_conf (mf_tracks f) = added_confs ops;
  po_ids : map tf_track_id (mf_tracks f) = ids_from 1 (length (mf_tracks f));
  po_tracks : forall i tf, nth_error (mf_tracks f) i = Some tf -> track_post cfg ops cls f i tf }.

Theorem run_mux_spec m base cfg ops :
  mux_pre base cfg ops -> exists cls f, run_mux m base cfg ops = Ok (cls, f) /\ mux_post base cfg ops cls f.
Proof.
  intros [Hty Hn Hp]. unfold run_mux.
  destruct (run_ops_ok m cfg base ops (mw_write_start base cfg) [] (mw_write_start_inv base cfg) Hty)
    as (w & cls & -> & I & Hlen & Hconfs & Hdur).
  { change (lenN (mw_tracks (mw_write_start base cfg))) with 0. clear - Hn. lia. }
  cbn [res_bind app].
  destruct (mw_write_end_ok m cfg base w I Hp) as (f & -> & [Fb Fm Fo Fs Ft Fd Fv Ftr Fid]).
  cbn [res_bind]. exists cls, f. split; [reflexivity|].
  change (map tw_conf (mw_tracks (mw_write_start base cfg))) with (@nil track_conf) in Hconfs. cbn [app] in Hconfs.
  constructor; try assumption.
  - rewrite Fd. unfold tkhd_durs. symmetry. f_equal.
    eapply Forall2_map_eq; [|exact Ftr]. intros a b [? ? Hh ? ? ? ? ? ? ?]. now rewrite Hh.
  - rewrite <- Hconfs. eapply Forall2_map_eq; [|exact Ftr]. intros a b [Hc ? ? ? ? ? ? ? ? ?]. exact Hc.
  - rewrite <- (Forall2_length_eq _ _ _ Ftr), <- Fid.
    eapply Forall2_map_eq; [|exact Ftr]. intros a b [? Hi ? ? ? ? ? ? ? ?]. exact Hi.
  - intros i tf Hnth. destruct (Forall2_nth_r _ _ _ Ftr i tf Hnth) as (t & Ht & [Hc Hi Hh Hfo Hof Hst Hmd Hhi Hts Hmdhi]).
    constructor.
    + exact Hfo.
    + exact Hof.
    + rewrite Hh. specialize (Hdur i). unfold mdhd_at in Hdur. rewrite Ht in Hdur.
      change (nth_error (mw_tracks (mw_write_start base cfg)) i) with (@nth_error twriter [] i) in Hdur.
      destruct i; cbn [nth_error] in Hdur; rewrite Hdur; lia.
    + rewrite Hh, Hst. exact Hmd.
    + rewrite Hh, Hc. exact Hhi.
    + rewrite Hc. exact Hts.
    + rewrite Hh. exact Hmdhi.
Qed.

Corollary run_mux_post m base cfg ops cls f :
  mux_pre base cfg ops -> run_mux m base cfg ops = Ok (cls, f) -> mux_post base cfg ops cls f.
Proof.
  intros Hpre H. destruct (run_mux_spec m base cfg ops Hpre) as (cls' & f' & E & P).
  rewrite E in H. injection H as <- <-. exact P.
Qed.

(** Debug and release builds produce the same file: no overflow check can fire, nothing wraps *)
Corollary mux_no_panic m base cfg ops : mux_pre base cfg ops -> is_panic (run_mux m base cfg ops) = false.
Proof. intros H. destruct (run_mux_spec m base cfg ops H) as (cls & f & -> & _). reflexivity. Qed.

Corollary mux_always_ok m base cfg ops : mux_pre base cfg ops -> is_ok (run_mux m base cfg ops) = true.
Proof. intros H. destruct (run_mux_spec m base cfg ops H) as (cls & f & -> & _). reflexivity. Qed.

(** ** Reading the mdat header back with the independent ISO box parser ([Iso/IsoFile.v]) *)

Lemma takeN_app_exact {A} n (a b : list A) : lenN a = n -> takeN n (a ++ b) = a.
Proof. intros <-. unfold takeN. apply firstn_lenN_app. Qed.

Lemma takeN_all {A} (a : list A) : takeN (lenN a) a = a.
Proof. unfold takeN. replace (N.to_nat (lenN a)) with (length a) by (unfold lenN; lia). apply firstn_all. Qed.

Lemma iso_boxes_mdat n off size payload :
  size = 16 + lenN payload -> size < U64 ->
  iso_boxes (S (S n)) off (mdat_header size ++ payload) =
  Some [mkIbox MDAT off (if U32MAX <? size then 16 else 8) size
               (if U32MAX <? size then payload else be 4 8 ++ be 4 WIDE ++ payload)].
Proof.
  intros Hs Hlt.
  assert (Hlen : lenN (mdat_header size ++ payload) = size) by (rewrite lenN_app, lenN_mdat_header; lia).
  remember (mdat_header size ++ payload) as l eqn:El.
  cbn [iso_boxes]. destruct l as [|b0 l0]; [change (lenN (@nil N)) with 0 in Hlen; lia|].
  rewrite El in *. clear El b0 l0.
  destruct (N.ltb_spec (lenN (mdat_header size ++ payload)) 8) as [H|_]; [lia|].
  unfold mdat_header in *. change 1835295092 with MDAT. change 2003395685 with WIDE.
  destruct (N.ltb_spec U32MAX size) as [Hbig|Hsmall].
  - rewrite <- !app_assoc.
    rewrite (takeN_app_exact 4 (be 4 1)) by apply lenN_be.
    rewrite (dropN_app_n 4 (be 4 1)) by apply lenN_be.
    rewrite (takeN_app_exact 4 (be 4 MDAT)) by apply lenN_be.
    rewrite !unbe_be by (rewrite ?pow256_4; reflexivity).
    change (1 =? 1) with true. cbv iota.
    replace (be 4 1 ++ be 4 MDAT ++ be 8 size ++ payload) with ((be 4 1 ++ be 4 MDAT) ++ be 8 size ++ payload)
      by (rewrite <- !app_assoc; reflexivity).
    rewrite (dropN_app_n 8 (be 4 1 ++ be 4 MDAT)) by (rewrite lenN_app, !lenN_be; reflexivity).
    rewrite (takeN_app_exact 8 (be 8 size)) by apply lenN_be.
    rewrite unbe_be by (rewrite pow256_8; exact Hlt).
    destruct (N.ltb_spec size 16) as [H|_]; [lia|].
    destruct (N.ltb_spec (lenN ((be 4 1 ++ be 4 MDAT) ++ be 8 size ++ payload)) size) as [H|_].
    { rewrite !lenN_app, !lenN_be in H. lia. }
    cbn [orb].
    rewrite dropN_all by (rewrite !lenN_app, !lenN_be; lia).
    cbn [iso_boxes]. do 3 f_equal.
    replace ((be 4 1 ++ be 4 MDAT) ++ be 8 size ++ payload) with ((be 4 1 ++ be 4 MDAT ++ be 8 size) ++ payload)
      by (rewrite <- !app_assoc; reflexivity).
    rewrite (dropN_app_n 16) by (rewrite !lenN_app, !lenN_be; reflexivity).
    replace (size - 16) with (lenN payload) by lia. apply takeN_all.
  - rewrite <- !app_assoc.
    rewrite (takeN_app_exact 4 (be 4 size)) by apply lenN_be.
    rewrite (dropN_app_n 4 (be 4 size)) by apply lenN_be.
    rewrite (takeN_app_exact 4 (be 4 MDAT)) by apply lenN_be.
    rewrite (unbe_be 4 MDAT) by (rewrite pow256_4; reflexivity).
    rewrite unbe_be by (rewrite pow256_4; unfold U32MAX, U32 in Hsmall; lia).
    destruct (N.eqb_spec size 1) as [H|_]; [lia|]. destruct (N.eqb_spec size 0) as [H|_]; [lia|].
    destruct (N.ltb_spec size 8) as [H|_]; [lia|].
    destruct (N.ltb_spec (lenN (be 4 size ++ be 4 MDAT ++ be 4 8 ++ be 4 WIDE ++ payload)) size) as [H|_].
    { rewrite !lenN_app, !lenN_be in H. lia. }
    cbn [orb].
    rewrite dropN_all by (rewrite !lenN_app, !lenN_be; lia).
    cbn [iso_boxes]. do 3 f_equal.
    replace (be 4 size ++ be 4 MDAT ++ be 4 8 ++ be 4 WIDE ++ payload)
      with ((be 4 size ++ be 4 MDAT) ++ be 4 8 ++ be 4 WIDE ++ payload) by (rewrite <- !app_assoc; reflexivity).
    rewrite (dropN_app_n 8) by (rewrite !lenN_app, !lenN_be; reflexivity).
    replace (size - 8) with (lenN (be 4 8 ++ be 4 WIDE ++ payload)) by (rewrite !lenN_app, !lenN_be; lia).
    apply takeN_all.
Qed.

Lemma iso_parse_mdat off size payload :
  size = 16 + lenN payload -> size < U64 ->
  iso_parse off (mdat_header size ++ payload) =
  Some [mkIbox MDAT off (if U32MAX <? size then 16 else 8) size
               (if U32MAX <? size then payload else be 4 8 ++ be 4 WIDE ++ payload)].
Proof.
  intros Hs Hlt. unfold iso_parse.
  assert (Hlen : lenN (mdat_header size ++ payload) = size) by (rewrite lenN_app, lenN_mdat_header; lia).
  destruct (length (mdat_header size ++ payload)) as [|n] eqn:E.
  - unfold lenN in Hlen. rewrite E in Hlen. lia.
  - now apply iso_boxes_mdat.
Qed.

(** ** Statements used by the property files *)

Definition sample_bytes (ops : list mux_op) : N :=
  sumN (map (fun op => match op with OpWrite _ s => lenN (ws_bytes s) | OpAddTrack _ => 0 end) ops).

(** C17 *)
Lemma muxer_total_lemma : forall m base cfg ops,
  Forall op_typed ops ->
  lenN (added_confs ops) < U32MAX ->
  base < 2 ^ 63 -> base + lenN (ftyp_bytes cfg) + 16 + sample_bytes ops < 2 ^ 63 ->
  is_panic (run_mux m base cfg ops) = false.
Proof.
  intros m base cfg ops Hty Hn _ Hb. apply mux_no_panic. constructor; try assumption.
  change (2 ^ 63) with 9223372036854775808 in Hb. unfold U64. lia.
Qed.

Lemma muxer_calls_return_lemma : forall m base cfg ops,
  mux_pre base cfg ops ->
  exists cls f, run_mux m base cfg ops = Ok (cls, f) /\ Forall2 cls_ok ops cls.
Proof.
  intros m base cfg ops H. destruct (run_mux_spec m base cfg ops H) as (cls & f & E & P).
  exists cls, f. split; [exact E|exact (po_cls _ _ _ _ _ P)].
Qed.

(** C13: the mdat header *)
Lemma c13_mdat_lemma : forall m base cfg ops cls f,
  mux_pre base cfg ops -> run_mux m base cfg ops = Ok (cls, f) ->
  mf_base f + lenN (mf_out f) < U64 ->
  let size := mf_mdat_size f in
  let big := U32MAX <? size in
  mf_base f = base /\ mf_mdat_pos f = base + lenN (ftyp_bytes cfg) /\
  size = mf_base f + lenN (mf_out f) - mf_mdat_pos f /\
  16 <= size < U64 /\
  exists payload,
    size = 16 + lenN payload /\
    mf_out f = ftyp_bytes cfg ++
               (if big then be 4 1 ++ be 4 MDAT ++ be 8 size
                else be 4 size ++ be 4 MDAT ++ be 4 8 ++ be 4 WIDE) ++ payload /\
    iso_parse (mf_mdat_pos f) (dropN (mf_mdat_pos f - mf_base f) (mf_out f)) =
    Some [mkIbox MDAT (mf_mdat_pos f) (if big then 16 else 8) size
                 (if big then payload else be 4 8 ++ be 4 WIDE ++ payload)].
Proof.
  intros m base cfg ops cls f Hpre Hrun Hfit. cbv zeta.
  destruct (run_mux_post m base cfg ops cls f Hpre Hrun) as [_ Pb Pm (pl & Po & Ps) Psz _ _ _ _ _ _].
  split; [exact Pb|]. split; [exact Pm|]. split; [exact Psz|].
  assert (Hlt : mf_mdat_size f < U64) by (rewrite Psz; clear - Hfit; lia).
  split; [split; [rewrite Ps; clear; lia|exact Hlt]|].
  exists pl. split; [exact Ps|]. split; [exact Po|].
  replace (mf_mdat_pos f - mf_base f) with (lenN (ftyp_bytes cfg)) by (rewrite Pm, Pb; clear; lia).
  rewrite Po, dropN_app. apply iso_parse_mdat; assumption.
Qed.

(** C13: chunk offsets *)
Lemma c13_offsets_lemma : forall m base cfg ops cls f,
  mux_pre base cfg ops -> run_mux m base cfg ops = Ok (cls, f) ->
  forall tf, In tf (mf_tracks f) ->
    ((exists l, t_stco (tf_tables tf) = Some l /\ t_co64 (tf_tables tf) = None /\
                Forall (fun o => o <= U32MAX) l) \/
     (exists l, t_stco (tf_tables tf) = None /\ t_co64 (tf_tables tf) = Some l /\
                Exists (fun o => U32MAX < o) l)) /\
    Forall (fun o => mf_mdat_pos f + 16 <= o <= mf_base f + lenN (mf_out f)) (tb_offsets (tf_tables tf)).
Proof.
  intros m base cfg ops cls f Hpre Hrun tf Hin.
  pose proof (run_mux_post m base cfg ops cls f Hpre Hrun) as P.
  apply In_nth_error in Hin as (i & Hi). destruct (po_tracks _ _ _ _ _ P i tf Hi) as [Hf Ho _ _ _ _ _].
  split; [exact Hf|exact Ho].
Qed.

Lemma max_list_le b l : Forall (fun x => x <= b) l -> max_list l <= b.
Proof.
  induction 1 as [|x l Hx _ IH]; cbn [max_list fold_right]; [lia|]. fold (max_list l). lia.
Qed.

Lemma tkhd_of_le md mts tts : tkhd_of md mts tts <= U64MAX.
Proof. unfold tkhd_of. lia. Qed.

(** C13: header versions and exact durations *)
Lemma c13_versions_lemma : forall m base cfg ops cls f,
  mux_pre base cfg ops -> run_mux m base cfg ops = Ok (cls, f) ->
  (forall i tf, nth_error (mf_tracks f) i = Some tf ->
     let h := tf_hdr tf in
     wh_mdhd_duration h = dur_written (N.of_nat i + 1) ops cls /\
     wh_mdhd_duration h < U64 /\ wh_tkhd_duration h < U64 /\
     wh_mdhd_version h = (if U32MAX <? wh_mdhd_duration h then 1 else 0) /\
     wh_tkhd_version h = (if U32MAX <? wh_tkhd_duration h then 1 else 0)) /\
  mf_mvhd_duration f < U64 /\
  mf_mvhd_version f = (if U32MAX <? mf_mvhd_duration f then 1 else 0).
Proof.
  intros m base cfg ops cls f Hpre Hrun.
  pose proof (run_mux_post m base cfg ops cls f Hpre Hrun) as P.
  assert (Htk : forall i tf, nth_error (mf_tracks f) i = Some tf -> wh_tkhd_duration (tf_hdr tf) <= U64MAX).
  { intros i tf Hi. destruct (po_tracks _ _ _ _ _ P i tf Hi) as [_ _ _ _ [_ Htd _] _ _].
    rewrite Htd. apply tkhd_of_le. }
  split; [|split].
  - intros i tf Hi. cbv zeta. pose proof (Htk i tf Hi) as Hle.
    destruct (po_tracks _ _ _ _ _ P i tf Hi) as [_ _ Hmd _ [Hmv Htd Htv] _ Hhi].
    split; [exact Hmd|]. split; [exact Hhi|]. split; [unfold U64MAX, U64 in *; clear - Hle; lia|].
    split; [exact Hmv|exact Htv].
  - rewrite (po_dur _ _ _ _ _ P).
    assert (max_list (map (fun tf => wh_tkhd_duration (tf_hdr tf)) (mf_tracks f)) <= U64MAX).
    { apply max_list_le. apply Forall_forall. intros x Hx. apply in_map_iff in Hx as (tf & <- & Hin).
      apply In_nth_error in Hin as (i & Hi). exact (Htk i tf Hi). }
    unfold U64MAX, U64 in *. lia.
  - exact (po_ver _ _ _ _ _ P).
Qed.

(** C14 *)
Lemma c14_config_lemma : forall m base cfg ops cls f,
  mux_pre base cfg ops -> run_mux m base cfg ops = Ok (cls, f) ->
  Forall2 cls_ok ops cls /\
  map tf_conf (mf_tracks f) = added_confs ops /\
  map tf_track_id (mf_tracks f) = map N.of_nat (seq 1 (length (mf_tracks f))) /\
  mf_mvhd_timescale f = mc_timescale cfg /\
  (exists rest, mf_out f = ftyp_bytes cfg ++ rest).
Proof.
  intros m base cfg ops cls f Hpre Hrun.
  destruct (run_mux_post m base cfg ops cls f Hpre Hrun) as [Pc _ _ (pl & Po & _) _ Pt _ _ Pconf Pid _].
  split; [exact Pc|]. split; [exact Pconf|]. split; [exact Pid|]. split; [exact Pt|]. eexists; exact Po.
Qed.

Lemma c14_durations_lemma : forall m base cfg ops cls f,
  mux_pre base cfg ops -> run_mux m base cfg ops = Ok (cls, f) ->
  (forall i tf, nth_error (mf_tracks f) i = Some tf ->
     let md := wh_mdhd_duration (tf_hdr tf) in
     let td := wh_tkhd_duration (tf_hdr tf) in
     let tts := tc_timescale (tf_conf tf) in
     let mts := mc_timescale cfg in
     tts <> 0 /\
     md = dur_written (N.of_nat i + 1) ops cls /\
     md = stts_dur (t_stts (tf_tables tf)) /\
     td = N.min (md * mts / tts) U64MAX /\
     (md * mts / tts <= U64MAX -> td * tts <= md * mts < (td + 1) * tts)) /\
  mf_mvhd_duration f = max_list (map (fun tf => wh_tkhd_duration (tf_hdr tf)) (mf_tracks f)).
Proof.
  intros m base cfg ops cls f Hpre Hrun.
  pose proof (run_mux_post m base cfg ops cls f Hpre Hrun) as P.
  split; [|exact (po_dur _ _ _ _ _ P)].
  intros i tf Hi. cbv zeta.
  destruct (po_tracks _ _ _ _ _ P i tf Hi) as [_ _ Hmd Hst [_ Htd _] Hts _].
  split; [exact Hts|]. split; [exact Hmd|]. split; [exact Hst|]. split; [exact Htd|].
  intros Hq. rewrite Htd. unfold tkhd_of.
  set (x := wh_mdhd_duration (tf_hdr tf) * mc_timescale cfg) in *.
  set (d := tc_timescale (tf_conf tf)) in *.
  replace (N.min (x / d) U64MAX) with (x / d) by (clear - Hq; lia).
  clear - Hts. pose proof (N.div_mod x d Hts). pose proof (N.mod_lt x d Hts). nia.
Qed.

(** ** The one reachable panic of the model: the 2^32-th [add_track] (debug build).
    [tracks.len() as u32 + 1] overflows when 2^32-1 tracks exist.  Not replayable: it
    needs 2^32-1 live [Mp4TrackWriter] values.  No [vm_compute]: the history is never built. *)

Lemma run_ops_app m : forall l1 l2 w acc,
  run_ops m w (l1 ++ l2) acc =
  match run_ops m w l1 acc with
  | Ok (w', acc') => run_ops m w' l2 acc'
  | Err e => Err e
  | Panic s => Panic s
  | OutOfFuel => OutOfFuel
  end.
Proof.
  induction l1 as [|op l1 IH]; intros l2 w acc; [reflexivity|].
  cbn [app run_ops].
  destruct (match op with OpAddTrack c => mw_add_track m w c | OpWrite id s => mw_write_sample m w id s end);
    try reflexivity; apply IH.
Qed.

Lemma added_confs_repeat c k : conf_check c = Ok tt -> added_confs (repeat (OpAddTrack c) k) = repeat c k.
Proof.
  intros H. induction k as [|k IH]; [reflexivity|].
  cbn [repeat]. change (added_confs (OpAddTrack c :: repeat (OpAddTrack c) k))
    with ((if is_ok (conf_check c) then [c] else []) ++ added_confs (repeat (OpAddTrack c) k)).
  rewrite H, IH. reflexivity.
Qed.

Lemma added_confs_app a b : added_confs (a ++ b) = added_confs a ++ added_confs b.
Proof. unfold added_confs. apply flat_map_app. Qed.

Lemma sample_bytes_add_only ops : Forall (fun op => exists c, op = OpAddTrack c) ops -> sample_bytes ops = 0.
Proof.
  induction 1 as [|op l (c & ->) _ IH]; [reflexivity|].
  unfold sample_bytes in *. cbn [map]. rewrite sumN_cons, IH. reflexivity.
Qed.

Lemma many_tracks_panic c cfg base n :
  conf_check c = Ok tt -> base + lenN (ftyp_bytes cfg) + 8 < U64 -> N.of_nat n + 1 = U32MAX ->
  is_panic (run_mux Dbg base cfg (repeat (OpAddTrack c) n ++ [OpAddTrack c; OpAddTrack c])) = true.
Proof.
  intros Hc Hb Hn. unfold run_mux. rewrite run_ops_app.
  assert (Hty : Forall op_typed (repeat (OpAddTrack c) n)).
  { apply Forall_forall. intros x Hx. apply repeat_spec in Hx. subst x. exact I. }
  assert (Hlen : lenN (added_confs (repeat (OpAddTrack c) n)) = N.of_nat n).
  { rewrite added_confs_repeat by exact Hc. unfold lenN. now rewrite repeat_length. }
  destruct (run_ops_ok Dbg cfg base (repeat (OpAddTrack c) n) (mw_write_start base cfg) []
              (mw_write_start_inv base cfg) Hty) as (w & cls & -> & I & _ & Hconfs & _).
  { change (lenN (mw_tracks (mw_write_start base cfg))) with 0. rewrite Hlen. clear - Hn. lia. }
  change (map tw_conf (mw_tracks (mw_write_start base cfg))) with (@nil track_conf) in Hconfs. cbn [app] in Hconfs.
  assert (Hw : lenN (mw_tracks w) = N.of_nat n).
  { rewrite <- Hlen, <- Hconfs. unfold lenN. now rewrite map_length. }
  cbn [run_ops].
  destruct (mw_add_track_ok Dbg cfg base w c I) as [[Hc' _]|(_ & w1 & t & -> & I1 & Htr & _)].
  { rewrite Hw. unfold U32MAX, U32 in *. clear - Hn. lia. }
  { rewrite Hc in Hc'. discriminate. }
  assert (Hw1 : lenN (mw_tracks w1) = U32MAX).
  { rewrite Htr, lenN_app, Hw. change (lenN [t]) with 1. exact Hn. }
  unfold mw_add_track at 1. rewrite Hw1. reflexivity.
Qed.

Lemma muxer_can_panic_tracks_lemma : exists base cfg ops,
  Forall op_typed ops /\ base < 2 ^ 63 /\ base + lenN (ftyp_bytes cfg) + 16 + sample_bytes ops < 2 ^ 63 /\
  lenN (added_confs ops) = U32 /\
  is_panic (run_mux Dbg base cfg ops) = true.
Proof.
  set (c := mkTrackConf "Subtitle" 1000 [] TtxtConf).
  set (cfg := mkMp4Conf 0 0 [] 1000).
  set (n := N.to_nat (U32MAX - 1)).
  assert (Hn : N.of_nat n + 1 = U32MAX).
  { unfold n. rewrite N2Nat.id. reflexivity. }
  exists 0, cfg, (repeat (OpAddTrack c) n ++ [OpAddTrack c; OpAddTrack c]).
  assert (Hadd : Forall (fun op => exists c, op = OpAddTrack c) (repeat (OpAddTrack c) n ++ [OpAddTrack c; OpAddTrack c])).
  { apply Forall_app. split.
    - apply Forall_forall. intros x Hx. apply repeat_spec in Hx. eauto.
    - repeat constructor; eauto. }
  split; [|split; [reflexivity|split; [|split]]].
  - eapply Forall_impl; [|exact Hadd]. intros op (c' & ->). exact I.
  - rewrite (sample_bytes_add_only _ Hadd). reflexivity.
  - rewrite added_confs_app, added_confs_repeat by reflexivity.
    rewrite lenN_app. unfold lenN at 1. rewrite repeat_length.
    change (lenN (added_confs [OpAddTrack c; OpAddTrack c])) with 2.
    change U32 with (U32MAX + 1). rewrite <- Hn. lia.
  - apply many_tracks_panic; [reflexivity|reflexivity|exact Hn].
Qed.

(** ** Release builds: no panic at all, without any hypothesis on the history
    (the only panic site left is the division by the track timescale, and [add_track] rejects 0) *)

Definition res_all {A} (P : A -> Prop) (r : res A) : Prop :=
  match r with Ok a => P a | Panic _ => False | _ => True end.

Lemma res_all_bind {A B} (Q : A -> Prop) (P : B -> Prop) (r : res A) (k : A -> res B) :
  res_all Q r -> (forall a, Q a -> res_all P (k a)) -> res_all P (res_bind r k).
Proof. destruct r; cbn [res_all res_bind]; auto. Qed.

Lemma res_all_np {A} (P : A -> Prop) r : res_all P r -> is_panic r = false.
Proof. destruct r; cbn; auto. intros []. Qed.

Definition anyv {A} : A -> Prop := fun _ => True.

Lemma add_w_rel_all W s a b : res_all anyv (add_w Rel W s a b).
Proof. unfold add_w. destruct (a + b <? W); exact I. Qed.
Lemma sub_w_rel_all W s a b : res_all anyv (sub_w Rel W s a b).
Proof. unfold sub_w. destruct (b <=? a); exact I. Qed.

Ltac rel_step :=
  first [ exact I
        | eapply res_all_bind; [first [apply add_w_rel_all | apply sub_w_rel_all]|intros ? _] ].

Lemma update_sample_sizes_rel t c sz : res_all anyv (update_sample_sizes Rel t c sz).
Proof.
  unfold update_sample_sizes. destruct (if wt_stsz_count t =? 0 then _ else _) as [[[? ?] ?] ?]. repeat rel_step.
Qed.

Lemma rl_push_rel {V} (eqb : V -> V -> bool) s l v : res_all anyv (rl_push Rel eqb s l v).
Proof. unfold rl_push. destruct (rev l) as [|[c v'] r]; [exact I|]. destruct (eqb v' v); repeat rel_step. Qed.

Lemma update_sample_times_rel t d : res_all anyv (update_sample_times Rel t d).
Proof. unfold update_sample_times. eapply res_all_bind; [apply rl_push_rel|intros ? _; exact I]. Qed.

Lemma update_rendering_offsets_rel t sid off : res_all anyv (update_rendering_offsets Rel t sid off).
Proof.
  unfold update_rendering_offsets. destruct (wt_ctts t).
  - eapply res_all_bind; [apply rl_push_rel|intros ? _; exact I].
  - destruct (off =? 0)%Z; [exact I|]. destruct (1 <? sid).
    + rel_step. eapply res_all_bind; [apply rl_push_rel|intros ? _; exact I].
    + eapply res_all_bind; [apply rl_push_rel|intros ? _; exact I].
Qed.

Lemma write_chunk_rel t c pos : res_all anyv (write_chunk Rel t c pos).
Proof.
  unfold write_chunk. destruct (wc_chunk_samples c =? 0); [exact I|]. rel_step.
  eapply res_all_bind with (Q := anyv); [|intros ? _; exact I].
  destruct (rev (wt_stsc t)) as [|e r]; [repeat rel_step|].
  destruct (sc_samples_per_chunk e =? wc_chunk_samples c); repeat rel_step.
Qed.

Lemma update_durations_rel w h d mts : tc_timescale (tw_conf w) <> 0 -> res_all anyv (update_durations Rel w h d mts).
Proof. intros H. unfold update_durations. rel_step. rewrite div_w_ok by exact H. exact I. Qed.

Lemma tw_write_sample_rel w pos s mts :
  tc_timescale (tw_conf w) <> 0 ->
  res_all (fun r => tw_conf (fst (fst r)) = tw_conf w) (tw_write_sample Rel w pos s mts).
Proof.
  intros H. unfold tw_write_sample.
  destruct (U32MAX <? lenN (ws_bytes s)); [exact I|]. destruct (wc_sample_id (tw_c w) =? U32MAX); [exact I|].
  eapply res_all_bind; [apply add_w_rel_all|intros cs _]. cbv zeta.
  eapply res_all_bind; [apply update_sample_sizes_rel|intros [t1 c2] _].
  eapply res_all_bind; [apply update_sample_times_rel|intros t2 _].
  eapply res_all_bind; [apply update_rendering_offsets_rel|intros t3 _].
  eapply res_all_bind with (Q := anyv).
  { destruct (is_chunk_full w c2); [apply write_chunk_rel|exact I]. }
  intros [[t5 c3] wrote] _.
  eapply res_all_bind; [apply update_durations_rel; exact H|intros h1 _].
  eapply res_all_bind; [apply add_w_rel_all|intros sid _]. reflexivity.
Qed.

Definition ts_ok (w : mwriter) : Prop := Forall (fun t => tc_timescale (tw_conf t) <> 0) (mw_tracks w).

Lemma mux_step_rel w op : ts_ok w -> res_all ts_ok (mux_step Rel w op).
Proof.
  intros H. destruct op as [c|id s]; cbn [mux_step].
  - unfold mw_add_track. rel_step. unfold tw_new.
    destruct (conf_check c) as [[]| | |] eqn:E; cbn [res_bind res_all]; try exact I.
    + unfold ts_ok. cbn [mw_tracks]. apply Forall_app. split; [exact H|]. constructor; [|constructor].
      cbn [tw_conf]. unfold conf_check in E. destruct (N.eqb_spec (tc_timescale c) 0); [discriminate|assumption].
    + destruct (conf_check_res c) as [E'|E']; rewrite E' in E; discriminate.
  - unfold mw_write_sample. destruct (id =? 0); [exact I|].
    rewrite nthN_nth_error. destruct (nth_error (mw_tracks w) (N.to_nat (id - 1))) as [t|] eqn:En; [|exact I].
    assert (Ht : tc_timescale (tw_conf t) <> 0).
    { unfold ts_ok in H. rewrite Forall_forall in H. apply H. eapply nth_error_In; eauto. }
    eapply res_all_bind; [apply tw_write_sample_rel; exact Ht|].
    intros [[t' wrote] td] Hc. cbn [fst] in Hc. cbn [res_all].
    destruct (emit_fields w (replace_nth (mw_tracks w) (N.to_nat (id - 1)) t') wrote
                (if mw_duration w <? td then td else mw_duration w)) as (_ & E2 & _).
    unfold ts_ok. rewrite E2. apply replace_nth_Forall; [exact H|]. now rewrite Hc.
Qed.

Lemma run_ops_rel : forall ops w acc, ts_ok w -> res_all (fun r => ts_ok (fst r)) (run_ops Rel w ops acc).
Proof.
  induction ops as [|op rest IH]; intros w acc H; [exact H|].
  cbn [run_ops]. pose proof (mux_step_rel w op H) as Hs. unfold mux_step in Hs.
  destruct (match op with OpAddTrack c => mw_add_track Rel w c | OpWrite id s => mw_write_sample Rel w id s end);
    cbn [res_all] in Hs; try contradiction; first [apply IH; assumption|exact I].
Qed.

Lemma end_tracks_rel : forall ts w acc, res_all anyv (end_tracks Rel ts w acc).
Proof.
  induction ts as [|t ts IH]; intros w acc; [exact I|].
  cbn [end_tracks]. eapply res_all_bind with (Q := anyv).
  - unfold tw_write_end. eapply res_all_bind; [apply write_chunk_rel|]. intros [[t1 c1] wrote] _. exact I.
  - intros [[t' wrote] tf] _. apply IH.
Qed.

Lemma mw_write_end_rel w : res_all anyv (mw_write_end Rel w).
Proof.
  unfold mw_write_end. eapply res_all_bind; [apply end_tracks_rel|]. intros [w1 tfs] _.
  rel_step. eapply res_all_bind with (Q := anyv); [|intros ? _; exact I].
  destruct (U32MAX <? a); repeat rel_step.
Qed.

Lemma muxer_total_rel_lemma : forall base cfg ops, is_panic (run_mux Rel base cfg ops) = false.
Proof.
  intros base cfg ops. apply (res_all_np anyv). unfold run_mux.
  eapply res_all_bind; [apply run_ops_rel; constructor|].
  intros [w cls] _. eapply res_all_bind; [apply mw_write_end_rel|intros f _; exact I].
Qed.
