(** * Layout invariance (property C12): the generic mechanisms

    A child box is rendered either with the ordinary 8-byte header or with the 16-byte
    [size == 1] + [largesize] header.  [BoxHeader::read] reports [largesize - 8] for the second
    form, and every decoder locates its box with [box_start = position - 8]: so after EITHER
    header the decoder of the body runs with the same [size] argument ([8 + |payload|]) at a
    position [q + 8] with the same view, [q] being the start of the box for the short form and
    (start of the box + 8) for the long form.  All statements about bodies in the development
    are quantified over the position, which is why they transfer to the long form for free.

    This file contains
    - [child], its two renderings, and [run_read_header_child] (both header forms);
    - [hdr64_leaf]/[hdr32_leaf]: mechanism (i) for any decoder with a position-generic
      decoding lemma ([leaf_decodes], the last conjunct of [leaf_roundtrip]);
    - [loop_gen_step]: one iteration of [children_loop_gen] over a rendered child whose body
      is processed by [dispatch]; [loop_gen_skip]: mechanism (ii), the child is skipped;
    - [tail_ignored]: the statement of mechanism (iii) (proved per box in LayoutTail.v);
    - [loop_children]: the loop over a list of rendered children is the fold of their pure
      accumulator updates, whatever the header forms. *)
From MP4 Require Export Kit Loop.
From Coq Require Import ZifyN ZifyNat ZifyBool.
Open Scope string_scope.
Open Scope list_scope.
Open Scope N_scope.

(** closes [(r, mkStream d l x v) = (r, mkStream d l y v)] when [x = y] is linear arithmetic *)
Ltac stream_eq := first [ reflexivity | f_equal; first [ reflexivity | f_equal; clear; lia ] ].

(** ** Children and their two renderings *)
Record child := mkChild { c_w64 : bool; c_code : N; c_payload : bytes }.

(** the size [BoxHeader::read] reports for the child (both forms) *)
Definition c_s (c : child) : N := 8 + lenN (c_payload c).
Definition c_hlen (c : child) : N := if c_w64 c then 16 else 8.
(** number of bytes of the rendering *)
Definition c_len (c : child) : N := c_hlen c + lenN (c_payload c).

Definition hdr32 (code : N) (n : N) : bytes := be 4 (8 + n) ++ be 4 code.
Definition hdr64 (code : N) (n : N) : bytes := be 4 1 ++ be 4 code ++ be 8 (16 + n).

Definition c_hdr (c : child) : bytes :=
  if c_w64 c then hdr64 (c_code c) (lenN (c_payload c)) else hdr32 (c_code c) (lenN (c_payload c)).
Definition c_bytes (c : child) : bytes := c_hdr c ++ c_payload c.

(** what the wire format can carry *)
Definition child_wf (c : child) : Prop :=
  c_code c < U32 /\ if c_w64 c then 16 + lenN (c_payload c) < U64 else 8 + lenN (c_payload c) < U32.

Definition with_w64 (b : bool) (c : child) : child := mkChild b (c_code c) (c_payload c).
Definition with_tail (spare : bytes) (c : child) : child :=
  mkChild (c_w64 c) (c_code c) (c_payload c ++ spare).

Lemma c_s_with_w64 b c : c_s (with_w64 b c) = c_s c.
Proof. reflexivity. Qed.

Lemma lenN_hdr32 code n : lenN (hdr32 code n) = 8.
Proof. unfold hdr32. rewrite lenN_app, !lenN_be. reflexivity. Qed.
Lemma lenN_hdr64 code n : lenN (hdr64 code n) = 16.
Proof. unfold hdr64. rewrite !lenN_app, !lenN_be. reflexivity. Qed.
Lemma lenN_c_hdr c : lenN (c_hdr c) = c_hlen c.
Proof. unfold c_hdr, c_hlen. destruct (c_w64 c); [apply lenN_hdr64 | apply lenN_hdr32]. Qed.
Lemma lenN_c_bytes c : lenN (c_bytes c) = c_len c.
Proof. unfold c_bytes, c_len. now rewrite lenN_app, lenN_c_hdr. Qed.

(** ** Reading the two header forms *)

(** the 16-byte form: [size = 1], then [largesize]; the reported size is [largesize - 8] *)
Lemma run_read_header64_bind {A} code n rest (k : boxtype * N -> prog A) d l p :
  code < U32 -> 16 + n < U64 ->
  run (bind read_header k) (mkStream d l p (hdr64 code n ++ rest))
  = run (k (boxtype_of_u32 code, 8 + n)) (mkStream d l (p + 16) rest).
Proof.
  intros Hc Hn. unfold hdr64, read_header, rd_arr. cbn [bind].
  rewrite <- !app_assoc.
  rewrite (app_assoc (be 4 1)).
  rewrite (run_RdExact_app _ d l p (be 4 1 ++ be 4 code) _ 8);
    [| rewrite lenN_app, !lenN_be; reflexivity | clear; lia].
  cbn [bind].
  rewrite (firstn_app_len _ _ 4 (be_length 4 1)), (skipn_app_len _ _ 4 (be_length 4 1)).
  rewrite !unbe_be by (rewrite pow256_4; first [assumption | reflexivity]).
  change (1 =? 1) with true. cbv iota. cbn [bind].
  rewrite (run_RdExact_app _ d l (p + 8) (be 8 (16 + n)) rest 8);
    [| apply lenN_be | clear; lia].
  cbn [bind]. rewrite unbe_be by (rewrite pow256_8; exact Hn).
  destruct (N.eqb_spec (16 + n) 0) as [E|_]; [exfalso; clear -E; lia|].
  destruct (N.ltb_spec (16 + n) 16) as [E|_]; [exfalso; clear -E; lia|].
  replace (16 + n - 8) with (8 + n) by (clear; lia).
  replace (p + 8 + 8) with (p + 16) by (clear; lia).
  reflexivity.
Qed.

Lemma run_read_header32_bind {A} code n rest (k : boxtype * N -> prog A) d l p :
  code < U32 -> 8 + n < U32 ->
  run (bind read_header k) (mkStream d l p (hdr32 code n ++ rest))
  = run (k (boxtype_of_u32 code, 8 + n)) (mkStream d l (p + 8) rest).
Proof.
  intros Hc Hn. unfold hdr32. rewrite <- app_assoc.
  apply run_read_header_bind; [exact Hn | clear; lia | exact Hc].
Qed.

(** both forms at once: the body then runs at [p + c_hlen c], and [box_start] there is
    [p + c_hlen c - 8] *)
Lemma run_read_header_child {A} c rest (k : boxtype * N -> prog A) d l p :
  child_wf c ->
  run (bind read_header k) (mkStream d l p (c_bytes c ++ rest))
  = run (k (boxtype_of_u32 (c_code c), c_s c)) (mkStream d l (p + c_hlen c) (c_payload c ++ rest)).
Proof.
  intros [Hc Hn]. unfold c_bytes, c_hdr, c_hlen, c_s. rewrite <- app_assoc.
  destruct (c_w64 c).
  - now apply run_read_header64_bind.
  - now apply run_read_header32_bind.
Qed.

(** ** Mechanism (i): a 64-bit header changes nothing for a leaf decoder *)

(** the last conjunct of [leaf_roundtrip], for one value *)
Definition leaf_decodes {X} (dec : mode -> N -> prog X) (size : N) (payload : bytes) (v : X) : Prop :=
  forall m d l p post, p + size < 2 ^ 63 ->
    run (dec m size) (mkStream d l (p + 8) (payload ++ post)) = (Ok v, mkStream d l (p + size) post).

Lemma leaf_roundtrip_decodes {X} wf size code enc (dec : mode -> N -> prog X) payload v :
  leaf_roundtrip wf size code enc dec payload -> wf v = true -> size v < U32 ->
  leaf_decodes dec (size v) (payload v) v /\ lenN (payload v) + 8 = size v.
Proof.
  intros H Hw Hs. destruct (H v Hw Hs) as (_ & _ & _ & Hl & Hd). split; [exact Hd | exact Hl].
Qed.

(** the rendering with either header decodes to [v] and ends exactly after the payload *)
Theorem hdr_any_leaf {X} (dec : mode -> N -> prog X) c v m d l p post :
  leaf_decodes dec (c_s c) (c_payload c) v -> child_wf c -> p + c_len c < 2 ^ 63 ->
  run (h <- read_header ;; dec m (snd h)) (mkStream d l p (c_bytes c ++ post))
  = (Ok v, mkStream d l (p + c_len c) post).
Proof.
  intros Hd Hw Hp. rewrite run_read_header_child by exact Hw. cbn [snd].
  unfold c_len, c_hlen, c_s in *. destruct (c_w64 c).
  - replace (p + 16) with (p + 8 + 8) by (clear; lia).
    rewrite Hd by (clear -Hp; lia). stream_eq.
  - rewrite Hd by (clear -Hp; lia). stream_eq.
Qed.

Theorem hdr64_leaf {X} (dec : mode -> N -> prog X) code payload v m d l p post :
  leaf_decodes dec (8 + lenN payload) payload v -> code < U32 -> p + 16 + lenN payload < 2 ^ 63 ->
  run (h <- read_header ;; dec m (snd h)) (mkStream d l p (hdr64 code (lenN payload) ++ payload ++ post))
  = (Ok v, mkStream d l (p + 16 + lenN payload) post).
Proof.
  intros Hd Hc Hp.
  pose proof (hdr_any_leaf dec (mkChild true code payload) v m d l p post Hd) as H.
  unfold c_bytes, c_hdr, c_len, c_hlen in H. cbn [c_w64 c_code c_payload] in H.
  rewrite <- app_assoc in H. rewrite N.add_assoc in H. apply H.
  - split; [exact Hc|]. cbn [c_w64 c_payload]. clear -Hp. unfold U64. lia.
  - exact Hp.
Qed.

Theorem hdr32_leaf {X} (dec : mode -> N -> prog X) code payload v m d l p post :
  leaf_decodes dec (8 + lenN payload) payload v -> code < U32 -> 8 + lenN payload < U32 ->
  p + 8 + lenN payload < 2 ^ 63 ->
  run (h <- read_header ;; dec m (snd h)) (mkStream d l p (hdr32 code (lenN payload) ++ payload ++ post))
  = (Ok v, mkStream d l (p + 8 + lenN payload) post).
Proof.
  intros Hd Hc Hn Hp.
  pose proof (hdr_any_leaf dec (mkChild false code payload) v m d l p post Hd) as H.
  unfold c_bytes, c_hdr, c_len, c_hlen in H. cbn [c_w64 c_code c_payload] in H.
  rewrite <- app_assoc in H. rewrite N.add_assoc in H. apply H.
  - split; [exact Hc|]. cbn [c_w64 c_payload]. exact Hn.
  - exact Hp.
Qed.

(** [read_header] and [box_start] on the 64-bit form, as stated in C12 (i) *)
Theorem hdr64_header_and_start code payload post m d l p :
  code < U32 -> 16 + lenN payload < U64 ->
  run (h <- read_header ;; st <- box_start m ;; Ret (h, st))
      (mkStream d l p (hdr64 code (lenN payload) ++ payload ++ post))
  = (Ok ((boxtype_of_u32 code, 8 + lenN payload), p + 8), mkStream d l (p + 16) (payload ++ post)).
Proof.
  intros Hc Hn. rewrite run_read_header64_bind by assumption.
  unfold box_start. cbn [bind get_pos run s_pos].
  rewrite run_sub64_ok by (clear; unfold HEADER_SIZE, Tables.HEADER_SIZE; lia).
  cbn [run]. f_equal. f_equal. f_equal. unfold HEADER_SIZE, Tables.HEADER_SIZE. clear; lia.
Qed.

(** ** [skip_box] after either header ends at the end of the child *)
Lemma run_skip_box_bind {A} m s h rest (k : unit -> prog A) d l q :
  8 + lenN h = s -> q + s < 2 ^ 63 ->
  run (bind (skip_box m s) k) (mkStream d l (q + 8) (h ++ rest)) = run (k tt) (mkStream d l (q + s) rest).
Proof.
  intros Hs Hq. unfold skip_box, box_start. rewrite !bind_bind. cbn [bind get_pos run s_pos].
  rewrite run_sub64_ok by (clear; unfold HEADER_SIZE, Tables.HEADER_SIZE; lia).
  rewrite bind_bind.
  rewrite run_add64_ok by (clear -Hq; unfold HEADER_SIZE, Tables.HEADER_SIZE, U64; lia).
  rewrite run_seek_to_fwd by (clear -Hs; unfold HEADER_SIZE, Tables.HEADER_SIZE; lia).
  f_equal. f_equal.
  - unfold HEADER_SIZE, Tables.HEADER_SIZE. clear; lia.
  - apply dropN_app_n. unfold HEADER_SIZE, Tables.HEADER_SIZE. clear -Hs. lia.
Qed.

(** ** One iteration of the child loop *)

Definition guard_ok (cs : option N) (s : N) : Prop :=
  match cs with Some size => s <= size | None => True end.

(** one iteration over a rendered child whose body [dispatch] turns into [acc'] *)
Lemma loop_gen_step {Acc R} fuel m cs cz end_
      (dispatch : nat -> N -> boxtype -> N -> Acc -> prog Acc) (fin : Acc -> N -> R)
      acc acc' c rest d l p :
  child_wf c -> p < end_ -> guard_ok cs (c_s c) ->
  run (dispatch fuel p (boxtype_of_u32 (c_code c)) (c_s c) acc)
      (mkStream d l (p + c_hlen c) (c_payload c ++ rest))
  = (Ok acc', mkStream d l (p + c_len c) rest) ->
  run (children_loop_gen (S fuel) m cs cz end_ dispatch fin acc p) (mkStream d l p (c_bytes c ++ rest))
  = run (children_loop_gen fuel m cs cz end_ dispatch fin acc' (p + c_len c))
        (mkStream d l (p + c_len c) rest).
Proof.
  intros Hw Hp Hg Hbody. rewrite children_loop_gen_eq.
  destruct (N.ltb_spec p end_) as [_|E]; [|exfalso; clear -E Hp; lia].
  rewrite run_read_header_child by exact Hw. cbv iota beta.
  assert (G : match cs with Some size => size <? c_s c | None => false end = false).
  { destruct cs as [size|]; [|reflexivity]. cbn in Hg. apply N.ltb_ge. exact Hg. }
  rewrite G. cbv iota.
  assert (Z : (c_s c =? 0) = false) by (apply N.eqb_neq; unfold c_s; clear; lia).
  rewrite Z, andb_false_r. cbv iota.
  rewrite run_bind, Hbody. reflexivity.
Qed.

(** *** Mechanism (ii): a child that [dispatch] hands to [skip_box] leaves the accumulator
    unchanged and the loop continues at the child's end (one unit of fuel is used) *)
Definition skips {Acc} (m : mode) (dispatch : nat -> N -> boxtype -> N -> Acc -> prog Acc)
           (name : boxtype) : Prop :=
  forall f cur s a, dispatch f cur name s a = (skip_box m s ;;; Ret a).

Theorem loop_gen_skip {Acc R} fuel m cs cz end_
        (dispatch : nat -> N -> boxtype -> N -> Acc -> prog Acc) (fin : Acc -> N -> R)
        acc c rest d l p :
  skips m dispatch (boxtype_of_u32 (c_code c)) ->
  child_wf c -> p < end_ -> guard_ok cs (c_s c) -> p + c_len c < 2 ^ 63 ->
  run (children_loop_gen (S fuel) m cs cz end_ dispatch fin acc p) (mkStream d l p (c_bytes c ++ rest))
  = run (children_loop_gen fuel m cs cz end_ dispatch fin acc (p + c_len c))
        (mkStream d l (p + c_len c) rest).
Proof.
  intros Hs Hw Hp Hg Hb. apply loop_gen_step; try assumption.
  rewrite Hs. unfold c_len, c_hlen, c_s in *.
  destruct (c_w64 c).
  - replace (p + 16) with (p + 8 + 8) by (clear; lia).
    rewrite (run_skip_box_bind m (8 + lenN (c_payload c))) by (first [reflexivity | clear -Hb; lia]).
    cbn [run]. stream_eq.
  - rewrite (run_skip_box_bind m (8 + lenN (c_payload c))) by (first [reflexivity | clear -Hb; lia]).
    cbn [run]. stream_eq.
Qed.

(** a type code outside the [boxtype!] table is [UnknownBox] *)
Lemma boxtype_of_u32_unknown c :
  forallb (fun e => negb (snd e =? c)) Tables.boxtype_table = true -> boxtype_of_u32 c = UnknownBox c.
Proof.
  intros H. unfold boxtype_of_u32.
  assert (F : find (fun e : string * N => snd e =? c) Tables.boxtype_table = None).
  { revert H. generalize Tables.boxtype_table. induction l as [|e t IH]; cbn [forallb find]; [reflexivity|].
    intros H. apply andb_true_iff in H. destruct H as [H1 H2].
    apply negb_true_iff in H1. rewrite H1. now apply IH. }
  now rewrite F.
Qed.

(** ** Mechanism (iii), statement: spare bytes after the last field are ignored *)
Definition tail_ignored {X} (wf : X -> bool) (size : X -> N) (dec : mode -> N -> prog X)
           (payload : X -> bytes) : Prop :=
  forall v, wf v = true ->
  forall m d l p spare post, p + size v + lenN spare < 2 ^ 63 ->
    run (dec m (size v + lenN spare)) (mkStream d l (p + 8) (payload v ++ spare ++ post))
    = (Ok v, mkStream d l (p + size v + lenN spare) post).

(** with spare bytes the box is still a [leaf_decodes] box, of the larger size *)
Lemma tail_ignored_decodes {X} wf size (dec : mode -> N -> prog X) payload v spare :
  tail_ignored wf size dec payload -> wf v = true ->
  leaf_decodes dec (size v + lenN spare) (payload v ++ spare) v.
Proof.
  intros H Hw m d l p post Hp. rewrite <- app_assoc. rewrite N.add_assoc in *. now apply H.
Qed.

(** ** The loop over a list of children *)

(** [dispatch] turns the body of [c] into the pure accumulator update [upd], wherever the
    body is and whatever the accumulator (the statement does not mention the header form) *)
Definition body_ok {Acc} (dispatch : nat -> boxtype -> N -> Acc -> prog Acc) (F0 : nat)
           (c : child) (upd : Acc -> Acc) : Prop :=
  forall f a d l q rest, (F0 <= f)%nat -> q + c_s c < 2 ^ 63 ->
    run (dispatch f (boxtype_of_u32 (c_code c)) (c_s c) a) (mkStream d l (q + 8) (c_payload c ++ rest))
    = (Ok (upd a), mkStream d l (q + c_s c) rest).

Lemma body_ok_with_w64 {Acc} (dispatch : nat -> boxtype -> N -> Acc -> prog Acc) F0 c upd b :
  body_ok dispatch F0 c upd -> body_ok dispatch F0 (with_w64 b c) upd.
Proof. intros H. exact H. Qed.

Lemma body_ok_mono {Acc} (dispatch : nat -> boxtype -> N -> Acc -> prog Acc) F0 F1 c upd :
  (F0 <= F1)%nat -> body_ok dispatch F0 c upd -> body_ok dispatch F1 c upd.
Proof. intros HF H f a d l q rest Hf Hq. apply H; [lia | exact Hq]. Qed.

(** a skipped child is the identity update *)
Lemma body_ok_skip {Acc} m (dispatch : nat -> boxtype -> N -> Acc -> prog Acc) F0 c :
  skips m (fun f (_ : N) => dispatch f) (boxtype_of_u32 (c_code c)) ->
  body_ok dispatch F0 c (fun a => a).
Proof.
  intros Hs f a d l q rest _ Hq.
  change (dispatch f (boxtype_of_u32 (c_code c)) (c_s c) a)
    with ((fun f (_ : N) => dispatch f) f 0 (boxtype_of_u32 (c_code c)) (c_s c) a).
  rewrite Hs. rewrite (run_skip_box_bind m (c_s c)) by (first [reflexivity | exact Hq]).
  reflexivity.
Qed.

Definition render (cs : list child) : bytes := flat_map c_bytes cs.
Definition total_len (cs : list child) : N := sumN (map c_len cs).

Lemma lenN_render cs : lenN (render cs) = total_len cs.
Proof.
  induction cs as [|c t IH]; [reflexivity|].
  unfold render, total_len in *. cbn [flat_map map sumN fold_right].
  rewrite lenN_app, lenN_c_bytes, IH. reflexivity.
Qed.

Definition apply_all {Acc} (upds : list (Acc -> Acc)) (a : Acc) : Acc :=
  fold_left (fun x u => u x) upds a.

(** [children_loop] over rendered children that fill the parent exactly *)
Theorem loop_children {Acc} m size (dispatch : nat -> boxtype -> N -> Acc -> prog Acc) F0 :
  forall (cs : list child) (upds : list (Acc -> Acc)),
  Forall2 (body_ok dispatch F0) cs upds ->
  Forall child_wf cs ->
  Forall (fun c => c_s c <= size) cs ->
  forall fuel acc d l p rest,
  (F0 + length cs <= fuel)%nat ->
  p + total_len cs < 2 ^ 63 ->
  run (children_loop fuel m (Some size) true (p + total_len cs) dispatch acc p)
      (mkStream d l p (render cs ++ rest))
  = (Ok (apply_all upds acc), mkStream d l (p + total_len cs) rest).
Proof.
  intros cs upds H2. induction H2 as [|c u cs upds Hc H2 IH]; intros Hwf Hsz fuel acc d l p rest Hf Hp.
  - unfold children_loop, total_len. cbn [map sumN fold_right render flat_map app apply_all fold_left].
    rewrite N.add_0_r. rewrite children_loop_gen_done by (clear; lia). reflexivity.
  - inversion Hwf as [|? ? Hw1 Hw2]; subst. inversion Hsz as [|? ? Hs1 Hs2]; subst.
    destruct fuel as [|fuel]; [exfalso; cbn [length] in Hf; clear -Hf; lia|].
    assert (Hlen : total_len (c :: cs) = c_len c + total_len cs) by reflexivity.
    assert (Hpos : 0 < c_len c) by (unfold c_len, c_hlen; destruct (c_w64 c); clear; lia).
    unfold children_loop, render. cbn [flat_map]. rewrite <- app_assoc.
    rewrite (loop_gen_step fuel m (Some size) true _ _ _ acc (u acc) c).
    + fold (render cs). rewrite Hlen.
      replace (p + (c_len c + total_len cs)) with (p + c_len c + total_len cs) by (clear; lia).
      apply (IH Hw2 Hs2 fuel (u acc) d l (p + c_len c) rest).
      * cbn [length] in Hf. clear -Hf. lia.
      * rewrite Hlen in Hp. clear -Hp. lia.
    + exact Hw1.
    + rewrite Hlen. clear -Hpos. lia.
    + exact Hs1.
    + rewrite Hlen in Hp. cbn [length] in Hf.
      unfold c_len, c_hlen, c_s in *. destruct (c_w64 c).
      * replace (p + 16) with (p + 8 + 8) by (clear; lia).
        rewrite Hc by (first [ clear -Hf; lia | unfold c_s; clear -Hp; lia ]).
        unfold c_s; stream_eq.
      * rewrite Hc by (first [ clear -Hf; lia | unfold c_s; clear -Hp; lia ]).
        unfold c_s; stream_eq.
Qed.
