(** * Layout independence over box trees (property C12): the generic part

    [Props/C12.v] states the property over box trees ([btree], [tstep] / [lstep]) and proves it per
    mechanism.  This file and [LayoutTree.v] glue the mechanisms together by one argument that is
    the same at every level of the box hierarchy:

    - [sem t it] (section [Level]): the tree [t], seen as a child of a loop with body [body],
      decodes to the item [it] FOR A STRUCTURAL REASON: its type is unknown to the loop (skipped),
      or it is an opaque box whose body decodes to [it] at any position of any consistent stream
      (and still does with spare bytes appended, when its type allows spare bytes), or it is a
      container the development has a fold theorem for and its children have a [sem] one level
      down ([sub]).  A tree is "canonical" when it has a [sem].
    - [sem_step]: if [tstep a b] (or [a = b]) and both have a [sem], the two items are equal up to
      [strip] (the chunk offsets).  No induction: the case [ts_kids] is the hypothesis [Hsub_step],
      discharged one level down by [node_step], which uses [lstep_put] of that level.
    - [lstep_put]: if [lstep known kids kids'] and both lists have a [sem], the folds of the
      stripped items agree.
    - [node_dec] / [node_step] (section [Node]): a container whose children have a [sem] and whose
      fold finishes has a [sem] one level up.

    Streams are consistent ([decodes_to_s], LayoutOpenS.v) because [meta] seeks backwards. *)
From MP4 Require Import LayoutKit LayoutProofs LayoutMore LayoutOpen LayoutOpenS Reader.
From MP4 Require Import C12.
From MP4 Require C16Proofs.
From MP4 Require Import IsoStco IsoCo64.
From Coq Require Import Lia ZifyN ZifyNat ZifyBool.
Open Scope string_scope.
Open Scope list_scope.
Open Scope N_scope.

Lemma Forall2_imp {A B} (R R' : A -> B -> Prop) l l' :
  (forall a b, R a b -> R' a b) -> Forall2 R l l' -> Forall2 R' l l'.
Proof. intros H. induction 1; constructor; auto. Qed.

(** ** Containers on consistent streams *)

Lemma apply_at_const {Acc Item} (put : Item -> Acc -> Acc) cs : forall p items a,
  length cs = length items ->
  apply_at p cs (map (fun it (_ : N) => put it) items) a = put_all put items a.
Proof.
  induction cs as [|c cs IH]; intros p [|it items] a Hl; try discriminate Hl; [reflexivity|].
  cbn [map apply_at]. rewrite IH by (cbn [length] in Hl; lia). reflexivity.
Qed.

Lemma decodes_body_ok_at_s {Acc Item} (dispatch : nat -> boxtype -> N -> Acc -> prog Acc)
      (body : nat -> boxtype -> N -> prog Item) (put : Item -> Acc -> Acc) F0 c it :
  has_shape dispatch body put ->
  decodes_to_s body F0 c it -> body_ok_at_s (fun f (_ : N) => dispatch f) F0 c (fun _ => put it).
Proof.
  intros Hshape H f cur a d l q rest Hf Hq Hd.
  rewrite Hshape, run_bind, (H f d l q rest Hf Hq Hd). reflexivity.
Qed.

(** [container_children] (LayoutProofs.v) for a consistent stream *)
Theorem container_children_s {Acc Item X} m site
        (dispatch : nat -> boxtype -> N -> Acc -> prog Acc) (body : nat -> boxtype -> N -> prog Item)
        (put : Item -> Acc -> Acc) (acc0 : Acc)
        (K : Acc -> N -> N -> prog X) (finish : Acc -> option X) :
  has_shape dispatch body put ->
  (forall a start size d l rest, start + size < 2 ^ 63 ->
     run (K a start size) (mkStream d l (start + size) rest)
     = (opt_res_data (finish a), mkStream d l (start + size) rest)) ->
  forall fuel cs items F0 d l p rest,
  Forall2 (decodes_to_s body F0) cs items -> Forall child_wf cs ->
  (F0 + length cs <= fuel)%nat -> p + 8 + total_len cs < 2 ^ 63 ->
  dropN (p + 8) d = render cs ++ rest ->
  run (start <- box_start m ;;
       current <- get_pos ;;
       end_ <- add64 m site start (8 + total_len cs) ;;
       a <- children_loop fuel m (Some (8 + total_len cs)) true end_ dispatch acc0 current ;;
       K a start (8 + total_len cs))
      (mkStream d l (p + 8) (render cs ++ rest))
  = (opt_res_data (finish (put_all put items acc0)), mkStream d l (p + 8 + total_len cs) rest).
Proof.
  intros Hshape HK fuel cs items F0 d l p rest H2 Hwf Hf Hp Hd.
  unfold box_start. rewrite !bind_bind. cbn [bind get_pos run s_pos].
  rewrite run_sub64_ok by (clear; unfold HEADER_SIZE, Tables.HEADER_SIZE; lia).
  replace (p + 8 - HEADER_SIZE) with p by (unfold HEADER_SIZE, Tables.HEADER_SIZE; clear; lia).
  cbn [bind run s_pos].
  rewrite run_add64_ok by (clear -Hp; unfold U64; lia).
  replace (p + (8 + total_len cs)) with (p + 8 + total_len cs) by (clear; lia).
  rewrite run_bind. unfold children_loop.
  rewrite (loop_gen_children_s m (Some (8 + total_len cs)) (fun f (_ : N) => dispatch f) (fun a (_ : N) => a)
             F0 cs (map (fun it (_ : N) => put it) items)).
  - rewrite apply_at_const by (exact (Forall2_len _ _ _ H2)).
    replace (p + 8 + total_len cs) with (p + (8 + total_len cs)) by (clear; lia).
    apply HK. clear -Hp. lia.
  - clear -H2 Hshape. induction H2; cbn [map]; constructor; auto.
    now apply (decodes_body_ok_at_s dispatch body put).
  - exact Hwf.
  - apply Forall_forall. intros c Hc. cbn [guard_ok]. now apply c_s_le_total.
  - exact Hf.
  - clear -Hp. lia.
  - exact Hd.
Qed.

(** a nested container is a child of its parent ([decodes_to_nested] for consistent streams) *)
Lemma decodes_to_nested_s {Item X} (body : nat -> boxtype -> N -> prog Item)
      (decf : nat -> mode -> N -> prog X) m (mk : X -> Item) name c cs F v :
  boxtype_of_u32 (c_code c) = name -> c_payload c = render cs ->
  (forall f s st, run (body f name s) st = run (x <- decf f m s ;; Ret (mk x)) st) ->
  (forall fuel d l p rest, (F <= fuel)%nat -> p + 8 + total_len cs < 2 ^ 63 ->
     dropN (p + 8) d = render cs ++ rest ->
     run (decf fuel m (8 + total_len cs)) (mkStream d l (p + 8) (render cs ++ rest))
     = (Ok v, mkStream d l (p + 8 + total_len cs) rest)) ->
  decodes_to_s body F c (mk v).
Proof.
  intros Hn Hpay Hb Hd f d l q rest Hf Hq Hdd. rewrite Hn, Hb, run_bind.
  unfold c_s in *. rewrite Hpay in *. rewrite lenN_render in *.
  rewrite (Hd f d l q rest Hf) by (first [clear -Hq; lia | exact Hdd]).
  cbn [run]. stream_eq.
Qed.

(** a child decodes to one item only *)
Lemma decodes_to_s_det {Item} (body : nat -> boxtype -> N -> prog Item) F F' c it it' :
  decodes_to_s body F c it -> decodes_to_s body F' c it' -> c_s c < 2 ^ 63 -> it = it'.
Proof.
  intros H H' Hs.
  assert (Hd : dropN (0 + 8) (repeat 0 8 ++ c_payload c ++ []) = c_payload c ++ [])
    by (apply dropN_app_n; reflexivity).
  pose proof (H (Nat.max F F') (repeat 0 8 ++ c_payload c ++ []) 0 0 []
                (Nat.le_max_l F F') Hs Hd) as E.
  pose proof (H' (Nat.max F F') (repeat 0 8 ++ c_payload c ++ []) 0 0 []
                 (Nat.le_max_r F F') Hs Hd) as E'.
  rewrite E in E'. now inversion E'.
Qed.

(** the item is of the kind of the child's type *)
Lemma decodes_to_s_run {Item} (body : nat -> boxtype -> N -> prog Item) F c it :
  decodes_to_s body F c it -> c_s c < 2 ^ 63 ->
  exists f st st', run (body f (boxtype_of_u32 (c_code c)) (c_s c)) st = (Ok it, st').
Proof.
  intros H Hs.
  assert (Hd : dropN (0 + 8) (repeat 0 8 ++ c_payload c ++ []) = c_payload c ++ [])
    by (apply dropN_app_n; reflexivity).
  pose proof (H F (repeat 0 8 ++ c_payload c ++ []) 0 0 [] (Nat.le_refl F) Hs Hd) as E.
  eauto.
Qed.

(** ** Codes *)
Lemma table_ok_boxtypes : C16Proofs.table_ok Tables.boxtype_table = true.
Proof. vm_compute. reflexivity. Qed.

Lemma boxtype_of_u32_inj c c' : boxtype_of_u32 c = boxtype_of_u32 c' -> c = c'.
Proof.
  intros H. rewrite <- (C16Proofs.u32_boxtype_u32 table_ok_boxtypes c),
                    <- (C16Proofs.u32_boxtype_u32 table_ok_boxtypes c'). now rewrite H.
Qed.

Lemma tstep_code a b : tstep a b -> c_code (bt_child a) = c_code (bt_child b).
Proof. intros H. destruct H; reflexivity. Qed.

Lemma render_map_bt_child kids : render (map bt_child kids) = flat_map (fun k => c_bytes (bt_child k)) kids.
Proof.
  unfold render. induction kids as [|k t IH]; [reflexivity|]. cbn [map flat_map]. now rewrite IH.
Qed.

Lemma bt_child_node w code kids : bt_child (BNode w code kids) = mkChild w code (render (map bt_child kids)).
Proof. cbn [bt_child]. now rewrite render_map_bt_child. Qed.

(** the chunk-offset rewriting steps of [tstep], on children *)
Inductive chunk_rewrite : child -> child -> Prop :=
| cr_stco w v v' spare :
    stco_version v' = stco_version v -> stco_flags v' = stco_flags v ->
    length (stco_entries v') = length (stco_entries v) ->
    chunk_rewrite (mkChild w 0x7374636f (iso_stco_payload v ++ spare))
                  (mkChild w 0x7374636f (iso_stco_payload v' ++ spare))
| cr_co64 w v v' spare :
    co64_version v' = co64_version v -> co64_flags v' = co64_flags v ->
    length (co64_entries v') = length (co64_entries v) ->
    chunk_rewrite (mkChild w 0x636f3634 (iso_co64_payload v ++ spare))
                  (mkChild w 0x636f3634 (iso_co64_payload v' ++ spare)).

(** ** One level of the hierarchy *)
Definition opaque (t : btree) : Prop :=
  match t with BLeaf _ => True | BNode _ code _ => iterating code = None end.

Definition spare_allowed (t : btree) (spare : bytes) : Prop :=
  spare = [] \/ exists c, t = BLeaf c /\ spare_ok (c_code c) = true.

Section Level.
  Context {Item Acc : Type}.
  Variable body : nat -> boxtype -> N -> prog Item.
  Variable known : boxtype -> bool.
  Variable skip_it : Item.
  Variable put : Item -> Acc -> Acc.
  Variable kind : Item -> nat.
  Variable name_kind : boxtype -> nat.
  Variable strip : Item -> Item.
  Variable sub : btree -> Item -> Prop.

  Inductive sem : btree -> Item -> Prop :=
  | sem_skip t : known (boxtype_of_u32 (c_code (bt_child t))) = false -> sem t skip_it
  | sem_opaque t it F0 :
      opaque t -> known (boxtype_of_u32 (c_code (bt_child t))) = true ->
      c_s (bt_child t) < 2 ^ 63 ->
      decodes_to_s body F0 (bt_child t) it ->
      (forall spare, spare_allowed t spare -> decodes_to_s body F0 (with_tail spare (bt_child t)) it) ->
      sem t it
  | sem_sub t it : sub t it -> sem t it.

  Hypothesis Hskip : forall c, known (boxtype_of_u32 (c_code c)) = false -> decodes_to body 0 c skip_it.
  Hypothesis Hbody_kind : forall f n s st i st', run (body f n s) st = (Ok i, st') -> kind i = name_kind n.
  Hypothesis Hkind0 : forall i, kind i = 0%nat -> i = skip_it.
  Hypothesis Hkind_skip : kind skip_it = 0%nat.
  Hypothesis Hknown_kind : forall n, known n = false -> name_kind n = 0%nat.
  Hypothesis Hname_kind : forall n1 n2, name_kind n1 = name_kind n2 -> n1 = n2 \/ name_kind n1 = 0%nat.
  Hypothesis Hput_comm : forall i j a, kind i <> kind j -> put i (put j a) = put j (put i a).
  Hypothesis Hput_skip : forall a, put skip_it a = a.
  Hypothesis Hstrip_kind : forall i, kind (strip i) = kind i.

  Hypothesis Hsub_shape : forall t it, sub t it ->
    exists w code kids kn, t = BNode w code kids /\ iterating code = Some kn
                           /\ known (boxtype_of_u32 code) = true.
  Hypothesis Hsub_dec : forall t it, sub t it ->
    c_s (bt_child t) < 2 ^ 63 /\ exists F, decodes_to_s body F (bt_child t) it.
  Hypothesis Hsub_step : forall a b it it', (a = b \/ tstep a b) -> sub a it -> sub b it' -> strip it = strip it'.
  Hypothesis Hchunk : forall c c' it it' F F',
    chunk_rewrite c c' -> known (boxtype_of_u32 (c_code c)) = true ->
    decodes_to_s body F c it -> decodes_to_s body F' c' it' -> c_s c < 2 ^ 63 -> c_s c' < 2 ^ 63 ->
    strip it = strip it'.

  Lemma strip_skip : strip skip_it = skip_it.
  Proof. apply Hkind0. now rewrite Hstrip_kind. Qed.

  Lemma sem_dec t it : sem t it -> exists F, decodes_to_s body F (bt_child t) it.
  Proof.
    intros [t' Hk|t' it' F0 _ _ _ Hd _|t' it' Hs].
    - exists 0%nat. apply decodes_to_s_of. now apply Hskip.
    - now exists F0.
    - exact (proj2 (Hsub_dec _ _ Hs)).
  Qed.

  Lemma sem_unknown t it : sem t it -> known (boxtype_of_u32 (c_code (bt_child t))) = false -> it = skip_it.
  Proof.
    intros [t' Hk|t' it' F0 _ Hk _ _ _|t' it' Hs] Hu.
    - reflexivity.
    - rewrite Hk in Hu. discriminate Hu.
    - destruct (Hsub_shape _ _ Hs) as (w & code & kids & kn & -> & _ & Hk).
      cbn [bt_child c_code] in Hu. rewrite Hk in Hu. discriminate Hu.
  Qed.

  Lemma sem_kind t it : sem t it -> kind it = name_kind (boxtype_of_u32 (c_code (bt_child t))).
  Proof.
    intros [t' Hk|t' it' F0 _ _ Hs Hd _|t' it' Hs].
    - now rewrite Hkind_skip, Hknown_kind.
    - destruct (decodes_to_s_run body F0 _ _ Hd Hs) as (f & st & st' & E). exact (Hbody_kind _ _ _ _ _ _ E).
    - destruct (Hsub_dec _ _ Hs) as (Hsm & F & Hd).
      destruct (decodes_to_s_run body F _ _ Hd Hsm) as (f & st & st' & E). exact (Hbody_kind _ _ _ _ _ _ E).
  Qed.

  (** the case analysis of a layout step *)
  Theorem sem_step a b it it' : (a = b \/ tstep a b) -> sem a it -> sem b it' -> strip it = strip it'.
  Proof.
    intros Hab Ha Hb.
    assert (Hcode : c_code (bt_child a) = c_code (bt_child b))
      by (destruct Hab as [->|H]; [reflexivity | now apply tstep_code]).
    destruct (known (boxtype_of_u32 (c_code (bt_child a)))) eqn:Hk.
    2:{ rewrite (sem_unknown _ _ Ha Hk). rewrite Hcode in Hk. now rewrite (sem_unknown _ _ Hb Hk). }
    assert (Hk' : known (boxtype_of_u32 (c_code (bt_child b))) = true) by (now rewrite <- Hcode).
    destruct Ha as [ta Hka|ta ia Fa Hoa _ Hsa Hda Hta|ta ia Hsuba].
    { rewrite Hk in Hka. discriminate Hka. }
    2:{ (* a is an interpreted container: so is b *)
      destruct Hb as [tb Hkb|tb ib Fb Hob _ _ _ _|tb ib Hsubb].
      - rewrite Hk' in Hkb. discriminate Hkb.
      - exfalso. destruct (Hsub_shape _ _ Hsuba) as (w & code & kids & kn & -> & Hit & _).
        destruct Hab as [<-|Hst].
        + cbn [opaque] in Hob. rewrite Hit in Hob. discriminate Hob.
        + inversion Hst; subst; cbn [opaque] in Hob; rewrite Hit in Hob; discriminate Hob.
      - exact (Hsub_step _ _ _ _ Hab Hsuba Hsubb). }
    (* a is opaque *)
    destruct Hb as [tb Hkb|tb ib Fb Hob _ Hsb Hdb _|tb ib Hsubb].
    { rewrite Hk' in Hkb. discriminate Hkb. }
    2:{ exfalso. destruct (Hsub_shape _ _ Hsubb) as (w & code & kids & kn & -> & Hit & _).
        destruct Hab as [->|Hst].
        - cbn [opaque] in Hoa. rewrite Hit in Hoa. discriminate Hoa.
        - inversion Hst; subst; cbn [opaque] in Hoa; rewrite Hit in Hoa; discriminate Hoa. }
    destruct Hab as [<-|Hst].
    { f_equal. exact (decodes_to_s_det body Fa Fb _ _ _ Hda Hdb Hsa). }
    inversion Hst; subst.
    - (* ts_hdr_leaf *) f_equal. exact (decodes_to_s_det body Fa Fb _ _ _ Hda Hdb Hsa).
    - (* ts_hdr_node *) f_equal. exact (decodes_to_s_det body Fa Fb _ _ _ Hda Hdb Hsa).
    - (* ts_spare *)
      f_equal. cbn [bt_child] in *.
      refine (decodes_to_s_det body Fa Fb _ _ _ (Hta spare _) Hdb Hsb).
      right. eexists. split; [reflexivity|assumption].
    - (* ts_stco *)
      cbn [bt_child] in *.
      refine (Hchunk _ _ _ _ Fa Fb _ Hk Hda Hdb Hsa Hsb). now constructor.
    - (* ts_co64 *)
      cbn [bt_child] in *.
      refine (Hchunk _ _ _ _ Fa Fb _ Hk Hda Hdb Hsa Hsb). now constructor.
    - (* ts_kids: not opaque *)
      exfalso. cbn [opaque] in Hoa.
      match goal with H : iterating _ = Some _ |- _ => rewrite H in Hoa; discriminate Hoa end.
  Qed.

  (** lists of children *)
  Lemma sems_dec kids items : Forall2 sem kids items ->
    exists F0, Forall2 (decodes_to_s body F0) (map bt_child kids) items.
  Proof.
    induction 1 as [|k it kids items Hk _ (F0 & IH)]; [exists 0%nat; constructor|].
    destruct (sem_dec _ _ Hk) as (F & Hd). exists (Nat.max F F0). cbn [map]. constructor.
    - eapply decodes_to_s_mono; [|exact Hd]. apply Nat.le_max_l.
    - eapply Forall2_imp; [|exact IH]. intros c i Hc.
      eapply decodes_to_s_mono; [|exact Hc]. apply Nat.le_max_r.
  Qed.

  Lemma sems_strip kids items items' :
    Forall2 sem kids items -> Forall2 sem kids items' -> map strip items = map strip items'.
  Proof.
    intros H. revert items'. induction H as [|k it kids items Hk _ IH]; intros items' H'; inversion H'; subst.
    - reflexivity.
    - cbn [map]. f_equal; [|now apply IH]. eapply sem_step; [left; reflexivity| |]; eassumption.
  Qed.

  Lemma put_swap x y a ka kb :
    sem ka x -> sem kb y -> c_code (bt_child ka) <> c_code (bt_child kb) ->
    put (strip y) (put (strip x) a) = put (strip x) (put (strip y) a).
  Proof.
    intros Hx Hy Hne.
    destruct (Nat.eq_dec (kind x) (kind y)) as [E|NE].
    - rewrite (sem_kind _ _ Hx), (sem_kind _ _ Hy) in E.
      destruct (Hname_kind _ _ E) as [En|E0].
      + elim Hne. now apply boxtype_of_u32_inj.
      + assert (Ex : x = skip_it) by (apply Hkind0; now rewrite (sem_kind _ _ Hx)).
        assert (Ey : y = skip_it) by (apply Hkind0; rewrite (sem_kind _ _ Hy), <- E; exact E0).
        now rewrite Ex, Ey.
    - apply Hput_comm. rewrite !Hstrip_kind. auto.
  Qed.

  (** a layout step among the children of this loop: the stripped items fold to the same value *)
  Theorem lstep_put kids kids' items items' :
    (kids = kids' \/ lstep known kids kids') ->
    Forall2 sem kids items -> Forall2 sem kids' items' ->
    forall a, put_all put (map strip items) a = put_all put (map strip items') a.
  Proof.
    intros [<-|Hl] H H' a.
    { now rewrite (sems_strip _ _ _ H H'). }
    inversion Hl as [kn l1 l2 c Hunk Hwf|kn l1 l2 x y Hne|kn l1 l2 x y Hst]; subst.
    - apply Forall2_app_inv_l in H as (i1 & i2 & H1 & H2 & ->).
      apply Forall2_app_inv_l in H' as (i1' & j & H1' & Hj & ->).
      inversion Hj as [|? it ? i2' Hc H2']; subst.
      rewrite !map_app, !put_all_app. cbn [map]. rewrite put_all_cons.
      rewrite (sem_unknown _ _ Hc Hunk), strip_skip, Hput_skip.
      now rewrite (sems_strip _ _ _ H1 H1'), (sems_strip _ _ _ H2 H2').
    - apply Forall2_app_inv_l in H as (i1 & j & H1 & Hj & ->).
      apply Forall2_app_inv_l in H' as (i1' & j' & H1' & Hj' & ->).
      inversion Hj as [|? ix ? j2 Hx Hj2]; subst. inversion Hj2 as [|? iy ? i2 Hy H2]; subst.
      inversion Hj' as [|? iy' ? j2' Hy' Hj2']; subst. inversion Hj2' as [|? ix' ? i2' Hx' H2']; subst.
      rewrite !map_app, !put_all_app. cbn [map]. rewrite !put_all_cons.
      rewrite (sems_strip _ _ _ H1 H1'), (sems_strip _ _ _ H2 H2').
      rewrite (sem_step x x ix ix' (or_introl eq_refl) Hx Hx'), (sem_step y y iy iy' (or_introl eq_refl) Hy Hy').
      f_equal. exact (put_swap ix' iy' _ x y Hx' Hy' Hne).
    - apply Forall2_app_inv_l in H as (i1 & j & H1 & Hj & ->).
      apply Forall2_app_inv_l in H' as (i1' & j' & H1' & Hj' & ->).
      inversion Hj as [|? ix ? i2 Hx H2]; subst. inversion Hj' as [|? iy ? i2' Hy H2']; subst.
      rewrite !map_app, !put_all_app. cbn [map]. rewrite !put_all_cons.
      rewrite (sems_strip _ _ _ H1 H1'), (sems_strip _ _ _ H2 H2').
      now rewrite (sem_step x y ix iy (or_intror Hst) Hx Hy).
  Qed.
End Level.

(** ** A container one level up *)
Section Node.
  Context {Item Acc X PItem : Type}.
  (* this level *)
  Variable body : nat -> boxtype -> N -> prog Item.
  Variable known : boxtype -> bool.
  Variable skip_it : Item.
  Variable put : Item -> Acc -> Acc.
  Variable strip : Item -> Item.
  Variable sub : btree -> Item -> Prop.
  Variable acc0 : Acc.
  Variable finish : Acc -> option X.
  Variable strip_acc : Acc -> Acc.
  Variable strip_x : X -> X.
  Variable m : mode.
  Variable decf : nat -> mode -> N -> prog X.
  Variable code : N.
  (* the parent *)
  Variable pbody : nat -> boxtype -> N -> prog PItem.
  Variable mk : X -> PItem.
  Variable pstrip : PItem -> PItem.

  Definition node (t : btree) (it : PItem) : Prop :=
    exists w kids items v,
      t = BNode w code kids /\ Forall2 (sem body known skip_it sub) kids items /\
      Forall (fun k => child_wf (bt_child k)) kids /\
      finish (put_all put items acc0) = Some v /\ c_s (bt_child t) < 2 ^ 63 /\ it = mk v.

  Hypothesis Hdec : forall fuel cs items F0 d l p rest,
    Forall2 (decodes_to_s body F0) cs items -> Forall child_wf cs ->
    (F0 + length cs <= fuel)%nat -> p + 8 + total_len cs < 2 ^ 63 ->
    dropN (p + 8) d = render cs ++ rest ->
    run (decf fuel m (8 + total_len cs)) (mkStream d l (p + 8) (render cs ++ rest))
    = (opt_res_data (finish (put_all put items acc0)), mkStream d l (p + 8 + total_len cs) rest).
  Hypothesis Hpbody : forall f s st,
    run (pbody f (boxtype_of_u32 code) s) st = run (x <- decf f m s ;; Ret (mk x)) st.
  Hypothesis Hiter : iterating code = Some known.
  Hypothesis Hhom_put : forall i a, strip_acc (put i a) = put (strip i) (strip_acc a).
  Hypothesis Hhom_acc0 : strip_acc acc0 = acc0.
  Hypothesis Hhom_fin : forall a, finish (strip_acc a) = option_map strip_x (finish a).
  Hypothesis Hpstrip : forall v, pstrip (mk v) = mk (strip_x v).

  Hypothesis Hskip : forall c, known (boxtype_of_u32 (c_code c)) = false -> decodes_to body 0 c skip_it.
  Hypothesis Hsub_dec : forall t it, sub t it ->
    c_s (bt_child t) < 2 ^ 63 /\ exists F, decodes_to_s body F (bt_child t) it.
  (* the conclusion of [lstep_put] at this level *)
  Hypothesis Hlstep : forall kids kids' items items',
    (kids = kids' \/ lstep known kids kids') ->
    Forall2 (sem body known skip_it sub) kids items -> Forall2 (sem body known skip_it sub) kids' items' ->
    forall a, put_all put (map strip items) a = put_all put (map strip items') a.

  Lemma node_dec t it : node t it ->
    c_s (bt_child t) < 2 ^ 63 /\ exists F, decodes_to_s pbody F (bt_child t) it.
  Proof.
    intros (w & kids & items & v & -> & Hk & Hwf & Hfin & Hs & ->). split; [exact Hs|].
    destruct (sems_dec body known skip_it sub Hskip Hsub_dec kids items Hk) as (F0 & H2).
    exists (F0 + length (map bt_child kids))%nat. rewrite bt_child_node in *.
    apply (decodes_to_nested_s pbody decf m mk (boxtype_of_u32 code) _ (map bt_child kids));
      [reflexivity | reflexivity | exact Hpbody |].
    intros fuel d l p rest Hf Hp Hd.
    rewrite (Hdec fuel (map bt_child kids) items F0 d l p rest H2); try assumption.
    - now rewrite Hfin.
    - clear -Hwf. induction Hwf; cbn [map]; constructor; auto.
  Qed.

  Lemma strip_put_all items a : strip_acc (put_all put items a) = put_all put (map strip items) (strip_acc a).
  Proof.
    revert a. induction items as [|i t IH]; intros a; [reflexivity|].
    cbn [map]. rewrite !put_all_cons, IH, Hhom_put. reflexivity.
  Qed.

  Lemma node_step a b it it' : (a = b \/ tstep a b) -> node a it -> node b it' -> pstrip it = pstrip it'.
  Proof.
    intros Hab (w & kids & items & v & -> & Hk & _ & Hfin & _ & ->)
               (w' & kids' & items' & v' & -> & Hk' & _ & Hfin' & _ & ->).
    rewrite !Hpstrip. f_equal.
    assert (Hl : kids = kids' \/ lstep known kids kids').
    { destruct Hab as [E|Hst]; [left; now inversion E|].
      inversion Hst; subst; [now left|].
      match goal with H : iterating code = Some _ |- _ => rewrite Hiter in H; inversion H; subst end.
      now right. }
    assert (E : option_map strip_x (Some v) = option_map strip_x (Some v')).
    { rewrite <- Hfin, <- Hfin', <- !Hhom_fin, !strip_put_all, Hhom_acc0.
      now rewrite (Hlstep kids kids' items items' Hl Hk Hk'). }
    cbn [option_map] in E. now inversion E.
  Qed.

  Lemma node_shape t it : node t it -> exists w kids, t = BNode w code kids.
  Proof. intros (w & kids & _ & _ & -> & _). eauto. Qed.
End Node.

Print Assumptions container_children_s.
Print Assumptions sem_step.
Print Assumptions lstep_put.
Print Assumptions node_dec.
Print Assumptions node_step.
