(** * Layout invariance, mechanism (iii) for the fixed-layout boxes

    [mvhd], [tkhd], [mdhd], [vmhd], [smhd]: the box is rendered with [lenN spare] spare bytes
    after its last field and its size field increased accordingly.  Each decoder uses [size]
    only in the final [skip_bytes_to (start + size)], so it returns the same value and ends
    after the spare bytes.  The proofs are the [xxx_dec] lemmas of the Rt files replayed with
    [size v + lenN spare]; only the final seek differs ([run_SeekTo_tail]). *)
From MP4 Require Import LayoutKit BoxMvhd RtMvhd BoxTkhd IsoTkhd RtTkhd BoxMdhd IsoTables IsoMdhd RtMdhd
     BoxVmhd IsoVmhd RtVmhd BoxSmhd IsoSmhd RtSmhd.
From Coq Require Import ZifyN ZifyNat ZifyBool.
Open Scope string_scope.
Open Scope list_scope.
Open Scope N_scope.

(** the final [skip_bytes_to]: a forward seek over exactly [h] *)
Lemma run_SeekTo_tail {A} (k : prog A) d l pos q h post :
  q = pos + lenN h ->
  run (SeekTo q k) (mkStream d l pos (h ++ post)) = run k (mkStream d l q post).
Proof.
  intros ->. rewrite run_SeekTo_fwd by (clear; lia).
  rewrite (dropN_app_n _ h post) by (clear; lia). reflexivity.
Qed.

(** ** mvhd *)
Theorem mvhd_tail_ignored : tail_ignored mvhd_wf mvhd_size dec_mvhd mvhd_payload.
Proof.
  intros v H m d l p spare post Hp. unfold dec_mvhd, mvhd_payload.
  unfold mvhd_wf, matrix_wf in H. split_andb.
  match goal with H : mvhd_version v <? 2 = true |- _ =>
     pose proof (ufit_version _ H) as Hv1; apply N.ltb_lt in H; pose proof (mvhd_size_eq v H) as Hsz end.
  rewrite <- !app_assoc.
  prog_norm. cbn [run s_pos].
  rewrite run_sub64_ok by (clear; unfold HEADER_SIZE, Tables.HEADER_SIZE; lia).
  do 2 rd_step.
  destruct (N.eqb_spec (mvhd_version v) 1) as [E1|E1].
  - cbv iota in *. split_andb. rewrite <- !app_assoc.
    do 8 rd_step. unfold rd_matrix. do 9 rd_step.
    prog_norm.
    rewrite (run_SeekRel_app _ 24 (repeat 0 24)) by (first [reflexivity | clear -Hsz Hp; lia]).
    rd_step.
    rewrite run_add64_ok by (clear -Hsz Hp; unfold HEADER_SIZE, Tables.HEADER_SIZE, U64; lia).
    prog_norm.
    rewrite run_SeekTo_tail by (clear -Hsz; unfold HEADER_SIZE, Tables.HEADER_SIZE; lia).
    cbn [run]. f_equal.
    + destruct v as [? ? ? ? ? ? ? ? [] ?]; reflexivity.
    + f_equal. clear -Hsz. unfold HEADER_SIZE, Tables.HEADER_SIZE. lia.
  - destruct (N.eqb_spec (mvhd_version v) 0) as [E0|E0]; [|exfalso; clear -H E0 E1; lia].
    cbv iota in *. split_andb. rewrite <- !app_assoc.
    do 8 rd_step. unfold rd_matrix. do 9 rd_step.
    prog_norm.
    rewrite (run_SeekRel_app _ 24 (repeat 0 24)) by (first [reflexivity | clear -Hsz Hp; lia]).
    rd_step.
    rewrite run_add64_ok by (clear -Hsz Hp; unfold HEADER_SIZE, Tables.HEADER_SIZE, U64; lia).
    prog_norm.
    rewrite run_SeekTo_tail by (clear -Hsz; unfold HEADER_SIZE, Tables.HEADER_SIZE; lia).
    cbn [run]. f_equal.
    + destruct v as [? ? ? ? ? ? ? ? [] ?]; reflexivity.
    + f_equal. clear -Hsz. unfold HEADER_SIZE, Tables.HEADER_SIZE. lia.
Qed.

(** ** tkhd *)
Theorem tkhd_tail_ignored : tail_ignored tkhd_wf tkhd_size dec_tkhd iso_tkhd_payload.
Proof.
  intros v H m d l p spare post Hp. rewrite iso_tkhd_payload_eq. unfold dec_tkhd, tkhd_payload.
  unfold tkhd_wf, matrix_wf in H. split_andb.
  match goal with H : tkhd_version v <? 2 = true |- _ =>
     pose proof (ufit_version _ H) as Hv1; apply N.ltb_lt in H; pose proof (tkhd_size_eq v H) as Hsz end.
  rewrite <- !app_assoc.
  prog_norm. cbn [run s_pos].
  rewrite run_sub64_ok by (clear; unfold HEADER_SIZE, Tables.HEADER_SIZE; lia).
  do 2 rd_step.
  destruct (N.eqb_spec (tkhd_version v) 1) as [E1|E1].
  - cbv iota in *. split_andb. rewrite <- !app_assoc.
    do 10 rd_step. unfold rd_matrix. do 11 rd_step.
    rewrite run_add64_ok by (clear -Hsz Hp; unfold HEADER_SIZE, Tables.HEADER_SIZE, U64; lia).
    prog_norm.
    rewrite run_SeekTo_tail by (clear -Hsz; unfold HEADER_SIZE, Tables.HEADER_SIZE; lia).
    cbn [run]. f_equal.
    + destruct v as [? ? ? ? ? ? ? ? ? [] ? ?]; reflexivity.
    + f_equal. clear -Hsz. unfold HEADER_SIZE, Tables.HEADER_SIZE. lia.
  - destruct (N.eqb_spec (tkhd_version v) 0) as [E0|E0]; [|exfalso; clear -H E0 E1; lia].
    cbv iota in *. split_andb. rewrite <- !app_assoc.
    do 10 rd_step. unfold rd_matrix. do 11 rd_step.
    rewrite run_add64_ok by (clear -Hsz Hp; unfold HEADER_SIZE, Tables.HEADER_SIZE, U64; lia).
    prog_norm.
    rewrite run_SeekTo_tail by (clear -Hsz; unfold HEADER_SIZE, Tables.HEADER_SIZE; lia).
    cbn [run]. f_equal.
    + destruct v as [? ? ? ? ? ? ? ? ? [] ? ?]; reflexivity.
    + f_equal. clear -Hsz. unfold HEADER_SIZE, Tables.HEADER_SIZE. lia.
Qed.

(** ** mdhd ([pre_defined] is not read: the final seek steps over it and the spare bytes) *)
Theorem mdhd_tail_ignored : tail_ignored mdhd_wf mdhd_size dec_mdhd iso_mdhd_payload.
Proof.
  intros v H m d l p spare post Hp. unfold dec_mdhd, iso_mdhd_payload.
  unfold mdhd_wf in H. split_andb.
  match goal with H : mdhd_version v <? 2 = true |- _ =>
     pose proof (ufit_version _ H) as Hv1; apply N.ltb_lt in H; pose proof (mdhd_size_eq v H) as Hsz end.
  match goal with H : mdhd_lang_wf _ = true |- _ => destruct (mdhd_lang_ok _ H) as (L1 & L2 & L3) end.
  rewrite <- !app_assoc.
  prog_norm. cbn [run s_pos].
  rewrite run_sub64_ok by (clear; unfold HEADER_SIZE, Tables.HEADER_SIZE; lia).
  do 2 rd_step.
  destruct (N.eqb_spec (mdhd_version v) 1) as [E1|E1].
  - cbv iota in *. split_andb. rewrite <- !app_assoc.
    do 5 rd_step.
    rewrite run_add64_ok by (clear -Hsz Hp; unfold HEADER_SIZE, Tables.HEADER_SIZE, U64; lia).
    prog_norm.
    rewrite (app_assoc (be 2 0) spare post).
    rewrite run_SeekTo_tail
      by (rewrite lenN_app, lenN_be; clear -Hsz; unfold HEADER_SIZE, Tables.HEADER_SIZE; lia).
    cbn [run]. rewrite L2. f_equal.
    + destruct v; reflexivity.
    + f_equal. clear -Hsz. unfold HEADER_SIZE, Tables.HEADER_SIZE. lia.
  - destruct (N.eqb_spec (mdhd_version v) 0) as [E0|E0]; [|exfalso; clear -H E0 E1; lia].
    cbv iota in *. split_andb. rewrite <- !app_assoc.
    do 5 rd_step.
    rewrite run_add64_ok by (clear -Hsz Hp; unfold HEADER_SIZE, Tables.HEADER_SIZE, U64; lia).
    prog_norm.
    rewrite (app_assoc (be 2 0) spare post).
    rewrite run_SeekTo_tail
      by (rewrite lenN_app, lenN_be; clear -Hsz; unfold HEADER_SIZE, Tables.HEADER_SIZE; lia).
    cbn [run]. rewrite L2. f_equal.
    + destruct v; reflexivity.
    + f_equal. clear -Hsz. unfold HEADER_SIZE, Tables.HEADER_SIZE. lia.
Qed.

(** ** vmhd *)
Theorem vmhd_tail_ignored : tail_ignored vmhd_wf vmhd_size dec_vmhd iso_vmhd_payload.
Proof.
  intros v H m d l p spare post Hp. unfold dec_vmhd, iso_vmhd_payload.
  unfold vmhd_wf, vmhd_rgb_wf in H. split_andb.
  pose proof (vmhd_size_eq v) as Hsz.
  rewrite <- !app_assoc.
  prog_norm. cbn [run s_pos].
  rewrite run_sub64_ok by (clear; unfold HEADER_SIZE, Tables.HEADER_SIZE; lia).
  do 6 rd_step.
  rewrite run_add64_ok by (clear -Hsz Hp; unfold HEADER_SIZE, Tables.HEADER_SIZE, U64; lia).
  prog_norm.
  rewrite run_SeekTo_tail by (clear -Hsz; unfold HEADER_SIZE, Tables.HEADER_SIZE; lia).
  cbn [run]. f_equal.
  - destruct v as [? ? ? []]; reflexivity.
  - f_equal. clear -Hsz. unfold HEADER_SIZE, Tables.HEADER_SIZE. lia.
Qed.

(** ** smhd (the reserved u16 is not read: the final seek steps over it and the spare bytes) *)
Theorem smhd_tail_ignored : tail_ignored smhd_wf smhd_size dec_smhd iso_smhd_payload.
Proof.
  intros v H m d l p spare post Hp. unfold dec_smhd, iso_smhd_payload.
  unfold smhd_wf in H. split_andb.
  pose proof (smhd_size_eq v) as Hsz.
  change (of_signed 16) with (of_signed (8 * N.of_nat 2)).
  rewrite <- !app_assoc.
  prog_norm. cbn [run s_pos].
  rewrite run_sub64_ok by (clear; unfold HEADER_SIZE, Tables.HEADER_SIZE; lia).
  do 3 rd_step.
  rewrite run_add64_ok by (clear -Hsz Hp; unfold HEADER_SIZE, Tables.HEADER_SIZE, U64; lia).
  prog_norm.
  rewrite (app_assoc (be 2 0) spare post).
  rewrite run_SeekTo_tail
    by (rewrite lenN_app, lenN_be; clear -Hsz; unfold HEADER_SIZE, Tables.HEADER_SIZE; lia).
  cbn [run]. f_equal.
  - destruct v; reflexivity.
  - f_equal. clear -Hsz. unfold HEADER_SIZE, Tables.HEADER_SIZE. lia.
Qed.

Print Assumptions mvhd_tail_ignored.
Print Assumptions tkhd_tail_ignored.
Print Assumptions mdhd_tail_ignored.
Print Assumptions vmhd_tail_ignored.
Print Assumptions smhd_tail_ignored.
