(** * Proof kit for the container boxes

    - [cont_roundtrip]: the statement of [leaf_roundtrip] for a decoder that takes fuel, with an
      explicit bound on the fuel it needs;
    - [citem]: one complete child box inside a container payload together with what the
      container's [dispatch] does to the accumulator when it meets it;
    - [children_loop_items]: the child loop of Model/Loop.v run over the concatenation of such
      children updates the accumulator in order and stops exactly at the end of the payload;
    - [wspec] helpers for encoders that write optional and repeated children. *)
From MP4 Require Export Kit VlKit Loop PrimCodecs IsoCont.
From Coq Require Import ZifyN ZifyNat ZifyBool.
Open Scope string_scope.
Open Scope list_scope.
Open Scope N_scope.

Ltac hdr_consts := unfold HEADER_SIZE, HEADER_EXT_SIZE, Tables.HEADER_SIZE, Tables.HEADER_EXT_SIZE in *.

(** ** The statement *)
Definition cont_roundtrip {X} (wf : X -> bool) (size : X -> N) (code : N)
           (enc : X -> wprog N) (dec : nat -> mode -> N -> prog X) (payload : X -> bytes)
           (fb : X -> nat) : Prop :=
  forall v, wf v = true -> size v < U32 ->
    wfin (enc v) = Ok (size v) /\ appender (enc v)
    /\ wout (enc v) = be 4 (size v) ++ be 4 code ++ payload v
    /\ lenN (payload v) + 8 = size v
    /\ forall fuel m d l p post, (fb v <= fuel)%nat -> p + size v < 2 ^ 63 ->
         run (dec fuel m (size v)) (mkStream d l (p + 8) (payload v ++ post))
         = (Ok v, mkStream d l (p + size v) post).

Lemma cont_of_leaf {X} (wf : X -> bool) size code enc dec payload :
  leaf_roundtrip wf size code enc dec payload ->
  cont_roundtrip wf size code enc (fun _ => dec) payload (fun _ => 0%nat).
Proof.
  intros H v Hw Hs. destruct (H v Hw Hs) as (H1 & H2 & H3 & H4 & H5).
  repeat split; auto.
Qed.

Lemma cont_roundtrip_intro {X} (wf : X -> bool) (size : X -> N) code enc dec payload fb :
  (forall v, wf v = true -> size v < U32 ->
     wspec (enc v) (size v) (be 4 (size v) ++ be 4 code ++ payload v)) ->
  (forall v, wf v = true -> size v < U32 -> lenN (payload v) + 8 = size v) ->
  (forall v fuel m d l p post, wf v = true -> size v < U32 -> (fb v <= fuel)%nat -> p + size v < 2 ^ 63 ->
     run (dec fuel m (size v)) (mkStream d l (p + 8) (payload v ++ post))
     = (Ok v, mkStream d l (p + size v) post)) ->
  cont_roundtrip wf size code enc dec payload fb.
Proof.
  intros He Hl Hd v Hw Hs. destruct (He v Hw Hs) as (H1 & H2 & H3).
  repeat split; auto.
Qed.

(** a weaker well-formedness predicate, a larger fuel bound *)
Lemma cont_roundtrip_weaken {X} (wf wf' : X -> bool) size code enc dec payload (fb fb' : X -> nat) :
  cont_roundtrip wf size code enc dec payload fb ->
  (forall v, wf' v = true -> wf v = true) -> (forall v, (fb v <= fb' v)%nat) ->
  cont_roundtrip wf' size code enc dec payload fb'.
Proof.
  intros H Hw Hf v Hv Hs. destruct (H v (Hw v Hv) Hs) as (H1 & H2 & H3 & H4 & H5).
  repeat split; auto. intros. apply H5; auto. specialize (Hf v). lia.
Qed.

(** what a parent uses of a child's round trip *)
Lemma cont_rt_wspec {X} (wf : X -> bool) size code enc dec payload fb v :
  cont_roundtrip wf size code enc dec payload fb -> wf v = true -> size v < U32 ->
  wspec (enc v) (size v) (iso_box code (payload v)).
Proof.
  intros H Hw Hs. destruct (H v Hw Hs) as (H1 & H2 & H3 & H4 & _).
  unfold wspec, iso_box. replace (8 + lenN (payload v)) with (size v) by lia. auto.
Qed.

Lemma cont_rt_len {X} (wf : X -> bool) size code enc dec payload fb v :
  cont_roundtrip wf size code enc dec payload fb -> wf v = true -> size v < U32 ->
  lenN (payload v) + 8 = size v.
Proof. intros H Hw Hs. now destruct (H v Hw Hs) as (H1 & H2 & H3 & H4 & _). Qed.

Lemma lenN_iso_box code pl : lenN (iso_box code pl) = 8 + lenN pl.
Proof. unfold iso_box. rewrite !lenN_app, !lenN_be. lia. Qed.

(** ** Children of a container

    A decoder that only moves forward never looks at the underlying data of the stream, and its
    round trip holds whatever [s_data] is (the literal statement of [leaf_roundtrip]).  [MetaBox]
    seeks BACKWARDS, and then the view is recomputed from [s_data]; its round trip needs the
    stream to be consistent ([dropN pos data = view]), and so does the round trip of every box
    that may contain a meta box.  The lemmas are therefore parametrised by an invariant
    [Inv data pos view] that is preserved when the stream advances: [inv_any] (nothing) or
    [inv_data] (consistency). *)
Definition inv_adv (Inv : bytes -> N -> bytes -> Prop) : Prop :=
  forall d p h r, Inv d p (h ++ r) -> Inv d (p + lenN h) r.

Definition inv_any (d : bytes) (p : N) (v : bytes) : Prop := True.
Definition inv_data (d : bytes) (p : N) (v : bytes) : Prop := dropN p d = v.

Lemma inv_any_adv : inv_adv inv_any.
Proof. intros d p h r _. exact I. Qed.

Lemma inv_data_adv : inv_adv inv_data.
Proof.
  intros d p h r H. unfold inv_data in *.
  rewrite N.add_comm, <- dropN_dropN, H. apply dropN_app.
Qed.

Section Items.
Context {Acc : Type}.

Record citem := mkCitem {
  ci_size : N;              (* the child's size field *)
  ci_code : N;              (* its four-character code *)
  ci_pl : bytes;            (* its payload *)
  ci_upd : Acc -> Acc;      (* what the parent's dispatch does with the decoded child *)
  ci_need : nat }.          (* fuel the child's decoder needs *)

Definition ci_bytes (it : citem) : bytes := be 4 (ci_size it) ++ be 4 (ci_code it) ++ ci_pl it.

Definition ci_ok_g (Inv : bytes -> N -> bytes -> Prop)
           (dispatch : nat -> boxtype -> N -> Acc -> prog Acc) (it : citem) : Prop :=
  ci_size it < U32 /\ ci_code it < U32 /\ lenN (ci_pl it) + 8 = ci_size it /\
  forall f acc d l p rest, (ci_need it <= f)%nat -> p + ci_size it < 2 ^ 63 ->
    Inv d (p + 8) (ci_pl it ++ rest) ->
    run (dispatch f (boxtype_of_u32 (ci_code it)) (ci_size it) acc)
        (mkStream d l (p + 8) (ci_pl it ++ rest))
    = (Ok (ci_upd it acc), mkStream d l (p + ci_size it) rest).

Definition ci_total (items : list citem) : N := sumN (map ci_size items).

Fixpoint ci_maxneed (items : list citem) : nat :=
  match items with [] => 0%nat | it :: t => Nat.max (ci_need it) (ci_maxneed t) end.

Definition ci_fold (items : list citem) (acc : Acc) : Acc :=
  fold_left (fun a it => ci_upd it a) items acc.

Lemma ci_total_cons it t : ci_total (it :: t) = ci_size it + ci_total t.
Proof. reflexivity. Qed.

Lemma ci_total_app a b : ci_total (a ++ b) = ci_total a + ci_total b.
Proof.
  unfold ci_total. induction a as [|x a IH]; cbn [app map]; [reflexivity|].
  change (sumN (ci_size x :: map ci_size (a ++ b))) with (ci_size x + sumN (map ci_size (a ++ b))).
  change (sumN (ci_size x :: map ci_size a)) with (ci_size x + sumN (map ci_size a)).
  rewrite IH. lia.
Qed.

Lemma ci_maxneed_app a b : ci_maxneed (a ++ b) = Nat.max (ci_maxneed a) (ci_maxneed b).
Proof. induction a as [|x a IH]; cbn [app ci_maxneed]; [reflexivity|]. rewrite IH. lia. Qed.

Lemma ci_fold_app a b acc : ci_fold (a ++ b) acc = ci_fold b (ci_fold a acc).
Proof. unfold ci_fold. apply fold_left_app. Qed.

Lemma ci_bytes_len Inv dispatch it : ci_ok_g Inv dispatch it -> lenN (ci_bytes it) = ci_size it.
Proof.
  intros (_ & _ & H & _). unfold ci_bytes. rewrite !lenN_app, !lenN_be. lia.
Qed.

Lemma ci_flat_len Inv dispatch items : Forall (ci_ok_g Inv dispatch) items ->
  lenN (flat_map ci_bytes items) = ci_total items.
Proof.
  induction 1 as [|it t H _ IH]; [reflexivity|].
  cbn [flat_map]. rewrite lenN_app, IH, (ci_bytes_len _ _ _ H), ci_total_cons. reflexivity.
Qed.

(** the ISO rendering of a child: ISO/IEC 14496-12 4.2 with the compact size *)
Definition ci_iso (it : citem) : bytes := iso_box (ci_code it) (ci_pl it).

Lemma ci_flat_iso Inv dispatch items : Forall (ci_ok_g Inv dispatch) items ->
  flat_map ci_bytes items = flat_map ci_iso items.
Proof.
  induction 1 as [|it t (_ & _ & H & _) _ IH]; [reflexivity|].
  cbn [flat_map]. rewrite IH. f_equal.
  unfold ci_bytes, ci_iso, iso_box. replace (8 + lenN (ci_pl it)) with (ci_size it) by lia. reflexivity.
Qed.

Lemma ci_size_le_total it items : In it items -> ci_size it <= ci_total items.
Proof.
  induction items as [|x t IH]; intros H; [destruct H|]. rewrite ci_total_cons.
  destruct H as [->|H]; [lia|]. specialize (IH H). lia.
Qed.

(** children are below 4 GiB when the parent is *)
Lemma Forall_ci_ok_total Inv dispatch items :
  Forall (fun it => ci_size it < U32 -> ci_ok_g Inv dispatch it) items -> ci_total items < U32 ->
  Forall (ci_ok_g Inv dispatch) items.
Proof.
  intros H Ht. rewrite Forall_forall in *. intros it Hin. apply H; [exact Hin|].
  pose proof (ci_size_le_total it items Hin). lia.
Qed.

(** the loop over the children, in order, ends exactly at the end of the payload *)
Lemma children_loop_items_g Inv m size dispatch items : inv_adv Inv ->
  Forall (ci_ok_g Inv dispatch) items ->
  forall fuel acc d l p rest end_ B (k : Acc -> prog B),
    (length items + ci_maxneed items <= fuel)%nat ->
    end_ = p + ci_total items -> ci_total items <= size -> end_ < 2 ^ 63 ->
    Inv d p (flat_map ci_bytes items ++ rest) ->
    run (bind (children_loop fuel m (Some size) true end_ dispatch acc p) k)
        (mkStream d l p (flat_map ci_bytes items ++ rest))
    = run (k (ci_fold items acc)) (mkStream d l end_ rest).
Proof.
  intros Hadv.
  induction 1 as [|it t Hit _ IH]; intros fuel acc d l p rest end_ B k Hf He Hs Hp Hinv.
  - unfold children_loop. rewrite children_loop_gen_done by (rewrite He; cbn; lia).
    cbn [bind flat_map app ci_fold fold_left]. subst end_. cbn. now rewrite N.add_0_r.
  - destruct Hit as (Hs32 & Hc & Hlen & Hrun).
    rewrite ci_total_cons in *. cbn [length ci_maxneed] in Hf.
    destruct fuel as [|f]; [lia|].
    unfold children_loop. rewrite children_loop_gen_eq.
    replace (p <? end_) with true by (symmetry; apply N.ltb_lt; lia).
    cbn [flat_map] in *. unfold ci_bytes at 1. unfold ci_bytes at 1 in Hinv. rewrite <- !app_assoc in *.
    assert (Hinv1 : Inv d (p + 8) (ci_pl it ++ flat_map ci_bytes t ++ rest)).
    { rewrite (app_assoc (be 4 (ci_size it))) in Hinv. apply Hadv in Hinv.
      rewrite lenN_app, !lenN_be in Hinv. exact Hinv. }
    assert (Hinv2 : Inv d (p + ci_size it) (flat_map ci_bytes t ++ rest)).
    { apply Hadv in Hinv1. replace (p + ci_size it) with (p + 8 + lenN (ci_pl it)) by lia. exact Hinv1. }
    rewrite bind_bind.
    rewrite run_read_header_bind by (first [assumption | lia]).
    cbv beta iota.
    replace (size <? ci_size it) with false by (symmetry; apply N.ltb_ge; lia).
    replace (ci_size it =? 0) with false by (symmetry; apply N.eqb_neq; lia).
    cbn [andb]. cbv iota.
    rewrite bind_bind.
    erewrite run_bind_ok; [| apply Hrun; [lia | lia | exact Hinv1]].
    rewrite bind_bind, run_get_pos_bind. cbn [s_pos].
    change (children_loop_gen f m (Some size) true end_ (fun f0 _ => dispatch f0) (fun a _ => a)
              (ci_upd it acc) (p + ci_size it))
      with (children_loop f m (Some size) true end_ dispatch (ci_upd it acc) (p + ci_size it)).
    rewrite (IH f (ci_upd it acc) d l (p + ci_size it) rest end_ B k) by (first [lia | exact Hinv2]).
    reflexivity.
Qed.

(** the prologue of every loop container: [box_start], [stream_position], [start + size], loop *)
Lemma run_container_loop_g {B} Inv m site size dispatch items acc0 fuel (K : N -> Acc -> prog B) d l p post :
  inv_adv Inv -> Forall (ci_ok_g Inv dispatch) items ->
  size = 8 + ci_total items -> p + size < 2 ^ 63 ->
  (length items + ci_maxneed items <= fuel)%nat ->
  Inv d (p + 8) (flat_map ci_bytes items ++ post) ->
  run (start <- box_start m ;;
       current <- get_pos ;;
       end_ <- add64 m site start size ;;
       a <- children_loop fuel m (Some size) true end_ dispatch acc0 current ;;
       K start a)
      (mkStream d l (p + 8) (flat_map ci_bytes items ++ post))
  = run (K p (ci_fold items acc0)) (mkStream d l (p + size) post).
Proof.
  intros Hadv Hok Hs Hp Hf Hinv.
  rewrite run_box_start. rewrite run_get_pos_bind. cbn [s_pos].
  rewrite run_add64_ok by (unfold U64; lia).
  apply (children_loop_items_g Inv m size dispatch items Hadv Hok fuel acc0 d l (p + 8) post (p + size) B (K p));
    first [lia | exact Hinv].
Qed.

(** the same with the payload in its ISO form *)
Lemma cont_payload_len_g Inv dispatch items payload size :
  Forall (ci_ok_g Inv dispatch) items -> flat_map ci_iso items = payload -> size = 8 + ci_total items ->
  lenN payload + 8 = size.
Proof.
  intros Hok <- ->. rewrite <- (ci_flat_iso _ _ _ Hok), (ci_flat_len _ _ _ Hok). lia.
Qed.

Lemma cont_dec_items_g {B} Inv m site size dispatch items payload acc0 fuel (K : N -> Acc -> prog B) d l p post :
  inv_adv Inv -> Forall (ci_ok_g Inv dispatch) items -> flat_map ci_iso items = payload ->
  size = 8 + ci_total items -> p + size < 2 ^ 63 ->
  (length items + ci_maxneed items <= fuel)%nat ->
  Inv d (p + 8) (payload ++ post) ->
  run (start <- box_start m ;;
       current <- get_pos ;;
       end_ <- add64 m site start size ;;
       a <- children_loop fuel m (Some size) true end_ dispatch acc0 current ;;
       K start a)
      (mkStream d l (p + 8) (payload ++ post))
  = run (K p (ci_fold items acc0)) (mkStream d l (p + size) post).
Proof.
  intros Hadv Hok <- Hs Hp Hf. rewrite <- (ci_flat_iso _ _ _ Hok).
  now apply run_container_loop_g.
Qed.
End Items.
Arguments citem : clear implicits.

Notation ci_ok := (ci_ok_g inv_any).
Notation ci_ok_s := (ci_ok_g inv_data).

(** the two instances *)
Definition cont_payload_len {Acc} := @cont_payload_len_g Acc inv_any.
Definition cont_payload_len_s {Acc} := @cont_payload_len_g Acc inv_data.

Lemma cont_dec_items {Acc B} m site size dispatch items payload acc0 fuel (K : N -> Acc -> prog B) d l p post :
  Forall (ci_ok dispatch) items -> flat_map ci_iso items = payload ->
  size = 8 + ci_total items -> p + size < 2 ^ 63 ->
  (length items + ci_maxneed items <= fuel)%nat ->
  run (start <- box_start m ;;
       current <- get_pos ;;
       end_ <- add64 m site start size ;;
       a <- children_loop fuel m (Some size) true end_ dispatch acc0 current ;;
       K start a)
      (mkStream d l (p + 8) (payload ++ post))
  = run (K p (ci_fold items acc0)) (mkStream d l (p + size) post).
Proof.
  intros. apply (cont_dec_items_g inv_any); auto using inv_any_adv. exact I.
Qed.

Lemma cont_dec_items_s {Acc B} m site size dispatch items payload acc0 fuel (K : N -> Acc -> prog B) d l p post :
  Forall (ci_ok_s dispatch) items -> flat_map ci_iso items = payload ->
  size = 8 + ci_total items -> p + size < 2 ^ 63 ->
  (length items + ci_maxneed items <= fuel)%nat ->
  dropN (p + 8) d = payload ++ post ->
  run (start <- box_start m ;;
       current <- get_pos ;;
       end_ <- add64 m site start size ;;
       a <- children_loop fuel m (Some size) true end_ dispatch acc0 current ;;
       K start a)
      (mkStream d l (p + 8) (payload ++ post))
  = run (K p (ci_fold items acc0)) (mkStream d l (p + size) post).
Proof.
  intros. apply (cont_dec_items_g inv_data); auto using inv_data_adv.
Qed.

(** the epilogue [skip_bytes_to(reader, start + size)?; Ok(v)] *)
Lemma run_cont_finish {A} m site start size (a : A) d l p v :
  start + size = p -> p < 2 ^ 63 ->
  run (e <- add64 m site start size ;; skip_bytes_to e ;;; Ret a) (mkStream d l p v)
  = (Ok a, mkStream d l p v).
Proof.
  intros H Hp. prog_norm. apply run_finish; [exact H | unfold U64; lia].
Qed.

(** ** Items built from a child's round trip *)
Definition ci_of {Acc X} (size : X -> N) (code : N) (payload : X -> bytes) (fb : X -> nat)
           (upd : X -> Acc -> Acc) (x : X) : citem Acc :=
  mkCitem (size x) code (payload x) (upd x) (fb x).

Lemma ci_ok_of_rt {Acc X Inv} (wf : X -> bool) size code enc dec payload fb (upd : X -> Acc -> Acc)
      (dispatch : nat -> boxtype -> N -> Acc -> prog Acc) m x :
  cont_roundtrip wf size code enc dec payload fb -> code < U32 ->
  (forall f s acc, dispatch f (boxtype_of_u32 code) s acc
                   = bind (dec f m s) (fun y => Ret (upd y acc))) ->
  wf x = true -> size x < U32 ->
  ci_ok_g Inv dispatch (ci_of size code payload fb upd x).
Proof.
  intros H Hc Hd Hw Hs. destruct (H x Hw Hs) as (_ & _ & _ & Hl & Hr).
  unfold ci_ok_g, ci_of. cbn [ci_size ci_code ci_pl ci_upd ci_need].
  repeat split; auto.
  intros f acc d l p rest Hf Hp _. rewrite Hd.
  erewrite run_bind_ok; [| apply Hr; assumption]. reflexivity.
Qed.

(** [ci_size it < U32 -> ci_ok dispatch it] for an item built with [ci_of] from the round trip [RT]
    of the child; [Hbt : boxtype_of_u32 code = TheBox].  [ci_leaf_t] is for dispatch functions
    that first take the accumulator tuple apart. *)
Ltac ci_leaf RT Hbt :=
  let Hsz := fresh "Hsz" in
  intros Hsz; eapply (ci_ok_of_rt _ _ _ _ _ _ _ _ _ _ _ RT);
  [ clear; vm_compute; reflexivity
  | intros f s acc; rewrite Hbt; reflexivity
  | try assumption
  | exact Hsz ].

Ltac destruct_tuple a :=
  let T := type of a in
  let T' := eval hnf in T in
  lazymatch T' with
  | prod _ _ => let x := fresh "a" in let y := fresh "b" in destruct a as [x y]; destruct_tuple x
  | _ => idtac
  end.

Ltac ci_leaf_t RT Hbt :=
  let Hsz := fresh "Hsz" in
  intros Hsz; eapply (ci_ok_of_rt _ _ _ _ _ _ _ _ _ _ _ RT);
  [ clear; vm_compute; reflexivity
  | let acc := fresh "acc" in intros f s acc; destruct_tuple acc; rewrite Hbt; reflexivity
  | try assumption
  | exact Hsz ].

(** a child is below 4 GiB: [Hs] is the parent's bound with the parent's size unfolded *)
Ltac cont_size_tac Hs :=
  clear -Hs;
  repeat match type of Hs with context [match ?o with Some _ => _ | None => _ end] => destruct o end;
  hdr_consts; lia.

Definition ci_opt {Acc X} (mk : X -> citem Acc) (o : option X) : list (citem Acc) :=
  match o with Some x => [mk x] | None => [] end.

Lemma ci_bytes_of {Acc X} (size : X -> N) code payload fb (upd : X -> Acc -> Acc) x :
  lenN (payload x) + 8 = size x ->
  ci_bytes (ci_of size code payload fb upd x) = iso_box code (payload x).
Proof.
  intros H. unfold ci_bytes, ci_of, iso_box. cbn [ci_size ci_code ci_pl].
  replace (8 + lenN (payload x)) with (size x) by lia. reflexivity.
Qed.

Lemma Forall_app_intro {A} (P : A -> Prop) a b : Forall P a -> Forall P b -> Forall P (a ++ b).
Proof. intros Ha Hb. apply Forall_app. auto. Qed.

Lemma Forall_one {A} (P : A -> Prop) a : P a -> Forall P [a].
Proof. intros H. constructor; [exact H | constructor]. Qed.

Lemma Forall_ci_opt {Acc X} (P : citem Acc -> Prop) (mk : X -> citem Acc) o :
  (forall x, o = Some x -> P (mk x)) -> Forall P (ci_opt mk o).
Proof. destruct o as [x|]; intros H; cbn [ci_opt]; [apply Forall_one; now apply H | constructor]. Qed.

Lemma Forall_ci_map {Acc X} (P : citem Acc -> Prop) (mk : X -> citem Acc) l :
  (forall x, In x l -> P (mk x)) -> Forall P (map mk l).
Proof. intros H. apply Forall_forall. intros y Hy. apply in_map_iff in Hy as (x & <- & Hx). auto. Qed.

(** ** Encoders *)
Lemma wspec_opt_child {X} (o : option X) (enc : X -> wprog N) (out : X -> bytes) :
  (forall x, o = Some x -> exists n, wspec (enc x) n (out x)) ->
  wspec (match o with Some x => wbind (enc x) (fun _ => WRet tt) | None => WRet tt end) tt
        (iso_opt out o).
Proof.
  destruct o as [x|]; intros H; cbn [iso_opt].
  - destruct (H x eq_refl) as (n & Hn).
    eapply wspec_out; [eapply wspec_bind; [exact Hn | apply wspec_ret] | apply app_nil_r].
  - apply wspec_ret.
Qed.

Lemma wspec_wr_each {X B} (f : X -> wprog B) (out : X -> bytes) (l : list X) :
  (forall x, In x l -> exists n, wspec (f x) n (out x)) ->
  wspec (wr_each f l) tt (flat_map out l).
Proof.
  induction l as [|x t IH]; intros H; cbn [wr_each flat_map].
  - apply wspec_ret.
  - destruct (H x (or_introl eq_refl)) as (n & Hn).
    eapply wspec_bind; [exact Hn|]. apply IH. intros; apply H; now right.
Qed.

(** ** Sums *)
Lemma sumN_app a b : sumN (a ++ b) = sumN a + sumN b.
Proof.
  induction a as [|x a IH]; cbn [app]; [reflexivity|].
  change (sumN (x :: a ++ b)) with (x + sumN (a ++ b)). change (sumN (x :: a)) with (x + sumN a).
  rewrite IH. lia.
Qed.

Lemma sumN_cons' x a : sumN (x :: a) = x + sumN a.
Proof. reflexivity. Qed.

Lemma sumN_In_le (f : N) l : In f l -> f <= sumN l.
Proof.
  induction l as [|x t IH]; intros H; [destruct H|]. rewrite sumN_cons'.
  destruct H as [->|H]; [lia|]. specialize (IH H). lia.
Qed.

Lemma ci_total_map {Acc X} (mk : X -> citem Acc) (size : X -> N) l :
  (forall x, ci_size (mk x) = size x) -> ci_total (map mk l) = sumN (map size l).
Proof.
  intros H. unfold ci_total. rewrite map_map. f_equal. apply map_ext. exact H.
Qed.

Lemma flat_map_ci_map {Acc X} (mk : X -> citem Acc) (out : X -> bytes) l :
  (forall x, In x l -> ci_bytes (mk x) = out x) ->
  flat_map ci_bytes (map mk l) = flat_map out l.
Proof.
  induction l as [|x t IH]; intros H; cbn [map flat_map]; [reflexivity|].
  rewrite H by (now left). rewrite IH by (intros; apply H; now right). reflexivity.
Qed.

(** ** Repeated children *)
Lemma flat_map_ci_iso_map {Acc X} (mk : X -> citem Acc) l :
  flat_map ci_iso (map mk l) = iso_all (fun x => ci_iso (mk x)) l.
Proof. unfold iso_all. induction l as [|x t IH]; cbn [map flat_map]; [reflexivity|]. now rewrite IH. Qed.

Lemma ci_maxneed_map_le {Acc X} (mk : X -> citem Acc) l c :
  (forall x, (ci_need (mk x) <= c)%nat) -> (ci_maxneed (map mk l) <= c)%nat.
Proof.
  intros H. induction l as [|x t IH]; cbn [map ci_maxneed]; [lia|]. specialize (H x). lia.
Qed.

Lemma sumN_map_In_le {X} (f : X -> N) l x : In x l -> f x <= sumN (map f l).
Proof. intros H. apply sumN_In_le. now apply in_map. Qed.

Lemma ci_maxneed_map_list_max {Acc X} (mk : X -> citem Acc) l (f : X -> nat) :
  (forall x, ci_need (mk x) = f x) -> ci_maxneed (map mk l) = list_max (map f l).
Proof.
  intros H. induction l as [|x t IH]; cbn [map ci_maxneed list_max fold_right]; [reflexivity|].
  rewrite H. unfold list_max in IH. now rewrite IH.
Qed.

(** ** The decoder half alone (for children whose encoder is not a [write_box] of their own) *)
Definition cont_dec_ok {X} (wf : X -> bool) (size : X -> N) (dec : nat -> mode -> N -> prog X)
           (payload : X -> bytes) (fb : X -> nat) : Prop :=
  forall v, wf v = true -> size v < U32 ->
    lenN (payload v) + 8 = size v
    /\ forall fuel m d l p post, (fb v <= fuel)%nat -> p + size v < 2 ^ 63 ->
         run (dec fuel m (size v)) (mkStream d l (p + 8) (payload v ++ post))
         = (Ok v, mkStream d l (p + size v) post).

Lemma cont_dec_ok_of_rt {X} (wf : X -> bool) size code enc dec payload fb :
  cont_roundtrip wf size code enc dec payload fb -> cont_dec_ok wf size dec payload fb.
Proof. intros H v Hw Hs. destruct (H v Hw Hs) as (_ & _ & _ & H4 & H5). auto. Qed.

Lemma ci_ok_of_dec {Acc X Inv} (wf : X -> bool) size code dec payload fb (upd : X -> Acc -> Acc)
      (dispatch : nat -> boxtype -> N -> Acc -> prog Acc) m x :
  cont_dec_ok wf size dec payload fb -> code < U32 ->
  (forall f s acc, dispatch f (boxtype_of_u32 code) s acc
                   = bind (dec f m s) (fun y => Ret (upd y acc))) ->
  wf x = true -> size x < U32 ->
  ci_ok_g Inv dispatch (ci_of size code payload fb upd x).
Proof.
  intros H Hc Hd Hw Hs. destruct (H x Hw Hs) as (Hl & Hr).
  unfold ci_ok_g, ci_of. cbn [ci_size ci_code ci_pl ci_upd ci_need].
  repeat split; auto.
  intros f acc d l p rest Hf Hp _. rewrite Hd.
  erewrite run_bind_ok; [| apply Hr; assumption]. reflexivity.
Qed.

(** ** The statement for boxes that may contain a [MetaBox]: the same five conjuncts, the decoder
    run on a stream whose view is what its data holds at its position (every stream built by
    [stream_at], and every stream a run from one reaches, is such a stream) *)
Definition cont_roundtrip_s {X} (wf : X -> bool) (size : X -> N) (code : N)
           (enc : X -> wprog N) (dec : nat -> mode -> N -> prog X) (payload : X -> bytes)
           (fb : X -> nat) : Prop :=
  forall v, wf v = true -> size v < U32 ->
    wfin (enc v) = Ok (size v) /\ appender (enc v)
    /\ wout (enc v) = be 4 (size v) ++ be 4 code ++ payload v
    /\ lenN (payload v) + 8 = size v
    /\ forall fuel m d l p post, (fb v <= fuel)%nat -> p + size v < 2 ^ 63 ->
         dropN (p + 8) d = payload v ++ post ->
         run (dec fuel m (size v)) (mkStream d l (p + 8) (payload v ++ post))
         = (Ok v, mkStream d l (p + size v) post).

Lemma cont_s_of_cont {X} (wf : X -> bool) size code enc dec payload fb :
  cont_roundtrip wf size code enc dec payload fb -> cont_roundtrip_s wf size code enc dec payload fb.
Proof.
  intros H v Hw Hs. destruct (H v Hw Hs) as (H1 & H2 & H3 & H4 & H5). repeat split; auto.
Qed.

Lemma cont_roundtrip_s_intro {X} (wf : X -> bool) (size : X -> N) code enc dec payload fb :
  (forall v, wf v = true -> size v < U32 ->
     wspec (enc v) (size v) (be 4 (size v) ++ be 4 code ++ payload v)) ->
  (forall v, wf v = true -> size v < U32 -> lenN (payload v) + 8 = size v) ->
  (forall v fuel m d l p post, wf v = true -> size v < U32 -> (fb v <= fuel)%nat -> p + size v < 2 ^ 63 ->
     dropN (p + 8) d = payload v ++ post ->
     run (dec fuel m (size v)) (mkStream d l (p + 8) (payload v ++ post))
     = (Ok v, mkStream d l (p + size v) post)) ->
  cont_roundtrip_s wf size code enc dec payload fb.
Proof.
  intros He Hl Hd v Hw Hs. destruct (He v Hw Hs) as (H1 & H2 & H3).
  repeat split; auto.
Qed.

Lemma cont_rt_wspec_s {X} (wf : X -> bool) size code enc dec payload fb v :
  cont_roundtrip_s wf size code enc dec payload fb -> wf v = true -> size v < U32 ->
  wspec (enc v) (size v) (iso_box code (payload v)).
Proof.
  intros H Hw Hs. destruct (H v Hw Hs) as (H1 & H2 & H3 & H4 & _).
  unfold wspec, iso_box. replace (8 + lenN (payload v)) with (size v) by lia. auto.
Qed.

Lemma ci_ok_of_rt_s {Acc X} (wf : X -> bool) size code enc dec payload fb (upd : X -> Acc -> Acc)
      (dispatch : nat -> boxtype -> N -> Acc -> prog Acc) m x :
  cont_roundtrip_s wf size code enc dec payload fb -> code < U32 ->
  (forall f s acc, dispatch f (boxtype_of_u32 code) s acc
                   = bind (dec f m s) (fun y => Ret (upd y acc))) ->
  wf x = true -> size x < U32 ->
  ci_ok_s dispatch (ci_of size code payload fb upd x).
Proof.
  intros H Hc Hd Hw Hs. destruct (H x Hw Hs) as (_ & _ & _ & Hl & Hr).
  unfold ci_ok_g, ci_of. cbn [ci_size ci_code ci_pl ci_upd ci_need].
  repeat split; auto.
  intros f acc d l p rest Hf Hp Hinv. rewrite Hd.
  erewrite run_bind_ok; [| apply Hr; assumption]. reflexivity.
Qed.

Ltac ci_leaf_s RT Hbt :=
  let Hsz := fresh "Hsz" in
  intros Hsz; eapply (ci_ok_of_rt_s _ _ _ _ _ _ _ _ _ _ _ RT);
  [ clear; vm_compute; reflexivity
  | intros f s acc; rewrite Hbt; reflexivity
  | try assumption
  | exact Hsz ].

Ltac ci_leaf_ts RT Hbt :=
  let Hsz := fresh "Hsz" in
  intros Hsz; eapply (ci_ok_of_rt_s _ _ _ _ _ _ _ _ _ _ _ RT);
  [ clear; vm_compute; reflexivity
  | let acc := fresh "acc" in intros f s acc; destruct_tuple acc; rewrite Hbt; reflexivity
  | try assumption
  | exact Hsz ].

(** ** Children the dispatch skips ([skip_box]) *)
Definition ci_skip {Acc} (size code : N) (pl : bytes) : citem Acc := mkCitem size code pl (fun a => a) 0%nat.

Lemma run_skip_box {A} m s pl rest (k : unit -> prog A) d l p :
  lenN pl + 8 = s -> p + s < 2 ^ 63 ->
  run (bind (skip_box m s) k) (mkStream d l (p + 8) (pl ++ rest)) = run (k tt) (mkStream d l (p + s) rest).
Proof.
  intros Hl Hp. unfold skip_box. rewrite bind_bind, run_box_start.
  rewrite bind_bind, run_add64_ok by (unfold U64; lia).
  rewrite run_seek_to_fwd by lia.
  replace (p + s - (p + 8)) with (lenN pl) by lia. now rewrite dropN_app.
Qed.

Lemma ci_ok_skip {Acc Inv} (dispatch : nat -> boxtype -> N -> Acc -> prog Acc) m size code pl :
  lenN pl + 8 = size -> size < U32 -> code < U32 ->
  (forall f s acc, dispatch f (boxtype_of_u32 code) s acc = bind (skip_box m s) (fun _ => Ret acc)) ->
  ci_ok_g Inv dispatch (ci_skip size code pl).
Proof.
  intros Hl Hs Hc Hd. unfold ci_ok_g, ci_skip. cbn [ci_size ci_code ci_pl ci_upd ci_need].
  repeat split; auto.
  intros f acc d l p rest _ Hp _. rewrite Hd. now rewrite run_skip_box by assumption.
Qed.

(** a seek backwards re-reads the data *)
Lemma run_seek_to_back {A} (k : unit -> prog A) d l p v q :
  q < p -> run (bind (seek_to q) k) (mkStream d l p v) = run (k tt) (mkStream d l q (dropN q d)).
Proof.
  intros H. unfold seek_to. cbn [bind run]. unfold seek_abs. cbn [s_pos s_data s_len s_view].
  apply N.leb_gt in H. now rewrite H.
Qed.
