(** Round trip of [MvexBox] (mvex.rs) *)
From MP4 Require Import KitCont BoxMvex IsoMehd IsoMvex IsoTrex RtMehd RtTrex.
From Coq Require Import ZifyN ZifyNat ZifyBool.
Open Scope string_scope.
Open Scope list_scope.
Open Scope N_scope.


Lemma mvex_code : u32_of_boxtype (box_type_of "MvexBox") = 0x6d766578.
Proof. vm_compute. reflexivity. Qed.


Definition mvex_rt_wf (v : mvex) : bool :=
  match mvex_mehd v with Some x => mehd_wf x | None => true end && trex_wf (mvex_trex v).

Lemma mvex_bt_mehd : boxtype_of_u32 0x6d656864 = MehdBox. Proof. vm_compute. reflexivity. Qed.
Lemma mvex_bt_trex : boxtype_of_u32 0x74726578 = TrexBox. Proof. vm_compute. reflexivity. Qed.

Definition mvex_u_mehd (x : mehd) (a : mvex_acc) : mvex_acc := let '(a0, a1) := a in (Some x, a1).
Definition mvex_u_trex (x : trex) (a : mvex_acc) : mvex_acc := let '(a0, a1) := a in (a0, Some x).

Definition mvex_i_mehd := ci_of mehd_size 0x6d656864 iso_mehd_payload (fun _ => 0%nat) mvex_u_mehd.
Definition mvex_i_trex := ci_of trex_size 0x74726578 iso_trex_payload (fun _ => 0%nat) mvex_u_trex.

Definition mvex_items (v : mvex) : list (citem mvex_acc) :=
  ci_opt mvex_i_mehd (mvex_mehd v) ++
  [mvex_i_trex (mvex_trex v)].

Ltac mvex_unfold_items := unfold mvex_items.
Ltac mvex_unfold_i := unfold mvex_i_mehd, mvex_i_trex in *.

Lemma mvex_items_iso v : flat_map ci_iso (mvex_items v) = iso_mvex_payload v.
Proof.
  unfold iso_mvex_payload. mvex_unfold_items. rewrite !flat_map_app, ?flat_map_ci_iso_map. mvex_unfold_i.
  destruct (mvex_mehd v);
    cbn [flat_map ci_opt app iso_opt ci_iso ci_of ci_code ci_pl]; rewrite <- ?app_assoc, ?app_nil_r; reflexivity.
Qed.

Lemma mvex_items_size v : mvex_size v = 8 + ci_total (mvex_items v).
Proof.
  unfold mvex_size. mvex_unfold_items. rewrite !ci_total_app.
  mvex_unfold_i.
  destruct (mvex_mehd v);
    unfold ci_total; cbn [ci_opt map ci_of ci_size sumN fold_right]; hdr_consts; lia.
Qed.

Definition mvex_fuel (v : mvex) : nat := (2)%nat.

Lemma mvex_items_fuel v : (length (mvex_items v) + ci_maxneed (mvex_items v) <= mvex_fuel v)%nat.
Proof.
  unfold mvex_fuel. mvex_unfold_items. rewrite !app_length, !ci_maxneed_app, ?map_length.
  mvex_unfold_i.
  destruct (mvex_mehd v);
    cbn [length ci_opt ci_maxneed ci_need ci_of]; lia.
Qed.

Lemma mvex_items_ok m v : mvex_rt_wf v = true -> mvex_size v < U32 ->
  Forall (ci_ok (mvex_dispatch m)) (mvex_items v).
Proof.
  intros H Hs. apply Forall_ci_ok_total; [| rewrite mvex_items_size in Hs; clear -Hs; lia].
  unfold mvex_rt_wf in H. split_andb.
  unfold mvex_items. repeat apply Forall_app_intro.
  - apply Forall_ci_opt. intros x Hx. rewrite Hx in *. ci_leaf_t (cont_of_leaf _ _ _ _ _ _ mehd_roundtrip) mvex_bt_mehd.
  - apply Forall_one. ci_leaf_t (cont_of_leaf _ _ _ _ _ _ trex_roundtrip) mvex_bt_trex.
Qed.

Lemma mvex_payload_len v : mvex_rt_wf v = true -> mvex_size v < U32 ->
  lenN (iso_mvex_payload v) + 8 = mvex_size v.
Proof.
  intros H Hs. apply (cont_payload_len (mvex_dispatch Dbg) (mvex_items v)).
  - now apply mvex_items_ok.
  - apply mvex_items_iso.
  - apply mvex_items_size.
Qed.

Ltac mvex_child me Hs :=
  lazymatch goal with
  | |- wspec (enc_mehd _) _ _ => apply (cont_rt_wspec _ _ _ _ _ _ _ _ (cont_of_leaf _ _ _ _ _ _ mehd_roundtrip))
  | |- wspec (enc_trex _) _ _ => apply (cont_rt_wspec _ _ _ _ _ _ _ _ (cont_of_leaf _ _ _ _ _ _ trex_roundtrip))
  end;
  [ assumption | let Hs' := fresh "Hs" in pose proof Hs as Hs'; unfold mvex_size in Hs'; cont_size_tac Hs' ].

Ltac mvex_opt me Hs :=
  let x := fresh "x" in let Hx := fresh "Hx" in
  apply wspec_opt_child; intros x Hx; unfold mvex_size in Hs; rewrite Hx in *; eexists; mvex_child me Hs.

Lemma mvex_enc (me : mode) v : mvex_rt_wf v = true -> mvex_size v < U32 ->
  wspec (enc_mvex v) (mvex_size v) (be 4 (mvex_size v) ++ be 4 0x6d766578 ++ iso_mvex_payload v).
Proof.
  intros H Hs. rewrite <- mvex_code. unfold mvex_rt_wf in H. split_andb.
  unfold enc_mvex, iso_mvex_payload.
  eapply wspec_out.
  - wspec_go.
    + mvex_opt me Hs.
    + mvex_child me Hs.
  - unfold iso_all. rewrite <- ?app_assoc, ?app_nil_r. reflexivity.
Qed.

Lemma mvex_dec v fuel m d l p post : mvex_rt_wf v = true -> mvex_size v < U32 ->
  (mvex_fuel v <= fuel)%nat -> p + mvex_size v < 2 ^ 63 ->
  run (dec_mvex_fuel fuel m (mvex_size v)) (mkStream d l (p + 8) (iso_mvex_payload v ++ post))
  = (Ok v, mkStream d l (p + mvex_size v) post).
Proof.
  intros H Hs Hf Hp. unfold dec_mvex_fuel.
  rewrite (cont_dec_items m _ (mvex_size v) (mvex_dispatch m) (mvex_items v) (iso_mvex_payload v));
    [ | now apply mvex_items_ok | apply mvex_items_iso | apply mvex_items_size | exact Hp
      | pose proof (mvex_items_fuel v); lia ].
  mvex_unfold_items. rewrite !ci_fold_app.
  destruct v as [f_mehd f_trex].
  cbn [mvex_mehd mvex_trex] in *.
  mvex_unfold_i.
  destruct f_mehd;
    cbn [ci_fold fold_left ci_opt ci_of ci_upd mvex_u_mehd mvex_u_trex];
    cbn [ci_fold fold_left ci_opt ci_of ci_upd mvex_u_mehd mvex_u_trex app];
    apply run_cont_finish; (clear -Hp; lia).
Qed.

Theorem mvex_roundtrip (me : mode) :
  cont_roundtrip mvex_rt_wf mvex_size 0x6d766578 enc_mvex dec_mvex_fuel iso_mvex_payload mvex_fuel.
Proof.
  apply cont_roundtrip_intro.
  - apply (mvex_enc me).
  - apply mvex_payload_len.
  - intros; now apply mvex_dec.
Qed.


Print Assumptions mvex_roundtrip.
