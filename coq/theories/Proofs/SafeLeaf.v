(** * C06, leaf layer: summary

    Every leaf decoder of the model, in both build modes ([m] is universally quantified: [Dbg]
    panics on arithmetic overflow, [Rel] wraps), satisfies [leaf_safe] (Base/Hoare.v):

      {Inv s /\ s_data s = d0 /\ s_pos s = p0 /\ 8 <= p0 /\ p0 <= lenN d0 /\ size < 2^62}
        dec_xxx m size
      {Inv s' /\ s_data s' = d0 /\ s_pos s' = p0 - 8 + size}        (and no panic)

    with [Inv s := stream_wf s /\ bytes_ok (s_data s) = true /\ s_len s < 2^62 /\ s_pos s < 2^64].
    The precondition says nothing about the CONTENT of the bytes. *)
From MP4 Require Export Hoare SafeLeaf1 SafeLeaf2 SafeLeaf3 SafeLeaf4.
From MP4 Require Import BoxFtyp BoxMvhd BoxMdhd BoxTkhd BoxMehd BoxMfhd BoxTfdt BoxTrex BoxSmhd
     BoxVmhd BoxTfhd BoxTx3g BoxVpcc BoxStts BoxCtts BoxStsc BoxStsz BoxStss BoxStco BoxCo64 BoxElst
     BoxHdlr BoxData BoxEmsg BoxTrun BoxDinf BoxVp09 BoxAvc1 BoxHev1 BoxMp4a.
Open Scope N_scope.

Theorem leaf_decoders_never_panic (m : mode) :
  leaf_safe (dec_ftyp m) /\ leaf_safe (dec_mvhd m) /\ leaf_safe (dec_mdhd m) /\ leaf_safe (dec_tkhd m)
  /\ leaf_safe (dec_mehd m) /\ leaf_safe (dec_mfhd m) /\ leaf_safe (dec_tfdt m) /\ leaf_safe (dec_trex m)
  /\ leaf_safe (dec_smhd m) /\ leaf_safe (dec_vmhd m) /\ leaf_safe (dec_tfhd m) /\ leaf_safe (dec_tx3g m)
  /\ leaf_safe (dec_vpcc m) /\ leaf_safe (dec_vp09 m)
  /\ leaf_safe (dec_stts m) /\ leaf_safe (dec_ctts m) /\ leaf_safe (dec_stsc m) /\ leaf_safe (dec_stsz m)
  /\ leaf_safe (dec_stss m) /\ leaf_safe (dec_stco m) /\ leaf_safe (dec_co64 m) /\ leaf_safe (dec_elst m)
  /\ leaf_safe (dec_hdlr m) /\ leaf_safe (dec_data m) /\ leaf_safe (dec_emsg m) /\ leaf_safe (dec_trun m)
  /\ leaf_safe (dec_url m) /\ leaf_safe (dec_dref m) /\ leaf_safe (dec_dinf m)
  /\ leaf_safe (dec_avcc m) /\ (forall fuel, leaf_safe (dec_avc1_fuel fuel m)) /\ leaf_safe (dec_avc1 m)
  /\ leaf_safe (dec_hvcc m) /\ leaf_safe (dec_hev1 m)
  /\ (forall fuel, leaf_safe (dec_esds_fuel fuel m)) /\ leaf_safe (dec_esds m)
  /\ (forall fuel, leaf_safe (dec_mp4a_fuel fuel m)) /\ leaf_safe (dec_mp4a m).
Proof.
  split; [exact (dec_ftyp_safe m)|].
  split; [exact (dec_mvhd_safe m)|].
  split; [exact (dec_mdhd_safe m)|].
  split; [exact (dec_tkhd_safe m)|].
  split; [exact (dec_mehd_safe m)|].
  split; [exact (dec_mfhd_safe m)|].
  split; [exact (dec_tfdt_safe m)|].
  split; [exact (dec_trex_safe m)|].
  split; [exact (dec_smhd_safe m)|].
  split; [exact (dec_vmhd_safe m)|].
  split; [exact (dec_tfhd_safe m)|].
  split; [exact (dec_tx3g_safe m)|].
  split; [exact (dec_vpcc_safe m)|].
  split; [exact (dec_vp09_safe m)|].
  split; [exact (dec_stts_safe m)|].
  split; [exact (dec_ctts_safe m)|].
  split; [exact (dec_stsc_safe m)|].
  split; [exact (dec_stsz_safe m)|].
  split; [exact (dec_stss_safe m)|].
  split; [exact (dec_stco_safe m)|].
  split; [exact (dec_co64_safe m)|].
  split; [exact (dec_elst_safe m)|].
  split; [exact (dec_hdlr_safe m)|].
  split; [exact (dec_data_safe m)|].
  split; [exact (dec_emsg_safe m)|].
  split; [exact (dec_trun_safe m)|].
  split; [exact (dec_url_safe m)|].
  split; [exact (dec_dref_safe m)|].
  split; [exact (dec_dinf_safe m)|].
  split; [exact (dec_avcc_safe m)|].
  split; [exact (fun fuel => dec_avc1_fuel_safe fuel m)|].
  split; [exact (dec_avc1_safe m)|].
  split; [exact (dec_hvcc_safe m)|].
  split; [exact (dec_hev1_safe m)|].
  split; [exact (fun fuel => dec_esds_fuel_safe fuel m)|].
  split; [exact (dec_esds_safe m)|].
  split; [exact (fun fuel => dec_mp4a_fuel_safe fuel m)|].
  exact (dec_mp4a_safe m).
Qed.

Print Assumptions leaf_decoders_never_panic.

(** ** The hypotheses of the contract are needed

    [8 <= p]: [box_start] computes [stream_position() - HEADER_SIZE] unchecked. Every call site
    has just read a header, so this cannot be violated from a file.

    [size] bounded: every decoder ends with [skip_bytes_to(reader, start + size)] computed
    unchecked. A 64-bit header ([size = 1], [largesize = 2^64 - 1]) that is NOT at offset 0 gives
    [start + size >= 2^64]: a debug build panics, a release build wraps and seeks backwards.
    The containers and the top-level loop reject [s > size(parent)], so this needs a caller of
    [Mp4Reader::read_header(reader, size)] that passes a [size] much larger than the stream
    (e.g. [u64::MAX]); with [size] = the length of the file it cannot happen.
    The witness: an 8-byte [free] box followed by [00 00 00 01 "mfhd" FF FF FF FF FF FF FF FF]
    and 8 payload bytes; position 24 after the second header, [size = 2^64 - 9]. *)
Definition unbounded_size_witness : bytes :=
  [0;0;0;8; 102;114;101;101;
   0;0;0;1; 109;102;104;100; 255;255;255;255;255;255;255;255;
   0;0;0;0; 0;0;0;1].

Lemma leaf_size_bound_needed :
  let d := unbounded_size_witness in
  bytes_ok d = true /\ lenN d < 2 ^ 62
  /\ fst (run (read_header ;;; read_header) (stream_at d 0)) = Ok (MfhdBox, 2 ^ 64 - 9)
  /\ s_pos (snd (run (read_header ;;; read_header) (stream_at d 0))) = 24
  /\ is_panic (fst (run (dec_mfhd Dbg (2 ^ 64 - 9)) (stream_at d 24))) = true
  /\ is_panic (fst (run (skip_box Dbg (2 ^ 64 - 9)) (stream_at d 24))) = true
  /\ is_panic (fst (run (dec_mfhd Rel (2 ^ 64 - 9)) (stream_at d 24))) = false.
Proof. vm_compute. repeat split; reflexivity. Qed.
