(** * Decoded values are well formed; re-encoding is a fixpoint (second half of C04) — group G2:
      stts ctts stsc stsz stss stco co64 elst data emsg trun url dref dinf *)
From MP4 Require Import Kit VlKit DecWfKitG2.
From MP4 Require Import BoxStts BoxCtts BoxStsc BoxStsz BoxStss BoxStco BoxCo64 BoxElst BoxData BoxEmsg BoxTrun BoxDinf.
From MP4 Require Import IsoStts IsoCtts IsoStsc IsoStsz IsoStss IsoStco IsoCo64 IsoElst IsoData IsoEmsg IsoTrun IsoDinf.
From MP4 Require Import RtStts RtCtts RtStsc RtStsz RtStss RtStco RtCo64 RtElst RtData RtEmsg RtTrun RtDinf.
From Coq Require Import ZifyN ZifyNat ZifyBool.
Open Scope string_scope.
Open Scope list_scope.
Open Scope N_scope.

(** the shape of every [dec_xxx_wf] below *)
Definition dec_wf {X} (dec : mode -> N -> prog X) (wf : X -> bool) : Prop :=
  forall m size s v s', run (dec m size) s = (Ok v, s') ->
    bytes_ok (s_view s) = true -> bytes_ok (s_data s) = true -> wf v = true.

Lemma dec_wf_of_post {X} (dec : mode -> N -> prog X) (wf : X -> bool) :
  (forall m size, post (dec m size) (fun v => wf v = true)) -> dec_wf dec wf.
Proof. intros H m size s v s' E Hv Hd. exact (H m size s v s' (conj Hv Hd) E). Qed.

(** the shape of every [xxx_reencode_fixpoint] below *)
Definition reencode_fixpoint {X} (dec : mode -> N -> prog X) (enc : X -> wprog N) (sz : X -> N) : Prop :=
  forall m size s v s', run (dec m size) s = (Ok v, s') ->
    bytes_ok (s_view s) = true -> bytes_ok (s_data s) = true -> sz v < U32 ->
    wfin (enc v) = Ok (sz v) /\
    forall m' d l p post_, p + sz v < 2 ^ 63 ->
      run (dec m' (sz v)) (mkStream d l (p + 8) (dropN 8 (wout (enc v)) ++ post_))
      = (Ok v, mkStream d l (p + sz v) post_).

Lemma reencode_fixpoint_intro {X} (wf : X -> bool) (sz : X -> N) code enc dec payload :
  leaf_roundtrip wf sz code enc dec payload -> dec_wf dec wf -> reencode_fixpoint dec enc sz.
Proof.
  intros Hrt Hwf m size s v s' E Hv Hd Hs.
  exact (reencode_fixpoint_of_roundtrip wf sz code enc dec payload Hrt v (Hwf m size s v s' E Hv Hd) Hs).
Qed.

(** tables of plain integers: what [rd_n n (rd_u w)] returns *)
Lemma post_rd_n_u n w :
  post (rd_n (N.to_nat n) (rd_u w)) (fun l => lenN l = n /\ forallb (ufit w) l = true).
Proof.
  eapply post_conseq; [apply post_rd_n, post_rd_u_fit|].
  intros l [Hl Hf]. split; [now apply lenN_of_length|now apply Forall_forallb].
Qed.

(** ** stss *)
Lemma dec_stss_post m size : post (dec_stss m size) (fun v => stss_wf v = true).
Proof.
  unfold dec_stss. do 2 post_step.
  eapply post_bind; [apply post_rd_u_fit|]. intros n Hn. post_step. post_step.
  eapply post_bind; [apply post_rd_n_u|]. intros es [Hl Hes]. post_step.
  unfold stss_wf. cbn [stss_version stss_flags stss_entries]. rewrite Hl.
  unfold rd_u8, rd_u24, rd_u32 in *. now rewrite Hver, Hflags, Hn, Hes.
Qed.

Lemma dec_stss_wf : forall m size s v s', run (dec_stss m size) s = (Ok v, s') ->
  bytes_ok (s_view s) = true -> bytes_ok (s_data s) = true -> stss_wf v = true.
Proof. exact (dec_wf_of_post dec_stss stss_wf dec_stss_post). Qed.

Theorem stss_reencode_fixpoint : reencode_fixpoint dec_stss enc_stss stss_size.
Proof. exact (reencode_fixpoint_intro _ _ _ _ _ _ stss_roundtrip dec_stss_wf). Qed.

(** ** stco *)
Lemma dec_stco_post m size : post (dec_stco m size) (fun v => stco_wf v = true).
Proof.
  unfold dec_stco. do 2 post_step.
  eapply post_bind; [apply post_rd_u_fit|]. intros n Hn. post_step. post_step.
  eapply post_bind; [apply post_rd_n_u|]. intros es [Hl Hes]. post_step.
  unfold stco_wf. cbn [stco_version stco_flags stco_entries]. rewrite Hl.
  unfold rd_u8, rd_u24, rd_u32 in *. now rewrite Hver, Hflags, Hn, Hes.
Qed.

Lemma dec_stco_wf : forall m size s v s', run (dec_stco m size) s = (Ok v, s') ->
  bytes_ok (s_view s) = true -> bytes_ok (s_data s) = true -> stco_wf v = true.
Proof. exact (dec_wf_of_post dec_stco stco_wf dec_stco_post). Qed.

Theorem stco_reencode_fixpoint : reencode_fixpoint dec_stco enc_stco stco_size.
Proof. exact (reencode_fixpoint_intro _ _ _ _ _ _ stco_roundtrip dec_stco_wf). Qed.

(** ** co64 *)
Lemma dec_co64_post m size : post (dec_co64 m size) (fun v => co64_wf v = true).
Proof.
  unfold dec_co64. do 2 post_step.
  eapply post_bind; [apply post_rd_u_fit|]. intros n Hn. post_step. post_step.
  eapply post_bind; [apply post_rd_n_u|]. intros es [Hl Hes]. post_step.
  unfold co64_wf. cbn [co64_version co64_flags co64_entries]. rewrite Hl.
  unfold rd_u8, rd_u24, rd_u32, rd_u64 in *. now rewrite Hver, Hflags, Hn, Hes.
Qed.

Lemma dec_co64_wf : forall m size s v s', run (dec_co64 m size) s = (Ok v, s') ->
  bytes_ok (s_view s) = true -> bytes_ok (s_data s) = true -> co64_wf v = true.
Proof. exact (dec_wf_of_post dec_co64 co64_wf dec_co64_post). Qed.

Theorem co64_reencode_fixpoint : reencode_fixpoint dec_co64 enc_co64 co64_size.
Proof. exact (reencode_fixpoint_intro _ _ _ _ _ _ co64_roundtrip dec_co64_wf). Qed.

(** tables of records: what [rd_n n body] returns when every record read is well formed *)
Lemma post_rd_n_rec {A} n (body : prog A) (q : A -> bool) :
  post body (fun x => q x = true) ->
  post (rd_n (N.to_nat n) body) (fun l => lenN l = n /\ forallb q l = true).
Proof.
  intros H. eapply post_conseq; [apply post_rd_n, H|].
  intros l [Hl Hf]. split; [now apply lenN_of_length|now apply Forall_forallb].
Qed.

(** ** stts *)
Lemma stts_rd_entry_post : post stts_rd_entry (fun e => stts_entry_wf e = true).
Proof.
  unfold stts_rd_entry, rd_u32.
  eapply post_bind; [apply post_rd_u_fit|]. intros c Hc.
  eapply post_bind; [apply post_rd_u_fit|]. intros d Hd.
  apply post_ret. unfold stts_entry_wf. cbn [stts_e_sample_count stts_e_sample_delta]. now rewrite Hc, Hd.
Qed.

Lemma dec_stts_post m size : post (dec_stts m size) (fun v => stts_wf v = true).
Proof.
  unfold dec_stts. do 2 post_step.
  eapply post_bind; [apply post_rd_u_fit|]. intros n Hn. post_step. post_step.
  eapply post_bind; [apply post_rd_n_rec, stts_rd_entry_post|]. intros es [Hl Hes]. post_step.
  unfold stts_wf. cbn [stts_version stts_flags stts_entries]. rewrite Hl.
  unfold rd_u8, rd_u24, rd_u32 in *. now rewrite Hver, Hflags, Hn, Hes.
Qed.

Lemma dec_stts_wf : forall m size s v s', run (dec_stts m size) s = (Ok v, s') ->
  bytes_ok (s_view s) = true -> bytes_ok (s_data s) = true -> stts_wf v = true.
Proof. exact (dec_wf_of_post dec_stts stts_wf dec_stts_post). Qed.

Theorem stts_reencode_fixpoint : reencode_fixpoint dec_stts enc_stts stts_size.
Proof. exact (reencode_fixpoint_intro _ _ _ _ _ _ stts_roundtrip dec_stts_wf). Qed.

(** ** ctts *)
Lemma ctts_rd_entry_post : post ctts_rd_entry (fun e => ctts_entry_wf e = true).
Proof.
  unfold ctts_rd_entry, rd_u32, rd_i32.
  eapply post_bind; [apply post_rd_u_fit|]. intros c Hc.
  eapply post_bind; [apply post_rd_i; lia|]. intros d Hd.
  apply post_ret. unfold ctts_entry_wf. cbn [ctts_e_sample_count ctts_e_sample_offset]. now rewrite Hc, Hd.
Qed.

Lemma dec_ctts_post m size : post (dec_ctts m size) (fun v => ctts_wf v = true).
Proof.
  unfold dec_ctts. do 2 post_step.
  eapply post_bind; [apply post_rd_u_fit|]. intros n Hn. post_step. post_step.
  eapply post_bind; [apply post_rd_n_rec, ctts_rd_entry_post|]. intros es [Hl Hes]. post_step.
  unfold ctts_wf. cbn [ctts_version ctts_flags ctts_entries]. rewrite Hl.
  unfold rd_u8, rd_u24, rd_u32 in *. now rewrite Hver, Hflags, Hn, Hes.
Qed.

Lemma dec_ctts_wf : forall m size s v s', run (dec_ctts m size) s = (Ok v, s') ->
  bytes_ok (s_view s) = true -> bytes_ok (s_data s) = true -> ctts_wf v = true.
Proof. exact (dec_wf_of_post dec_ctts ctts_wf dec_ctts_post). Qed.

Theorem ctts_reencode_fixpoint : reencode_fixpoint dec_ctts enc_ctts ctts_size.
Proof. exact (reencode_fixpoint_intro _ _ _ _ _ _ ctts_roundtrip dec_ctts_wf). Qed.

(** ** elst *)
Lemma elst_rd_entry_post version : post (elst_rd_entry version) (fun e => elst_entry_wf version e = true).
Proof.
  unfold elst_rd_entry, rd_u16, rd_u32, rd_u64.
  eapply post_bind with (R := fun ab => if version =? 1 then ufit 8 (fst ab) = true /\ ufit 8 (snd ab) = true
                                         else ufit 4 (fst ab) = true /\ ufit 4 (snd ab) = true).
  - destruct (version =? 1).
    + eapply post_bind; [apply post_rd_u_fit|]. intros a Ha.
      eapply post_bind; [apply post_rd_u_fit|]. intros b Hb. apply post_ret. auto.
    + eapply post_bind; [apply post_rd_u_fit|]. intros a Ha.
      eapply post_bind; [apply post_rd_u_fit|]. intros b Hb. apply post_ret. auto.
  - intros [a b] Hab. cbn [fst snd] in Hab.
    eapply post_bind; [apply post_rd_u_fit|]. intros r Hr.
    eapply post_bind; [apply post_rd_u_fit|]. intros f Hf.
    apply post_ret. unfold elst_entry_wf.
    cbn [elst_e_segment_duration elst_e_media_time elst_e_media_rate elst_e_media_rate_fraction].
    rewrite Hr, Hf. destruct (version =? 1); destruct Hab as [-> ->]; reflexivity.
Qed.

Lemma dec_elst_post m size : post (dec_elst m size) (fun v => elst_wf v = true).
Proof.
  unfold dec_elst. do 2 post_step.
  eapply post_bind; [apply post_rd_u_fit|]. intros n Hn. post_step. post_step.
  eapply post_bind; [apply post_rd_n_rec, elst_rd_entry_post|]. intros es [Hl Hes]. post_step.
  unfold elst_wf. cbn [elst_version elst_flags elst_entries]. rewrite Hl.
  unfold rd_u8, rd_u24, rd_u32 in *. now rewrite Hver, Hflags, Hn, Hes.
Qed.

Lemma dec_elst_wf : forall m size s v s', run (dec_elst m size) s = (Ok v, s') ->
  bytes_ok (s_view s) = true -> bytes_ok (s_data s) = true -> elst_wf v = true.
Proof. exact (dec_wf_of_post dec_elst elst_wf dec_elst_post). Qed.

Theorem elst_reencode_fixpoint : reencode_fixpoint dec_elst enc_elst elst_size.
Proof. exact (reencode_fixpoint_intro _ _ _ _ _ _ elst_roundtrip dec_elst_wf). Qed.

(** ** stsz *)
Lemma dec_stsz_post m size : post (dec_stsz m size) (fun v => stsz_wf v = true).
Proof.
  unfold dec_stsz. do 2 post_step.
  eapply post_bind; [apply post_rd_u_fit|]. intros ss Hss.
  eapply post_bind; [apply post_rd_u_fit|]. intros sc Hsc.
  eapply post_bind with (R := fun l => if ss =? 0 then lenN l = sc /\ forallb (ufit 4) l = true else l = []).
  - destruct (ss =? 0).
    + apply post_bind_any. intros q. post_step. post_step. apply post_rd_n_u.
    + apply post_ret. reflexivity.
  - intros l Hl. post_step.
    unfold stsz_wf. cbn [stsz_version stsz_flags stsz_sample_size stsz_sample_count stsz_sample_sizes].
    unfold rd_u8, rd_u24, rd_u32 in *. rewrite Hver, Hflags, Hss, Hsc.
    destruct (ss =? 0).
    + destruct Hl as [<- ->]. now rewrite N.eqb_refl.
    + now subst l.
Qed.

Lemma dec_stsz_wf : forall m size s v s', run (dec_stsz m size) s = (Ok v, s') ->
  bytes_ok (s_view s) = true -> bytes_ok (s_data s) = true -> stsz_wf v = true.
Proof. exact (dec_wf_of_post dec_stsz stsz_wf dec_stsz_post). Qed.

Theorem stsz_reencode_fixpoint : reencode_fixpoint dec_stsz enc_stsz stsz_size.
Proof. exact (reencode_fixpoint_intro _ _ _ _ _ _ stsz_roundtrip dec_stsz_wf). Qed.

(** ** stsc *)
Lemma stsc_rd_entry_post : post stsc_rd_entry (fun e => stsc_ent_wf e = true).
Proof.
  unfold stsc_rd_entry, rd_u32.
  eapply post_bind; [apply post_rd_u_fit|]. intros a Ha.
  eapply post_bind; [apply post_rd_u_fit|]. intros b Hb.
  eapply post_bind; [apply post_rd_u_fit|]. intros c Hc.
  apply post_ret. unfold stsc_ent_wf.
  cbn [stsc_e_first_chunk stsc_e_samples_per_chunk stsc_e_sample_description_index]. now rewrite Ha, Hb, Hc.
Qed.

Lemma stsc_ent_wf_zero l : forallb stsc_ent_wf (map stsc_zero l) = forallb stsc_ent_wf l.
Proof. induction l as [|e t IH]; cbn [map forallb]; auto. now rewrite IH. Qed.

(** the second loop of [read_box] changes nothing but the [first_sample] fields, and sets them to
    exactly what [stsc_first_ok] checks *)
Lemma stsc_fill_post es sid :
  post (stsc_fill es sid) (fun r => map stsc_zero r = map stsc_zero es /\ stsc_first_ok r sid = true).
Proof.
  revert sid; induction es as [|e t IH]; intros sid; cbn [stsc_fill].
  - apply post_ret. auto.
  - apply post_bind_any. intros _. destruct t as [|nx t'].
    + apply post_ret. split; [reflexivity|].
      cbn [stsc_first_ok stsc_e_first_sample]. now rewrite N.eqb_refl.
    + destruct (stsc_next_id e nx sid) as [sid'|] eqn:En; [|apply post_throw].
      eapply post_bind; [apply IH|]. intros r [Hm Hf]. apply post_ret.
      destruct r as [|nx' r']; [discriminate|].
      split.
      * cbn [map] in Hm |- *. rewrite Hm. reflexivity.
      * cbn [stsc_first_ok stsc_e_first_sample]. rewrite N.eqb_refl. cbn [andb].
        pose proof (f_equal (fun l => hd (stsc_zero nx) l) Hm) as Hz. cbn [hd map] in Hz.
        match goal with |- match stsc_next_id ?e1 nx' sid with _ => _ end = true =>
          change (stsc_next_id e1 nx' sid) with (stsc_next_id (stsc_zero e) (stsc_zero nx') sid) end.
        rewrite Hz.
        change (stsc_next_id (stsc_zero e) (stsc_zero nx) sid) with (stsc_next_id e nx sid).
        rewrite En. exact Hf.
Qed.

Lemma dec_stsc_post m size : post (dec_stsc m size) (fun v => stsc_wf v = true).
Proof.
  unfold dec_stsc. do 2 post_step.
  eapply post_bind; [apply post_rd_u_fit|]. intros n Hn. post_step. post_step.
  eapply post_bind; [apply post_rd_n_rec, stsc_rd_entry_post|]. intros es [Hl Hes].
  eapply post_bind; [apply stsc_fill_post|]. intros r [Hm Hf]. post_step.
  unfold stsc_wf. cbn [stsc_version stsc_flags stsc_entries].
  assert (Hlr : lenN r = n).
  { rewrite <- Hl. unfold lenN. f_equal.
    rewrite <- (map_length stsc_zero r), <- (map_length stsc_zero es). now rewrite Hm. }
  assert (Hwr : forallb stsc_ent_wf r = true)
    by (rewrite <- stsc_ent_wf_zero, Hm, stsc_ent_wf_zero; exact Hes).
  rewrite Hlr. unfold rd_u8, rd_u24, rd_u32 in *. now rewrite Hver, Hflags, Hn, Hwr, Hf.
Qed.

Lemma dec_stsc_wf : forall m size s v s', run (dec_stsc m size) s = (Ok v, s') ->
  bytes_ok (s_view s) = true -> bytes_ok (s_data s) = true -> stsc_wf v = true.
Proof. exact (dec_wf_of_post dec_stsc stsc_wf dec_stsc_post). Qed.

Theorem stsc_reencode_fixpoint : reencode_fixpoint dec_stsc enc_stsc stsc_size.
Proof. exact (reencode_fixpoint_intro _ _ _ _ _ _ stsc_roundtrip dec_stsc_wf). Qed.

(** ** data *)
Lemma datatype_try_from_discr x t : datatype_try_from x = Ok t ->
  match datatype_try_from (datatype_discr t) with Ok n => String.eqb n t | _ => false end = true.
Proof.
  intros H. unfold datatype_try_from, enum_try_from, Tables.DataType_tryfrom in H. cbn [lookup_n] in H.
  repeat (match type of H with context [if ?b then _ else _] => destruct b end;
          [inversion H; subst t; vm_compute; reflexivity|]).
  discriminate.
Qed.

Lemma dec_data_post m size : post (dec_data m size) (fun v => data_wf v = true).
Proof.
  unfold dec_data. post_step.
  apply post_bind_any. intros x.
  eapply post_bind; [apply post_lift|]. intros t Ht.
  apply post_bind_any. intros _. post_step. post_step.
  destruct (checked_sub e pos) as [n|]; [|apply post_throw].
  eapply post_bind; [apply post_rd_vec|]. intros d [Hd _]. apply post_ret.
  unfold data_wf. cbn [data_data data_data_type]. rewrite Hd.
  now rewrite (datatype_try_from_discr x t Ht).
Qed.

Lemma dec_data_wf : forall m size s v s', run (dec_data m size) s = (Ok v, s') ->
  bytes_ok (s_view s) = true -> bytes_ok (s_data s) = true -> data_wf v = true.
Proof. exact (dec_wf_of_post dec_data data_wf dec_data_post). Qed.

Theorem data_reencode_fixpoint : reencode_fixpoint dec_data enc_data data_size.
Proof. exact (reencode_fixpoint_intro _ _ _ _ _ _ data_roundtrip dec_data_wf). Qed.

(** ** emsg *)
Lemma vl_no_nul_app a b : vl_no_nul (a ++ b) = vl_no_nul a && vl_no_nul b.
Proof. unfold vl_no_nul. apply forallb_app. Qed.

Lemma emsg_rd_cstr_loop_post remaining acc :
  bytes_ok acc = true -> vl_no_nul acc = true ->
  post (emsg_rd_cstr_loop remaining acc)
       (fun bs => exists s, bs = s ++ [0] /\ bytes_ok s = true /\ vl_no_nul s = true).
Proof.
  revert acc; induction remaining as [|r IH]; intros acc Ha Hn; cbn [emsg_rd_cstr_loop].
  - apply post_throw.
  - unfold rd_u8. eapply post_bind; [apply post_rd_u|]. intros b Hb. rewrite pow256_1 in Hb.
    destruct (N.eqb_spec b 0) as [->|Hz].
    + apply post_ret. exists acc. auto.
    + apply IH.
      * rewrite bytes_ok_app, Ha. apply bytes_ok_cons. split; [exact Hb|reflexivity].
      * rewrite vl_no_nul_app, Hn. cbn [vl_no_nul forallb]. apply N.eqb_neq in Hz. now rewrite Hz.
Qed.

Lemma emsg_rd_cstr_post limit : post (emsg_rd_cstr limit) (fun s => vl_str_ok s = true).
Proof.
  unfold emsg_rd_cstr.
  eapply post_bind; [apply emsg_rd_cstr_loop_post; reflexivity|]. intros bs (s & -> & Hb & Hn).
  rewrite removelast_last. destruct (utf8_valid s) eqn:Hu; [|apply post_throw].
  apply post_ret. unfold vl_str_ok. now rewrite Hb, Hu, Hn.
Qed.

Lemma emsg_rd_string_post m start size : post (emsg_rd_string m start size) (fun s => vl_str_ok s = true).
Proof. unfold emsg_rd_string. do 2 post_step. apply emsg_rd_cstr_post. Qed.

Lemma dec_emsg_post m size : post (dec_emsg m size) (fun v => emsg_wf v = true).
Proof.
  unfold dec_emsg. do 2 post_step. unfold rd_u32, rd_u64.
  eapply post_bind with (R := fun t =>
    match t with
    | (ts, pt, ptd, dur, id, uri, val) =>
        (version <? 2) = true /\ ufit 4 ts = true
        /\ (if version =? 1 then exists x, pt = Some x /\ ptd = None /\ ufit 8 x = true
            else exists x, pt = None /\ ptd = Some x /\ ufit 4 x = true)
        /\ ufit 4 dur = true /\ ufit 4 id = true /\ vl_str_ok uri = true /\ vl_str_ok val = true
    end).
  - destruct (N.eqb_spec version 0) as [->|H0].
    + eapply post_bind; [apply emsg_rd_string_post|]. intros uri Huri.
      eapply post_bind; [apply emsg_rd_string_post|]. intros val Hval.
      eapply post_bind; [apply post_rd_u_fit|]. intros ts Hts.
      eapply post_bind; [apply post_rd_u_fit|]. intros delta Hdelta.
      eapply post_bind; [apply post_rd_u_fit|]. intros dur Hdur.
      eapply post_bind; [apply post_rd_u_fit|]. intros id Hid.
      apply post_ret. change (0 =? 1) with false. cbv iota. repeat split; auto. exists delta. auto.
    + destruct (N.eqb_spec version 1) as [->|H1]; [|apply post_throw].
      eapply post_bind; [apply post_rd_u_fit|]. intros ts Hts.
      eapply post_bind; [apply post_rd_u_fit|]. intros pt Hpt.
      eapply post_bind; [apply post_rd_u_fit|]. intros dur Hdur.
      eapply post_bind; [apply post_rd_u_fit|]. intros id Hid.
      eapply post_bind; [apply emsg_rd_string_post|]. intros uri Huri.
      eapply post_bind; [apply emsg_rd_string_post|]. intros val Hval.
      apply post_ret. repeat split; auto. exists pt. auto.
  - intros [[[[[[ts pt] ptd] dur] id] uri] val] (Hv2 & Hts & Ht & Hdur & Hid & Huri & Hval).
    destruct (checked_sub size (emsg_size_without_message version uri val)) as [ms|]; [|apply post_throw].
    post_step.
    eapply post_bind; [apply (post_rd_n_u ms 1)|]. intros md [_ Hmd]. post_step.
    rewrite forallb_ufit1_bytes_ok in Hmd.
    unfold emsg_wf.
    cbn [emsg_version emsg_flags emsg_timescale emsg_presentation_time emsg_presentation_time_delta
         emsg_event_duration emsg_id emsg_scheme_id_uri emsg_value emsg_message_data].
    rewrite Hv2, Hflags, Hts, Hdur, Hid, Huri, Hval, Hmd.
    destruct (version =? 1); destruct Ht as (x & -> & -> & ->); reflexivity.
Qed.

Lemma dec_emsg_wf : forall m size s v s', run (dec_emsg m size) s = (Ok v, s') ->
  bytes_ok (s_view s) = true -> bytes_ok (s_data s) = true -> emsg_wf v = true.
Proof. exact (dec_wf_of_post dec_emsg emsg_wf dec_emsg_post). Qed.

Theorem emsg_reencode_fixpoint : reencode_fixpoint dec_emsg enc_emsg emsg_size.
Proof. exact (reencode_fixpoint_intro _ _ _ _ _ _ emsg_roundtrip dec_emsg_wf). Qed.

(** ** trun *)
Definition trun_opt_ok (present : bool) (o : option N) : Prop :=
  if present then exists x, o = Some x /\ ufit 4 x = true else o = None.

Lemma trun_rd_opt_post present : post (trun_rd_opt present) (trun_opt_ok present).
Proof.
  unfold trun_rd_opt, trun_opt_ok, rd_u32. destruct present.
  - eapply post_bind; [apply post_rd_u_fit|]. intros x Hx. apply post_ret. eauto.
  - apply post_ret. reflexivity.
Qed.

Definition trun_row_ok (flags : N) (r : trun_row) : Prop :=
  trun_opt_ok (trun_has trun_FLAG_SAMPLE_DURATION flags) (trun_row_d r)
  /\ trun_opt_ok (trun_has trun_FLAG_SAMPLE_SIZE flags) (trun_row_s r)
  /\ trun_opt_ok (trun_has trun_FLAG_SAMPLE_FLAGS flags) (trun_row_f r)
  /\ trun_opt_ok (trun_has trun_FLAG_SAMPLE_CTS flags) (trun_row_c r).

Lemma trun_rd_row_post flags : post (trun_rd_row flags) (trun_row_ok flags).
Proof.
  unfold trun_rd_row.
  eapply post_bind; [apply trun_rd_opt_post|]. intros d Hd.
  eapply post_bind; [apply trun_rd_opt_post|]. intros s Hs.
  eapply post_bind; [apply trun_rd_opt_post|]. intros f Hf.
  eapply post_bind; [apply trun_rd_opt_post|]. intros c Hc.
  apply post_ret. unfold trun_row_ok, trun_row_d, trun_row_s, trun_row_f, trun_row_c. cbn [fst snd]. auto.
Qed.

Lemma trun_vec_wf_rows (proj : trun_row -> option N) present count rows :
  Forall (fun r => trun_opt_ok present (proj r)) rows ->
  (present = true -> lenN rows = count) ->
  trun_vec_wf present count (flat_map (fun r => trun_olist (proj r)) rows) = true.
Proof.
  intros Hall Hlen. unfold trun_vec_wf, trun_opt_ok in *. destruct present.
  - rewrite <- (Hlen eq_refl). clear Hlen.
    induction Hall as [|r rows (x & Hx & Hfit) _ IH].
    + reflexivity.
    + cbn [flat_map]. rewrite Hx. cbn [trun_olist app forallb]. rewrite Hfit.
      apply andb_true_iff in IH as [IH1 IH2]. rewrite IH2. apply N.eqb_eq in IH1.
      rewrite !lenN_cons, IH1, N.eqb_refl. reflexivity.
  - clear Hlen. induction Hall as [|r rows Hx _ IH]; [reflexivity|].
    cbn [flat_map]. rewrite Hx. cbn [trun_olist app]. exact IH.
Qed.

Lemma dec_trun_post m size : post (dec_trun m size) (fun v => trun_wf v = true).
Proof.
  unfold dec_trun. do 2 post_step. unfold rd_u32, rd_i32.
  eapply post_bind; [apply post_rd_u_fit|]. intros sc Hsc.
  eapply post_bind with (R := fun o => match o with
      | Some z => trun_has trun_FLAG_DATA_OFFSET flags && sfit 4 z = true
      | None => negb (trun_has trun_FLAG_DATA_OFFSET flags) = true end).
  { destruct (trun_has trun_FLAG_DATA_OFFSET flags).
    - eapply post_bind; [apply post_rd_i; lia|]. intros z Hz. apply post_ret. exact Hz.
    - apply post_ret. reflexivity. }
  intros dof Hdof.
  eapply post_bind with (R := fun o => match o with
      | Some x => trun_has trun_FLAG_FIRST_SAMPLE_FLAGS flags && ufit 4 x = true
      | None => negb (trun_has trun_FLAG_FIRST_SAMPLE_FLAGS flags) = true end).
  { destruct (trun_has trun_FLAG_FIRST_SAMPLE_FLAGS flags).
    - eapply post_bind; [apply post_rd_u_fit|]. intros z Hz. apply post_ret. exact Hz.
    - apply post_ret. reflexivity. }
  intros fsf Hfsf.
  post_step. do 4 (apply post_bind_any; intros _).
  eapply post_bind; [apply post_rd_n, trun_rd_row_post|]. intros rows [Hl Hrows].
  apply lenN_of_length in Hl. post_step.
  unfold trun_wf.
  cbn [trun_version trun_flags trun_sample_count trun_data_offset trun_first_sample_flags
       trun_sample_durations trun_sample_sizes trun_sample_flags trun_sample_cts].
  rewrite Hver, Hflags, Hsc. cbn [andb].
  replace (match dof with
           | Some z => trun_has trun_FLAG_DATA_OFFSET flags && sfit 4 z
           | None => negb (trun_has trun_FLAG_DATA_OFFSET flags) end) with true
    by (destruct dof; now rewrite Hdof).
  replace (match fsf with
           | Some x => trun_has trun_FLAG_FIRST_SAMPLE_FLAGS flags && ufit 4 x
           | None => negb (trun_has trun_FLAG_FIRST_SAMPLE_FLAGS flags) end) with true
    by (destruct fsf; now rewrite Hfsf).
  cbn [andb].
  unfold trun_row_ok in Hrows.
  set (bD := trun_has trun_FLAG_SAMPLE_DURATION flags) in *.
  set (bS := trun_has trun_FLAG_SAMPLE_SIZE flags) in *.
  set (bF := trun_has trun_FLAG_SAMPLE_FLAGS flags) in *.
  set (bC := trun_has trun_FLAG_SAMPLE_CTS flags) in *.
  rewrite !trun_vec_wf_rows; try reflexivity.
  all: try (intros Hb; rewrite Hl; clear -Hb; rewrite Hb; destruct bD, bS, bF, bC; reflexivity).
  all: eapply Forall_impl; [|exact Hrows]; cbv beta; tauto.
Qed.

Lemma dec_trun_wf : forall m size s v s', run (dec_trun m size) s = (Ok v, s') ->
  bytes_ok (s_view s) = true -> bytes_ok (s_data s) = true -> trun_wf v = true.
Proof. exact (dec_wf_of_post dec_trun trun_wf dec_trun_post). Qed.

Theorem trun_reencode_fixpoint : reencode_fixpoint dec_trun enc_trun trun_size.
Proof. exact (reencode_fixpoint_intro _ _ _ _ _ _ trun_roundtrip dec_trun_wf). Qed.

(** ** url, dref, dinf

    [dec_url_wf] with [url_wf] is FALSE: [url_wf] also demands what ISO/IEC 14496-12 8.7.2 demands (flag
    bit 0 set exactly when there is no location string), and [UrlBox::read_box] checks no such thing.
    Two witnesses, and for both of them re-encoding IS nevertheless a fixpoint (the encoder writes a
    string exactly when [location] is non-empty, whatever the flags): *)
Example dec_url_not_wf_flag0_no_string :
  let s := stream_at [0;0;0;12; 117;114;108;32; 0; 0;0;0] 8 in
  let v := mkUrl 0 0 [] in
  run (dec_url Dbg 12) s = (Ok v, stream_at [0;0;0;12; 117;114;108;32; 0; 0;0;0] 12)
  /\ url_wf v = false
  /\ wout (enc_url v) = [0;0;0;12; 117;114;108;32; 0; 0;0;0]
  /\ fst (run (dec_url Dbg (url_size v)) (stream_at (wout (enc_url v)) 8)) = Ok v.
Proof. vm_compute. repeat split; reflexivity. Qed.

Example dec_url_not_wf_flag1_string :
  let s := stream_at [0;0;0;14; 117;114;108;32; 0; 0;0;1; 97; 0] 8 in
  let v := mkUrl 0 1 [97] in
  run (dec_url Dbg 14) s = (Ok v, stream_at [0;0;0;14; 117;114;108;32; 0; 0;0;1; 97; 0] 14)
  /\ url_wf v = false
  /\ wout (enc_url v) = [0;0;0;14; 117;114;108;32; 0; 0;0;1; 97; 0]
  /\ fst (run (dec_url Dbg (url_size v)) (stream_at (wout (enc_url v)) 8)) = Ok v.
Proof. vm_compute. repeat split; reflexivity. Qed.

(** the same through dref and dinf (a dinf holding a dref holding the first url above) *)
Example dec_dinf_not_wf :
  let bytes := [0;0;0;36; 100;105;110;102;  0;0;0;28; 100;114;101;102; 0; 0;0;0; 0;0;0;1;
                0;0;0;12; 117;114;108;32; 0; 0;0;0] in
  let v := mkDinf (mkDref 0 0 (Some (mkUrl 0 0 []))) in
  fst (run (dec_dinf Dbg 36) (stream_at bytes 8)) = Ok v
  /\ dinf_wf v = false /\ dref_wf (dinf_dref v) = false
  /\ wout (enc_dinf v) = bytes
  /\ fst (run (dec_dinf Dbg (dinf_size v)) (stream_at (wout (enc_dinf v)) 8)) = Ok v.
Proof. vm_compute. repeat split; reflexivity. Qed.

(** What the decoders do guarantee: everything in [url_wf] except the ISO condition on flag bit 0. *)
Definition url_wf0 (v : url) : bool :=
  ufit 1 (url_version v) && ufit 3 (url_flags v) && vl_str_ok (url_location v).
Definition dref_wf0 (v : dref) : bool :=
  ufit 1 (dref_version v) && ufit 3 (dref_flags v)
  && match dref_url v with Some u => url_wf0 u | None => true end.
Definition dinf_wf0 (v : dinf) : bool := dref_wf0 (dinf_dref v).

Lemma url_wf_wf0 v : url_wf v = true -> url_wf0 v = true.
Proof. unfold url_wf, url_wf0. intros H. apply andb_true_iff in H as [H _]. exact H. Qed.

Lemma bytes_ok_trim_nul l : bytes_ok l = true -> bytes_ok (vl_trim_nul l) = true.
Proof.
  induction l as [|b t IH]; intros H; cbn [vl_trim_nul]; auto.
  apply bytes_ok_cons in H as [Hb Ht]. destruct (b =? 0); [reflexivity|].
  apply bytes_ok_cons. auto.
Qed.

Lemma no_nul_trim_nul l : vl_no_nul (vl_trim_nul l) = true.
Proof.
  induction l as [|b t IH]; cbn [vl_trim_nul]; auto.
  destruct (b =? 0) eqn:E; [reflexivity|]. cbn [vl_no_nul forallb]. rewrite E. exact IH.
Qed.

Lemma vl_str_ok_decoded buf : bytes_ok buf = true ->
  vl_str_ok (vl_utf8_or_default (vl_trim_nul buf)) = true.
Proof.
  intros H. unfold vl_utf8_or_default.
  destruct (utf8_valid (vl_trim_nul buf)) eqn:Hu; [|reflexivity].
  unfold vl_str_ok. now rewrite bytes_ok_trim_nul, Hu, no_nul_trim_nul.
Qed.

Lemma dec_url_post m size : post (dec_url m size) (fun v => url_wf0 v = true).
Proof.
  unfold dec_url. do 2 post_step.
  destruct (checked_sub size (HEADER_SIZE + HEADER_EXT_SIZE)) as [n|]; [|apply post_throw].
  eapply post_bind; [apply post_rd_vec|]. intros buf [Hb _]. post_step.
  unfold url_wf0. cbn [url_version url_flags url_location].
  now rewrite Hver, Hflags, vl_str_ok_decoded.
Qed.

Lemma dec_url_wf0 : forall m size s v s', run (dec_url m size) s = (Ok v, s') ->
  bytes_ok (s_view s) = true -> bytes_ok (s_data s) = true -> url_wf0 v = true.
Proof. exact (dec_wf_of_post dec_url url_wf0 dec_url_post). Qed.

Definition dref_url_ok (u : option url) : Prop :=
  match u with Some x => url_wf0 x = true | None => True end.

Lemma dref_loop_post m n size end_ u current : dref_url_ok u ->
  post (dref_loop m n size end_ u current) dref_url_ok.
Proof.
  revert u current; induction n as [|n IH]; intros u current Hu; cbn [dref_loop].
  - apply post_ret. exact Hu.
  - destruct (end_ <=? current); [apply post_ret; exact Hu|].
    apply post_bind_any. intros [name s].
    destruct (size <? s); [apply post_throw|].
    destruct (s =? 0); [apply post_ret; exact Hu|].
    eapply post_bind with (R := dref_url_ok).
    + destruct (boxtype_eqb name UrlBox).
      * eapply post_bind; [apply dec_url_post|]. intros x Hx. apply post_ret. exact Hx.
      * apply post_bind_any. intros _. apply post_ret. exact Hu.
    + intros u' Hu'. apply post_bind_any. intros current'. apply IH. exact Hu'.
Qed.

Lemma dec_dref_post m size : post (dec_dref m size) (fun v => dref_wf0 v = true).
Proof.
  unfold dec_dref. do 3 post_step.
  apply post_bind_any. intros entry_count. post_step.
  eapply post_bind; [apply dref_loop_post; exact I|]. intros u Hu. post_step.
  unfold dref_wf0. cbn [dref_version dref_flags dref_url]. rewrite Hver, Hflags.
  destruct u as [x|]; [exact Hu|reflexivity].
Qed.

Lemma dec_dref_wf0 : forall m size s v s', run (dec_dref m size) s = (Ok v, s') ->
  bytes_ok (s_view s) = true -> bytes_ok (s_data s) = true -> dref_wf0 v = true.
Proof. exact (dec_wf_of_post dec_dref dref_wf0 dec_dref_post). Qed.

Definition dinf_dref_ok (d : option dref) : Prop :=
  match d with Some x => dref_wf0 x = true | None => True end.

Lemma dinf_loop_post m fuel size end_ d current : dinf_dref_ok d ->
  post (dinf_loop m fuel size end_ d current) dinf_dref_ok.
Proof.
  revert d current; induction fuel as [|fuel IH]; intros d current Hd; cbn [dinf_loop].
  - destruct (current <? end_); [apply post_spin|apply post_ret; exact Hd].
  - destruct (current <? end_); [|apply post_ret; exact Hd].
    apply post_bind_any. intros [name s].
    destruct (size <? s); [apply post_throw|].
    destruct (s =? 0); [apply post_ret; exact Hd|].
    eapply post_bind with (R := dinf_dref_ok).
    + destruct (boxtype_eqb name DrefBox).
      * eapply post_bind; [apply dec_dref_post|]. intros x Hx. apply post_ret. exact Hx.
      * apply post_bind_any. intros _. apply post_ret. exact Hd.
    + intros d' Hd'. apply post_bind_any. intros current'. apply IH. exact Hd'.
Qed.

Lemma dec_dinf_post m size : post (dec_dinf m size) (fun v => dinf_wf0 v = true).
Proof.
  unfold dec_dinf. do 3 post_step.
  eapply post_bind; [apply dinf_loop_post; exact I|]. intros d Hd.
  destruct d as [x|]; [|apply post_throw]. post_step. exact Hd.
Qed.

Lemma dec_dinf_wf0 : forall m size s v s', run (dec_dinf m size) s = (Ok v, s') ->
  bytes_ok (s_view s) = true -> bytes_ok (s_data s) = true -> dinf_wf0 v = true.
Proof. exact (dec_wf_of_post dec_dinf dinf_wf0 dec_dinf_post). Qed.

(** *** The round trip under the weaker well-formedness (the bytes the library writes: a NUL-terminated
    string exactly when [location] is non-empty, whatever the flags) *)
Definition url_lib_payload (v : url) : bytes :=
  be 1 (url_version v) ++ be 3 (url_flags v) ++
  match url_location v with [] => [] | _ => url_location v ++ [0] end.

Definition dref_lib_payload (v : dref) : bytes :=
  be 1 (dref_version v) ++ be 3 (dref_flags v) ++
  be 4 (match dref_url v with Some _ => 1 | None => 0 end) ++
  match dref_url v with
  | Some u => iso_dinf_box 0x75726c20 (url_lib_payload u)
  | None => []
  end.

Definition dinf_lib_payload (v : dinf) : bytes :=
  iso_dinf_box 0x64726566 (dref_lib_payload (dinf_dref v)).

(** on ISO-conformant values these are the ISO payloads *)
Lemma url_lib_payload_iso v : url_wf v = true -> url_lib_payload v = iso_url_payload v.
Proof.
  unfold url_wf, url_self_contained, url_lib_payload, iso_url_payload. intros H.
  apply andb_true_iff in H as [_ H]. apply Bool.eqb_prop in H. rewrite H.
  now destruct (url_location v).
Qed.

Lemma url_enc0 v : url_wf0 v = true -> url_size v < U32 ->
  wspec (enc_url v) (url_size v) (be 4 (url_size v) ++ be 4 0x75726c20 ++ url_lib_payload v).
Proof.
  intros H Hs. unfold url_wf0 in H. split_andb.
  unfold enc_url, url_lib_payload. rewrite <- url_code.
  destruct (url_location v) as [|b t].
  - eapply wspec_out; [wspec_go|]. rewrite <- !app_assoc, ?app_nil_r. reflexivity.
  - eapply wspec_out; [wspec_go|]. rewrite <- !app_assoc, ?app_nil_r. reflexivity.
Qed.

Lemma url_payload_len0 v : lenN (url_lib_payload v) + 8 = url_size v.
Proof.
  rewrite url_size_eq. unfold url_lib_payload.
  destruct (url_location v) as [|b t].
  - rewrite ?lenN_app, ?lenN_be, lenN_nil. lia.
  - rewrite ?lenN_app, ?lenN_be, !lenN_cons, lenN_nil. lia.
Qed.

Lemma url_dec0 m v d l p post_ : url_wf0 v = true -> p + url_size v < 2 ^ 63 ->
  run (dec_url m (url_size v)) (mkStream d l (p + 8) (url_lib_payload v ++ post_))
  = (Ok v, mkStream d l (p + url_size v) post_).
Proof.
  intros H Hp. unfold url_wf0 in H. split_andb.
  match goal with H : vl_str_ok _ = true |- _ => apply vl_str_ok_inv in H as [Hu Hn] end.
  pose proof (url_size_eq v) as Hsz.
  unfold dec_url, url_lib_payload.
  destruct v as [ver fl loc]. cbn [url_version url_flags url_location] in *.
  destruct loc as [|b t].
  - rewrite <- !app_assoc. cbn [app].
    rewrite run_box_start. do 2 rd_step.
    rewrite checked_sub_ok by (clear -Hsz; hdr_consts; lia).
    replace (url_size {| url_version := ver; url_flags := fl; url_location := [] |}
             - (HEADER_SIZE + HEADER_EXT_SIZE)) with 0 by (clear -Hsz; hdr_consts; lia).
    rewrite run_rd_vec0_bind. cbn [vl_trim_nul]. rewrite vl_utf8_or_default_ok by reflexivity.
    prog_norm. rewrite run_finish; [| clear -Hsz; lia | clear -Hp; unfold U64; lia].
    f_equal. f_equal. clear -Hsz. lia.
  - rewrite <- !app_assoc.
    rewrite run_box_start. do 2 rd_step.
    rewrite checked_sub_ok by (clear -Hsz; hdr_consts; lia).
    rewrite (app_assoc (b :: t) [0] post_).
    rewrite (run_rd_vec_bind _ ((b :: t) ++ [0]))
      by (rewrite lenN_app, (lenN_cons 0), lenN_nil; clear -Hsz; hdr_consts; lia).
    rewrite vl_trim_nul_app by exact Hn. rewrite vl_utf8_or_default_ok by exact Hu.
    prog_norm. rewrite run_finish; [| clear -Hsz; hdr_consts; lia | clear -Hp; unfold U64; lia].
    f_equal. f_equal. clear -Hsz. hdr_consts. lia.
Qed.

Theorem url_roundtrip0 : leaf_roundtrip url_wf0 url_size 0x75726c20 enc_url dec_url url_lib_payload.
Proof.
  apply leaf_roundtrip_intro.
  - apply url_enc0.
  - intros; apply url_payload_len0.
  - intros; now apply url_dec0.
Qed.

Lemma dref_enc0 v : dref_wf0 v = true -> dref_size v < U32 ->
  wspec (enc_dref v) (dref_size v) (be 4 (dref_size v) ++ be 4 0x64726566 ++ dref_lib_payload v).
Proof.
  intros H Hs. unfold dref_wf0 in H. split_andb.
  pose proof (dref_size_eq v) as Hsz.
  unfold enc_dref, dref_lib_payload, iso_dinf_box. rewrite <- dref_code.
  destruct (dref_url v) as [u|].
  - pose proof (url_payload_len0 u) as Hlen.
    eapply wspec_out.
    + wspec_go. apply url_enc0; [assumption|]. clear -Hs Hsz. lia.
    + replace (8 + lenN (url_lib_payload u)) with (url_size u) by (clear -Hlen; lia).
      rewrite <- !app_assoc, ?app_nil_r. reflexivity.
  - eapply wspec_out; [wspec_go|]. rewrite <- !app_assoc, ?app_nil_r. reflexivity.
Qed.

Lemma dref_payload_len0 v : lenN (dref_lib_payload v) + 8 = dref_size v.
Proof.
  rewrite dref_size_eq. unfold dref_lib_payload, iso_dinf_box.
  destruct (dref_url v) as [u|].
  - rewrite <- (url_payload_len0 u). rewrite ?lenN_app, ?lenN_be. lia.
  - rewrite ?lenN_app, ?lenN_be, lenN_nil. lia.
Qed.

Lemma dref_dec0 m v d l p post_ : dref_wf0 v = true -> dref_size v < U32 -> p + dref_size v < 2 ^ 63 ->
  run (dec_dref m (dref_size v)) (mkStream d l (p + 8) (dref_lib_payload v ++ post_))
  = (Ok v, mkStream d l (p + dref_size v) post_).
Proof.
  intros H Hs Hp. unfold dref_wf0 in H. split_andb.
  pose proof (dref_size_eq v) as Hsz.
  unfold dec_dref, dref_lib_payload, iso_dinf_box.
  destruct v as [ver fl [u|]]; cbn [dref_version dref_flags dref_url] in *.
  - pose proof (url_size_ge u) as Hge.
    pose proof (url_payload_len0 u) as Hlen.
    replace (8 + lenN (url_lib_payload u)) with (url_size u) by (clear -Hlen; lia).
    rewrite <- !app_assoc.
    rewrite run_box_start. do 2 rd_step.
    rewrite run_add64_ok by (clear -Hp; unfold U64; lia).
    rd_step. rewrite run_GetPos.
    change (N.to_nat 1) with 1%nat. cbn [dref_loop].
    match goal with |- context [if ?a <=? ?b then _ else _] =>
      replace (a <=? b) with false by (symmetry; apply N.leb_gt; clear -Hsz Hge; lia) end.
    rewrite bind_bind.
    rewrite run_read_header_bind;
      [| clear -Hs Hsz; lia | clear -Hge; lia | clear; vm_compute; reflexivity].
    cbv beta iota.
    match goal with |- context [if ?a <? ?b then _ else _] =>
      replace (a <? b) with false by (symmetry; apply N.ltb_ge; clear -Hsz; lia) end.
    replace (url_size u =? 0) with false by (symmetry; apply N.eqb_neq; clear -Hge; lia).
    rewrite url_is_url. cbv iota.
    rewrite !bind_bind.
    erewrite run_bind_ok; [| apply url_dec0; [assumption | clear -Hp Hsz; lia]].
    prog_norm. rewrite run_GetPos.
    prog_norm. rewrite run_finish; [| clear -Hsz; lia | clear -Hp Hsz; unfold U64; lia].
    f_equal. f_equal. clear -Hsz. lia.
  - rewrite <- !app_assoc. cbn [app].
    rewrite run_box_start. do 2 rd_step.
    rewrite run_add64_ok by (clear -Hp; unfold U64; lia).
    rd_step. rewrite run_GetPos.
    change (N.to_nat 0) with 0%nat. cbn [dref_loop bind].
    prog_norm. rewrite run_finish; [| clear -Hsz; lia | clear -Hp Hsz; unfold U64; lia].
    f_equal. f_equal. clear -Hsz. lia.
Qed.

Theorem dref_roundtrip0 : leaf_roundtrip dref_wf0 dref_size 0x64726566 enc_dref dec_dref dref_lib_payload.
Proof.
  apply leaf_roundtrip_intro.
  - apply dref_enc0.
  - intros; apply dref_payload_len0.
  - intros; now apply dref_dec0.
Qed.

Lemma dinf_enc0 v : dinf_wf0 v = true -> dinf_size v < U32 ->
  wspec (enc_dinf v) (dinf_size v) (be 4 (dinf_size v) ++ be 4 0x64696e66 ++ dinf_lib_payload v).
Proof.
  intros H Hs. unfold dinf_wf0 in H.
  pose proof (dinf_size_eq v) as Hsz.
  pose proof (dref_payload_len0 (dinf_dref v)) as Hlen.
  unfold enc_dinf, dinf_lib_payload, iso_dinf_box. rewrite <- dinf_code.
  eapply wspec_out.
  - wspec_go. apply dref_enc0; [assumption|]. clear -Hs Hsz. lia.
  - replace (8 + lenN (dref_lib_payload (dinf_dref v))) with (dref_size (dinf_dref v)) by (clear -Hlen; lia).
    rewrite <- !app_assoc, ?app_nil_r. reflexivity.
Qed.

Lemma dinf_payload_len0 v : lenN (dinf_lib_payload v) + 8 = dinf_size v.
Proof.
  pose proof (dref_payload_len0 (dinf_dref v)) as Hlen.
  rewrite dinf_size_eq. unfold dinf_lib_payload, iso_dinf_box. rewrite lenN_box8. lia.
Qed.

Lemma dinf_dec0 m v d l p post_ : dinf_wf0 v = true -> dinf_size v < U32 -> p + dinf_size v < 2 ^ 63 ->
  run (dec_dinf m (dinf_size v)) (mkStream d l (p + 8) (dinf_lib_payload v ++ post_))
  = (Ok v, mkStream d l (p + dinf_size v) post_).
Proof.
  intros H Hs Hp. unfold dinf_wf0 in H.
  pose proof (dinf_size_eq v) as Hsz.
  pose proof (dref_payload_len0 (dinf_dref v)) as Hlen.
  pose proof (dref_size_ge (dinf_dref v)) as Hge.
  unfold dec_dinf, dinf_lib_payload, iso_dinf_box.
  replace (8 + lenN (dref_lib_payload (dinf_dref v))) with (dref_size (dinf_dref v)) by (clear -Hlen; lia).
  rewrite <- !app_assoc.
  rewrite run_box_start. prog_norm. rewrite run_GetPos.
  rewrite run_add64_ok by (clear -Hp; unfold U64; lia).
  replace (N.to_nat (p + dinf_size v - (p + 8)))
    with (S (N.to_nat (p + dinf_size v - (p + 8) - 1))) by (clear -Hsz Hge; lia).
  cbn [dinf_loop].
  replace (p + 8 <? p + dinf_size v) with true by (symmetry; apply N.ltb_lt; clear -Hsz Hge; lia).
  rewrite bind_bind.
  rewrite run_read_header_bind;
    [| clear -Hs Hsz; lia | clear -Hge; lia | clear; vm_compute; reflexivity].
  cbv beta iota.
  match goal with |- context [if ?a <? ?b then _ else _] =>
    replace (a <? b) with false by (symmetry; apply N.ltb_ge; clear -Hsz; lia) end.
  replace (dref_size (dinf_dref v) =? 0) with false by (symmetry; apply N.eqb_neq; clear -Hge; lia).
  rewrite dref_is_dref. cbv iota.
  rewrite !bind_bind.
  erewrite run_bind_ok; [| apply dref_dec0; [assumption | clear -Hs Hsz; lia | clear -Hp Hsz; lia]].
  prog_norm. rewrite run_GetPos.
  rewrite dinf_loop_done by (clear -Hsz; lia).
  prog_norm. rewrite run_finish; [| clear -Hsz; lia | clear -Hp Hsz; unfold U64; lia].
  f_equal.
  - destruct v; reflexivity.
  - f_equal. clear -Hsz. lia.
Qed.

Theorem dinf_roundtrip0 : leaf_roundtrip dinf_wf0 dinf_size 0x64696e66 enc_dinf dec_dinf dinf_lib_payload.
Proof.
  apply leaf_roundtrip_intro.
  - apply dinf_enc0.
  - intros; apply dinf_payload_len0.
  - intros; now apply dinf_dec0.
Qed.

(** so re-encoding is a fixpoint for these three boxes too, although the decoded value need not be
    [url_wf]/[dref_wf]/[dinf_wf] *)
Theorem url_reencode_fixpoint : reencode_fixpoint dec_url enc_url url_size.
Proof. exact (reencode_fixpoint_intro _ _ _ _ _ _ url_roundtrip0 dec_url_wf0). Qed.

Theorem dref_reencode_fixpoint : reencode_fixpoint dec_dref enc_dref dref_size.
Proof. exact (reencode_fixpoint_intro _ _ _ _ _ _ dref_roundtrip0 dec_dref_wf0). Qed.

Theorem dinf_reencode_fixpoint : reencode_fixpoint dec_dinf enc_dinf dinf_size.
Proof. exact (reencode_fixpoint_intro _ _ _ _ _ _ dinf_roundtrip0 dec_dinf_wf0). Qed.

(** [reencode_fixpoint] is, verbatim, the statement of the task *)
Example reencode_fixpoint_unfold :
  reencode_fixpoint dec_stss enc_stss stss_size <->
  (forall m size s v s', run (dec_stss m size) s = (Ok v, s') ->
     bytes_ok (s_view s) = true -> bytes_ok (s_data s) = true -> stss_size v < U32 ->
     wfin (enc_stss v) = Ok (stss_size v) /\
     forall m' d l p post_, p + stss_size v < 2 ^ 63 ->
       run (dec_stss m' (stss_size v)) (mkStream d l (p + 8) (dropN 8 (wout (enc_stss v)) ++ post_))
       = (Ok v, mkStream d l (p + stss_size v) post_)).
Proof. reflexivity. Qed.

Print Assumptions stss_reencode_fixpoint.
Print Assumptions stco_reencode_fixpoint.
Print Assumptions co64_reencode_fixpoint.
Print Assumptions stts_reencode_fixpoint.
Print Assumptions ctts_reencode_fixpoint.
Print Assumptions elst_reencode_fixpoint.
Print Assumptions stsz_reencode_fixpoint.
Print Assumptions stsc_reencode_fixpoint.
Print Assumptions data_reencode_fixpoint.
Print Assumptions emsg_reencode_fixpoint.
Print Assumptions trun_reencode_fixpoint.
Print Assumptions url_reencode_fixpoint.
Print Assumptions dref_reencode_fixpoint.
Print Assumptions dinf_reencode_fixpoint.
