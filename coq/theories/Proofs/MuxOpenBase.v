(** * End to end at any stream position: the reader opens what the muxer wrote after existing content

    [MuxOpen.v] proves "reader(muxer(history)) = history" for a muxer that starts writing at stream
    position 0.  The muxer can start at any position [base] (it appends to whatever the stream already
    holds): the chunk offsets it records are ABSOLUTE stream positions ([run_mux m base cfg ops]).  This
    file repeats the section of [MuxOpen.v] for any [base]: the stream is [pre ++ b] with [lenN pre = base]
    and [b = mf_out f ++ wout (enc_moov m mv)] the muxer's complete output; [open_fuel] (the model of
    [Mp4Reader::read_header(reader, size)]) is run from position [base] with [size = base + |b|] (the loop
    works on absolute positions; [rd_size] is the number of bytes consumed, [current - start]).

    The lemmas outside the section of [MuxOpen.v] (lists built element by element, [trak_rd_wf],
    [mo_fuel_enough], ...) do not mention the base and are imported; the section lemmas are re-proved here
    with the prefix [mob_].  [mux_open_readback_base0] at the end is [MuxOpen.mux_open_readback] obtained as
    the instance [base = 0], [pre = []]: the statement here is not weaker. *)
From MP4 Require Import MuxMoovDefs MuxMoovTables MuxMoovConf MuxOpenKit MuxOpenFacts LayoutOpenS MuxOpen.
From MP4 Require Import MuxProofs MuxInv MuxTotal MuxReadback LookupProofs IsoFile.
From MP4 Require Import LayoutKit LayoutProofs LayoutMore LayoutOpen KitCont RtMoov RtFtyp IsoFtyp IsoMoov RtStbl RtMinf RtMdia RtTrak.
From Coq Require Import Lia ZifyN ZifyNat ZifyBool.
Open Scope string_scope.
Open Scope list_scope.
Open Scope N_scope.

(** ** The duration the muxer accumulates for a track is the sum of the durations of its accepted samples *)
Lemma dur_written_accepted id : forall ops cls,
  dur_written id ops cls = sumN (map ws_duration (accepted_samples ops cls id)).
Proof.
  induction ops as [|op ops IH]; intros cls.
  - destruct cls; reflexivity.
  - destruct cls as [|c cls]; [destruct op; reflexivity|].
    unfold accepted_samples. cbn [combine flat_map]. fold (accepted_samples ops cls id).
    rewrite map_app, sumN_app, <- IH.
    destruct op as [cf|i s]; [destruct c; cbn [dur_written app map]; rewrite sumN_nil_eq; reflexivity|].
    destruct c; cbn [dur_written]; try (cbn [map]; rewrite sumN_nil_eq; reflexivity).
    destruct (i =? id); cbn [map]; [rewrite sumN_cons_eq, sumN_nil_eq; lia | rewrite sumN_nil_eq; reflexivity].
Qed.

(** the reader's view of the headers of a trak the muxer built *)
Lemma trak_rd_headers m tf tk : trak_of_tfinal m tf = Ok tk ->
  mt_mdhd (mp4track_from (trak_rd tk)) = mdhd_of_tfinal tf /\
  tkhd_duration (trak_tkhd (mt_trak (mp4track_from (trak_rd tk)))) = wh_tkhd_duration (tf_hdr tf).
Proof.
  intros Htk. destruct (trak_of_tfinal_shape _ _ _ Htk) as (sd & _ & ->). split; [reflexivity|].
  unfold mp4track_from, trak_rd. cbn [mt_trak trak_tkhd]. unfold tkhd_of_tfinal, tkhd_set_dims.
  destruct (tc_media (tf_conf tf)); reflexivity.
Qed.

Section MuxOpenBase.
  Variables (m m' : mode) (base : N) (cfg : mp4_conf) (ops : list mux_op) (cls : list rclass) (f : mfinal) (mv : moov)
            (pre : bytes).
  Hypothesis Hrun : run_mux m base cfg ops = Ok (cls, f).
  Hypothesis Hty : ops_typed ops = true.
  Hypothesis Hlen : base + lenN (mf_out f) + moov_size mv < 2 ^ 63.     (* the stream is shorter than 2^63 bytes *)
  Hypothesis Hn : lenN (added_confs ops) < U32MAX.
  Hypothesis Hcfg : mp4_conf_rep cfg = true.
  Hypothesis Hconfs : forallb conf_rep (added_confs ops) = true.
  Hypothesis Hmv : moov_of_mfinal m f = Ok mv.
  Hypothesis Hsz : moov_size mv < U32.
  Hypothesis Hpre : lenN pre = base.                                    (* what the stream held before the muxer started *)

  Lemma mob_fit : history_fits base cfg ops cls = true.
  Proof.
    destruct (mux_out_length _ _ _ _ _ _ Hrun Hty) as (_ & E). unfold history_fits. apply N.ltb_lt.
    change (2 ^ 63) with 9223372036854775808 in *. clear - E Hlen. lia.
  Qed.

  Lemma mob_pre : mux_pre base cfg ops.
  Proof. exact (mux_pre_of base cfg ops cls Hty mob_fit Hn). Qed.

  Lemma mob_base : mf_base f = base.
  Proof. exact (proj1 (mux_out_length _ _ _ _ _ _ Hrun Hty)). Qed.

  Lemma mob_u64 : mf_base f + lenN (mf_out f) < U64.
  Proof.
    rewrite mob_base. unfold U64. change (2 ^ 63) with 9223372036854775808 in Hlen.
    change (2 ^ 64) with 18446744073709551616. clear - Hlen. lia.
  Qed.

  (** everything known about finished track [i] *)
  Record btrack_facts (i : nat) (tf : tfinal) : Prop := mkBTrackFacts {
    btf_id : tf_track_id tf = N.of_nat i + 1;
    btf_idfit : ufit 4 (tf_track_id tf) = true;
    btf_conf : nth_error (added_confs ops) i = Some (tf_conf tf);
    btf_check : conf_check (tf_conf tf) = Ok tt;
    btf_rep : conf_rep (tf_conf tf) = true;
    btf_hdr : whdr_ok (tf_hdr tf);
    btf_cons : consistent (tf_tables tf) = true;
    btf_count : t_stsz_count (tf_tables tf) = lenN (accepted_samples ops cls (N.of_nat i + 1));
    btf_stsz : stsz_shape (tf_tables tf) = true;
    btf_co64 : co64_shape (tf_tables tf) = true }.

  Lemma mob_track_facts i tf : nth_error (mf_tracks f) i = Some tf -> btrack_facts i tf.
  Proof.
    intros Hi. pose proof mob_pre as Hp.
    destruct (mux_track_ids _ _ _ _ _ _ Hp Hrun i tf Hi) as (Hid & Hconf & Hcheck).
    destruct (c14_config_lemma _ _ _ _ _ _ Hp Hrun) as (_ & Hcs & _).
    destruct (c13_versions_lemma _ _ _ _ _ _ Hp Hrun) as (Hv & _).
    destruct (Hv i tf Hi) as (_ & V1 & V2 & V3 & V4).
    destruct (mux_fidelity_history _ _ _ _ _ _ Hrun Hty mob_fit i tf Hi) as (Hc & Hcnt & _).
    destruct (mux_tables_shape _ _ _ _ _ _ Hrun Hty tf (nth_error_In _ _ Hi)) as (S1 & S2).
    assert (Hlt : (i < length (added_confs ops))%nat) by (apply nth_error_Some; rewrite Hconf; discriminate).
    constructor; auto.
    - rewrite Hid. apply ufit4_lt. unfold lenN, U32MAX, U32 in *. clear - Hlt Hn. lia.
    - rewrite forallb_forall in Hconfs. apply Hconfs. exact (nth_error_In _ _ Hconf).
    - repeat split; assumption.
  Qed.

  (** ** The read-back form of the finished movie exists *)
  Lemma mob_rd_exists : exists f', mfinal_rd f = Some f'.
  Proof.
    unfold mfinal_rd.
    destruct (tfinals_rd_some (mf_tracks f)) as (tfs' & E).
    - apply Forall_forall. intros tf Hin. apply In_nth_error in Hin as (i & Hi).
      pose proof (mob_track_facts i tf Hi) as F.
      destruct (consistent_derives _ (btf_cons _ _ F)) as (es & Hes).
      unfold tfinal_rd. rewrite Hes. eexists; reflexivity.
    - rewrite E. eexists; reflexivity.
  Qed.

  (** ** The moov the reader will return: well formed for the round trip, same bytes *)
  Lemma mob_moov_rd : exists f' mv1,
    mfinal_rd f = Some f' /\ moov_of_mfinal m f' = Ok mv1 /\
    enc_moov m (moov_rd mv1) = enc_moov m mv /\ moov_size (moov_rd mv1) = moov_size mv /\
    moov_rt_wf (moov_rd mv1) = true.
  Proof.
    destruct mob_rd_exists as (f' & Hf').
    destruct (enc_moov_rd m f f' mv Hf' Hmv) as (mv1 & Hmv1 & Henc & Hsize).
    exists f', mv1. split; [exact Hf'|]. split; [exact Hmv1|].
    split; [rewrite moov_rd_enc; exact Henc|]. split; [rewrite moov_rd_size; exact Hsize|].
    (* well-formedness *)
    unfold mfinal_rd in Hf'. destruct (tfinals_rd (mf_tracks f)) as [tfs'|] eqn:Etf; [|discriminate].
    cbn [option_map] in Hf'. injection Hf' as <-.
    unfold moov_of_mfinal in Hmv1. cbn [mf_tracks mfinal_with_tracks] in Hmv1.
    destruct (traks_of m tfs') as [ts| | |] eqn:Ets; try discriminate. cbn [res_bind] in Hmv1.
    injection Hmv1 as <-.
    unfold moov_rt_wf, moov_rd. cbn [moov_mvhd moov_meta moov_mvex moov_traks moov_udta].
    assert (Wm : mvhd_wf (mvhd_of_mfinal (mfinal_with_tracks f tfs')) = true).
    { destruct (c13_versions_lemma _ _ _ _ _ _ mob_pre Hrun) as (_ & V1 & V2).
      destruct (c14_config_lemma _ _ _ _ _ _ mob_pre Hrun) as (_ & _ & _ & Ht & _).
      apply mfinal_mvhd_wf; cbn [mf_mvhd_timescale mf_mvhd_duration mf_mvhd_version mfinal_with_tracks]; auto.
      rewrite Ht. unfold mp4_conf_rep in Hcfg. apply andb_true_iff in Hcfg as [Hc _].
      apply andb_true_iff in Hc as [_ Hc]. exact Hc. }
    rewrite Wm. cbn [andb]. rewrite andb_true_r.
    apply forallb_forall. intros tk' Hin. apply in_map_iff in Hin as (tk & <- & Hin).
    pose proof (traks_of_Forall2 m _ _ Ets) as F2.
    destruct (Forall2_In_r _ _ _ _ F2 Hin) as (tf' & Hin' & Htk).
    pose proof (tfinals_rd_Forall2 _ _ Etf) as F1.
    destruct (Forall2_In_r _ _ _ _ F1 Hin') as (tf & Hintf & Hrd).
    apply In_nth_error in Hintf as (i & Hi).
    pose proof (mob_track_facts i tf Hi) as F.
    destruct (tfinal_rd_fields _ _ Hrd) as (es & Hes & ->).
    apply (trak_rd_wf m tf es tk); try (apply F); auto.
    (* size *)
    assert (Hle : trak_size tk <= moov_size (mkMoov (mvhd_of_mfinal (mfinal_with_tracks f tfs')) None None ts None)).
    { apply trak_in_moov_size. exact Hin. }
    clear - Hle Hsize Hsz. lia.
  Qed.

  (** ** The muxer's complete output is the rendering of three top-level boxes; the stream is [pre] and then that *)
  Definition mob_bytes : bytes := mf_out f ++ wout (enc_moov m mv).
  Definition mob_data : bytes := pre ++ mob_bytes.

  Definition mob_children (big : bool) (payload : bytes) (mv2 : moov) : list child :=
    [ mkChild false 0x66747970 (iso_ftyp_payload (ftyp_of_conf cfg));
      mkChild big MDAT (if big then payload else be 4 8 ++ be 4 WIDE ++ payload);
      mkChild false 0x6d6f6f76 (iso_moov_payload mv2) ].

  Lemma mob_layout mv2 : enc_moov m mv2 = enc_moov m mv -> moov_size mv2 = moov_size mv -> moov_rt_wf mv2 = true ->
    exists big payload,
      mob_bytes = render (mob_children big payload mv2) /\
      Forall child_wf (mob_children big payload mv2) /\
      total_len (mob_children big payload mv2) = lenN mob_bytes.
  Proof.
    intros Henc Hsize Hwf.
    assert (Hsz2 : moov_size mv2 < U32) by (rewrite Hsize; exact Hsz).
    destruct (moov_roundtrip m mv2 Hwf Hsz2) as (_ & _ & Hout & Hplen & _).
    destruct (conf_ftyp_wf cfg Hcfg) as (Fw & Fs & Fb).
    destruct (ftyp_roundtrip (ftyp_of_conf cfg) Fw Fs) as (_ & _ & _ & Fplen & _).
    destruct (c13_mdat_lemma _ _ _ _ _ _ mob_pre Hrun mob_u64) as (_ & _ & _ & (Hs16 & Hs64) & payload & Hsp & Hmo & _).
    set (big := U32MAX <? mf_mdat_size f) in *.
    exists big, payload.
    assert (Hrender : mob_bytes = render (mob_children big payload mv2)).
    { unfold mob_bytes. rewrite <- Henc, Hout, Hmo, Fb.
      unfold mob_children, render. cbn [flat_map]. rewrite app_nil_r.
      unfold c_bytes, c_hdr. cbn [c_w64 c_code c_payload].
      unfold hdr32, hdr64.
      replace (8 + lenN (iso_ftyp_payload (ftyp_of_conf cfg))) with (ftyp_size (ftyp_of_conf cfg)) by (clear -Fplen; lia).
      replace (8 + lenN (iso_moov_payload mv2)) with (moov_size mv2) by (clear -Hplen; lia).
      destruct big.
      - replace (16 + lenN payload) with (mf_mdat_size f) by (clear -Hsp; lia).
        rewrite <- !app_assoc. reflexivity.
      - replace (8 + lenN (be 4 8 ++ be 4 WIDE ++ payload)) with (mf_mdat_size f)
          by (rewrite !lenN_app, !lenN_be; change (N.of_nat 4) with 4; clear -Hsp; lia).
        rewrite <- !app_assoc. reflexivity. }
    split; [exact Hrender|]. split.
    - assert (Hc1 : 0x66747970 < U32) by (vm_compute; reflexivity).
      assert (Hc2 : MDAT < U32) by (vm_compute; reflexivity).
      assert (Hc3 : 0x6d6f6f76 < U32) by (vm_compute; reflexivity).
      unfold mob_children. apply Forall_cons; [|apply Forall_cons; [|apply Forall_cons; [|apply Forall_nil]]];
        unfold child_wf; cbn [c_w64 c_code c_payload]; (split; [assumption|]).
      + clear -Fplen Fs. lia.
      + destruct big eqn:Eb.
        * clear -Hsp Hs64. lia.
        * unfold big in Eb. apply N.ltb_ge in Eb. rewrite !lenN_app, !lenN_be.
          change (N.of_nat 4) with 4. unfold U32MAX in Eb. clear -Eb Hsp. lia.
      + clear -Hplen Hsz2. lia.
    - rewrite Hrender. symmetry. apply lenN_render.
  Qed.

  (** ** Opening the output *)
  Lemma mob_trak_ids f' mv1 : mfinal_rd f = Some f' -> moov_of_mfinal m f' = Ok mv1 ->
    map trak_id (moov_traks (moov_rd mv1)) = map tf_track_id (mf_tracks f).
  Proof.
    intros Hf' Hmv1.
    unfold mfinal_rd in Hf'. destruct (tfinals_rd (mf_tracks f)) as [tfs'|] eqn:Etf; [|discriminate].
    cbn [option_map] in Hf'. injection Hf' as <-.
    unfold moov_of_mfinal in Hmv1. cbn [mf_tracks mfinal_with_tracks] in Hmv1.
    destruct (traks_of m tfs') as [ts| | |] eqn:Ets; try discriminate. cbn [res_bind] in Hmv1.
    injection Hmv1 as <-. cbn [moov_rd moov_traks].
    pose proof (traks_of_Forall2 m _ _ Ets) as F2. pose proof (tfinals_rd_Forall2 _ _ Etf) as F1.
    clear -F1 F2. revert ts F2. induction F1 as [|tf tf' l l' Hrd _ IH]; intros ts F2; inversion F2 as [|? tk ? ts' Htk F2']; subst.
    - reflexivity.
    - cbn [map]. f_equal; [|now apply IH].
      destruct (tfinal_rd_fields _ _ Hrd) as (es & _ & ->).
      destruct (trak_of_tfinal_shape _ _ _ Htk) as (sd & _ & ->).
      unfold trak_id, trak_rd. cbn [trak_tkhd]. exact (tkhd_of_tfinal_id (tfinal_with_stsc tf es)).
  Qed.

  (** [open_fuel] is started at position [base] of the stream [pre ++ b]; its [size] argument is the absolute end
      position [base + |b|]; the reader's [rd_size] is the number of bytes consumed, [|b|] *)
  Theorem mob_open : exists f' mv1,
    mfinal_rd f = Some f' /\ moov_of_mfinal m f' = Ok mv1 /\
    let mv2 := moov_rd mv1 in
    let r := mkReader (ftyp_of_conf cfg) mv2 [] [] (map (fun t => (trak_id t, mp4track_from t)) (moov_traks mv2)) (lenN mob_bytes) in
    forall fuel, (moov_fuel mv2 + 3 <= fuel)%nat ->
      run (open_fuel fuel m' (base + lenN mob_bytes)) (stream_at mob_data base)
      = (Ok r, stream_at mob_data (base + lenN mob_bytes)).
  Proof.
    destruct mob_moov_rd as (f' & mv1 & Hf' & Hmv1 & Henc & Hsize & Hwf).
    exists f', mv1. split; [exact Hf'|]. split; [exact Hmv1|]. intros mv2 r fuel Hfuel.
    destruct (mob_layout mv2 Henc Hsize Hwf) as (big & payload & Hren & Hcwf & Htot).
    assert (Hsz2 : moov_size mv2 < U32) by (unfold mv2; rewrite Hsize; exact Hsz).
    destruct (conf_ftyp_wf cfg Hcfg) as (Fw & Fs & _).
    assert (Hlb : base + lenN mob_bytes < 2 ^ 63).
    { unfold mob_bytes. rewrite lenN_app.
      destruct (moov_roundtrip m mv2 Hwf Hsz2) as (_ & _ & Hout & Hplen & _).
      rewrite <- Henc. fold mv2. rewrite Hout, !lenN_app, !lenN_be. change (N.of_nat 4) with 4.
      unfold mv2 in *. rewrite Hsize in Hplen. clear -Hplen Hlen. lia. }
    assert (Hdrop : dropN base mob_data = mob_bytes).
    { unfold mob_data. rewrite <- Hpre. apply dropN_app. }
    assert (Hdlen : lenN mob_data = base + lenN mob_bytes).
    { unfold mob_data. rewrite lenN_app, Hpre. reflexivity. }
    pose proof (open_fuel_children_s m' fuel (mob_children big payload mv2)
                  [OI_ftyp (ftyp_of_conf cfg); OI_skip; OI_moov mv2] (moov_fuel mv2) mob_data (lenN mob_data) base []) as Hopen.
    rewrite app_nil_r, Htot, <- Hren in Hopen.
    unfold stream_at. rewrite Hdrop.
    rewrite Hopen; clear Hopen.
    - (* the result *)
      f_equal.
      + unfold mob_children, open_put_all, open_put. cbn [open_result].
        assert (Hids : map trak_id (moov_traks mv2) = map tf_track_id (mf_tracks f)) by (apply (mob_trak_ids f' mv1); assumption).
        destruct (mux_ids_nodup _ _ _ _ _ _ mob_pre Hrun) as (_ & Hnd & Hn0).
        assert (Hex : existsb (fun t => tkhd_track_id (trak_tkhd t) =? 0) (moov_traks mv2) = false).
        { apply Bool.not_true_is_false. intros E. apply existsb_exists in E as (t & Hin & Et).
          apply N.eqb_eq in Et. apply Hn0. rewrite <- Hids. rewrite <- Et. apply (in_map trak_id). exact Hin. }
        rewrite Hex. cbn [res_bind]. rewrite tracks_collect_nodup by (rewrite Hids; exact Hnd). reflexivity.
      + f_equal. symmetry. apply dropN_all. rewrite Hdlen. clear. lia.
    - (* children decode *)
      unfold mob_children. constructor; [|constructor; [|constructor; [|constructor]]].
      + apply decodes_to_s_mono with (F0 := 0%nat); [lia|]. apply decodes_to_s_of. now apply open_child_ftyp.
      + apply decodes_to_s_mono with (F0 := 0%nat); [lia|]. apply decodes_to_s_of. apply open_child_mdat.
      + apply (open_child_moov_rt m' false m); assumption.
    - exact Hcwf.
    - unfold mob_children. cbn [length]. clear - Hfuel. lia.
    - exact Hlb.
    - exact Hdrop.
  Qed.

  (** ** The tracks of the reader and what its calls return *)
  Definition mob_reader (mv1 : moov) : mp4reader :=
    let mv2 := moov_rd mv1 in
    mkReader (ftyp_of_conf cfg) mv2 [] [] (map (fun t => (trak_id t, mp4track_from t)) (moov_traks mv2)) (lenN mob_bytes).

  Theorem mob_tracks f' mv1 : mfinal_rd f = Some f' -> moov_of_mfinal m f' = Ok mv1 ->
    let r := mob_reader mv1 in
    map fst (rd_tracks r) = map N.of_nat (seq 1 (length (mf_tracks f))) /\
    (forall tid, ~ In tid (map fst (rd_tracks r)) -> tracks_get tid (rd_tracks r) = None) /\
    forall i tf, nth_error (mf_tracks f) i = Some tf ->
      let tid := N.of_nat i + 1 in
      let ss := accepted_samples ops cls tid in
      exists t, tracks_get tid (rd_tracks r) = Some t /\
        conf_survives (tf_conf tf) tid t /\
        mdhd_duration (mt_mdhd t) = sumN (map ws_duration ss) /\
        tkhd_duration (trak_tkhd (mt_trak t)) =
          N.min (sumN (map ws_duration ss) * mc_timescale cfg / tc_timescale (tf_conf tf)) U64MAX /\
        mt_duration_us t = scaled_duration (sumN (map ws_duration ss)) (tc_timescale (tf_conf tf)) 1000000 /\
        rd_sample_count r tid = Ok (lenN ss) /\
        (forall k s, nth1 ss k = Some s ->
           (exists off, rd_sample_offset m' r tid k = Ok off /\
                        base + 16 + lenN (ftyp_bytes cfg) <= off /\ off + lenN (ws_bytes s) <= base + lenN (mf_out f)) /\
           forall pos, fst (run (rd_read_sample m' r tid k) (stream_at mob_data pos)) = Ok (Some (sample_written ss k s))) /\
        (forall k, k = 0 \/ lenN ss < k ->
           forall st, match fst (run (rd_read_sample m' r tid k) st) with
                      | Ok (Some _) => False
                      | Panic _ => False
                      | _ => True
                      end).
  Proof.
    intros Hf' Hmv1 r.
    pose proof (mob_trak_ids f' mv1 Hf' Hmv1) as Hids.
    destruct (mux_ids_nodup _ _ _ _ _ _ mob_pre Hrun) as (Hseq & Hnd & _).
    assert (Hfst : map fst (rd_tracks r) = map trak_id (moov_traks (moov_rd mv1))).
    { unfold r, mob_reader. cbn [rd_tracks]. rewrite map_map. reflexivity. }
    split; [rewrite Hfst, Hids; exact Hseq|]. split.
    { intros tid Hnin. unfold r, mob_reader. cbn [rd_tracks]. apply tracks_get_map_none. rewrite <- Hfst. exact Hnin. }
    intros i tf Hi tid ss.
    pose proof (mob_track_facts i tf Hi) as F.
    (* the i-th trak of the reader *)
    unfold mfinal_rd in Hf'. destruct (tfinals_rd (mf_tracks f)) as [tfs'|] eqn:Etf; [|discriminate].
    cbn [option_map] in Hf'. injection Hf' as <-.
    unfold moov_of_mfinal in Hmv1. cbn [mf_tracks mfinal_with_tracks] in Hmv1.
    destruct (traks_of m tfs') as [ts| | |] eqn:Ets; try discriminate. cbn [res_bind] in Hmv1.
    injection Hmv1 as <-.
    destruct (Forall2_nth _ _ _ (tfinals_rd_Forall2 _ _ Etf) i tf Hi) as (tf' & Hi' & Hrd).
    destruct (Forall2_nth _ _ _ (traks_of_Forall2 m _ _ Ets) i tf' Hi') as (tk & Hik & Htk).
    destruct (tfinal_rd_fields _ _ Hrd) as (es & Hes & ->).
    assert (Hnth : nth_error (moov_traks (moov_rd (mkMoov (mvhd_of_mfinal (mfinal_with_tracks f tfs')) None None ts None))) i
                   = Some (trak_rd tk)).
    { cbn [moov_rd moov_traks]. rewrite nth_error_map, Hik. reflexivity. }
    assert (Hid : trak_id (trak_rd tk) = tid).
    { destruct (trak_of_tfinal_shape _ _ _ Htk) as (sd & _ & ->). unfold trak_id, trak_rd. cbn [trak_tkhd].
      rewrite (tkhd_of_tfinal_id (tfinal_with_stsc tf es)). exact (btf_id _ _ F). }
    exists (mp4track_from (trak_rd tk)).
    assert (Hget : tracks_get tid (rd_tracks r) = Some (mp4track_from (trak_rd tk))).
    { unfold r, mob_reader. cbn [rd_tracks]. rewrite <- Hid.
      apply (tracks_get_map_nodup _ (eq_ind_r (fun l => NoDup l) Hnd Hids) i). exact Hnth. }
    split; [exact Hget|].
    split.
    { destruct (conf_survives_accessors_rd m tf es tk (btf_rep _ _ F) Htk) as (_ & C).
      rewrite (btf_id _ _ F) in C. exact C. }
    (* the durations *)
    destruct (c14_durations_lemma _ _ _ _ _ _ mob_pre Hrun) as (Hdur & _).
    destruct (Hdur i tf Hi) as (_ & Hmd & _ & Htd & _). fold tid in Hmd. rewrite dur_written_accepted in Hmd. fold ss in Hmd.
    destruct (trak_rd_headers m (tfinal_with_stsc tf es) tk Htk) as (Emd & Etk).
    change (tf_hdr (tfinal_with_stsc tf es)) with (tf_hdr tf) in Etk.
    assert (Emd' : mt_mdhd (mp4track_from (trak_rd tk)) = mdhd_of_tfinal tf) by (rewrite Emd; reflexivity).
    split; [rewrite Emd'; unfold mdhd_of_tfinal; cbn [mdhd_duration]; exact Hmd|].
    split; [rewrite Etk, Htd, Hmd; reflexivity|].
    split; [unfold mt_duration_us; rewrite Emd'; unfold mdhd_of_tfinal; cbn [mdhd_duration mdhd_timescale]; rewrite Hmd; reflexivity|].
    (* the lookups *)
    assert (Hview : track_view (mp4track_from (trak_rd tk)) = with_id tid (mkTrack 1 (lk_tables_of (tf_tables tf) es) [] 0)).
    { transitivity (track_view (mp4track_from tk)).
      - destruct (trak_of_tfinal_shape _ _ _ Htk) as (sd & _ & ->). reflexivity.
      - rewrite (track_view_of_tfinal m _ _ Htk). unfold with_id. cbn [tr_tables tr_frags tr_default_sample_duration tf_track_id tfinal_with_stsc tf_tables].
        rewrite (btf_id _ _ F). reflexivity. }
    destruct (mux_then_lookup m m' base cfg ops cls f Hrun Hty mob_fit i tf Hi) as (t0 & Ht0 & Hcnt & Hin & Hout).
    fold tid in Hcnt, Hin, Hout. fold ss in Hcnt, Hin, Hout.
    unfold lk_track_of in Ht0. rewrite Hes in Ht0. injection Ht0 as <-.
    split.
    { unfold rd_sample_count. rewrite Hget, Hview, sample_count_with_id, Hcnt. reflexivity. }
    split.
    - intros k s Hs.
      destruct (Hin k (rb_nth1_range _ _ _ Hs)) as (s0 & Hs0 & R). rewrite Hs in Hs0. injection Hs0 as <-.
      destruct R as (_ & _ & _ & _ & off & Hoff & Hlo & Hhi & Hread).
      pose proof mob_base as Hb0.
      destruct (c13_mdat_lemma _ _ _ _ _ _ mob_pre Hrun mob_u64) as (_ & Hmp & _).
      unfold rd_sample_offset, rd_read_sample. rewrite Hget, Hview, sample_offset_with_id, read_sample_with_id, Hoff.
      split.
      + exists off. split; [reflexivity|]. rewrite Hmp in Hlo. rewrite Hb0 in Hhi. clear - Hlo Hhi. split; lia.
      + intros pos. destruct (Hread pre (wout (enc_moov m mv)) pos) as (s' & E & _).
        { rewrite Hb0. exact Hpre. }
        unfold mob_data, mob_bytes. rewrite E. reflexivity.
    - intros k Hk st. unfold rd_read_sample. rewrite Hget, Hview, read_sample_with_id. exact (Hout k Hk st).
  Qed.
End MuxOpenBase.

(** [mux_bytes] at any base is [run_mux], the moov, and its encoding *)
Lemma mux_bytes_inv_base m base cfg ops cls b :
  mux_bytes m base cfg ops = Ok (cls, b) ->
  exists f mv, run_mux m base cfg ops = Ok (cls, f) /\ moov_of_mfinal m f = Ok mv /\
               b = mf_out f ++ wout (enc_moov m mv).
Proof.
  unfold mux_bytes. destruct (run_mux m base cfg ops) as [[cls0 f]| | |] eqn:E1; try discriminate. cbn [res_bind]. cbv beta iota.
  destruct (moov_of_mfinal m f) as [mv| | |] eqn:E2; try discriminate. cbn [res_bind]. cbv beta iota.
  destruct (wfin (enc_moov m mv)); try discriminate. cbn [res_bind]. cbv beta iota.
  intros H. injection H as <- <-. exists f, mv. repeat split. exact E2.
Qed.

(** ** The theorem in one statement *)
Theorem mux_open_readback_base m m' base cfg ops cls f mv pre :
  run_mux m base cfg ops = Ok (cls, f) -> ops_typed ops = true -> lenN (added_confs ops) < U32MAX ->
  mp4_conf_rep cfg = true -> forallb conf_rep (added_confs ops) = true ->
  moov_of_mfinal m f = Ok mv -> moov_size mv < U32 -> base + lenN (mf_out f) + moov_size mv < 2 ^ 63 ->
  lenN pre = base ->
  let b := mf_out f ++ wout (enc_moov m mv) in
  let d := pre ++ b in
  exists r,
    (forall fuel, (N.to_nat (lenN b) + 2 <= fuel)%nat ->
       run (open_fuel fuel m' (base + lenN b)) (stream_at d base) = (Ok r, stream_at d (base + lenN b))) /\
    rd_ftyp r = ftyp_of_conf cfg /\ rd_size r = lenN b /\ rd_moofs r = [] /\ rd_emsgs r = [] /\
    rd_timescale r = mc_timescale cfg /\ mvhd_duration (moov_mvhd (rd_moov r)) = mf_mvhd_duration f /\
    map fst (rd_tracks r) = map N.of_nat (seq 1 (length (added_confs ops))) /\
    (forall tid, ~ In tid (map fst (rd_tracks r)) -> rd_sample_count r tid = Err EData) /\
    forall i c, nth_error (added_confs ops) i = Some c ->
      let tid := N.of_nat i + 1 in
      let ss := accepted_samples ops cls tid in
      exists t, tracks_get tid (rd_tracks r) = Some t /\
        conf_survives c tid t /\
        mdhd_duration (mt_mdhd t) = sumN (map ws_duration ss) /\
        tkhd_duration (trak_tkhd (mt_trak t)) = N.min (sumN (map ws_duration ss) * mc_timescale cfg / tc_timescale c) U64MAX /\
        mt_duration_us t = scaled_duration (sumN (map ws_duration ss)) (tc_timescale c) 1000000 /\
        rd_sample_count r tid = Ok (lenN ss) /\
        (forall k s, nth1 ss k = Some s ->
           (exists off, rd_sample_offset m' r tid k = Ok off /\
                        base + 16 + lenN (ftyp_bytes cfg) <= off /\ off + lenN (ws_bytes s) <= base + lenN (mf_out f)) /\
           forall pos, fst (run (rd_read_sample m' r tid k) (stream_at d pos)) =
                       Ok (Some (mkSample (sumN (map ws_duration (firstn (N.to_nat (k - 1)) ss)))
                                          (ws_duration s) (ws_rendering_offset s) (ws_is_sync s) (ws_bytes s)))) /\
        (forall k, k = 0 \/ lenN ss < k ->
           forall st, match fst (run (rd_read_sample m' r tid k) st) with
                      | Ok (Some _) => False
                      | Panic _ => False
                      | _ => True
                      end).
Proof.
  intros Hrun Hty Hn Hcfg Hconfs Hmv Hsz Hlen Hpre b d.
  pose proof (mob_open m m' base cfg ops cls f mv pre) as Ho. feed Ho.
  destruct Ho as (f' & mv1 & Hf' & Hmv1 & Hopen). cbv zeta in Hopen.
  pose proof (mob_tracks m m' base cfg ops cls f mv pre) as Ht. feed Ht. specialize (Ht f' mv1 Hf' Hmv1).
  destruct Ht as (Hids & Hnone & Htr).
  destruct (enc_moov_rd m f f' mv Hf' Hmv) as (mv1' & Hmv1' & _ & Hsize). rewrite Hmv1 in Hmv1'. injection Hmv1' as <-.
  pose proof (mob_pre m base cfg ops cls f mv) as Hp. feed Hp.
  destruct (c14_config_lemma _ _ _ _ _ _ Hp Hrun) as (_ & Hconf & _ & Hts & _).
  destruct (mux_out_length _ _ _ _ _ _ Hrun Hty) as (_ & Hol).
  exists (mob_reader m cfg f mv mv1).
  assert (Hb : lenN b = lenN (mf_out f) + moov_size mv1).
  { pose proof (mob_moov_rd m base cfg ops cls f mv) as Hm. feed Hm.
    destruct Hm as (f2 & mv2 & Hf2 & Hmv2 & Henc & Hsz2 & Hwf).
    rewrite Hf' in Hf2. injection Hf2 as <-. rewrite Hmv1 in Hmv2. injection Hmv2 as <-.
    assert (Hs3 : moov_size (moov_rd mv1) < U32) by (rewrite Hsz2; exact Hsz).
    destruct (moov_roundtrip m (moov_rd mv1) Hwf Hs3) as (_ & _ & Hout & Hplen & _).
    unfold b. rewrite lenN_app, <- Henc, Hout, !lenN_app, !lenN_be. change (N.of_nat 4) with 4.
    rewrite moov_rd_size in Hplen. clear - Hplen. lia. }
  split.
  { intros fuel Hfuel. apply Hopen.
    pose proof (mo_fuel_enough m f' mv1 (mf_out f) Hmv1) as Hfe.
    rewrite Hb in Hfuel. assert (H32 : 32 <= lenN (mf_out f)) by (rewrite Hol; unfold ftyp_bytes; rewrite !lenN_app, !lenN_be; change (N.of_nat 4) with 4; clear; lia).
    specialize (Hfe H32). clear - Hfe Hfuel. lia. }
  split; [reflexivity|]. split; [reflexivity|]. split; [reflexivity|]. split; [reflexivity|].
  assert (Hmvhd : moov_mvhd (moov_rd mv1) = mvhd_of_mfinal f).
  { unfold mfinal_rd in Hf'. destruct (tfinals_rd (mf_tracks f)) as [tfs'|]; [|discriminate]. cbn [option_map] in Hf'. injection Hf' as <-.
    unfold moov_of_mfinal in Hmv1. destruct (traks_of m (mf_tracks (mfinal_with_tracks f tfs'))) as [ts| | |]; try discriminate.
    cbn [res_bind] in Hmv1. injection Hmv1 as <-. reflexivity. }
  split.
  { unfold rd_timescale, mob_reader. cbn [rd_moov]. rewrite Hmvhd. unfold mvhd_of_mfinal. cbn [mvhd_timescale]. exact Hts. }
  split.
  { unfold mob_reader. cbn [rd_moov]. rewrite Hmvhd. reflexivity. }
  split.
  { rewrite Hids. rewrite <- Hconf, map_length. reflexivity. }
  split.
  { intros tid Hnin. unfold rd_sample_count. rewrite (Hnone tid Hnin). reflexivity. }
  intros i c Hc tid ss.
  assert (Hi : exists tf, nth_error (mf_tracks f) i = Some tf /\ tf_conf tf = c).
  { rewrite <- Hconf, nth_error_map in Hc. destruct (nth_error (mf_tracks f) i) as [tf|]; [|discriminate].
    cbn [option_map] in Hc. injection Hc as <-. eauto. }
  destruct Hi as (tf & Hi & <-).
  destruct (Htr i tf Hi) as (t & Hget & Hsurv & Hd1 & Hd2 & Hd3 & Hcnt & Hin & Hout).
  exists t. split; [exact Hget|]. split; [exact Hsurv|]. split; [exact Hd1|]. split; [exact Hd2|]. split; [exact Hd3|].
  split; [exact Hcnt|]. split; [|exact Hout].
  intros k s Hs. destruct (Hin k s Hs) as (Hoffs & Hr). split; [exact Hoffs|]. intros pos. exact (Hr pos).
Qed.

(** ** [MuxOpen.mux_open_readback] is the instance [base = 0], [pre = []] *)
Corollary mux_open_readback_base0 m m' cfg ops cls f mv :
  run_mux m 0 cfg ops = Ok (cls, f) -> ops_typed ops = true -> lenN (added_confs ops) < U32MAX ->
  mp4_conf_rep cfg = true -> forallb conf_rep (added_confs ops) = true ->
  moov_of_mfinal m f = Ok mv -> moov_size mv < U32 -> lenN (mf_out f) + moov_size mv < 2 ^ 63 ->
  let b := mf_out f ++ wout (enc_moov m mv) in
  exists r,
    (forall fuel, (N.to_nat (lenN b) + 2 <= fuel)%nat ->
       run (open_fuel fuel m' (lenN b)) (stream_at b 0) = (Ok r, stream_at b (lenN b))) /\
    rd_ftyp r = ftyp_of_conf cfg /\ rd_size r = lenN b /\ rd_moofs r = [] /\ rd_emsgs r = [] /\
    rd_timescale r = mc_timescale cfg /\ mvhd_duration (moov_mvhd (rd_moov r)) = mf_mvhd_duration f /\
    map fst (rd_tracks r) = map N.of_nat (seq 1 (length (added_confs ops))) /\
    (forall tid, ~ In tid (map fst (rd_tracks r)) -> rd_sample_count r tid = Err EData) /\
    forall i c, nth_error (added_confs ops) i = Some c ->
      let tid := N.of_nat i + 1 in
      let ss := accepted_samples ops cls tid in
      exists t, tracks_get tid (rd_tracks r) = Some t /\
        conf_survives c tid t /\
        rd_sample_count r tid = Ok (lenN ss) /\
        (forall k s, nth1 ss k = Some s ->
           (exists off, rd_sample_offset m' r tid k = Ok off /\
                        16 + lenN (ftyp_bytes cfg) <= off /\ off + lenN (ws_bytes s) <= lenN (mf_out f)) /\
           forall pos, fst (run (rd_read_sample m' r tid k) (stream_at b pos)) =
                       Ok (Some (mkSample (sumN (map ws_duration (firstn (N.to_nat (k - 1)) ss)))
                                          (ws_duration s) (ws_rendering_offset s) (ws_is_sync s) (ws_bytes s)))) /\
        (forall k, k = 0 \/ lenN ss < k ->
           forall st, match fst (run (rd_read_sample m' r tid k) st) with
                      | Ok (Some _) => False
                      | Panic _ => False
                      | _ => True
                      end).
Proof.
  intros Hrun Hty Hn Hcfg Hconfs Hmv Hsz Hlen b.
  assert (Hlen0 : 0 + lenN (mf_out f) + moov_size mv < 2 ^ 63) by (rewrite N.add_0_l; exact Hlen).
  pose proof (mux_open_readback_base m m' 0 cfg ops cls f mv [] Hrun Hty Hn Hcfg Hconfs Hmv Hsz Hlen0 eq_refl) as H.
  cbv zeta in H. rewrite !app_nil_l in H. fold b in H.
  destruct H as (r & Hopen & H1 & H2 & H3 & H4 & H5 & H6 & H7 & H8 & Htr).
  exists r. rewrite N.add_0_l in Hopen.
  split; [exact Hopen|].
  split; [exact H1|]. split; [exact H2|]. split; [exact H3|]. split; [exact H4|]. split; [exact H5|].
  split; [exact H6|]. split; [exact H7|]. split; [exact H8|].
  intros i c Hc tid ss. destruct (Htr i c Hc) as (t & T1 & T2 & _ & _ & _ & T3 & T4 & T5).
  exists t. split; [exact T1|]. split; [exact T2|]. split; [exact T3|]. split; [|exact T5].
  intros k s Hs. destruct (T4 k s Hs) as ((off & O1 & O2 & O3) & Hr). split; [|exact Hr].
  exists off. split; [exact O1|]. rewrite !N.add_0_l in O2, O3. split; [exact O2 | exact O3].
Qed.

Print Assumptions dur_written_accepted.
Print Assumptions mob_open.
Print Assumptions mob_tracks.
Print Assumptions mux_open_readback_base.
Print Assumptions mux_open_readback_base0.
