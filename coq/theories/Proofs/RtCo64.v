(** Round trip of [Co64Box] *)
From MP4 Require Import TblKit BoxCo64 IsoCo64.
From Coq Require Import ZifyN ZifyNat ZifyBool.
Open Scope string_scope.
Open Scope list_scope.
Open Scope N_scope.

Lemma co64_code : u32_of_boxtype (box_type_of "Co64Box") = 0x636f3634.
Proof. vm_compute. reflexivity. Qed.

Lemma co64_size_eq v : co64_size v = 8 + 4 + 4 + 8 * lenN (co64_entries v).
Proof. reflexivity. Qed.

Lemma co64_wr_entry_ok x : wfin (wr_u64 x) = Ok tt /\ wout (wr_u64 x) = be 8 x.
Proof. split; [reflexivity|]. cbn [wr_u64 wr_u wr wout]. apply app_nil_r. Qed.

Lemma co64_enc v : co64_wf v = true -> co64_size v < U32 ->
  wfin (enc_co64 v) = Ok (co64_size v) /\
  wout (enc_co64 v) = be 4 (co64_size v) ++ be 4 0x636f3634 ++ iso_co64_payload v.
Proof.
  intros H Hs. unfold enc_co64, iso_co64_payload. unfold co64_wf in H. split_andb.
  rewrite write_header_small by exact Hs. rewrite co64_code.
  rewrite write_header_ext_small by assumption.
  set (W := tbl_wr_each wr_u64 (co64_entries v)).
  enc_norm. subst W.
  rewrite (tbl_wfin_each_bind _ (be 8)), (tbl_wout_each_bind _ (be 8))
    by (first [intros; exact I | intros; apply co64_wr_entry_ok]).
  cbn [wfin wout]. split; [reflexivity|].
  rewrite cast_u32_small by assumption. rewrite app_nil_r. reflexivity.
Qed.

Lemma co64_rd_entry_ok {B} es d l x (k' : N -> prog B) p' rest' :
  forallb (ufit 8) es = true -> In x es ->
  run (bind rd_u64 k') (mkStream d l p' (be 8 x ++ rest')) = run (k' x) (mkStream d l (p' + 8) rest').
Proof.
  intros Hall Hin. rewrite forallb_forall in Hall. apply Hall in Hin. split_andb.
  rd_step. reflexivity.
Qed.

Lemma co64_dec m v d l p post : co64_wf v = true -> p + co64_size v < 2^63 ->
  run (dec_co64 m (co64_size v)) (mkStream d l (p + 8) (iso_co64_payload v ++ post))
  = (Ok v, mkStream d l (p + co64_size v) post).
Proof.
  intros H Hp. unfold dec_co64, iso_co64_payload. unfold co64_wf in H. split_andb.
  pose proof (co64_size_eq v) as Hsz.
  rewrite <- !app_assoc.
  prog_norm. cbn [run s_pos].
  rewrite run_sub64_ok by (clear; unfold HEADER_SIZE, Tables.HEADER_SIZE; lia).
  do 3 rd_step.
  rewrite tbl_guard_false by (first [ clear; lia | rewrite Hsz; reflexivity ]).
  prog_norm. rewrite run_Alloc.
  rewrite (run_rd_n_lenN_bind _ (be 8) 8) by (intros; now apply (co64_rd_entry_ok (co64_entries v))).
  rewrite run_add64_ok by (clear -Hsz Hp; unfold HEADER_SIZE, Tables.HEADER_SIZE, U64; lia).
  prog_norm.
  rewrite run_SeekTo_here by (clear -Hsz; unfold HEADER_SIZE, Tables.HEADER_SIZE; lia).
  cbn [run]. f_equal.
  - destruct v; reflexivity.
  - f_equal. clear -Hsz. lia.
Qed.

Lemma co64_payload_len v : lenN (iso_co64_payload v) + 8 = co64_size v.
Proof.
  rewrite co64_size_eq. unfold iso_co64_payload.
  rewrite !lenN_app, !lenN_be, (lenN_flat_map_const (be 8) 8) by (intros; apply lenN_be). lia.
Qed.

Lemma co64_appender v : co64_wf v = true -> co64_size v < U32 -> appender (enc_co64 v).
Proof.
  intros H Hs. unfold enc_co64. rewrite write_header_small by exact Hs.
  unfold co64_wf in H. split_andb.
  rewrite write_header_ext_small by assumption.
  cbn [wbind appender wr wr_u32 wr_u64 wr_u].
  apply tbl_appender_each_bind; intros; exact I.
Qed.

Theorem co64_roundtrip : leaf_roundtrip co64_wf co64_size 0x636f3634 enc_co64 dec_co64 iso_co64_payload.
Proof.
  intros v H Hs. destruct (co64_enc v H Hs) as [H1 H2].
  split; [exact H1|]. split; [now apply co64_appender|]. split; [exact H2|].
  split; [now apply co64_payload_len|].
  intros m d l p post Hp. now apply co64_dec.
Qed.

Print Assumptions co64_roundtrip.
