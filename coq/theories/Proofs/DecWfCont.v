(** * Containers: decoded values are representable; re-encoding is a fixpoint
      (property C04, second half, container part)

    For every container box [xxx] of the library (stsd, stbl, dinf-on-fuel, minf, mdia, edts, trak, mvex,
    traf, moof, ilst and its items, meta, udta, moov):

    - [dec_xxx_fuel_post] / [dec_xxx_fuel_wf]: for ALL fuel, on any stream of bytes, a value [v] the decoder
      returns satisfies the predicate of the container round trip — [xxx_rt_wf] of Proofs/RtXxx.v for stsd, stbl,
      edts, mvex, traf, moof, ilst, meta, udta; the weaker [xxx_rt_wf0] defined here for minf, mdia, trak, moov
      ([xxx_rt_wf] = [xxx_rt_wf0] && "every url inside obeys ISO 8.7.2", [xxx_rt_wf_split]; a decoded url need not,
      DecWfG2.v) — provided [xxx_good v]: every mp4a sample entry inside is [mp4a_plain] (DecWfG3.v: audio object
      type < 31, sampling frequency index < 15, ...; known findings D80, D95).  [good] is [True] for the boxes that
      cannot contain an mp4a;
    - [xxx_roundtrip0] (minf, mdia, trak, moov; dinf on fuel): the round trip re-proved for [xxx_rt_wf0], with the
      bytes the library writes ([xxx_lib_payload]) in place of the ISO rendering;
    - [xxx_reencode_fixpoint : cont_fixpoint_law(_s) dec enc size fuel good]: hence for a decoded, good [v] with
      [xxx_size v < 2^32] the encoder succeeds and decoding the re-encoded bytes with enough fuel returns [v] again
      (for meta, udta, trak, moov on a stream whose data holds those bytes at that position: meta.rs seeks backwards);
      all of them together: [containers_reencode_fixpoint];
    - witnesses ([minf_url_not_rt_wf], [stsd_second_entry_dropped], [stsd_f15_not_fixpoint]) for what is and is not
      true of decoded values.

    The judgement is [post] of DecWfKitG1.v; the leaf lemmas of DecWfG2.v / DecWfG3.v (stated with the
    judgements of their own kits, which are equivalent) are bridged by [post_of_G2] / [post_of_G3].
    The one loop of the containers ([children_loop_gen], Model/Loop.v) has the rule [post_children_loop_gen]:
    an invariant of the accumulator that every [dispatch] preserves holds of the result. *)
From MP4 Require Import DecWfKitG2 DecWfG2 DecWfKitG3 DecWfG3.
From MP4 Require Import KitCont C16Proofs BoxMoov BoxMoof
     RtStsd RtStbl RtMinf RtMdia RtEdts RtTrak RtMvex RtTraf RtMoof RtIlst RtMeta RtUdta RtMoov RtContWf.
From MP4 Require Import DecWfKitG1 DecWfG1.
From Coq Require Import ZArith ZifyN ZifyNat ZifyBool Lia.
Open Scope string_scope.
Open Scope list_scope.
Open Scope N_scope.

(** ** Bridges between the three judgements *)
Lemma post_of_G2 {A} (c : prog A) (Q : A -> Prop) : DecWfKitG2.post c Q -> post c Q.
Proof.
  intros H s Hs. pose proof (run_sok c s Hs) as Hs'.
  destruct (run c s) as [[a|e|x|] s'] eqn:E; auto.
  split; [exact Hs'|]. exact (H s a s' Hs E).
Qed.

Lemma post_of_G3 {A} (c : prog A) (Q : A -> Prop) : DecWfKitG3.post c Q -> post c Q.
Proof.
  intros H s Hs. pose proof (run_sok c s Hs) as Hs'.
  destruct (run c s) as [[a|e|x|] s'] eqn:E; auto.
  split; [exact Hs'|]. exact (H s a s' Hs E).
Qed.

(** ** The rule for the loop *)
Lemma post_children_loop_gen {Acc R} (I : Acc -> Prop) m cs cz end_
      (dispatch : nat -> N -> boxtype -> N -> Acc -> prog Acc) (fin : Acc -> N -> R) :
  (forall f cur name s acc, I acc -> post (dispatch f cur name s acc) I) ->
  forall fuel acc cur, I acc ->
    post (children_loop_gen fuel m cs cz end_ dispatch fin acc cur)
         (fun r => exists acc' n, r = fin acc' n /\ I acc').
Proof.
  intros Hd. induction fuel as [|f IH]; intros acc cur Hacc; rewrite children_loop_gen_eq.
  - destruct (cur <? end_); [apply post_spin | apply post_ret; eauto].
  - destruct (cur <? end_); [| apply post_ret; eauto].
    apply post_bind_any. intros [name s].
    destruct (match cs with Some size => size <? s | None => false end); [apply post_throw|].
    destruct (cz && (s =? 0)); [apply post_ret; eauto|].
    eapply post_bind; [apply Hd; exact Hacc|]. intros acc' Hacc'. cbv beta.
    apply post_bind_any. intros cur'. now apply IH.
Qed.

Lemma post_children_loop {Acc} (I : Acc -> Prop) m cs cz end_
      (dispatch : nat -> boxtype -> N -> Acc -> prog Acc) :
  (forall f name s acc, I acc -> post (dispatch f name s acc) I) ->
  forall fuel acc cur, I acc -> post (children_loop fuel m cs cz end_ dispatch acc cur) I.
Proof.
  intros Hd fuel acc cur Hacc. unfold children_loop.
  eapply post_conseq; [| apply (post_children_loop_gen I); [intros; now apply Hd | exact Hacc]].
  intros r (acc' & n & -> & H). exact H.
Qed.

(** the loop with the child's header also known: the name read is the image of a 32-bit code *)
Definition bt_canon (name : boxtype) : Prop := exists c, c < U32 /\ name = boxtype_of_u32 c.

Lemma lenN_8_inv (l : bytes) : lenN l = 8 -> exists a b c d e f g h, l = [a; b; c; d; e; f; g; h].
Proof.
  unfold lenN. intros H.
  destruct l as [|a [|b [|c [|d [|e [|f [|g [|h [|i t]]]]]]]]]; cbn [length] in H; try lia.
  now exists a, b, c, d, e, f, g, h.
Qed.

Lemma read_header_post : post read_header (fun h => bt_canon (fst h)).
Proof.
  unfold read_header. apply post_rd_arr_bind. intros buf Hl Hb.
  destruct (lenN_8_inv buf Hl) as (a & b & c & d & e & f & g & h & ->).
  assert (Ht : unbe (skipn 4 [a; b; c; d; e; f; g; h]) < U32).
  { cbn [skipn]. change U32 with (256 ^ N.of_nat 4). apply unbe_bound; [reflexivity|].
    change [a; b; c; d; e; f; g; h] with ([a; b; c; d] ++ [e; f; g; h]) in Hb.
    rewrite bytes_ok_app in Hb. now apply andb_true_iff in Hb as [_ Hb]. }
  destruct (_ =? 1).
  - apply post_rd_arr_bind. intros buf2 _ _.
    destruct (_ =? 0); [apply post_ret; cbn [fst]; red; eauto|].
    destruct (_ <? 16); [apply post_throw | apply post_ret; cbn [fst]; red; eauto].
  - apply post_ret. cbn [fst]. red. eauto.
Qed.

Lemma post_children_loop_canon {Acc} (I : Acc -> Prop) m cs cz end_
      (dispatch : nat -> boxtype -> N -> Acc -> prog Acc) :
  (forall f name s acc, bt_canon name -> I acc -> post (dispatch f name s acc) I) ->
  forall fuel acc cur, I acc -> post (children_loop fuel m cs cz end_ dispatch acc cur) I.
Proof.
  intros Hd. unfold children_loop.
  induction fuel as [|f IH]; intros acc cur Hacc; rewrite children_loop_gen_eq.
  - destruct (cur <? end_); [apply post_spin | now apply post_ret].
  - destruct (cur <? end_); [| now apply post_ret].
    eapply post_bind; [apply read_header_post|]. intros [name s] Hn. cbn [fst] in Hn.
    destruct (match cs with Some size => size <? s | None => false end); [apply post_throw|].
    destruct (cz && (s =? 0)); [now apply post_ret|].
    eapply post_bind; [apply Hd; assumption|]. intros acc' Hacc'. cbv beta.
    apply post_bind_any. intros cur'. now apply IH.
Qed.

(** ** The prologue and epilogue shared by the loop containers *)
Lemma post_container {Acc X} (I : Acc -> Prop) (Q : X -> Prop) m site size fuel
      (dispatch : nat -> boxtype -> N -> Acc -> prog Acc) acc0 (K : N -> Acc -> prog X) :
  (forall f name s acc, I acc -> post (dispatch f name s acc) I) -> I acc0 ->
  (forall start a, I a -> post (K start a) Q) ->
  post (start <- box_start m ;;
        current <- get_pos ;;
        end_ <- add64 m site start size ;;
        a <- children_loop fuel m (Some size) true end_ dispatch acc0 current ;;
        K start a) Q.
Proof.
  intros Hd H0 HK. apply post_bind_any. intros start. apply post_bind_any. intros current.
  apply post_bind_any. intros end_.
  eapply post_bind; [apply (post_children_loop I); assumption|]. intros a Ha. now apply HK.
Qed.

(** [e <- add64 ..;; skip_bytes_to e;;; Ret v] *)
Lemma post_finish {X} m site start size (v : X) (Q : X -> Prop) :
  Q v -> post (e <- add64 m site start size ;; skip_bytes_to e ;;; Ret v) Q.
Proof. intros H. apply post_bind_any. intros e. apply post_bind_any. intros _. now apply post_ret. Qed.

Lemma post_skip_ret {Acc} m s (a : Acc) (I : Acc -> Prop) : I a -> post (skip_box m s ;;; Ret a) I.
Proof. intros H. apply post_bind_any. intros _. now apply post_ret. Qed.

(** a child decoder followed by the update of the accumulator *)
Lemma post_child {X Acc} (c : prog X) (P : X -> Prop) (upd : X -> Acc) (I : Acc -> Prop) :
  post c P -> (forall x, P x -> I (upd x)) -> post (x <- c ;; Ret (upd x)) I.
Proof. intros Hc Hu. eapply post_bind; [exact Hc|]. intros x Hx. apply post_ret. now apply Hu. Qed.

Definition optP {A} (P : A -> Prop) (o : option A) : Prop := match o with Some a => P a | None => True end.

Lemma optP_wf {A} (f : A -> bool) (o : option A) :
  optP (fun x => f x = true) o -> match o with Some x => f x | None => true end = true.
Proof. destruct o; auto. Qed.

(** ** From "decoded values are representable" to "re-encoding is a fixpoint" *)
Definition cont_fixpoint_law {X} (dec : nat -> mode -> N -> prog X) (enc : X -> wprog N) (size : X -> N)
           (fb : X -> nat) (good : X -> Prop) : Prop :=
  forall fuel m sz s v s', run (dec fuel m sz) s = (Ok v, s') ->
    bytes_ok (s_view s) = true -> bytes_ok (s_data s) = true -> good v -> size v < U32 ->
    wfin (enc v) = Ok (size v) /\
    forall fuel' m' d l p post, (fb v <= fuel')%nat -> p + size v < 2 ^ 63 ->
      run (dec fuel' m' (size v)) (mkStream d l (p + 8) (dropN 8 (wout (enc v)) ++ post))
      = (Ok v, mkStream d l (p + size v) post).

(** for the boxes that may contain a meta box: the stream's data holds the bytes at that position *)
Definition cont_fixpoint_law_s {X} (dec : nat -> mode -> N -> prog X) (enc : X -> wprog N) (size : X -> N)
           (fb : X -> nat) (good : X -> Prop) : Prop :=
  forall fuel m sz s v s', run (dec fuel m sz) s = (Ok v, s') ->
    bytes_ok (s_view s) = true -> bytes_ok (s_data s) = true -> good v -> size v < U32 ->
    wfin (enc v) = Ok (size v) /\
    forall fuel' m' d l p post, (fb v <= fuel')%nat -> p + size v < 2 ^ 63 ->
      dropN (p + 8) d = dropN 8 (wout (enc v)) ++ post ->
      run (dec fuel' m' (size v)) (mkStream d l (p + 8) (dropN 8 (wout (enc v)) ++ post))
      = (Ok v, mkStream d l (p + size v) post).

Lemma cont_fixpoint_of_post {X} (wf : X -> bool) (size : X -> N) code enc dec payload fb (good : X -> Prop) :
  cont_roundtrip wf size code enc dec payload fb ->
  (forall fuel m sz, post (dec fuel m sz) (fun v => good v -> wf v = true)) ->
  cont_fixpoint_law dec enc size fb good.
Proof.
  intros Hrt Hp fuel m sz s v s' E Hv Hd Hg Hs.
  pose proof (post_run _ _ (Hp fuel m sz) s v s' E Hv Hd Hg) as Hwf.
  destruct (Hrt v Hwf Hs) as (H1 & _ & H3 & _ & H5).
  split; [exact H1|]. intros fuel' m' d l p post0 Hf Hpp.
  rewrite H3, dropN_header by apply lenN_be. now apply H5.
Qed.

Lemma cont_fixpoint_of_post_s {X} (wf : X -> bool) (size : X -> N) code enc dec payload fb (good : X -> Prop) :
  cont_roundtrip_s wf size code enc dec payload fb ->
  (forall fuel m sz, post (dec fuel m sz) (fun v => good v -> wf v = true)) ->
  cont_fixpoint_law_s dec enc size fb good.
Proof.
  intros Hrt Hp fuel m sz s v s' E Hv Hd Hg Hs.
  pose proof (post_run _ _ (Hp fuel m sz) s v s' E Hv Hd Hg) as Hwf.
  destruct (Hrt v Hwf Hs) as (H1 & _ & H3 & _ & H5).
  split; [exact H1|]. intros fuel' m' d l p post0 Hf Hpp.
  rewrite H3, dropN_header by apply lenN_be. now apply H5.
Qed.

(** how a [_wf] statement is read off a [post] lemma *)
Lemma wf_of_post_fuel {X} (dec : nat -> mode -> N -> prog X) (Q : X -> Prop) :
  (forall fuel m sz, post (dec fuel m sz) Q) ->
  forall fuel m sz s v s', run (dec fuel m sz) s = (Ok v, s') ->
    bytes_ok (s_view s) = true -> bytes_ok (s_data s) = true -> Q v.
Proof. intros H fuel m sz. exact (post_run _ _ (H fuel m sz)). Qed.

(** ** stsd: one sample entry at most is read, so [stsd_count <= 1] holds of what is decoded *)
Definition stsd_good (v : stsd) : Prop := optP mp4a_plain (stsd_mp4a v).

Lemma dec_stsd_fuel_post fuel m size :
  post (dec_stsd_fuel fuel m size) (fun v => stsd_good v -> stsd_rt_wf v = true).
Proof.
  unfold dec_stsd_fuel. apply post_bind_any. intros start.
  apply post_read_header_ext_bind. intros ver fl Hver Hfl.
  apply post_bind_any. intros _. apply post_bind_any. intros p.
  apply post_bind_any. intros lhs. apply post_bind_any. intros rhs.
  eapply post_bind with
    (R := fun t : stsd_tuple => stsd_good (stsd_of_tuple ver fl t) -> stsd_rt_wf (stsd_of_tuple ver fl t) = true).
  - assert (H0 : stsd_rt_wf (mkStsd ver fl None None None None None) = true).
    { unfold stsd_rt_wf, stsd_wf. cbn [stsd_version stsd_flags stsd_avc1 stsd_hev1 stsd_vp09 stsd_mp4a stsd_tx3g].
      rewrite (ufit_true 1 ver Hver), (ufit_true 3 fl Hfl). reflexivity. }
    destruct (lhs <=? rhs); [| apply post_ret; intros _; exact H0].
    apply post_bind_any. intros [name s]. destruct (size <? s); [apply post_throw|].
    destruct name; try (apply post_ret; intros _; exact H0).
    all: lazymatch goal with
         | |- post (bind (dec_tx3g _ _) _) _ => eapply post_child; [apply dec_tx3g_post|]
         | |- post (bind (dec_vp09 _ _) _) _ => eapply post_child; [apply dec_vp09_post|]
         | |- post (bind (dec_avc1_fuel _ _ _) _) _ => eapply post_child; [apply post_of_G3, dec_avc1_fuel_post|]
         | |- post (bind (dec_hev1 _ _) _) _ => eapply post_child; [apply post_of_G3, dec_hev1_post|]
         | |- post (bind (dec_mp4a_fuel _ _ _) _) _ => eapply post_child; [apply post_of_G3, dec_mp4a_fuel_post|]
         end.
    all: intros x Hx Hg; unfold stsd_rt_wf, stsd_wf, stsd_count;
      cbn [stsd_of_tuple stsd_version stsd_flags stsd_avc1 stsd_hev1 stsd_vp09 stsd_mp4a stsd_tx3g IsoStsd.iso_present];
      rewrite (ufit_true 1 ver Hver), (ufit_true 3 fl Hfl).
    all: first [ rewrite Hx; reflexivity | rewrite (Hx Hg); reflexivity ].
  - intros [[[[a h] p9] a4] t] Ht. cbv beta iota. apply post_finish. exact Ht.
Qed.

Lemma dec_stsd_fuel_wf : forall fuel m size s v s', run (dec_stsd_fuel fuel m size) s = (Ok v, s') ->
  bytes_ok (s_view s) = true -> bytes_ok (s_data s) = true -> stsd_good v -> stsd_rt_wf v = true.
Proof. exact (wf_of_post_fuel _ _ dec_stsd_fuel_post). Qed.

Theorem stsd_reencode_fixpoint me :
  cont_fixpoint_law dec_stsd_fuel (enc_stsd me) stsd_size (fun _ => 1%nat) stsd_good.
Proof. exact (cont_fixpoint_of_post _ _ _ _ _ _ _ _ (stsd_roundtrip me) dec_stsd_fuel_post). Qed.


(** ** stbl *)
Definition stbl_good (v : stbl) : Prop := stsd_good (stbl_stsd v).

Definition wfP {A} (f : A -> bool) : A -> Prop := fun x => f x = true.

Definition stbl_acc_ok (a : stbl_acc) : Prop :=
  optP (fun x => stsd_good x -> stsd_rt_wf x = true) (sa_stsd a) /\ optP (wfP stts_wf) (sa_stts a)
  /\ optP (wfP ctts_wf) (sa_ctts a) /\ optP (wfP stss_wf) (sa_stss a) /\ optP (wfP stsc_wf) (sa_stsc a)
  /\ optP (wfP stsz_wf) (sa_stsz a) /\ optP (wfP stco_wf) (sa_stco a) /\ optP (wfP co64_wf) (sa_co64 a).

Lemma stbl_dispatch_post m f name s a : stbl_acc_ok a -> post (stbl_dispatch m f name s a) stbl_acc_ok.
Proof.
  intros (H1 & H2 & H3 & H4 & H5 & H6 & H7 & H8).
  assert (Ha : stbl_acc_ok a) by (repeat split; assumption).
  destruct name; try (apply post_skip_ret; exact Ha); cbn [stbl_dispatch].
  all: lazymatch goal with
       | |- post (bind (dec_stsd_fuel _ _ _) _) _ => eapply post_child; [apply dec_stsd_fuel_post|]
       | |- post (bind (dec_stts _ _) _) _ => eapply post_child; [apply post_of_G2, dec_stts_post|]
       | |- post (bind (dec_ctts _ _) _) _ => eapply post_child; [apply post_of_G2, dec_ctts_post|]
       | |- post (bind (dec_stss _ _) _) _ => eapply post_child; [apply post_of_G2, dec_stss_post|]
       | |- post (bind (dec_stsc _ _) _) _ => eapply post_child; [apply post_of_G2, dec_stsc_post|]
       | |- post (bind (dec_stsz _ _) _) _ => eapply post_child; [apply post_of_G2, dec_stsz_post|]
       | |- post (bind (dec_stco _ _) _) _ => eapply post_child; [apply post_of_G2, dec_stco_post|]
       | |- post (bind (dec_co64 _ _) _) _ => eapply post_child; [apply post_of_G2, dec_co64_post|]
       end.
  all: intros x Hx; unfold stbl_acc_ok;
    cbn [sa_stsd sa_stts sa_ctts sa_stss sa_stsc sa_stsz sa_stco sa_co64 optP]; repeat split; assumption.
Qed.

Lemma dec_stbl_fuel_post fuel m size :
  post (dec_stbl_fuel fuel m size) (fun v => stbl_good v -> stbl_rt_wf v = true).
Proof.
  unfold dec_stbl_fuel. apply (post_container stbl_acc_ok).
  - intros f name s acc. apply stbl_dispatch_post.
  - unfold stbl_acc_ok, stbl_acc0. cbn. tauto.
  - intros start [sd ts ct ss sc sz so c6] (H1 & H2 & H3 & H4 & H5 & H6 & H7 & H8).
    cbn [sa_stsd sa_stts sa_ctts sa_stss sa_stsc sa_stsz sa_stco sa_co64] in *.
    destruct sd as [sd|]; [|apply post_throw]. destruct ts as [ts|]; [|apply post_throw].
    destruct sc as [sc|]; [|apply post_throw]. destruct sz as [sz|]; [|apply post_throw].
    cbn [optP] in H1, H2, H5, H6. unfold wfP in *.
    assert (Hfin : forall so c6, optP (fun x => stco_wf x = true) so -> optP (fun x => co64_wf x = true) c6 ->
              match so, c6 with None, None => false | _, _ => true end = true ->
              stbl_good (mkStbl sd ts ct ss sc sz so c6) -> stbl_rt_wf (mkStbl sd ts ct ss sc sz so c6) = true).
    { intros so' c6' Hso Hc6 Hone Hg. unfold stbl_good in Hg. unfold stbl_rt_wf.
      cbn [stbl_stsd stbl_stts stbl_ctts stbl_stss stbl_stsc stbl_stsz stbl_stco stbl_co64] in *.
      rewrite (H1 Hg), H2, H5, H6, (optP_wf _ _ H3), (optP_wf _ _ H4), (optP_wf _ _ Hso), (optP_wf _ _ Hc6), Hone.
      reflexivity. }
    destruct so as [so|], c6 as [c6|]; try apply post_throw; apply post_finish; apply Hfin; auto.
Qed.

Lemma dec_stbl_fuel_wf : forall fuel m size s v s', run (dec_stbl_fuel fuel m size) s = (Ok v, s') ->
  bytes_ok (s_view s) = true -> bytes_ok (s_data s) = true -> stbl_good v -> stbl_rt_wf v = true.
Proof. exact (wf_of_post_fuel _ _ dec_stbl_fuel_post). Qed.

Theorem stbl_reencode_fixpoint me :
  cont_fixpoint_law dec_stbl_fuel (enc_stbl me) stbl_size (fun _ => 9%nat) stbl_good.
Proof. exact (cont_fixpoint_of_post _ _ _ _ _ _ _ _ (stbl_roundtrip me) dec_stbl_fuel_post). Qed.

(** ** dinf read on the caller's fuel (minf.rs calls it inside its own loop)

    A decoded url need not satisfy ISO 8.7.2 (flag bit 0 set exactly when there is no location string), see
    DecWfG2.v: the decoders guarantee [dinf_wf0] only.  The round trips of dinf-on-fuel, minf, mdia, trak and moov
    are therefore re-proved below for the weaker predicates [xxx_rt_wf0] (the bytes the library writes,
    [xxx_lib_payload], instead of the ISO rendering), so that the fixpoint theorems need no hypothesis on urls. *)
Lemma dinf_dispatch_post m f name s a :
  optP (wfP dref_wf0) a -> post (dinf_dispatch m f name s a) (optP (wfP dref_wf0)).
Proof.
  intros Ha. destruct name; try (apply post_skip_ret; exact Ha); cbn [dinf_dispatch].
  eapply post_child; [apply post_of_G2, dec_dref_post|]. intros x Hx. exact Hx.
Qed.

Lemma dec_dinf_fuel_post fuel m size : post (dec_dinf_fuel fuel m size) (wfP dinf_wf0).
Proof.
  unfold dec_dinf_fuel. apply (post_container (optP (wfP dref_wf0))).
  - intros f name s acc. apply dinf_dispatch_post.
  - exact I.
  - intros start [x|] Hx; [|apply post_throw]. apply post_finish. exact Hx.
Qed.

Definition dinf_i_dref0 := ci_of dref_size 0x64726566 dref_lib_payload (fun _ => 0%nat)
                                 (fun x (_ : option dref) => Some x).
Definition dinf_items0 (v : dinf) : list (citem (option dref)) := [dinf_i_dref0 (dinf_dref v)].

Lemma dinf_items0_ok m v : dinf_wf0 v = true -> dinf_size v < U32 ->
  Forall (ci_ok (dinf_dispatch m)) (dinf_items0 v).
Proof.
  intros H Hs. unfold dinf_wf0 in H.
  apply Forall_one. revert Hs. unfold dinf_size. intros Hs.
  assert (Hsz : dref_size (dinf_dref v) < U32) by (clear -Hs; hdr_consts; lia).
  revert Hsz. ci_leaf (cont_of_leaf _ _ _ _ _ _ dref_roundtrip0) minf_bt_dref.
Qed.

Lemma dinf_fuel_dec0 v fuel m d l p post : dinf_wf0 v = true -> dinf_size v < U32 ->
  (1 <= fuel)%nat -> p + dinf_size v < 2 ^ 63 ->
  run (dec_dinf_fuel fuel m (dinf_size v)) (mkStream d l (p + 8) (dinf_lib_payload v ++ post))
  = (Ok v, mkStream d l (p + dinf_size v) post).
Proof.
  intros H Hs Hf Hp. unfold dec_dinf_fuel.
  rewrite (cont_dec_items m _ (dinf_size v) (dinf_dispatch m) (dinf_items0 v) (dinf_lib_payload v));
    [ | now apply dinf_items0_ok | apply app_nil_r | unfold dinf_size; hdr_consts; unfold ci_total; cbn; lia | exact Hp
      | cbn; lia ].
  cbn [dinf_items0 ci_fold fold_left dinf_i_dref0 ci_of ci_upd].
  rewrite run_cont_finish by (clear -Hp; lia). destruct v; reflexivity.
Qed.

Theorem dinf_fuel_roundtrip0 :
  cont_roundtrip dinf_wf0 dinf_size 0x64696e66 enc_dinf dec_dinf_fuel dinf_lib_payload (fun _ => 1%nat).
Proof.
  intros v H Hs. destruct (dinf_roundtrip0 v H Hs) as (H1 & H2 & H3 & H4 & _).
  repeat split; auto. intros; now apply dinf_fuel_dec0.
Qed.

Theorem dinf_fuel_reencode_fixpoint :
  cont_fixpoint_law dec_dinf_fuel (fun v => enc_dinf v) dinf_size (fun _ => 1%nat) (fun _ => True).
Proof.
  apply (cont_fixpoint_of_post _ _ _ _ _ _ _ _ dinf_fuel_roundtrip0).
  intros fuel m sz. eapply post_conseq; [| apply dec_dinf_fuel_post]. intros v Hv _. exact Hv.
Qed.

(** ** minf *)
Definition minf_good (v : minf) : Prop := stbl_good (minf_stbl v).

Definition minf_rt_wf0 (v : minf) : bool :=
  match minf_vmhd v with Some x => vmhd_wf x | None => true end
  && match minf_smhd v with Some x => smhd_wf x | None => true end
  && dinf_wf0 (minf_dinf v) && stbl_rt_wf (minf_stbl v).

Lemma dinf_wf_wf0 v : dinf_wf v = true -> dinf_wf0 v = true.
Proof.
  unfold dinf_wf, dinf_wf0, dref_wf, dref_wf0. intros H. apply andb_true_iff in H as [H Hu]. rewrite H.
  destruct (dref_url (dinf_dref v)); [now apply url_wf_wf0 | reflexivity].
Qed.

Lemma minf_rt_wf_wf0 v : minf_rt_wf v = true -> minf_rt_wf0 v = true.
Proof.
  unfold minf_rt_wf, minf_rt_wf0. intros H.
  apply andb_true_iff in H as [H H4]. apply andb_true_iff in H as [H H3].
  now rewrite H, (dinf_wf_wf0 _ H3), H4.
Qed.

Definition minf_acc_ok (a : minf_acc) : Prop :=
  let '(vm, sm, di, st) := a in
  optP (wfP vmhd_wf) vm /\ optP (wfP smhd_wf) sm /\ optP (wfP dinf_wf0) di
  /\ optP (fun x => stbl_good x -> stbl_rt_wf x = true) st.

Lemma minf_dispatch_post m f name s a : minf_acc_ok a -> post (minf_dispatch m f name s a) minf_acc_ok.
Proof.
  destruct a as [[[vm sm] di] st]. intros (H1 & H2 & H3 & H4).
  assert (Ha : minf_acc_ok (vm, sm, di, st)) by (repeat split; assumption).
  destruct name; try (apply post_skip_ret; exact Ha); cbn [minf_dispatch].
  all: lazymatch goal with
       | |- post (bind (dec_vmhd _ _) _) _ => eapply post_child; [apply dec_vmhd_post|]
       | |- post (bind (dec_smhd _ _) _) _ => eapply post_child; [apply dec_smhd_post|]
       | |- post (bind (dec_dinf_fuel _ _ _) _) _ => eapply post_child; [apply dec_dinf_fuel_post|]
       | |- post (bind (dec_stbl_fuel _ _ _) _) _ => eapply post_child; [apply dec_stbl_fuel_post|]
       end.
  all: intros x Hx; cbn [minf_acc_ok optP]; repeat split; assumption.
Qed.

Lemma dec_minf_fuel_post fuel m size :
  post (dec_minf_fuel fuel m size) (fun v => minf_good v -> minf_rt_wf0 v = true).
Proof.
  unfold dec_minf_fuel. apply (post_container minf_acc_ok).
  - intros f name s acc. apply minf_dispatch_post.
  - cbn. tauto.
  - intros start [[[vm sm] di] st] (H1 & H2 & H3 & H4).
    destruct di as [di|]; [|apply post_throw]. destruct st as [st|]; [|apply post_throw].
    apply post_finish. intros Hg. unfold minf_good in Hg. unfold minf_rt_wf0.
    cbn [minf_vmhd minf_smhd minf_dinf minf_stbl optP] in *. unfold wfP in *.
    rewrite (optP_wf _ _ H1), (optP_wf _ _ H2), H3, (H4 Hg). reflexivity.
Qed.

Lemma dec_minf_fuel_wf : forall fuel m size s v s', run (dec_minf_fuel fuel m size) s = (Ok v, s') ->
  bytes_ok (s_view s) = true -> bytes_ok (s_data s) = true -> minf_good v -> minf_rt_wf0 v = true.
Proof. exact (wf_of_post_fuel _ _ dec_minf_fuel_post). Qed.

(** the round trip for [minf_rt_wf0] (Proofs/RtMinf.v with the library's rendering of dinf) *)
Definition minf_lib_payload (v : minf) : bytes :=
  IsoCont.iso_opt (fun x => iso_box 0x766d6864 (IsoVmhd.iso_vmhd_payload x)) (minf_vmhd v) ++
  IsoCont.iso_opt (fun x => iso_box 0x736d6864 (IsoSmhd.iso_smhd_payload x)) (minf_smhd v) ++
  iso_box 0x64696e66 (dinf_lib_payload (minf_dinf v)) ++
  iso_box 0x7374626c (IsoStbl.iso_stbl_payload (minf_stbl v)).

Definition minf_i_dinf0 := ci_of dinf_size 0x64696e66 dinf_lib_payload (fun _ => 1%nat) minf_u_dinf.

Definition minf_items0 (v : minf) : list (citem minf_acc) :=
  ci_opt minf_i_vmhd (minf_vmhd v) ++ ci_opt minf_i_smhd (minf_smhd v) ++
  [minf_i_dinf0 (minf_dinf v)] ++ [minf_i_stbl (minf_stbl v)].

Ltac minf_unfold_items0 := unfold minf_items0, minf_i_vmhd, minf_i_smhd, minf_i_dinf0, minf_i_stbl.

Lemma minf_items0_iso v : flat_map ci_iso (minf_items0 v) = minf_lib_payload v.
Proof.
  unfold minf_lib_payload. minf_unfold_items0.
  destruct (minf_vmhd v), (minf_smhd v);
    cbn [flat_map ci_opt app IsoCont.iso_opt ci_iso ci_of ci_code ci_pl]; rewrite ?app_nil_r; reflexivity.
Qed.

Lemma minf_items0_size v : minf_size v = 8 + ci_total (minf_items0 v).
Proof.
  unfold minf_size. minf_unfold_items0. rewrite !ci_total_app.
  destruct (minf_vmhd v), (minf_smhd v);
    unfold ci_total; cbn [ci_opt map ci_of ci_size sumN fold_right]; hdr_consts; lia.
Qed.

Lemma minf_items0_fuel v : (length (minf_items0 v) + ci_maxneed (minf_items0 v) <= 13)%nat.
Proof.
  minf_unfold_items0. rewrite !app_length, !ci_maxneed_app.
  destruct (minf_vmhd v), (minf_smhd v); cbn [length ci_opt ci_maxneed ci_need ci_of]; lia.
Qed.

Lemma minf_items0_ok m v : minf_rt_wf0 v = true -> minf_size v < U32 ->
  Forall (ci_ok (minf_dispatch m)) (minf_items0 v).
Proof.
  intros H Hs. apply Forall_ci_ok_total; [| rewrite minf_items0_size in Hs; clear -Hs; lia].
  unfold minf_rt_wf0 in H. split_andb.
  unfold minf_items0. repeat apply Forall_app_intro.
  - apply Forall_ci_opt. intros x Hx. rewrite Hx in *.
    ci_leaf_t (cont_of_leaf _ _ _ _ _ _ RtVmhd.vmhd_roundtrip) minf_bt_vmhd.
  - apply Forall_ci_opt. intros x Hx. rewrite Hx in *.
    ci_leaf_t (cont_of_leaf _ _ _ _ _ _ RtSmhd.smhd_roundtrip) minf_bt_smhd.
  - apply Forall_one. ci_leaf_t dinf_fuel_roundtrip0 minf_bt_dinf.
  - apply Forall_one. ci_leaf_t (stbl_roundtrip Dbg) minf_bt_stbl.
Qed.

Lemma minf_payload_len0 v : minf_rt_wf0 v = true -> minf_size v < U32 ->
  lenN (minf_lib_payload v) + 8 = minf_size v.
Proof.
  intros H Hs. apply (cont_payload_len (minf_dispatch Dbg) (minf_items0 v)).
  - now apply minf_items0_ok.
  - apply minf_items0_iso.
  - apply minf_items0_size.
Qed.

Ltac minf_child0 me Hs :=
  lazymatch goal with
  | |- wspec (enc_vmhd _) _ _ => apply (cont_rt_wspec _ _ _ _ _ _ _ _ (cont_of_leaf _ _ _ _ _ _ RtVmhd.vmhd_roundtrip))
  | |- wspec (enc_smhd _) _ _ => apply (cont_rt_wspec _ _ _ _ _ _ _ _ (cont_of_leaf _ _ _ _ _ _ RtSmhd.smhd_roundtrip))
  | |- wspec (enc_dinf _) _ _ => apply (cont_rt_wspec _ _ _ _ _ _ _ _ dinf_fuel_roundtrip0)
  | |- wspec (enc_stbl _ _) _ _ => apply (cont_rt_wspec _ _ _ _ _ _ _ _ (stbl_roundtrip me))
  end;
  [ assumption | let Hs' := fresh "Hs" in pose proof Hs as Hs'; unfold minf_size in Hs'; cont_size_tac Hs' ].

Ltac minf_opt0 me Hs :=
  let x := fresh "x" in let Hx := fresh "Hx" in
  apply wspec_opt_child; intros x Hx; unfold minf_size in Hs; rewrite Hx in *; eexists; minf_child0 me Hs.

Lemma minf_enc0 me v : minf_rt_wf0 v = true -> minf_size v < U32 ->
  wspec (enc_minf me v) (minf_size v) (be 4 (minf_size v) ++ be 4 0x6d696e66 ++ minf_lib_payload v).
Proof.
  intros H Hs. rewrite <- minf_code. unfold minf_rt_wf0 in H. split_andb.
  unfold enc_minf, minf_lib_payload.
  eapply wspec_out.
  - wspec_go.
    + minf_opt0 me Hs.
    + minf_opt0 me Hs.
    + minf_child0 me Hs.
    + minf_child0 me Hs.
  - rewrite <- ?app_assoc, ?app_nil_r. reflexivity.
Qed.

Lemma minf_dec0 v fuel m d l p post : minf_rt_wf0 v = true -> minf_size v < U32 ->
  (13 <= fuel)%nat -> p + minf_size v < 2 ^ 63 ->
  run (dec_minf_fuel fuel m (minf_size v)) (mkStream d l (p + 8) (minf_lib_payload v ++ post))
  = (Ok v, mkStream d l (p + minf_size v) post).
Proof.
  intros H Hs Hf Hp. unfold dec_minf_fuel.
  rewrite (cont_dec_items m _ (minf_size v) (minf_dispatch m) (minf_items0 v) (minf_lib_payload v));
    [ | now apply minf_items0_ok | apply minf_items0_iso | apply minf_items0_size | exact Hp
      | pose proof (minf_items0_fuel v); lia ].
  minf_unfold_items0. rewrite !ci_fold_app.
  destruct v as [vm sm di st].
  cbn [minf_vmhd minf_smhd minf_dinf minf_stbl] in *.
  destruct vm, sm;
    cbn [ci_fold fold_left ci_opt ci_of ci_upd minf_u_vmhd minf_u_smhd minf_u_dinf minf_u_stbl];
    apply run_cont_finish; (clear -Hp; lia).
Qed.

Theorem minf_roundtrip0 me :
  cont_roundtrip minf_rt_wf0 minf_size 0x6d696e66 (enc_minf me) dec_minf_fuel minf_lib_payload (fun _ => 13%nat).
Proof.
  apply cont_roundtrip_intro.
  - apply minf_enc0.
  - apply minf_payload_len0.
  - intros; now apply minf_dec0.
Qed.

Theorem minf_reencode_fixpoint me :
  cont_fixpoint_law dec_minf_fuel (enc_minf me) minf_size (fun _ => 13%nat) minf_good.
Proof. exact (cont_fixpoint_of_post _ _ _ _ _ _ _ _ (minf_roundtrip0 me) dec_minf_fuel_post). Qed.

(** ** mdia *)
Definition mdia_good (v : mdia) : Prop := minf_good (mdia_minf v).

Definition mdia_rt_wf0 (v : mdia) : bool :=
  mdhd_wf (mdia_mdhd v) && hdlr_wf (mdia_hdlr v) && minf_rt_wf0 (mdia_minf v).

Lemma mdia_rt_wf_wf0 v : mdia_rt_wf v = true -> mdia_rt_wf0 v = true.
Proof.
  unfold mdia_rt_wf, mdia_rt_wf0. intros H. apply andb_true_iff in H as [H H3].
  now rewrite H, (minf_rt_wf_wf0 _ H3).
Qed.

Definition mdia_acc_ok (a : mdia_acc) : Prop :=
  let '(md, hd, mi) := a in
  optP (wfP mdhd_wf) md /\ optP (wfP hdlr_wf) hd /\ optP (fun x => minf_good x -> minf_rt_wf0 x = true) mi.

Lemma mdia_dispatch_post m f name s a : mdia_acc_ok a -> post (mdia_dispatch m f name s a) mdia_acc_ok.
Proof.
  destruct a as [[md hd] mi]. intros (H1 & H2 & H3).
  assert (Ha : mdia_acc_ok (md, hd, mi)) by (repeat split; assumption).
  destruct name; try (apply post_skip_ret; exact Ha); cbn [mdia_dispatch].
  all: lazymatch goal with
       | |- post (bind (dec_mdhd _ _) _) _ => eapply post_child; [apply dec_mdhd_post|]
       | |- post (bind (dec_hdlr _ _) _) _ => eapply post_child; [apply dec_hdlr_post|]
       | |- post (bind (dec_minf_fuel _ _ _) _) _ => eapply post_child; [apply dec_minf_fuel_post|]
       end.
  all: intros x Hx; cbn [mdia_acc_ok optP]; repeat split; assumption.
Qed.

Lemma dec_mdia_fuel_post fuel m size :
  post (dec_mdia_fuel fuel m size) (fun v => mdia_good v -> mdia_rt_wf0 v = true).
Proof.
  unfold dec_mdia_fuel. apply (post_container mdia_acc_ok).
  - intros f name s acc. apply mdia_dispatch_post.
  - cbn. tauto.
  - intros start [[md hd] mi] (H1 & H2 & H3).
    destruct md as [md|]; [|apply post_throw]. destruct hd as [hd|]; [|apply post_throw].
    destruct mi as [mi|]; [|apply post_throw].
    apply post_finish. intros Hg. unfold mdia_good in Hg. unfold mdia_rt_wf0.
    cbn [mdia_mdhd mdia_hdlr mdia_minf optP] in *. unfold wfP in *.
    rewrite H1, H2, (H3 Hg). reflexivity.
Qed.

Lemma dec_mdia_fuel_wf : forall fuel m size s v s', run (dec_mdia_fuel fuel m size) s = (Ok v, s') ->
  bytes_ok (s_view s) = true -> bytes_ok (s_data s) = true -> mdia_good v -> mdia_rt_wf0 v = true.
Proof. exact (wf_of_post_fuel _ _ dec_mdia_fuel_post). Qed.

Definition mdia_lib_payload (v : mdia) : bytes :=
  iso_box 0x6d646864 (IsoMdhd.iso_mdhd_payload (mdia_mdhd v)) ++
  iso_box 0x68646c72 (IsoHdlr.iso_hdlr_payload (mdia_hdlr v)) ++
  iso_box 0x6d696e66 (minf_lib_payload (mdia_minf v)).

Definition mdia_i_minf0 := ci_of minf_size 0x6d696e66 minf_lib_payload (fun _ => 13%nat) mdia_u_minf.

Definition mdia_items0 (v : mdia) : list (citem mdia_acc) :=
  [mdia_i_mdhd (mdia_mdhd v)] ++ [mdia_i_hdlr (mdia_hdlr v)] ++ [mdia_i_minf0 (mdia_minf v)].

Ltac mdia_unfold_items0 := unfold mdia_items0, mdia_i_mdhd, mdia_i_hdlr, mdia_i_minf0.

Lemma mdia_items0_iso v : flat_map ci_iso (mdia_items0 v) = mdia_lib_payload v.
Proof.
  unfold mdia_lib_payload. mdia_unfold_items0.
  cbn [flat_map ci_opt app IsoCont.iso_opt ci_iso ci_of ci_code ci_pl]; rewrite ?app_nil_r; reflexivity.
Qed.

Lemma mdia_items0_size v : mdia_size v = 8 + ci_total (mdia_items0 v).
Proof.
  unfold mdia_size. mdia_unfold_items0. rewrite !ci_total_app.
  unfold ci_total; cbn [ci_opt map ci_of ci_size sumN fold_right]; hdr_consts; lia.
Qed.

Lemma mdia_items0_fuel v : (length (mdia_items0 v) + ci_maxneed (mdia_items0 v) <= 16)%nat.
Proof.
  mdia_unfold_items0. rewrite !app_length, !ci_maxneed_app.
  cbn [length ci_opt ci_maxneed ci_need ci_of]; lia.
Qed.

Lemma mdia_items0_ok m v : mdia_rt_wf0 v = true -> mdia_size v < U32 ->
  Forall (ci_ok (mdia_dispatch m)) (mdia_items0 v).
Proof.
  intros H Hs. apply Forall_ci_ok_total; [| rewrite mdia_items0_size in Hs; clear -Hs; lia].
  unfold mdia_rt_wf0 in H. split_andb.
  unfold mdia_items0. repeat apply Forall_app_intro.
  - apply Forall_one. ci_leaf_t (cont_of_leaf _ _ _ _ _ _ RtMdhd.mdhd_roundtrip) mdia_bt_mdhd.
  - apply Forall_one. ci_leaf_t (cont_of_leaf _ _ _ _ _ _ RtHdlr.hdlr_roundtrip) mdia_bt_hdlr.
  - apply Forall_one. ci_leaf_t (minf_roundtrip0 Dbg) mdia_bt_minf.
Qed.

Lemma mdia_payload_len0 v : mdia_rt_wf0 v = true -> mdia_size v < U32 ->
  lenN (mdia_lib_payload v) + 8 = mdia_size v.
Proof.
  intros H Hs. apply (cont_payload_len (mdia_dispatch Dbg) (mdia_items0 v)).
  - now apply mdia_items0_ok.
  - apply mdia_items0_iso.
  - apply mdia_items0_size.
Qed.

Ltac mdia_child0 me Hs :=
  lazymatch goal with
  | |- wspec (enc_mdhd _) _ _ => apply (cont_rt_wspec _ _ _ _ _ _ _ _ (cont_of_leaf _ _ _ _ _ _ RtMdhd.mdhd_roundtrip))
  | |- wspec (enc_hdlr _) _ _ => apply (cont_rt_wspec _ _ _ _ _ _ _ _ (cont_of_leaf _ _ _ _ _ _ RtHdlr.hdlr_roundtrip))
  | |- wspec (enc_minf _ _) _ _ => apply (cont_rt_wspec _ _ _ _ _ _ _ _ (minf_roundtrip0 me))
  end;
  [ assumption | let Hs' := fresh "Hs" in pose proof Hs as Hs'; unfold mdia_size in Hs'; cont_size_tac Hs' ].

Lemma mdia_enc0 me v : mdia_rt_wf0 v = true -> mdia_size v < U32 ->
  wspec (enc_mdia me v) (mdia_size v) (be 4 (mdia_size v) ++ be 4 0x6d646961 ++ mdia_lib_payload v).
Proof.
  intros H Hs. rewrite <- mdia_code. unfold mdia_rt_wf0 in H. split_andb.
  unfold enc_mdia, mdia_lib_payload.
  eapply wspec_out.
  - wspec_go; mdia_child0 me Hs.
  - rewrite <- ?app_assoc, ?app_nil_r. reflexivity.
Qed.

Lemma mdia_dec0 v fuel m d l p post : mdia_rt_wf0 v = true -> mdia_size v < U32 ->
  (16 <= fuel)%nat -> p + mdia_size v < 2 ^ 63 ->
  run (dec_mdia_fuel fuel m (mdia_size v)) (mkStream d l (p + 8) (mdia_lib_payload v ++ post))
  = (Ok v, mkStream d l (p + mdia_size v) post).
Proof.
  intros H Hs Hf Hp. unfold dec_mdia_fuel.
  rewrite (cont_dec_items m _ (mdia_size v) (mdia_dispatch m) (mdia_items0 v) (mdia_lib_payload v));
    [ | now apply mdia_items0_ok | apply mdia_items0_iso | apply mdia_items0_size | exact Hp
      | pose proof (mdia_items0_fuel v); lia ].
  mdia_unfold_items0. rewrite !ci_fold_app.
  destruct v as [md hd mi].
  cbn [mdia_mdhd mdia_hdlr mdia_minf] in *.
  cbn [ci_fold fold_left ci_opt ci_of ci_upd mdia_u_mdhd mdia_u_hdlr mdia_u_minf];
    apply run_cont_finish; (clear -Hp; lia).
Qed.

Theorem mdia_roundtrip0 me :
  cont_roundtrip mdia_rt_wf0 mdia_size 0x6d646961 (enc_mdia me) dec_mdia_fuel mdia_lib_payload (fun _ => 16%nat).
Proof.
  apply cont_roundtrip_intro.
  - apply mdia_enc0.
  - apply mdia_payload_len0.
  - intros; now apply mdia_dec0.
Qed.

Theorem mdia_reencode_fixpoint me :
  cont_fixpoint_law dec_mdia_fuel (enc_mdia me) mdia_size (fun _ => 16%nat) mdia_good.
Proof. exact (cont_fixpoint_of_post _ _ _ _ _ _ _ _ (mdia_roundtrip0 me) dec_mdia_fuel_post). Qed.

(** ** edts: no loop, one optional elst *)
Lemma dec_edts_fuel_post fuel m size : post (dec_edts_fuel fuel m size) (wfP edts_wf).
Proof.
  unfold dec_edts_fuel. apply post_bind_any. intros start. apply post_bind_any. intros p.
  apply post_bind_any. intros lhs. apply post_bind_any. intros rhs.
  eapply post_bind with (R := optP (wfP elst_wf)).
  - destruct (lhs <=? rhs); [| apply post_ret; exact I].
    apply post_bind_any. intros [name s]. destruct (size <? s); [apply post_throw|].
    destruct name; try (apply post_ret; exact I).
    eapply post_child; [apply post_of_G2, dec_elst_post|]. intros x Hx. exact Hx.
  - intros el Hel. apply post_finish. unfold wfP, edts_wf. cbn [edts_elst]. now apply optP_wf.
Qed.

Lemma dec_edts_fuel_wf : forall fuel m size s v s', run (dec_edts_fuel fuel m size) s = (Ok v, s') ->
  bytes_ok (s_view s) = true -> bytes_ok (s_data s) = true -> edts_wf v = true.
Proof. exact (wf_of_post_fuel _ _ dec_edts_fuel_post). Qed.

Theorem edts_reencode_fixpoint :
  cont_fixpoint_law dec_edts_fuel enc_edts edts_size (fun _ => 0%nat) (fun _ => True).
Proof.
  apply (cont_fixpoint_of_post _ _ _ _ _ _ _ _ edts_roundtrip).
  intros fuel m sz. eapply post_conseq; [| apply dec_edts_fuel_post]. intros v Hv _. exact Hv.
Qed.

(** ** mvex, traf, moof *)
Definition mvex_acc_ok (a : mvex_acc) : Prop :=
  let '(me, tr) := a in optP (wfP mehd_wf) me /\ optP (wfP trex_wf) tr.

Lemma mvex_dispatch_post m f name s a : mvex_acc_ok a -> post (mvex_dispatch m f name s a) mvex_acc_ok.
Proof.
  destruct a as [me tr]. intros (H1 & H2).
  assert (Ha : mvex_acc_ok (me, tr)) by (split; assumption).
  destruct name; try (apply post_skip_ret; exact Ha); cbn [mvex_dispatch].
  all: lazymatch goal with
       | |- post (bind (dec_mehd _ _) _) _ => eapply post_child; [apply dec_mehd_post|]
       | |- post (bind (dec_trex _ _) _) _ => eapply post_child; [apply dec_trex_post|]
       end.
  all: intros x Hx; cbn [mvex_acc_ok optP]; split; assumption.
Qed.

Lemma dec_mvex_fuel_post fuel m size : post (dec_mvex_fuel fuel m size) (wfP mvex_rt_wf).
Proof.
  unfold dec_mvex_fuel. apply (post_container mvex_acc_ok).
  - intros f name s acc. apply mvex_dispatch_post.
  - cbn. tauto.
  - intros start [me tr] (H1 & H2). destruct tr as [tr|]; [|apply post_throw].
    apply post_finish. unfold wfP, mvex_rt_wf. cbn [mvex_mehd mvex_trex optP] in *. unfold wfP in *.
    rewrite (optP_wf _ _ H1), H2. reflexivity.
Qed.

Lemma dec_mvex_fuel_wf : forall fuel m size s v s', run (dec_mvex_fuel fuel m size) s = (Ok v, s') ->
  bytes_ok (s_view s) = true -> bytes_ok (s_data s) = true -> mvex_rt_wf v = true.
Proof. exact (wf_of_post_fuel _ _ dec_mvex_fuel_post). Qed.

Theorem mvex_reencode_fixpoint :
  cont_fixpoint_law dec_mvex_fuel enc_mvex mvex_size mvex_fuel (fun _ => True).
Proof.
  apply (cont_fixpoint_of_post _ _ _ _ _ _ _ _ (mvex_roundtrip Dbg)).
  intros fuel m sz. eapply post_conseq; [| apply dec_mvex_fuel_post]. intros v Hv _. exact Hv.
Qed.

Definition traf_acc_ok (a : traf_acc) : Prop :=
  let '(fh, fd, ru) := a in optP (wfP tfhd_wf) fh /\ optP (wfP tfdt_wf) fd /\ optP (wfP trun_wf) ru.

Lemma traf_dispatch_post m f name s a : traf_acc_ok a -> post (traf_dispatch m f name s a) traf_acc_ok.
Proof.
  destruct a as [[fh fd] ru]. intros (H1 & H2 & H3).
  assert (Ha : traf_acc_ok (fh, fd, ru)) by (repeat split; assumption).
  destruct name; try (apply post_skip_ret; exact Ha); cbn [traf_dispatch].
  all: lazymatch goal with
       | |- post (bind (dec_tfhd _ _) _) _ => eapply post_child; [apply dec_tfhd_post|]
       | |- post (bind (dec_tfdt _ _) _) _ => eapply post_child; [apply dec_tfdt_post|]
       | |- post (bind (dec_trun _ _) _) _ => eapply post_child; [apply post_of_G2, dec_trun_post|]
       end.
  all: intros x Hx; cbn [traf_acc_ok optP]; repeat split; assumption.
Qed.

Lemma dec_traf_fuel_post fuel m size : post (dec_traf_fuel fuel m size) (wfP traf_rt_wf).
Proof.
  unfold dec_traf_fuel. apply (post_container traf_acc_ok).
  - intros f name s acc. apply traf_dispatch_post.
  - cbn. tauto.
  - intros start [[fh fd] ru] (H1 & H2 & H3). destruct fh as [fh|]; [|apply post_throw].
    apply post_finish. unfold wfP, traf_rt_wf. cbn [traf_tfhd traf_tfdt traf_trun optP] in *. unfold wfP in *.
    rewrite H1, (optP_wf _ _ H2), (optP_wf _ _ H3). reflexivity.
Qed.

Lemma dec_traf_fuel_wf : forall fuel m size s v s', run (dec_traf_fuel fuel m size) s = (Ok v, s') ->
  bytes_ok (s_view s) = true -> bytes_ok (s_data s) = true -> traf_rt_wf v = true.
Proof. exact (wf_of_post_fuel _ _ dec_traf_fuel_post). Qed.

Theorem traf_reencode_fixpoint :
  cont_fixpoint_law dec_traf_fuel enc_traf traf_size traf_fuel (fun _ => True).
Proof.
  apply (cont_fixpoint_of_post _ _ _ _ _ _ _ _ (traf_roundtrip Dbg)).
  intros fuel m sz. eapply post_conseq; [| apply dec_traf_fuel_post]. intros v Hv _. exact Hv.
Qed.

Lemma forallb_snoc {A} (f : A -> bool) l x : forallb f l = true -> f x = true -> forallb f (l ++ [x]) = true.
Proof. intros Hl Hx. rewrite forallb_app, Hl. cbn [forallb]. now rewrite Hx. Qed.

Definition moof_acc_ok (a : moof_acc) : Prop :=
  let '(mh, tr) := a in optP (wfP mfhd_wf) mh /\ forallb traf_rt_wf tr = true.

Lemma moof_dispatch_post m f name s a : moof_acc_ok a -> post (moof_dispatch m f name s a) moof_acc_ok.
Proof.
  destruct a as [mh tr]. intros (H1 & H2).
  assert (Ha : moof_acc_ok (mh, tr)) by (split; assumption).
  destruct name; try (apply post_skip_ret; exact Ha); cbn [moof_dispatch].
  - eapply post_child; [apply dec_mfhd_post|]. intros x Hx. split; assumption.
  - eapply post_child; [apply dec_traf_fuel_post|]. intros x Hx. split; [assumption|]. now apply forallb_snoc.
Qed.

Lemma dec_moof_fuel_post fuel m size : post (dec_moof_fuel fuel m size) (wfP moof_rt_wf).
Proof.
  unfold dec_moof_fuel. apply (post_container moof_acc_ok).
  - intros f name s acc. apply moof_dispatch_post.
  - cbn. tauto.
  - intros start [mh tr] (H1 & H2). destruct mh as [mh|]; [|apply post_throw].
    apply post_finish. unfold wfP, moof_rt_wf. cbn [moof_mfhd moof_trafs optP] in *. unfold wfP in *.
    rewrite H1, H2. reflexivity.
Qed.

Lemma dec_moof_fuel_wf : forall fuel m size s v s', run (dec_moof_fuel fuel m size) s = (Ok v, s') ->
  bytes_ok (s_view s) = true -> bytes_ok (s_data s) = true -> moof_rt_wf v = true.
Proof. exact (wf_of_post_fuel _ _ dec_moof_fuel_post). Qed.

Theorem moof_reencode_fixpoint :
  cont_fixpoint_law dec_moof_fuel enc_moof moof_size moof_fuel (fun _ => True).
Proof.
  apply (cont_fixpoint_of_post _ _ _ _ _ _ _ _ (moof_roundtrip Dbg)).
  intros fuel m sz. eapply post_conseq; [| apply dec_moof_fuel_post]. intros v Hv _. exact Hv.
Qed.

(** ** ilst and its items: [HashMap::insert] keeps the keys distinct *)
Lemma ilst_item_dispatch_post m f name s a :
  optP (wfP data_wf) a -> post (ilst_item_dispatch m f name s a) (optP (wfP data_wf)).
Proof.
  intros Ha. destruct name; try (apply post_skip_ret; exact Ha); cbn [ilst_item_dispatch].
  eapply post_child; [apply post_of_G2, dec_data_post|]. intros x Hx. exact Hx.
Qed.

Lemma dec_ilst_item_fuel_post fuel m size : post (dec_ilst_item_fuel fuel m size) (wfP ilst_item_wf).
Proof.
  unfold dec_ilst_item_fuel. apply (post_container (optP (wfP data_wf))).
  - intros f name s acc. apply ilst_item_dispatch_post.
  - exact I.
  - intros start [x|] Hx; [|apply post_throw]. apply post_finish. exact Hx.
Qed.

Lemma mkey_eqb_sym a b : mkey_eqb a b = mkey_eqb b a.
Proof. destruct a, b; reflexivity. Qed.

Lemma ilst_nodup_snoc l k v : ilst_keys_nodup l = true ->
  existsb (fun p => mkey_eqb (fst p) k) l = false -> ilst_keys_nodup (l ++ [(k, v)]) = true.
Proof.
  induction l as [|[k' v'] t IH]; intros Hn He; [reflexivity|].
  cbn [ilst_keys_nodup existsb app fst] in *.
  apply andb_true_iff in Hn as [Hn1 Hn2]. apply orb_false_iff in He as [He1 He2].
  rewrite existsb_app. cbn [existsb fst]. rewrite (mkey_eqb_sym k k'), He1, orb_false_r.
  apply negb_true_iff in Hn1. rewrite Hn1. cbn [negb andb]. now apply IH.
Qed.

Lemma existsb_filter_le {A} (f g : A -> bool) l : existsb f l = false -> existsb f (filter g l) = false.
Proof.
  induction l as [|x t IH]; intros H; [reflexivity|]. cbn [existsb filter] in *.
  apply orb_false_iff in H as [H1 H2]. destruct (g x); cbn [existsb]; [rewrite H1|]; now apply IH.
Qed.

Lemma ilst_nodup_filter (g : mkey * ilst_item -> bool) l :
  ilst_keys_nodup l = true -> ilst_keys_nodup (filter g l) = true.
Proof.
  induction l as [|[k v] t IH]; intros H; [reflexivity|]. cbn [ilst_keys_nodup filter] in *.
  apply andb_true_iff in H as [H1 H2]. destruct (g (k, v)); [|now apply IH].
  cbn [ilst_keys_nodup]. rewrite (IH H2), andb_true_r. apply negb_true_iff in H1. apply negb_true_iff.
  now apply existsb_filter_le.
Qed.

Lemma existsb_filter_neg {A} (f : A -> bool) l : existsb f (filter (fun p => negb (f p)) l) = false.
Proof.
  induction l as [|x t IH]; [reflexivity|]. cbn [filter]. destruct (f x) eqn:E; cbn [negb]; [exact IH|].
  cbn [existsb]. now rewrite E, IH.
Qed.

Lemma forallb_filter {A} (f g : A -> bool) l : forallb f l = true -> forallb f (filter g l) = true.
Proof.
  induction l as [|x t IH]; intros H; [reflexivity|]. cbn [forallb filter] in *.
  apply andb_true_iff in H as [H1 H2]. destruct (g x); cbn [forallb]; [rewrite H1|]; now apply IH.
Qed.

Definition ilst_acc_ok (l : list (mkey * ilst_item)) : Prop :=
  ilst_keys_nodup l = true /\ forallb (fun p => ilst_item_wf (snd p)) l = true.

Lemma ilst_insert_ok k x l : ilst_item_wf x = true -> ilst_acc_ok l -> ilst_acc_ok (ilst_insert k x l).
Proof.
  intros Hx [H1 H2]. unfold ilst_insert. split.
  - apply ilst_nodup_snoc; [now apply ilst_nodup_filter|].
    apply (existsb_filter_neg (fun p : mkey * ilst_item => mkey_eqb (fst p) k)).
  - apply forallb_snoc; [now apply forallb_filter | exact Hx].
Qed.

Lemma ilst_dispatch_post m f name s l : ilst_acc_ok l -> post (ilst_dispatch m f name s l) ilst_acc_ok.
Proof.
  intros Hl. destruct name; try (apply post_skip_ret; exact Hl); cbn [ilst_dispatch].
  all: eapply post_child; [apply dec_ilst_item_fuel_post|]; intros x Hx; now apply ilst_insert_ok.
Qed.

Lemma dec_ilst_fuel_post fuel m size : post (dec_ilst_fuel fuel m size) (wfP ilst_wf).
Proof.
  unfold dec_ilst_fuel. apply (post_container ilst_acc_ok).
  - intros f name s acc. apply ilst_dispatch_post.
  - split; reflexivity.
  - intros start l [H1 H2]. apply post_finish. unfold wfP, ilst_wf. cbn [ilst_items]. now rewrite H1, H2.
Qed.

Lemma dec_ilst_fuel_wf : forall fuel m size s v s', run (dec_ilst_fuel fuel m size) s = (Ok v, s') ->
  bytes_ok (s_view s) = true -> bytes_ok (s_data s) = true -> ilst_wf v = true.
Proof. exact (wf_of_post_fuel _ _ dec_ilst_fuel_post). Qed.

Theorem ilst_reencode_fixpoint :
  cont_fixpoint_law dec_ilst_fuel enc_ilst ilst_size ilst_fuel (fun _ => True).
Proof.
  apply (cont_fixpoint_of_post _ _ _ _ _ _ _ _ ilst_roundtrip).
  intros fuel m sz. eapply post_conseq; [| apply dec_ilst_fuel_post]. intros v Hv _. exact Hv.
Qed.

(** ** meta: the raw children of the [Unknown] shape carry the type their code reads as, because the
       type came out of [From<u32> for BoxType] in the first place *)
Lemma boxtype_table_ok : table_ok Tables.boxtype_table = true.
Proof. vm_compute. reflexivity. Qed.

Lemma boxtype_eqb_refl a : boxtype_eqb a a = true.
Proof. destruct a; try reflexivity. cbn [boxtype_eqb]. apply N.eqb_refl. Qed.

Lemma bt_canon_ok name : bt_canon name ->
  ufit 4 (u32_of_boxtype name) = true /\ boxtype_eqb (boxtype_of_u32 (u32_of_boxtype name)) name = true.
Proof.
  intros (c & Hc & ->). rewrite (u32_boxtype_u32 boxtype_table_ok). split; [|apply boxtype_eqb_refl].
  unfold ufit. apply N.ltb_lt. rewrite pow256_4. exact Hc.
Qed.

Lemma meta_find_hdlr_post m f name s a :
  optP (wfP hdlr_wf) a -> post (meta_find_hdlr m f name s a) (optP (wfP hdlr_wf)).
Proof.
  intros Ha. destruct name; try (apply post_skip_ret; exact Ha); cbn [meta_find_hdlr].
  eapply post_child; [apply dec_hdlr_post|]. intros x Hx. exact Hx.
Qed.

Lemma meta_mdir_dispatch_post m f name s a :
  optP (wfP ilst_wf) a -> post (meta_mdir_dispatch m f name s a) (optP (wfP ilst_wf)).
Proof.
  intros Ha. destruct name; try (apply post_skip_ret; exact Ha); cbn [meta_mdir_dispatch].
  eapply post_child; [apply dec_ilst_fuel_post|]. intros x Hx. exact Hx.
Qed.

Definition meta_raw_wf (p : boxtype * bytes) : bool :=
  ufit 4 (u32_of_boxtype (fst p)) && bytes_ok (snd p) && negb (boxtype_eqb (fst p) HdlrBox).

Definition meta_raws_ok (d : list (boxtype * bytes)) : Prop :=
  forallb meta_raw_wf d = true /\ forallb meta_raw_ok d = true.

Lemma meta_unknown_dispatch_other m f name s a : boxtype_eqb name HdlrBox = false ->
  meta_unknown_dispatch m f name s a =
  match checked_sub s HEADER_SIZE with
  | None => Throw EData
  | Some box_data_size => box_data <- rd_vec box_data_size ;; Ret (a ++ [(name, box_data)])
  end.
Proof. intros H. destruct name; try reflexivity. vm_compute in H. discriminate H. Qed.

Lemma meta_unknown_dispatch_post m f name s a : bt_canon name ->
  meta_raws_ok a -> post (meta_unknown_dispatch m f name s a) meta_raws_ok.
Proof.
  intros Hn [H1 H2]. destruct (boxtype_eqb name HdlrBox) eqn:E.
  - apply boxtype_eqb_eq in E. subst name. cbn [meta_unknown_dispatch]. apply post_skip_ret. now split.
  - rewrite meta_unknown_dispatch_other by exact E.
    destruct (checked_sub s HEADER_SIZE) as [n|]; [|apply post_throw].
    apply post_rd_vec_bind. intros l Hl Hb. apply post_ret.
    destruct (bt_canon_ok name Hn) as [Hu Hr].
    split; apply forallb_snoc; try assumption.
    unfold meta_raw_wf. cbn [fst snd]. now rewrite Hu, Hb, E.
Qed.

Lemma dec_meta_fuel_post fuel m size : post (dec_meta_fuel fuel m size) (wfP meta_rt_wf).
Proof.
  unfold dec_meta_fuel. apply post_bind_any. intros start. apply post_bind_any. intros eh.
  apply post_bind_any. intros _. apply post_bind_any. intros current. apply post_bind_any. intros end_.
  eapply post_bind; [apply (post_children_loop (optP (wfP hdlr_wf))); [intros; now apply meta_find_hdlr_post | exact I]|].
  intros [h|] Hh; [|apply post_throw]. cbn [optP] in Hh. unfold wfP in Hh.
  apply post_bind_any. intros _. apply post_bind_any. intros current2.
  destruct (hdlr_handler_type h =? meta_MDIR) eqn:Et.
  - eapply post_bind;
      [apply (post_children_loop (optP (wfP ilst_wf))); [intros; now apply meta_mdir_dispatch_post | exact I]|].
    intros il Hil. apply post_finish. unfold wfP, meta_rt_wf, meta_wf. rewrite andb_true_r. now apply optP_wf.
  - eapply post_bind;
      [apply (post_children_loop_canon meta_raws_ok); [intros; now apply meta_unknown_dispatch_post | split; reflexivity]|].
    intros d [Hd1 Hd2]. apply post_finish. unfold wfP, meta_rt_wf, meta_wf.
    rewrite Hh, Et. cbn [negb andb]. fold meta_raw_wf. now rewrite Hd1, Hd2.
Qed.

Lemma dec_meta_fuel_wf : forall fuel m size s v s', run (dec_meta_fuel fuel m size) s = (Ok v, s') ->
  bytes_ok (s_view s) = true -> bytes_ok (s_data s) = true -> meta_rt_wf v = true.
Proof. exact (wf_of_post_fuel _ _ dec_meta_fuel_post). Qed.

Theorem meta_reencode_fixpoint :
  cont_fixpoint_law_s dec_meta_fuel enc_meta meta_size meta_fuel (fun _ => True).
Proof.
  apply (cont_fixpoint_of_post_s _ _ _ _ _ _ _ _ meta_roundtrip).
  intros fuel m sz. eapply post_conseq; [| apply dec_meta_fuel_post]. intros v Hv _. exact Hv.
Qed.

(** ** udta *)
Lemma udta_dispatch_post m f name s a :
  optP (wfP meta_rt_wf) a -> post (udta_dispatch m f name s a) (optP (wfP meta_rt_wf)).
Proof.
  intros Ha. destruct name; try (apply post_skip_ret; exact Ha); cbn [udta_dispatch].
  eapply post_child; [apply dec_meta_fuel_post|]. intros x Hx. exact Hx.
Qed.

Lemma dec_udta_fuel_post fuel m size : post (dec_udta_fuel fuel m size) (wfP udta_rt_wf).
Proof.
  unfold dec_udta_fuel. apply (post_container (optP (wfP meta_rt_wf))).
  - intros f name s acc. apply udta_dispatch_post.
  - exact I.
  - intros start a Ha. apply post_finish. unfold wfP, udta_rt_wf. cbn [udta_meta]. now apply optP_wf.
Qed.

Lemma dec_udta_fuel_wf : forall fuel m size s v s', run (dec_udta_fuel fuel m size) s = (Ok v, s') ->
  bytes_ok (s_view s) = true -> bytes_ok (s_data s) = true -> udta_rt_wf v = true.
Proof. exact (wf_of_post_fuel _ _ dec_udta_fuel_post). Qed.

Theorem udta_reencode_fixpoint :
  cont_fixpoint_law_s dec_udta_fuel enc_udta udta_size udta_fuel (fun _ => True).
Proof.
  apply (cont_fixpoint_of_post_s _ _ _ _ _ _ _ _ (udta_roundtrip Dbg)).
  intros fuel m sz. eapply post_conseq; [| apply dec_udta_fuel_post]. intros v Hv _. exact Hv.
Qed.

(** ** trak *)
Definition trak_good (v : trak) : Prop := mdia_good (trak_mdia v).

Definition trak_rt_wf0 (v : trak) : bool :=
  tkhd_wf (trak_tkhd v)
  && match trak_edts v with Some x => edts_wf x | None => true end
  && match trak_meta v with Some x => meta_rt_wf x | None => true end
  && mdia_rt_wf0 (trak_mdia v).

Lemma trak_rt_wf_wf0 v : trak_rt_wf v = true -> trak_rt_wf0 v = true.
Proof.
  unfold trak_rt_wf, trak_rt_wf0. intros H. apply andb_true_iff in H as [H H3].
  now rewrite H, (mdia_rt_wf_wf0 _ H3).
Qed.

Definition trak_acc_ok (a : trak_acc) : Prop :=
  let '(tk, ed, me, md) := a in
  optP (wfP tkhd_wf) tk /\ optP (wfP edts_wf) ed /\ optP (wfP meta_rt_wf) me
  /\ optP (fun x => mdia_good x -> mdia_rt_wf0 x = true) md.

Lemma trak_dispatch_post m f name s a : trak_acc_ok a -> post (trak_dispatch m f name s a) trak_acc_ok.
Proof.
  destruct a as [[[tk ed] me] md]. intros (H1 & H2 & H3 & H4).
  assert (Ha : trak_acc_ok (tk, ed, me, md)) by (repeat split; assumption).
  destruct name; try (apply post_skip_ret; exact Ha); cbn [trak_dispatch].
  all: lazymatch goal with
       | |- post (bind (dec_tkhd _ _) _) _ => eapply post_child; [apply dec_tkhd_post|]
       | |- post (bind (dec_edts_fuel _ _ _) _) _ => eapply post_child; [apply dec_edts_fuel_post|]
       | |- post (bind (dec_meta_fuel _ _ _) _) _ => eapply post_child; [apply dec_meta_fuel_post|]
       | |- post (bind (dec_mdia_fuel _ _ _) _) _ => eapply post_child; [apply dec_mdia_fuel_post|]
       end.
  all: intros x Hx; cbn [trak_acc_ok optP]; repeat split; assumption.
Qed.

Lemma dec_trak_fuel_post fuel m size :
  post (dec_trak_fuel fuel m size) (fun v => trak_good v -> trak_rt_wf0 v = true).
Proof.
  unfold dec_trak_fuel. apply (post_container trak_acc_ok).
  - intros f name s acc. apply trak_dispatch_post.
  - cbn. tauto.
  - intros start [[[tk ed] me] md] (H1 & H2 & H3 & H4).
    destruct tk as [tk|]; [|apply post_throw]. destruct md as [md|]; [|apply post_throw].
    apply post_finish. intros Hg. unfold trak_good in Hg. unfold trak_rt_wf0.
    cbn [trak_tkhd trak_edts trak_meta trak_mdia optP] in *. unfold wfP in *.
    rewrite H1, (optP_wf _ _ H2), (optP_wf _ _ H3), (H4 Hg). reflexivity.
Qed.

Lemma dec_trak_fuel_wf : forall fuel m size s v s', run (dec_trak_fuel fuel m size) s = (Ok v, s') ->
  bytes_ok (s_view s) = true -> bytes_ok (s_data s) = true -> trak_good v -> trak_rt_wf0 v = true.
Proof. exact (wf_of_post_fuel _ _ dec_trak_fuel_post). Qed.

Definition trak_lib_payload (v : trak) : bytes :=
  iso_box 0x746b6864 (IsoTkhd.iso_tkhd_payload (trak_tkhd v)) ++
  IsoCont.iso_opt (fun x => iso_box 0x65647473 (IsoEdts.iso_edts_payload x)) (trak_edts v) ++
  iso_box 0x6d646961 (mdia_lib_payload (trak_mdia v)) ++
  IsoCont.iso_opt (fun x => iso_box 0x6d657461 (IsoMetaBox.iso_meta_payload x)) (trak_meta v).

Definition trak_i_mdia0 := ci_of mdia_size 0x6d646961 mdia_lib_payload (fun _ => 16%nat) trak_u_mdia.

Definition trak_items0 (v : trak) : list (citem (trak_acc)) :=
  [trak_i_tkhd (trak_tkhd v)] ++
  ci_opt trak_i_edts (trak_edts v) ++
  [trak_i_mdia0 (trak_mdia v)] ++
  ci_opt trak_i_meta (trak_meta v).

Ltac trak_unfold_i0 := unfold trak_i_tkhd, trak_i_edts, trak_i_mdia0, trak_i_meta in *.

Lemma trak_items0_iso v : flat_map ci_iso (trak_items0 v) = trak_lib_payload v.
Proof.
  unfold trak_lib_payload, trak_items0. rewrite ?flat_map_app, ?flat_map_ci_iso_map. trak_unfold_i0.
  destruct (trak_edts v), (trak_meta v);
    cbn [flat_map ci_opt app IsoCont.iso_opt ci_iso ci_of ci_code ci_pl]; rewrite <- ?app_assoc, ?app_nil_r; reflexivity.
Qed.

Lemma trak_items0_size v : trak_size v = 8 + ci_total (trak_items0 v).
Proof.
  unfold trak_size, trak_items0. rewrite ?ci_total_app.
  trak_unfold_i0.
  destruct (trak_edts v), (trak_meta v);
    unfold ci_total; cbn [ci_opt map ci_of ci_size sumN fold_right]; hdr_consts; lia.
Qed.

Lemma trak_items0_fuel v : (length (trak_items0 v) + ci_maxneed (trak_items0 v) <= trak_fuel v)%nat.
Proof.
  unfold trak_fuel, trak_items0. rewrite ?app_length, ?ci_maxneed_app, ?map_length.
  trak_unfold_i0.
  destruct (trak_edts v), (trak_meta v);
    cbn [length ci_opt ci_maxneed ci_need ci_of]; lia.
Qed.

Lemma trak_items0_ok m v : trak_rt_wf0 v = true -> trak_size v < U32 ->
  Forall (ci_ok_s (trak_dispatch m)) (trak_items0 v).
Proof.
  intros H Hs. apply Forall_ci_ok_total; [| rewrite trak_items0_size in Hs; clear -Hs; lia].
  unfold trak_rt_wf0 in H. split_andb.
  unfold trak_items0. repeat apply Forall_app_intro.
  - apply Forall_one. ci_leaf_t (cont_of_leaf _ _ _ _ _ _ RtTkhd.tkhd_roundtrip) trak_bt_tkhd.
  - apply Forall_ci_opt. intros x Hx. rewrite Hx in *. ci_leaf_t edts_roundtrip trak_bt_edts.
  - apply Forall_one. ci_leaf_t (mdia_roundtrip0 Dbg) trak_bt_mdia.
  - apply Forall_ci_opt. intros x Hx. rewrite Hx in *. ci_leaf_ts meta_roundtrip trak_bt_meta.
Qed.

Lemma trak_payload_len0 v : trak_rt_wf0 v = true -> trak_size v < U32 ->
  lenN (trak_lib_payload v) + 8 = trak_size v.
Proof.
  intros H Hs. apply (cont_payload_len_s (trak_dispatch Dbg) (trak_items0 v)).
  - now apply trak_items0_ok.
  - apply trak_items0_iso.
  - apply trak_items0_size.
Qed.

Ltac trak_child0 me Hs :=
  lazymatch goal with
  | |- wspec (enc_tkhd _) _ _ => apply (cont_rt_wspec _ _ _ _ _ _ _ _ (cont_of_leaf _ _ _ _ _ _ RtTkhd.tkhd_roundtrip))
  | |- wspec (enc_edts _) _ _ => apply (cont_rt_wspec _ _ _ _ _ _ _ _ edts_roundtrip)
  | |- wspec (enc_mdia _ _) _ _ => apply (cont_rt_wspec _ _ _ _ _ _ _ _ (mdia_roundtrip0 me))
  | |- wspec (enc_meta _) _ _ => apply (cont_rt_wspec_s _ _ _ _ _ _ _ _ meta_roundtrip)
  end;
  [ assumption | let Hs' := fresh "Hs" in pose proof Hs as Hs'; unfold trak_size in Hs'; cont_size_tac Hs' ].

Ltac trak_opt0 me Hs :=
  let x := fresh "x" in let Hx := fresh "Hx" in
  apply wspec_opt_child; intros x Hx; unfold trak_size in Hs; rewrite Hx in *; eexists; trak_child0 me Hs.

Lemma trak_enc0 (me : mode) v : trak_rt_wf0 v = true -> trak_size v < U32 ->
  wspec (enc_trak me v) (trak_size v) (be 4 (trak_size v) ++ be 4 0x7472616b ++ trak_lib_payload v).
Proof.
  intros H Hs. rewrite <- trak_code. unfold trak_rt_wf0 in H. split_andb.
  unfold enc_trak, trak_lib_payload.
  eapply wspec_out.
  - wspec_go.
    + trak_child0 me Hs.
    + trak_opt0 me Hs.
    + trak_child0 me Hs.
    + trak_opt0 me Hs.
  - unfold IsoCont.iso_all. rewrite <- ?app_assoc, ?app_nil_r. reflexivity.
Qed.

Lemma trak_dec0 v fuel m d l p post : trak_rt_wf0 v = true -> trak_size v < U32 ->
  (trak_fuel v <= fuel)%nat -> p + trak_size v < 2 ^ 63 ->
  dropN (p + 8) d = trak_lib_payload v ++ post ->
  run (dec_trak_fuel fuel m (trak_size v)) (mkStream d l (p + 8) (trak_lib_payload v ++ post))
  = (Ok v, mkStream d l (p + trak_size v) post).
Proof.
  intros H Hs Hf Hp Hd. unfold dec_trak_fuel.
  rewrite (cont_dec_items_s m _ (trak_size v) (trak_dispatch m) (trak_items0 v) (trak_lib_payload v));
    [ | now apply trak_items0_ok | apply trak_items0_iso | apply trak_items0_size | exact Hp
      | pose proof (trak_items0_fuel v); lia | exact Hd ].
  unfold trak_items0. rewrite ?ci_fold_app.
  destruct v as [f_tkhd f_edts f_meta f_mdia].
  cbn [trak_tkhd trak_edts trak_meta trak_mdia] in *.
  trak_unfold_i0.
  destruct f_edts, f_meta;
    cbn [ci_fold fold_left ci_opt ci_of ci_upd trak_u_tkhd trak_u_edts trak_u_mdia trak_u_meta];
    cbn [ci_fold fold_left ci_opt ci_of ci_upd trak_u_tkhd trak_u_edts trak_u_mdia trak_u_meta app];
    apply run_cont_finish; (clear -Hp; lia).
Qed.

Theorem trak_roundtrip0 (me : mode) :
  cont_roundtrip_s trak_rt_wf0 trak_size 0x7472616b (enc_trak me) dec_trak_fuel trak_lib_payload trak_fuel.
Proof.
  apply cont_roundtrip_s_intro.
  - apply (trak_enc0 me).
  - apply trak_payload_len0.
  - intros; now apply trak_dec0.
Qed.

Theorem trak_reencode_fixpoint me :
  cont_fixpoint_law_s dec_trak_fuel (enc_trak me) trak_size trak_fuel trak_good.
Proof. exact (cont_fixpoint_of_post_s _ _ _ _ _ _ _ _ (trak_roundtrip0 me) dec_trak_fuel_post). Qed.

(** ** moov *)
Definition moov_good (v : moov) : Prop := Forall trak_good (moov_traks v).

Definition moov_rt_wf0 (v : moov) : bool :=
  mvhd_wf (moov_mvhd v)
  && match moov_meta v with Some x => meta_rt_wf x | None => true end
  && match moov_mvex v with Some x => mvex_rt_wf x | None => true end
  && forallb trak_rt_wf0 (moov_traks v)
  && match moov_udta v with Some x => udta_rt_wf x | None => true end.

Lemma moov_rt_wf_wf0 v : moov_rt_wf v = true -> moov_rt_wf0 v = true.
Proof.
  unfold moov_rt_wf, moov_rt_wf0. intros H. apply andb_true_iff in H as [H H5]. apply andb_true_iff in H as [H H4].
  now rewrite H, (forallb_impl _ _ _ trak_rt_wf_wf0 H4), H5.
Qed.

Definition moov_acc_ok (a : moov_acc) : Prop :=
  let '(mh, me, ud, mx, tr) := a in
  optP (wfP mvhd_wf) mh /\ optP (wfP meta_rt_wf) me /\ optP (wfP udta_rt_wf) ud /\ optP (wfP mvex_rt_wf) mx
  /\ Forall (fun x => trak_good x -> trak_rt_wf0 x = true) tr.

Lemma moov_dispatch_post m f name s a : moov_acc_ok a -> post (moov_dispatch m f name s a) moov_acc_ok.
Proof.
  destruct a as [[[[mh me] ud] mx] tr]. intros (H1 & H2 & H3 & H4 & H5).
  assert (Ha : moov_acc_ok (mh, me, ud, mx, tr)) by (repeat split; assumption).
  destruct name; try (apply post_skip_ret; exact Ha); cbn [moov_dispatch].
  all: lazymatch goal with
       | |- post (bind (dec_mvhd _ _) _) _ => eapply post_child; [apply dec_mvhd_post|]
       | |- post (bind (dec_meta_fuel _ _ _) _) _ => eapply post_child; [apply dec_meta_fuel_post|]
       | |- post (bind (dec_mvex_fuel _ _ _) _) _ => eapply post_child; [apply dec_mvex_fuel_post|]
       | |- post (bind (dec_trak_fuel _ _ _) _) _ => eapply post_child; [apply dec_trak_fuel_post|]
       | |- post (bind (dec_udta_fuel _ _ _) _) _ => eapply post_child; [apply dec_udta_fuel_post|]
       end.
  all: intros x Hx; cbn [moov_acc_ok optP]; repeat split; try assumption.
  apply Forall_app_intro; [assumption | now apply Forall_one].
Qed.

Lemma dec_moov_fuel_post fuel m size :
  post (dec_moov_fuel fuel m size) (fun v => moov_good v -> moov_rt_wf0 v = true).
Proof.
  unfold dec_moov_fuel. apply (post_container moov_acc_ok).
  - intros f name s acc. apply moov_dispatch_post.
  - cbn. repeat split; auto.
  - intros start [[[[mh me] ud] mx] tr] (H1 & H2 & H3 & H4 & H5).
    destruct mh as [mh|]; [|apply post_throw].
    apply post_finish. intros Hg. unfold moov_good in Hg. unfold moov_rt_wf0.
    cbn [moov_mvhd moov_meta moov_mvex moov_traks moov_udta optP] in *. unfold wfP in *.
    rewrite H1, (optP_wf _ _ H2), (optP_wf _ _ H3), (optP_wf _ _ H4). cbn [andb]. rewrite andb_true_r.
    clear -H5 Hg. induction H5 as [|x t Hx _ IH]; [reflexivity|]. cbn [forallb].
    rewrite (Hx (Forall_inv Hg)), (IH (Forall_inv_tail Hg)). reflexivity.
Qed.

Lemma dec_moov_fuel_wf : forall fuel m size s v s', run (dec_moov_fuel fuel m size) s = (Ok v, s') ->
  bytes_ok (s_view s) = true -> bytes_ok (s_data s) = true -> moov_good v -> moov_rt_wf0 v = true.
Proof. exact (wf_of_post_fuel _ _ dec_moov_fuel_post). Qed.

Definition moov_lib_payload (v : moov) : bytes :=
  iso_box 0x6d766864 (IsoMoov.iso_mvhd_payload (moov_mvhd v)) ++
  IsoCont.iso_all (fun x => iso_box 0x7472616b (trak_lib_payload x)) (moov_traks v) ++
  IsoCont.iso_opt (fun x => iso_box 0x6d766578 (IsoMvex.iso_mvex_payload x)) (moov_mvex v) ++
  IsoCont.iso_opt (fun x => iso_box 0x6d657461 (IsoMetaBox.iso_meta_payload x)) (moov_meta v) ++
  IsoCont.iso_opt (fun x => iso_box 0x75647461 (IsoUdta.iso_udta_payload x)) (moov_udta v).

Definition moov_i_traks0 := ci_of trak_size 0x7472616b trak_lib_payload trak_fuel moov_u_traks.

Definition moov_items0 (v : moov) : list (citem (moov_acc)) :=
  [moov_i_mvhd (moov_mvhd v)] ++
  map moov_i_traks0 (moov_traks v) ++
  ci_opt moov_i_mvex (moov_mvex v) ++
  ci_opt moov_i_meta (moov_meta v) ++
  ci_opt moov_i_udta (moov_udta v).

Ltac moov_unfold_i0 := unfold moov_i_mvhd, moov_i_traks0, moov_i_mvex, moov_i_meta, moov_i_udta in *.

Lemma moov_items0_iso v : flat_map ci_iso (moov_items0 v) = moov_lib_payload v.
Proof.
  unfold moov_lib_payload, moov_items0. rewrite ?flat_map_app, ?flat_map_ci_iso_map. moov_unfold_i0.
  destruct (moov_mvex v), (moov_meta v), (moov_udta v);
    cbn [flat_map ci_opt app IsoCont.iso_opt ci_iso ci_of ci_code ci_pl]; rewrite <- ?app_assoc, ?app_nil_r; reflexivity.
Qed.

Lemma moov_items0_size v : moov_size v = 8 + ci_total (moov_items0 v).
Proof.
  unfold moov_size, moov_items0. rewrite ?ci_total_app.
  rewrite (ci_total_map moov_i_traks0 trak_size) by reflexivity.
  moov_unfold_i0.
  destruct (moov_mvex v), (moov_meta v), (moov_udta v);
    unfold ci_total; cbn [ci_opt map ci_of ci_size sumN fold_right]; hdr_consts; lia.
Qed.

Lemma moov_items0_fuel v : (length (moov_items0 v) + ci_maxneed (moov_items0 v) <= moov_fuel v)%nat.
Proof.
  unfold moov_fuel, moov_items0. rewrite ?app_length, ?ci_maxneed_app, ?map_length.
  rewrite (ci_maxneed_map_list_max moov_i_traks0 (moov_traks v) trak_fuel) by reflexivity.
  moov_unfold_i0.
  destruct (moov_mvex v), (moov_meta v), (moov_udta v);
    cbn [length ci_opt ci_maxneed ci_need ci_of]; unfold mvex_fuel in *; lia.
Qed.

Lemma moov_items0_ok m v : moov_rt_wf0 v = true -> moov_size v < U32 ->
  Forall (ci_ok_s (moov_dispatch m)) (moov_items0 v).
Proof.
  intros H Hs. apply Forall_ci_ok_total; [| rewrite moov_items0_size in Hs; clear -Hs; lia].
  unfold moov_rt_wf0 in H. split_andb.
  unfold moov_items0. repeat apply Forall_app_intro.
  - apply Forall_one. ci_leaf_t (cont_of_leaf _ _ _ _ _ _ mvhd_roundtrip_iso) moov_bt_mvhd.
  - apply Forall_ci_map. intros x Hx.
    match goal with Hf : forallb _ _ = true |- _ => pose proof (forallb_In _ _ _ Hf Hx) end.
    ci_leaf_ts (trak_roundtrip0 Dbg) moov_bt_traks.
  - apply Forall_ci_opt. intros x Hx. rewrite Hx in *. ci_leaf_t (mvex_roundtrip Dbg) moov_bt_mvex.
  - apply Forall_ci_opt. intros x Hx. rewrite Hx in *. ci_leaf_ts meta_roundtrip moov_bt_meta.
  - apply Forall_ci_opt. intros x Hx. rewrite Hx in *. ci_leaf_ts (udta_roundtrip Dbg) moov_bt_udta.
Qed.

Lemma moov_payload_len0 v : moov_rt_wf0 v = true -> moov_size v < U32 ->
  lenN (moov_lib_payload v) + 8 = moov_size v.
Proof.
  intros H Hs. apply (cont_payload_len_s (moov_dispatch Dbg) (moov_items0 v)).
  - now apply moov_items0_ok.
  - apply moov_items0_iso.
  - apply moov_items0_size.
Qed.

Ltac moov_child0 me Hs :=
  lazymatch goal with
  | |- wspec (enc_mvhd _) _ _ => apply (cont_rt_wspec _ _ _ _ _ _ _ _ (cont_of_leaf _ _ _ _ _ _ mvhd_roundtrip_iso))
  | |- wspec (enc_trak _ _) _ _ => apply (cont_rt_wspec_s _ _ _ _ _ _ _ _ (trak_roundtrip0 me))
  | |- wspec (enc_mvex _) _ _ => apply (cont_rt_wspec _ _ _ _ _ _ _ _ (mvex_roundtrip Dbg))
  | |- wspec (enc_meta _) _ _ => apply (cont_rt_wspec_s _ _ _ _ _ _ _ _ meta_roundtrip)
  | |- wspec (enc_udta _) _ _ => apply (cont_rt_wspec_s _ _ _ _ _ _ _ _ (udta_roundtrip Dbg))
  end;
  [ assumption | let Hs' := fresh "Hs" in pose proof Hs as Hs'; unfold moov_size in Hs'; cont_size_tac Hs' ].

Ltac moov_opt0 me Hs :=
  let x := fresh "x" in let Hx := fresh "Hx" in
  apply wspec_opt_child; intros x Hx; unfold moov_size in Hs; rewrite Hx in *; eexists; moov_child0 me Hs.

Lemma moov_enc0 (me : mode) v : moov_rt_wf0 v = true -> moov_size v < U32 ->
  wspec (enc_moov me v) (moov_size v) (be 4 (moov_size v) ++ be 4 0x6d6f6f76 ++ moov_lib_payload v).
Proof.
  intros H Hs. rewrite <- moov_code. unfold moov_rt_wf0 in H. split_andb.
  unfold enc_moov, moov_lib_payload.
  eapply wspec_out.
  - wspec_go.
    + moov_child0 me Hs.
    + apply (wspec_wr_each _ (fun x => iso_box 0x7472616b (trak_lib_payload x))). intros x Hx. eexists.
      match goal with Hf : forallb _ _ = true |- _ => pose proof (forallb_In _ _ _ Hf Hx) end.
      pose proof (sumN_map_In_le trak_size _ _ Hx) as Hle.
      lazymatch goal with |- wspec (enc_trak _ _) _ _ => apply (cont_rt_wspec_s _ _ _ _ _ _ _ _ (trak_roundtrip0 me)) end; [assumption|].
      unfold moov_size in Hs. clear -Hs Hle.
      repeat match type of Hs with context [match ?o with Some _ => _ | None => _ end] => destruct o end; hdr_consts; lia.
    + moov_opt0 me Hs.
    + moov_opt0 me Hs.
    + moov_opt0 me Hs.
  - unfold IsoCont.iso_all. rewrite <- ?app_assoc, ?app_nil_r. reflexivity.
Qed.

Lemma moov_fold_traks0 l a0 a1 a2 a3 a4 :
  ci_fold (map moov_i_traks0 l) (a0, a1, a2, a3, a4) = (a0, a1, a2, a3, a4 ++ l).
Proof.
  revert a4. induction l as [|x t IH]; intros a4; cbn [map ci_fold fold_left].
  - now rewrite app_nil_r.
  - unfold ci_fold in IH. cbn [moov_i_traks0 ci_of ci_upd moov_u_traks]. rewrite IH, <- app_assoc. reflexivity.
Qed.

Lemma moov_dec0 v fuel m d l p post : moov_rt_wf0 v = true -> moov_size v < U32 ->
  (moov_fuel v <= fuel)%nat -> p + moov_size v < 2 ^ 63 ->
  dropN (p + 8) d = moov_lib_payload v ++ post ->
  run (dec_moov_fuel fuel m (moov_size v)) (mkStream d l (p + 8) (moov_lib_payload v ++ post))
  = (Ok v, mkStream d l (p + moov_size v) post).
Proof.
  intros H Hs Hf Hp Hd. unfold dec_moov_fuel.
  rewrite (cont_dec_items_s m _ (moov_size v) (moov_dispatch m) (moov_items0 v) (moov_lib_payload v));
    [ | now apply moov_items0_ok | apply moov_items0_iso | apply moov_items0_size | exact Hp
      | pose proof (moov_items0_fuel v); lia | exact Hd ].
  unfold moov_items0. rewrite ?ci_fold_app.
  destruct v as [f_mvhd f_meta f_mvex f_traks f_udta].
  cbn [moov_mvhd moov_meta moov_mvex moov_traks moov_udta] in *.
  unfold moov_i_mvhd, moov_i_mvex, moov_i_meta, moov_i_udta in *.
  destruct f_mvex, f_meta, f_udta;
    cbn [ci_fold fold_left ci_opt ci_of ci_upd moov_u_mvhd moov_u_traks moov_u_mvex moov_u_meta moov_u_udta];
    rewrite ?moov_fold_traks0; cbn [ci_fold fold_left ci_opt ci_of ci_upd moov_u_mvhd moov_u_traks moov_u_mvex moov_u_meta moov_u_udta app];
    apply run_cont_finish; (clear -Hp; lia).
Qed.

Theorem moov_roundtrip0 (me : mode) :
  cont_roundtrip_s moov_rt_wf0 moov_size 0x6d6f6f76 (enc_moov me) dec_moov_fuel moov_lib_payload moov_fuel.
Proof.
  apply cont_roundtrip_s_intro.
  - apply (moov_enc0 me).
  - apply moov_payload_len0.
  - intros; now apply moov_dec0.
Qed.

Theorem moov_reencode_fixpoint me :
  cont_fixpoint_law_s dec_moov_fuel (enc_moov me) moov_size moov_fuel moov_good.
Proof. exact (cont_fixpoint_of_post_s _ _ _ _ _ _ _ _ (moov_roundtrip0 me) dec_moov_fuel_post). Qed.

(** ** The round-trip predicates of Proofs/RtXxx.v, exactly: [xxx_rt_wf] is [xxx_rt_wf0] plus ISO 8.7.2 for the urls *)
Definition minf_url_iso (v : minf) : bool := dinf_wf (minf_dinf v).
Definition mdia_url_iso (v : mdia) : bool := minf_url_iso (mdia_minf v).
Definition trak_url_iso (v : trak) : bool := mdia_url_iso (trak_mdia v).
Definition moov_url_iso (v : moov) : bool := forallb trak_url_iso (moov_traks v).

Lemma minf_rt_wf_split v : minf_rt_wf v = minf_rt_wf0 v && minf_url_iso v.
Proof.
  unfold minf_rt_wf, minf_rt_wf0, minf_url_iso.
  destruct (dinf_wf (minf_dinf v)) eqn:E; [rewrite (dinf_wf_wf0 _ E)|];
    destruct (match minf_vmhd v with Some x => vmhd_wf x | None => true end),
      (match minf_smhd v with Some x => smhd_wf x | None => true end), (stbl_rt_wf (minf_stbl v)),
      (dinf_wf0 (minf_dinf v)); reflexivity.
Qed.

Lemma mdia_rt_wf_split v : mdia_rt_wf v = mdia_rt_wf0 v && mdia_url_iso v.
Proof. unfold mdia_rt_wf, mdia_rt_wf0, mdia_url_iso. rewrite minf_rt_wf_split. now rewrite !andb_assoc. Qed.

Lemma trak_rt_wf_split v : trak_rt_wf v = trak_rt_wf0 v && trak_url_iso v.
Proof. unfold trak_rt_wf, trak_rt_wf0, trak_url_iso. rewrite mdia_rt_wf_split. now rewrite !andb_assoc. Qed.

Lemma forallb_andb {A} (f g : A -> bool) l : forallb (fun x => f x && g x) l = forallb f l && forallb g l.
Proof.
  induction l as [|x t IH]; [reflexivity|]. cbn [forallb]. rewrite IH.
  destruct (f x), (g x), (forallb f t), (forallb g t); reflexivity.
Qed.

Lemma moov_rt_wf_split v : moov_rt_wf v = moov_rt_wf0 v && moov_url_iso v.
Proof.
  unfold moov_rt_wf, moov_rt_wf0, moov_url_iso.
  assert (E : forallb trak_rt_wf (moov_traks v)
              = forallb trak_rt_wf0 (moov_traks v) && forallb trak_url_iso (moov_traks v)).
  { rewrite <- forallb_andb. induction (moov_traks v) as [|x t IH]; [reflexivity|].
    cbn [forallb]. now rewrite IH, trak_rt_wf_split. }
  rewrite E.
  destruct (mvhd_wf (moov_mvhd v)), (match moov_meta v with Some x => meta_rt_wf x | None => true end),
    (match moov_mvex v with Some x => mvex_rt_wf x | None => true end), (forallb trak_rt_wf0 (moov_traks v)),
    (forallb trak_url_iso (moov_traks v)), (match moov_udta v with Some x => udta_rt_wf x | None => true end);
    reflexivity.
Qed.

(** the statements of the task for these four: with ISO-conformant urls the decoded value is [xxx_rt_wf] *)
Lemma dec_minf_fuel_rt_wf : forall fuel m size s v s', run (dec_minf_fuel fuel m size) s = (Ok v, s') ->
  bytes_ok (s_view s) = true -> bytes_ok (s_data s) = true -> minf_good v -> minf_url_iso v = true -> minf_rt_wf v = true.
Proof. intros fuel m size s v s' E Hv Hd Hg Hu. now rewrite minf_rt_wf_split, (dec_minf_fuel_wf _ _ _ _ _ _ E Hv Hd Hg), Hu. Qed.
Lemma dec_mdia_fuel_rt_wf : forall fuel m size s v s', run (dec_mdia_fuel fuel m size) s = (Ok v, s') ->
  bytes_ok (s_view s) = true -> bytes_ok (s_data s) = true -> mdia_good v -> mdia_url_iso v = true -> mdia_rt_wf v = true.
Proof. intros fuel m size s v s' E Hv Hd Hg Hu. now rewrite mdia_rt_wf_split, (dec_mdia_fuel_wf _ _ _ _ _ _ E Hv Hd Hg), Hu. Qed.
Lemma dec_trak_fuel_rt_wf : forall fuel m size s v s', run (dec_trak_fuel fuel m size) s = (Ok v, s') ->
  bytes_ok (s_view s) = true -> bytes_ok (s_data s) = true -> trak_good v -> trak_url_iso v = true -> trak_rt_wf v = true.
Proof. intros fuel m size s v s' E Hv Hd Hg Hu. now rewrite trak_rt_wf_split, (dec_trak_fuel_wf _ _ _ _ _ _ E Hv Hd Hg), Hu. Qed.
Lemma dec_moov_fuel_rt_wf : forall fuel m size s v s', run (dec_moov_fuel fuel m size) s = (Ok v, s') ->
  bytes_ok (s_view s) = true -> bytes_ok (s_data s) = true -> moov_good v -> moov_url_iso v = true -> moov_rt_wf v = true.
Proof. intros fuel m size s v s' E Hv Hd Hg Hu. now rewrite moov_rt_wf_split, (dec_moov_fuel_wf _ _ _ _ _ _ E Hv Hd Hg), Hu. Qed.

(** ** Where a round-trip predicate is FALSE of a decodable value: concrete bytes

    (1) [minf_rt_wf] (hence [mdia_rt_wf], [trak_rt_wf], [moov_rt_wf]): a url box with flags 0 and no location string
    (against ISO 8.7.2; DecWfG2.v).  The decoded minf is not [minf_rt_wf]; re-encoding gives the input bytes back and they
    decode to the same value: the predicate is over-strict for this purpose, not the library wrong ([minf_reencode_fixpoint]
    has no hypothesis about urls). *)
Definition minf_url_bytes : bytes :=
  [0;0;0;136; 109;105;110;102;
     0;0;0;36; 100;105;110;102;  0;0;0;28; 100;114;101;102; 0;0;0;0; 0;0;0;1;  0;0;0;12; 117;114;108;32; 0;0;0;0;
     0;0;0;92; 115;116;98;108;
       0;0;0;16; 115;116;115;100; 0;0;0;0; 0;0;0;0;
       0;0;0;16; 115;116;116;115; 0;0;0;0; 0;0;0;0;
       0;0;0;16; 115;116;115;99; 0;0;0;0; 0;0;0;0;
       0;0;0;20; 115;116;115;122; 0;0;0;0; 0;0;0;0; 0;0;0;0;
       0;0;0;16; 115;116;99;111; 0;0;0;0; 0;0;0;0].
Definition minf_url_v : minf :=
  mkMinf None None (mkDinf (mkDref 0 0 (Some (mkUrl 0 0 []))))
         (mkStbl stsd_default stts_default None None stsc_default stsz_default (Some stco_default) None).

Example minf_url_not_rt_wf : forall m,
  bytes_ok minf_url_bytes = true
  /\ fst (run (dec_minf_fuel 20 m 136) (stream_at minf_url_bytes 8)) = Ok minf_url_v
  /\ minf_rt_wf minf_url_v = false /\ minf_rt_wf0 minf_url_v = true
  /\ wout (enc_minf m minf_url_v) = minf_url_bytes
  /\ fst (run (dec_minf_fuel 20 m (minf_size minf_url_v)) (stream_at (wout (enc_minf m minf_url_v)) 8)) = Ok minf_url_v.
Proof. intros []; vm_compute; repeat split; reflexivity. Qed.

(** (2) stsd: [stsd_rt_wf] demands at most one sample entry, and that is TRUE of every decoded value: [read_box]
    ignores entry_count and reads ONE entry.  A box with two entries (vp09 then tx3g, entry_count = 2) decodes to
    the first alone — the second entry is lost on input, a finding about reading, not about this property: re-encoding the
    decoded value (entry_count = 1, 122 bytes instead of 168) is a fixpoint. *)
Definition stsd_two_bytes : bytes :=
  [0;0;0;168; 115;116;115;100; 0;0;0;0; 0;0;0;2] ++ wout (enc_vp09 vp09_default) ++ wout (enc_tx3g tx3g_default).
Definition stsd_two_v : stsd := mkStsd 0 0 None None (Some vp09_default) None None.

Example stsd_second_entry_dropped : forall m,
  bytes_ok stsd_two_bytes = true
  /\ run (dec_stsd_fuel 5 m 168) (stream_at stsd_two_bytes 8) = (Ok stsd_two_v, stream_at stsd_two_bytes 168)
  /\ stsd_rt_wf stsd_two_v = true
  /\ wfin (enc_stsd m stsd_two_v) = Ok 122
  /\ fst (run (dec_stsd_fuel 5 m 122) (stream_at (wout (enc_stsd m stsd_two_v)) 8)) = Ok stsd_two_v.
Proof. intros []; vm_compute; repeat split; reflexivity. Qed.

(** (3) the hypothesis [stsd_good] (and so [stbl_good] ... [moov_good]) is needed: an stsd whose mp4a holds the esds of
    DecWfG3.v with samplingFrequencyIndex 15 (finding D95).  The decoded value is not [stsd_rt_wf]; re-encoding SUCCEEDS
    in both build modes and the re-encoded bytes decode to a DIFFERENT value (channel configuration 1 becomes 0): a
    genuine defect of the library (the encoder has no form for index 15), already known. *)
Definition stsd_f15_bytes : bytes :=
  [0;0;0;94; 115;116;115;100; 0;0;0;0; 0;0;0;1;
   0;0;0;78; 109;112;52;97; 0;0;0;0;0;0; 0;1; 0;0;0;0;0;0;0;0; 0;2; 0;16; 0;0;0;0; 187;128;0;0] ++ esds_f15_bytes.
Definition stsd_f15_v (chan : N) : stsd :=
  mkStsd 0 0 None None None (Some (mkMp4a 1 2 16 3145728000 (Some (esds_f15_v chan)))) None.

Example stsd_f15_not_fixpoint : forall m m',
  bytes_ok stsd_f15_bytes = true
  /\ fst (run (dec_stsd_fuel 5 m 94) (stream_at stsd_f15_bytes 8)) = Ok (stsd_f15_v 1)
  /\ stsd_rt_wf (stsd_f15_v 1) = false
  /\ wfin (enc_stsd m (stsd_f15_v 1)) = Ok (stsd_size (stsd_f15_v 1))
  /\ fst (run (dec_stsd_fuel 5 m' (stsd_size (stsd_f15_v 1))) (stream_at (wout (enc_stsd m (stsd_f15_v 1))) 8))
     = Ok (stsd_f15_v 0)
  /\ stsd_f15_v 0 <> stsd_f15_v 1.
Proof. intros [] []; vm_compute; repeat split; try reflexivity; discriminate. Qed.

(** (4) meta: [meta_rt_wf] adds "the raw children of the Unknown shape carry the type their code reads as" to [meta_wf];
    [meta_roundtrip_refuted] (RtMeta.v) shows it is needed for the round trip of an arbitrary value, but it is TRUE of every
    decoded value ([dec_meta_fuel_wf]): a decoded type is [BoxType::from(u32)] of the code read ([bt_canon]), which is a
    fixpoint of code -> type -> code -> type.  Likewise [stbl_rt_wf] (a chunk-offset table is present: the reader rejects a
    sample table without one) and [ilst_wf] (keys distinct: [HashMap::insert]) hold of every decoded value. *)

(** ** Summary (C04, second half, container part) *)
Theorem containers_reencode_fixpoint (me : mode) :
  cont_fixpoint_law dec_stsd_fuel (enc_stsd me) stsd_size (fun _ => 1%nat) stsd_good
  /\ cont_fixpoint_law dec_stbl_fuel (enc_stbl me) stbl_size (fun _ => 9%nat) stbl_good
  /\ cont_fixpoint_law dec_dinf_fuel (fun v => enc_dinf v) dinf_size (fun _ => 1%nat) (fun _ => True)
  /\ cont_fixpoint_law dec_minf_fuel (enc_minf me) minf_size (fun _ => 13%nat) minf_good
  /\ cont_fixpoint_law dec_mdia_fuel (enc_mdia me) mdia_size (fun _ => 16%nat) mdia_good
  /\ cont_fixpoint_law dec_edts_fuel enc_edts edts_size (fun _ => 0%nat) (fun _ => True)
  /\ cont_fixpoint_law dec_mvex_fuel enc_mvex mvex_size mvex_fuel (fun _ => True)
  /\ cont_fixpoint_law dec_traf_fuel enc_traf traf_size traf_fuel (fun _ => True)
  /\ cont_fixpoint_law dec_moof_fuel enc_moof moof_size moof_fuel (fun _ => True)
  /\ cont_fixpoint_law dec_ilst_fuel enc_ilst ilst_size ilst_fuel (fun _ => True)
  /\ cont_fixpoint_law_s dec_meta_fuel enc_meta meta_size meta_fuel (fun _ => True)
  /\ cont_fixpoint_law_s dec_udta_fuel enc_udta udta_size udta_fuel (fun _ => True)
  /\ cont_fixpoint_law_s dec_trak_fuel (enc_trak me) trak_size trak_fuel trak_good
  /\ cont_fixpoint_law_s dec_moov_fuel (enc_moov me) moov_size moov_fuel moov_good.
Proof.
  split; [apply stsd_reencode_fixpoint|]. split; [apply stbl_reencode_fixpoint|].
  split; [apply dinf_fuel_reencode_fixpoint|]. split; [apply minf_reencode_fixpoint|].
  split; [apply mdia_reencode_fixpoint|]. split; [apply edts_reencode_fixpoint|].
  split; [apply mvex_reencode_fixpoint|]. split; [apply traf_reencode_fixpoint|].
  split; [apply moof_reencode_fixpoint|]. split; [apply ilst_reencode_fixpoint|].
  split; [apply meta_reencode_fixpoint|]. split; [apply udta_reencode_fixpoint|].
  split; [apply trak_reencode_fixpoint|]. apply moov_reencode_fixpoint.
Qed.

Print Assumptions stsd_reencode_fixpoint.
Print Assumptions stbl_reencode_fixpoint.
Print Assumptions dinf_fuel_reencode_fixpoint.
Print Assumptions minf_reencode_fixpoint.
Print Assumptions mdia_reencode_fixpoint.
Print Assumptions edts_reencode_fixpoint.
Print Assumptions mvex_reencode_fixpoint.
Print Assumptions traf_reencode_fixpoint.
Print Assumptions moof_reencode_fixpoint.
Print Assumptions ilst_reencode_fixpoint.
Print Assumptions meta_reencode_fixpoint.
Print Assumptions udta_reencode_fixpoint.
Print Assumptions trak_reencode_fixpoint.
Print Assumptions moov_reencode_fixpoint.
Print Assumptions containers_reencode_fixpoint.
