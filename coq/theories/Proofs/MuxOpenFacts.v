(** * Writer-side facts the end-to-end theorem needs about every finished track
    (consequences of the writer invariant [twf_inv] and of the C13/C14 lemmas). *)
From MP4 Require Import MuxMoovDefs MuxMoovTables MuxProofs MuxInv MuxTotal.
From Coq Require Import Lia ZifyN ZifyNat ZifyBool FinFun.
Open Scope list_scope.
Open Scope N_scope.

Lemma Forall2_In_l {A B} (R : A -> B -> Prop) l1 l2 a :
  Forall2 R l1 l2 -> In a l1 -> exists b, In b l2 /\ R a b.
Proof.
  induction 1 as [|x y l1 l2 Hxy _ IH]; intros Hin; [destruct Hin|].
  destruct Hin as [->|Hin].
  - exists y. split; [now left|exact Hxy].
  - destruct (IH Hin) as (b & Hb & Hr). exists b. split; [now right|exact Hr].
Qed.

(** a constant sample size is stored in [stsz.sample_size] with an empty size list *)
Lemma mux_stsz_shape m base cfg ops cls f :
  run_mux m base cfg ops = Ok (cls, f) -> ops_typed ops = true ->
  forall tf, In tf (mf_tracks f) ->
    t_stsz_size (tf_tables tf) = 0 \/ t_stsz_sizes (tf_tables tf) = [].
Proof.
  intros H Hty tf Hin.
  destruct (run_mux_inv _ _ _ _ _ _ H Hty) as (done & _ & Hinv & Hfin & _).
  destruct (Forall2_In_l _ _ _ _ Hfin Hin) as (tg & Htg & -> & _).
  pose proof (tk_each _ _ _ _ _ Hinv) as Hall. rewrite Forall_forall in Hall.
  specialize (Hall tg Htg). unfold tg_inv in Hall.
  pose proof (twf_sizes _ _ _ _ _ _ _ Hall) as Hs. unfold sizes_inv in Hs.
  unfold final_of, tables_of. cbn [tf_tables t_stsz_size t_stsz_sizes].
  destruct (wc_is_fixed_sample_size (tw_c (fst tg))).
  - destruct Hs as (_ & _ & Hz & _). right. exact Hz.
  - destruct Hs as (Hz & _). left. exact Hz.
Qed.

(** the two shape facts [stbl_of_tfinal_wf] (MuxMoovTables.v) needs beyond [consistent] *)
Lemma mux_tables_shape m base cfg ops cls f :
  run_mux m base cfg ops = Ok (cls, f) -> ops_typed ops = true ->
  forall tf, In tf (mf_tracks f) ->
    stsz_shape (tf_tables tf) = true /\ co64_shape (tf_tables tf) = true.
Proof.
  intros H Hty tf Hin. split.
  - unfold stsz_shape. destruct (mux_stsz_shape _ _ _ _ _ _ H Hty tf Hin) as [E|E]; rewrite E.
    + reflexivity.
    + destruct (t_stsz_size (tf_tables tf) =? 0); reflexivity.
  - apply stco_xor_co64_shape.
    destruct (run_mux_inv _ _ _ _ _ _ H Hty) as (done & _ & _ & Hfin & _).
    destruct (Forall2_In_l _ _ _ _ Hfin Hin) as (tg & _ & -> & _).
    unfold final_of, tables_of. cbn [tf_tables t_stco t_co64].
    destruct (forallb (fun o => o <=? U32MAX) (wt_co64 (tw_t (fst tg)))); reflexivity.
Qed.

(** [ops_typed] and [history_fits] give [mux_pre] once the number of tracks is bounded *)
Lemma mux_pre_of base cfg ops cls :
  ops_typed ops = true -> history_fits base cfg ops cls = true -> lenN (added_confs ops) < U32MAX ->
  mux_pre base cfg ops.
Proof.
  intros Hty Hfit Hn. constructor.
  - unfold ops_typed in Hty. rewrite forallb_forall in Hty. apply Forall_forall. intros op Hop.
    specialize (Hty op Hop). destruct op as [c|id s]; [exact I|]. cbn [op_typedb op_typed] in *.
    apply andb_true_iff in Hty as [Ha _]. apply N.ltb_lt. exact Ha.
  - exact Hn.
  - unfold history_fits in Hfit. apply N.ltb_lt in Hfit. unfold U64.
    change (2 ^ 63) with 9223372036854775808 in Hfit. change (2 ^ 64) with 18446744073709551616. lia.
Qed.

Lemma nth_error_map_some {A B} (f : A -> B) l i a : nth_error l i = Some a -> nth_error (map f l) i = Some (f a).
Proof. intros H. rewrite nth_error_map, H. reflexivity. Qed.

Lemma nth_error_seq_some s n i : (i < n)%nat -> nth_error (seq s n) i = Some (s + i)%nat.
Proof.
  revert s i. induction n as [|n IH]; intros s i Hi; [lia|].
  destruct i as [|i]; cbn [seq nth_error]; [f_equal; lia|].
  rewrite IH by lia. f_equal. lia.
Qed.

(** track [i] (0-based, in [add_track] order) has id [i + 1] and an accepted configuration *)
Lemma mux_track_ids m base cfg ops cls f :
  mux_pre base cfg ops -> run_mux m base cfg ops = Ok (cls, f) ->
  forall i tf, nth_error (mf_tracks f) i = Some tf ->
    tf_track_id tf = N.of_nat i + 1 /\
    nth_error (added_confs ops) i = Some (tf_conf tf) /\
    conf_check (tf_conf tf) = Ok tt.
Proof.
  intros Hpre Hrun i tf Hi.
  destruct (c14_config_lemma _ _ _ _ _ _ Hpre Hrun) as (_ & Hconf & Hid & _).
  assert (Hlt : (i < length (mf_tracks f))%nat) by (apply nth_error_Some; rewrite Hi; discriminate).
  split.
  - pose proof (nth_error_map_some tf_track_id _ _ _ Hi) as H1. rewrite Hid in H1.
    rewrite nth_error_map, nth_error_seq_some in H1 by exact Hlt. cbn [option_map] in H1.
    injection H1 as H1. rewrite <- H1. lia.
  - pose proof (nth_error_map_some tf_conf _ _ _ Hi) as H1. rewrite Hconf in H1.
    split; [exact H1|].
    apply nth_error_In in H1. unfold added_confs in H1. apply in_flat_map in H1 as (op & _ & Hop).
    destruct op as [c|id s]; [|destruct Hop].
    destruct (conf_check c) as [[]| | |] eqn:E; cbn [is_ok] in Hop; try (destruct Hop; fail).
    destruct Hop as [<-|[]]. exact E.
Qed.

Lemma mux_ids_nodup m base cfg ops cls f :
  mux_pre base cfg ops -> run_mux m base cfg ops = Ok (cls, f) ->
  map tf_track_id (mf_tracks f) = map N.of_nat (seq 1 (length (mf_tracks f))) /\
  NoDup (map tf_track_id (mf_tracks f)) /\ ~ In 0 (map tf_track_id (mf_tracks f)).
Proof.
  intros Hpre Hrun.
  destruct (c14_config_lemma _ _ _ _ _ _ Hpre Hrun) as (_ & _ & Hid & _).
  split; [exact Hid|]. rewrite Hid. split.
  - apply Injective_map_NoDup; [intros a b; apply Nat2N.inj | apply seq_NoDup].
  - intros Hin. apply in_map_iff in Hin as (x & Hx & Hs). apply in_seq in Hs. lia.
Qed.

(** ** Box sizes are sums: a part is no larger than the whole *)
Lemma sumN_in_le (l : list N) x : In x l -> x <= sumN l.
Proof.
  induction l as [|y l IH]; intros H; [destruct H|]. cbn [sumN fold_right] in *.
  change (fold_right N.add 0 l) with (sumN l) in *.
  destruct H as [->|H]; [lia|]. specialize (IH H). lia.
Qed.

Lemma trak_in_moov_size v t : In t (moov_traks v) -> trak_size t <= moov_size v.
Proof.
  intros H. unfold moov_size. pose proof (sumN_in_le _ _ (in_map trak_size _ _ H)). lia.
Qed.

Lemma stbl_le_trak_size t : stbl_size (minf_stbl (mdia_minf (trak_mdia t))) <= trak_size t.
Proof. unfold trak_size, mdia_size, minf_size. lia. Qed.

Lemma sumN_ge_each (l : list N) c : (forall x, In x l -> c <= x) -> c * lenN l <= sumN l.
Proof.
  induction l as [|y l IH]; intros H.
  - change (lenN (@nil N)) with 0. cbn. lia.
  - rewrite lenN_cons. cbn [sumN fold_right]. change (fold_right N.add 0 l) with (sumN l).
    pose proof (H y (or_introl eq_refl)). specialize (IH (fun x Hx => H x (or_intror Hx))). lia.
Qed.

Lemma moov_traks_count v : 8 * lenN (moov_traks v) <= moov_size v.
Proof.
  unfold moov_size.
  assert (H : 8 * lenN (map trak_size (moov_traks v)) <= sumN (map trak_size (moov_traks v))).
  { apply sumN_ge_each. intros x Hx. apply in_map_iff in Hx as (t & <- & _).
    unfold trak_size, HEADER_SIZE, Tables.HEADER_SIZE. lia. }
  unfold lenN in *. rewrite map_length in H. lia.
Qed.

Print Assumptions moov_traks_count.

Print Assumptions mux_stsz_shape.
Print Assumptions mux_track_ids.
