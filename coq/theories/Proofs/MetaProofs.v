(** * Lemmas behind property C18: the metadata accessors on iTunes-style user data

    [IsoMeta.iso_udta] (the reference renderer) is decoded by the model's [dec_udta_fuel];
    the result is projected the way [Mp4Reader::metadata] does and the four accessors are
    evaluated. *)
From MP4 Require Import Kit VlKit BoxUdta Reader IsoMeta C16Proofs IsoFtyp RtFtyp RtMvhd.
From Coq Require Import ZifyN ZifyNat ZifyBool.
Open Scope string_scope.
Open Scope list_scope.
Open Scope N_scope.

(** ** The child loop over a list of 32-bit-size boxes *)

Definition child : Type := (N * bytes)%type.
Definition child_size (c : child) : N := 8 + lenN (snd c).

Lemma iso_boxes_cons c cs : iso_boxes (c :: cs) = iso_box (fst c) (snd c) ++ iso_boxes cs.
Proof. reflexivity. Qed.
Lemma iso_boxes_app a b : iso_boxes (a ++ b) = iso_boxes a ++ iso_boxes b.
Proof. unfold iso_boxes. apply flat_map_app. Qed.
Lemma iso_boxes_nil : iso_boxes [] = [].
Proof. reflexivity. Qed.

Lemma lenN_iso_box c p : lenN (iso_box c p) = 8 + lenN p.
Proof. unfold iso_box. rewrite !lenN_app, !lenN_be. lia. Qed.

Lemma lenN_iso_boxes_cons c cs : lenN (iso_boxes (c :: cs)) = child_size c + lenN (iso_boxes cs).
Proof. rewrite iso_boxes_cons, lenN_app, lenN_iso_box. reflexivity. Qed.

Lemma dropN_plus {A} a b (d : list A) x y : dropN a d = x ++ y -> lenN x = b -> dropN (a + b) d = y.
Proof.
  intros H Hb. rewrite N.add_comm, <- dropN_dropN, H. now apply dropN_app_n.
Qed.

Section LoopList.
  Context {Acc R : Type}.
  Variable m : mode.
  Variable psize : N.
  Variable dispatch : nat -> N -> boxtype -> N -> Acc -> prog Acc.
  Variable fin : Acc -> N -> R.
  Variable need : nat.

  (** what the loop body does with child [c], as a function on the accumulator *)
  Definition child_ok (c : child) (eff : Acc -> Acc) : Prop :=
    fst c < U32 /\ child_size c < U32 /\ child_size c <= psize /\
    forall f acc d l p rest, (need <= f)%nat ->
      dropN (p + 8) d = snd c ++ rest -> p + child_size c < 2 ^ 63 ->
      run (dispatch f p (boxtype_of_u32 (fst c)) (child_size c) acc)
          (mkStream d l (p + 8) (snd c ++ rest))
      = (Ok (eff acc), mkStream d l (p + child_size c) rest).

  Lemma run_children_loop_list cs effs :
    Forall2 child_ok cs effs ->
    forall fuel acc d l cur rest end_,
      (length cs + need <= fuel)%nat ->
      dropN cur d = iso_boxes cs ++ rest ->
      end_ = cur + lenN (iso_boxes cs) -> end_ < 2 ^ 63 ->
      run (children_loop_gen fuel m (Some psize) true end_ dispatch fin acc cur)
          (mkStream d l cur (iso_boxes cs ++ rest))
      = (Ok (fin (fold_left (fun a e => e a) effs acc) end_), mkStream d l end_ rest).
  Proof.
    induction 1 as [|c eff cs effs Hc Hcs IH]; intros fuel acc d l cur rest end_ Hf Hd He Hb.
    - change (iso_boxes (@nil child)) with (@nil N) in *. rewrite lenN_nil, N.add_0_r in He. subst end_.
      rewrite children_loop_gen_done by lia. reflexivity.
    - destruct Hc as (Hcode & Hsz & Hps & Hrun).
      rewrite lenN_iso_boxes_cons in He.
      rewrite children_loop_gen_eq.
      assert (Hlt : cur <? end_ = true) by (apply N.ltb_lt; unfold child_size in *; lia).
      rewrite Hlt. destruct fuel as [|f]; [cbn [length] in Hf; lia|].
      rewrite iso_boxes_cons in *. unfold iso_box in *. rewrite <- !app_assoc in *.
      fold (child_size c) in *.
      rewrite run_read_header_bind by (first [assumption | unfold child_size; lia]).
      assert (Hg : (psize <? child_size c) = false) by (apply N.ltb_ge; exact Hps).
      rewrite Hg.
      assert (Hz : (child_size c =? 0) = false) by (apply N.eqb_neq; unfold child_size; lia).
      rewrite Hz. cbn [andb].
      assert (Hd8 : dropN (cur + 8) d = snd c ++ iso_boxes cs ++ rest).
      { eapply dropN_plus; [rewrite app_assoc in Hd; exact Hd|]. rewrite lenN_app, !lenN_be. reflexivity. }
      rewrite run_bind, Hrun; [| cbn [length] in Hf; lia | exact Hd8 | lia ].
      rewrite run_get_pos_bind. cbn [s_pos].
      apply IH.
      + cbn [length] in Hf. lia.
      + replace (cur + child_size c) with (cur + 8 + lenN (snd c)) by (unfold child_size; lia).
        eapply dropN_plus; [exact Hd8 | reflexivity].
      + lia.
      + exact Hb.
  Qed.
End LoopList.

Arguments child_ok {Acc} psize dispatch need c eff.

Lemma HS8 : HEADER_SIZE = 8.
Proof. reflexivity. Qed.

(** ** Skipping a child *)
Lemma run_skip_box m body rest d l p :
  p + 8 + lenN body < 2 ^ 63 ->
  run (skip_box m (8 + lenN body)) (mkStream d l (p + 8) (body ++ rest))
  = (Ok tt, mkStream d l (p + (8 + lenN body)) rest).
Proof.
  intros Hp. unfold skip_box. rewrite run_box_start.
  rewrite run_add64_ok by (unfold U64; lia).
  unfold seek_to. rewrite run_SeekTo_fwd by lia. cbn [run].
  replace (p + (8 + lenN body) - (p + 8)) with (lenN body) by lia.
  now rewrite dropN_app.
Qed.

Lemma run_skip_box_ret {A} m (a : A) body rest d l p :
  p + 8 + lenN body < 2 ^ 63 ->
  run (skip_box m (8 + lenN body) ;;; Ret a) (mkStream d l (p + 8) (body ++ rest))
  = (Ok a, mkStream d l (p + (8 + lenN body)) rest).
Proof. intros Hp. rewrite run_bind, run_skip_box by exact Hp. reflexivity. Qed.

(** a child the dispatch skips leaves the accumulator alone *)
Lemma child_ok_skip {Acc} m psize (dispatch : nat -> N -> boxtype -> N -> Acc -> prog Acc) need c :
  fst c < U32 -> child_size c < U32 -> child_size c <= psize ->
  (forall f p s a, dispatch f p (boxtype_of_u32 (fst c)) s a = (skip_box m s ;;; Ret a)) ->
  child_ok psize dispatch need c (fun a => a).
Proof.
  intros H1 H2 H3 Hd. repeat split; auto.
  intros f acc d l p rest _ _ Hp. rewrite Hd. unfold child_size in *.
  apply run_skip_box_ret. lia.
Qed.

(** ** The value atom *)
Lemma meta_dec_data m ty loc v nm d l p rest :
  ty < U32 -> loc < U32 -> datatype_try_from ty = Ok nm ->
  p + (16 + lenN v) < 2 ^ 63 ->
  run (dec_data m (16 + lenN v)) (mkStream d l (p + 8) (iso_data_payload ty loc v ++ rest))
  = (Ok (mkData v nm), mkStream d l (p + (16 + lenN v)) rest).
Proof.
  intros Ht Hl Hn Hp. unfold dec_data, iso_data_payload. rewrite <- !app_assoc.
  rewrite run_box_start.
  rd_step. rewrite Hn. rd_step.
  rewrite run_GetPos.
  rewrite run_add64_ok by (clear -Hp; unfold U64; lia).
  rewrite checked_sub_ok by (clear; lia).
  rewrite (run_rd_vec_bind _ v) by (clear; lia).
  cbn [run]. f_equal. f_equal. clear. lia.
Qed.

(** ** An item: a loop over one 'data' child *)
Lemma boxtype_cc_data : boxtype_of_u32 cc_data = DataBox.
Proof. vm_compute. reflexivity. Qed.

Lemma meta_dec_item fuel m ty loc v nm d l p rest :
  (1 <= fuel)%nat ->
  ty < U32 -> loc < U32 -> datatype_try_from ty = Ok nm ->
  24 + lenN v < U32 -> p + (24 + lenN v) < 2 ^ 63 ->
  run (dec_ilst_item_fuel fuel m (24 + lenN v)) (mkStream d l (p + 8) (iso_item_payload ty loc v ++ rest))
  = (Ok (mkIlstItem (mkData v nm)), mkStream d l (p + (24 + lenN v)) rest).
Proof.
  intros Hf Ht Hl Hn Hs Hp. unfold dec_ilst_item_fuel.
  rewrite run_box_start, run_get_pos_bind. cbn [s_pos].
  rewrite run_add64_ok by (clear -Hp; unfold U64; lia).
  unfold children_loop. rewrite children_loop_gen_eq.
  assert (E : (p + 8 <? p + (24 + lenN v)) = true) by (apply N.ltb_lt; lia).
  rewrite E. destruct fuel as [|f]; [lia|].
  unfold iso_item_payload, iso_box. rewrite <- !app_assoc.
  assert (Hdl : lenN (iso_data_payload ty loc v) = 8 + lenN v).
  { unfold iso_data_payload. rewrite !lenN_app, !lenN_be. lia. }
  rewrite Hdl.
  rewrite bind_bind.
  rewrite run_read_header_bind by (first [ clear -Hs; lia | vm_compute; reflexivity ]).
  assert (G : (24 + lenN v <? 8 + (8 + lenN v)) = false) by (apply N.ltb_ge; lia).
  rewrite G.
  assert (Z : (8 + (8 + lenN v) =? 0) = false) by (apply N.eqb_neq; lia).
  rewrite Z. cbn [andb].
  rewrite boxtype_cc_data. unfold ilst_item_dispatch.
  rewrite !bind_bind.
  replace (8 + (8 + lenN v)) with (16 + lenN v) by lia.
  rewrite (run_bind_ok _ _ _ _ _ (meta_dec_data m ty loc v nm d l (p + 8) rest Ht Hl Hn ltac:(clear -Hp; lia))).
  rewrite run_ret_bind, bind_bind, run_get_pos_bind. cbn [s_pos].
  rewrite children_loop_gen_done by lia.
  rewrite run_ret_bind.
  rewrite run_add64_ok by (clear -Hp; unfold U64; lia).
  unfold skip_bytes_to, seek_to. cbn [bind].
  rewrite run_SeekTo_here by lia.
  cbn [run]. f_equal. f_equal. lia.
Qed.

(** ** Sizes of children *)
Lemma child_size_le c cs : In c cs -> child_size c <= lenN (iso_boxes cs).
Proof.
  induction cs as [|x t IH]; intros H; [destruct H|].
  rewrite lenN_iso_boxes_cons. destruct H as [->|H]; [lia|]. specialize (IH H). lia.
Qed.

Lemma Forall2_flat_map {A B C} (P : B -> C -> Prop) (f : A -> list B) (g : A -> list C) l :
  (forall a, In a l -> Forall2 P (f a) (g a)) -> Forall2 P (flat_map f l) (flat_map g l).
Proof.
  induction l as [|a t IH]; intros H; cbn [flat_map]; [constructor|].
  apply Forall2_app; [apply H; now left|]. apply IH. intros; apply H; now right.
Qed.

(** ** Box types of the codes used *)
Lemma boxtype_table_ok : table_ok Tables.boxtype_table = true.
Proof. vm_compute. reflexivity. Qed.

Lemma boxtype_code_inv c b : boxtype_of_u32 c = b -> u32_of_boxtype b = c.
Proof. intros <-. apply (u32_boxtype_u32 boxtype_table_ok). Qed.

Definition key_code (k : mkey) : N :=
  match k with KTitle => cc_nam | KYear => cc_day | KPoster => cc_covr | KSummary => cc_desc end.

Lemma ilst_dispatch_key m f k s l :
  ilst_dispatch m f (boxtype_of_u32 (key_code k)) s l
  = (x <- dec_ilst_item_fuel f m s ;; Ret (ilst_insert k x l)).
Proof. destruct k; reflexivity. Qed.

Lemma ilst_dispatch_noise m f c s l :
  c <> cc_nam -> c <> cc_day -> c <> cc_covr -> c <> cc_desc ->
  ilst_dispatch m f (boxtype_of_u32 c) s l = (skip_box m s ;;; Ret l).
Proof.
  intros H1 H2 H3 H4. pose proof (boxtype_code_inv c _ eq_refl) as E.
  destruct (boxtype_of_u32 c); try reflexivity; exfalso; vm_compute in E;
    unfold cc_nam, cc_day, cc_covr, cc_desc in *; congruence.
Qed.

Lemma lenN_item_payload ty loc v : lenN (iso_item_payload ty loc v) = 16 + lenN v.
Proof.
  unfold iso_item_payload, iso_data_payload. rewrite lenN_iso_box, !lenN_app, !lenN_be. lia.
Qed.

Lemma key_code_lt k : key_code k < U32.
Proof. destruct k; vm_compute; reflexivity. Qed.

(** a known item inserts its value under its key *)
Lemma child_ok_item m psize k ty loc v nm :
  ty < U32 -> loc < U32 -> datatype_try_from ty = Ok nm ->
  24 + lenN v < U32 -> 24 + lenN v <= psize ->
  child_ok psize (fun f (_ : N) => ilst_dispatch m f) 1
           (key_code k, iso_item_payload ty loc v)
           (ilst_insert k (mkIlstItem (mkData v nm))).
Proof.
  intros Ht Hl Hn Hs Hps. unfold child_ok, child_size. cbn [fst snd].
  rewrite lenN_item_payload. replace (8 + (16 + lenN v)) with (24 + lenN v) by lia.
  repeat split; auto using key_code_lt.
  intros f acc d l p rest Hf _ Hp.
  rewrite ilst_dispatch_key.
  rewrite (run_bind_ok _ _ _ _ _ (meta_dec_item f m ty loc v nm d l p rest Hf Ht Hl Hn Hs Hp)).
  reflexivity.
Qed.

(** ** The item list *)
Definition key_of (k : tag_key) : mkey :=
  match k with TTitle => KTitle | TYear => KYear | TPoster => KPoster | TSummary => KSummary end.

(** the item the decoder must produce for a key ([pnm]: the name of the poster's value type) *)
Definition exp_item (t : tags) (pnm : string) (k : mkey) : option ilst_item :=
  match k with
  | KTitle => option_map (fun v => mkIlstItem (mkData v "Text")) (tg_title t)
  | KYear => option_map (fun y => match y with
                                  | YText n => mkIlstItem (mkData (iso_decimal n) "Text")
                                  | YBin n => mkIlstItem (mkData (be 4 n) "Binary")
                                  end) (tg_year t)
  | KPoster => option_map (fun v => mkIlstItem (mkData v pnm)) (tg_poster t)
  | KSummary => option_map (fun v => mkIlstItem (mkData v "Text")) (tg_summary t)
  end.

Definition items := list (mkey * ilst_item).

Definition slot_effs (t : tags) (pnm : string) (s : slot) : list (items -> items) :=
  match s with
  | SKey k => match exp_item t pnm (key_of k) with
              | Some it => [ilst_insert (key_of k) it]
              | None => []
              end
  | SNoise _ _ => [fun a => a]
  end.

Definition ilst_result (o : opts) (t : tags) (pnm : string) : items :=
  fold_left (fun a e => e a) (flat_map (slot_effs t pnm) (o_layout o)) [].

(** side conditions on the unrelated items of the list *)
Definition noise_code_ok (excluded : list N) (c : N * bytes) : Prop :=
  fst c < U32 /\ ~ In (fst c) excluded.

Definition slot_ok (s : slot) : Prop :=
  match s with
  | SKey _ => True
  | SNoise c _ => c < U32 /\ ~ In c [cc_nam; cc_day; cc_covr; cc_desc]
  end.

Definition year_ok (y : year_enc) : Prop := year_value y < U32.

Lemma text_type : datatype_try_from wk_utf8 = Ok "Text".
Proof. reflexivity. Qed.
Lemma binary_type : datatype_try_from wk_binary = Ok "Binary".
Proof. reflexivity. Qed.

Lemma slot_children_ok m psize o t pnm s :
  slot_ok s ->
  o_locale o < U32 -> o_poster_type o < U32 -> datatype_try_from (o_poster_type o) = Ok pnm ->
  (forall c, In c (iso_slot_children o t s) -> child_size c < U32 /\ child_size c <= psize) ->
  Forall2 (child_ok psize (fun f (_ : N) => ilst_dispatch m f) 1)
          (iso_slot_children o t s) (slot_effs t pnm s).
Proof.
  intros Hs Hl Hpt Hpn Hsz.
  assert (K : forall k ty v nm, ty < U32 -> datatype_try_from ty = Ok nm ->
            In (key_code k, iso_item_payload ty (o_locale o) v) (iso_slot_children o t s) ->
            child_ok psize (fun f (_ : N) => ilst_dispatch m f) 1
              (key_code k, iso_item_payload ty (o_locale o) v)
              (ilst_insert k (mkIlstItem (mkData v nm)))).
  { intros k ty v nm Hty Hnm Hin. destruct (Hsz _ Hin) as [S1 S2].
    unfold child_size in S1, S2. cbn [snd] in S1, S2. rewrite lenN_item_payload in S1, S2.
    apply child_ok_item; auto; lia. }
  destruct s as [[| | |]|c p]; cbn [iso_slot_children slot_effs exp_item key_of] in *.
  - destruct (tg_title t) as [v|]; cbn [option_map]; [|constructor].
    constructor; [|constructor]. apply (K KTitle wk_utf8 v "Text"); [vm_compute; reflexivity|reflexivity|now left].
  - destruct (tg_year t) as [[n|n]|]; cbn [option_map iso_year_child]; [| |constructor].
    + constructor; [|constructor].
      apply (K KYear wk_utf8 _ "Text"); [vm_compute; reflexivity|reflexivity|now left].
    + constructor; [|constructor].
      apply (K KYear wk_binary _ "Binary"); [vm_compute; reflexivity|reflexivity|now left].
  - destruct (tg_poster t) as [v|]; cbn [option_map]; [|constructor].
    constructor; [|constructor]. apply (K KPoster (o_poster_type o) v pnm); auto. now left.
  - destruct (tg_summary t) as [v|]; cbn [option_map]; [|constructor].
    constructor; [|constructor]. apply (K KSummary wk_utf8 v "Text"); [vm_compute; reflexivity|reflexivity|now left].
  - constructor; [|constructor]. destruct Hs as [Hc Hn]. cbn [In] in Hn.
    destruct (Hsz (c, p) (or_introl eq_refl)) as [S1 S2].
    apply child_ok_skip with (m := m); auto.
    intros f q s a. cbn [fst]. apply ilst_dispatch_noise; intros E; apply Hn; rewrite E; auto.
Qed.

Lemma meta_dec_ilst fuel m o t pnm d l p rest :
  Forall slot_ok (o_layout o) ->
  o_locale o < U32 -> o_poster_type o < U32 -> datatype_try_from (o_poster_type o) = Ok pnm ->
  let cs := iso_ilst_children o t in
  (length cs + 1 <= fuel)%nat ->
  8 + lenN (iso_boxes cs) < U32 -> p + (8 + lenN (iso_boxes cs)) < 2 ^ 63 ->
  dropN (p + 8) d = iso_boxes cs ++ rest ->
  run (dec_ilst_fuel fuel m (8 + lenN (iso_boxes cs))) (mkStream d l (p + 8) (iso_boxes cs ++ rest))
  = (Ok (mkIlst (ilst_result o t pnm)), mkStream d l (p + (8 + lenN (iso_boxes cs))) rest).
Proof.
  intros Hlay Hl Hpt Hpn cs Hf Hs Hp Hd. unfold dec_ilst_fuel.
  rewrite run_box_start, run_get_pos_bind. cbn [s_pos].
  rewrite run_add64_ok by (clear -Hp; unfold U64; lia).
  unfold children_loop.
  remember (8 + lenN (iso_boxes cs)) as ps eqn:Eps.
  assert (F : Forall2 (child_ok ps (fun f (_ : N) => ilst_dispatch m f) 1)
                      cs (flat_map (slot_effs t pnm) (o_layout o))).
  { unfold cs at 1. unfold iso_ilst_children. apply Forall2_flat_map. intros s Hin.
    apply slot_children_ok; auto.
    - rewrite Forall_forall in Hlay. now apply Hlay.
    - intros c Hc.
      assert (In c cs) by (unfold cs, iso_ilst_children; apply in_flat_map; eauto).
      pose proof (child_size_le c cs H) as Hle. clearbody cs. clear -Hle Hs Eps. lia. }
  rewrite (run_bind_ok _ _ _ _ _
            (run_children_loop_list m _ _ (fun a _ => a) 1 cs _ F fuel [] d l (p + 8) rest
               (p + ps) Hf Hd ltac:(lia) Hp)).
  rewrite run_add64_ok by (clear -Hp; unfold U64; lia).
  unfold skip_bytes_to, seek_to. cbn [bind].
  rewrite run_SeekTo_here by lia. reflexivity.
Qed.

(** ** The handler reference: only the handler type matters; [name] may be any bytes *)
Definition hdlr_result (o : opts) : hdlr :=
  mkHdlr 0 0 (o_handler o) (vl_utf8_or_default (vl_trim_nul (o_hdlr_name o))).

Lemma lenN_hdlr_payload pd h rs nm : lenN rs = 12 -> lenN (iso_hdlr_payload pd h rs nm) = 24 + lenN nm.
Proof. intros H. unfold iso_hdlr_payload. rewrite !lenN_app, !lenN_be, H. lia. Qed.

Lemma meta_dec_hdlr m o d l p rest :
  o_handler o < U32 -> o_hdlr_predef o < U32 -> lenN (o_hdlr_reserved o) = 12 ->
  p + (32 + lenN (o_hdlr_name o)) < 2 ^ 63 ->
  run (dec_hdlr m (32 + lenN (o_hdlr_name o)))
      (mkStream d l (p + 8)
         (iso_hdlr_payload (o_hdlr_predef o) (o_handler o) (o_hdlr_reserved o) (o_hdlr_name o) ++ rest))
  = (Ok (hdlr_result o), mkStream d l (p + (32 + lenN (o_hdlr_name o))) rest).
Proof.
  intros Hh Hpd Hr Hp. unfold dec_hdlr, iso_hdlr_payload. rewrite <- !app_assoc.
  rewrite run_box_start.
  assert (Hh' : o_handler o < 256 ^ N.of_nat 4) by (rewrite pow256_4; exact Hh).
  do 4 rd_step.
  prog_norm.
  rewrite (run_SeekRel_app _ 12 (o_hdlr_reserved o)) by (first [exact Hr | clear -Hp; lia]).
  rewrite checked_sub_ok by (clear; rewrite HS8; unfold HEADER_EXT_SIZE, Tables.HEADER_EXT_SIZE; lia).
  rewrite (run_rd_vec_bind _ (o_hdlr_name o))
    by (clear; rewrite HS8; unfold HEADER_EXT_SIZE, Tables.HEADER_EXT_SIZE; lia).
  prog_norm.
  unfold HEADER_SIZE, HEADER_EXT_SIZE, Tables.HEADER_SIZE, Tables.HEADER_EXT_SIZE.
  rewrite run_finish; [| clear; lia | clear -Hp; unfold U64; lia].
  f_equal. f_equal. clear. lia.
Qed.

(** ** The meta box *)
Lemma find_hdlr_other m f c s a : c <> cc_hdlr ->
  meta_find_hdlr m f (boxtype_of_u32 c) s a = (skip_box m s ;;; Ret a).
Proof.
  intros H1. pose proof (boxtype_code_inv c _ eq_refl) as E.
  destruct (boxtype_of_u32 c); try reflexivity; exfalso; vm_compute in E; unfold cc_hdlr in *; congruence.
Qed.

Lemma mdir_dispatch_other m f c s (a : option ilst) : c <> cc_ilst ->
  meta_mdir_dispatch m f (boxtype_of_u32 c) s a = (skip_box m s ;;; Ret a).
Proof.
  intros H1. pose proof (boxtype_code_inv c _ eq_refl) as E.
  destruct (boxtype_of_u32 c); try reflexivity; exfalso; vm_compute in E; unfold cc_ilst in *; congruence.
Qed.

Lemma unknown_dispatch_other m f c s a : c <> cc_hdlr ->
  meta_unknown_dispatch m f (boxtype_of_u32 c) s a =
  match checked_sub s HEADER_SIZE with
  | None => Throw EData
  | Some n => box_data <- rd_vec n ;; Ret (a ++ [(boxtype_of_u32 c, box_data)])
  end.
Proof.
  intros H1. pose proof (boxtype_code_inv c _ eq_refl) as E.
  destruct (boxtype_of_u32 c); try reflexivity; exfalso; vm_compute in E; unfold cc_hdlr in *; congruence.
Qed.

Definition ids {A B} (l : list A) : list (B -> B) := map (fun _ b => b) l.

Lemma fold_ids {A B} (l : list A) (b : B) : fold_left (fun a e => e a) (ids l) b = b.
Proof. induction l; cbn [ids map fold_left]; auto. Qed.

Lemma Forall2_ids {Acc} m psize (dispatch : nat -> N -> boxtype -> N -> Acc -> prog Acc) need cs :
  (forall c, In c cs -> fst c < U32 /\ child_size c < U32 /\ child_size c <= psize /\
                        forall f p s a, dispatch f p (boxtype_of_u32 (fst c)) s a = (skip_box m s ;;; Ret a)) ->
  Forall2 (child_ok psize dispatch need) cs (ids cs).
Proof.
  induction cs as [|c t IH]; intros H; cbn [ids map]; constructor.
  - destruct (H c (or_introl eq_refl)) as (H1 & H2 & H3 & H4). now apply child_ok_skip with (m := m).
  - apply IH. intros; apply H; now right.
Qed.

Lemma Forall2_shape {X Y} (P : X -> Y -> Prop) A x B y C eA ex eB ey eC :
  Forall2 P A eA -> P x ex -> Forall2 P B eB -> P y ey -> Forall2 P C eC ->
  Forall2 P (A ++ [x] ++ B ++ [y] ++ C) (eA ++ [ex] ++ eB ++ [ey] ++ eC).
Proof.
  intros. repeat (apply Forall2_app; auto).
Qed.

Lemma fold_shape {X B} (A Bn C : list X) (ex ey : B -> B) b :
  fold_left (fun a e => e a) (ids A ++ [ex] ++ ids Bn ++ [ey] ++ ids C) b = ey (ex b).
Proof.
  rewrite !fold_left_app. cbn [fold_left]. now rewrite !fold_ids.
Qed.

(** the rest of [read_box] after the version/flags prologue *)
Definition meta_tail (fuel : nat) (m : mode) (size start : N) : prog meta :=
  current <- get_pos ;;
  end_ <- add64 m "meta start+size" start size ;;
  let content_start := current in
  hd <- children_loop fuel m (Some size) true end_ (meta_find_hdlr m) None current ;;
  match hd with
  | None => Throw EData
  | Some h =>
      seek_to content_start ;;;
      current <- get_pos ;;
      if hdlr_handler_type h =? meta_MDIR then
        il <- children_loop fuel m (Some size) true end_ (meta_mdir_dispatch m) None current ;;
        e <- add64 m "meta start+size (final seek)" start size ;;
        skip_bytes_to e ;;;
        Ret (MetaMdir il)
      else
        d <- children_loop fuel m (Some size) true end_ (meta_unknown_dispatch m) [] current ;;
        e <- add64 m "meta start+size (final seek)" start size ;;
        skip_bytes_to e ;;;
        Ret (MetaUnknown h d)
  end.

Lemma dec_meta_fuel_eq fuel m size :
  dec_meta_fuel fuel m size =
  (start <- box_start m ;;
   extended_header <- rd_u32 ;;
   (if negb (extended_header =? 0) then
      possible_hdlr <- rd_u32 ;;
      match boxtype_of_u32 possible_hdlr with
      | HdlrBox => seek_rel (-8)
      | _ => Throw EData
      end
    else Ret tt) ;;;
   meta_tail fuel m size start).
Proof. reflexivity. Qed.

Lemma run_seek_to_back {A} (k : unit -> prog A) d l p v q :
  q < p -> run (bind (seek_to q) k) (mkStream d l p v) = run (k tt) (mkStream d l q (dropN q d)).
Proof.
  intros H. unfold seek_to. cbn [bind run]. unfold seek_abs. cbn [s_pos s_data s_len s_view].
  destruct (N.leb_spec p q); [lia|]. reflexivity.
Qed.

(** raw children of a meta box with an unknown handler *)
Definition eff_raw (c : child) : list (boxtype * bytes) -> list (boxtype * bytes) :=
  if fst c =? cc_hdlr then (fun a => a) else (fun a => a ++ [(boxtype_of_u32 (fst c), snd c)]).

Lemma Forall2_raw m psize need cs :
  (forall c, In c cs -> fst c < U32 /\ child_size c < U32 /\ child_size c <= psize) ->
  Forall2 (child_ok psize (fun f (_ : N) => meta_unknown_dispatch m f) need) cs (map eff_raw cs).
Proof.
  induction cs as [|c t IH]; intros H; cbn [map]; constructor.
  - destruct (H c (or_introl eq_refl)) as (H1 & H2 & H3). unfold eff_raw.
    destruct (N.eqb_spec (fst c) cc_hdlr) as [E|E].
    + apply child_ok_skip with (m := m); auto. intros. rewrite E. reflexivity.
    + repeat split; auto. intros f acc d l p rest _ _ Hp.
      rewrite unknown_dispatch_other by exact E. unfold child_size in *.
      rewrite checked_sub_ok by (rewrite HS8; lia).
      rewrite (run_rd_vec_bind _ (snd c)) by (rewrite HS8; lia).
      cbn [run]. rewrite HS8. f_equal. f_equal. lia.
  - apply IH. intros; apply H; now right.
Qed.

Definition noise_ok (excluded : list N) (cs : list child) : Prop :=
  Forall (fun c => fst c < U32 /\ ~ In (fst c) excluded) cs.

(** "within wire limits": what the layout documents allow the options to be *)
Definition opts_ok (o : opts) : Prop :=
  Forall slot_ok (o_layout o)
  /\ o_locale o < U32
  /\ In (o_poster_type o) [0; 1; 13; 21]
  /\ o_handler o < U32
  /\ o_hdlr_predef o < U32
  /\ lenN (o_hdlr_reserved o) = 12
  /\ noise_ok [cc_hdlr; cc_ilst] (o_meta_a o)
  /\ noise_ok [cc_hdlr; cc_ilst] (o_meta_b o)
  /\ noise_ok [cc_hdlr; cc_ilst] (o_meta_c o)
  /\ noise_ok [cc_meta] (o_udta_pre o)
  /\ noise_ok [cc_meta] (o_udta_post o)
  /\ (o_full_meta o = false -> o_hdlr_last o = false /\ o_meta_a o = []).

Definition poster_type_name (ty : N) : string :=
  match datatype_try_from ty with Ok n => n | _ => "" end.

Lemma poster_type_ok ty : In ty [0; 1; 13; 21] ->
  ty < U32 /\ datatype_try_from ty = Ok (poster_type_name ty).
Proof.
  cbn [In]. intros [<-|[<-|[<-|[<-|[]]]]]; split; vm_compute; reflexivity.
Qed.

Definition meta_unknown_data (o : opts) (t : tags) : list (boxtype * bytes) :=
  fold_left (fun a e => e a) (map eff_raw (iso_meta_children o t)) [].

Definition meta_result (o : opts) (t : tags) : meta :=
  if o_handler o =? cc_mdir
  then MetaMdir (Some (mkIlst (ilst_result o t (poster_type_name (o_poster_type o)))))
  else MetaUnknown (hdlr_result o) (meta_unknown_data o t).

Lemma child_ok_hdlr m psize need o :
  o_handler o < U32 -> o_hdlr_predef o < U32 -> lenN (o_hdlr_reserved o) = 12 ->
  child_size (iso_hdlr_child o) < U32 -> child_size (iso_hdlr_child o) <= psize ->
  child_ok psize (fun f (_ : N) => meta_find_hdlr m f) need (iso_hdlr_child o)
           (fun _ => Some (hdlr_result o)).
Proof.
  intros H1 H2 H3 H4 H5. split; [vm_compute; reflexivity|]. split; [exact H4|]. split; [exact H5|].
  intros f acc d l p rest _ _ Hp. unfold iso_hdlr_child, child_size in *. cbn [fst snd] in *.
  rewrite lenN_hdlr_payload in * by exact H3.
  change (boxtype_of_u32 cc_hdlr) with HdlrBox. cbn [meta_find_hdlr].
  replace (8 + (24 + lenN (o_hdlr_name o))) with (32 + lenN (o_hdlr_name o)) in * by lia.
  rewrite (run_bind_ok _ _ _ _ _ (meta_dec_hdlr m o d l p rest H1 H2 H3 Hp)). reflexivity.
Qed.

Lemma child_ok_ilst m psize need o t pnm :
  Forall slot_ok (o_layout o) ->
  o_locale o < U32 -> o_poster_type o < U32 -> datatype_try_from (o_poster_type o) = Ok pnm ->
  (length (iso_ilst_children o t) + 1 <= need)%nat ->
  child_size (iso_ilst_child o t) < U32 -> child_size (iso_ilst_child o t) <= psize ->
  child_ok psize (fun f (_ : N) => meta_mdir_dispatch m f) need (iso_ilst_child o t)
           (fun _ => Some (mkIlst (ilst_result o t pnm))).
Proof.
  intros H1 H2 H3 H4 Hn H5 H6. split; [vm_compute; reflexivity|]. split; [exact H5|]. split; [exact H6|].
  intros f acc d l p rest Hf Hd Hp. unfold iso_ilst_child, child_size in *. cbn [fst snd] in *.
  change (boxtype_of_u32 cc_ilst) with IlstBox. cbn [meta_mdir_dispatch].
  rewrite (run_bind_ok _ _ _ _ _
             (meta_dec_ilst f m o t pnm d l p rest H1 H2 H3 H4 ltac:(lia) H5 Hp Hd)).
  reflexivity.
Qed.

Lemma noise_ok_in ex cs c : noise_ok ex cs -> In c cs -> fst c < U32 /\ ~ In (fst c) ex.
Proof. unfold noise_ok. rewrite Forall_forall. auto. Qed.

Lemma iso_boxes_pos c cs : In c cs -> 8 <= lenN (iso_boxes cs).
Proof. intros H. pose proof (child_size_le c cs H). unfold child_size in *. lia. Qed.

Lemma meta_children_in o t c : In c (iso_meta_children o t) ->
  c = iso_hdlr_child o \/ c = iso_ilst_child o t \/ In c (o_meta_a o) \/ In c (o_meta_b o) \/ In c (o_meta_c o).
Proof.
  unfold iso_meta_children. destruct (o_hdlr_last o); rewrite !in_app_iff; cbn [In]; intuition.
Qed.

Lemma meta_children_hdlr o t : In (iso_hdlr_child o) (iso_meta_children o t).
Proof.
  unfold iso_meta_children. destruct (o_hdlr_last o); rewrite !in_app_iff; cbn [In]; intuition.
Qed.
Lemma meta_children_ilst o t : In (iso_ilst_child o t) (iso_meta_children o t).
Proof.
  unfold iso_meta_children. destruct (o_hdlr_last o); rewrite !in_app_iff; cbn [In]; intuition.
Qed.
Lemma meta_children_noise o t c : In c (o_meta_a o) \/ In c (o_meta_b o) \/ In c (o_meta_c o) ->
  In c (iso_meta_children o t).
Proof.
  unfold iso_meta_children. destruct (o_hdlr_last o); rewrite !in_app_iff; cbn [In]; intuition.
Qed.

Definition meta_fuel (o : opts) (t : tags) : nat :=
  (length (iso_meta_children o t) + (length (iso_ilst_children o t) + 1))%nat.

Lemma meta_tail_ok fuel m o t d l start size cstart rest :
  opts_ok o ->
  let mc := iso_meta_children o t in
  (meta_fuel o t <= fuel)%nat ->
  size < U32 -> start + size = cstart + lenN (iso_boxes mc) -> start + size < 2 ^ 63 ->
  lenN (iso_boxes mc) <= size ->
  dropN cstart d = iso_boxes mc ++ rest ->
  run (meta_tail fuel m size start) (mkStream d l cstart (iso_boxes mc ++ rest))
  = (Ok (meta_result o t), mkStream d l (start + size) rest).
Proof.
  intros (Hlay & Hloc & Hpt & Hh & Hpd & Hrs & Ha & Hb & Hc & _ & _ & _) mc Hf Hs He Hp Hle Hd.
  destruct (poster_type_ok _ Hpt) as [Hpt32 Hpn].
  set (pnm := poster_type_name (o_poster_type o)) in *.
  set (need := (length (iso_ilst_children o t) + 1)%nat).
  (* facts about all children *)
  assert (Hsz : forall c, In c mc -> child_size c < U32 /\ child_size c <= size).
  { intros c Hc'. pose proof (child_size_le c mc Hc'). lia. }
  assert (Hnoise : forall c, In c (o_meta_a o) \/ In c (o_meta_b o) \/ In c (o_meta_c o) ->
             fst c < U32 /\ fst c <> cc_hdlr /\ fst c <> cc_ilst /\ In c mc).
  { intros c Hc'. assert (X : fst c < U32 /\ ~ In (fst c) [cc_hdlr; cc_ilst]).
    { destruct Hc' as [H|[H|H]];
        [apply (noise_ok_in _ _ _ Ha H) | apply (noise_ok_in _ _ _ Hb H) | apply (noise_ok_in _ _ _ Hc H)]. }
    destruct X as [X1 X2]. cbn [In] in X2. repeat split; auto.
    now apply meta_children_noise. }
  pose proof (meta_children_hdlr o t) as Hinh. pose proof (meta_children_ilst o t) as Hini.
  fold mc in Hinh, Hini.
  assert (Hpos : 8 <= lenN (iso_boxes mc)) by (eapply iso_boxes_pos; exact Hinh).
  (* pass 1 *)
  assert (N1 : forall A, (forall c, In c A -> In c (o_meta_a o) \/ In c (o_meta_b o) \/ In c (o_meta_c o)) ->
            Forall2 (child_ok size (fun f (_ : N) => meta_find_hdlr m f) need) A (ids A)).
  { intros A HA. apply Forall2_ids with (m := m). intros c Hc'.
    destruct (Hnoise c (HA c Hc')) as (X1 & X2 & X3 & X4). destruct (Hsz c X4).
    repeat split; auto. intros. now apply find_hdlr_other. }
  assert (H1 : child_ok size (fun f (_ : N) => meta_find_hdlr m f) need (iso_hdlr_child o)
                        (fun _ => Some (hdlr_result o))).
  { destruct (Hsz _ Hinh). now apply child_ok_hdlr. }
  assert (I1 : child_ok size (fun f (_ : N) => meta_find_hdlr m f) need (iso_ilst_child o t) (fun a => a)).
  { destruct (Hsz _ Hini).
    apply child_ok_skip with (m := m); [vm_compute; reflexivity | assumption | assumption | intros; reflexivity]. }
  assert (F1 : exists effs, Forall2 (child_ok size (fun f (_ : N) => meta_find_hdlr m f) need) mc effs
                            /\ fold_left (fun a e => e a) effs None = Some (hdlr_result o)).
  { unfold mc, iso_meta_children. destruct (o_hdlr_last o).
    - eexists. split; [apply Forall2_shape; [apply N1 | exact I1 | apply N1 | exact H1 | apply N1]; auto|].
      now rewrite fold_shape.
    - eexists. split; [apply Forall2_shape; [apply N1 | exact H1 | apply N1 | exact I1 | apply N1]; auto|].
      now rewrite fold_shape. }
  destruct F1 as (effs1 & F1 & R1).
  (* pass 2, mdir *)
  assert (N2 : forall A, (forall c, In c A -> In c (o_meta_a o) \/ In c (o_meta_b o) \/ In c (o_meta_c o)) ->
            Forall2 (child_ok size (fun f (_ : N) => meta_mdir_dispatch m f) need) A (ids A)).
  { intros A HA. apply Forall2_ids with (m := m). intros c Hc'.
    destruct (Hnoise c (HA c Hc')) as (X1 & X2 & X3 & X4). destruct (Hsz c X4).
    repeat split; auto. intros. now apply mdir_dispatch_other. }
  assert (H2 : child_ok size (fun f (_ : N) => meta_mdir_dispatch m f) need (iso_hdlr_child o) (fun a => a)).
  { destruct (Hsz _ Hinh).
    apply child_ok_skip with (m := m); [vm_compute; reflexivity | assumption | assumption | intros; reflexivity]. }
  assert (I2 : child_ok size (fun f (_ : N) => meta_mdir_dispatch m f) need (iso_ilst_child o t)
                        (fun _ => Some (mkIlst (ilst_result o t pnm)))).
  { destruct (Hsz _ Hini). apply child_ok_ilst; auto. }
  assert (F2 : exists effs, Forall2 (child_ok size (fun f (_ : N) => meta_mdir_dispatch m f) need) mc effs
                            /\ fold_left (fun a e => e a) effs None = Some (mkIlst (ilst_result o t pnm))).
  { unfold mc, iso_meta_children. destruct (o_hdlr_last o).
    - eexists. split; [apply Forall2_shape; [apply N2 | exact I2 | apply N2 | exact H2 | apply N2]; auto|].
      now rewrite fold_shape.
    - eexists. split; [apply Forall2_shape; [apply N2 | exact H2 | apply N2 | exact I2 | apply N2]; auto|].
      now rewrite fold_shape. }
  destruct F2 as (effs2 & F2 & R2).
  (* pass 2, unknown *)
  assert (F3 : Forall2 (child_ok size (fun f (_ : N) => meta_unknown_dispatch m f) need) mc (map eff_raw mc)).
  { apply Forall2_raw. intros c Hc'. destruct (Hsz c Hc'). repeat split; auto.
    destruct (meta_children_in o t c Hc') as [->|[->|X]]; [vm_compute; reflexivity | vm_compute; reflexivity |].
    now destruct (Hnoise c X). }
  assert (Hfuel : (length mc + need <= fuel)%nat) by exact Hf.
  (* run *)
  unfold meta_tail. rewrite run_get_pos_bind. cbn [s_pos].
  rewrite run_add64_ok by (clear -Hp; unfold U64; lia).
  unfold children_loop.
  rewrite (run_bind_ok _ _ _ _ _
            (run_children_loop_list m _ _ (fun a _ => a) need mc _ F1 fuel None d l cstart rest
               (start + size) Hfuel Hd He Hp)).
  rewrite R1.
  rewrite run_seek_to_back by (clear -He Hpos; lia).
  rewrite run_get_pos_bind. cbn [s_pos]. rewrite Hd.
  cbn [hdlr_handler_type hdlr_result]. unfold meta_result.
  change meta_MDIR with cc_mdir.
  destruct (o_handler o =? cc_mdir).
  - rewrite (run_bind_ok _ _ _ _ _
              (run_children_loop_list m _ _ (fun a _ => a) need mc _ F2 fuel None d l cstart rest
                 (start + size) Hfuel Hd He Hp)).
    rewrite R2.
    rewrite run_add64_ok by (clear -Hp; unfold U64; lia).
    unfold skip_bytes_to, seek_to. cbn [bind].
    rewrite run_SeekTo_here by reflexivity. reflexivity.
  - rewrite (run_bind_ok _ _ _ _ _
              (run_children_loop_list m _ _ (fun a _ => a) need mc _ F3 fuel [] d l cstart rest
                 (start + size) Hfuel Hd He Hp)).
    rewrite run_add64_ok by (clear -Hp; unfold U64; lia).
    unfold skip_bytes_to, seek_to. cbn [bind].
    rewrite run_SeekTo_here by reflexivity. reflexivity.
Qed.

Lemma run_seek_rel_back {A} (k : unit -> prog A) d l p v n :
  0 < n -> n <= p -> p < U64 ->
  run (bind (seek_rel (- Z.of_N n)) k) (mkStream d l p v)
  = run (k tt) (mkStream d l (p - n) (dropN (p - n) d)).
Proof.
  intros H0 Hn Hp. unfold seek_rel. cbn [bind run]. unfold seek_cur. cbn [s_pos].
  destruct (Z.ltb_spec (Z.of_N p + - Z.of_N n) 0); [lia|].
  destruct (Z.leb_spec (Z.of_N U64) (Z.of_N p + - Z.of_N n)); [lia|].
  cbn [orb]. unfold seek_abs. cbn [s_pos s_data s_len s_view].
  replace (Z.to_N (Z.of_N p + - Z.of_N n)) with (p - n) by lia.
  destruct (N.leb_spec p (p - n)); [lia|]. reflexivity.
Qed.

Lemma meta_dec_meta fuel m o t d l p rest :
  opts_ok o -> (meta_fuel o t <= fuel)%nat ->
  let pl := iso_meta_payload o t in
  8 + lenN pl < U32 -> p + (8 + lenN pl) < 2 ^ 63 ->
  dropN (p + 8) d = pl ++ rest ->
  run (dec_meta_fuel fuel m (8 + lenN pl)) (mkStream d l (p + 8) (pl ++ rest))
  = (Ok (meta_result o t), mkStream d l (p + (8 + lenN pl)) rest).
Proof.
  intros Hok Hf pl Hs Hp Hd.
  pose proof Hok as (_ & _ & _ & Hh & Hpd & Hrs & _ & _ & _ & _ & _ & Hqt).
  rewrite dec_meta_fuel_eq, run_box_start.
  unfold pl, iso_meta_payload in *. destruct (o_full_meta o).
  - rewrite <- !app_assoc in *. rewrite lenN_app, lenN_be in *.
    rd_step. change (negb (0 =? 0)) with false. cbv iota. rewrite run_ret_bind.
    replace (p + 8 + N.of_nat 4) with (p + 8 + 4) by lia.
    apply meta_tail_ok; auto; try lia.
    eapply dropN_plus; [exact Hd | apply lenN_be].
  - destruct (Hqt eq_refl) as [Hlast Ha]. cbn [app] in *.
    assert (E : iso_meta_children o t =
                iso_hdlr_child o :: o_meta_b o ++ [iso_ilst_child o t] ++ o_meta_c o).
    { unfold iso_meta_children. rewrite Hlast, Ha. reflexivity. }
    pose proof (meta_tail_ok fuel m o t d l p (8 + lenN (iso_boxes (iso_meta_children o t))) (p + 8) rest
                  Hok Hf Hs ltac:(lia) Hp ltac:(lia) Hd) as T.
    rewrite E in *. rewrite iso_boxes_cons in *. unfold iso_hdlr_child in *. cbn [fst snd] in *.
    unfold iso_box in *. rewrite <- !app_assoc in *.
    assert (B : 8 + lenN (iso_hdlr_payload (o_hdlr_predef o) (o_handler o) (o_hdlr_reserved o) (o_hdlr_name o))
                < 256 ^ N.of_nat 4).
    { rewrite pow256_4. clear -Hs. rewrite !lenN_app, !lenN_be in Hs. unfold U32 in Hs. lia. }
    rd_step.
    assert (Z : negb (8 + lenN (iso_hdlr_payload (o_hdlr_predef o) (o_handler o) (o_hdlr_reserved o) (o_hdlr_name o)) =? 0) = true).
    { apply negb_true_iff, N.eqb_neq. lia. }
    rewrite Z. rd_step.
    change (boxtype_of_u32 cc_hdlr) with HdlrBox. cbv iota.
    change (-8)%Z with (- Z.of_N 8)%Z.
    rewrite run_seek_rel_back by (clear -Hp; unfold U64; lia).
    replace (p + 8 + N.of_nat 4 + N.of_nat 4 - 8) with (p + 8) by lia.
    rewrite Hd. exact T.
Qed.

(** ** The user-data box *)
Lemma udta_dispatch_other m f c s (a : option meta) : c <> cc_meta ->
  udta_dispatch m f (boxtype_of_u32 c) s a = (skip_box m s ;;; Ret a).
Proof.
  intros H1. pose proof (boxtype_code_inv c _ eq_refl) as E.
  destruct (boxtype_of_u32 c); try reflexivity; exfalso; vm_compute in E; unfold cc_meta in *; congruence.
Qed.

Definition udta_fuel (o : opts) (t : tags) : nat :=
  (length (iso_udta_children o t) + meta_fuel o t)%nat.

Lemma child_ok_meta m psize o t :
  opts_ok o ->
  child_size (cc_meta, iso_meta_payload o t) < U32 -> child_size (cc_meta, iso_meta_payload o t) <= psize ->
  child_ok psize (fun f (_ : N) => udta_dispatch m f) (meta_fuel o t) (cc_meta, iso_meta_payload o t)
           (fun _ => Some (meta_result o t)).
Proof.
  intros Hok H1 H2. split; [vm_compute; reflexivity|]. split; [exact H1|]. split; [exact H2|].
  intros f acc d l p rest Hf Hd Hp. unfold child_size in *. cbn [fst snd] in *.
  change (boxtype_of_u32 cc_meta) with MetaBox. cbn [udta_dispatch].
  rewrite (run_bind_ok _ _ _ _ _ (meta_dec_meta f m o t d l p rest Hok Hf H1 Hp Hd)).
  reflexivity.
Qed.

Lemma Forall2_udta_noise m psize need cs :
  noise_ok [cc_meta] cs ->
  (forall c, In c cs -> child_size c < U32 /\ child_size c <= psize) ->
  Forall2 (child_ok psize (fun f (_ : N) => udta_dispatch m f) need) cs (ids cs).
Proof.
  intros Hn Hs. apply Forall2_ids with (m := m). intros c Hc.
  destruct (noise_ok_in _ _ _ Hn Hc) as [X1 X2]. destruct (Hs c Hc). cbn [In] in X2.
  repeat split; auto. intros. apply udta_dispatch_other. intros E. apply X2. now left.
Qed.

Lemma meta_dec_udta_children fuel m (uc : list child) effs (res : option meta) need d l p rest :
  Forall2 (child_ok (8 + lenN (iso_boxes uc)) (fun f (_ : N) => udta_dispatch m f) need) uc effs ->
  fold_left (fun a e => e a) effs None = res ->
  (length uc + need <= fuel)%nat ->
  8 + lenN (iso_boxes uc) < U32 -> p + (8 + lenN (iso_boxes uc)) < 2 ^ 63 ->
  dropN (p + 8) d = iso_boxes uc ++ rest ->
  run (dec_udta_fuel fuel m (8 + lenN (iso_boxes uc))) (mkStream d l (p + 8) (iso_boxes uc ++ rest))
  = (Ok (mkUdta res), mkStream d l (p + (8 + lenN (iso_boxes uc))) rest).
Proof.
  intros F R Hf Hs Hp Hd. unfold dec_udta_fuel.
  rewrite run_box_start, run_get_pos_bind. cbn [s_pos].
  rewrite run_add64_ok by (clear -Hp; unfold U64; lia).
  unfold children_loop.
  rewrite (run_bind_ok _ _ _ _ _
            (run_children_loop_list m _ _ (fun a _ => a) need uc _ F fuel None d l (p + 8) rest
               (p + (8 + lenN (iso_boxes uc))) Hf Hd ltac:(lia) Hp)).
  rewrite R.
  rewrite run_add64_ok by (clear -Hp; unfold U64; lia).
  unfold skip_bytes_to, seek_to. cbn [bind].
  rewrite run_SeekTo_here by lia. reflexivity.
Qed.

Lemma meta_dec_udta fuel m o t d l p rest :
  opts_ok o -> (udta_fuel o t <= fuel)%nat ->
  let uc := iso_udta_children o t in
  8 + lenN (iso_boxes uc) < U32 -> p + (8 + lenN (iso_boxes uc)) < 2 ^ 63 ->
  dropN (p + 8) d = iso_boxes uc ++ rest ->
  run (dec_udta_fuel fuel m (8 + lenN (iso_boxes uc))) (mkStream d l (p + 8) (iso_boxes uc ++ rest))
  = (Ok (mkUdta (Some (meta_result o t))), mkStream d l (p + (8 + lenN (iso_boxes uc))) rest).
Proof.
  intros Hok Hf uc Hs Hp Hd.
  pose proof Hok as (_ & _ & _ & _ & _ & _ & _ & _ & _ & Hpre & Hpost & _).
  assert (Hsz : forall c, In c uc -> child_size c < U32 /\ child_size c <= 8 + lenN (iso_boxes uc)).
  { intros c Hc. pose proof (child_size_le c uc Hc). lia. }
  eapply meta_dec_udta_children with (need := meta_fuel o t)
    (effs := ids (o_udta_pre o) ++ [fun _ => Some (meta_result o t)] ++ ids (o_udta_post o)); auto.
  - unfold uc at 2. unfold iso_udta_children. apply Forall2_app; [|apply Forall2_app].
    + apply Forall2_udta_noise; auto. intros c Hc. apply Hsz. unfold uc, iso_udta_children.
      rewrite !in_app_iff. auto.
    + constructor; [|constructor].
      assert (In (cc_meta, iso_meta_payload o t) uc).
      { unfold uc, iso_udta_children. rewrite !in_app_iff. cbn [In]. auto. }
      destruct (Hsz _ H). apply child_ok_meta; auto.
    + apply Forall2_udta_noise; auto. intros c Hc. apply Hsz. unfold uc, iso_udta_children.
      rewrite !in_app_iff. auto.
  - rewrite !fold_left_app. cbn [fold_left]. now rewrite !fold_ids.
Qed.

(** a user-data box without a meta box *)
Lemma meta_dec_udta_plain fuel m (others : list child) d l p rest :
  noise_ok [cc_meta] others -> (length others <= fuel)%nat ->
  8 + lenN (iso_boxes others) < U32 -> p + (8 + lenN (iso_boxes others)) < 2 ^ 63 ->
  dropN (p + 8) d = iso_boxes others ++ rest ->
  run (dec_udta_fuel fuel m (8 + lenN (iso_boxes others)))
      (mkStream d l (p + 8) (iso_boxes others ++ rest))
  = (Ok (mkUdta None), mkStream d l (p + (8 + lenN (iso_boxes others))) rest).
Proof.
  intros Hn Hf Hs Hp Hd.
  eapply meta_dec_udta_children with (need := 0%nat) (effs := ids others); auto.
  - apply Forall2_udta_noise; auto. intros c Hc. pose proof (child_size_le c others Hc). lia.
  - apply fold_ids.
  - lia.
Qed.

(** ** The map of items: [insert] / [get] *)
Lemma ilst_get_app k l1 l2 :
  ilst_get k (l1 ++ l2) = match ilst_get k l2 with Some v => Some v | None => ilst_get k l1 end.
Proof.
  induction l1 as [|[k' v] t IH]; cbn [app ilst_get].
  - now destruct (ilst_get k l2).
  - rewrite IH. destruct (ilst_get k l2); auto.
Qed.

Lemma mkey_eqb_eq a b : mkey_eqb a b = true <-> a = b.
Proof. destruct a, b; cbn; split; congruence. Qed.

Lemma ilst_get_filter k k' l : k <> k' ->
  ilst_get k (filter (fun p => negb (mkey_eqb (fst p) k')) l) = ilst_get k l.
Proof.
  intros Hne. induction l as [|[k2 v] t IH]; cbn [filter ilst_get fst]; auto.
  destruct (mkey_eqb k2 k') eqn:E; cbn [negb ilst_get].
  - apply mkey_eqb_eq in E. subst k2. rewrite IH.
    destruct (ilst_get k t); auto.
    destruct (mkey_eqb k' k) eqn:E2; auto. apply mkey_eqb_eq in E2. congruence.
  - rewrite IH. reflexivity.
Qed.

Lemma ilst_get_filter_same k l :
  ilst_get k (filter (fun p => negb (mkey_eqb (fst p) k)) l) = None.
Proof.
  induction l as [|[k2 v] t IH]; cbn [filter ilst_get fst]; auto.
  destruct (mkey_eqb k2 k) eqn:E; cbn [negb ilst_get]; auto.
  rewrite IH, E. reflexivity.
Qed.

Lemma ilst_get_insert k k' v l :
  ilst_get k (ilst_insert k' v l) = if mkey_eqb k' k then Some v else ilst_get k l.
Proof.
  unfold ilst_insert. rewrite ilst_get_app. cbn [ilst_get].
  destruct (mkey_eqb k' k) eqn:E; auto.
  apply ilst_get_filter. intros ->. destruct k'; discriminate.
Qed.

Definition tag_key_eqb (a b : tag_key) : bool :=
  match a, b with
  | TTitle, TTitle | TYear, TYear | TPoster, TPoster | TSummary, TSummary => true
  | _, _ => false
  end.

(** the key occurs in the layout *)
Definition key_in (k : tag_key) (lay : list slot) : bool :=
  existsb (fun s => match s with SKey k' => tag_key_eqb k k' | SNoise _ _ => false end) lay.

Lemma key_of_eqb a b : mkey_eqb (key_of a) (key_of b) = tag_key_eqb a b.
Proof. destruct a, b; reflexivity. Qed.

Lemma tag_key_eqb_sym a b : tag_key_eqb a b = tag_key_eqb b a.
Proof. destruct a, b; reflexivity. Qed.

Lemma ilst_result_get_gen t pnm k lay acc :
  ilst_get (key_of k) (fold_left (fun a e => e a) (flat_map (slot_effs t pnm) lay) acc)
  = match (if key_in k lay then exp_item t pnm (key_of k) else None) with
    | Some it => Some it
    | None => ilst_get (key_of k) acc
    end.
Proof.
  revert acc. induction lay as [|s lay IH]; intros acc; cbn [flat_map key_in existsb]; auto.
  rewrite fold_left_app, IH. fold (key_in k lay).
  destruct s as [k'|c p]; cbn [slot_effs orb].
  - destruct (exp_item t pnm (key_of k')) as [it|] eqn:Ei; cbn [fold_left].
    + rewrite ilst_get_insert, key_of_eqb, (tag_key_eqb_sym k k').
      destruct (tag_key_eqb k' k) eqn:E; cbn [orb].
      * assert (k' = k) by (destruct k', k; try discriminate; reflexivity). subst k'.
        rewrite Ei. now destruct (key_in k lay).
      * reflexivity.
    + destruct (tag_key_eqb k k') eqn:E; cbn [orb]; auto.
      assert (k' = k) by (destruct k', k; try discriminate; reflexivity). subst k'.
      rewrite Ei. now destruct (key_in k lay).
  - cbn [fold_left]. reflexivity.
Qed.

Lemma ilst_result_get o t pnm k :
  ilst_get (key_of k) (ilst_result o t pnm)
  = if key_in k (o_layout o) then exp_item t pnm (key_of k) else None.
Proof.
  unfold ilst_result. rewrite ilst_result_get_gen. cbn [ilst_get].
  now destruct (if key_in k (o_layout o) then _ else _).
Qed.

(** ** Decimal text: [str::parse::<u32>] inverts the reference renderer *)
Definition digit_ok (d : N) : Prop := 48 <= d <= 57.

Fixpoint unle10 (l : bytes) : N :=
  match l with [] => 0 | d :: t => (d - 48) + 10 * unle10 t end.

Fixpoint dval (acc : N) (l : bytes) : N :=
  match l with [] => acc | d :: t => dval (acc * 10 + (d - 48)) t end.

Lemma digits_le_ok f n : Forall digit_ok (iso_digits_le f n).
Proof.
  revert n; induction f as [|f IH]; intros n; cbn [iso_digits_le]; constructor.
  - unfold digit_ok. pose proof (N.mod_lt n 10). lia.
  - destruct (n / 10 =? 0); [constructor | apply IH].
Qed.

Lemma digits_le_val f n : n < 10 ^ N.of_nat f -> unle10 (iso_digits_le f n) = n.
Proof.
  revert n; induction f as [|f IH]; intros n Hn.
  - change (10 ^ N.of_nat 0) with 1 in Hn. cbn [iso_digits_le unle10]. lia.
  - cbn [iso_digits_le unle10].
    replace (N.of_nat (S f)) with (N.succ (N.of_nat f)) in Hn by lia.
    rewrite N.pow_succ_r' in Hn.
    destruct (N.eqb_spec (n / 10) 0) as [E|E].
    + cbn [unle10]. clear -E. pose proof (N.div_mod n 10). lia.
    + rewrite IH by (apply N.div_lt_upper_bound; lia).
      clear. pose proof (N.div_mod n 10). lia.
Qed.

Lemma dval_app acc l d : dval acc (l ++ [d]) = dval acc l * 10 + (d - 48).
Proof. revert acc; induction l as [|x t IH]; intros acc; cbn [app dval]; auto. Qed.

Lemma dval_rev l : dval 0 (rev l) = unle10 l.
Proof.
  induction l as [|d t IH]; cbn [rev unle10 dval]; auto.
  rewrite dval_app, IH. lia.
Qed.

Lemma dval_mono acc l : acc <= dval acc l.
Proof.
  revert acc; induction l as [|d t IH]; intros acc; cbn [dval]; [lia|].
  specialize (IH (acc * 10 + (d - 48))). lia.
Qed.

Lemma parse_digits_dval l acc : Forall digit_ok l -> dval acc l < U32 ->
  parse_digits acc l = Some (dval acc l).
Proof.
  revert acc; induction l as [|d t IH]; intros acc Hd Hv; cbn [parse_digits dval] in *; auto.
  inversion Hd as [|? ? Hd1 Hd2]; subst.
  assert (E : in_range 48 57 d = true).
  { unfold in_range, digit_ok in *. apply andb_true_iff; split; apply N.leb_le; lia. }
  rewrite E.
  pose proof (dval_mono (acc * 10 + (d - 48)) t) as Hm.
  assert (E2 : (acc * 10 + (d - 48) <? U32) = true) by (apply N.ltb_lt; lia).
  rewrite E2. now apply IH.
Qed.

Lemma parse_u32_digit d t : digit_ok d -> parse_u32 (d :: t) = parse_digits 0 (d :: t).
Proof.
  unfold digit_ok. intros H.
  assert (X : d = 48 \/ d = 49 \/ d = 50 \/ d = 51 \/ d = 52 \/ d = 53 \/ d = 54 \/ d = 55 \/ d = 56 \/ d = 57)
    by lia.
  destruct X as [->|[->|[->|[->|[->|[->|[->|[->|[->| ->]]]]]]]]]; reflexivity.
Qed.

Lemma iso_decimal_digits n : Forall digit_ok (iso_decimal n).
Proof. unfold iso_decimal. apply Forall_rev. apply digits_le_ok. Qed.

Lemma parse_u32_decimal n : n < U32 -> parse_u32 (iso_decimal n) = Some n.
Proof.
  intros Hn.
  assert (V : dval 0 (iso_decimal n) = n).
  { unfold iso_decimal. rewrite dval_rev. apply digits_le_val.
    eapply N.lt_trans; [exact Hn|]. vm_compute. reflexivity. }
  pose proof (iso_decimal_digits n) as D.
  destruct (iso_decimal n) as [|d t] eqn:E.
  - exfalso. unfold iso_decimal in E. cbn [iso_digits_le] in E.
    apply (f_equal (@length N)) in E. rewrite rev_length in E. cbn [length] in E. lia.
  - pose proof (Forall_inv D) as D1. rewrite parse_u32_digit by exact D1.
    rewrite parse_digits_dval by (first [exact D | rewrite V; exact Hn]). now rewrite V.
Qed.

Lemma utf8_valid_ascii_fuel fuel l : Forall (fun b => b < 128) l -> utf8_valid_fuel fuel l = true.
Proof.
  revert l; induction fuel as [|f IH]; intros l H; cbn [utf8_valid_fuel]; auto.
  destruct l as [|b t]; auto. inversion H; subst.
  unfold utf8_head. assert (E : (b <? 128) = true) by (apply N.ltb_lt; assumption). rewrite E.
  cbn [skipn andb]. now apply IH.
Qed.

Lemma utf8_valid_decimal n : utf8_valid (iso_decimal n) = true.
Proof.
  unfold utf8_valid. apply utf8_valid_ascii_fuel.
  eapply Forall_impl; [|apply iso_decimal_digits]. unfold digit_ok. intros; lia.
Qed.

(** ** The accessors *)

(** [Mp4Reader::metadata] below the moov level *)
Definition udta_ilst (u : udta) : option ilst :=
  match udta_meta u with
  | Some (MetaMdir il) => il
  | _ => None
  end.

Lemma rd_metadata_udta r :
  rd_metadata r = match moov_udta (rd_moov r) with Some u => udta_ilst u | None => None end.
Proof. reflexivity. Qed.

Definition tags_ok (t : tags) : Prop :=
  (forall v, tg_title t = Some v -> utf8_valid v = true)
  /\ (forall y, tg_year t = Some y -> year_value y < U32)
  /\ (forall v, tg_summary t = Some v -> utf8_valid v = true).

(** what the four accessors must answer *)
Definition expected (o : opts) (t : tags) : option bytes * option N * option bytes * option bytes :=
  if o_handler o =? cc_mdir then
    (if key_in TTitle (o_layout o) then tg_title t else None,
     if key_in TYear (o_layout o) then option_map year_value (tg_year t) else None,
     if key_in TPoster (o_layout o) then tg_poster t else None,
     if key_in TSummary (o_layout o) then tg_summary t else None)
  else (None, None, None, None).

Definition answers (i : option ilst) : option bytes * option N * option bytes * option bytes :=
  (md_title i, md_year i, md_poster i, md_summary i).

Lemma meta_result_answers o t : tags_ok t ->
  answers (udta_ilst (mkUdta (Some (meta_result o t)))) = expected o t.
Proof.
  intros (Ht & Hy & Hs). unfold answers, expected, udta_ilst, meta_result. cbn [udta_meta].
  destruct (o_handler o =? cc_mdir); [|reflexivity].
  set (pnm := poster_type_name (o_poster_type o)).
  unfold md_title, md_year, md_poster, md_summary, ilst_title, ilst_year, ilst_poster, ilst_summary.
  cbn [ilst_items].
  change KTitle with (key_of TTitle). change KYear with (key_of TYear).
  change KPoster with (key_of TPoster). change KSummary with (key_of TSummary).
  rewrite !ilst_result_get. cbn [key_of exp_item].
  f_equal; [f_equal; [f_equal|]|].
  - destruct (key_in TTitle (o_layout o)); [|reflexivity].
    destruct (tg_title t) as [v|] eqn:E; [|reflexivity]. cbn [option_map].
    unfold item_to_str. cbn [ilst_item_data data_data]. now rewrite utf8_lossy_valid by auto.
  - destruct (key_in TYear (o_layout o)); [|reflexivity].
    destruct (tg_year t) as [[n|n]|] eqn:E; [| |reflexivity]; cbn [option_map year_value];
      specialize (Hy _ eq_refl); cbn [year_value] in Hy; unfold item_to_u32;
      cbn [ilst_item_data data_data data_data_type String.eqb Ascii.eqb Bool.eqb].
    + rewrite utf8_lossy_valid by apply utf8_valid_decimal. now apply parse_u32_decimal.
    + rewrite lenN_be. cbn [N.of_nat]. change (N.of_nat 4 =? 4) with true. cbv iota.
      rewrite unbe_be by (rewrite pow256_4; exact Hy). reflexivity.
  - destruct (key_in TPoster (o_layout o)); [|reflexivity].
    destruct (tg_poster t) as [v|]; reflexivity.
  - destruct (key_in TSummary (o_layout o)); [|reflexivity].
    destruct (tg_summary t) as [v|] eqn:E; [|reflexivity]. cbn [option_map].
    unfold item_to_str. cbn [ilst_item_data data_data]. now rewrite utf8_lossy_valid by auto.
Qed.

(** *** The udta-level theorem: header + body, anywhere in any stream *)
Lemma lenN_iso_udta o t : lenN (iso_udta o t) = 8 + lenN (iso_boxes (iso_udta_children o t)).
Proof. unfold iso_udta. apply lenN_iso_box. Qed.

Lemma stream_box pre code payload post :
  let data := pre ++ iso_box code payload ++ post in
  stream_at data (lenN pre)
  = mkStream data (lenN data) (lenN pre) (be 4 (8 + lenN payload) ++ be 4 code ++ payload ++ post)
  /\ dropN (lenN pre + 8) data = payload ++ post
  /\ stream_at data (lenN pre + (8 + lenN payload))
     = mkStream data (lenN data) (lenN pre + (8 + lenN payload)) post.
Proof.
  intros data. unfold stream_at.
  assert (D0 : dropN (lenN pre) data = be 4 (8 + lenN payload) ++ be 4 code ++ payload ++ post).
  { unfold data. rewrite dropN_app. unfold iso_box. now rewrite <- !app_assoc. }
  assert (D1 : dropN (lenN pre + 8) data = payload ++ post).
  { eapply dropN_plus; [rewrite app_assoc in D0; exact D0|]. rewrite lenN_app, !lenN_be. reflexivity. }
  repeat split.
  - now rewrite D0.
  - exact D1.
  - f_equal. replace (lenN pre + (8 + lenN payload)) with (lenN pre + 8 + lenN payload) by lia.
    eapply dropN_plus; [exact D1 | reflexivity].
Qed.

Lemma metadata_sound_lemma : forall (m : mode) (fuel : nat) (o : opts) (t : tags) (pre post : bytes),
  opts_ok o -> tags_ok t ->
  lenN (iso_udta o t) < U32 ->
  lenN pre + lenN (iso_udta o t) < 2 ^ 63 ->
  (udta_fuel o t <= fuel)%nat ->
  let data := pre ++ iso_udta o t ++ post in
  exists u,
    run (h <- read_header ;; u <- dec_udta_fuel fuel m (snd h) ;; Ret (fst h, u))
        (stream_at data (lenN pre))
    = (Ok (UdtaBox, u), stream_at data (lenN pre + lenN (iso_udta o t)))
    /\ answers (udta_ilst u) = expected o t.
Proof.
  intros m fuel o t pre post Hok Htg Hs Hp Hf data.
  exists (mkUdta (Some (meta_result o t))). split; [|now apply meta_result_answers].
  rewrite lenN_iso_udta in *.
  destruct (stream_box pre cc_udta (iso_boxes (iso_udta_children o t)) post) as (S1 & D1 & S2).
  unfold data, iso_udta. rewrite S1, S2.
  rewrite run_read_header_bind by (first [ exact Hs | clear; lia | vm_compute; reflexivity ]).
  cbn [fst snd].
  rewrite (run_bind_ok _ _ _ _ _ (meta_dec_udta fuel m o t _ _ (lenN pre) post Hok Hf Hs Hp D1)).
  reflexivity.
Qed.

(** no meta box in the user data: every accessor answers None *)
Lemma metadata_absent_lemma : forall (m : mode) (fuel : nat) (others : list (N * bytes)) (pre post : bytes),
  noise_ok [cc_meta] others ->
  lenN (iso_udta_plain others) < U32 ->
  lenN pre + lenN (iso_udta_plain others) < 2 ^ 63 ->
  (length others <= fuel)%nat ->
  let data := pre ++ iso_udta_plain others ++ post in
  exists u,
    run (h <- read_header ;; u <- dec_udta_fuel fuel m (snd h) ;; Ret (fst h, u))
        (stream_at data (lenN pre))
    = (Ok (UdtaBox, u), stream_at data (lenN pre + lenN (iso_udta_plain others)))
    /\ answers (udta_ilst u) = (None, None, None, None).
Proof.
  intros m fuel others pre post Hn Hs Hp Hf data.
  exists (mkUdta None). split; [|reflexivity].
  assert (L : lenN (iso_udta_plain others) = 8 + lenN (iso_boxes others)) by apply lenN_iso_box.
  rewrite L in *.
  destruct (stream_box pre cc_udta (iso_boxes others) post) as (S1 & D1 & S2).
  unfold data, iso_udta_plain. rewrite S1, S2.
  rewrite run_read_header_bind by (first [ exact Hs | clear; lia | vm_compute; reflexivity ]).
  cbn [fst snd].
  rewrite (run_bind_ok _ _ _ _ _ (meta_dec_udta_plain fuel m others _ _ (lenN pre) post Hn Hf Hs Hp D1)).
  reflexivity.
Qed.

(** a reader whose moov has no udta answers None (by definition of [rd_metadata]) *)
Lemma metadata_no_udta_lemma r : moov_udta (rd_moov r) = None ->
  answers (rd_metadata r) = (None, None, None, None).
Proof. intros H. unfold rd_metadata. rewrite H. reflexivity. Qed.

(** ** A whole file: ftyp, moov (mvhd, other boxes, the user data), other top-level boxes *)
Definition cc_ftyp : N := 0x66747970.
Definition cc_moov : N := 0x6d6f6f76.
Definition cc_mvhd : N := 0x6d766864.

(** [uparts]: zero or one user-data box, as (code, payload) *)
Definition movie_file (f : ftyp) (mv : mvhd) (mnoise uparts tail : list child) : bytes :=
  wout (enc_ftyp f) ++
  iso_box cc_moov (wout (enc_mvhd mv) ++ iso_boxes mnoise ++ iso_boxes uparts) ++
  iso_boxes tail.

Definition moov_children (mv : mvhd) (mnoise uparts : list child) : list child :=
  (cc_mvhd, mvhd_payload mv) :: mnoise ++ uparts.

Definition file_children (f : ftyp) (mv : mvhd) (mnoise uparts tail : list child) : list child :=
  (cc_ftyp, iso_ftyp_payload f) :: (cc_moov, iso_boxes (moov_children mv mnoise uparts)) :: tail.

Lemma leaf_box {X} wf size code enc dec payload (v : X) :
  @leaf_roundtrip X wf size code enc dec payload -> wf v = true -> size v < U32 ->
  wout (enc v) = iso_box code (payload v) /\ 8 + lenN (payload v) = size v.
Proof.
  intros RT Hw Hs. destruct (RT v Hw Hs) as (_ & _ & Ho & Hl & _).
  split; [|lia]. rewrite Ho. unfold iso_box. replace (8 + lenN (payload v)) with (size v) by lia. reflexivity.
Qed.

Lemma movie_file_boxes f mv mnoise uparts tail :
  ftyp_wf f = true -> ftyp_size f < U32 -> mvhd_wf mv = true -> mvhd_size mv < U32 ->
  movie_file f mv mnoise uparts tail = iso_boxes (file_children f mv mnoise uparts tail).
Proof.
  intros H1 H2 H3 H4. unfold movie_file, file_children, moov_children.
  destruct (leaf_box _ _ _ _ _ _ f ftyp_roundtrip H1 H2) as [-> _].
  destruct (leaf_box _ _ _ _ _ _ mv mvhd_roundtrip H3 H4) as [-> _].
  rewrite !iso_boxes_cons, iso_boxes_app. cbn [fst snd]. reflexivity.
Qed.


Lemma moov_dispatch_other m f c s (a : moov_acc) :
  ~ In c [cc_mvhd; cc_meta; 0x6d766578; 0x7472616b; cc_udta] ->
  moov_dispatch m f (boxtype_of_u32 c) s a = (skip_box m s ;;; Ret a).
Proof.
  intros H1. pose proof (boxtype_code_inv c _ eq_refl) as E.
  destruct a as [[[[mh me] ud] mx] tr]. cbn [In] in H1.
  destruct (boxtype_of_u32 c); try reflexivity; exfalso; vm_compute in E;
    unfold cc_mvhd, cc_meta, cc_udta in *; apply H1; subst c; tauto.
Qed.

Lemma open_dispatch_other m f p c s (a : open_acc) :
  ~ In c [cc_ftyp; cc_moov; 0x6d6f6f66; 0x656d7367] ->
  open_dispatch m f p (boxtype_of_u32 c) s a = (skip_box m s ;;; Ret a).
Proof.
  intros H1. pose proof (boxtype_code_inv c _ eq_refl) as E.
  destruct a as [[[[ft mv] moofs] offs] emsgs]. cbn [In] in H1.
  destruct (boxtype_of_u32 c); try reflexivity; exfalso; vm_compute in E;
    unfold cc_ftyp, cc_moov in *; apply H1; subst c; tauto.
Qed.

Definition set_mvhd (v : mvhd) (a : moov_acc) : moov_acc :=
  let '(mh, me, ud, mx, tr) := a in (Some v, me, ud, mx, tr).
Definition set_udta (u : udta) (a : moov_acc) : moov_acc :=
  let '(mh, me, ud, mx, tr) := a in (mh, me, Some u, mx, tr).

Lemma child_ok_mvhd m psize need mv :
  mvhd_wf mv = true -> mvhd_size mv < U32 -> mvhd_size mv <= psize ->
  child_ok psize (fun f (_ : N) => moov_dispatch m f) need (cc_mvhd, mvhd_payload mv) (set_mvhd mv).
Proof.
  intros Hw Hs Hp. destruct (mvhd_roundtrip mv Hw Hs) as (_ & _ & _ & Hl & Hd).
  unfold child_ok, child_size. cbn [fst snd].
  replace (8 + lenN (mvhd_payload mv)) with (mvhd_size mv) by lia.
  split; [vm_compute; reflexivity|]. split; [exact Hs|]. split; [exact Hp|].
  intros f acc d l p rest _ _ Hpp. destruct acc as [[[[mh me] ud] mx] tr].
  change (boxtype_of_u32 cc_mvhd) with MvhdBox. cbn [moov_dispatch].
  rewrite (run_bind_ok _ _ _ _ _ (Hd m d l p rest Hpp)). reflexivity.
Qed.

(** the user-data child of the moov loop, for any decoded value *)
Definition udta_child_ok (m : mode) (need : nat) (c : child) (u : udta) : Prop :=
  fst c = cc_udta /\
  forall f d l p rest, (need <= f)%nat -> child_size c < U32 ->
    dropN (p + 8) d = snd c ++ rest -> p + child_size c < 2 ^ 63 ->
    run (dec_udta_fuel f m (child_size c)) (mkStream d l (p + 8) (snd c ++ rest))
    = (Ok u, mkStream d l (p + child_size c) rest).

Lemma child_ok_udta m psize need c u :
  udta_child_ok m need c u -> child_size c < U32 -> child_size c <= psize ->
  child_ok psize (fun f (_ : N) => moov_dispatch m f) need c (set_udta u).
Proof.
  intros [Hc Hd] Hs Hp. unfold child_ok. rewrite Hc.
  split; [vm_compute; reflexivity|]. split; [exact Hs|]. split; [exact Hp|].
  intros f acc d l p rest Hf Hdd Hpp. destruct acc as [[[[mh me] ud] mx] tr].
  change (boxtype_of_u32 cc_udta) with UdtaBox. cbn [moov_dispatch].
  rewrite (run_bind_ok _ _ _ _ _ (Hd f d l p rest Hf Hs Hdd Hpp)). reflexivity.
Qed.

Lemma Forall2_moov_noise m psize need cs :
  noise_ok [cc_mvhd; cc_meta; 0x6d766578; 0x7472616b; cc_udta] cs ->
  (forall c, In c cs -> child_size c < U32 /\ child_size c <= psize) ->
  Forall2 (child_ok psize (fun f (_ : N) => moov_dispatch m f) need) cs (ids cs).
Proof.
  intros Hn Hs. apply Forall2_ids with (m := m). intros c Hc.
  destruct (noise_ok_in _ _ _ Hn Hc) as [X1 X2]. destruct (Hs c Hc).
  repeat split; auto. intros. now apply moov_dispatch_other.
Qed.

Lemma Forall2_open_noise m psize need cs :
  noise_ok [cc_ftyp; cc_moov; 0x6d6f6f66; 0x656d7367] cs ->
  (forall c, In c cs -> child_size c < U32 /\ child_size c <= psize) ->
  Forall2 (child_ok psize (open_dispatch m) need) cs (ids cs).
Proof.
  intros Hn Hs. apply Forall2_ids with (m := m). intros c Hc.
  destruct (noise_ok_in _ _ _ Hn Hc) as [X1 X2]. destruct (Hs c Hc).
  repeat split; auto. intros. now apply open_dispatch_other.
Qed.

(** the moov box with an mvhd, unrelated boxes and at most one udta *)
Lemma meta_dec_moov fuel m mv mnoise (uparts : list child) (uo : option udta) need d l p rest :
  mvhd_wf mv = true -> mvhd_size mv < U32 ->
  noise_ok [cc_mvhd; cc_meta; 0x6d766578; 0x7472616b; cc_udta] mnoise ->
  match uparts, uo with
  | [], None => True
  | [c], Some u => udta_child_ok m need c u
  | _, _ => False
  end ->
  let cs := moov_children mv mnoise uparts in
  (length cs + need <= fuel)%nat ->
  8 + lenN (iso_boxes cs) < U32 -> p + (8 + lenN (iso_boxes cs)) < 2 ^ 63 ->
  dropN (p + 8) d = iso_boxes cs ++ rest ->
  run (dec_moov_fuel fuel m (8 + lenN (iso_boxes cs))) (mkStream d l (p + 8) (iso_boxes cs ++ rest))
  = (Ok (mkMoov mv None None [] uo), mkStream d l (p + (8 + lenN (iso_boxes cs))) rest).
Proof.
  intros Hw Hms Hn Hu cs Hf Hs Hp Hd.
  remember (8 + lenN (iso_boxes cs)) as ps eqn:Eps.
  assert (Hsz : forall c, In c cs -> child_size c < U32 /\ child_size c <= ps).
  { intros c Hc. pose proof (child_size_le c cs Hc). lia. }
  assert (F : exists effs, Forall2 (child_ok ps (fun f (_ : N) => moov_dispatch m f) need) cs effs
                /\ fold_left (fun a e => e a) effs (None, None, None, None, []) = (Some mv, None, uo, None, [])).
  { assert (Hin1 : In (cc_mvhd, mvhd_payload mv) cs) by (left; reflexivity).
    assert (M : child_ok ps (fun f (_ : N) => moov_dispatch m f) need (cc_mvhd, mvhd_payload mv) (set_mvhd mv)).
    { destruct (Hsz _ Hin1) as [A B]. apply child_ok_mvhd; auto.
      unfold child_size in B. cbn [snd] in B.
      destruct (mvhd_roundtrip mv Hw Hms) as (_ & _ & _ & Hl & _). lia. }
    assert (NZ : Forall2 (child_ok ps (fun f (_ : N) => moov_dispatch m f) need) mnoise (ids mnoise)).
    { apply Forall2_moov_noise; auto. intros c Hc. apply Hsz. right. apply in_app_iff. now left. }
    destruct uparts as [|c [|c2 t2]], uo as [u|]; try contradiction.
    - exists (set_mvhd mv :: ids mnoise ++ []). split.
      + unfold cs, moov_children. constructor; [exact M|]. apply Forall2_app; [exact NZ|constructor].
      + cbn [fold_left]. rewrite fold_left_app, fold_ids. reflexivity.
    - exists (set_mvhd mv :: ids mnoise ++ [set_udta u]). split.
      + unfold cs, moov_children. constructor; [exact M|]. apply Forall2_app; [exact NZ|].
        constructor; [|constructor].
        assert (In c cs) by (right; apply in_app_iff; right; now left).
        destruct (Hsz _ H). now apply child_ok_udta.
      + cbn [fold_left]. rewrite fold_left_app, fold_ids. reflexivity. }
  destruct F as (effs & F & R).
  unfold dec_moov_fuel.
  rewrite run_box_start, run_get_pos_bind. cbn [s_pos].
  rewrite run_add64_ok by (clear -Hp; unfold U64; lia).
  unfold children_loop.
  rewrite (run_bind_ok _ _ _ _ _
            (run_children_loop_list m _ _ (fun a _ => a) need cs _ F fuel _ d l (p + 8) rest
               (p + ps) Hf Hd ltac:(lia) Hp)).
  rewrite R.
  rewrite run_add64_ok by (clear -Hp; unfold U64; lia).
  unfold skip_bytes_to, seek_to. cbn [bind].
  rewrite run_SeekTo_here by lia. reflexivity.
Qed.

Definition set_ftyp (v : ftyp) (a : open_acc) : open_acc :=
  let '(ft, mv, moofs, offs, emsgs) := a in (Some v, mv, moofs, offs, emsgs).
Definition set_moov (v : moov) (a : open_acc) : open_acc :=
  let '(ft, mv, moofs, offs, emsgs) := a in (ft, Some v, moofs, offs, emsgs).

Lemma child_ok_ftyp m psize need f :
  ftyp_wf f = true -> ftyp_size f < U32 -> ftyp_size f <= psize ->
  child_ok psize (open_dispatch m) need (cc_ftyp, iso_ftyp_payload f) (set_ftyp f).
Proof.
  intros Hw Hs Hp. destruct (ftyp_roundtrip f Hw Hs) as (_ & _ & _ & Hl & Hd).
  unfold child_ok, child_size. cbn [fst snd].
  replace (8 + lenN (iso_ftyp_payload f)) with (ftyp_size f) by lia.
  split; [vm_compute; reflexivity|]. split; [exact Hs|]. split; [exact Hp|].
  intros fu acc d l p rest _ _ Hpp. destruct acc as [[[[ft mv] moofs] offs] emsgs].
  change (boxtype_of_u32 cc_ftyp) with FtypBox. cbn [open_dispatch].
  rewrite (run_bind_ok _ _ _ _ _ (Hd m d l p rest Hpp)). reflexivity.
Qed.

Definition file_fuel (mnoise uparts tail : list child) (need : nat) : nat :=
  (length tail + 2 + (length mnoise + length uparts + 1 + need))%nat.

Lemma meta_open_file fuel m f mv mnoise (uparts : list child) (uo : option udta) need tail :
  ftyp_wf f = true -> ftyp_size f < U32 -> mvhd_wf mv = true -> mvhd_size mv < U32 ->
  noise_ok [cc_mvhd; cc_meta; 0x6d766578; 0x7472616b; cc_udta] mnoise ->
  noise_ok [cc_ftyp; cc_moov; 0x6d6f6f66; 0x656d7367] tail ->
  match uparts, uo with
  | [], None => True
  | [c], Some u => udta_child_ok m need c u
  | _, _ => False
  end ->
  let file := movie_file f mv mnoise uparts tail in
  lenN file < U32 ->
  (file_fuel mnoise uparts tail need <= fuel)%nat ->
  run (open_fuel fuel m (lenN file)) (stream_at file 0)
  = (Ok (mkReader f (mkMoov mv None None [] uo) [] [] [] (lenN file)), stream_at file (lenN file)).
Proof.
  intros Hfw Hfs Hmw Hms Hmn Htn Hu file Hs Hf.
  unfold file in *. rewrite movie_file_boxes in * by assumption.
  set (cs := file_children f mv mnoise uparts tail) in *.
  set (mc := moov_children mv mnoise uparts).
  set (need' := (length mc + need)%nat).
  remember (lenN (iso_boxes cs)) as size eqn:Esz.
  assert (Hsz : forall c, In c cs -> child_size c < U32 /\ child_size c <= size).
  { intros c Hc. pose proof (child_size_le c cs Hc). lia. }
  assert (Hin1 : In (cc_ftyp, iso_ftyp_payload f) cs) by (left; reflexivity).
  assert (Hin2 : In (cc_moov, iso_boxes mc) cs) by (right; left; reflexivity).
  assert (C1 : child_ok size (open_dispatch m) need' (cc_ftyp, iso_ftyp_payload f) (set_ftyp f)).
  { destruct (Hsz _ Hin1) as [A B]. apply child_ok_ftyp; auto.
    unfold child_size in B. cbn [snd] in B.
    destruct (ftyp_roundtrip f Hfw Hfs) as (_ & _ & _ & Hl & _). lia. }
  assert (C2 : child_ok size (open_dispatch m) need' (cc_moov, iso_boxes mc)
                        (set_moov (mkMoov mv None None [] uo))).
  { destruct (Hsz _ Hin2) as [A B]. unfold child_ok, child_size in *. cbn [fst snd] in *.
    split; [vm_compute; reflexivity|]. split; [exact A|]. split; [exact B|].
    intros fu acc d l p rest Hfu Hd Hp. destruct acc as [[[[ft mv'] moofs] offs] emsgs].
    change (boxtype_of_u32 cc_moov) with MoovBox. cbn [open_dispatch].
    rewrite (run_bind_ok _ _ _ _ _
               (meta_dec_moov fu m mv mnoise uparts uo need d l p rest Hmw Hms Hmn Hu Hfu A Hp Hd)).
    reflexivity. }
  assert (C3 : Forall2 (child_ok size (open_dispatch m) need') tail (ids tail)).
  { apply Forall2_open_noise; auto. intros c Hc. apply Hsz. right. right. exact Hc. }
  assert (F : Forall2 (child_ok size (open_dispatch m) need') cs
                      (set_ftyp f :: set_moov (mkMoov mv None None [] uo) :: ids tail)).
  { unfold cs, file_children. constructor; [exact C1|]. constructor; [exact C2|exact C3]. }
  assert (S0 : stream_at (iso_boxes cs) 0 = mkStream (iso_boxes cs) size 0 (iso_boxes cs ++ [])).
  { unfold stream_at. rewrite dropN_0, app_nil_r, Esz. reflexivity. }
  assert (S1 : stream_at (iso_boxes cs) size = mkStream (iso_boxes cs) size size []).
  { unfold stream_at. rewrite dropN_all by lia. rewrite Esz. reflexivity. }
  rewrite S0, S1. unfold open_fuel.
  rewrite run_get_pos_bind. cbn [s_pos]. unfold children_loop_at.
  assert (Hfuel : (length cs + need' <= fuel)%nat).
  { unfold cs, file_children, need', mc, moov_children, file_fuel in *. cbn [length].
    rewrite app_length. lia. }
  rewrite (run_bind_ok _ _ _ _ _
            (run_children_loop_list m _ _ pair need' cs _ F fuel _ (iso_boxes cs) size 0 [] size
               Hfuel ltac:(now rewrite dropN_0, app_nil_r) ltac:(lia) ltac:(unfold U32 in Hs; lia))).
  cbn [fold_left set_ftyp set_moov]. rewrite fold_ids.
  rewrite run_sub64_ok by lia.
  cbn [moov_traks existsb]. cbv iota. rewrite run_ret_bind.
  rewrite N.sub_0_r. reflexivity.
Qed.

(** the file with the user-data bytes [u] (possibly none) as the last child of moov *)
Definition movie_with_udta (f : ftyp) (mv : mvhd) (mnoise : list child) (u : bytes) (tail : list child) : bytes :=
  wout (enc_ftyp f) ++ iso_box cc_moov (wout (enc_mvhd mv) ++ iso_boxes mnoise ++ u) ++ iso_boxes tail.

Lemma movie_with_udta_one f mv mnoise c tail :
  movie_with_udta f mv mnoise (iso_box (fst c) (snd c)) tail = movie_file f mv mnoise [c] tail.
Proof. unfold movie_with_udta, movie_file. cbn [iso_boxes flat_map]. now rewrite app_nil_r. Qed.

Lemma movie_with_udta_none f mv mnoise tail :
  movie_with_udta f mv mnoise [] tail = movie_file f mv mnoise [] tail.
Proof. reflexivity. Qed.

Definition movie_ok (f : ftyp) (mv : mvhd) (mnoise tail : list child) : Prop :=
  ftyp_wf f = true /\ ftyp_size f < U32 /\ mvhd_wf mv = true /\ mvhd_size mv < U32
  /\ noise_ok [cc_mvhd; cc_meta; 0x6d766578; 0x7472616b; cc_udta] mnoise
  /\ noise_ok [cc_ftyp; cc_moov; 0x6d6f6f66; 0x656d7367] tail.

Definition movie_fuel (o : opts) (t : tags) (mnoise tail : list child) : nat :=
  file_fuel mnoise [(cc_udta, [])] tail (udta_fuel o t).

Lemma metadata_file_sound_lemma : forall (m : mode) (fuel : nat) (o : opts) (t : tags)
    (f : ftyp) (mv : mvhd) (mnoise tail : list (N * bytes)),
  opts_ok o -> tags_ok t -> movie_ok f mv mnoise tail ->
  let file := movie_with_udta f mv mnoise (iso_udta o t) tail in
  lenN file < U32 ->
  (movie_fuel o t mnoise tail <= fuel)%nat ->
  exists r,
    run (open_fuel fuel m (lenN file)) (stream_at file 0) = (Ok r, stream_at file (lenN file))
    /\ rd_ftyp r = f /\ moov_mvhd (rd_moov r) = mv
    /\ answers (rd_metadata r) = expected o t.
Proof.
  intros m fuel o t f mv mnoise tail Hok Htg (M1 & M2 & M3 & M4 & M5 & M6) file Hs Hf.
  set (c := (cc_udta, iso_boxes (iso_udta_children o t))).
  assert (E : file = movie_file f mv mnoise [c] tail) by apply (movie_with_udta_one f mv mnoise c tail).
  exists (mkReader f (mkMoov mv None None [] (Some (mkUdta (Some (meta_result o t))))) [] [] [] (lenN file)).
  split; [|split; [reflexivity|split; [reflexivity|]]].
  - rewrite E in *.
    apply meta_open_file with (need := udta_fuel o t); auto.
    split; [reflexivity|]. intros fu d l p rest Hfu Hsz Hd Hp.
    unfold c, child_size in *. cbn [fst snd] in *.
    now apply meta_dec_udta.
  - unfold rd_metadata. cbn [rd_moov moov_udta].
    now apply (meta_result_answers o t).
Qed.

Lemma metadata_file_absent_lemma : forall (m : mode) (fuel : nat) (others : list (N * bytes))
    (f : ftyp) (mv : mvhd) (mnoise tail : list (N * bytes)),
  noise_ok [cc_meta] others -> movie_ok f mv mnoise tail ->
  let file := movie_with_udta f mv mnoise (iso_udta_plain others) tail in
  lenN file < U32 ->
  (file_fuel mnoise [(cc_udta, [])] tail (length others) <= fuel)%nat ->
  exists r,
    run (open_fuel fuel m (lenN file)) (stream_at file 0) = (Ok r, stream_at file (lenN file))
    /\ answers (rd_metadata r) = (None, None, None, None).
Proof.
  intros m fuel others f mv mnoise tail Hn (M1 & M2 & M3 & M4 & M5 & M6) file Hs Hf.
  set (c := (cc_udta, iso_boxes others)).
  assert (E : file = movie_file f mv mnoise [c] tail) by apply (movie_with_udta_one f mv mnoise c tail).
  exists (mkReader f (mkMoov mv None None [] (Some (mkUdta None))) [] [] [] (lenN file)).
  split; [|reflexivity].
  rewrite E in *.
  apply meta_open_file with (need := length others); auto.
  split; [reflexivity|]. intros fu d l p rest Hfu Hsz Hd Hp.
  unfold c, child_size in *. cbn [fst snd] in *.
  now apply meta_dec_udta_plain.
Qed.

Lemma metadata_file_no_udta_lemma : forall (m : mode) (fuel : nat)
    (f : ftyp) (mv : mvhd) (mnoise tail : list (N * bytes)),
  movie_ok f mv mnoise tail ->
  let file := movie_with_udta f mv mnoise [] tail in
  lenN file < U32 ->
  (file_fuel mnoise [] tail 0 <= fuel)%nat ->
  exists r,
    run (open_fuel fuel m (lenN file)) (stream_at file 0) = (Ok r, stream_at file (lenN file))
    /\ answers (rd_metadata r) = (None, None, None, None).
Proof.
  intros m fuel f mv mnoise tail (M1 & M2 & M3 & M4 & M5 & M6) file Hs Hf.
  exists (mkReader f (mkMoov mv None None [] None) [] [] [] (lenN file)).
  split; [|reflexivity].
  unfold file in *. rewrite movie_with_udta_none in *.
  apply meta_open_file with (need := 0%nat); auto.
Qed.

(** ** What the code does outside the expected semantics *)

(** year text: exactly what [str::parse::<u32>] accepts, after lossy UTF-8 decoding *)
Lemma year_text_forms s :
  item_to_u32 (mkIlstItem (mkData s "Text")) = parse_u32 (utf8_lossy s).
Proof. reflexivity. Qed.

(** binary year: only with exactly four bytes *)
Lemma year_binary_forms v :
  item_to_u32 (mkIlstItem (mkData v "Binary")) = if lenN v =? 4 then Some (unbe v) else None.
Proof. reflexivity. Qed.

(** a year under the remaining value types the library accepts (13, 21) is not reported *)
Lemma year_other_types v :
  item_to_u32 (mkIlstItem (mkData v "Image")) = None
  /\ item_to_u32 (mkIlstItem (mkData v "TempoCpil")) = None.
Proof. split; reflexivity. Qed.

(** the text accessors ignore the value type, and replace ill-formed UTF-8 *)
Lemma text_any_type v nm : item_to_str (mkIlstItem (mkData v nm)) = utf8_lossy v.
Proof. reflexivity. Qed.

(** an item that occurs twice: the last one wins *)
Lemma duplicate_item_last_wins k a b l :
  ilst_get k (ilst_insert k b (ilst_insert k a l)) = Some b.
Proof. rewrite ilst_get_insert. destruct k; reflexivity. Qed.

(** the only type indicators a 'data' box may carry; any other makes [DataBox::read_box] fail *)
Lemma data_type_accepted ty : ty <> 0 -> ty <> 1 -> ty <> 13 -> ty <> 21 ->
  datatype_try_from ty = Err EData.
Proof.
  intros H0 H1 H2 H3. unfold datatype_try_from, enum_try_from, Tables.DataType_tryfrom. cbn [lookup_n].
  destruct (N.eqb_spec ty 0); [contradiction|]. destruct (N.eqb_spec ty 1); [contradiction|].
  destruct (N.eqb_spec ty 13); [contradiction|]. destruct (N.eqb_spec ty 21); [contradiction|]. reflexivity.
Qed.
