(** Lemmas about the muxer model ([Model/Writer.v]) *)
From MP4 Require Import Writer.
From Coq Require Import ZifyN ZifyNat ZifyBool Lia.
Open Scope list_scope.
Open Scope N_scope.

Definition apply_op (m : mode) (w : mwriter) (op : mux_op) : res mwriter :=
  match op with
  | OpAddTrack c => mw_add_track m w c
  | OpWrite id s => mw_write_sample m w id s
  end.

(** A call that fails leaves the writer exactly as it was: the rest of the history runs from the same state. *)
Lemma run_ops_rejected m w op rest acc e :
  apply_op m w op = Err e ->
  run_ops m w (op :: rest) acc = run_ops m w rest (acc ++ [class_of (@Err unit e)]).
Proof. intros H. cbn [run_ops]. unfold apply_op in H. destruct op; rewrite H; reflexivity. Qed.

Lemma run_ops_accepted m w op rest acc w' :
  apply_op m w op = Ok w' ->
  run_ops m w (op :: rest) acc = run_ops m w' rest (acc ++ [COk]).
Proof. intros H. cbn [run_ops]. unfold apply_op in H. destruct op; rewrite H; reflexivity. Qed.

(** the final writer state does not depend on rejected calls *)
Fixpoint accepted_ops (m : mode) (w : mwriter) (ops : list mux_op) : list mux_op :=
  match ops with
  | [] => []
  | op :: rest =>
      match apply_op m w op with
      | Ok w' => op :: accepted_ops m w' rest
      | _ => accepted_ops m w rest
      end
  end.

Lemma rejected_leave_no_trace m : forall ops w acc w1 cls,
  run_ops m w ops acc = Ok (w1, cls) ->
  forall acc2, exists cls', run_ops m w (accepted_ops m w ops) acc2 = Ok (w1, cls').
Proof.
  induction ops as [|op rest IH]; intros w acc w1 cls H acc2.
  - cbn in *. injection H as <- _. eauto.
  - cbn [accepted_ops]. destruct (apply_op m w op) as [w'|e|s|] eqn:E.
    + rewrite (run_ops_accepted _ _ _ _ _ _ E) in H. rewrite (run_ops_accepted _ _ _ _ _ _ E). exact (IH _ _ _ _ H _).
    + rewrite (run_ops_rejected _ _ _ _ _ _ E) in H. exact (IH _ _ _ _ H _).
    + cbn [run_ops] in H. unfold apply_op in E. destruct op; rewrite E in H; discriminate.
    + cbn [run_ops] in H. unfold apply_op in E. destruct op; rewrite E in H; discriminate.
Qed.
