(** Round trip of [IlstItemBox] and [IlstBox] (ilst.rs) *)
From MP4 Require Import KitCont BoxIlst IsoIlst IsoData RtData.
From Coq Require Import ZifyN ZifyNat ZifyBool.
Open Scope string_scope.
Open Scope list_scope.
Open Scope N_scope.

Lemma ilst_code : u32_of_boxtype (box_type_of "IlstBox") = 0x696c7374.
Proof. vm_compute. reflexivity. Qed.
Lemma ilst_bt_data : boxtype_of_u32 0x64617461 = DataBox. Proof. vm_compute. reflexivity. Qed.

(** ** IlstItemBox: a container with one 'data' child; its header is written by [IlstBox] *)
Definition ilst_item_i_data := ci_of data_size 0x64617461 iso_data_payload (fun _ => 0%nat)
                                     (fun x (_ : option data) => Some x).
Definition ilst_item_items (v : ilst_item) : list (citem (option data)) := [ilst_item_i_data (ilst_item_data v)].

Lemma ilst_item_items_ok m v : ilst_item_wf v = true -> ilst_item_size v < U32 ->
  Forall (ci_ok (ilst_item_dispatch m)) (ilst_item_items v).
Proof.
  intros H Hs. unfold ilst_item_wf in H.
  apply Forall_one. revert Hs. unfold ilst_item_size. intros Hs.
  assert (Hsz : data_size (ilst_item_data v) < U32) by (clear -Hs; hdr_consts; lia).
  revert Hsz. ci_leaf (cont_of_leaf _ _ _ _ _ _ data_roundtrip) ilst_bt_data.
Qed.

Lemma ilst_item_dec_ok :
  cont_dec_ok ilst_item_wf ilst_item_size dec_ilst_item_fuel iso_ilst_item_payload (fun _ => 1%nat).
Proof.
  intros v H Hs.
  assert (Hsz : ilst_item_size v = 8 + ci_total (ilst_item_items v))
    by (unfold ilst_item_size; hdr_consts; unfold ci_total; cbn; lia).
  assert (Hiso : flat_map ci_iso (ilst_item_items v) = iso_ilst_item_payload v) by apply app_nil_r.
  split.
  - apply (cont_payload_len (ilst_item_dispatch Dbg) (ilst_item_items v)); auto.
    now apply ilst_item_items_ok.
  - intros fuel m d l p post Hf Hp. unfold dec_ilst_item_fuel.
    rewrite (cont_dec_items m _ (ilst_item_size v) (ilst_item_dispatch m) (ilst_item_items v)
                            (iso_ilst_item_payload v));
      [ | now apply ilst_item_items_ok | exact Hiso | exact Hsz | exact Hp | cbn; lia ].
    cbn [ilst_item_items ci_fold fold_left ilst_item_i_data ci_of ci_upd].
    rewrite run_cont_finish by (clear -Hp; lia). destruct v; reflexivity.
Qed.

(** ** IlstBox *)
Lemma ilst_bt_key k : boxtype_of_u32 (iso_mkey_code k) = mkey_boxtype k.
Proof. destruct k; vm_compute; reflexivity. Qed.
Lemma ilst_key_code k : u32_of_boxtype (mkey_boxtype k) = iso_mkey_code k.
Proof. destruct k; vm_compute; reflexivity. Qed.
Lemma ilst_key_lt k : iso_mkey_code k < U32.
Proof. destruct k; vm_compute; reflexivity. Qed.

Definition ilst_i (p : mkey * ilst_item) : citem (list (mkey * ilst_item)) :=
  ci_of ilst_item_size (iso_mkey_code (fst p)) iso_ilst_item_payload (fun _ => 1%nat)
        (fun x l => ilst_insert (fst p) x l) (snd p).

Definition ilst_citems (v : ilst) := map ilst_i (ilst_items v).

Definition ilst_fuel (v : ilst) : nat := (length (ilst_items v) + 1)%nat.

Lemma ilst_items_iso v : flat_map ci_iso (ilst_citems v) = iso_ilst_payload v.
Proof. unfold ilst_citems. rewrite flat_map_ci_iso_map. reflexivity. Qed.

Lemma ilst_items_size v : ilst_size v = 8 + ci_total (ilst_citems v).
Proof.
  unfold ilst_size, ilst_citems.
  rewrite (ci_total_map ilst_i (fun p => ilst_item_size (snd p))) by reflexivity.
  hdr_consts. lia.
Qed.

Lemma ilst_items_fuel v : (length (ilst_citems v) + ci_maxneed (ilst_citems v) <= ilst_fuel v)%nat.
Proof.
  unfold ilst_fuel, ilst_citems. rewrite map_length.
  pose proof (ci_maxneed_map_le ilst_i (ilst_items v) 1%nat (fun _ => le_n _)). lia.
Qed.

Lemma ilst_items_ok m v : ilst_wf v = true -> ilst_size v < U32 ->
  Forall (ci_ok (ilst_dispatch m)) (ilst_citems v).
Proof.
  intros H Hs. apply Forall_ci_ok_total; [| rewrite ilst_items_size in Hs; clear -Hs; lia].
  unfold ilst_wf in H. apply andb_true_iff in H as [_ H].
  unfold ilst_citems. apply Forall_ci_map. intros [k it] Hx.
  pose proof (forallb_In _ _ _ H Hx) as Hw. cbn [snd] in Hw.
  intros Hsz. unfold ilst_i. cbn [fst snd] in *.
  eapply (ci_ok_of_dec _ _ _ _ _ _ _ _ m it ilst_item_dec_ok).
  - apply ilst_key_lt.
  - intros f s acc. rewrite ilst_bt_key. destruct k; reflexivity.
  - exact Hw.
  - exact Hsz.
Qed.

Lemma ilst_payload_len v : ilst_wf v = true -> ilst_size v < U32 ->
  lenN (iso_ilst_payload v) + 8 = ilst_size v.
Proof.
  intros H Hs. apply (cont_payload_len (ilst_dispatch Dbg) (ilst_citems v)).
  - now apply ilst_items_ok.
  - apply ilst_items_iso.
  - apply ilst_items_size.
Qed.

Lemma ilst_entry_enc p : ilst_item_wf (snd p) = true -> ilst_item_size (snd p) < U32 ->
  wspec (enc_ilst_entry p) (data_size (ilst_item_data (snd p)))
        (iso_box (iso_mkey_code (fst p)) (iso_ilst_item_payload (snd p))).
Proof.
  intros H Hs. destruct p as [k it]. cbn [fst snd] in *.
  assert (Hd : data_size (ilst_item_data it) < U32)
    by (clear -Hs; unfold ilst_item_size in Hs; hdr_consts; lia).
  pose proof (cont_rt_len _ _ _ _ _ _ _ (ilst_item_data it) (cont_of_leaf _ _ _ _ _ _ data_roundtrip) H Hd) as Hlen.
  unfold enc_ilst_entry, iso_ilst_item_payload. cbn [fst snd].
  eapply wspec_out.
  - wspec_go. apply (cont_rt_wspec _ _ _ _ _ _ _ _ (cont_of_leaf _ _ _ _ _ _ data_roundtrip)); assumption.
  - rewrite ilst_key_code.
    assert (E : iso_box (iso_mkey_code k) (iso_box 0x64617461 (iso_data_payload (ilst_item_data it)))
                = be 4 (ilst_item_size it) ++ be 4 (iso_mkey_code k)
                  ++ iso_box 0x64617461 (iso_data_payload (ilst_item_data it))).
    { unfold iso_box at 1. rewrite lenN_iso_box.
      replace (8 + (8 + lenN (iso_data_payload (ilst_item_data it)))) with (ilst_item_size it)
        by (clear -Hlen; unfold ilst_item_size; hdr_consts; lia).
      reflexivity. }
    rewrite E. rewrite <- ?app_assoc, ?app_nil_r. reflexivity.
Qed.

Lemma ilst_enc v : ilst_wf v = true -> ilst_size v < U32 ->
  wspec (enc_ilst v) (ilst_size v) (be 4 (ilst_size v) ++ be 4 0x696c7374 ++ iso_ilst_payload v).
Proof.
  intros H Hs. rewrite <- ilst_code. unfold ilst_wf in H. apply andb_true_iff in H as [_ H].
  unfold enc_ilst, iso_ilst_payload.
  eapply wspec_out.
  - wspec_go.
    apply (wspec_wr_each _ (fun p => iso_box (iso_mkey_code (fst p)) (iso_ilst_item_payload (snd p)))).
    intros x Hx. eexists. apply ilst_entry_enc.
    + apply (forallb_In _ _ _ H Hx).
    + pose proof (sumN_map_In_le (fun p => ilst_item_size (snd p)) _ _ Hx) as Hle.
      unfold ilst_size in Hs. clear -Hs Hle. cbv beta in Hle. hdr_consts. lia.
  - unfold iso_all. rewrite <- ?app_assoc, ?app_nil_r. reflexivity.
Qed.

(** inserting the bindings of a duplicate-free list one after the other rebuilds the list *)
Lemma ilst_insert_fresh k x l :
  existsb (fun p => mkey_eqb (fst p) k) l = false -> ilst_insert k x l = l ++ [(k, x)].
Proof.
  intros H. unfold ilst_insert. f_equal.
  induction l as [|[k' v'] t IH]; cbn [filter]; [reflexivity|].
  cbn [existsb fst] in H. apply orb_false_iff in H as [H1 H2].
  cbn [fst]. rewrite H1. cbn [negb]. f_equal. now apply IH.
Qed.

Lemma mkey_eqb_sym a b : mkey_eqb a b = mkey_eqb b a.
Proof. destruct a, b; reflexivity. Qed.

Lemma ilst_keys_nodup_app_inv l1 k x l2 :
  ilst_keys_nodup (l1 ++ (k, x) :: l2) = true ->
  existsb (fun p => mkey_eqb (fst p) k) l1 = false /\ ilst_keys_nodup ((l1 ++ [(k, x)]) ++ l2) = true.
Proof.
  intros H. split.
  - induction l1 as [|[k' v'] t IH]; [reflexivity|].
    cbn [app ilst_keys_nodup] in H. apply andb_true_iff in H as [H1 H2].
    cbn [existsb fst]. rewrite (IH H2), orb_false_r.
    rewrite existsb_app in H1. cbn [existsb fst] in H1.
    apply negb_true_iff in H1. apply orb_false_iff in H1 as [_ H1]. apply orb_false_iff in H1 as [H1 _].
    now rewrite mkey_eqb_sym.
  - now rewrite <- app_assoc.
Qed.

Lemma ilst_fold l2 : forall l1, ilst_keys_nodup (l1 ++ l2) = true ->
  ci_fold (map ilst_i l2) l1 = l1 ++ l2.
Proof.
  induction l2 as [|[k x] t IH]; intros l1 H; cbn [map ci_fold fold_left].
  - now rewrite app_nil_r.
  - destruct (ilst_keys_nodup_app_inv l1 k x t H) as [Hf Hn].
    unfold ci_fold in IH. cbn [ilst_i ci_of ci_upd fst snd].
    rewrite ilst_insert_fresh by exact Hf. rewrite IH by exact Hn. now rewrite <- app_assoc.
Qed.

Lemma ilst_dec v fuel m d l p post : ilst_wf v = true -> ilst_size v < U32 ->
  (ilst_fuel v <= fuel)%nat -> p + ilst_size v < 2 ^ 63 ->
  run (dec_ilst_fuel fuel m (ilst_size v)) (mkStream d l (p + 8) (iso_ilst_payload v ++ post))
  = (Ok v, mkStream d l (p + ilst_size v) post).
Proof.
  intros H Hs Hf Hp. unfold dec_ilst_fuel.
  rewrite (cont_dec_items m _ (ilst_size v) (ilst_dispatch m) (ilst_citems v) (iso_ilst_payload v));
    [ | now apply ilst_items_ok | apply ilst_items_iso | apply ilst_items_size | exact Hp
      | pose proof (ilst_items_fuel v); lia ].
  unfold ilst_wf in H. apply andb_true_iff in H as [H _].
  unfold ilst_citems. rewrite (ilst_fold (ilst_items v) []) by exact H. cbn [app].
  rewrite run_cont_finish by (clear -Hp; lia). destruct v; reflexivity.
Qed.

Theorem ilst_roundtrip :
  cont_roundtrip ilst_wf ilst_size 0x696c7374 enc_ilst dec_ilst_fuel iso_ilst_payload ilst_fuel.
Proof.
  apply cont_roundtrip_intro.
  - apply ilst_enc.
  - apply ilst_payload_len.
  - intros; now apply ilst_dec.
Qed.

(** a key cannot occur twice in a [HashMap]; the model's list can, and then the earlier binding
    is lost on the way back (what [ilst_wf] excludes) *)
Lemma ilst_duplicate_key_lost :
  let a := mkIlstItem (mkData [1] "Binary") in
  let b := mkIlstItem (mkData [2] "Binary") in
  let v := mkIlst [(KTitle, a); (KTitle, b)] in
  ilst_wf v = false /\
  fst (run (dec_ilst_fuel 10 Dbg (ilst_size v)) (stream_at (wout (enc_ilst v)) 8)) = Ok (mkIlst [(KTitle, b)]).
Proof. vm_compute. split; reflexivity. Qed.

Print Assumptions ilst_roundtrip.
