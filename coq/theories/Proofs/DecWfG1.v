(** * Decoded values are well formed; re-encoding is a fixpoint (C04, second half) — group G1:
    ftyp mvhd mdhd tkhd mehd mfhd tfdt trex smhd vmhd tfhd tx3g vpcc vp09 hdlr.

    Per box:  [dec_xxx_post]  (the [post] judgement of DecWfKitG1.v),
              [dec_xxx_wf]    (IF the decoder returns [Ok v] on any stream of bytes THEN [xxx_wf v = true]),
              [xxx_reencode_fixpoint] (hence encoding [v] succeeds and decoding the encoding gives [v] again). *)
From MP4 Require Import DecWfKitG1.
From MP4 Require Import BoxFtyp BoxHdlr BoxMdhd BoxMehd BoxMfhd BoxMvhd BoxSmhd BoxTfdt BoxTfhd BoxTkhd BoxTrex BoxTx3g BoxVmhd BoxVp09 BoxVpcc.
From MP4 Require Import IsoFtyp IsoHdlr IsoMdhd IsoMehd IsoMfhd IsoSmhd IsoTfdt IsoTfhd IsoTkhd IsoTrex IsoTx3g IsoVmhd IsoVp09 IsoVpcc.
From MP4 Require Import RtFtyp RtHdlr RtMdhd RtMehd RtMfhd RtMvhd RtSmhd RtTfdt RtTfhd RtTkhd RtTrex RtTx3g RtVmhd RtVp09 RtVpcc.
From Coq Require Import ZArith ZifyN ZifyNat ZifyBool Lia.
Open Scope string_scope.
Open Scope list_scope.
Open Scope N_scope.

(** the version test of the full boxes with a 32-bit and a 64-bit layout *)
Ltac version_tac :=
  match goal with
  | H : (?v =? 1) = true |- _ => rewrite H, (version_lt2_1 _ H)
  | H1 : (?v =? 1) = false, H0 : (?v =? 0) = true |- _ => rewrite H1, (version_lt2_0 _ H0)
  end.

(** ** mfhd *)
Lemma dec_mfhd_post m size : post (dec_mfhd m size) (fun v => mfhd_wf v = true).
Proof.
  unfold dec_mfhd. post_go. unfold mfhd_wf. cbn [mfhd_version mfhd_flags mfhd_sequence_number].
  wf_split; wf_atom.
Qed.

Lemma dec_mfhd_wf : forall m size s v s', run (dec_mfhd m size) s = (Ok v, s') ->
  bytes_ok (s_view s) = true -> bytes_ok (s_data s) = true -> mfhd_wf v = true.
Proof. exact (wf_of_post _ _ dec_mfhd_post). Qed.

Theorem mfhd_reencode_fixpoint : forall m size s v s', run (dec_mfhd m size) s = (Ok v, s') ->
  bytes_ok (s_view s) = true -> bytes_ok (s_data s) = true -> mfhd_size v < U32 ->
  wfin (enc_mfhd v) = Ok (mfhd_size v) /\
  forall m' d l p post, p + mfhd_size v < 2 ^ 63 ->
    run (dec_mfhd m' (mfhd_size v)) (mkStream d l (p + 8) (dropN 8 (wout (enc_mfhd v)) ++ post))
    = (Ok v, mkStream d l (p + mfhd_size v) post).
Proof. exact (fixpoint_of_post _ _ _ _ _ _ mfhd_roundtrip dec_mfhd_post). Qed.

(** ** trex *)
Lemma dec_trex_post m size : post (dec_trex m size) (fun v => trex_wf v = true).
Proof.
  unfold dec_trex. post_go. unfold trex_wf.
  cbn [trex_version trex_flags trex_track_id trex_default_sample_description_index
       trex_default_sample_duration trex_default_sample_size trex_default_sample_flags].
  wf_split; wf_atom.
Qed.

Lemma dec_trex_wf : forall m size s v s', run (dec_trex m size) s = (Ok v, s') ->
  bytes_ok (s_view s) = true -> bytes_ok (s_data s) = true -> trex_wf v = true.
Proof. exact (wf_of_post _ _ dec_trex_post). Qed.

Theorem trex_reencode_fixpoint : forall m size s v s', run (dec_trex m size) s = (Ok v, s') ->
  bytes_ok (s_view s) = true -> bytes_ok (s_data s) = true -> trex_size v < U32 ->
  wfin (enc_trex v) = Ok (trex_size v) /\
  forall m' d l p post, p + trex_size v < 2 ^ 63 ->
    run (dec_trex m' (trex_size v)) (mkStream d l (p + 8) (dropN 8 (wout (enc_trex v)) ++ post))
    = (Ok v, mkStream d l (p + trex_size v) post).
Proof. exact (fixpoint_of_post _ _ _ _ _ _ trex_roundtrip dec_trex_post). Qed.

(** ** vmhd *)
Lemma dec_vmhd_post m size : post (dec_vmhd m size) (fun v => vmhd_wf v = true).
Proof.
  unfold dec_vmhd. post_go. unfold vmhd_wf, vmhd_rgb_wf.
  cbn [vmhd_version vmhd_flags vmhd_graphics_mode vmhd_op_color vmhd_rgb_red vmhd_rgb_green vmhd_rgb_blue].
  wf_split; wf_atom.
Qed.

Lemma dec_vmhd_wf : forall m size s v s', run (dec_vmhd m size) s = (Ok v, s') ->
  bytes_ok (s_view s) = true -> bytes_ok (s_data s) = true -> vmhd_wf v = true.
Proof. exact (wf_of_post _ _ dec_vmhd_post). Qed.

Theorem vmhd_reencode_fixpoint : forall m size s v s', run (dec_vmhd m size) s = (Ok v, s') ->
  bytes_ok (s_view s) = true -> bytes_ok (s_data s) = true -> vmhd_size v < U32 ->
  wfin (enc_vmhd v) = Ok (vmhd_size v) /\
  forall m' d l p post, p + vmhd_size v < 2 ^ 63 ->
    run (dec_vmhd m' (vmhd_size v)) (mkStream d l (p + 8) (dropN 8 (wout (enc_vmhd v)) ++ post))
    = (Ok v, mkStream d l (p + vmhd_size v) post).
Proof. exact (fixpoint_of_post _ _ _ _ _ _ vmhd_roundtrip dec_vmhd_post). Qed.

(** ** smhd *)
Lemma dec_smhd_post m size : post (dec_smhd m size) (fun v => smhd_wf v = true).
Proof.
  unfold dec_smhd. post_go. unfold smhd_wf. cbn [smhd_version smhd_flags smhd_balance].
  wf_split; wf_atom.
Qed.

Lemma dec_smhd_wf : forall m size s v s', run (dec_smhd m size) s = (Ok v, s') ->
  bytes_ok (s_view s) = true -> bytes_ok (s_data s) = true -> smhd_wf v = true.
Proof. exact (wf_of_post _ _ dec_smhd_post). Qed.

Theorem smhd_reencode_fixpoint : forall m size s v s', run (dec_smhd m size) s = (Ok v, s') ->
  bytes_ok (s_view s) = true -> bytes_ok (s_data s) = true -> smhd_size v < U32 ->
  wfin (enc_smhd v) = Ok (smhd_size v) /\
  forall m' d l p post, p + smhd_size v < 2 ^ 63 ->
    run (dec_smhd m' (smhd_size v)) (mkStream d l (p + 8) (dropN 8 (wout (enc_smhd v)) ++ post))
    = (Ok v, mkStream d l (p + smhd_size v) post).
Proof. exact (fixpoint_of_post _ _ _ _ _ _ smhd_roundtrip dec_smhd_post). Qed.

(** ** mehd *)
Lemma dec_mehd_post m size : post (dec_mehd m size) (fun v => mehd_wf v = true).
Proof.
  unfold dec_mehd. post_go; unfold mehd_wf; cbn [mehd_version mehd_flags mehd_fragment_duration];
    version_tac; wf_split; wf_atom.
Qed.

Lemma dec_mehd_wf : forall m size s v s', run (dec_mehd m size) s = (Ok v, s') ->
  bytes_ok (s_view s) = true -> bytes_ok (s_data s) = true -> mehd_wf v = true.
Proof. exact (wf_of_post _ _ dec_mehd_post). Qed.

Theorem mehd_reencode_fixpoint : forall m size s v s', run (dec_mehd m size) s = (Ok v, s') ->
  bytes_ok (s_view s) = true -> bytes_ok (s_data s) = true -> mehd_size v < U32 ->
  wfin (enc_mehd v) = Ok (mehd_size v) /\
  forall m' d l p post, p + mehd_size v < 2 ^ 63 ->
    run (dec_mehd m' (mehd_size v)) (mkStream d l (p + 8) (dropN 8 (wout (enc_mehd v)) ++ post))
    = (Ok v, mkStream d l (p + mehd_size v) post).
Proof. exact (fixpoint_of_post _ _ _ _ _ _ mehd_roundtrip dec_mehd_post). Qed.

(** ** tfdt *)
Lemma dec_tfdt_post m size : post (dec_tfdt m size) (fun v => tfdt_wf v = true).
Proof.
  unfold dec_tfdt. post_go; unfold tfdt_wf; cbn [tfdt_version tfdt_flags tfdt_base_media_decode_time];
    version_tac; wf_split; wf_atom.
Qed.

Lemma dec_tfdt_wf : forall m size s v s', run (dec_tfdt m size) s = (Ok v, s') ->
  bytes_ok (s_view s) = true -> bytes_ok (s_data s) = true -> tfdt_wf v = true.
Proof. exact (wf_of_post _ _ dec_tfdt_post). Qed.

Theorem tfdt_reencode_fixpoint : forall m size s v s', run (dec_tfdt m size) s = (Ok v, s') ->
  bytes_ok (s_view s) = true -> bytes_ok (s_data s) = true -> tfdt_size v < U32 ->
  wfin (enc_tfdt v) = Ok (tfdt_size v) /\
  forall m' d l p post, p + tfdt_size v < 2 ^ 63 ->
    run (dec_tfdt m' (tfdt_size v)) (mkStream d l (p + 8) (dropN 8 (wout (enc_tfdt v)) ++ post))
    = (Ok v, mkStream d l (p + tfdt_size v) post).
Proof. exact (fixpoint_of_post _ _ _ _ _ _ tfdt_roundtrip dec_tfdt_post). Qed.

(** ** ftyp *)
Lemma dec_ftyp_post m size : post (dec_ftyp m size) (fun v => ftyp_wf v = true).
Proof.
  unfold dec_ftyp. post_step. post_step; [apply post_throw|].
  do 2 post_step. post_norm.
  apply post_rd_n_bind with (R := fun x => x < 256 ^ N.of_nat 4); [apply post_rd_u|].
  intros brands _ HF. post_go. unfold ftyp_wf.
  cbn [ftyp_major_brand ftyp_minor_version ftyp_compatible_brands].
  wf_split; try wf_atom.
  eapply Forall_forallb; [|exact HF]. intros y Hy. now apply ufit_true.
Qed.

Lemma dec_ftyp_wf : forall m size s v s', run (dec_ftyp m size) s = (Ok v, s') ->
  bytes_ok (s_view s) = true -> bytes_ok (s_data s) = true -> ftyp_wf v = true.
Proof. exact (wf_of_post _ _ dec_ftyp_post). Qed.

Theorem ftyp_reencode_fixpoint : forall m size s v s', run (dec_ftyp m size) s = (Ok v, s') ->
  bytes_ok (s_view s) = true -> bytes_ok (s_data s) = true -> ftyp_size v < U32 ->
  wfin (enc_ftyp v) = Ok (ftyp_size v) /\
  forall m' d l p post, p + ftyp_size v < 2 ^ 63 ->
    run (dec_ftyp m' (ftyp_size v)) (mkStream d l (p + 8) (dropN 8 (wout (enc_ftyp v)) ++ post))
    = (Ok v, mkStream d l (p + ftyp_size v) post).
Proof. exact (fixpoint_of_post _ _ _ _ _ _ ftyp_roundtrip dec_ftyp_post). Qed.

(** ** mvhd *)
Lemma post_rd_matrix_bind {A} (k : matrix -> prog A) Q :
  (forall x, matrix_wf x = true -> post (k x) Q) -> post (bind rd_matrix k) Q.
Proof.
  intros H. unfold rd_matrix. post_go. apply H. unfold matrix_wf.
  cbn [mx_a mx_b mx_u mx_c mx_d mx_v mx_x mx_y mx_w]. wf_split; wf_atom.
Qed.

Lemma dec_mvhd_post m size : post (dec_mvhd m size) (fun v => mvhd_wf v = true).
Proof.
  unfold dec_mvhd. post_go; (apply post_rd_matrix_bind; intros mx Hmx); post_go;
    unfold mvhd_wf;
    cbn [mvhd_version mvhd_flags mvhd_creation_time mvhd_modification_time mvhd_timescale
         mvhd_duration mvhd_rate mvhd_volume mvhd_matrix mvhd_next_track_id];
    version_tac; wf_split; wf_atom.
Qed.

Lemma dec_mvhd_wf : forall m size s v s', run (dec_mvhd m size) s = (Ok v, s') ->
  bytes_ok (s_view s) = true -> bytes_ok (s_data s) = true -> mvhd_wf v = true.
Proof. exact (wf_of_post _ _ dec_mvhd_post). Qed.

Theorem mvhd_reencode_fixpoint : forall m size s v s', run (dec_mvhd m size) s = (Ok v, s') ->
  bytes_ok (s_view s) = true -> bytes_ok (s_data s) = true -> mvhd_size v < U32 ->
  wfin (enc_mvhd v) = Ok (mvhd_size v) /\
  forall m' d l p post, p + mvhd_size v < 2 ^ 63 ->
    run (dec_mvhd m' (mvhd_size v)) (mkStream d l (p + 8) (dropN 8 (wout (enc_mvhd v)) ++ post))
    = (Ok v, mkStream d l (p + mvhd_size v) post).
Proof. exact (fixpoint_of_post _ _ _ _ _ _ mvhd_roundtrip dec_mvhd_post). Qed.

(** ** tkhd *)
Lemma dec_tkhd_post m size : post (dec_tkhd m size) (fun v => tkhd_wf v = true).
Proof.
  unfold dec_tkhd. post_go; (apply post_rd_matrix_bind; intros mx Hmx); post_go;
    unfold tkhd_wf;
    cbn [tkhd_version tkhd_flags tkhd_creation_time tkhd_modification_time tkhd_track_id
         tkhd_duration tkhd_layer tkhd_alternate_group tkhd_volume tkhd_matrix tkhd_width tkhd_height];
    version_tac; wf_split; wf_atom.
Qed.

Lemma dec_tkhd_wf : forall m size s v s', run (dec_tkhd m size) s = (Ok v, s') ->
  bytes_ok (s_view s) = true -> bytes_ok (s_data s) = true -> tkhd_wf v = true.
Proof. exact (wf_of_post _ _ dec_tkhd_post). Qed.

Theorem tkhd_reencode_fixpoint : forall m size s v s', run (dec_tkhd m size) s = (Ok v, s') ->
  bytes_ok (s_view s) = true -> bytes_ok (s_data s) = true -> tkhd_size v < U32 ->
  wfin (enc_tkhd v) = Ok (tkhd_size v) /\
  forall m' d l p post, p + tkhd_size v < 2 ^ 63 ->
    run (dec_tkhd m' (tkhd_size v)) (mkStream d l (p + 8) (dropN 8 (wout (enc_tkhd v)) ++ post))
    = (Ok v, mkStream d l (p + tkhd_size v) post).
Proof. exact (fixpoint_of_post _ _ _ _ _ _ tkhd_roundtrip dec_tkhd_post). Qed.

(** ** mdhd *)
(** every string [language_string] produces consists of three characters 0x60 + a 5-bit value *)
Lemma land31_range x : in_range 96 127 (N.land x 31 + 96) = true.
Proof.
  change 31 with (N.ones 5). rewrite N.land_ones.
  pose proof (N.mod_upper_bound x (2 ^ 5)) as H. change (2 ^ 5) with 32 in *.
  unfold in_range. apply andb_true_iff. split; apply N.leb_le; lia.
Qed.

Lemma language_string_wf code : mdhd_lang_wf (language_string code) = true.
Proof. unfold language_string, mdhd_lang_wf. now rewrite !land31_range. Qed.

Lemma dec_mdhd_post m size : post (dec_mdhd m size) (fun v => mdhd_wf v = true).
Proof.
  unfold dec_mdhd. post_go;
    unfold mdhd_wf;
    cbn [mdhd_version mdhd_flags mdhd_creation_time mdhd_modification_time mdhd_timescale
         mdhd_duration mdhd_language];
    version_tac; rewrite language_string_wf; wf_split; wf_atom.
Qed.

Lemma dec_mdhd_wf : forall m size s v s', run (dec_mdhd m size) s = (Ok v, s') ->
  bytes_ok (s_view s) = true -> bytes_ok (s_data s) = true -> mdhd_wf v = true.
Proof. exact (wf_of_post _ _ dec_mdhd_post). Qed.

Theorem mdhd_reencode_fixpoint : forall m size s v s', run (dec_mdhd m size) s = (Ok v, s') ->
  bytes_ok (s_view s) = true -> bytes_ok (s_data s) = true -> mdhd_size v < U32 ->
  wfin (enc_mdhd v) = Ok (mdhd_size v) /\
  forall m' d l p post, p + mdhd_size v < 2 ^ 63 ->
    run (dec_mdhd m' (mdhd_size v)) (mkStream d l (p + 8) (dropN 8 (wout (enc_mdhd v)) ++ post))
    = (Ok v, mkStream d l (p + mdhd_size v) post).
Proof. exact (fixpoint_of_post _ _ _ _ _ _ mdhd_roundtrip dec_mdhd_post). Qed.

(** ** tfhd *)
Lemma post_tfhd_rd_opt F flags w :
  post (tfhd_rd_opt F flags (rd_u w)) (fun o => tfhd_opt_wf F flags w o = true).
Proof.
  unfold tfhd_rd_opt. destruct (tfhd_has F flags) eqn:E.
  - apply post_rd_u_bind. intros x Hx. apply post_ret. unfold tfhd_opt_wf. now rewrite E, ufit_true.
  - apply post_ret. unfold tfhd_opt_wf. now rewrite E.
Qed.

Lemma dec_tfhd_post m size : post (dec_tfhd m size) (fun v => tfhd_wf v = true).
Proof.
  unfold dec_tfhd. do 3 post_step. post_norm.
  do 5 (eapply post_bind; [apply post_tfhd_rd_opt | intros ? ?]; cbn beta).
  post_go. unfold tfhd_wf.
  cbn [tfhd_version tfhd_flags tfhd_track_id tfhd_base_data_offset tfhd_sample_description_index
       tfhd_default_sample_duration tfhd_default_sample_size tfhd_default_sample_flags].
  wf_split; wf_atom.
Qed.

Lemma dec_tfhd_wf : forall m size s v s', run (dec_tfhd m size) s = (Ok v, s') ->
  bytes_ok (s_view s) = true -> bytes_ok (s_data s) = true -> tfhd_wf v = true.
Proof. exact (wf_of_post _ _ dec_tfhd_post). Qed.

Theorem tfhd_reencode_fixpoint : forall m size s v s', run (dec_tfhd m size) s = (Ok v, s') ->
  bytes_ok (s_view s) = true -> bytes_ok (s_data s) = true -> tfhd_size v < U32 ->
  wfin (enc_tfhd v) = Ok (tfhd_size v) /\
  forall m' d l p post, p + tfhd_size v < 2 ^ 63 ->
    run (dec_tfhd m' (tfhd_size v)) (mkStream d l (p + 8) (dropN 8 (wout (enc_tfhd v)) ++ post))
    = (Ok v, mkStream d l (p + tfhd_size v) post).
Proof. exact (fixpoint_of_post _ _ _ _ _ _ tfhd_roundtrip dec_tfhd_post). Qed.

(** ** tx3g *)
Lemma dec_tx3g_post m size : post (dec_tx3g m size) (fun v => tx3g_wf v = true).
Proof.
  unfold dec_tx3g. post_go. unfold tx3g_wf, rgba_wf.
  cbn [tx3g_data_reference_index tx3g_display_flags tx3g_horizontal_justification
       tx3g_vertical_justification tx3g_bg_color_rgba tx3g_box_record tx3g_style_record
       rgba_red rgba_green rgba_blue rgba_alpha forallb].
  wf_split; wf_atom.
Qed.

Lemma dec_tx3g_wf : forall m size s v s', run (dec_tx3g m size) s = (Ok v, s') ->
  bytes_ok (s_view s) = true -> bytes_ok (s_data s) = true -> tx3g_wf v = true.
Proof. exact (wf_of_post _ _ dec_tx3g_post). Qed.

Theorem tx3g_reencode_fixpoint : forall m size s v s', run (dec_tx3g m size) s = (Ok v, s') ->
  bytes_ok (s_view s) = true -> bytes_ok (s_data s) = true -> tx3g_size v < U32 ->
  wfin (enc_tx3g v) = Ok (tx3g_size v) /\
  forall m' d l p post, p + tx3g_size v < 2 ^ 63 ->
    run (dec_tx3g m' (tx3g_size v)) (mkStream d l (p + 8) (dropN 8 (wout (enc_tx3g v)) ++ post))
    = (Ok v, mkStream d l (p + tx3g_size v) post).
Proof. exact (fixpoint_of_post _ _ _ _ _ _ tx3g_roundtrip dec_tx3g_post). Qed.

(** ** vpcc *)
Lemma shiftr4_lt16 b : b < 256 ^ N.of_nat 1 -> (N.shiftr b 4 <? 16) = true.
Proof.
  intros H. rewrite pow256_1 in H. apply N.ltb_lt. rewrite N.shiftr_div_pow2.
  change (2 ^ 4) with 16. apply N.div_lt_upper_bound; lia.
Qed.

Lemma shiftr5_cast8_lt8 x : (N.shiftr (cast_w U8 x) 5 <? 8) = true.
Proof.
  apply N.ltb_lt. rewrite N.shiftr_div_pow2. change (2 ^ 5) with 32. unfold cast_w, U8.
  pose proof (N.mod_upper_bound x 256) as H. apply N.div_lt_upper_bound; lia.
Qed.

Lemma dec_vpcc_post m size : post (dec_vpcc m size) (fun v => vpcc_wf v = true).
Proof.
  unfold dec_vpcc. post_go. unfold vpcc_wf.
  cbn [vpcc_version vpcc_flags vpcc_profile vpcc_level vpcc_bit_depth vpcc_chroma_subsampling
       vpcc_color_primaries vpcc_transfer_characteristics vpcc_matrix_coefficients
       vpcc_codec_initialization_data_size].
  rewrite shiftr5_cast8_lt8, shiftr4_lt16 by assumption.
  wf_split; wf_atom.
Qed.

Lemma dec_vpcc_wf : forall m size s v s', run (dec_vpcc m size) s = (Ok v, s') ->
  bytes_ok (s_view s) = true -> bytes_ok (s_data s) = true -> vpcc_wf v = true.
Proof. exact (wf_of_post _ _ dec_vpcc_post). Qed.

Theorem vpcc_reencode_fixpoint : forall m size s v s', run (dec_vpcc m size) s = (Ok v, s') ->
  bytes_ok (s_view s) = true -> bytes_ok (s_data s) = true -> vpcc_size v < U32 ->
  wfin (enc_vpcc v) = Ok (vpcc_size v) /\
  forall m' d l p post, p + vpcc_size v < 2 ^ 63 ->
    run (dec_vpcc m' (vpcc_size v)) (mkStream d l (p + 8) (dropN 8 (wout (enc_vpcc v)) ++ post))
    = (Ok v, mkStream d l (p + vpcc_size v) post).
Proof. exact (fixpoint_of_post _ _ _ _ _ _ vpcc_roundtrip dec_vpcc_post). Qed.

(** ** vp09 *)
Lemma dec_vp09_post m size : post (dec_vp09 m size) (fun v => vp09_wf v = true).
Proof.
  unfold dec_vp09. post_go. apply post_bind_any. intros [name hsize].
  post_step; [apply post_throw|].
  eapply post_bind; [apply dec_vpcc_post|]. intros vp Hvp. cbn beta. post_go.
  unfold vp09_wf.
  cbn [vp09_version vp09_flags vp09_start_code vp09_data_reference_index vp09_reserved0 vp09_width
       vp09_height vp09_horizresolution vp09_vertresolution vp09_reserved1 vp09_frame_count
       vp09_compressorname vp09_depth vp09_end_code vp09_vpcc fst snd].
  wf_split; try wf_atom; apply N.eqb_eq; assumption.
Qed.

Lemma dec_vp09_wf : forall m size s v s', run (dec_vp09 m size) s = (Ok v, s') ->
  bytes_ok (s_view s) = true -> bytes_ok (s_data s) = true -> vp09_wf v = true.
Proof. exact (wf_of_post _ _ dec_vp09_post). Qed.

Theorem vp09_reencode_fixpoint : forall m size s v s', run (dec_vp09 m size) s = (Ok v, s') ->
  bytes_ok (s_view s) = true -> bytes_ok (s_data s) = true -> vp09_size v < U32 ->
  wfin (enc_vp09 v) = Ok (vp09_size v) /\
  forall m' d l p post, p + vp09_size v < 2 ^ 63 ->
    run (dec_vp09 m' (vp09_size v)) (mkStream d l (p + 8) (dropN 8 (wout (enc_vp09 v)) ++ post))
    = (Ok v, mkStream d l (p + vp09_size v) post).
Proof. exact (fixpoint_of_post _ _ _ _ _ _ vp09_roundtrip dec_vp09_post). Qed.

(** ** hdlr *)
(** what [HdlrBox::read_box] makes of the name bytes: cut at the first NUL, then
    [String::from_utf8(..).unwrap_or_default()] *)
Lemma vl_trim_nul_ok l : bytes_ok l = true ->
  bytes_ok (vl_trim_nul l) = true /\ vl_no_nul (vl_trim_nul l) = true.
Proof.
  induction l as [|b t IH]; intros H; cbn [vl_trim_nul]; [auto|].
  cbn [bytes_ok forallb] in H. apply andb_true_iff in H as [Hb Ht].
  destruct (b =? 0) eqn:E; [auto|]. destruct (IH Ht) as [H1 H2].
  unfold vl_no_nul in *. cbn [bytes_ok forallb]. fold (bytes_ok (vl_trim_nul t)).
  now rewrite Hb, H1, E, H2.
Qed.

Lemma vl_str_ok_decoded l : bytes_ok l = true -> vl_str_ok (vl_utf8_or_default (vl_trim_nul l)) = true.
Proof.
  intros H. destruct (vl_trim_nul_ok l H) as [H1 H2]. unfold vl_utf8_or_default.
  destruct (utf8_valid (vl_trim_nul l)) eqn:E; [|reflexivity].
  unfold vl_str_ok. now rewrite H1, E, H2.
Qed.

Lemma dec_hdlr_post m size : post (dec_hdlr m size) (fun v => hdlr_wf v = true).
Proof.
  unfold dec_hdlr. post_go. unfold hdlr_wf. cbn [hdlr_version hdlr_flags hdlr_handler_type hdlr_name].
  rewrite vl_str_ok_decoded by assumption.
  wf_split; wf_atom.
Qed.

Lemma dec_hdlr_wf : forall m size s v s', run (dec_hdlr m size) s = (Ok v, s') ->
  bytes_ok (s_view s) = true -> bytes_ok (s_data s) = true -> hdlr_wf v = true.
Proof. exact (wf_of_post _ _ dec_hdlr_post). Qed.

Theorem hdlr_reencode_fixpoint : forall m size s v s', run (dec_hdlr m size) s = (Ok v, s') ->
  bytes_ok (s_view s) = true -> bytes_ok (s_data s) = true -> hdlr_size v < U32 ->
  wfin (enc_hdlr v) = Ok (hdlr_size v) /\
  forall m' d l p post, p + hdlr_size v < 2 ^ 63 ->
    run (dec_hdlr m' (hdlr_size v)) (mkStream d l (p + 8) (dropN 8 (wout (enc_hdlr v)) ++ post))
    = (Ok v, mkStream d l (p + hdlr_size v) post).
Proof. exact (fixpoint_of_post _ _ _ _ _ _ hdlr_roundtrip dec_hdlr_post). Qed.

Print Assumptions mfhd_reencode_fixpoint.
Print Assumptions trex_reencode_fixpoint.
Print Assumptions vmhd_reencode_fixpoint.
Print Assumptions smhd_reencode_fixpoint.
Print Assumptions mehd_reencode_fixpoint.
Print Assumptions tfdt_reencode_fixpoint.
Print Assumptions ftyp_reencode_fixpoint.
Print Assumptions mvhd_reencode_fixpoint.
Print Assumptions tkhd_reencode_fixpoint.
Print Assumptions mdhd_reencode_fixpoint.
Print Assumptions tfhd_reencode_fixpoint.
Print Assumptions tx3g_reencode_fixpoint.
Print Assumptions vpcc_reencode_fixpoint.
Print Assumptions vp09_reencode_fixpoint.
Print Assumptions hdlr_reencode_fixpoint.
