(** * Lemmas shared by the round-trip proofs of avc1.rs, hev1.rs and mp4a.rs *)
From MP4 Require Export Kit PrimCodecs.
From Coq Require Import ZifyN ZifyNat ZifyBool.
Open Scope string_scope.
Open Scope list_scope.
Open Scope N_scope.

(** ** the write loop *)
Lemma wr_each_appender {A B} (f : A -> wprog B) l :
  (forall x, In x l -> appender (f x)) -> appender (wr_each f l).
Proof.
  induction l as [|x t IH]; intros H; cbn [wr_each appender]; [exact I|].
  apply appender_bind; [apply H; now left | intros _; apply IH; intros y Hy; apply H; now right].
Qed.

Lemma wr_each_spec {A B} (f : A -> wprog B) (enc : A -> bytes) l :
  (forall x, In x l -> appender (f x) /\ is_ok (wfin (f x)) = true /\ wout (f x) = enc x) ->
  wfin (wr_each f l) = Ok tt /\ wout (wr_each f l) = flat_map enc l.
Proof.
  induction l as [|x t IH]; intros H; cbn [wr_each flat_map wfin wout]; [auto|].
  destruct (H x (or_introl eq_refl)) as (Ha & H1 & H2).
  destruct IH as [I1 I2]; [intros y Hy; apply H; now right|].
  rewrite wfin_bind, wout_bind by exact Ha. rewrite H2.
  destruct (wfin (f x)); try discriminate. cbn [res_bind]. now rewrite I1, I2.
Qed.

Lemma wr_each_bind {A B C} (f : A -> wprog B) (enc : A -> bytes) l (k : unit -> wprog C) :
  (forall x, In x l -> appender (f x) /\ is_ok (wfin (f x)) = true /\ wout (f x) = enc x) ->
  wfin (wbind (wr_each f l) k) = wfin (k tt) /\
  wout (wbind (wr_each f l) k) = flat_map enc l ++ wout (k tt).
Proof.
  intros H. destruct (wr_each_spec f enc l H) as [H1 H2].
  assert (Ha : appender (wr_each f l)) by (apply wr_each_appender; intros x Hx; apply H, Hx).
  rewrite wfin_bind, wout_bind by exact Ha. rewrite H1, H2. cbn [res_bind]. auto.
Qed.

Lemma wr_each_wfin_bind {A B C} (f : A -> wprog B) (enc : A -> bytes) l (k : unit -> wprog C) :
  (forall x, In x l -> appender (f x) /\ is_ok (wfin (f x)) = true /\ wout (f x) = enc x) ->
  wfin (wbind (wr_each f l) k) = wfin (k tt).
Proof. intros H. apply (wr_each_bind f enc l k H). Qed.

Lemma wr_each_wout_bind {A B C} (f : A -> wprog B) (enc : A -> bytes) l (k : unit -> wprog C) :
  (forall x, In x l -> appender (f x) /\ is_ok (wfin (f x)) = true /\ wout (f x) = enc x) ->
  wout (wbind (wr_each f l) k) = flat_map enc l ++ wout (k tt).
Proof. intros H. apply (wr_each_bind f enc l k H). Qed.

Lemma wr_each_appender_bind {A B C} (f : A -> wprog B) l (k : unit -> wprog C) :
  (forall x, In x l -> appender (f x)) -> appender (k tt) -> appender (wbind (wr_each f l) k).
Proof.
  intros Ha Hk. apply appender_bind; [now apply wr_each_appender | intros []; exact Hk].
Qed.

(** ** lists and sums *)
Lemma to_nat_lenN' {A} (l : list A) : N.to_nat (lenN l) = length l.
Proof. unfold lenN. apply Nat2N.id. Qed.

Lemma sumN_cons a l : sumN (a :: l) = a + sumN l.
Proof. reflexivity. Qed.

Lemma lenN_flat_map {A} (enc : A -> bytes) l :
  lenN (flat_map enc l) = sumN (map (fun x => lenN (enc x)) l).
Proof.
  induction l as [|x t IH]; cbn [flat_map map]; [reflexivity|].
  rewrite lenN_app, IH, sumN_cons. reflexivity.
Qed.

Lemma fold_left_sum {A} (f : A -> N) l a :
  fold_left (fun s x => s + f x) l a = a + sumN (map f l).
Proof.
  revert a; induction l as [|x t IH]; intros a; cbn [fold_left map].
  - unfold sumN. cbn [fold_right]. lia.
  - rewrite IH, sumN_cons. lia.
Qed.

Lemma sumN_map_ext_in {A} (f g : A -> N) l :
  (forall x, In x l -> f x = g x) -> sumN (map f l) = sumN (map g l).
Proof.
  induction l as [|x t IH]; intros H; cbn [map]; [reflexivity|].
  rewrite !sumN_cons, H by (now left). rewrite IH; [reflexivity|]. intros y Hy. apply H. now right.
Qed.

Lemma flat_map_ext_in' {A B} (f g : A -> list B) l :
  (forall x, In x l -> f x = g x) -> flat_map f l = flat_map g l.
Proof.
  intros H. induction l as [|x t IH]; cbn [flat_map]; [reflexivity|].
  rewrite H by (now left). rewrite IH; [reflexivity|]. intros y Hy. apply H. now right.
Qed.

(** ** reads *)
Lemma run_Alloc' {A} n (k : prog A) s : run (Alloc n k) s = run k s.
Proof. reflexivity. Qed.

Lemma run_GetPos {A} (k : N -> prog A) d l p v :
  run (GetPos k) (mkStream d l p v) = run (k p) (mkStream d l p v).
Proof. reflexivity. Qed.

(** [rd_vec] in raw form, an empty vector included *)
Lemma run_rd_vec_raw {A} n h rest (k : bytes -> prog A) d l p :
  lenN h = n ->
  run (Alloc n (RdExact n k)) (mkStream d l p (h ++ rest)) = run (k h) (mkStream d l (p + n) rest).
Proof.
  intros Hn. cbn [run].
  destruct (N.eqb_spec n 0) as [->|Hz].
  - destruct h; [|rewrite lenN_cons in Hn; lia]. cbn [app]. now rewrite N.add_0_r.
  - cbn [s_view]. rewrite (splitN_app_n n h rest Hn). reflexivity.
Qed.

(** a counted loop over entries of varying length; the entry reader may rely on the entry
    ending at or before [pend] *)
Lemma run_rd_n_var {A B} (body : prog A) (encode : A -> bytes) (pend : N) (xs : list A)
      (k : list A -> prog B) d l p rest :
  (forall x (k' : A -> prog B) p' rest', In x xs -> p' + lenN (encode x) <= pend ->
      run (bind body k') (mkStream d l p' (encode x ++ rest'))
      = run (k' x) (mkStream d l (p' + lenN (encode x)) rest')) ->
  p + lenN (flat_map encode xs) <= pend ->
  run (bind (rd_n (length xs) body) k) (mkStream d l p (flat_map encode xs ++ rest))
  = run (k xs) (mkStream d l (p + lenN (flat_map encode xs)) rest).
Proof.
  revert k p. induction xs as [|x xs IH]; intros k p H Hp.
  - cbn [length rd_n bind flat_map app]. change (lenN (@nil N)) with 0. now rewrite N.add_0_r.
  - cbn [length rd_n flat_map] in *. rewrite lenN_app in Hp. rewrite <- app_assoc.
    rewrite bind_bind. rewrite H by (first [now left | clear -Hp; lia]).
    rewrite bind_bind. rewrite IH by (first [intros; apply H; [now right | assumption] | clear -Hp; lia]).
    cbn [bind]. rewrite lenN_app. f_equal. f_equal. lia.
Qed.

(** ** exhaustive checks of bit-field identities over a small range *)
Lemma forall_below (P : N -> bool) (n : nat) :
  forallb P (map N.of_nat (seq 0 n)) = true -> forall x, x < N.of_nat n -> P x = true.
Proof.
  intros H x Hx. rewrite forallb_forall in H. apply H.
  apply in_map_iff. exists (N.to_nat x). split; [lia|]. apply in_seq. lia.
Qed.

Lemma forall_below2 (P : N -> N -> bool) (n1 n2 : nat) :
  forallb (fun a => forallb (P a) (map N.of_nat (seq 0 n2))) (map N.of_nat (seq 0 n1)) = true ->
  forall x y, x < N.of_nat n1 -> y < N.of_nat n2 -> P x y = true.
Proof.
  intros H x y Hx Hy.
  pose proof (forall_below _ n1 H x Hx) as H1. cbv beta in H1.
  exact (forall_below _ n2 H1 y Hy).
Qed.

Lemma b2n_cases (P : bool -> Prop) : P true -> P false -> forall b, P b.
Proof. intros ? ? []; assumption. Qed.

Lemma eqb_of_forall_below (f g : N -> N) (n : nat) :
  forallb (fun x => f x =? g x) (map N.of_nat (seq 0 n)) = true ->
  forall x, x < N.of_nat n -> f x = g x.
Proof. intros H x Hx. apply N.eqb_eq. exact (forall_below _ n H x Hx). Qed.

Lemma eqb_of_forall_below2 (f g : N -> N -> N) (n1 n2 : nat) :
  forallb (fun a => forallb (fun b => f a b =? g a b) (map N.of_nat (seq 0 n2))) (map N.of_nat (seq 0 n1)) = true ->
  forall x y, x < N.of_nat n1 -> y < N.of_nat n2 -> f x y = g x y.
Proof. intros H x y Hx Hy. apply N.eqb_eq. exact (forall_below2 _ n1 n2 H x y Hx Hy). Qed.


Lemma forall_below3 (P : N -> N -> N -> bool) (n1 n2 n3 : nat) :
  forallb (fun a => forallb (fun b => forallb (P a b) (map N.of_nat (seq 0 n3)))
                            (map N.of_nat (seq 0 n2))) (map N.of_nat (seq 0 n1)) = true ->
  forall x y z, x < N.of_nat n1 -> y < N.of_nat n2 -> z < N.of_nat n3 -> P x y z = true.
Proof.
  intros H x y z Hx Hy Hz.
  pose proof (forall_below _ n1 H x Hx) as H1. cbv beta in H1.
  pose proof (forall_below _ n2 H1 y Hy) as H2. cbv beta in H2.
  exact (forall_below _ n3 H2 z Hz).
Qed.

Lemma eqb_of_forall_below3 (f g : N -> N -> N -> N) (n1 n2 n3 : nat) :
  forallb (fun a => forallb (fun b => forallb (fun c => f a b c =? g a b c) (map N.of_nat (seq 0 n3)))
                            (map N.of_nat (seq 0 n2))) (map N.of_nat (seq 0 n1)) = true ->
  forall x y z, x < N.of_nat n1 -> y < N.of_nat n2 -> z < N.of_nat n3 -> f x y z = g x y z.
Proof. intros H x y z Hx Hy Hz. apply N.eqb_eq. exact (forall_below3 _ n1 n2 n3 H x y z Hx Hy Hz). Qed.

(** two bytes of a 16-bit big-endian value *)
Lemma be_2_split a b : a < 256 -> b < 256 -> be 2 (a * 256 + b) = be 1 a ++ be 1 b.
Proof.
  intros Ha Hb. unfold be. cbn [le rev app].
  replace ((a * 256 + b) mod 256) with b by lia.
  replace ((a * 256 + b) / 256) with a by lia.
  rewrite (N.mod_small b 256) by exact Hb. reflexivity.
Qed.

(** mode-dependent u8 addition that does not overflow *)
Lemma wadd8_ok {B} m site a b (k : N -> wprog B) : a + b < 256 ->
  wbind (wadd8 m site a b) k = k (a + b).
Proof. intros H. unfold wadd8. rewrite add_w_ok by exact H. reflexivity. Qed.

Lemma forall_below4 (P : N -> N -> N -> N -> bool) (n1 n2 n3 n4 : nat) :
  forallb (fun a => forallb (fun b => forallb (fun c => forallb (P a b c) (map N.of_nat (seq 0 n4)))
                                              (map N.of_nat (seq 0 n3)))
                            (map N.of_nat (seq 0 n2))) (map N.of_nat (seq 0 n1)) = true ->
  forall x y z w, x < N.of_nat n1 -> y < N.of_nat n2 -> z < N.of_nat n3 -> w < N.of_nat n4 ->
    P x y z w = true.
Proof.
  intros H x y z w Hx Hy Hz Hw.
  pose proof (forall_below _ n1 H x Hx) as H1. cbv beta in H1.
  pose proof (forall_below _ n2 H1 y Hy) as H2. cbv beta in H2.
  pose proof (forall_below _ n3 H2 z Hz) as H3. cbv beta in H3.
  exact (forall_below _ n4 H3 w Hw).
Qed.

Lemma eqb_of_forall_below4 (f g : N -> N -> N -> N -> N) (n1 n2 n3 n4 : nat) :
  forallb (fun a => forallb (fun b => forallb (fun c => forallb (fun e => f a b c e =? g a b c e)
                                                                (map N.of_nat (seq 0 n4)))
                                              (map N.of_nat (seq 0 n3)))
                            (map N.of_nat (seq 0 n2))) (map N.of_nat (seq 0 n1)) = true ->
  forall x y z w, x < N.of_nat n1 -> y < N.of_nat n2 -> z < N.of_nat n3 -> w < N.of_nat n4 ->
    f x y z w = g x y z w.
Proof. intros H x y z w Hx Hy Hz Hw. apply N.eqb_eq. exact (forall_below4 _ n1 n2 n3 n4 H x y z w Hx Hy Hz Hw). Qed.

Lemma wr_u24_small' {B} x (k : unit -> wprog B) : x < 256 ^ N.of_nat 3 ->
  wbind (wr_u24 x) k = WrAll (be 3 x) (k tt).
Proof.
  intros H. rewrite pow256_3 in H. unfold wr_u24, U24. apply N.ltb_lt in H. rewrite H. reflexivity.
Qed.
Lemma wr_u48_small {B} x (k : unit -> wprog B) : x < 256 ^ N.of_nat 6 ->
  wbind (wr_u48 x) k = WrAll (be 6 x) (k tt).
Proof.
  intros H. rewrite pow256_6 in H. unfold wr_u48, U48. apply N.ltb_lt in H. rewrite H. reflexivity.
Qed.
