(** * C07/C08: hvcC and hev1 cost at most a small linear function of their box size

    Since the fix "check the hvcC nal unit count against the box before allocating" every
    allocation of [HvcCBox::read_box] except the [arrays] vector itself (at most 255 * 32 bytes) is
    paid for by bytes of the box:
    - a NAL unit of announced length [size] is only allocated after [position + size <= end];
    - an array of [num_nalus] units is only allocated (32 bytes of bookkeeping per unit) after
      [2 * num_nalus <= end - position], and when it has been read the position has moved by at
      least [2 * num_nalus].
    With the potential [end - position] this telescopes over the two nested loops: the requests
    of one hvcC box are at most [17 * size + 8160] bytes and its work at most [3 * size + 1600]
    (6 units per array header: up to 255 headers may lie beyond the end of the box).

    [rsat p c Q]: run [c] from [p]; no [OutOfFuel], and [Q] holds of the result, the final position,
    the work and the allocation. *)
From MP4 Require Import Cost CostLoop CostCont BoxHev1.
From Coq Require Import ZArith ZifyN ZifyNat ZifyBool Lia.
Open Scope N_scope.

Section Hvcc.
  Variable d : bytes.
  Hypothesis Hd : bytes_ok d = true.
  Hypothesis Hlen : lenN d < 2 ^ 62.

  Definition rsat {A} (p : N) (c : prog A) (Q : res A -> N -> N -> N -> Prop) : Prop :=
    let '(r, p', k) := mrun c d p in r <> OutOfFuel /\ Q r p' (cwork k) (c_asum k).

  Lemma rsat_conseq {A} p (c : prog A) (Q Q' : res A -> N -> N -> N -> Prop) :
    (forall r p' w a, Q r p' w a -> Q' r p' w a) -> rsat p c Q -> rsat p c Q'.
  Proof. unfold rsat. destruct (mrun c d p) as [[r p'] k]. intros H [H1 H2]. auto. Qed.

  Lemma rsat_Ret {A} p (x : A) (Q : res A -> N -> N -> N -> Prop) : Q (Ok x) p 0 0 -> rsat p (Ret x) Q.
  Proof. unfold rsat. rewrite mrun_Ret. intros H. split; [discriminate|exact H]. Qed.
  Lemma rsat_Throw {A} p e (Q : res A -> N -> N -> N -> Prop) : Q (Err e) p 0 0 -> rsat p (Throw e) Q.
  Proof. unfold rsat. rewrite mrun_Throw. intros H. split; [discriminate|exact H]. Qed.

  Lemma rsat_bind {A B} p (c : prog A) (f : A -> prog B) (Q : res B -> N -> N -> N -> Prop) :
    rsat p c (fun r p1 w1 a1 =>
      match r with
      | Ok x => rsat p1 (f x) (fun r2 p2 w2 a2 => Q r2 p2 (w1 + w2) (a1 + a2))
      | Err e => Q (Err e) p1 w1 a1
      | Panic y => Q (Panic y) p1 w1 a1
      | OutOfFuel => True
      end) -> rsat p (bind c f) Q.
  Proof.
    unfold rsat. rewrite mrun_bind. destruct (mrun c d p) as [[r p1] k1]. intros [H1 H2].
    destruct r as [x|e|y|]; [| split; [discriminate|exact H2] | split; [discriminate|exact H2] | congruence].
    destruct (mrun (f x) d p1) as [[r2 p2] k2]. rewrite cwork_cadd, casum_cadd. exact H2.
  Qed.

  (** a step whose positional contract is known: its cost is bounded, its final position is only
      known on success *)
  Lemma rsat_step {A B} p (c : prog A) (f : A -> prog B) W Al (R : A -> N -> Prop)
        (Q : res B -> N -> N -> N -> Prop) :
    csat d p c W Al R ->
    (forall p1 w1 a1 e, w1 <= W -> a1 <= Al -> Q (Err e) p1 w1 a1) ->
    (forall p1 w1 a1 y, w1 <= W -> a1 <= Al -> Q (Panic y) p1 w1 a1) ->
    (forall x p1 w1 a1, w1 <= W -> a1 <= Al -> R x p1 ->
       rsat p1 (f x) (fun r2 p2 w2 a2 => Q r2 p2 (w1 + w2) (a1 + a2))) ->
    rsat p (bind c f) Q.
  Proof.
    intros Hc He Hp Hk. apply rsat_bind. unfold csat in Hc. unfold rsat at 1.
    destruct (mrun c d p) as [[r p1] k1]. destruct Hc as (H1 & H2 & H3 & H4).
    split; [exact H1|]. destruct r as [x|e|y|]; auto.
  Qed.

  (** from the amortised form back to a plain contract *)
  Lemma csat_of_rsat {A} p (c : prog A) W Al (Q : res A -> N -> N -> N -> Prop) :
    rsat p c Q -> (forall r p' w a, Q r p' w a -> w <= W /\ a <= Al) ->
    csat d p c W Al (fun _ _ => True).
  Proof.
    unfold rsat, csat. destruct (mrun c d p) as [[r p'] k]. intros [H1 H2] H.
    destruct (H _ _ _ _ H2). auto.
  Qed.

  Ltac rstep := eapply rsat_step; [csat_prim; try eassumption; try (sat_consts; lia) | ..].
  Ltac rfail post := intros; unfold post; sat_consts; lia.

  Variable m : mode.
  Variable e : N.   (* [end = start + size] of the hvcC box *)

  (** ** one NAL unit: two length bytes and [size] data bytes, all before [e] *)
  Definition nalu_post (p : N) (r : res hvccnalu) (p' w a : N) : Prop :=
    match r with
    | Ok _ => p + 2 <= p' /\ p' <= e /\ w <= 3 + (p' - p) /\ a + 2 <= p' - p
    | _ => w <= 5 + (e - p) /\ a <= e - p
    end.

  Lemma nalu_spec p : rsat p (dec_hvccnalu m e) (nalu_post p).
  Proof.
    unfold dec_hvccnalu, rd_u16.
    rstep; [rfail nalu_post | rfail nalu_post |].
    intros sz p1 w1 a1 Hw1 Ha1 (Hsz & -> & Hp1).
    rstep; [rfail nalu_post | rfail nalu_post |].
    intros pos p2 w2 a2 Hw2 Ha2 (-> & ->).
    rstep; [rfail nalu_post | rfail nalu_post |].
    intros t p3 w3 a3 Hw3 Ha3 (Ht & ->).
    assert (Et : t = p + N.of_nat 2 + sz) by (apply Ht; clear -Hsz Hp1 Hlen; sat_consts; lia).
    subst t. clear Ht.
    destruct (N.ltb_spec e (p + N.of_nat 2 + sz)) as [Hbig|Hfit].
    - apply rsat_Throw. unfold nalu_post. clear -Hw1 Ha1 Hw2 Ha2 Hw3 Ha3. sat_consts. lia.
    - rstep; [rfail nalu_post | rfail nalu_post |].
      intros data p4 w4 a4 Hw4 Ha4 (_ & -> & _).
      apply rsat_Ret. unfold nalu_post. clear -Hw1 Ha1 Hw2 Ha2 Hw3 Ha3 Hw4 Ha4 Hfit. sat_consts. lia.
  Qed.

  (** ** the NAL units of one array: [n] units move the position by at least [2 * n] *)
  Definition nalus_post (n p : N) (r : res (list hvccnalu)) (p' w a : N) : Prop :=
    match r with
    | Ok _ => p + 2 * n <= p' /\ p' <= N.max e p /\ w <= 3 * n + (p' - p) /\ a + 2 * n <= p' - p
    | _ => w <= 5 + 3 * (e - p) /\ a <= e - p
    end.

  Lemma nalus_spec n : forall p, rsat p (rd_n n (dec_hvccnalu m e)) (nalus_post (N.of_nat n) p).
  Proof.
    induction n as [|n IH]; intros p; cbn [rd_n].
    - apply rsat_Ret. unfold nalus_post. cbn [N.of_nat]. lia.
    - apply rsat_bind. eapply rsat_conseq; [|apply nalu_spec]. cbv beta.
      intros r p1 w1 a1 H1. destruct r as [x|?|?|]; unfold nalu_post in H1;
        [|unfold nalus_post; clear -H1; lia..|exact I].
      destruct H1 as (G1 & G2 & G3 & G4).
      apply rsat_bind. eapply rsat_conseq; [|apply IH]. cbv beta.
      intros r2 p2 w2 a2 H2. destruct r2 as [l|?|?|]; unfold nalus_post in *;
        [|clear -G1 G2 G3 G4 H2; lia..|exact I].
      apply rsat_Ret. rewrite Nat2N.inj_succ. clear -G1 G2 G3 G4 H2. lia.
  Qed.

  (** ** one array: the count is checked against [e - position] before the allocation *)
  Definition array_post (p : N) (r : res hvccarray) (p' w a : N) : Prop :=
    match r with
    | Ok _ => p <= p' /\ w + 3 * (e - p') <= 6 + 3 * (e - p) /\ a + 17 * (e - p') <= 17 * (e - p)
    | _ => w <= 11 + 3 * (e - p) /\ a <= 17 * (e - p)
    end.

  Lemma array_spec p : rsat p (dec_hvccarray m e) (array_post p).
  Proof.
    unfold dec_hvccarray, rd_u8, rd_u16.
    rstep; [rfail array_post | rfail array_post |].
    intros params p1 w1 a1 Hw1 Ha1 (_ & -> & _).
    rstep; [rfail array_post | rfail array_post |].
    intros n p2 w2 a2 Hw2 Ha2 (Hn & -> & _).
    rstep; [rfail array_post | rfail array_post |].
    intros pos p3 w3 a3 Hw3 Ha3 (-> & ->).
    destruct (N.ltb_spec (e - (p + N.of_nat 1 + N.of_nat 2)) (n * 2)) as [Hbig|Hfit].
    - apply rsat_Throw. unfold array_post. clear -Hw1 Ha1 Hw2 Ha2 Hw3 Ha3. sat_consts. lia.
    - rstep; [rfail array_post | rfail array_post |].
      intros [] p4 w4 a4 Hw4 Ha4 ->.
      apply rsat_bind. eapply rsat_conseq; [|apply nalus_spec]. cbv beta.
      rewrite N2Nat.id.
      intros r p5 w5 a5 H5. destruct r as [l|?|?|]; unfold nalus_post in H5;
        [|unfold array_post; clear -Hw1 Ha1 Hw2 Ha2 Hw3 Ha3 Hw4 Ha4 Hfit H5; sat_consts; lia..|exact I].
      apply rsat_Ret. unfold array_post. clear -Hw1 Ha1 Hw2 Ha2 Hw3 Ha3 Hw4 Ha4 Hfit H5. sat_consts. lia.
  Qed.

  (** ** the arrays: 6 units of work per header, everything else is paid by the potential *)
  Definition arrays_post (n p : N) (r : res (list hvccarray)) (p' w a : N) : Prop :=
    match r with
    | Ok _ => p <= p' /\ w + 3 * (e - p') <= 6 * n + 3 * (e - p) /\ a + 17 * (e - p') <= 17 * (e - p)
    | _ => w <= 6 * n + 5 + 3 * (e - p) /\ a <= 17 * (e - p)
    end.

  Lemma arrays_spec n : forall p, rsat p (rd_n n (dec_hvccarray m e)) (arrays_post (N.of_nat n) p).
  Proof.
    induction n as [|n IH]; intros p; cbn [rd_n].
    - apply rsat_Ret. unfold arrays_post. cbn [N.of_nat]. lia.
    - apply rsat_bind. eapply rsat_conseq; [|apply array_spec]. cbv beta.
      intros r p1 w1 a1 H1. destruct r as [x|?|?|]; unfold array_post in H1;
        [|unfold arrays_post; rewrite Nat2N.inj_succ; clear -H1; lia..|exact I].
      destruct H1 as (G1 & G2 & G3).
      apply rsat_bind. eapply rsat_conseq; [|apply IH]. cbv beta.
      intros r2 p2 w2 a2 H2. destruct r2 as [l|?|?|]; unfold arrays_post in *;
        [|rewrite Nat2N.inj_succ; clear -G1 G2 G3 H2; lia..|exact I].
      apply rsat_Ret. rewrite Nat2N.inj_succ. clear -G1 G2 G3 H2. lia.
  Qed.

  Lemma arrays_csat n p :
    csat d p (rd_n n (dec_hvccarray m e)) (6 * N.of_nat n + 5 + 3 * (e - p)) (17 * (e - p))
         (fun _ _ => True).
  Proof.
    eapply csat_of_rsat; [apply arrays_spec|]. cbv beta.
    intros r p' w a H. destruct r; unfold arrays_post in H; lia.
  Qed.
End Hvcc.

(** ** the two boxes, as contracts in the box size *)
Section HvccBoxes.
  Variable d : bytes.
  Hypothesis Hd : bytes_ok d = true.
  Hypothesis Hlen : lenN d < 2 ^ 62.

  Ltac hvcc_arrays :=
    lazymatch goal with
    | |- cacc _ _ _ _ (bind (rd_n _ (dec_hvccarray _ _)) _) _ _ _ =>
        eapply cacc_bind; [apply (arrays_csat d Hd Hlen)|carith|carith|cbn beta; intros ? ? _]
    end.

  Theorem hvcc_spec m : dspec d (dec_hvcc m) 3 1600 17 8160.
  Proof.
    intros p s H8 Hp Hs. apply ispec_of_csat, csat_of_cacc. unfold dec_hvcc.
    repeat first [hvcc_arrays | cacc_step].
  Qed.

  Theorem hev1_spec m : dspec d (dec_hev1 m) 3 1800 17 8160.
  Proof.
    intros p s H8 Hp Hs. apply ispec_of_csat, csat_of_cacc. unfold dec_hev1.
    repeat first
      [ lazymatch goal with
        | |- cacc _ _ _ _ (bind (dec_hvcc _ _) _) _ _ _ =>
            eapply cacc_child; [apply (hvcc_spec m); carith|carith|carith|intros ?]
        end
      | cacc_step ].
  Qed.
End HvccBoxes.

Print Assumptions hvcc_spec.
Print Assumptions hev1_spec.
