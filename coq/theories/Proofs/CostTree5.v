(** * C07/C08, composition (5): dref, dinf *)
From MP4 Require Import Cost CostLeaf CostLoop CostCont CostTree CostTree2 CostTree3.
From MP4 Require Import BoxDinf BoxMinf.
From Coq Require Import ZArith ZifyN ZifyNat ZifyBool Lia.
Open Scope N_scope.

Ltac ifar := repeat match goal with |- context [if ?b then _ else _] => destruct b eqn:? end; carith.

Section Tree5.
  Variable d : bytes.
  Hypothesis Hd : bytes_ok d = true.
  Hypothesis Hlen : lenN d < 2 ^ 62.

  (** dref: [for _ in 0..entry_count] with a break at the end of the box: the count is not
      trusted, every iteration that continues consumed a child *)
  Lemma dref_loop_ok m n : forall cur size end_ u, size < 2 ^ 62 ->
    csat d cur (dref_loop m n size end_ u cur)
         (if end_ <=? cur then 0
          else (lvA 0 + lvB 0 + 19) * (end_ - cur) + (lvA 0 * size + lvB 0 + 19))
         (if end_ <=? cur then 0
          else (lvAl 0 + lvBl 0) * (end_ - cur) + (lvAl 0 * size + lvBl 0))
         (fun _ _ => True).
  Proof.
    induction n as [|n IH]; intros cur size end_ u Hsz; apply csat_of_cacc; cbn [dref_loop].
    - apply cacc_Ret; [ifar|ifar|exact I].
    - destruct (end_ <=? cur) eqn:E; [apply cacc_Ret; [carith|carith|exact I]|].
      cacc_step. cacc_step. cacc_step; [cacc_go|]. cacc_step; [cacc_go|].
      cacc_step.
      + apply cacc_assoc. cacc_kid (url_ok d Hd Hlen m). cacc_step. cacc_step.
        eapply cacc_of_csat; [apply (IH _ size end_ _ Hsz)|ifar|ifar|auto].
      + cacc_step. cacc_step. cacc_step. cacc_step.
        eapply cacc_of_csat; [apply (IH _ size end_ _ Hsz)|ifar|ifar|auto].
  Qed.

  Lemma dref_ok m : dok d 1 (dec_dref m).
  Proof.
    intros p s H8 Hp Hs. apply ispec_of_csat, csat_of_cacc. unfold dec_dref. repeat cacc_step.
    eapply cacc_bind; [apply (dref_loop_ok m _ _ s); assumption|ifar|ifar|cbn beta; intros ? ? _].
    match goal with |- context [if ?b then _ else _] => destruct b eqn:? end; cacc_go.
  Qed.

  Lemma dinf_ok m : fok d 2 (fun f s => dec_dinf_fuel f m s).
  Proof.
    eapply (std_ok d Hd Hlen 1) with (m := m) (dispatch := dinf_dispatch m).
    - intros f size. unfold dec_dinf_fuel. reflexivity.
    - intros f name s acc p size H8 Hp Hs1 Hs2 Hsz Hf.
      destruct name; cbn [dinf_dispatch];
        first [disp_child (dref_ok m) | disp_skip].
    - intros start size acc. tail_bnd.
    - intros start size acc q Hov. tail_sat.
  Qed.

End Tree5.
